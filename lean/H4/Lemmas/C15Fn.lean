import H4.Gen.Fn.Dfrle
import H4.Lemmas.Codecs
import H4.Lemmas.C2L
/-! Loop lemmas for `H4.Props.C15Fn`: the loops of `DFCIrle` / `DFCIunrle` of `hdf/src/dfrle.c`, as TRANSLATED from the C text
    (`H4.Gen.Fn.Dfrle`, regenerated on every run), compute the recursions of the hand-written model `H4.Codecs`
    (`runScan`, `encLoop`, `unrleLoop`).  Core only. -/
set_option linter.unusedSimpArgs false
namespace H4.Lemmas.C15Fn
open H4 H4.Codecs H4.Gen.Codecs H4.Gen.Fn.Dfrle

/-- a C `uint8` array as the translated functions see it -/
def bytes (l : List Byte) : List Int := l.map fun b => (b.toNat : Int)

@[simp] theorem bytes_length (l : List Byte) : (bytes l).length = l.length := by simp [bytes]
@[simp] theorem bytes_nil : bytes [] = [] := rfl
@[simp] theorem bytes_cons (a : Byte) (l : List Byte) : bytes (a :: l) = (a.toNat : Int) :: bytes l := rfl
theorem bytes_append (a b : List Byte) : bytes (a ++ b) = bytes a ++ bytes b := by simp [bytes]
theorem bytes_take (l : List Byte) (n : Nat) : bytes (l.take n) = (bytes l).take n := by simp [bytes]
theorem bytes_drop (l : List Byte) (n : Nat) : bytes (l.drop n) = (bytes l).drop n := by simp [bytes]

theorem bytes_getD (l : List Byte) (i : Nat) (h : i < l.length) : (bytes l)[i]?.getD 0 = ((l[i]).toNat : Int) := by
  simp [bytes, h]

theorem bytes_inj {a b : List Byte} (h : bytes a = bytes b) : a = b := by
  induction a generalizing b with
  | nil => cases b <;> simp_all [bytes]
  | cons x xs ih => cases b with
    | nil => simp [bytes] at h
    | cons y ys =>
      simp only [bytes_cons, List.cons.injEq] at h
      obtain ⟨h1, h2⟩ := h
      have : x = y := UInt8.toNat_inj.mp (by omega)
      rw [ih h2, this]

/-! ## `DFCIrle` -/

theorem rle_chk_true (s : DFCIrle.St) (c : Prop) [Decidable c] (h : c) : DFCIrle.chk s c = s := by
  simp [DFCIrle.chk, h]

/-- unfolding of the inner loop under its two access checks -/
theorem rle_loop1_succ (fuel : Nat) (s : DFCIrle.St)
    (c1 : ¬(s.i ≠ 0 ∧ s.i + 120 > s.len) ∨ (0 ≤ s.p ∧ s.p < s.buf.length))
    (c2 : ¬(s.i ≠ 0 ∧ s.i + 120 > s.len) ∨ (0 ≤ s.q ∧ s.q < s.buf.length)) :
    DFCIrle.loop1 (fuel + 1) s =
      if ((s.i ≠ 0 ∧ s.i + 120 > s.len) ∧ s.buf.getD s.p.toNat 0 = s.buf.getD s.q.toNat 0) then
        DFCIrle.loop1 fuel (DFCIrle.loop1.body (fuel + 1) s) else s := by
  rw [DFCIrle.loop1]
  simp only [rle_chk_true s _ c1]
  simp only [rle_chk_true s _ c2]

theorem rle_loop1_zero (s : DFCIrle.St) (h : ¬ (s.i ≠ 0 ∧ s.i + 120 > s.len)) : DFCIrle.loop1 0 s = s := by
  rw [DFCIrle.loop1]
  simp only [rle_chk_true s _ (Or.inl h : ¬(s.i ≠ 0 ∧ s.i + 120 > s.len) ∨ (0 ≤ s.p ∧ s.p < s.buf.length))]
  simp only [rle_chk_true s _ (Or.inl h : ¬(s.i ≠ 0 ∧ s.i + 120 > s.len) ∨ (0 ≤ s.q ∧ s.q < s.buf.length))]
  simp only [h, false_and, if_false]

/-- the inner loop `while (i && i + 120 > len && *p == *q) { q++; i--; }` advances `q` by the model's `runScan`:
    `P`, `Q` = positions of `p`, `q` in the row `bs`; `i = len - (q - p)` throughout -/
theorem rle_loop1 (bs : List Byte) (P : Nat) (hP : P < bs.length) :
    ∀ (n fuel Q : Nat) (s : DFCIrle.St), n ≤ fuel → Q + n = bs.length → P < Q → Q ≤ P + 120 →
      s.buf = bytes bs → s.p = P → s.q = Q → s.i = n → s.len = (bs.length : Int) - P →
      DFCIrle.loop1 fuel s =
        { s with q := ((Q + runScan bs[P] (bs.drop Q) (120 - (Q - P)) : Nat) : Int),
                 i := ((n - runScan bs[P] (bs.drop Q) (120 - (Q - P)) : Nat) : Int) } := by
  intro n
  induction n with
  | zero =>
    intro fuel Q s _ hQ _ _ hb hp hq hi hl
    have hd : bs.drop Q = [] := by simp; omega
    have hc : ¬ (s.i ≠ 0 ∧ s.i + 120 > s.len) := by simp [hi]
    obtain ⟨len, p, q, cfoll, clead, begp, i, diff, buf, bufto, ub, oof, ret⟩ := s
    simp only at hb hp hq hi hl hc
    subst hq hi
    cases fuel with
    | zero => rw [rle_loop1_zero _ hc]; simp [hd, runScan]
    | succ f => rw [rle_loop1_succ _ _ (Or.inl hc) (Or.inl hc)]; simp [hd, runScan]
  | succ n ih =>
    intro fuel Q s hf hQ hPQ hcap hb hp hq hi hl
    obtain ⟨fuel, rfl⟩ : ∃ f, fuel = f + 1 := ⟨fuel - 1, by omega⟩
    have hQl : Q < bs.length := by omega
    have hd : bs.drop Q = bs[Q] :: bs.drop (Q + 1) := List.drop_eq_getElem_cons hQl
    have c1 : ¬(s.i ≠ 0 ∧ s.i + 120 > s.len) ∨ (0 ≤ s.p ∧ s.p < s.buf.length) := Or.inr (by simp [hp, hb]; omega)
    have c2 : ¬(s.i ≠ 0 ∧ s.i + 120 > s.len) ∨ (0 ≤ s.q ∧ s.q < s.buf.length) := Or.inr (by simp [hq, hb]; omega)
    have eP : s.buf.getD s.p.toNat 0 = ((bs[P]).toNat : Int) := by
      rw [hb, hp, List.getD_eq_getElem?_getD]; exact bytes_getD bs P hP
    have eQ : s.buf.getD s.q.toNat 0 = ((bs[Q]).toNat : Int) := by
      rw [hb, hq, List.getD_eq_getElem?_getD]; exact bytes_getD bs Q hQl
    rw [rle_loop1_succ _ _ c1 c2, eP, eQ]
    by_cases hfull : Q = P + 120
    · -- q - p = 120: the scan stops
      have hc : ¬ (s.i ≠ 0 ∧ s.i + 120 > s.len) := by omega
      have h0 : 120 - (Q - P) = 0 := by omega
      obtain ⟨len, p, q, cfoll, clead, begp, i, diff, buf, bufto, ub, oof, ret⟩ := s
      simp only at hb hp hq hi hl hc
      subst hq hi
      rw [hd, h0]
      simp only [hc, false_and, if_false, runScan, Nat.add_zero, Nat.sub_zero]
    · obtain ⟨cap, hcap'⟩ : ∃ c, 120 - (Q - P) = c + 1 := ⟨120 - (Q - P) - 1, by omega⟩
      have hg : s.i ≠ 0 ∧ s.i + 120 > s.len := by omega
      by_cases heq : bs[Q] = bs[P]
      · have hnext := ih fuel (Q + 1) (DFCIrle.loop1.body (fuel + 1) s) (by omega) (by omega) (by omega) (by omega)
          (by simp [DFCIrle.loop1.body, hb]) (by simp [DFCIrle.loop1.body, hp]) (by simp [DFCIrle.loop1.body, hq])
          (by simp [DFCIrle.loop1.body, hi]) (by simp [DFCIrle.loop1.body, hl])
        have hc' : 120 - (Q + 1 - P) = cap := by omega
        rw [if_pos ⟨hg, by rw [heq]⟩, hnext, hd, hcap', hc']
        simp only [runScan, heq, if_true, DFCIrle.loop1.body, DFCIrle.St.set_i]
        congr 1
        all_goals omega
      · have hv : ¬ (((bs[P]).toNat : Int) = ((bs[Q]).toNat : Int)) := by
          intro h; exact heq (UInt8.toNat_inj.mp (by omega)).symm
        obtain ⟨len, p, q, cfoll, clead, begp, i, diff, buf, bufto, ub, oof, ret⟩ := s
        simp only at hb hp hq hi hl hg
        subst hq hi
        rw [hd, hcap']
        simp only [hv, and_false, if_false, runScan, heq, Nat.add_zero, Nat.sub_zero]

theorem rle_scan (bs : List Byte) (P : Nat) (hP : P < bs.length) (f : Nat) (hf : bs.length - P ≤ f + 1)
    (cfoll clead begp diff : Int) (bufto : List Int) (ub oof : Bool) (ret : Int) :
    DFCIrle.loop1 (f + 1) { len := (bs.length : Int) - P, p := P, q := (P : Int) + 1, cfoll := cfoll, clead := clead, begp := begp, i := (bs.length : Int) - P - 1, diff := diff, buf := bytes bs, bufto := bufto, ub := ub, oof := oof, ret := ret } =
      { len := (bs.length : Int) - P, p := P, q := (P : Int) + 1 + (runScan bs[P] (bs.drop (P + 1)) 119 : Nat), cfoll := cfoll, clead := clead, begp := begp, i := (bs.length : Int) - P - 1 - (runScan bs[P] (bs.drop (P + 1)) 119 : Nat), diff := diff, buf := bytes bs, bufto := bufto, ub := ub, oof := oof, ret := ret } := by
  have h := rle_loop1 bs P hP (bs.length - P - 1) (f + 1) (P + 1)
    { len := (bs.length : Int) - P, p := P, q := (P : Int) + 1, cfoll := cfoll, clead := clead, begp := begp, i := (bs.length : Int) - P - 1, diff := diff, buf := bytes bs, bufto := bufto, ub := ub, oof := oof, ret := ret }
    (by omega) (by omega) (by omega) (by omega) rfl rfl (by simp) (by simp; omega) rfl
  rw [h]
  have h119 : 120 - (P + 1 - P) = 119 := by omega
  rw [h119]
  have := (runScan_spec bs[P] (bs.drop (P + 1)) 119).2.1
  simp only [List.length_drop] at this
  congr 1 <;> omega

def rleSt (bs : List Byte) (P L C : Nat) (q i diff : Int) (bufto : List Int) (ret : Int) : DFCIrle.St :=
  { len := (bs.length : Int) - P, p := P, q := q, cfoll := C, clead := (C : Int) + 1 + L, begp := (P : Int) - L, i := i, diff := diff, buf := bytes bs, bufto := bufto, ub := false, oof := false, ret := ret }



/-! ### list facts about the few cells the encoder writes: `A ++ x :: Y ++ …` with `|A| = cfoll`, `Y` = the pending literal bytes -/
section lists
variable {α : Type}

theorem set_pre (A B : List α) (x c : α) (n : Nat) (h : n = A.length) : (A ++ x :: B).set n c = A ++ c :: B := by
  subst h; simp

theorem take_pre (A B : List α) (n : Nat) (h : n = A.length) : (A ++ B).take n = A := by
  subst h; simp

theorem split1 (l : List α) (C L : Nat) (h : C + 1 + L ≤ l.length) :
    ∃ x, l = l.take C ++ x :: ((l.drop (C + 1)).take L ++ l.drop (C + 1 + L)) := by
  refine ⟨l[C], ?_⟩
  have h1 : (l.drop (C + 1)).take L ++ l.drop (C + 1 + L) = l.drop (C + 1) := by
    have : l.drop (C + 1 + L) = (l.drop (C + 1)).drop L := by simp [List.drop_drop]
    rw [this]; exact List.take_append_drop L _
  rw [h1, ← List.drop_eq_getElem_cons (by omega), List.take_append_drop]

theorem split2 (l : List α) (C L : Nat) (h : C + 1 + L < l.length) :
    ∃ x y, l = l.take C ++ x :: ((l.drop (C + 1)).take L ++ y :: l.drop (C + 1 + L + 1)) := by
  obtain ⟨x, hx⟩ := split1 l C L (by omega)
  refine ⟨x, l[C + 1 + L], ?_⟩
  rw [← List.drop_eq_getElem_cons (by omega)]; exact hx

theorem lemA (l : List α) (C L : Nat) (c : α) (h : C + 1 + L ≤ l.length) :
    l.set C c = l.take C ++ c :: ((l.drop (C + 1)).take L ++ l.drop (C + 1 + L)) := by
  obtain ⟨x, hx⟩ := split1 l C L h
  have hA : (l.take C).length = C := by simp; omega
  generalize l.take C = A at *
  generalize (l.drop (C + 1)).take L ++ l.drop (C + 1 + L) = Y at *
  subst hx
  exact set_pre _ _ _ _ _ hA.symm

theorem lemB (l : List α) (a L : Nat) (x : α) (h : a + L < l.length) :
    ((l.set (a + L) x).drop a).take (L + 1) = (l.drop a).take L ++ [x] := by
  have : (l.set (a + L) x).drop a = (l.drop a).set L x := by
    rw [List.drop_set, if_neg (by omega), Nat.add_sub_cancel_left]
  rw [this, List.take_succ_eq_append_getElem (by simp; omega)]
  simp [List.take_set_of_le]

theorem lemC (l : List α) (C L : Nat) (c v : α) (h : C + 1 + L < l.length) :
    ((l.set (C + 1 + L) v).set C c).take (C + 1 + L + 1) = l.take C ++ c :: ((l.drop (C + 1)).take L ++ [v]) := by
  obtain ⟨x, y, hx⟩ := split2 l C L h
  have hA : (l.take C).length = C := by simp; omega
  have hY : ((l.drop (C + 1)).take L).length = L := by simp; omega
  generalize l.take C = A at *
  generalize (l.drop (C + 1)).take L = Y at *
  generalize l.drop (C + 1 + L + 1) = Z at *
  subst hx
  rw [show A ++ x :: (Y ++ y :: Z) = (A ++ x :: Y) ++ y :: Z by simp, set_pre _ _ _ _ _ (by simp; omega)]
  rw [show (A ++ x :: Y) ++ v :: Z = A ++ x :: (Y ++ v :: Z) by simp, set_pre _ _ _ _ _ hA.symm]
  rw [show A ++ c :: (Y ++ v :: Z) = (A ++ c :: (Y ++ [v])) ++ Z by simp, take_pre _ _ _ (by simp; omega)]

theorem lemR1 (l : List α) (C L : Nat) (c a b : α) (h : C + 1 + L + 1 < l.length) :
    (((l.set C c).set (C + 1 + L) a).set (C + 1 + L + 1) b).take (C + 1 + L + 2) = l.take C ++ c :: ((l.drop (C + 1)).take L ++ [a, b]) := by
  obtain ⟨x, y, hx⟩ := split2 l C L (by omega)
  have hA : (l.take C).length = C := by simp; omega
  have hY : ((l.drop (C + 1)).take L).length = L := by simp; omega
  have hZ : 0 < (l.drop (C + 1 + L + 1)).length := by simp; omega
  generalize l.take C = A at *
  generalize (l.drop (C + 1)).take L = Y at *
  generalize l.drop (C + 1 + L + 1) = Z at *
  subst hx
  cases Z with
  | nil => simp at hZ
  | cons z Z =>
    rw [set_pre _ _ _ _ _ hA.symm]
    rw [show A ++ c :: (Y ++ y :: z :: Z) = (A ++ c :: Y) ++ y :: z :: Z by simp, set_pre _ _ _ _ _ (by simp; omega)]
    rw [show (A ++ c :: Y) ++ a :: z :: Z = (A ++ c :: (Y ++ [a])) ++ z :: Z by simp, set_pre _ _ _ _ _ (by simp; omega)]
    rw [show (A ++ c :: (Y ++ [a])) ++ b :: Z = (A ++ c :: (Y ++ [a, b])) ++ Z by simp, take_pre _ _ _ (by simp; omega)]

theorem lemR0 (l : List α) (C : Nat) (a b : α) (h : C + 1 < l.length) :
    ((l.set C a).set (C + 1) b).take (C + 2) = l.take C ++ [a, b] := by
  have := lemC l C 0 a b (by omega)
  rw [List.set_comm _ _ (by omega)] at this
  simpa using this
end lists

theorem rle_body_lit (bs : List Byte) (P L C : Nat) (q i diff : Int) (bufto : List Int) (ret : Int) (f : Nat)
    (hP : P < bs.length) (hf : bs.length - P ≤ f + 1)
    (k : Nat) (hk : runScan bs[P] (bs.drop (P + 1)) 119 = k) (h1 : ¬ (1 + k ≥ 3)) (h2 : L + 1 ≤ 120) (hroom : C + 1 + L < bufto.length) :
    DFCIrle.loop0.body (f + 1) (rleSt bs P L C q i diff bufto ret) =
      rleSt bs (P + 1) (L + 1) C ((P : Int) + 1 + k) ((bs.length : Int) - P - 1 - k) diff (bufto.set (C + 1 + L) (bs[P].toNat : Int)) ret := by
  have c1 : ¬ ((P : Int) + 1 + (k : Nat) - P > 2) := by omega
  have c2 : ¬ ((P : Int) + 1 - ((P : Int) - L) > 120) := by omega
  simp only [DFCIrle.loop0.body, rleSt, DFCIrle.St.set_q, DFCIrle.St.set_i, rle_scan bs P hP f hf, hk, c1, c2, if_false,
    DFCIrle.chk, DFCIrle.St.set_bufto, DFCIrle.St.set_p, DFCIrle.St.set_clead, DFCIrle.St.set_len, DFCIrle.St.set_cfoll, DFCIrle.St.set_begp]
  have e1 : ((C : Int) + 1 + L).toNat = C + 1 + L := by omega
  have e2 : (bytes bs).getD (P : Int).toNat 0 = (bs[P].toNat : Int) := by
    rw [List.getD_eq_getElem?_getD, Int.toNat_natCast]; exact bytes_getD bs P hP
  rw [e1, e2]
  congr 1
  all_goals first | omega | (simp only [Bool.or_eq_false_iff, Bool.not_eq_eq_eq_not, Bool.not_false, decide_eq_true_eq, Bool.false_or, List.length_set, bytes_length]; omega) | (simp; omega)

theorem rle_body_flush (bs : List Byte) (P L C : Nat) (q i diff : Int) (bufto : List Int) (ret : Int) (f : Nat)
    (hP : P < bs.length) (hf : bs.length - P ≤ f + 1)
    (k : Nat) (hk : runScan bs[P] (bs.drop (P + 1)) 119 = k) (h1 : ¬ (1 + k ≥ 3)) (h2 : L + 1 > 120) (h3 : L ≤ 254)
    (hroom : C + 1 + L < bufto.length) :
    DFCIrle.loop0.body (f + 1) (rleSt bs P L C q i diff bufto ret) =
      rleSt bs (P + 1) 0 (C + 1 + L + 1) ((P : Int) + 1 + k) ((bs.length : Int) - P - 1 - k) diff
        ((bufto.set (C + 1 + L) (bs[P].toNat : Int)).set C ((L + 1 : Nat) : Int)) ret := by
  have c1 : ¬ ((P : Int) + 1 + (k : Nat) - P > 2) := by omega
  have c2 : ((P : Int) + 1 - ((P : Int) - L) > 120) := by omega
  simp only [DFCIrle.loop0.body, rleSt, DFCIrle.St.set_q, DFCIrle.St.set_i, rle_scan bs P hP f hf, hk, c1, c2, if_false, if_true,
    DFCIrle.chk, DFCIrle.St.set_bufto, DFCIrle.St.set_p, DFCIrle.St.set_clead, DFCIrle.St.set_len, DFCIrle.St.set_cfoll, DFCIrle.St.set_begp]
  have e1 : ((C : Int) + 1 + L).toNat = C + 1 + L := by omega
  have e2 : (bytes bs).getD (P : Int).toNat 0 = (bs[P].toNat : Int) := by
    rw [List.getD_eq_getElem?_getD, Int.toNat_natCast]; exact bytes_getD bs P hP
  have e3 : ((P : Int) + 1 - ((P : Int) - L)) % 256 = ((L + 1 : Nat) : Int) := by omega
  rw [e1, e2, e3, Int.toNat_natCast]
  congr 1
  all_goals first | omega | (simp only [Bool.or_eq_false_iff, Bool.not_eq_eq_eq_not, Bool.not_false, decide_eq_true_eq, Bool.false_or, List.length_set, bytes_length]; omega) | (simp; omega)

theorem rle_body_run (bs : List Byte) (P L C : Nat) (q i diff : Int) (bufto : List Int) (ret : Int) (f : Nat)
    (hP : P < bs.length) (hf : bs.length - P ≤ f + 1)
    (k : Nat) (hk : runScan bs[P] (bs.drop (P + 1)) 119 = k) (h1 : 1 + k ≥ 3) (h2 : k ≤ 119) (h3 : L ≤ 254) (hL : 0 < L)
    (hroom : C + 1 + L + 1 < bufto.length) :
    DFCIrle.loop0.body (f + 1) (rleSt bs P L C q i diff bufto ret) =
      rleSt bs (P + 1 + k) 0 (C + 1 + L + 2) ((P : Int) + 1 + k) ((bs.length : Int) - P - 1 - k) (1 + k)
        (((bufto.set C (L : Int)).set (C + 1 + L) ((128 ||| (1 + k) : Nat) : Int)).set (C + 1 + L + 1) (bs[P].toNat : Int)) ret := by
  have c1 : ((P : Int) + 1 + (k : Nat) - P > 2) := by omega
  have c2 : ((P : Int) > (P : Int) - L) := by omega
  simp only [DFCIrle.loop0.body, rleSt, DFCIrle.St.set_q, DFCIrle.St.set_i, rle_scan bs P hP f hf, hk, c1, c2, if_false, if_true,
    DFCIrle.chk, DFCIrle.St.set_bufto, DFCIrle.St.set_p, DFCIrle.St.set_clead, DFCIrle.St.set_len, DFCIrle.St.set_cfoll, DFCIrle.St.set_begp, DFCIrle.St.set_diff]
  have e1 : ((C : Int) + 1 + L).toNat = C + 1 + L := by omega
  have e1' : ((C : Int) + 1 + L + 1).toNat = C + 1 + L + 1 := by omega
  have e1'' : ((C : Int) + 1).toNat = C + 1 := by omega
  have e2 : (bytes bs).getD (P : Int).toNat 0 = (bs[P].toNat : Int) := by
    rw [List.getD_eq_getElem?_getD, Int.toNat_natCast]; exact bytes_getD bs P hP
  have e4 : ((P : Int) - ((P : Int) - L)) % 256 = (L : Int) := by omega
  have e2' : (bytes bs).getD P 0 = (bs[P].toNat : Int) := by
    rw [List.getD_eq_getElem?_getD]; exact bytes_getD bs P hP
  have e5a : (((P : Int) + 1 + (k : Nat) - P) % 256).toNat = 1 + k := by omega
  have e5b : Int.toNat 128 = 128 := rfl
  have e5c : (128 ||| (1 + k)) = 128 + (1 + k) := or128 _ (by omega)
  have e5 : Int.ofNat (Int.toNat 128 ||| (((P : Int) + 1 + (k : Nat) - P) % 256).toNat) % 256 = ((128 ||| (1 + k) : Nat) : Int) := by
    rw [e5a, e5b, e5c]; simp only [Int.ofNat_eq_natCast]; omega
  rw [e5]
  simp only [e1, e1', e1'', e2, e2', e4, e5, Int.toNat_natCast]
  congr 1
  all_goals first | omega | (simp only [Bool.or_eq_false_iff, Bool.not_eq_eq_eq_not, Bool.not_false, decide_eq_true_eq, Bool.false_or, List.length_set, bytes_length]; omega) | (simp; omega)

theorem rle_body_run0 (bs : List Byte) (P L C : Nat) (q i diff : Int) (bufto : List Int) (ret : Int) (f : Nat)
    (hP : P < bs.length) (hf : bs.length - P ≤ f + 1)
    (k : Nat) (hk : runScan bs[P] (bs.drop (P + 1)) 119 = k) (h1 : 1 + k ≥ 3) (h2 : k ≤ 119) (hL : L = 0)
    (hroom : C + 1 < bufto.length) :
    DFCIrle.loop0.body (f + 1) (rleSt bs P L C q i diff bufto ret) =
      rleSt bs (P + 1 + k) 0 (C + 2) ((P : Int) + 1 + k) ((bs.length : Int) - P - 1 - k) (1 + k)
        ((bufto.set C ((128 ||| (1 + k) : Nat) : Int)).set (C + 1) (bs[P].toNat : Int)) ret := by
  have c1 : ((P : Int) + 1 + (k : Nat) - P > 2) := by omega
  have c2 : ¬ ((P : Int) > (P : Int) - L) := by omega
  simp only [DFCIrle.loop0.body, rleSt, DFCIrle.St.set_q, DFCIrle.St.set_i, rle_scan bs P hP f hf, hk, c1, c2, if_false, if_true,
    DFCIrle.chk, DFCIrle.St.set_bufto, DFCIrle.St.set_p, DFCIrle.St.set_clead, DFCIrle.St.set_len, DFCIrle.St.set_cfoll, DFCIrle.St.set_begp, DFCIrle.St.set_diff]
  have e1 : ((C : Int) + 1 + L).toNat = C + 1 + L := by omega
  have e1' : ((C : Int) + 1 + L + 1).toNat = C + 1 + L + 1 := by omega
  have e1'' : ((C : Int) + 1).toNat = C + 1 := by omega
  have e2 : (bytes bs).getD (P : Int).toNat 0 = (bs[P].toNat : Int) := by
    rw [List.getD_eq_getElem?_getD, Int.toNat_natCast]; exact bytes_getD bs P hP
  have e4 : ((P : Int) - ((P : Int) - L)) % 256 = (L : Int) := by omega
  have e2' : (bytes bs).getD P 0 = (bs[P].toNat : Int) := by
    rw [List.getD_eq_getElem?_getD]; exact bytes_getD bs P hP
  have e5a : (((P : Int) + 1 + (k : Nat) - P) % 256).toNat = 1 + k := by omega
  have e5b : Int.toNat 128 = 128 := rfl
  have e5c : (128 ||| (1 + k)) = 128 + (1 + k) := or128 _ (by omega)
  have e5 : Int.ofNat (Int.toNat 128 ||| (((P : Int) + 1 + (k : Nat) - P) % 256).toNat) % 256 = ((128 ||| (1 + k) : Nat) : Int) := by
    rw [e5a, e5b, e5c]; simp only [Int.ofNat_eq_natCast]; omega
  rw [e5]
  simp only [e1, e1', e1'', e2, e2', e4, e5, Int.toNat_natCast]
  congr 1
  all_goals first | omega | (simp only [Bool.or_eq_false_iff, Bool.not_eq_eq_eq_not, Bool.not_false, decide_eq_true_eq, Bool.false_or, List.length_set, bytes_length]; omega) | (simp; omega)

/-- the statements of `DFCIrle` after its main loop ("fill in last bytecount" and the `return`) -/
def rleFin (s : DFCIrle.St) : DFCIrle.St :=
  have s : DFCIrle.St := if (s.p > s.begp) then
      have s : DFCIrle.St := DFCIrle.chk s (0 ≤ s.cfoll ∧ s.cfoll < s.bufto.length)
      have s : DFCIrle.St := DFCIrle.St.set_bufto s (s.bufto.set (Int.toNat (s.cfoll)) ((((s.p - s.begp)) % 256)))
      s
    else
      let e0 : Int := (s.clead - 1)
      have s : DFCIrle.St := DFCIrle.St.set_clead s (e0)
      s
  have s : DFCIrle.St := DFCIrle.St.set_ret s ((s.clead - 0))
  s

theorem rle_unfold (fuel : Nat) (bs : List Byte) (out : List Int) :
    DFCIrle fuel (bytes bs) out bs.length = rleFin (DFCIrle.loop0 fuel (rleSt bs 0 0 0 0 0 0 out 0)) := rfl

theorem rle_fin (bs : List Byte) (P L C : Nat) (q i diff : Int) (bufto : List Int) (ret : Int) (h3 : L ≤ 254)
    (hroom : L = 0 ∨ C < bufto.length) :
    rleFin (rleSt bs P L C q i diff bufto ret) =
      { rleSt bs P L C q i diff bufto ret with
        bufto := if 0 < L then bufto.set C (L : Int) else bufto
        clead := if 0 < L then (C : Int) + 1 + L else C
        ret := if 0 < L then (C : Int) + 1 + L else C } := by
  by_cases hL : 0 < L
  · have c : (P : Int) > (P : Int) - L := by omega
    have e4 : ((P : Int) - ((P : Int) - L)) % 256 = (L : Int) := by omega
    simp only [rleFin, rleSt, c, if_true, DFCIrle.chk, DFCIrle.St.set_bufto, DFCIrle.St.set_ret, hL, e4, Int.toNat_natCast]
    congr 1
    all_goals first | omega | (simp only [Bool.or_eq_false_iff, Bool.not_eq_eq_eq_not, Bool.not_false, decide_eq_true_eq, Bool.false_or, List.length_set, bytes_length]; omega) | (simp; omega)
  · have c : ¬ ((P : Int) > (P : Int) - L) := by omega
    simp only [rleFin, rleSt, c, if_false, DFCIrle.St.set_clead, DFCIrle.St.set_ret, hL]
    congr 1
    all_goals omega

theorem rle_loop0_succ (f : Nat) (s : DFCIrle.St) :
    DFCIrle.loop0 (f + 1) s = if s.len > 0 then DFCIrle.loop0 f (DFCIrle.loop0.body (f + 1) s) else s := by
  rw [DFCIrle.loop0]

theorem rle_loop0_done (f : Nat) (s : DFCIrle.St) (h : ¬ s.len > 0) : DFCIrle.loop0 f s = s := by
  cases f <;> simp [DFCIrle.loop0, h]

/-- a pending literal block costs at least its bytes plus the count byte -/
theorem encLoop_ser_ge : ∀ (m : Nat) (lit input : List Byte), lit ≠ [] → lit.length + 1 ≤ (ser (encLoop m lit input)).length := by
  intro m
  induction m with
  | zero =>
    intro lit input hne
    cases input <;> cases lit <;> simp_all [encLoop, flushLit, ser, Pkt.ser]
  | succ m ih =>
    intro lit input hne
    cases input with
    | nil => cases lit <;> simp_all [encLoop, flushLit, ser, Pkt.ser]
    | cons v rest =>
      simp only [encLoop]
      split
      · rw [ser_append, List.length_append]
        have : (ser (flushLit lit)).length = lit.length + 1 := by cases lit <;> simp_all [flushLit, ser, Pkt.ser]
        omega
      · split
        · rw [ser_cons, List.length_append]; simp [Pkt.ser]; omega
        · have := ih (lit ++ [v]) rest (by simp)
          simp at this; omega

theorem splice_step (l l1 : List Int) (C C1 n : Nat) (H T : List Int) (h1 : l1.take C1 = l.take C ++ H) (hC : C1 = C + H.length)
    (_hn : n = T.length) (h2 : l1.drop (C1 + n) = l.drop (C1 + n)) :
    l1.take C1 ++ T ++ l1.drop (C1 + n) = l.take C ++ (H ++ T) ++ l.drop (C + (H.length + n)) := by
  rw [h1, h2, hC]; simp [List.append_assoc, Nat.add_assoc]

theorem drop_of_append {α} (bs a b : List α) (n : Nat) (h : bs = a ++ b) (hn : n = a.length) : bs.drop n = b := by
  subst h hn; simp

theorem ser_nil : ser [] = [] := rfl
theorem flushLit_nil : flushLit [] = [] := rfl
theorem flushLit_cons (a : Byte) (l : List Byte) : flushLit (a :: l) = [.lit (a :: l)] := rfl

theorem encLoop_nil (m : Nat) (lit : List Byte) : encLoop m lit [] = flushLit lit := by
  cases m <;> simp [encLoop]

theorem rle_main_nil (bs : List Byte) (m f : Nat) (pre lit : List Byte) (P L C : Nat) (q i diff : Int) (bufto : List Int) (ret : Int)
    (hbs : bs = pre ++ lit) (hP : P = pre.length + lit.length) (hL : L = lit.length) (hL120 : L ≤ 120)
    (hroom : C + (ser (encLoop m lit [])).length ≤ bufto.length) (hlit : (bufto.drop (C + 1)).take L = bytes lit) :
    (rleFin (DFCIrle.loop0 f (rleSt bs P L C q i diff bufto ret))).ub = false ∧
    (rleFin (DFCIrle.loop0 f (rleSt bs P L C q i diff bufto ret))).oof = false ∧
    (rleFin (DFCIrle.loop0 f (rleSt bs P L C q i diff bufto ret))).ret = ((C + (ser (encLoop m lit [])).length : Nat) : Int) ∧
    (rleFin (DFCIrle.loop0 f (rleSt bs P L C q i diff bufto ret))).bufto =
      bufto.take C ++ bytes (ser (encLoop m lit [])) ++ bufto.drop (C + (ser (encLoop m lit [])).length) := by
  have hlen : ¬ (rleSt bs P L C q i diff bufto ret).len > 0 := by
    have : bs.length = P := by rw [hbs, hP]; simp
    simp only [rleSt]; omega
  rw [encLoop_nil] at hroom ⊢
  cases lit with
  | nil =>
    simp only [List.length_nil] at hL
    subst hL
    rw [rle_loop0_done _ _ hlen, rle_fin _ _ _ _ _ _ _ _ _ (by omega) (Or.inl rfl)]
    simp [rleSt, flushLit, ser]
  | cons a l =>
    have hser : ser (flushLit (a :: l)) = UInt8.ofNat L :: a :: l := by simp [flushLit, ser, Pkt.ser, hL]
    rw [hser] at hroom ⊢
    simp only [List.length_cons] at hroom hL
    have hL0 : 0 < L := by omega
    rw [rle_loop0_done _ _ hlen, rle_fin _ _ _ _ _ _ _ _ _ (by omega) (Or.inr (by omega))]
    simp only [rleSt, hL0, if_true]
    refine ⟨trivial, trivial, by simp only [List.length_cons]; omega, ?_⟩
    rw [lemA bufto C L (L : Int) (by omega), hlit]
    have hc : ((UInt8.ofNat L).toNat : Int) = (L : Int) := by rw [toNat_ofNat_lt L (by omega)]
    simp only [bytes_cons, hc, List.length_cons, ← hL]
    simp [Nat.add_assoc, Nat.add_comm 1 L]

/-- **main loop of `DFCIrle`** (+ the final count byte): started in a state where `lit` = the bytes between `begp` and `p` is already
    copied behind the reserved count cell `cfoll = C`, the translated code writes exactly the model's `ser (encLoop m lit input)` at `C`,
    returns its end position and leaves every other cell of `bufto` alone -/
theorem rle_main (bs : List Byte) : ∀ (m f : Nat) (pre lit input : List Byte) (P L C : Nat) (q i diff : Int) (bufto : List Int) (ret : Int),
    bs = pre ++ lit ++ input → P = pre.length + lit.length → L = lit.length → input.length ≤ m → input.length ≤ f → L ≤ 120 →
    C + (ser (encLoop m lit input)).length ≤ bufto.length → (bufto.drop (C + 1)).take L = bytes lit →
    (rleFin (DFCIrle.loop0 f (rleSt bs P L C q i diff bufto ret))).ub = false ∧
    (rleFin (DFCIrle.loop0 f (rleSt bs P L C q i diff bufto ret))).oof = false ∧
    (rleFin (DFCIrle.loop0 f (rleSt bs P L C q i diff bufto ret))).ret = ((C + (ser (encLoop m lit input)).length : Nat) : Int) ∧
    (rleFin (DFCIrle.loop0 f (rleSt bs P L C q i diff bufto ret))).bufto =
      bufto.take C ++ bytes (ser (encLoop m lit input)) ++ bufto.drop (C + (ser (encLoop m lit input)).length) := by
  obtain ⟨c1, c2, c3, c4⟩ := rle_consts
  intro m
  induction m with
  | zero =>
    intro f pre lit input P L C q i diff bufto ret hbs hP hL hm hf hL120 hroom hlit
    have : input = [] := List.eq_nil_of_length_eq_zero (by omega)
    subst this
    exact rle_main_nil bs 0 f pre lit P L C q i diff bufto ret (by simpa using hbs) hP hL hL120 hroom hlit
  | succ m ih =>
    intro f pre lit input P L C q i diff bufto ret hbs hP hL hm hf hL120 hroom hlit
    cases input with
    | nil => exact rle_main_nil bs (m + 1) f pre lit P L C q i diff bufto ret (by simpa using hbs) hP hL hL120 hroom hlit
    | cons v rest =>
      simp only [List.length_cons] at hm hf
      obtain ⟨f, rfl⟩ : ∃ g, f = g + 1 := ⟨f - 1, by omega⟩
      have hlenbs : bs.length = P + 1 + rest.length := by rw [hbs, hP]; simp; omega
      have hPl : P < bs.length := by omega
      have hv : bs[P] = v := by
        have : bs[P]? = some v := by rw [hbs, hP]; simp
        exact (List.getElem_eq_iff hPl).mpr this
      have hrest : bs.drop (P + 1) = rest := drop_of_append bs (pre ++ lit ++ [v]) rest (P + 1) (by rw [hbs]; simp) (by rw [hP]; simp [Nat.add_assoc])
      obtain ⟨s1, s2, s3⟩ := runScan_spec v rest (DFRLE_MAX_RUN - 1)
      generalize hk : runScan v rest (DFRLE_MAX_RUN - 1) = k at s1 s2 s3
      have hk' : runScan bs[P] (bs.drop (P + 1)) 119 = k := by rw [hv, hrest, ← hk, c1]
      rw [c1] at s1
      have hlen : (rleSt bs P L C q i diff bufto ret).len > 0 := by simp only [rleSt]; omega
      rw [rle_loop0_succ, if_pos hlen]
      simp only [encLoop, hk] at hroom ⊢
      by_cases hrun : 1 + k ≥ DFRLE_MIN_RUN
      · simp only [hrun, if_true, Nat.add_sub_cancel_left, ser_append, ser_cons, Pkt.ser, c4] at hroom ⊢
        rw [c3] at hrun
        have hor : 128 ||| (1 + k) = 128 + (1 + k) := or128 _ (by omega)
        have hc : ((UInt8.ofNat (128 ||| (1 + k))).toNat : Int) = ((128 ||| (1 + k) : Nat) : Int) := by
          rw [toNat_ofNat_lt _ (by omega)]
        have hbs' : bs = (pre ++ lit ++ v :: rest.take k) ++ [] ++ rest.drop k := by rw [hbs]; simp
        have hP' : P + 1 + k = (pre ++ lit ++ v :: rest.take k).length + ([] : List Byte).length := by
          rw [hP]; simp only [List.length_append, List.length_cons, List.length_take, List.length_nil, Nat.min_eq_left s2]; omega
        have hin : (rest.drop k).length ≤ m := by simp only [List.length_drop]; omega
        have hin' : (rest.drop k).length ≤ f := by simp only [List.length_drop]; omega
        cases lit with
        | nil =>
          simp only [List.length_nil] at hL
          simp only [flushLit_nil, ser_nil, List.nil_append, List.length_append, List.length_cons, List.length_nil] at hroom ⊢
          rw [rle_body_run0 bs P L C q i diff bufto ret f hPl (by omega) k hk' hrun (by omega) hL (by omega)]
          obtain ⟨r1, r2, r3, r4⟩ := ih f (pre ++ [] ++ v :: rest.take k) [] (rest.drop k) (P + 1 + k) 0 (C + 2) ((P : Int) + 1 + k)
            ((bs.length : Int) - P - 1 - k) (1 + k) ((bufto.set C ((128 ||| (1 + k) : Nat) : Int)).set (C + 1) (bs[P].toNat : Int)) ret
            hbs' hP' rfl hin hin' (by omega) (by simp only [List.length_set]; omega) (by simp)
          have h1 := lemR0 bufto C ((128 ||| (1 + k) : Nat) : Int) (bs[P].toNat : Int) (by omega)
          refine ⟨r1, r2, ?_, ?_⟩
          · rw [r3]; omega
          · rw [r4, splice_step bufto _ C (C + 2) _ _ _ h1 (by simp) (by simp)
              (by rw [List.drop_set_of_lt (by omega), List.drop_set_of_lt (by omega)])]
            simp only [bytes_append, bytes_cons, bytes_nil, List.length_append, List.length_cons, List.length_nil, hc, hv,
              List.cons_append, List.append_assoc, List.nil_append, bytes_length]
        | cons a l =>
          have hL0 : 0 < L := by rw [hL]; simp
          have hL' : L = l.length + 1 := by rw [hL]; simp
          have hcl : ((UInt8.ofNat L).toNat : Int) = (L : Int) := by rw [toNat_ofNat_lt L (by omega)]
          simp only [flushLit_cons, ser_cons, ser_nil, Pkt.ser, List.append_nil, List.cons_append, List.nil_append, List.length_append,
            List.length_cons, List.length_nil, ← hL] at hroom ⊢
          rw [rle_body_run bs P L C q i diff bufto ret f hPl (by omega) k hk' hrun (by omega) (by omega) hL0 (by omega)]
          obtain ⟨r1, r2, r3, r4⟩ := ih f (pre ++ (a :: l) ++ v :: rest.take k) [] (rest.drop k) (P + 1 + k) 0 (C + 1 + L + 2) ((P : Int) + 1 + k)
            ((bs.length : Int) - P - 1 - k) (1 + k)
            (((bufto.set C (L : Int)).set (C + 1 + L) ((128 ||| (1 + k) : Nat) : Int)).set (C + 1 + L + 1) (bs[P].toNat : Int)) ret
            hbs' hP' rfl hin hin' (by omega) (by simp only [List.length_set]; omega) (by simp)
          have h1 := lemR1 bufto C L (L : Int) ((128 ||| (1 + k) : Nat) : Int) (bs[P].toNat : Int) (by omega)
          rw [hlit] at h1
          refine ⟨r1, r2, ?_, ?_⟩
          · rw [r3]; omega
          · rw [r4, splice_step bufto _ C (C + 1 + L + 2) _ _ _ h1 (by simp [← hL]; omega) (by simp)
              (by rw [List.drop_set_of_lt (by omega), List.drop_set_of_lt (by omega), List.drop_set_of_lt (by omega)])]
            simp only [bytes_append, bytes_cons, bytes_nil, List.length_append, List.length_cons, List.length_nil, hc, hcl, hv, ← hL,
              List.cons_append, List.append_assoc, List.nil_append, bytes_length]
            simp only [Nat.add_comm, Nat.add_left_comm, Nat.add_assoc, Nat.zero_add]
      · simp only [hrun, if_false] at hroom ⊢
        rw [c3] at hrun
        by_cases hfull : (lit ++ [v]).length ≥ DFRLE_MAX_LIT
        · simp only [hfull, if_true, ser_cons, Pkt.ser] at hroom ⊢
          rw [c2] at hfull
          simp only [List.length_append, List.length_cons, List.length_nil, ← hL] at hfull hroom
          rw [rle_body_flush bs P L C q i diff bufto ret f hPl (by omega) k hk' hrun (by omega) (by omega) (by omega)]
          obtain ⟨r1, r2, r3, r4⟩ := ih f (pre ++ lit ++ [v]) [] rest (P + 1) 0 (C + 1 + L + 1) ((P : Int) + 1 + k)
            ((bs.length : Int) - P - 1 - k) diff ((bufto.set (C + 1 + L) (bs[P].toNat : Int)).set C ((L + 1 : Nat) : Int)) ret
            (by rw [hbs]; simp) (by rw [hP]; simp [Nat.add_assoc]) rfl (by omega) (by omega) (by omega)
            (by simp only [List.length_set]; omega) (by simp)
          have h1 := lemC bufto C L ((L + 1 : Nat) : Int) (bs[P].toNat : Int) (by omega)
          rw [hlit] at h1
          have hc : ((UInt8.ofNat (L + 1)).toNat : Int) = ((L + 1 : Nat) : Int) := by rw [toNat_ofNat_lt (L + 1) (by omega)]
          refine ⟨r1, r2, ?_, ?_⟩
          · rw [r3]; simp only [List.length_append, List.length_cons, List.length_nil, ← hL]; omega
          · rw [r4, splice_step bufto _ C (C + 1 + L + 1) _ _ _ h1 (by simp [← hL]; omega) (by simp)
              (by rw [List.drop_set_of_lt (by omega), List.drop_set_of_lt (by omega)])]
            simp only [bytes_append, bytes_cons, bytes_nil, List.length_append, List.length_cons, List.length_nil, ← hL, hc, hv,
              List.cons_append, List.append_assoc, List.nil_append, bytes_length, Nat.add_comm, Nat.add_left_comm, Nat.add_assoc, Nat.zero_add]
        · simp only [hfull, if_false] at hroom ⊢
          rw [c2] at hfull
          simp only [List.length_append, List.length_cons, List.length_nil, ← hL] at hfull
          have hge := encLoop_ser_ge m (lit ++ [v]) rest (by simp)
          simp only [List.length_append, List.length_cons, List.length_nil, ← hL] at hge
          rw [rle_body_lit bs P L C q i diff bufto ret f hPl (by omega) k hk' hrun (by omega) (by omega)]
          have := ih f pre (lit ++ [v]) rest (P + 1) (L + 1) C ((P : Int) + 1 + k) ((bs.length : Int) - P - 1 - k) diff
            (bufto.set (C + 1 + L) (bs[P].toNat : Int)) ret (by rw [hbs]; simp) (by rw [hP]; simp; omega) (by simp [hL]) (by omega) (by omega)
            (by omega) (by simpa using hroom)
            (by rw [lemB bufto (C + 1) L _ (by omega), hlit, hv, bytes_append]; rfl)
          obtain ⟨r1, r2, r3, r4⟩ := this
          refine ⟨r1, r2, r3, ?_⟩
          rw [r4, List.take_set_of_le (by omega), List.drop_set_of_lt (by omega)]

/-! ## `DFCIunrle` -/

/-- `l` with the cells `i .. i + |data|` overwritten by `data` -/
def writeAt (l : List Int) (i : Nat) (data : List Int) : List Int := l.take i ++ data ++ l.drop (i + data.length)

theorem writeAt_nil (l : List Int) (i : Nat) : writeAt l i [] = l := by simp [writeAt]

theorem writeAt_set (l : List Int) (i : Nat) (x : Int) (d : List Int) (h : i < l.length) :
    writeAt (l.set i x) (i + 1) d = writeAt l i (x :: d) := by
  unfold writeAt
  rw [H4.C2L.take_set_succ l i x h, List.drop_set_of_lt (by omega)]
  simp [Nat.add_assoc, Nat.add_comm 1]

def unSt (buf : List Byte) (outlen : Nat) (rs : Int) (P Q SS SE : Nat) (cnt : Int) (save bufto : List Int) (ret : Int) : DFCIunrle.St :=
  { outlen := outlen, resetsave := rs, p := P, q := Q, endp := outlen, savestart := SS, saveend := SE, cnt_ := cnt, save := save,
    buf := bytes buf, bufto := bufto, ub := false, oof := false, ret := ret }

theorem un_loop2_step_out (buf : List Byte) (outlen : Nat) (rs : Int) (P Q SS SE n : Nat) (save bufto : List Int) (ret : Int) (f : Nat)
    (hP : P < buf.length) (hQ : Q < outlen) (hb : outlen ≤ bufto.length) :
    DFCIunrle.loop2 (f + 1) (unSt buf outlen rs P Q SS SE ((n + 1 : Nat) : Int) save bufto ret) =
      DFCIunrle.loop2 f (unSt buf outlen rs (P + 1) (Q + 1) SS SE (n : Int) save (bufto.set Q (buf[P].toNat : Int)) ret) := by
  have c1 : ((n + 1 : Nat) : Int) ≠ 0 := by omega
  have c2 : (Q : Int) < (outlen : Int) := by omega
  rw [DFCIunrle.loop2]
  simp only [unSt, DFCIunrle.St.set_cnt_, DFCIunrle.St.set_bufto, DFCIunrle.St.set_p, DFCIunrle.St.set_q, DFCIunrle.St.set_save, DFCIunrle.St.set_saveend, c1, c2, decide_true, if_true, DFCIunrle.loop2.body, DFCIunrle.chk, ne_eq, not_false_eq_true]
  have e2 : (bytes buf).getD P 0 = (buf[P].toNat : Int) := by
    rw [List.getD_eq_getElem?_getD]; exact bytes_getD buf P hP
  simp only [Int.toNat_natCast, e2]
  congr 2
  all_goals first | omega | (simp only [Bool.or_eq_false_iff, Bool.not_eq_eq_eq_not, Bool.not_false, decide_eq_true_eq, Bool.false_or, List.length_set, bytes_length]; omega) | (simp; omega)

theorem un_loop2_step_save (buf : List Byte) (outlen : Nat) (rs : Int) (P Q SS SE n : Nat) (save bufto : List Int) (ret : Int) (f : Nat)
    (hP : P < buf.length) (hQ : ¬ Q < outlen) (hs : SE < save.length) :
    DFCIunrle.loop2 (f + 1) (unSt buf outlen rs P Q SS SE ((n + 1 : Nat) : Int) save bufto ret) =
      DFCIunrle.loop2 f (unSt buf outlen rs (P + 1) Q SS (SE + 1) (n : Int) (save.set SE (buf[P].toNat : Int)) bufto ret) := by
  have c1 : ((n + 1 : Nat) : Int) ≠ 0 := by omega
  have c2 : ¬ ((Q : Int) < (outlen : Int)) := by omega
  rw [DFCIunrle.loop2]
  simp only [unSt, DFCIunrle.St.set_cnt_, DFCIunrle.St.set_bufto, DFCIunrle.St.set_p, DFCIunrle.St.set_q, DFCIunrle.St.set_save, DFCIunrle.St.set_saveend, c1, c2, decide_true, if_true, if_false, DFCIunrle.loop2.body, DFCIunrle.chk, ne_eq, not_false_eq_true]
  have e2 : (bytes buf).getD P 0 = (buf[P].toNat : Int) := by
    rw [List.getD_eq_getElem?_getD]; exact bytes_getD buf P hP
  simp only [Int.toNat_natCast, e2]
  congr 2
  all_goals first | omega | (simp only [Bool.or_eq_false_iff, Bool.not_eq_eq_eq_not, Bool.not_false, decide_eq_true_eq, Bool.false_or, List.length_set, bytes_length]; omega) | (simp; omega)

theorem un_loop2_zero (buf : List Byte) (outlen : Nat) (rs : Int) (P Q SS SE : Nat) (save bufto : List Int) (ret : Int) (f : Nat) :
    DFCIunrle.loop2 f (unSt buf outlen rs P Q SS SE 0 save bufto ret) = unSt buf outlen rs P Q SS SE (-1) save bufto ret := by
  cases f <;> (rw [DFCIunrle.loop2]; simp [unSt])

/-- the literal-block loop `while (cnt--) { if (q < endp) *q++ = *p++; else *saveend++ = *p++; }`: of the `n` bytes at `p` the first
    `endp - q` go to `bufto`, the others are appended to the save area -/
theorem un_loop2 (buf : List Byte) (outlen : Nat) (rs : Int) (SS : Nat) (ret : Int) :
    ∀ (n f P Q SE : Nat) (save bufto : List Int), n ≤ f → P + n ≤ buf.length → outlen ≤ bufto.length →
      SE + (n - (outlen - Q)) ≤ save.length →
      DFCIunrle.loop2 f (unSt buf outlen rs P Q SS SE (n : Int) save bufto ret) =
        unSt buf outlen rs (P + n) (Q + min n (outlen - Q)) SS (SE + (n - (outlen - Q))) (-1)
          (writeAt save SE (bytes (((buf.drop P).take n).drop (outlen - Q))))
          (writeAt bufto Q (bytes (((buf.drop P).take n).take (outlen - Q)))) ret := by
  intro n
  induction n with
  | zero =>
    intro f P Q SE save bufto _ _ _ _
    have := un_loop2_zero buf outlen rs P Q SS SE save bufto ret f
    simp only [Int.natCast_zero] at *
    rw [this]; simp [writeAt_nil]
  | succ n ih =>
    intro f P Q SE save bufto hf hP hb hs
    obtain ⟨f, rfl⟩ : ∃ g, f = g + 1 := ⟨f - 1, by omega⟩
    have hPl : P < buf.length := by omega
    have hD : (buf.drop P).take (n + 1) = buf[P] :: (buf.drop (P + 1)).take n := by
      rw [List.drop_eq_getElem_cons hPl, List.take_succ_cons]
    rw [hD]
    by_cases hQ : Q < outlen
    · obtain ⟨d, hd⟩ : ∃ d, outlen - Q = d + 1 := ⟨outlen - Q - 1, by omega⟩
      have hd' : outlen - (Q + 1) = d := by omega
      rw [un_loop2_step_out buf outlen rs P Q SS SE n save bufto ret f hPl hQ hb,
        ih f (P + 1) (Q + 1) SE save _ (by omega) (by omega) (by simpa using hb) (by omega)]
      rw [hd, hd', List.take_succ_cons, List.drop_succ_cons, bytes_cons, ← writeAt_set _ _ _ _ (by omega)]
      congr 1 <;> omega
    · have hd : outlen - Q = 0 := by omega
      rw [un_loop2_step_save buf outlen rs P Q SS SE n save bufto ret f hPl hQ (by omega),
        ih f (P + 1) Q (SE + 1) _ bufto (by omega) (by omega) hb (by simp only [List.length_set]; omega)]
      rw [hd, List.take_zero, List.drop_zero, List.drop_zero, List.take_zero, bytes_cons, ← writeAt_set _ _ _ _ (by omega)]
      congr 1 <;> omega

theorem un_loop3_step_out (buf : List Byte) (outlen : Nat) (rs : Int) (P Q SS SE n : Nat) (save bufto : List Int) (ret : Int) (f : Nat)
    (hP : P < buf.length) (hQ : Q < outlen) (hb : outlen ≤ bufto.length) :
    DFCIunrle.loop3 (f + 1) (unSt buf outlen rs P Q SS SE ((n + 1 : Nat) : Int) save bufto ret) =
      DFCIunrle.loop3 f (unSt buf outlen rs P (Q + 1) SS SE (n : Int) save (bufto.set Q (buf[P].toNat : Int)) ret) := by
  have c1 : ((n + 1 : Nat) : Int) ≠ 0 := by omega
  have c2 : (Q : Int) < (outlen : Int) := by omega
  rw [DFCIunrle.loop3]
  simp only [unSt, DFCIunrle.St.set_cnt_, DFCIunrle.St.set_bufto, DFCIunrle.St.set_p, DFCIunrle.St.set_q, DFCIunrle.St.set_save, DFCIunrle.St.set_saveend, c1, c2, decide_true, if_true, DFCIunrle.loop3.body, DFCIunrle.chk, ne_eq, not_false_eq_true]
  have e2 : (bytes buf).getD P 0 = (buf[P].toNat : Int) := by
    rw [List.getD_eq_getElem?_getD]; exact bytes_getD buf P hP
  simp only [Int.toNat_natCast, e2]
  congr 2
  all_goals first | omega | (simp only [Bool.or_eq_false_iff, Bool.not_eq_eq_eq_not, Bool.not_false, decide_eq_true_eq, Bool.false_or, List.length_set, bytes_length]; omega) | (simp; omega)

theorem un_loop3_step_save (buf : List Byte) (outlen : Nat) (rs : Int) (P Q SS SE n : Nat) (save bufto : List Int) (ret : Int) (f : Nat)
    (hP : P < buf.length) (hQ : ¬ Q < outlen) (hs : SE < save.length) :
    DFCIunrle.loop3 (f + 1) (unSt buf outlen rs P Q SS SE ((n + 1 : Nat) : Int) save bufto ret) =
      DFCIunrle.loop3 f (unSt buf outlen rs P Q SS (SE + 1) (n : Int) (save.set SE (buf[P].toNat : Int)) bufto ret) := by
  have c1 : ((n + 1 : Nat) : Int) ≠ 0 := by omega
  have c2 : ¬ ((Q : Int) < (outlen : Int)) := by omega
  rw [DFCIunrle.loop3]
  simp only [unSt, DFCIunrle.St.set_cnt_, DFCIunrle.St.set_bufto, DFCIunrle.St.set_p, DFCIunrle.St.set_q, DFCIunrle.St.set_save, DFCIunrle.St.set_saveend, c1, c2, decide_true, if_true, if_false, DFCIunrle.loop3.body, DFCIunrle.chk, ne_eq, not_false_eq_true]
  have e2 : (bytes buf).getD P 0 = (buf[P].toNat : Int) := by
    rw [List.getD_eq_getElem?_getD]; exact bytes_getD buf P hP
  simp only [Int.toNat_natCast, e2]
  congr 2
  all_goals first | omega | (simp only [Bool.or_eq_false_iff, Bool.not_eq_eq_eq_not, Bool.not_false, decide_eq_true_eq, Bool.false_or, List.length_set, bytes_length]; omega) | (simp; omega)

theorem un_loop3_zero (buf : List Byte) (outlen : Nat) (rs : Int) (P Q SS SE : Nat) (save bufto : List Int) (ret : Int) (f : Nat) :
    DFCIunrle.loop3 f (unSt buf outlen rs P Q SS SE 0 save bufto ret) = unSt buf outlen rs P Q SS SE (-1) save bufto ret := by
  cases f <;> (rw [DFCIunrle.loop3]; simp [unSt])

/-- the run loop `while (cnt--) { if (q < endp) *q++ = *p; else *saveend++ = *p; }`: of the `n` copies of the byte at `p` the first
    `endp - q` go to `bufto`, the others are appended to the save area -/
theorem un_loop3 (buf : List Byte) (outlen : Nat) (rs : Int) (SS : Nat) (ret : Int) (P : Nat) (hPl : P < buf.length) :
    ∀ (n f Q SE : Nat) (save bufto : List Int), n ≤ f → outlen ≤ bufto.length →
      SE + (n - (outlen - Q)) ≤ save.length →
      DFCIunrle.loop3 f (unSt buf outlen rs P Q SS SE (n : Int) save bufto ret) =
        unSt buf outlen rs P (Q + min n (outlen - Q)) SS (SE + (n - (outlen - Q))) (-1)
          (writeAt save SE (bytes ((List.replicate n buf[P]).drop (outlen - Q))))
          (writeAt bufto Q (bytes ((List.replicate n buf[P]).take (outlen - Q)))) ret := by
  intro n
  induction n with
  | zero =>
    intro f Q SE save bufto _ _ _
    have := un_loop3_zero buf outlen rs P Q SS SE save bufto ret f
    simp only [Int.natCast_zero] at *
    rw [this]; simp [writeAt_nil]
  | succ n ih =>
    intro f Q SE save bufto hf hb hs
    obtain ⟨f, rfl⟩ : ∃ g, f = g + 1 := ⟨f - 1, by omega⟩
    rw [List.replicate_succ]
    by_cases hQ : Q < outlen
    · obtain ⟨d, hd⟩ : ∃ d, outlen - Q = d + 1 := ⟨outlen - Q - 1, by omega⟩
      have hd' : outlen - (Q + 1) = d := by omega
      rw [un_loop3_step_out buf outlen rs P Q SS SE n save bufto ret f hPl hQ hb,
        ih f (Q + 1) SE save _ (by omega) (by simpa using hb) (by omega)]
      rw [hd, hd', List.take_succ_cons, List.drop_succ_cons, bytes_cons, ← writeAt_set _ _ _ _ (by omega)]
      congr 1 <;> omega
    · have hd : outlen - Q = 0 := by omega
      rw [un_loop3_step_save buf outlen rs P Q SS SE n save bufto ret f hPl hQ (by omega),
        ih f Q (SE + 1) _ bufto (by omega) hb (by simp only [List.length_set]; omega)]
      rw [hd, List.take_zero, List.drop_zero, List.drop_zero, List.take_zero, bytes_cons, ← writeAt_set _ _ _ _ (by omega)]
      congr 1 <;> omega

theorem and128_lt (k : Nat) (h : k < 256) (h0 : k &&& 128 = 0) : k < 128 := by
  by_cases hk : k < 128
  · exact hk
  · have := and128_hi (k - 128) (by omega)
    rw [show 128 + (k - 128) = k by omega] at this; omega

theorem un_loop2' (buf : List Byte) (outlen : Nat) (rs : Int) (SS : Nat) (ret : Int) (n f P Q SE : Nat) (save bufto : List Int)
    (hf : n ≤ f) (hP : P + 1 + n ≤ buf.length) (hb : outlen ≤ bufto.length) (hs : SE + (n - (outlen - Q)) ≤ save.length) :
    DFCIunrle.loop2 f { outlen := ↑outlen, resetsave := rs, p := (P : Int) + 1, q := ↑Q, endp := ↑outlen, savestart := ↑SS, saveend := ↑SE, cnt_ := ↑n, save := save, buf := bytes buf, bufto := bufto, ub := false, oof := false, ret := ret } =
        unSt buf outlen rs (P + 1 + n) (Q + min n (outlen - Q)) SS (SE + (n - (outlen - Q))) (-1)
          (writeAt save SE (bytes (((buf.drop (P + 1)).take n).drop (outlen - Q))))
          (writeAt bufto Q (bytes (((buf.drop (P + 1)).take n).take (outlen - Q)))) ret := by
  rw [← un_loop2 buf outlen rs SS ret n f (P + 1) Q SE save bufto hf hP hb hs]
  simp only [unSt]
  congr 2

theorem un_body_lit (buf : List Byte) (outlen : Nat) (rs : Int) (P Q SS SE : Nat) (cnt : Int) (save bufto : List Int) (ret : Int) (f : Nat)
    (hP : P < buf.length) (hc : buf[P].toNat &&& 128 = 0) (hn : P + 1 + buf[P].toNat ≤ buf.length) (hf : 128 ≤ f + 1)
    (hb : outlen ≤ bufto.length) (hs : SE + (buf[P].toNat - (outlen - Q)) ≤ save.length) :
    DFCIunrle.loop1.body (f + 1) (unSt buf outlen rs P Q SS SE cnt save bufto ret) =
      unSt buf outlen rs (P + 1 + buf[P].toNat) (Q + min buf[P].toNat (outlen - Q)) SS (SE + (buf[P].toNat - (outlen - Q))) (-1)
          (writeAt save SE (bytes (((buf.drop (P + 1)).take buf[P].toNat).drop (outlen - Q))))
          (writeAt bufto Q (bytes (((buf.drop (P + 1)).take buf[P].toNat).take (outlen - Q)))) ret := by
  have e2 : (bytes buf).getD P 0 = (buf[P].toNat : Int) := by
    rw [List.getD_eq_getElem?_getD]; exact bytes_getD buf P hP
  have hlt : buf[P].toNat < 128 := and128_lt _ (UInt8.toNat_lt _) hc
  have c0 : ¬Int.ofNat (UInt8.toNat buf[P] &&& Int.toNat 128) ≠ 0 := by
    have : Int.toNat 128 = 128 := rfl
    rw [this, hc]; simp
  have cp : 0 ≤ (P : Int) ∧ (P : Int) < ((bytes buf).length : Int) := by simp only [bytes_length]; omega
  have cq : 0 ≤ ((UInt8.toNat buf[P] : Nat) : Int) ∧ (0 : Int) ≤ 128 := by omega
  simp only [DFCIunrle.loop1.body, unSt, DFCIunrle.chk, DFCIunrle.St.set_cnt_, DFCIunrle.St.set_p, Int.toNat_natCast, e2, c0, cp, cq,
    decide_true, Bool.not_true, Bool.or_false, if_true, and_self, not_false_eq_true,
    un_loop2' buf outlen rs SS ret buf[P].toNat (f + 1) P Q SE save bufto (by omega) hn hb hs]

theorem un_loop3' (buf : List Byte) (outlen : Nat) (rs : Int) (SS : Nat) (ret : Int) (n f P Q SE : Nat) (save bufto : List Int)
    (hf : n ≤ f) (hP : P + 1 < buf.length) (hb : outlen ≤ bufto.length) (hs : SE + (n - (outlen - Q)) ≤ save.length) :
    DFCIunrle.loop3 f { outlen := ↑outlen, resetsave := rs, p := (P : Int) + 1, q := ↑Q, endp := ↑outlen, savestart := ↑SS, saveend := ↑SE, cnt_ := ↑n, save := save, buf := bytes buf, bufto := bufto, ub := false, oof := false, ret := ret } =
        unSt buf outlen rs (P + 1) (Q + min n (outlen - Q)) SS (SE + (n - (outlen - Q))) (-1)
          (writeAt save SE (bytes ((List.replicate n buf[P + 1]).drop (outlen - Q))))
          (writeAt bufto Q (bytes ((List.replicate n buf[P + 1]).take (outlen - Q)))) ret := by
  rw [← un_loop3 buf outlen rs SS ret (P + 1) hP n f Q SE save bufto hf hb hs]
  simp only [unSt]
  congr 2

theorem un_body_run (buf : List Byte) (outlen : Nat) (rs : Int) (P Q SS SE : Nat) (cnt : Int) (save bufto : List Int) (ret : Int) (f : Nat)
    (hP : P + 1 < buf.length) (hc : buf[P].toNat &&& 128 ≠ 0) (hf : 128 ≤ f + 1)
    (hb : outlen ≤ bufto.length) (hs : SE + ((buf[P].toNat &&& 127) - (outlen - Q)) ≤ save.length) :
    DFCIunrle.loop1.body (f + 1) (unSt buf outlen rs P Q SS SE cnt save bufto ret) =
      unSt buf outlen rs (P + 2) (Q + min (buf[P].toNat &&& 127) (outlen - Q)) SS (SE + ((buf[P].toNat &&& 127) - (outlen - Q))) (-1)
          (writeAt save SE (bytes ((List.replicate (buf[P].toNat &&& 127) buf[P + 1]).drop (outlen - Q))))
          (writeAt bufto Q (bytes ((List.replicate (buf[P].toNat &&& 127) buf[P + 1]).take (outlen - Q)))) ret := by
  have e2 : (bytes buf).getD P 0 = (buf[P].toNat : Int) := by
    rw [List.getD_eq_getElem?_getD]; exact bytes_getD buf P (by omega)
  have hlt : (buf[P].toNat &&& 127) < 128 := Nat.lt_of_le_of_lt Nat.and_le_right (by omega)
  have c0 : Int.ofNat (UInt8.toNat buf[P] &&& Int.toNat 128) ≠ 0 := by
    have : Int.toNat 128 = 128 := rfl
    rw [this]; simp only [Int.ofNat_eq_natCast]; omega
  have ecnt : Int.ofNat (UInt8.toNat buf[P] &&& Int.toNat 127) = ((buf[P].toNat &&& 127 : Nat) : Int) := rfl
  have cp : 0 ≤ (P : Int) ∧ (P : Int) < ((bytes buf).length : Int) := by simp only [bytes_length]; omega
  have cq : 0 ≤ ((UInt8.toNat buf[P] : Nat) : Int) ∧ (0 : Int) ≤ 128 := by omega
  have cr : 0 ≤ ((UInt8.toNat buf[P] : Nat) : Int) ∧ (0 : Int) ≤ 127 := by omega
  simp only [DFCIunrle.loop1.body, unSt, DFCIunrle.chk, DFCIunrle.St.set_cnt_, DFCIunrle.St.set_p, Int.toNat_natCast, e2, c0, cp, cq, cr, ecnt,
    decide_true, Bool.not_true, Bool.or_false, if_true, if_false, and_self, not_false_eq_true, not_true_eq_false, ne_eq,
    un_loop3' buf outlen rs SS ret (buf[P].toNat &&& 127) (f + 1) P Q SE save bufto (by omega) hP hb hs]
  congr 2

theorem drop_pre {α} (A B : List α) (n k : Nat) (h : n = A.length + k) : (A ++ B).drop n = B.drop k := by
  subst h; simp [List.drop_append]

theorem writeAt_writeAt (l : List Int) (i : Nat) (A B : List Int) (hi : i ≤ l.length) :
    writeAt (writeAt l i A) (i + A.length) B = writeAt l i (A ++ B) := by
  unfold writeAt
  have h1 : (l.take i ++ A ++ l.drop (i + A.length)).take (i + A.length) = l.take i ++ A :=
    take_pre _ _ _ (by simp; omega)
  have h2 : (l.take i ++ A ++ l.drop (i + A.length)).drop (i + A.length + B.length) = l.drop (i + A.length + B.length) := by
    rw [drop_pre (l.take i ++ A) _ _ B.length (by simp; omega), List.drop_drop]
  rw [h1, h2]; simp [Nat.add_assoc]

theorem writeAt_length (l : List Int) (i : Nat) (A : List Int) (h : i + A.length ≤ l.length) : (writeAt l i A).length = l.length := by
  simp [writeAt]; omega

theorem un_loop1_succ (f : Nat) (s : DFCIunrle.St) :
    DFCIunrle.loop1 (f + 1) s = if s.q < s.endp then DFCIunrle.loop1 f (DFCIunrle.loop1.body (f + 1) s) else s := by
  rw [DFCIunrle.loop1]

theorem un_loop1_done (f : Nat) (s : DFCIunrle.St) (h : ¬ s.q < s.endp) : DFCIunrle.loop1 f s = s := by
  cases f <;> simp [DFCIunrle.loop1, h]


theorem un_loop1_nil (buf : List Byte) (outlen : Nat) (rs : Int) (ret : Int) (mf f P Q : Nat) (cnt : Int) (save bufto : List Int) (r : Unrle)
    (hQ : Q ≤ outlen) (hd : outlen - Q = 0) (hr : unrleLoop mf (buf.drop P) (outlen - Q) = some r) :
    ∃ cnt', DFCIunrle.loop1 f (unSt buf outlen rs P Q 0 0 cnt save bufto ret) =
        unSt buf outlen rs (P + r.used) outlen 0 r.save.length cnt' (writeAt save 0 (bytes r.save)) (writeAt bufto Q (bytes r.out)) ret := by
  have hq : ¬ (unSt buf outlen rs P Q 0 0 cnt save bufto ret).q < (unSt buf outlen rs P Q 0 0 cnt save bufto ret).endp := by
    simp only [unSt]; omega
  have hr' : r = ⟨[], 0, []⟩ := by
    rw [hd] at hr
    cases mf <;> cases (buf.drop P) <;> simp [unrleLoop] at hr <;> exact hr.symm
  subst hr'
  refine ⟨cnt, ?_⟩
  rw [un_loop1_done _ _ hq]
  have : Q = outlen := by omega
  subst this
  simp [writeAt_nil]

/-- **packet loop of `DFCIunrle`** (`while (q < endp)`), started with an empty save area: whenever the model's `unrleLoop` accepts the rest
    of the input, the translated code consumes `r.used` bytes, appends `r.out` at `q` (filling `bufto` up to `endp`) and leaves
    `r.save` in `save[0 .. saveend)` -/
theorem un_loop1 (buf : List Byte) (outlen : Nat) (rs : Int) (ret : Int) :
    ∀ (mf f P Q : Nat) (cnt : Int) (save bufto : List Int) (r : Unrle), P ≤ buf.length → Q ≤ outlen → outlen ≤ bufto.length →
      127 ≤ save.length → (buf.length - P) + 127 ≤ f → unrleLoop mf (buf.drop P) (outlen - Q) = some r →
      ∃ cnt', DFCIunrle.loop1 f (unSt buf outlen rs P Q 0 0 cnt save bufto ret) =
        unSt buf outlen rs (P + r.used) outlen 0 r.save.length cnt' (writeAt save 0 (bytes r.save)) (writeAt bufto Q (bytes r.out)) ret := by
  obtain ⟨c1, c2, c3, c4⟩ := rle_consts
  intro mf
  induction mf with
  | zero =>
    intro f P Q cnt save bufto r hP hQ hb hs hf hr
    by_cases hz : outlen - Q = 0
    · exact un_loop1_nil buf outlen rs ret 0 f P Q cnt save bufto r hQ hz hr
    · obtain ⟨d, hd⟩ : ∃ d, outlen - Q = d + 1 := ⟨outlen - Q - 1, by omega⟩
      rw [hd] at hr; simp [unrleLoop] at hr
  | succ mf ih =>
    intro f P Q cnt save bufto r hP hQ hb hs hf hr
    by_cases hz : outlen - Q = 0
    · exact un_loop1_nil buf outlen rs ret (mf + 1) f P Q cnt save bufto r hQ hz hr
    obtain ⟨d, hd⟩ : ∃ d, outlen - Q = d + 1 := ⟨outlen - Q - 1, by omega⟩
    rw [hd] at hr
    have hPl : P < buf.length := by
      apply Classical.byContradiction; intro h
      have : buf.drop P = [] := by simp; omega
      rw [this] at hr; simp [unrleLoop] at hr
    have hdrop : buf.drop P = buf[P] :: buf.drop (P + 1) := List.drop_eq_getElem_cons hPl
    rw [hdrop] at hr
    obtain ⟨f, rfl⟩ : ∃ g, f = g + 1 := ⟨f - 1, by omega⟩
    have hq : (unSt buf outlen rs P Q 0 0 cnt save bufto ret).q < (unSt buf outlen rs P Q 0 0 cnt save bufto ret).endp := by
      simp only [unSt]; omega
    rw [un_loop1_succ, if_pos hq]
    simp only [unrleLoop, c4] at hr
    by_cases hlit : buf[P].toNat &&& 128 = 0
    · simp only [hlit, if_true] at hr
      have hn128 := and128_lt _ (UInt8.toNat_lt _) hlit
      generalize hn : buf[P].toNat = n at hr hn128
      by_cases hshort : (buf.drop (P + 1)).length < n
      · simp only [hshort, if_true] at hr; cases hr
      simp only [hshort, if_false] at hr
      simp only [List.length_drop] at hshort
      have hbody := un_body_lit buf outlen rs P Q 0 0 cnt save bufto ret f hPl hlit (by omega) (by omega) hb (by omega)
      rw [hn] at hbody
      rw [hbody]
      have hdata : ((buf.drop (P + 1)).take n).length = n := by simp; omega
      by_cases hfit : n ≤ d + 1
      · simp only [hfit, if_true] at hr
        obtain ⟨r', hr', rfl⟩ := Option.map_eq_some_iff.mp hr
        have e1 : min n (outlen - Q) = n := by omega
        have e2 : n - (outlen - Q) = 0 := by omega
        have e3 : ((buf.drop (P + 1)).take n).take (outlen - Q) = (buf.drop (P + 1)).take n := List.take_of_length_le (by omega)
        have e4 : ((buf.drop (P + 1)).take n).drop (outlen - Q) = [] := List.drop_of_length_le (by omega)
        rw [e1, e2, e3, e4, bytes_nil, writeAt_nil]
        obtain ⟨cnt', h'⟩ := ih f (P + 1 + n) (Q + n) (-1) save (writeAt bufto Q (bytes ((buf.drop (P + 1)).take n))) r' (by omega) (by omega)
          (by rw [writeAt_length _ _ _ (by simp; omega)]; exact hb) hs (by omega)
          (by rw [← List.drop_drop, show outlen - (Q + n) = d + 1 - n by omega]; exact hr')
        refine ⟨cnt', ?_⟩
        rw [Nat.add_zero, h']
        have := writeAt_writeAt bufto Q (bytes ((buf.drop (P + 1)).take n)) (bytes r'.out) (by omega)
        rw [bytes_length, hdata] at this
        rw [this, bytes_append]
        dsimp only
        congr 1; omega
      · simp only [hfit, if_false, Option.some.injEq] at hr
        subst hr
        have e1 : Q + min n (outlen - Q) = outlen := by omega
        rw [e1, hd]
        have hq' : ∀ (a b c : Nat) (x : Int) (s t : List Int),
            ¬ (unSt buf outlen rs a outlen b c x s t ret).q < (unSt buf outlen rs a outlen b c x s t ret).endp := by
          intro a b c x s t; simp only [unSt]; omega
        rw [un_loop1_done _ _ (hq' _ _ _ _ _ _)]
        refine ⟨-1, ?_⟩
        dsimp only
        congr 1
        · omega
        · simp only [List.length_drop, hdata]; omega
    · simp only [hlit, if_false] at hr
      have hP1 : P + 1 < buf.length := by
        apply Classical.byContradiction; intro h
        have : buf.drop (P + 1) = [] := by simp; omega
        rw [this] at hr; cases hr
      have hdrop1 : buf.drop (P + 1) = buf[P + 1] :: buf.drop (P + 2) := List.drop_eq_getElem_cons hP1
      rw [hdrop1] at hr
      simp only [Nat.reduceSub] at hr
      have hn128 : (buf[P].toNat &&& 127) < 128 := Nat.lt_of_le_of_lt Nat.and_le_right (by omega)
      have hbody := un_body_run buf outlen rs P Q 0 0 cnt save bufto ret f hP1 hlit (by omega) hb (by omega)
      generalize hn : buf[P].toNat &&& 127 = n at hr hn128 hbody
      rw [hbody]
      have hdata : (List.replicate n buf[P + 1]).length = n := by simp
      by_cases hfit : n ≤ d + 1
      · simp only [hfit, if_true] at hr
        obtain ⟨r', hr', rfl⟩ := Option.map_eq_some_iff.mp hr
        have e1 : min n (outlen - Q) = n := by omega
        have e2 : n - (outlen - Q) = 0 := by omega
        have e3 : (List.replicate n buf[P + 1]).take (outlen - Q) = List.replicate n buf[P + 1] := List.take_of_length_le (by omega)
        have e4 : (List.replicate n buf[P + 1]).drop (outlen - Q) = [] := List.drop_of_length_le (by omega)
        rw [e1, e2, e3, e4, bytes_nil, writeAt_nil]
        obtain ⟨cnt', h'⟩ := ih f (P + 2) (Q + n) (-1) save (writeAt bufto Q (bytes (List.replicate n buf[P + 1]))) r' (by omega) (by omega)
          (by rw [writeAt_length _ _ _ (by simp; omega)]; exact hb) hs (by omega)
          (by rw [show outlen - (Q + n) = d + 1 - n by omega]; exact hr')
        refine ⟨cnt', ?_⟩
        rw [Nat.add_zero, h']
        have := writeAt_writeAt bufto Q (bytes (List.replicate n buf[P + 1])) (bytes r'.out) (by omega)
        rw [bytes_length, hdata] at this
        rw [this, bytes_append]
        dsimp only
        congr 1; omega
      · simp only [hfit, if_false, Option.some.injEq] at hr
        subst hr
        have e1 : Q + min n (outlen - Q) = outlen := by omega
        rw [e1, hd]
        have hq' : ∀ (a b c : Nat) (x : Int) (s t : List Int),
            ¬ (unSt buf outlen rs a outlen b c x s t ret).q < (unSt buf outlen rs a outlen b c x s t ret).endp := by
          intro a b c x s t; simp only [unSt]; omega
        rw [un_loop1_done _ _ (hq' _ _ _ _ _ _)]
        refine ⟨-1, ?_⟩
        dsimp only
        congr 1
        simp only [List.length_drop, hdata]; omega


theorem un_loop0_step (buf : List Byte) (outlen : Nat) (rs : Int) (P Q SS SE : Nat) (cnt : Int) (save bufto : List Int) (ret : Int) (f : Nat)
    (h1 : SS < SE) (hQ : Q < outlen) (hb : outlen ≤ bufto.length) (hs : SE ≤ save.length) :
    DFCIunrle.loop0 (f + 1) (unSt buf outlen rs P Q SS SE cnt save bufto ret) =
      DFCIunrle.loop0 f (unSt buf outlen rs P (Q + 1) (SS + 1) SE cnt save (bufto.set Q (save.getD SS 0)) ret) := by
  have c1 : (SE : Int) > (SS : Int) ∧ (Q : Int) < (outlen : Int) := by omega
  rw [DFCIunrle.loop0]
  simp only [unSt, DFCIunrle.St.set_cnt_, DFCIunrle.St.set_bufto, DFCIunrle.St.set_p, DFCIunrle.St.set_q, DFCIunrle.St.set_save, DFCIunrle.St.set_saveend, DFCIunrle.St.set_savestart, c1, and_self, if_true, DFCIunrle.loop0.body, DFCIunrle.chk, Int.toNat_natCast]
  congr 2
  all_goals first | omega | (simp only [Bool.or_eq_false_iff, Bool.not_eq_eq_eq_not, Bool.not_false, decide_eq_true_eq, Bool.false_or, List.length_set, bytes_length]; omega) | (simp; omega)

theorem un_loop0_done (buf : List Byte) (outlen : Nat) (rs : Int) (P Q SS SE : Nat) (cnt : Int) (save bufto : List Int) (ret : Int) (f : Nat)
    (h : ¬ (SS < SE ∧ Q < outlen)) :
    DFCIunrle.loop0 f (unSt buf outlen rs P Q SS SE cnt save bufto ret) = unSt buf outlen rs P Q SS SE cnt save bufto ret := by
  have c1 : ¬ ((SE : Int) > (SS : Int) ∧ (Q : Int) < (outlen : Int)) := by omega
  cases f <;> (rw [DFCIunrle.loop0]; simp only [unSt, c1, if_false])

/-- the first loop of `DFCIunrle`, `while (saveend > savestart && q < endp) *q++ = *savestart++;`: `min (saveend - savestart) (endp - q)`
    saved bytes go to `bufto` -/
theorem un_loop0 (buf : List Byte) (outlen : Nat) (rs : Int) (P SE : Nat) (cnt : Int) (save : List Int) (ret : Int) (hs : SE ≤ save.length) :
    ∀ (c f Q SS : Nat) (bufto : List Int), c = min (SE - SS) (outlen - Q) → c ≤ f → outlen ≤ bufto.length →
      DFCIunrle.loop0 f (unSt buf outlen rs P Q SS SE cnt save bufto ret) =
        unSt buf outlen rs P (Q + c) (SS + c) SE cnt save (writeAt bufto Q ((save.drop SS).take c)) ret := by
  intro c
  induction c with
  | zero =>
    intro f Q SS bufto hc _ _
    rw [un_loop0_done _ _ _ _ _ _ _ _ _ _ _ _ (by omega)]
    simp [writeAt_nil]
  | succ c ih =>
    intro f Q SS bufto hc hf hb
    obtain ⟨f, rfl⟩ : ∃ g, f = g + 1 := ⟨f - 1, by omega⟩
    have hSS : SS < save.length := by omega
    rw [un_loop0_step _ _ _ _ _ _ _ _ _ _ _ _ (by omega) (by omega) hb hs,
      ih f (Q + 1) (SS + 1) _ (by omega) (by omega) (by simpa using hb)]
    have hD : (save.drop SS).take (c + 1) = save.getD SS 0 :: (save.drop (SS + 1)).take c := by
      rw [List.drop_eq_getElem_cons hSS, List.take_succ_cons]; simp [hSS]
    rw [hD, ← writeAt_set _ _ _ _ (by omega)]
    congr 1 <;> omega

/-- what the model's packet loop returns: exactly `need` bytes of output, and never more than 126 saved bytes
    (so `save[255]` cannot overflow, whatever the input is) -/
theorem unrleLoop_lens : ∀ (mf : Nat) (l : List Byte) (need : Nat) (r : Unrle), unrleLoop mf l need = some r →
    r.out.length = need ∧ r.save.length ≤ 126 := by
  obtain ⟨c1, c2, c3, c4⟩ := rle_consts
  intro mf
  induction mf with
  | zero =>
    intro l need r h
    cases need <;> simp [unrleLoop] at h
    subst h; simp
  | succ mf ih =>
    intro l need r h
    cases need with
    | zero => simp [unrleLoop] at h; subst h; simp
    | succ d =>
      cases l with
      | nil => simp [unrleLoop] at h
      | cons c rest =>
        simp only [unrleLoop, c4, Nat.reduceSub] at h
        by_cases hlit : c.toNat &&& 128 = 0
        · simp only [hlit, if_true] at h
          have hn128 := and128_lt _ (UInt8.toNat_lt _) hlit
          generalize c.toNat = n at h hn128
          by_cases hshort : rest.length < n
          · simp only [hshort, if_true] at h; cases h
          simp only [hshort, if_false] at h
          by_cases hfit : n ≤ d + 1
          · simp only [hfit, if_true] at h
            obtain ⟨r', hr', rfl⟩ := Option.map_eq_some_iff.mp h
            obtain ⟨i1, i2⟩ := ih _ _ _ hr'
            simp only [List.length_append, List.length_take, i1]; omega
          · simp only [hfit, if_false, Option.some.injEq] at h
            subst h; simp only [List.length_take, List.length_drop]; omega
        · simp only [hlit, if_false] at h
          cases rest with
          | nil => cases h
          | cons v r2 =>
            simp only [] at h
            have hn128 : (c.toNat &&& 127) < 128 := Nat.lt_of_le_of_lt Nat.and_le_right (by omega)
            generalize c.toNat &&& 127 = n at h hn128
            by_cases hfit : n ≤ d + 1
            · simp only [hfit, if_true] at h
              obtain ⟨r', hr', rfl⟩ := Option.map_eq_some_iff.mp h
              obtain ⟨i1, i2⟩ := ih _ _ _ hr'
              simp only [List.length_append, List.length_replicate, i1]; omega
            · simp only [hfit, if_false, Option.some.injEq] at h
              subst h; simp only [List.length_take, List.length_drop, List.length_replicate]; omega


/-- the statements of `DFCIunrle` after `if (resetsave) savestart = saveend = save;` -/
def unRest (fuel : Nat) (s : DFCIunrle.St) : DFCIunrle.St :=
  have s : DFCIunrle.St := DFCIunrle.loop0 fuel s
  have s : DFCIunrle.St := if (s.savestart ≥ s.saveend) then
      have s : DFCIunrle.St := DFCIunrle.St.set_saveend s (0)
      have s : DFCIunrle.St := DFCIunrle.St.set_savestart s (s.saveend)
      s
    else
      s
  have s : DFCIunrle.St := DFCIunrle.loop1 fuel s
  have s : DFCIunrle.St := DFCIunrle.St.set_ret s ((s.p - 0))
  s

theorem un_unfold_reset (fuel : Nat) (buf : List Byte) (out save : List Int) (outlen : Nat) (ss se : Int) :
    Gen.Fn.Dfrle.DFCIunrle fuel (bytes buf) out outlen 1 save ss se = unRest fuel (unSt buf outlen 1 0 0 0 0 0 save out 0) := by
  have h : Gen.Fn.Dfrle.DFCIunrle fuel (bytes buf) out outlen 1 save ss se = unRest fuel
      { outlen := outlen, resetsave := 1, p := 0, q := 0, endp := 0 + (outlen : Int), savestart := 0, saveend := 0, cnt_ := 0, save := save,
        buf := bytes buf, bufto := out, ub := false, oof := false, ret := 0 } := rfl
  rw [h, Int.zero_add]; rfl

theorem un_unfold_cont (fuel : Nat) (buf : List Byte) (out save : List Int) (outlen : Nat) (SS SE : Nat) :
    Gen.Fn.Dfrle.DFCIunrle fuel (bytes buf) out outlen 0 save SS SE = unRest fuel (unSt buf outlen 0 0 0 SS SE 0 save out 0) := by
  have h : Gen.Fn.Dfrle.DFCIunrle fuel (bytes buf) out outlen 0 save SS SE = unRest fuel
      { outlen := outlen, resetsave := 0, p := 0, q := 0, endp := 0 + (outlen : Int), savestart := SS, saveend := SE, cnt_ := 0, save := save,
        buf := bytes buf, bufto := out, ub := false, oof := false, ret := 0 } := rfl
  rw [h, Int.zero_add]; rfl

theorem un_rest (buf : List Byte) (outlen : Nat) (rs : Int) (SS SE : Nat) (save out : List Int) (fuel : Nat) (msave : List Byte) (r : Unrle)
    (h1 : SS ≤ SE) (h2 : SE ≤ save.length) (hreg : (save.drop SS).take (SE - SS) = bytes msave) (hout : outlen ≤ out.length)
    (hs : 127 ≤ save.length) (hf1 : save.length ≤ fuel) (hf2 : buf.length + 127 ≤ fuel)
    (hr : (if msave.length < outlen then
            (unrleLoop (buf.length + 1) buf (outlen - msave.length)).map fun x => (⟨msave.take outlen ++ x.out, x.used, x.save⟩ : Unrle)
          else some ⟨msave.take outlen, 0, msave.drop outlen⟩) = some r) :
    (unRest fuel (unSt buf outlen rs 0 0 SS SE 0 save out 0)).ub = false ∧
    (unRest fuel (unSt buf outlen rs 0 0 SS SE 0 save out 0)).oof = false ∧
    (unRest fuel (unSt buf outlen rs 0 0 SS SE 0 save out 0)).ret = (r.used : Int) ∧
    (unRest fuel (unSt buf outlen rs 0 0 SS SE 0 save out 0)).bufto = bytes r.out ++ out.drop outlen ∧
    ∃ SS' SE' : Nat, (unRest fuel (unSt buf outlen rs 0 0 SS SE 0 save out 0)).savestart = (SS' : Int) ∧
      (unRest fuel (unSt buf outlen rs 0 0 SS SE 0 save out 0)).saveend = (SE' : Int) ∧ SS' ≤ SE' ∧ SE' ≤ save.length ∧
      (unRest fuel (unSt buf outlen rs 0 0 SS SE 0 save out 0)).save.length = save.length ∧
      ((unRest fuel (unSt buf outlen rs 0 0 SS SE 0 save out 0)).save.drop SS').take (SE' - SS') = bytes r.save := by
  have hml : msave.length = SE - SS := by
    have := congrArg List.length hreg
    simp only [List.length_take, List.length_drop, bytes_length] at this; omega
  have e0 := un_loop0 buf outlen rs 0 SE 0 save 0 h2 (min (SE - SS) (outlen - 0)) fuel 0 SS out rfl (by omega) hout
  by_cases hlt : msave.length < outlen
  · simp only [hlt, if_true] at hr
    obtain ⟨r', hr', rfl⟩ := Option.map_eq_some_iff.mp hr
    have hc : min (SE - SS) (outlen - 0) = SE - SS := by omega
    rw [hc, hreg] at e0
    have e1 : ∀ (S1 : DFCIunrle.St), S1 = unSt buf outlen rs 0 (0 + (SE - SS)) (SS + (SE - SS)) SE 0 save (writeAt out 0 (bytes msave)) 0 →
        (if (S1.savestart ≥ S1.saveend) then DFCIunrle.St.set_savestart (DFCIunrle.St.set_saveend S1 0) (DFCIunrle.St.set_saveend S1 0).saveend else S1)
          = unSt buf outlen rs 0 msave.length 0 0 0 save (writeAt out 0 (bytes msave)) 0 := by
      intro S1 hS1
      subst hS1
      have c : ((SS + (SE - SS) : Nat) : Int) ≥ (SE : Int) := by omega
      simp only [unSt, c, if_true, DFCIunrle.St.set_savestart, DFCIunrle.St.set_saveend]
      congr 1; omega
    obtain ⟨cnt', e2⟩ := un_loop1 buf outlen rs 0 (buf.length + 1) fuel 0 msave.length 0 save (writeAt out 0 (bytes msave)) r'
      (by omega) (by omega) (by rw [writeAt_length _ _ _ (by simp; omega)]; exact hout) hs (by omega) (by simpa using hr')
    have e : unRest fuel (unSt buf outlen rs 0 0 SS SE 0 save out 0) =
        { unSt buf outlen rs (0 + r'.used) outlen 0 r'.save.length cnt' (writeAt save 0 (bytes r'.save))
            (writeAt (writeAt out 0 (bytes msave)) msave.length (bytes r'.out)) 0 with ret := ((0 + r'.used : Nat) : Int) - 0 } := by
      unfold unRest
      rw [e0]
      dsimp only
      rw [e1 _ rfl, e2]
      rfl
    rw [e]
    obtain ⟨l1, l2⟩ := unrleLoop_lens _ _ _ _ hr'
    have hw := writeAt_writeAt out 0 (bytes msave) (bytes r'.out) (by omega)
    simp only [Nat.zero_add, bytes_length] at hw
    rw [hw]
    refine ⟨rfl, rfl, by simp [unSt], ?_, 0, r'.save.length, rfl, rfl, by omega, by omega, ?_, ?_⟩
    · simp only [unSt, writeAt, List.take_zero, List.nil_append, Nat.zero_add, bytes_length, ← bytes_append, List.length_append, l1]
      rw [List.take_of_length_le (by omega)]
      congr 2; omega
    · simp only [unSt]; rw [writeAt_length _ _ _ (by simp; omega)]
    · simp only [unSt, writeAt, List.take_zero, List.nil_append, Nat.zero_add, List.drop_zero, Nat.sub_zero]
      rw [List.take_append_of_le_length (by simp), List.take_of_length_le (by simp)]
  · simp only [hlt, if_false, Option.some.injEq] at hr
    subst hr
    have hc : min (SE - SS) (outlen - 0) = outlen := by omega
    have hpre : (save.drop SS).take outlen = bytes (msave.take outlen) := by
      rw [bytes_take, ← hreg, List.take_take, Nat.min_eq_left (by omega)]
    rw [hc, hpre] at e0
    have hq' : ∀ (a b : Nat), ¬ (unSt buf outlen rs 0 (0 + outlen) a b 0 save (writeAt out 0 (bytes (msave.take outlen))) 0).q <
        (unSt buf outlen rs 0 (0 + outlen) a b 0 save (writeAt out 0 (bytes (msave.take outlen))) 0).endp := by
      intro a b; simp only [unSt]; omega
    have hlen : (msave.take outlen).length = outlen := by simp; omega
    have hbuf : writeAt out 0 (bytes (msave.take outlen)) = bytes (msave.take outlen) ++ out.drop outlen := by
      simp only [writeAt, List.take_zero, List.nil_append, Nat.zero_add, bytes_length, hlen]
    by_cases hall : SS + outlen ≥ SE
    · have e1 : ∀ (S1 : DFCIunrle.St), S1 = unSt buf outlen rs 0 (0 + outlen) (SS + outlen) SE 0 save (writeAt out 0 (bytes (msave.take outlen))) 0 →
          (if (S1.savestart ≥ S1.saveend) then DFCIunrle.St.set_savestart (DFCIunrle.St.set_saveend S1 0) (DFCIunrle.St.set_saveend S1 0).saveend else S1)
            = unSt buf outlen rs 0 (0 + outlen) 0 0 0 save (writeAt out 0 (bytes (msave.take outlen))) 0 := by
        intro S1 hS1
        subst hS1
        have c : ((SS + outlen : Nat) : Int) ≥ (SE : Int) := by omega
        simp only [unSt, c, if_true, DFCIunrle.St.set_savestart, DFCIunrle.St.set_saveend]
        rfl
      have e : unRest fuel (unSt buf outlen rs 0 0 SS SE 0 save out 0) =
          { unSt buf outlen rs 0 (0 + outlen) 0 0 0 save (writeAt out 0 (bytes (msave.take outlen))) 0 with ret := ((0 : Nat) : Int) - 0 } := by
        unfold unRest
        rw [e0]
        dsimp only
        rw [e1 _ rfl, un_loop1_done _ _ (hq' _ _)]
        rfl
      rw [e, hbuf]
      refine ⟨rfl, rfl, by simp, rfl, 0, 0, rfl, rfl, by omega, by omega, rfl, ?_⟩
      have : msave.drop outlen = [] := List.drop_of_length_le (by omega)
      simp [this]
    · have e1 : ∀ (S1 : DFCIunrle.St), S1 = unSt buf outlen rs 0 (0 + outlen) (SS + outlen) SE 0 save (writeAt out 0 (bytes (msave.take outlen))) 0 →
          (if (S1.savestart ≥ S1.saveend) then DFCIunrle.St.set_savestart (DFCIunrle.St.set_saveend S1 0) (DFCIunrle.St.set_saveend S1 0).saveend else S1)
            = S1 := by
        intro S1 hS1
        subst hS1
        have c : ¬ (((SS + outlen : Nat) : Int) ≥ (SE : Int)) := by omega
        simp only [unSt, c, if_false]
      have e : unRest fuel (unSt buf outlen rs 0 0 SS SE 0 save out 0) =
          { unSt buf outlen rs 0 (0 + outlen) (SS + outlen) SE 0 save (writeAt out 0 (bytes (msave.take outlen))) 0 with ret := ((0 : Nat) : Int) - 0 } := by
        unfold unRest
        rw [e0]
        dsimp only
        rw [e1 _ rfl, un_loop1_done _ _ (hq' _ _)]
        rfl
      rw [e, hbuf]
      refine ⟨rfl, rfl, by simp, rfl, SS + outlen, SE, rfl, rfl, by omega, by omega, rfl, ?_⟩
      simp only [unSt]
      rw [bytes_drop, ← hreg, List.drop_take, List.drop_drop]
      congr 1; omega


end H4.Lemmas.C15Fn
