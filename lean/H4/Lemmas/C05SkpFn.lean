import H4.Lemmas.C05Fn
/-! Lemmas for `H4.Props.C05SkpFn`: `HCIcskphuff_encode` and `HCIcskphuff_decode` of `hdf/src/cskphuff.c`, as TRANSLATED from the C
    text (`H4.Gen.Fn.Cskphuff`, regenerated on every run), compute the hand-written model (`H4.SkpHuff.encRunF` / `decRun`).

    Method: the body of the outer `while (length > 0)` loop is cut into the pieces the translator emits one after the other
    (`…_split`, proved by `rfl`, so any change of the generated text breaks it); each piece is executed symbolically on a state whose
    fields are variables (`obtain ⟨…⟩ := s`), under hypotheses that tie those variables to the model. -/
namespace H4.Lemmas.C05SkpFn
open H4 H4.SkpHuff H4.Gen.Cskphuff H4.Gen.Fn.Cskphuff H4.C2L H4.Lemmas.C05Fn

/-! ### conversions between the model's values and the C regions -/

/-- the caller's buffer `const uint8 *buf` -/
def bytes (bs : List UInt8) : List Int := bs.map fun b => (b.toNat : Int)

/-- `skphuff_info->left` (an array of `skip_size` rows `unsigned[SUCCMAX]`) holding the model's trees -/
def rowsL (ts : List Tree) : List (List Int) := ts.map fun t => arr t.left
/-- `skphuff_info->right` -/
def rowsR (ts : List Tree) : List (List Int) := ts.map fun t => arr t.right
/-- `skphuff_info->up` (rows `uint8[TWICEMAX]`) -/
def rowsU (ts : List Tree) : List (List Int) := ts.map fun t => arr t.up

/-- the cells the `Hbitwrite(aid, count, data)` calls append to region `io_out`: `count, data` per call -/
def flat : List (Nat × Nat) → List Int
  | [] => []
  | f :: fs => (f.1 : Int) :: (f.2 : Int) :: flat fs

/-- the model's trees after the coder has processed `bs` starting in lane `pos` (what `encRunF` / `decRun` thread through) -/
def runTrees (skip : Nat) : List Tree → Nat → List UInt8 → List Tree
  | ts, _, [] => ts
  | ts, pos, b :: bs => runTrees skip (ts.set pos (splay (getTree ts pos) b.toNat)) ((pos + 1) % skip) bs

theorem flat_append (a b : List (Nat × Nat)) : flat (a ++ b) = flat a ++ flat b := by
  induction a with
  | nil => rfl
  | cons f fs ih => simp [flat, ih]

@[simp] theorem bytes_length (bs : List UInt8) : (bytes bs).length = bs.length := by simp [bytes]

theorem bytes_getD (bs : List UInt8) (i : Nat) (h : i < bs.length) : (bytes bs).getD i 0 = ((bs[i].toNat : Nat) : Int) := by
  simp [bytes, List.getD, h]

theorem ints_getD' (l : List Nat) (i : Nat) : (ints l).getD i 0 = ((l.getD i 0 : Nat) : Int) := by
  simp [List.getD]

@[simp] theorem rowsL_length (ts : List Tree) : (rowsL ts).length = ts.length := by simp [rowsL]
@[simp] theorem rowsR_length (ts : List Tree) : (rowsR ts).length = ts.length := by simp [rowsR]
@[simp] theorem rowsU_length (ts : List Tree) : (rowsU ts).length = ts.length := by simp [rowsU]

theorem getTree_eq (ts : List Tree) (pos : Nat) (h : pos < ts.length) : getTree ts pos = ts[pos] := by
  simp [getTree, List.getD, h]

theorem rowsL_getD (ts : List Tree) (pos : Nat) (h : pos < ts.length) : (rowsL ts).getD pos [] = arr (getTree ts pos).left := by
  simp [rowsL, List.getD, h, getTree_eq]
theorem rowsR_getD (ts : List Tree) (pos : Nat) (h : pos < ts.length) : (rowsR ts).getD pos [] = arr (getTree ts pos).right := by
  simp [rowsR, List.getD, h, getTree_eq]
theorem rowsU_getD (ts : List Tree) (pos : Nat) (h : pos < ts.length) : (rowsU ts).getD pos [] = arr (getTree ts pos).up := by
  simp [rowsU, List.getD, h, getTree_eq]

theorem rowsL_set (ts : List Tree) (pos : Nat) (t : Tree) : (rowsL ts).set pos (arr t.left) = rowsL (ts.set pos t) := by
  simp [rowsL, List.map_set]
theorem rowsR_set (ts : List Tree) (pos : Nat) (t : Tree) : (rowsR ts).set pos (arr t.right) = rowsR (ts.set pos t) := by
  simp [rowsR, List.map_set]
theorem rowsU_set (ts : List Tree) (pos : Nat) (t : Tree) : (rowsU ts).set pos (arr t.up) = rowsU (ts.set pos t) := by
  simp [rowsU, List.map_set]

theorem set_WF (ts : List Tree) (pos : Nat) (t : Tree) (h : ∀ x ∈ ts, WF x) (ht : WF t) : ∀ x ∈ ts.set pos t, WF x := by
  intro x hx
  rcases List.mem_or_eq_of_mem_set hx with h1 | h1
  · exact h x h1
  · rw [h1]; exact ht

/-- `l[0..k]` known: the cell `k` and the cells below it -/
theorem take_succ_split {α} (l : List α) (k : Nat) (R : List α) (x d : α) (h : l.take (k + 1) = R ++ [x]) (hR : R.length = k) :
    l.take k = R ∧ l.getD k d = x ∧ k < l.length := by
  have hl : k < l.length := by
    have := congrArg List.length h
    simp at this; omega
  refine ⟨?_, ?_, hl⟩
  · have : (l.take (k + 1)).take k = l.take k := by simp [List.take_take]
    rw [← this, h]; simp [← hR]
  · rw [List.take_succ_eq_append_getElem hl] at h
    have hlen : (l.take k).length = R.length := by simp; omega
    have := List.append_inj h hlen
    simp [List.getD, hl]
    simpa using this.2

/-! ### the encoder's bit stack: the arrays `output_bits[]`, `bit_count[]`, `stack_ptr`, `bit_mask` against the model's `Stack` -/

/-- the push part of the encoder loop body on the C arrays (`H4.SkpHuff.Stack.push` is the same on the model's list) -/
def apush (obs bcs : List Nat) (sp mask : Nat) (bit : Bool) : List Nat × List Nat × Nat × Nat :=
  let obs1 := if bit then obs.set sp (obs.getD sp 0 ||| mask) else obs
  let bcs1 := bcs.set sp (bcs.getD sp 0 + 1)
  if bcs.getD sp 0 + 1 ≥ 32 then (obs1.set (sp + 1) 0, bcs1.set (sp + 1) 0, sp + 1, 1) else (obs1, bcs1, sp, (mask * 2) % 2 ^ 32)

/-- the cells `0..stack_ptr` of the two arrays are the model's stack, bottom first -/
structure SRel (obs bcs : List Nat) (sp mask : Nat) (st : Stack) : Prop where
  lo : obs.length = 64
  lb : bcs.length = 64
  hsp : sp = st.below.length
  hmask : mask = st.mask
  ob : obs.take (sp + 1) = ((st.top :: st.below).map (·.2)).reverse
  bc : bcs.take (sp + 1) = ((st.top :: st.below).map (·.1)).reverse

theorem SRel.top {obs bcs : List Nat} {sp mask : Nat} {st : Stack} (h : SRel obs bcs sp mask st) :
    obs.getD sp 0 = st.top.2 ∧ bcs.getD sp 0 = st.top.1 ∧ obs.take sp = (st.below.map (·.2)).reverse ∧
      bcs.take sp = (st.below.map (·.1)).reverse := by
  have h1 := take_succ_split obs sp (st.below.map (·.2)).reverse st.top.2 0 (by simpa using h.ob) (by simp [h.hsp])
  have h2 := take_succ_split bcs sp (st.below.map (·.1)).reverse st.top.1 0 (by simpa using h.bc) (by simp [h.hsp])
  exact ⟨h1.2.1, h2.2.1, h1.1, h2.1⟩

theorem apush_rel (obs bcs : List Nat) (sp mask : Nat) (st : Stack) (bit : Bool) (h : SRel obs bcs sp mask st)
    (hsp : sp + 1 < 64) :
    SRel (apush obs bcs sp mask bit).1 (apush obs bcs sp mask bit).2.1 (apush obs bcs sp mask bit).2.2.1
      (apush obs bcs sp mask bit).2.2.2 (st.push bit) := by
  obtain ⟨t2, t1, b2, b1⟩ := h.top
  have lo := h.lo
  have lb := h.lb
  have hsp' := h.hsp
  have hm := h.hmask
  have ob1 : ∀ v, (obs.set sp v).take (sp + 1) = (st.below.map (·.2)).reverse ++ [v] := by
    intro v; rw [take_set_succ _ _ _ (by omega), b2]
  have bc1 : ∀ v, (bcs.set sp v).take (sp + 1) = (st.below.map (·.1)).reverse ++ [v] := by
    intro v; rw [take_set_succ _ _ _ (by omega), b1]
  have ob0 : obs.take (sp + 1) = (st.below.map (·.2)).reverse ++ [st.top.2] := by simpa using h.ob
  unfold apush Stack.push
  simp only [t1, t2]
  by_cases hov : st.top.1 + 1 ≥ 32
  · simp only [hov, ↓reduceIte]
    refine ⟨by cases bit <;> simp [lo], by simp [lb], by simp [hsp'], rfl, ?_, ?_⟩
    · rw [take_set_succ _ _ _ (by cases bit <;> simp [lo] <;> omega)]
      cases bit
      · simp [ob0]
      · simp [ob1, hm]
    · rw [take_set_succ _ _ _ (by simp [lb]; omega), bc1]; simp
  · simp only [hov, ↓reduceIte]
    refine ⟨by cases bit <;> simp [lo], by simp [lb], hsp', by simp [hm, Nat.shiftLeft_eq], ?_, ?_⟩
    · cases bit
      · simp [ob0]
      · simp [ob1, hm]
    · simp [bc1]


/-! ### `HCIcskphuff_encode`: the pieces of the body of `while (length > 0)` -/

abbrev ESt := HCIcskphuff_encode.St

/-- first piece: `a = (unsigned)*buf + SUCCMAX; stack_ptr = 0; bit_mask = 1; output_bits[0] = 0; bit_count[0] = 0;` (generated text) -/
def encInit (s : ESt) : ESt :=
    have s : HCIcskphuff_encode.St := HCIcskphuff_encode.chk s (0 ≤ s.buf_i ∧ s.buf_i < s.buf.length)
    have s : HCIcskphuff_encode.St := HCIcskphuff_encode.St.set_a s (((((s.buf.getD (Int.toNat (s.buf_i)) 0) + (((255 + 1)) % 4294967296))) % 4294967296))
    have s : HCIcskphuff_encode.St := HCIcskphuff_encode.St.set_stack_ptr s (0)
    have s : HCIcskphuff_encode.St := HCIcskphuff_encode.St.set_bit_mask s (((1) % 4294967296))
    have s : HCIcskphuff_encode.St := HCIcskphuff_encode.chk s (0 < s.output_bits.length)
    have s : HCIcskphuff_encode.St := HCIcskphuff_encode.St.set_output_bits s (s.output_bits.set (Int.toNat (0)) (((0) % 4294967296)))
    have s : HCIcskphuff_encode.St := HCIcskphuff_encode.chk s (0 < s.bit_count.length)
    have s : HCIcskphuff_encode.St := HCIcskphuff_encode.St.set_bit_count s (s.bit_count.set (Int.toNat (0)) (((0) % 4294967296)))
    s

/-- last piece: `HCIcskphuff_splay(skphuff_info, *buf); skip_pos = (skip_pos + 1) % skip_size; buf++; length--;` (generated text) -/
def encTail (fuel : Nat) (s : ESt) : ESt :=
    have s : HCIcskphuff_encode.St := if s.done then s else
      have s : HCIcskphuff_encode.St := HCIcskphuff_encode.chk s (0 ≤ s.skphuff_info_skip_pos ∧ s.skphuff_info_skip_pos < s.skphuff_info_left.length)
      have s : HCIcskphuff_encode.St := HCIcskphuff_encode.chk s (0 ≤ s.skphuff_info_skip_pos ∧ s.skphuff_info_skip_pos < s.skphuff_info_right.length)
      have s : HCIcskphuff_encode.St := HCIcskphuff_encode.chk s (0 ≤ s.skphuff_info_skip_pos ∧ s.skphuff_info_skip_pos < s.skphuff_info_up.length)
      have s : HCIcskphuff_encode.St := HCIcskphuff_encode.chk s (0 ≤ s.buf_i ∧ s.buf_i < s.buf.length)
      let r0 : HCIcskphuff_splay.St := HCIcskphuff_splay fuel (s.skphuff_info_skip_pos) ((s.skphuff_info_left.getD (Int.toNat s.skphuff_info_skip_pos) [])) ((s.skphuff_info_right.getD (Int.toNat s.skphuff_info_skip_pos) [])) ((s.skphuff_info_up.getD (Int.toNat s.skphuff_info_skip_pos) [])) ((s.buf.getD (Int.toNat (s.buf_i)) 0))
      have s : HCIcskphuff_encode.St := HCIcskphuff_encode.St.set_skphuff_info_left s (s.skphuff_info_left.set (Int.toNat s.skphuff_info_skip_pos) r0.skphuff_info_left)
      have s : HCIcskphuff_encode.St := HCIcskphuff_encode.St.set_skphuff_info_right s (s.skphuff_info_right.set (Int.toNat s.skphuff_info_skip_pos) r0.skphuff_info_right)
      have s : HCIcskphuff_encode.St := HCIcskphuff_encode.St.set_skphuff_info_up s (s.skphuff_info_up.set (Int.toNat s.skphuff_info_skip_pos) r0.skphuff_info_up)
      have s : HCIcskphuff_encode.St := HCIcskphuff_encode.St.join s r0.ub r0.oof
      s
    have s : HCIcskphuff_encode.St := if s.done then s else
      have s : HCIcskphuff_encode.St := HCIcskphuff_encode.chk s (s.skphuff_info_skip_size ≠ 0)
      have s : HCIcskphuff_encode.St := HCIcskphuff_encode.St.set_skphuff_info_skip_pos s ((Int.tmod (s.skphuff_info_skip_pos + 1) s.skphuff_info_skip_size))
      s
    have s : HCIcskphuff_encode.St := if s.done then s else
      let e0 : Int := (s.buf_i + 1)
      have s : HCIcskphuff_encode.St := HCIcskphuff_encode.St.set_buf_i s (e0)
      s
    have s : HCIcskphuff_encode.St := if s.done then s else
      have s : HCIcskphuff_encode.St := HCIcskphuff_encode.St.set_length s ((s.length - 1))
      s
    s

/-- the body of `while (length > 0)` = first piece; the climb (`do … while (a != ROOT)`: the translator emits the body once, then
    `loop1`); the pops (`do … while (stack_ptr >= 0)`: body once, then `loop2`); last piece.  `rfl`: the generated text is literally
    this composition. -/
theorem enc_body_split (fuel : Nat) (s : ESt) : HCIcskphuff_encode.loop0.body fuel s =
    encTail fuel (HCIcskphuff_encode.loop2 fuel (HCIcskphuff_encode.loop2.body fuel
      (HCIcskphuff_encode.loop1 fuel (HCIcskphuff_encode.loop1.body fuel (encInit s))))) := rfl

/-- the variables of the climb and the pops: everything else of the state is `s` -/
def eframe (s : ESt) (obs bcs : List Nat) (sp : Int) (mask a : Nat) (last : Int) : ESt :=
  { s with output_bits := ints obs, bit_count := ints bcs, stack_ptr := sp, bit_mask := mask, a := a, last_node := last }

/-- what the pieces need of the part of the state they do not change: `skip_pos` selects existing rows, and these rows hold tree `t` -/
structure EBase (s : ESt) (t : Tree) : Prop where
  p0 : 0 ≤ s.skphuff_info_skip_pos
  pu : s.skphuff_info_skip_pos < s.skphuff_info_up.length
  pr : s.skphuff_info_skip_pos < s.skphuff_info_right.length
  pl : s.skphuff_info_skip_pos < s.skphuff_info_left.length
  hU : s.skphuff_info_up.getD (Int.toNat s.skphuff_info_skip_pos) [] = arr t.up
  hR : s.skphuff_info_right.getD (Int.toNat s.skphuff_info_skip_pos) [] = arr t.right
  hL : s.skphuff_info_left.getD (Int.toNat s.skphuff_info_skip_pos) [] = arr t.left
  ub : s.ub = false
  oof : s.oof = false
  done : s.done = false

theorem eframe_eframe (s : ESt) (obs bcs : List Nat) (sp : Int) (mask a : Nat) (last : Int) (obs' bcs' : List Nat) (sp' : Int) (mask' a' : Nat)
    (last' : Int) : eframe (eframe s obs bcs sp mask a last) obs' bcs' sp' mask' a' last' = eframe s obs' bcs' sp' mask' a' last' := rfl

theorem enc_init (s : ESt) (b : Nat) (i : Nat) (hi : s.buf_i = i) (hbuf : s.buf.getD i 0 = (b : Int)) (hb : b < 256) (hlen : i < s.buf.length)
    (obs bcs : List Nat) (hob : s.output_bits = ints obs) (hbc : s.bit_count = ints bcs) (hlo : obs.length = 64) (hlb : bcs.length = 64)
    (hub : s.ub = false) :
    encInit s = eframe s (obs.set 0 0) (bcs.set 0 0) ((0 : Nat) : Int) 1 (b + 256) s.last_node := by
  obtain ⟨length, buf_i, orig_length, stack_ptr, a', last_node, bit_mask, pos, ssize, off, up, right, left, buf, io_out, ob, bc, ub, oof, ret, done⟩ := s
  simp only at hi hbuf hlen hob hbc hub
  subst hi hob hbc hub
  have e1 : ((b : Int) + (255 + 1) % 4294967296) % 4294967296 = ((b + 256 : Nat) : Int) := by omega
  have e4 : (0 : Int) % 4294967296 = ((0 : Nat) : Int) := by omega
  have e5 : (1 : Int) % 4294967296 = ((1 : Nat) : Int) := by omega
  simp only [encInit, eframe, HCIcskphuff_encode.chk, Int.toNat_natCast, hbuf, e1, e4, e5, Int.toNat_zero, ints_set]
  simp [hlo, hlb]; omega

/-- one pass through the climb's body: `last_node = a; a = up[skip_pos][a]; if (right[skip_pos][a] == last_node) output_bits[stack_ptr] |=
    bit_mask; bit_mask <<= 1; bit_count[stack_ptr]++; if (bit_count[stack_ptr] >= 32) { … }` = the push on the arrays -/
theorem enc_body1 (g : Nat) (s : ESt) (t : Tree) (hw : WF t) (hs : EBase s t) (a : Nat) (ha : a < 512)
    (obs bcs : List Nat) (sp mask : Nat) (last : Int)
    (hlo : obs.length = 64) (hlb : bcs.length = 64) (hsp : sp + 1 < 64) (hc : bcs.getD sp 0 < 32) :
    HCIcskphuff_encode.loop1.body g (eframe s obs bcs sp mask a last) =
      eframe s (apush obs bcs sp mask (rd t.right (rd t.up a) == a)).1 (apush obs bcs sp mask (rd t.right (rd t.up a) == a)).2.1
        (apush obs bcs sp mask (rd t.right (rd t.up a) == a)).2.2.1 (apush obs bcs sp mask (rd t.right (rd t.up a) == a)).2.2.2
        (rd t.up a) a := by
  obtain ⟨hp0, hp1, hp2, -, hU, hR, -, hub, -, -⟩ := hs
  obtain ⟨length, buf_i, orig_length, stack_ptr, a', last_node, bit_mask, pos, ssize, off, up, right, left, buf, io_out, ob, bc, ub, oof, ret, done⟩ := s
  simp only at hp0 hp1 hp2 hU hR hub
  subst hub
  have szr := hw.szr
  have szu := hw.szu
  have c_lt : rd t.up a < 256 := hw.f.upLt a ha
  have e1 : (((bcs.getD sp 0 : Nat) : Int) + 1) % 4294967296 = ((bcs.getD sp 0 + 1 : Nat) : Int) := by omega
  have e2 : ((mask : Int) * 2 ^ (1:Int).toNat) % 4294967296 = ((mask * 2 % 2^32 : Nat) : Int) := by simp
  have e3 : ((sp : Int) + 1).toNat = sp + 1 := by omega
  have e4 : (0 : Int) % 4294967296 = ((0 : Nat) : Int) := by omega
  have e5 : (bcs.set sp (bcs.getD sp 0 + 1)).getD sp 0 = bcs.getD sp 0 + 1 := getD_set_self _ _ _ _ (by omega)
  have e6 : (32 : Int) % 4294967296 = ((32 : Nat) : Int) := by omega
  by_cases hbit : rd t.right (rd t.up a) = a <;> by_cases hov : bcs.getD sp 0 + 1 ≥ 32 <;>
    simp only [HCIcskphuff_encode.loop1.body, eframe, HCIcskphuff_encode.chk, apush, hU, hR, arr_getD, Int.toNat_natCast, hbit, ints_getD', e1, e2, e3, e4, e5, e6, ints_set,
      Int.ofNat_eq_natCast, ↓reduceIte, hov, Int.natCast_inj, ge_iff_le, Int.ofNat_le, beq_self_eq_true, beq_iff_eq] <;>
    simp [hlo, hlb, szr, szu, hp0, hp1, hp2] <;> omega

theorem eloop1_done (g : Nat) (s : ESt) (h : s.a = 0) : HCIcskphuff_encode.loop1 g s = s := by
  cases g <;> simp [HCIcskphuff_encode.loop1, h]

theorem eloop1_step (g : Nat) (s : ESt) (h : s.a ≠ 0) (hd : s.done = false) :
    HCIcskphuff_encode.loop1 (g + 1) s = HCIcskphuff_encode.loop1 g (HCIcskphuff_encode.loop1.body (g + 1) s) := by
  simp [HCIcskphuff_encode.loop1, h, hd]

/-- the climb (`do … while (a != ROOT)`) computes the model's `climbF` on the arrays, never leaving `output_bits[64]` /
    `bit_count[64]`: after `k` pushes the stack holds `k` bits, `k / 32` full words; the walk from `a` to ROOT has `n` steps and
    `k + n ≤ 512`, so `stack_ptr ≤ 16`. -/
theorem eloop1_rel (s : ESt) (t : Tree) (hw : WF t) (hs : EBase s t) : ∀ (n a : Nat), Reach (rd t.up) n a → ∀ (g f g' : Nat)
    (obs bcs : List Nat) (sp mask : Nat) (last : Int) (st : Stack), a < 512 → a ≠ 0 → n ≤ g + 1 → n ≤ f →
    SRel obs bcs sp mask st → st.Full → 32 * st.below.length + st.top.1 + n ≤ 512 →
    ∃ (obs' bcs' : List Nat) (sp' mask' : Nat) (last' : Int),
      HCIcskphuff_encode.loop1 g (HCIcskphuff_encode.loop1.body g' (eframe s obs bcs sp mask a last)) = eframe s obs' bcs' sp' mask' 0 last' ∧
      SRel obs' bcs' sp' mask' (climbF f t a st) ∧ (climbF f t a st).Full ∧ sp' < 64 := by
  intro n a hr
  induction hr with
  | one a hu =>
    intro g f g' obs bcs sp mask last st ha ha0 hg hf hrel hfull hk
    obtain ⟨f, rfl⟩ : ∃ f', f = f' + 1 := ⟨f - 1, by omega⟩
    have hsp : sp + 1 < 64 := by have := hrel.hsp; omega
    have hc : bcs.getD sp 0 < 32 := by rw [hrel.top.2.1]; exact hfull.1
    rw [enc_body1 g' s t hw hs a ha obs bcs sp mask last hrel.lo hrel.lb hsp hc]
    rw [eloop1_done _ _ (by simp [eframe, hu])]
    have hr' := apush_rel obs bcs sp mask st (rd t.right (rd t.up a) == a) hrel hsp
    refine ⟨_, _, _, _, _, by rw [hu], ?_, ?_, ?_⟩
    · simpa [climbF, hu, consts] using hr'
    · simpa [climbF, hu, consts] using push_full _ _ hfull
    · have := hr'.hsp
      have h2 := push_full _ (rd t.right (rd t.up a) == a) hfull
      unfold apush at this ⊢
      simp only at this ⊢
      split <;> simp <;> omega
  | step a n hu hr ih =>
    intro g f g' obs bcs sp mask last st ha ha0 hg hf hrel hfull hk
    obtain ⟨f, rfl⟩ : ∃ f', f = f' + 1 := ⟨f - 1, by omega⟩
    have hn := reach_pos hr
    obtain ⟨g, rfl⟩ : ∃ g1, g = g1 + 1 := ⟨g - 1, by omega⟩
    have hsp : sp + 1 < 64 := by have := hrel.hsp; omega
    have hc : bcs.getD sp 0 < 32 := by rw [hrel.top.2.1]; exact hfull.1
    rw [enc_body1 g' s t hw hs a ha obs bcs sp mask last hrel.lo hrel.lb hsp hc]
    rw [eloop1_step _ _ (by simp [eframe]; exact hu) (by simp [eframe, hs.done])]
    have hr' := apush_rel obs bcs sp mask st (rd t.right (rd t.up a) == a) hrel hsp
    have hfull' := push_full _ (rd t.right (rd t.up a) == a) hfull
    have c_lt : rd t.up a < 256 := hw.f.upLt a ha
    have hk' : 32 * (st.push (rd t.right (rd t.up a) == a)).below.length + (st.push (rd t.right (rd t.up a) == a)).top.1 + n ≤ 512 := by
      have h1 := hfull.1
      unfold Stack.push
      simp only
      split <;> simp <;> omega
    obtain ⟨o', b', s', m', l', h1, h2, h3, h4⟩ := ih g f (g + 1) _ _ _ _ (a : Int) _ (by omega) hu (by omega) (by omega) hr' hfull' hk'
    refine ⟨o', b', s', m', l', h1, ?_, ?_, h4⟩
    · simpa [climbF, hu, consts] using h2
    · simpa [climbF, hu, consts] using h3


/-! ### the pops: `do { if (bit_count[stack_ptr] > 0) Hbitwrite(aid, bit_count[stack_ptr], output_bits[stack_ptr]); stack_ptr--; } while (stack_ptr >= 0)` -/

/-- the cells one pop appends to `io_out`: `count, data` of word `k` unless it is empty -/
def popCell (obs bcs : List Nat) (k : Nat) : List Int :=
  if bcs.getD k 0 > 0 then [((bcs.getD k 0 : Nat) : Int), ((obs.getD k 0 : Nat) : Int)] else []

/-- the cells appended to `io_out` by popping the words `k-1, …, 0` -/
def popOut (obs bcs : List Nat) : Nat → List Int
  | 0 => []
  | k + 1 => popCell obs bcs k ++ popOut obs bcs k

/-- the state during the pops -/
def pframe (s : ESt) (sp : Int) (out : List Int) : ESt := { s with stack_ptr := sp, io_out := out }

theorem enc_body2 (g : Nat) (s : ESt) (obs bcs : List Nat) (sp : Nat) (out : List Int)
    (hob : s.output_bits = ints obs) (hbc : s.bit_count = ints bcs) (hlo : obs.length = 64) (hlb : bcs.length = 64) (hsp : sp < 64)
    (hub : s.ub = false) (hd : s.done = false) :
    HCIcskphuff_encode.loop2.body g (pframe s sp out) = pframe s ((sp : Int) - 1) (out ++ popCell obs bcs sp) := by
  obtain ⟨length, buf_i, orig_length, stack_ptr, a', last_node, bit_mask, pos, ssize, off, up, right, left, buf, io_out, ob, bc, ub, oof, ret, done⟩ := s
  simp only at hob hbc hub hd
  subst hob hbc hub hd
  have e4 : (0 : Int) % 4294967296 = ((0 : Nat) : Int) := by omega
  by_cases hc : bcs.getD sp 0 > 0 <;>
    simp only [HCIcskphuff_encode.loop2.body, pframe, popCell, HCIcskphuff_encode.chk, Int.toNat_natCast, ints_getD', e4, gt_iff_lt, Int.ofNat_lt, hc,
      ↓reduceIte, ne_eq, not_true_eq_false, decide_false, Bool.false_eq_true, List.append_nil] <;>
    simp [hlo, hlb] <;> omega

theorem eloop2_done (g : Nat) (s : ESt) (h : s.stack_ptr < 0) : HCIcskphuff_encode.loop2 g s = s := by
  cases g <;> simp [HCIcskphuff_encode.loop2] <;> intro <;> omega

theorem eloop2_step (g : Nat) (s : ESt) (h : 0 ≤ s.stack_ptr) (hd : s.done = false) :
    HCIcskphuff_encode.loop2 (g + 1) s = HCIcskphuff_encode.loop2 g (HCIcskphuff_encode.loop2.body (g + 1) s) := by
  simp [HCIcskphuff_encode.loop2, h, hd]

/-- the pops write the words `k-1, …, 0` and leave `stack_ptr = -1` -/
theorem eloop2_rel (s : ESt) (obs bcs : List Nat) (hob : s.output_bits = ints obs) (hbc : s.bit_count = ints bcs) (hlo : obs.length = 64)
    (hlb : bcs.length = 64) (hub : s.ub = false) (hd : s.done = false) : ∀ (k g : Nat) (out : List Int), k ≤ 64 → k ≤ g →
    HCIcskphuff_encode.loop2 g (pframe s ((k : Int) - 1) out) = pframe s (-1) (out ++ popOut obs bcs k) := by
  intro k
  induction k with
  | zero =>
    intro g out _ _
    rw [eloop2_done _ _ (by simp [pframe])]
    simp [popOut]
  | succ k ih =>
    intro g out hk hg
    obtain ⟨g, rfl⟩ : ∃ g1, g = g1 + 1 := ⟨g - 1, by omega⟩
    have e : ((k + 1 : Nat) : Int) - 1 = (k : Int) := by omega
    rw [e, eloop2_step _ _ (by simp [pframe]) (by simp [pframe, hd]), enc_body2 _ s obs bcs k out hob hbc hlo hlb (by omega) hub hd]
    rw [ih g _ (by omega) (by omega)]
    simp [popOut]

/-- popping the arrays = the model's `(s.top :: s.below).filter (·.1 > 0)` -/
theorem popOut_eq (obs bcs : List Nat) : ∀ (l : List (Nat × Nat)), obs.take l.length = (l.map (·.2)).reverse →
    bcs.take l.length = (l.map (·.1)).reverse → popOut obs bcs l.length = flat (l.filter fun e => e.1 > 0) := by
  intro l
  induction l with
  | nil => intro _ _; rfl
  | cons e l ih =>
    intro ho hb
    obtain ⟨o1, o2, -⟩ := take_succ_split obs l.length (l.map (·.2)).reverse e.2 0 (by simpa using ho) (by simp)
    obtain ⟨b1, b2, -⟩ := take_succ_split bcs l.length (l.map (·.1)).reverse e.1 0 (by simpa using hb) (by simp)
    simp only [List.length_cons, popOut, popCell, o2, b2, ih o1 b1]
    by_cases h : e.1 > 0 <;> simp [h, flat]


/-! ### the last piece: the call of the translated `HCIcskphuff_splay` on the rows `[skip_pos]`, lane and buffer advance -/

theorem splay_fn (t : Tree) (hw : WF t) (plain : Nat) (hp : plain < 256) (skip : Int) (fuel : Nat) (hf : 255 ≤ fuel) :
    let s := HCIcskphuff_splay fuel skip (arr t.left) (arr t.right) (arr t.up) plain
    s.ub = false ∧ s.oof = false ∧ s.skphuff_info_left = arr (splay t plain).left ∧ s.skphuff_info_right = arr (splay t plain).right ∧
      s.skphuff_info_up = arr (splay t plain).up := by
  obtain ⟨m, hm1, hm2⟩ := bounded_rank hw.f
  obtain ⟨n, hn, hr⟩ := reach_of_rank (rd t.up) m hw.f.upLt hm2 512 (plain + 256) (by omega) (by omega) (hm1 _)
  have h := loop_rel fuel n TWICEMAX _ t (plain + 256) hw (by omega) (by omega) hr (by omega) (by simp only [consts]; omega)
    (entry_rel skip t plain hp) 0
  rw [← splay_eq] at h
  exact ⟨h.ub, h.oof, h.hl, h.hr, h.hu⟩

theorem enc_tail (g : Nat) (hg : 255 ≤ g) (s : ESt) (t : Tree) (hw : WF t) (hs : EBase s t) (pos skip : Nat) (hpos : s.skphuff_info_skip_pos = pos)
    (hskip : s.skphuff_info_skip_size = skip) (hs1 : 1 ≤ skip)
    (b : Nat) (i : Nat) (hi : s.buf_i = i) (hbuf : s.buf.getD i 0 = (b : Int)) (hb : b < 256) (hlen : i < s.buf.length) :
    encTail g s = { s with skphuff_info_left := s.skphuff_info_left.set pos (arr (splay t b).left),
                           skphuff_info_right := s.skphuff_info_right.set pos (arr (splay t b).right),
                           skphuff_info_up := s.skphuff_info_up.set pos (arr (splay t b).up),
                           skphuff_info_skip_pos := ((pos + 1) % skip : Nat), buf_i := ((i + 1 : Nat) : Int), length := s.length - 1 } := by
  obtain ⟨hp0, hp1, hp2, hp3, hU, hR, hL, hub, hoof, hdone⟩ := hs
  obtain ⟨length, buf_i, orig_length, stack_ptr, a', last_node, bit_mask, pos', ssize, off, up, right, left, buf, io_out, ob, bc, ub, oof, ret, done⟩ := s
  simp only at hp0 hp1 hp2 hp3 hU hR hL hub hoof hdone hpos hskip hi hbuf hlen
  subst hub hoof hdone hpos hskip hi
  simp only [Int.toNat_natCast] at hU hR hL
  obtain ⟨h1, h2, h3, h4, h5⟩ := splay_fn t hw b hb pos g hg
  have e1 : Int.tmod ((pos : Int) + 1) (skip : Int) = (((pos + 1) % skip : Nat) : Int) := by
    rw [show ((pos : Int) + 1) = ((pos + 1 : Nat) : Int) by omega]; exact tmod_nat _ _
  simp only [encTail, HCIcskphuff_encode.chk, HCIcskphuff_encode.St.join, Int.toNat_natCast, hU, hR, hL, hbuf, h1, h2, h3, h4, h5, e1,
    Bool.false_eq_true, ↓reduceIte]
  simp [hp0, hp1, hp2, hp3]; omega


/-! ### the `while (length > 0)` loop of `HCIcskphuff_encode` -/

/-- loop invariant: `i` bytes of `all` are coded, the rows hold the trees `ts`, the lane is `pos`, `out` has been written -/
structure EInv (s : ESt) (skip : Nat) (ts : List Tree) (pos : Nat) (all : List UInt8) (i : Nat) (out : List Int) (off olen : Int) : Prop where
  length : s.length = ((all.length - i : Nat) : Int)
  buf : s.buf = bytes all
  buf_i : s.buf_i = (i : Int)
  hi : i ≤ all.length
  left : s.skphuff_info_left = rowsL ts
  right : s.skphuff_info_right = rowsR ts
  up : s.skphuff_info_up = rowsU ts
  pos : s.skphuff_info_skip_pos = (pos : Int)
  skip : s.skphuff_info_skip_size = (skip : Int)
  out : s.io_out = out
  ob : ∃ obs : List Nat, s.output_bits = ints obs ∧ obs.length = 64
  bc : ∃ bcs : List Nat, s.bit_count = ints bcs ∧ bcs.length = 64
  off : s.skphuff_info_offset = off
  olen : s.orig_length = olen
  ub : s.ub = false
  oof : s.oof = false
  done : s.done = false

theorem EBase.frame {s : ESt} {t : Tree} (hs : EBase s t) (obs bcs : List Nat) (sp : Int) (mask a : Nat) (last : Int) (sp' : Int) (out : List Int) :
    EBase (pframe (eframe s obs bcs sp mask a last) sp' out) t :=
  ⟨hs.p0, hs.pu, hs.pr, hs.pl, hs.hU, hs.hR, hs.hL, hs.ub, hs.oof, hs.done⟩

/-- one byte: the translated body appends the model's `encFields` of the lane's tree, splays that tree, advances the lane -/
theorem enc_body (g : Nat) (hg : 511 ≤ g) (s : ESt) (skip : Nat) (ts : List Tree) (pos : Nat) (all : List UInt8) (i : Nat) (out : List Int)
    (off olen : Int) (h : EInv s skip ts pos all i out off olen) (hi : i < all.length) (hw : ∀ t ∈ ts, WF t) (hts : ts.length = skip)
    (hpos : pos < skip) :
    EInv (HCIcskphuff_encode.loop0.body g s) skip (ts.set pos (splay (getTree ts pos) all[i].toNat)) ((pos + 1) % skip) all (i + 1)
      (out ++ flat (encFields (getTree ts pos) all[i].toNat)) off olen := by
  have hwt := getTree_WF ts pos hw
  have hb : all[i].toNat < 256 := UInt8.toNat_lt _
  generalize hbd : all[i].toNat = b at *
  generalize htd : getTree ts pos = t at *
  obtain ⟨obs, hob, hlo⟩ := h.ob
  obtain ⟨bcs, hbc, hlb⟩ := h.bc
  have hs : EBase s t := by
    refine ⟨by rw [h.pos]; omega, by rw [h.pos, h.up]; simp; omega, by rw [h.pos, h.right]; simp; omega, by rw [h.pos, h.left]; simp; omega,
      ?_, ?_, ?_, h.ub, h.oof, h.done⟩
    · rw [h.pos, h.up, Int.toNat_natCast, rowsU_getD _ _ (by omega), htd]
    · rw [h.pos, h.right, Int.toNat_natCast, rowsR_getD _ _ (by omega), htd]
    · rw [h.pos, h.left, Int.toNat_natCast, rowsL_getD _ _ (by omega), htd]
  have hbuf : s.buf.getD i 0 = (b : Int) := by rw [h.buf, bytes_getD _ _ hi, hbd]
  have hlen : i < s.buf.length := by rw [h.buf]; simpa using hi
  rw [enc_body_split, enc_init s b i h.buf_i hbuf hb hlen obs bcs hob hbc hlo hlb h.ub]
  obtain ⟨m, hm1, hm2⟩ := bounded_rank hwt.f
  obtain ⟨n, hn, hr⟩ := reach_of_rank (rd t.up) m hwt.f.upLt hm2 512 (b + 256) (by omega) (by omega) (hm1 _)
  have hrel0 : SRel (obs.set 0 0) (bcs.set 0 0) 0 1 { top := (0, 0), below := [], mask := 1 } := by
    refine ⟨by simp [hlo], by simp [hlb], rfl, rfl, ?_, ?_⟩
    · rw [take_set_succ _ _ _ (by omega)]; simp
    · rw [take_set_succ _ _ _ (by omega)]; simp
  obtain ⟨obs', bcs', sp', mask', last', h1, hrel, hfull, hsp'⟩ := eloop1_rel s t hwt hs n (b + 256) hr g TWICEMAX g _ _ 0 1 s.last_node _
    (by omega) (by omega) (by omega) (by simp only [consts]; omega) hrel0 ⟨by simp, by simp⟩ (by simp; omega)
  rw [h1]
  generalize hst : climbF TWICEMAX t (b + 256) { top := (0, 0), below := [], mask := 1 } = st at hrel hfull
  have e0 : eframe s obs' bcs' (sp' : Int) mask' 0 last' = pframe (eframe s obs' bcs' (sp' : Int) mask' 0 last') (sp' : Int) s.io_out := rfl
  rw [e0, enc_body2 g (eframe s obs' bcs' (sp' : Int) mask' 0 last') obs' bcs' sp' s.io_out rfl rfl hrel.lo hrel.lb hsp' h.ub h.done,
    eloop2_rel (eframe s obs' bcs' (sp' : Int) mask' 0 last') obs' bcs' rfl rfl hrel.lo hrel.lb h.ub h.done sp' g _ (by omega) (by omega)]
  have hpop : popCell obs' bcs' sp' ++ popOut obs' bcs' sp' = flat (encFields t b) := by
    have := popOut_eq obs' bcs' (st.top :: st.below) (by simpa [← hrel.hsp] using hrel.ob) (by simpa [← hrel.hsp] using hrel.bc)
    simp only [List.length_cons, ← hrel.hsp, popOut] at this
    rw [this, encFields, show b + SUCCMAX = b + 256 from rfl, hst]
  rw [List.append_assoc, hpop, h.out]
  rw [enc_tail g (by omega) _ t hwt (hs.frame _ _ _ _ _ _ _ _) pos skip h.pos h.skip (by omega) b i h.buf_i hbuf hb hlen]
  refine ⟨?_, h.buf, rfl, by omega, ?_, ?_, ?_, rfl, h.skip, rfl, ⟨obs', rfl, hrel.lo⟩, ⟨bcs', rfl, hrel.lb⟩, h.off, h.olen, h.ub, h.oof, h.done⟩
  · show s.length - 1 = _
    rw [h.length]; omega
  · show s.skphuff_info_left.set pos _ = _
    rw [h.left, rowsL_set]
  · show s.skphuff_info_right.set pos _ = _
    rw [h.right, rowsR_set]
  · show s.skphuff_info_up.set pos _ = _
    rw [h.up, rowsU_set]

theorem eloop0_done (g : Nat) (s : ESt) (h : s.length ≤ 0) : HCIcskphuff_encode.loop0 g s = s := by
  cases g <;> simp [HCIcskphuff_encode.loop0] <;> intro <;> omega

theorem eloop0_step (g : Nat) (s : ESt) (h : 0 < s.length) (hd : s.done = false) :
    HCIcskphuff_encode.loop0 (g + 1) s = HCIcskphuff_encode.loop0 g (HCIcskphuff_encode.loop0.body (g + 1) s) := by
  simp [HCIcskphuff_encode.loop0, h, hd]

/-- the whole loop: `k` bytes remain; fuel `k + 511` (the body gets the outer loop's remaining fuel for its inner loops and the splay call,
    and each needs at most 511) -/
theorem eloop0_rel (skip : Nat) (all : List UInt8) (off olen : Int) : ∀ (k g : Nat) (s : ESt) (ts : List Tree) (pos i : Nat) (out : List Int),
    k = all.length - i → EInv s skip ts pos all i out off olen → (k = 0 ∨ k + 511 ≤ g) → (∀ t ∈ ts, WF t) → ts.length = skip → pos < skip →
    EInv (HCIcskphuff_encode.loop0 g s) skip (runTrees skip ts pos (all.drop i)) ((pos + k) % skip) all all.length
      (out ++ flat (encRunF skip ts pos (all.drop i))) off olen := by
  intro k
  induction k with
  | zero =>
    intro g s ts pos i out hk h _ _ _ hpos
    have hi := h.hi
    have e : i = all.length := by omega
    subst e
    rw [eloop0_done _ _ (by rw [h.length]; omega)]
    simpa [runTrees, encRunF, flat, Nat.mod_eq_of_lt hpos] using h
  | succ k ih =>
    intro g s ts pos i out hk h hg hw hts hpos
    have hi : i < all.length := by omega
    obtain ⟨g, rfl⟩ : ∃ g1, g = g1 + 1 := ⟨g - 1, by omega⟩
    rw [eloop0_step _ _ (by rw [h.length]; omega) h.done]
    have hb := enc_body (g + 1) (by omega) s skip ts pos all i out off olen h hi hw hts hpos
    have hwt := getTree_WF ts pos hw
    have := ih g _ _ _ _ _ (by omega) hb (by omega) (set_WF ts pos _ hw (splay_WF _ _ hwt (UInt8.toNat_lt _))) (by simpa using hts)
      (Nat.mod_lt _ (by omega))
    rw [List.drop_eq_getElem_cons hi]
    simp only [runTrees, encRunF, flat_append, ← List.append_assoc]
    have e : (pos + (k + 1)) % skip = ((pos + 1) % skip + k) % skip := by rw [Nat.mod_add_mod]; congr 1; omega
    rw [e]
    exact this


/-! ### `HCIcskphuff_decode` -/

abbrev DSt := HCIcskphuff_decode.St

/-- a bit as `Hbitread(aid, 1, &bit)` delivers it -/
def b2i (b : Bool) : Int := if b then 1 else 0

/-- region `io_in`: one cell per bit of the stream -/
def bitsI (l : List Bool) : List Int := l.map b2i

@[simp] theorem bitsI_length (l : List Bool) : (bitsI l).length = l.length := by simp [bitsI]

theorem bitsI_getD (l : List Bool) (p : Nat) (h : p < l.length) : (bitsI l).getD p 0 = b2i l[p] := by
  simp [bitsI, List.getD, h]

/-- `Hbitread(aid, 1, &bit)` as the translator renders it: the next cell -/
theorem read1 (l : List Int) (p : Nat) (h : p < l.length) :
    (((l.drop p).take 1).foldl (fun acc b => acc * 2 + b) 0) = l.getD p 0 := by
  rw [List.drop_eq_getElem_cons h]
  simp only [List.take_succ_cons, List.take_zero, List.foldl_cons, List.foldl_nil]
  simp [List.getD, h]

/-- first piece of the body of `while (length > 0)`: `a = ROOT;` (generated text) -/
def decInit (s : DSt) : DSt :=
    have s : HCIcskphuff_decode.St := HCIcskphuff_decode.St.set_a s (((0) % 4294967296))
    s

/-- last piece: `plain = (uint8)(a - SUCCMAX); HCIcskphuff_splay(skphuff_info, plain); skip_pos = (skip_pos + 1) % skip_size; *buf++ = plain;
    length--;` (generated text) -/
def decTail (fuel : Nat) (s : DSt) : DSt :=
    have s : HCIcskphuff_decode.St := if s.done then s else
      have s : HCIcskphuff_decode.St := HCIcskphuff_decode.St.set_plain s ((((((s.a - (((255 + 1)) % 4294967296))) % 4294967296)) % 256))
      s
    have s : HCIcskphuff_decode.St := if s.done then s else
      have s : HCIcskphuff_decode.St := HCIcskphuff_decode.chk s (0 ≤ s.skphuff_info_skip_pos ∧ s.skphuff_info_skip_pos < s.skphuff_info_left.length)
      have s : HCIcskphuff_decode.St := HCIcskphuff_decode.chk s (0 ≤ s.skphuff_info_skip_pos ∧ s.skphuff_info_skip_pos < s.skphuff_info_right.length)
      have s : HCIcskphuff_decode.St := HCIcskphuff_decode.chk s (0 ≤ s.skphuff_info_skip_pos ∧ s.skphuff_info_skip_pos < s.skphuff_info_up.length)
      let r0 : HCIcskphuff_splay.St := HCIcskphuff_splay fuel (s.skphuff_info_skip_pos) ((s.skphuff_info_left.getD (Int.toNat s.skphuff_info_skip_pos) [])) ((s.skphuff_info_right.getD (Int.toNat s.skphuff_info_skip_pos) [])) ((s.skphuff_info_up.getD (Int.toNat s.skphuff_info_skip_pos) [])) (s.plain)
      have s : HCIcskphuff_decode.St := HCIcskphuff_decode.St.set_skphuff_info_left s (s.skphuff_info_left.set (Int.toNat s.skphuff_info_skip_pos) r0.skphuff_info_left)
      have s : HCIcskphuff_decode.St := HCIcskphuff_decode.St.set_skphuff_info_right s (s.skphuff_info_right.set (Int.toNat s.skphuff_info_skip_pos) r0.skphuff_info_right)
      have s : HCIcskphuff_decode.St := HCIcskphuff_decode.St.set_skphuff_info_up s (s.skphuff_info_up.set (Int.toNat s.skphuff_info_skip_pos) r0.skphuff_info_up)
      have s : HCIcskphuff_decode.St := HCIcskphuff_decode.St.join s r0.ub r0.oof
      s
    have s : HCIcskphuff_decode.St := if s.done then s else
      have s : HCIcskphuff_decode.St := HCIcskphuff_decode.chk s (s.skphuff_info_skip_size ≠ 0)
      have s : HCIcskphuff_decode.St := HCIcskphuff_decode.St.set_skphuff_info_skip_pos s ((Int.tmod (s.skphuff_info_skip_pos + 1) s.skphuff_info_skip_size))
      s
    have s : HCIcskphuff_decode.St := if s.done then s else
      have s : HCIcskphuff_decode.St := HCIcskphuff_decode.chk s (0 ≤ s.buf_i ∧ s.buf_i < s.buf.length)
      let v0 : Int := s.plain
      let ix0 : Int := s.buf_i
      let e0 : Int := (s.buf_i + 1)
      have s : HCIcskphuff_decode.St := HCIcskphuff_decode.St.set_buf s (s.buf.set (Int.toNat (ix0)) (v0))
      have s : HCIcskphuff_decode.St := HCIcskphuff_decode.St.set_buf_i s (e0)
      s
    have s : HCIcskphuff_decode.St := if s.done then s else
      have s : HCIcskphuff_decode.St := HCIcskphuff_decode.St.set_length s ((s.length - 1))
      s
    s

/-- the body of `while (length > 0)` = `a = ROOT`; the descent (`do … while (a <= SKPHUFF_MAX_CHAR)`: body once, then `loop1`); last piece -/
theorem dec_body_split (fuel : Nat) (s : DSt) : HCIcskphuff_decode.loop0.body fuel s =
    decTail fuel (HCIcskphuff_decode.loop1 fuel (HCIcskphuff_decode.loop1.body fuel (decInit s))) := rfl

/-- the variables of the descent -/
def dframe (s : DSt) (a : Nat) (p : Nat) (bit : Int) : DSt := { s with a := a, io_pos := p, bit := bit }

/-- the state after a failed `Hbitread`: `HRETURN_ERROR(DFE_CDECODE, FAIL)` -/
def dfail (s : DSt) (a : Nat) (p : Nat) (bit : Int) : DSt := { s with a := a, io_pos := p, bit := bit, ret := -1, done := true }

structure DBase (s : DSt) (t : Tree) (bits : List Bool) : Prop where
  p0 : 0 ≤ s.skphuff_info_skip_pos
  pu : s.skphuff_info_skip_pos < s.skphuff_info_up.length
  pr : s.skphuff_info_skip_pos < s.skphuff_info_right.length
  pl : s.skphuff_info_skip_pos < s.skphuff_info_left.length
  hU : s.skphuff_info_up.getD (Int.toNat s.skphuff_info_skip_pos) [] = arr t.up
  hR : s.skphuff_info_right.getD (Int.toNat s.skphuff_info_skip_pos) [] = arr t.right
  hL : s.skphuff_info_left.getD (Int.toNat s.skphuff_info_skip_pos) [] = arr t.left
  io : s.io_in = bitsI bits
  ub : s.ub = false
  oof : s.oof = false
  done : s.done = false

/-- one pass through the descent's body with a bit available: `Hbitread(aid, 1, &bit); a = (bit == 0) ? left[skip_pos][a] : right[skip_pos][a];` -/
theorem dec_body1_some (g : Nat) (s : DSt) (t : Tree) (bits : List Bool) (hw : WF t) (hs : DBase s t bits) (a : Nat) (ha : a < 256) (p : Nat)
    (hp : p < bits.length) (bit : Int) :
    HCIcskphuff_decode.loop1.body g (dframe s a p bit) =
      dframe s (if bits[p] then rd t.right a else rd t.left a) (p + 1) (b2i bits[p]) := by
  obtain ⟨hp0, hp1, hp2, hp3, hU, hR, hL, hio, hub, hoof, hdone⟩ := hs
  obtain ⟨length, buf_i, orig_length, bit', a', plain, io_pos, pos, ssize, off, left, right, up, io_in, buf, ub, oof, ret, done⟩ := s
  simp only at hp0 hp1 hp2 hp3 hU hR hL hio hub hoof hdone
  subst hio hub hoof hdone
  have szl := hw.szl
  have szr := hw.szr
  have e1 : ((p : Int) + 1 ≤ ((bitsI bits).length : Int)) := by simp; omega
  have e2 : (0 : Int) % 4294967296 = 0 := by omega
  have e3 : (1 : Int).toNat = 1 := rfl
  have e4 : ¬ ((1 : Int) = -1) := by decide
  have e5 : ¬ ((1 : Int) = 0) := by decide
  cases hb : bits[p] <;>
    simp only [HCIcskphuff_decode.loop1.body, dframe, HCIcskphuff_decode.chk, e1, e2, ↓reduceIte, Int.toNat_natCast, e3, e4, e5, decide_eq_true_eq, read1 _ _ (show p < (bitsI bits).length by simpa using hp),
      bitsI_getD _ _ hp, hb, b2i, hR, hL, arr_getD, Bool.false_eq_true] <;>
    simp [hp0, hp2, hp3, szl, szr] <;> omega

/-- … at the end of the input: `if (Hbitread(aid, 1, &bit) == FAIL) HRETURN_ERROR(DFE_CDECODE, FAIL)` -/
theorem dec_body1_none (g : Nat) (s : DSt) (t : Tree) (bits : List Bool) (hs : DBase s t bits) (a : Nat) (p : Nat)
    (hp : bits.length ≤ p) (bit : Int) :
    HCIcskphuff_decode.loop1.body g (dframe s a p bit) = dfail s a p bit := by
  obtain ⟨hp0, hp1, hp2, hp3, hU, hR, hL, hio, hub, hoof, hdone⟩ := hs
  obtain ⟨length, buf_i, orig_length, bit', a', plain, io_pos, pos, ssize, off, left, right, up, io_in, buf, ub, oof, ret, done⟩ := s
  simp only at hp0 hp1 hp2 hp3 hU hR hL hio hub hoof hdone
  subst hio hub hoof hdone
  have e1 : ¬ ((p : Int) + 1 ≤ ((bitsI bits).length : Int)) := by simp; omega
  simp only [HCIcskphuff_decode.loop1.body, dframe, dfail, HCIcskphuff_decode.chk, e1, ↓reduceIte]
  simp


theorem dloop1_done (g : Nat) (s : DSt) (h : 255 < s.a ∨ s.done = true) : HCIcskphuff_decode.loop1 g s = s := by
  cases g <;> simp [HCIcskphuff_decode.loop1] <;> intro h1 <;> rcases h with h | h <;> first | omega | simp [h]

theorem dloop1_step (g : Nat) (s : DSt) (h : s.a ≤ 255) (hd : s.done = false) :
    HCIcskphuff_decode.loop1 (g + 1) s = HCIcskphuff_decode.loop1 g (HCIcskphuff_decode.loop1.body (g + 1) s) := by
  simp [HCIcskphuff_decode.loop1, h, hd]

/-- the descent (`do … while (a <= SKPHUFF_MAX_CHAR)`) computes the model's `descend` on the bits from position `p` on: it stops at a leaf
    `sym + SUCCMAX` with the input at the model's rest, or - the input exhausted - with `ret = FAIL`.  Fuel: one pass per bit read. -/
theorem dloop1_rel (s : DSt) (t : Tree) (bits : List Bool) (hw : WF t) (hs : DBase s t bits) : ∀ (k a p g g' : Nat) (bit : Int),
    k = bits.length - p → p ≤ bits.length → a < 256 → k ≤ g →
    (∀ sym rest, descend t a (bits.drop p) = some (sym, rest) → sym < 256 ∧ ∃ (q : Nat) (bit' : Int), rest = bits.drop q ∧ p < q ∧ q ≤ bits.length ∧
      HCIcskphuff_decode.loop1 g (HCIcskphuff_decode.loop1.body g' (dframe s a p bit)) = dframe s (sym + 256) q bit') ∧
    (descend t a (bits.drop p) = none → ∃ (a' : Nat) (bit' : Int),
      HCIcskphuff_decode.loop1 g (HCIcskphuff_decode.loop1.body g' (dframe s a p bit)) = dfail s a' bits.length bit') := by
  intro k
  induction k with
  | zero =>
    intro a p g g' bit hk hp ha hg
    have e : p = bits.length := by omega
    subst e
    rw [dec_body1_none g' s t bits hs a _ (by omega) bit, dloop1_done _ _ (Or.inr rfl)]
    simp only [List.drop_length, descend]
    exact ⟨fun _ _ h => by simp at h, fun _ => ⟨a, bit, rfl⟩⟩
  | succ k ih =>
    intro a p g g' bit hk hp ha hg
    have hp' : p < bits.length := by omega
    rw [dec_body1_some g' s t bits hw hs a ha p hp' bit, List.drop_eq_getElem_cons hp']
    have hlt : (if bits[p] then rd t.right a else rd t.left a) < 512 := by
      split
      · exact hw.f.rightLt a ha
      · exact hw.f.leftLt a ha
    simp only [descend]
    generalize (if bits[p] then rd t.right a else rd t.left a) = a' at hlt ⊢
    by_cases hleaf : a' > SKPHUFF_MAX_CHAR
    · simp only [hleaf, ↓reduceIte]
      have h255 : a' > 255 := hleaf
      rw [dloop1_done _ _ (Or.inl (by simp [dframe]; omega))]
      refine ⟨?_, fun h => by simp at h⟩
      intro sym rest h
      simp only [Option.some.injEq, Prod.mk.injEq] at h
      obtain ⟨h1, h2⟩ := h
      have hs256 : sym + 256 = a' := by rw [← h1, consts.2.1]; omega
      refine ⟨by omega, p + 1, b2i bits[p], h2.symm, by omega, by omega, ?_⟩
      rw [hs256]
    · simp only [hleaf, ↓reduceIte]
      have h255 : a' ≤ 255 := by simp only [consts.1] at hleaf; omega
      obtain ⟨g, rfl⟩ : ∃ g1, g = g1 + 1 := ⟨g - 1, by omega⟩
      rw [dloop1_step _ _ (by simp [dframe]; omega) (by simp [dframe, hs.done])]
      obtain ⟨ih1, ih2⟩ := ih a' (p + 1) g (g + 1) (b2i bits[p]) (by omega) (by omega) (by omega) (by omega)
      refine ⟨?_, ih2⟩
      intro sym rest h
      obtain ⟨h1, q, bit', h2, h3, h4, h5⟩ := ih1 sym rest h
      exact ⟨h1, q, bit', h2, by omega, h4, h5⟩


theorem dec_tail_fail (g : Nat) (s : DSt) (h : s.done = true) : decTail g s = s := by
  simp only [decTail, h, ↓reduceIte]

/-- the last piece after a successful descent to the leaf `sym + SUCCMAX` -/
theorem dec_tail (g : Nat) (hg : 255 ≤ g) (s : DSt) (t : Tree) (bits : List Bool) (hw : WF t) (hs : DBase s t bits) (pos skip : Nat)
    (hpos : s.skphuff_info_skip_pos = pos) (hskip : s.skphuff_info_skip_size = skip) (hs1 : 1 ≤ skip)
    (sym : Nat) (hsym : sym < 256) (ha : s.a = ((sym + 256 : Nat) : Int)) (i : Nat) (hi : s.buf_i = i) (hlen : i < s.buf.length) :
    decTail g s = { s with plain := (sym : Int),
                           skphuff_info_left := s.skphuff_info_left.set pos (arr (splay t sym).left),
                           skphuff_info_right := s.skphuff_info_right.set pos (arr (splay t sym).right),
                           skphuff_info_up := s.skphuff_info_up.set pos (arr (splay t sym).up),
                           skphuff_info_skip_pos := ((pos + 1) % skip : Nat), buf := s.buf.set i (sym : Int),
                           buf_i := ((i + 1 : Nat) : Int), length := s.length - 1 } := by
  obtain ⟨hp0, hp1, hp2, hp3, hU, hR, hL, hio, hub, hoof, hdone⟩ := hs
  obtain ⟨length, buf_i, orig_length, bit', a', plain, io_pos, pos', ssize, off, left, right, up, io_in, buf, ub, oof, ret, done⟩ := s
  simp only at hp0 hp1 hp2 hp3 hU hR hL hub hoof hdone hpos hskip hi hlen ha
  subst hub hoof hdone hpos hskip hi ha
  simp only [Int.toNat_natCast] at hU hR hL
  obtain ⟨h1, h2, h3, h4, h5⟩ := splay_fn t hw sym hsym pos g hg
  have e1 : Int.tmod ((pos : Int) + 1) (skip : Int) = (((pos + 1) % skip : Nat) : Int) := by
    rw [show ((pos : Int) + 1) = ((pos + 1 : Nat) : Int) by omega]; exact tmod_nat _ _
  have e2 : ((((sym + 256 : Nat) : Int) - (255 + 1) % 4294967296) % 4294967296) % 256 = (sym : Int) := by omega
  simp only [decTail, HCIcskphuff_decode.chk, HCIcskphuff_decode.St.join, Int.toNat_natCast, hU, hR, hL, h1, h2, h3, h4, h5, e1, e2,
    Bool.false_eq_true, ↓reduceIte]
  simp [hp0, hp1, hp2, hp3]; omega

/-! ### the `while (length > 0)` loop of `HCIcskphuff_decode` -/

/-- the model's `decRun`, returning also the unread bits -/
def decRunR (skip : Nat) : List Tree → Nat → List Bool → Nat → Option (List UInt8 × List Bool)
  | _, _, bits, 0 => some ([], bits)
  | ts, pos, bits, n + 1 =>
    let t := getTree ts pos
    match decSym t bits with
    | none => none
    | some (s, rest) =>
      let plain := UInt8.ofNat s
      (decRunR skip (ts.set pos (splay t plain.toNat)) ((pos + 1) % skip) rest n).map fun r => (plain :: r.1, r.2)

theorem decRunR_fst (skip : Nat) : ∀ (n : Nat) (ts : List Tree) (pos : Nat) (bits : List Bool),
    (decRunR skip ts pos bits n).map (·.1) = decRun skip ts pos bits n := by
  intro n
  induction n with
  | zero => intro ts pos bits; rfl
  | succ n ih =>
    intro ts pos bits
    simp only [decRunR, decRun]
    cases decSym (getTree ts pos) bits with
    | none => rfl
    | some r =>
      obtain ⟨s, rest⟩ := r
      simp only [← ih, Option.map_map]
      rfl

/-- loop invariant: the bytes `pre` are delivered (into the caller's buffer, initially `B`), `n` remain, the input is at bit `p` -/
structure DInv (s : DSt) (skip : Nat) (ts : List Tree) (pos : Nat) (bits : List Bool) (p n : Nat) (B : List Int) (pre : List UInt8)
    (off olen : Int) : Prop where
  length : s.length = (n : Int)
  io : s.io_in = bitsI bits
  io_pos : s.io_pos = (p : Int)
  hp : p ≤ bits.length
  buf : s.buf = bytes pre ++ B.drop pre.length
  buf_i : s.buf_i = (pre.length : Int)
  hB : pre.length + n ≤ B.length
  left : s.skphuff_info_left = rowsL ts
  right : s.skphuff_info_right = rowsR ts
  up : s.skphuff_info_up = rowsU ts
  pos : s.skphuff_info_skip_pos = (pos : Int)
  skip : s.skphuff_info_skip_size = (skip : Int)
  off : s.skphuff_info_offset = off
  olen : s.orig_length = olen
  ub : s.ub = false
  oof : s.oof = false
  done : s.done = false

/-- the loop has stopped with `HRETURN_ERROR(DFE_CDECODE, FAIL)` -/
structure DFail (s : DSt) : Prop where
  done : s.done = true
  ret : s.ret = -1
  ub : s.ub = false
  oof : s.oof = false

theorem DBase.frame {s : DSt} {t : Tree} {bits : List Bool} (hs : DBase s t bits) (a p : Nat) (bit : Int) : DBase (dframe s a p bit) t bits :=
  ⟨hs.p0, hs.pu, hs.pr, hs.pl, hs.hU, hs.hR, hs.hL, hs.io, hs.ub, hs.oof, hs.done⟩

theorem bytes_snoc (pre : List UInt8) (B : List Int) (v : UInt8) (h : pre.length < B.length) :
    (bytes pre ++ B.drop pre.length).set pre.length (v.toNat : Int) = bytes (pre ++ [v]) ++ B.drop (pre ++ [v]).length := by
  rw [List.set_append_right _ _ (by simp)]
  simp only [bytes_length, Nat.sub_self, List.length_append, List.length_cons, List.length_nil]
  simp only [List.drop_eq_getElem_cons h, List.set_cons_zero]
  simp [bytes]

/-- one byte of `HCIcskphuff_decode`: the model's `decSym` on the lane's tree, then as the encoder -/
theorem dec_body (g : Nat) (s : DSt) (skip : Nat) (ts : List Tree) (pos : Nat) (bits : List Bool) (p n : Nat) (B : List Int) (pre : List UInt8)
    (off olen : Int) (h : DInv s skip ts pos bits p (n + 1) B pre off olen) (hg : 255 ≤ g) (hg2 : bits.length - p ≤ g)
    (hw : ∀ t ∈ ts, WF t) (hts : ts.length = skip) (hpos : pos < skip) :
    (∀ sym rest, decSym (getTree ts pos) (bits.drop p) = some (sym, rest) → sym < 256 ∧ ∃ q, rest = bits.drop q ∧ p < q ∧
      DInv (HCIcskphuff_decode.loop0.body g s) skip (ts.set pos (splay (getTree ts pos) sym)) ((pos + 1) % skip) bits q n B
        (pre ++ [UInt8.ofNat sym]) off olen) ∧
    (decSym (getTree ts pos) (bits.drop p) = none → DFail (HCIcskphuff_decode.loop0.body g s)) := by
  have hwt := getTree_WF ts pos hw
  generalize htd : getTree ts pos = t at *
  have hs : DBase s t bits := by
    refine ⟨by rw [h.pos]; omega, by rw [h.pos, h.up]; simp; omega, by rw [h.pos, h.right]; simp; omega, by rw [h.pos, h.left]; simp; omega,
      ?_, ?_, ?_, h.io, h.ub, h.oof, h.done⟩
    · rw [h.pos, h.up, Int.toNat_natCast, rowsU_getD _ _ (by omega), htd]
    · rw [h.pos, h.right, Int.toNat_natCast, rowsR_getD _ _ (by omega), htd]
    · rw [h.pos, h.left, Int.toNat_natCast, rowsL_getD _ _ (by omega), htd]
  have e0 : decInit s = dframe s 0 p s.bit := by
    obtain ⟨length, buf_i, orig_length, bit', a', plain, io_pos, pos', ssize, off, left, right, up, io_in, buf, ub, oof, ret, done⟩ := s
    have := h.io_pos
    simp only at this
    subst this
    rfl
  rw [dec_body_split, e0]
  obtain ⟨h1, h2⟩ := dloop1_rel s t bits hwt hs (bits.length - p) 0 p g g s.bit rfl h.hp (by omega) hg2
  constructor
  · intro sym rest hd
    obtain ⟨hsym, q, bit', hq1, hq2, hq3, hq4⟩ := h1 sym rest hd
    refine ⟨hsym, q, hq1, hq2, ?_⟩
    have hB := h.hB
    have hlen : pre.length < (dframe s (sym + 256) q bit').buf.length := by
      show pre.length < s.buf.length
      rw [h.buf]; simp; omega
    rw [hq4, dec_tail g hg _ t bits hwt (hs.frame _ _ _) pos skip h.pos h.skip (by omega) sym hsym rfl pre.length h.buf_i hlen]
    have e8 : (sym : Int) = (((UInt8.ofNat sym).toNat : Nat) : Int) := by
      rw [UInt8.toNat_ofNat']; congr 1; exact (Nat.mod_eq_of_lt hsym).symm
    refine ⟨?_, h.io, rfl, hq3, ?_, ?_, ?_, ?_, ?_, ?_, rfl, h.skip, h.off, h.olen, h.ub, h.oof, h.done⟩
    · show s.length - 1 = _
      rw [h.length]; omega
    · show s.buf.set pre.length (sym : Int) = _
      rw [h.buf, e8, bytes_snoc _ _ _ (by omega)]
    · show ((pre.length + 1 : Nat) : Int) = _
      simp
    · simp; omega
    · show s.skphuff_info_left.set pos _ = _
      rw [h.left, rowsL_set]
    · show s.skphuff_info_right.set pos _ = _
      rw [h.right, rowsR_set]
    · show s.skphuff_info_up.set pos _ = _
      rw [h.up, rowsU_set]
  · intro hd
    obtain ⟨a', bit', hq⟩ := h2 hd
    rw [hq, dec_tail_fail _ _ rfl]
    exact ⟨rfl, rfl, h.ub, h.oof⟩


theorem dloop0_done (g : Nat) (s : DSt) (h : s.length ≤ 0 ∨ s.done = true) : HCIcskphuff_decode.loop0 g s = s := by
  cases g <;> simp [HCIcskphuff_decode.loop0] <;> intro h1 <;> rcases h with h | h <;> first | omega | simp [h]

theorem dloop0_step (g : Nat) (s : DSt) (h : 0 < s.length) (hd : s.done = false) :
    HCIcskphuff_decode.loop0 (g + 1) s = HCIcskphuff_decode.loop0 g (HCIcskphuff_decode.loop0.body (g + 1) s) := by
  simp [HCIcskphuff_decode.loop0, h, hd]

/-- the whole loop against `decRunR`: either the model delivers `out` and leaves `rest`, and so does the translated loop; or the model runs
    out of bits, and the translated loop stops with FAIL.  Fuel: one unit per byte + (for the body's inner loop and splay call) the number
    of unread bits and 255. -/
theorem dloop0_rel (skip : Nat) (bits : List Bool) (B : List Int) (off olen : Int) : ∀ (n g : Nat) (s : DSt) (ts : List Tree) (pos p : Nat)
    (pre : List UInt8), DInv s skip ts pos bits p n B pre off olen → (n = 0 ∨ n + (bits.length - p) + 254 ≤ g) → (∀ t ∈ ts, WF t) →
    ts.length = skip → pos < skip →
    (∀ out rest, decRunR skip ts pos (bits.drop p) n = some (out, rest) → ∃ q, rest = bits.drop q ∧
      DInv (HCIcskphuff_decode.loop0 g s) skip (runTrees skip ts pos out) ((pos + n) % skip) bits q 0 B (pre ++ out) off olen) ∧
    (decRunR skip ts pos (bits.drop p) n = none → DFail (HCIcskphuff_decode.loop0 g s)) := by
  intro n
  induction n with
  | zero =>
    intro g s ts pos p pre h _ _ _ hpos
    rw [dloop0_done _ _ (Or.inl (by rw [h.length]; omega))]
    refine ⟨?_, fun hd => by simp [decRunR] at hd⟩
    intro out rest hd
    simp only [decRunR, Option.some.injEq, Prod.mk.injEq] at hd
    obtain ⟨rfl, rfl⟩ := hd
    exact ⟨p, rfl, by simpa [runTrees, Nat.mod_eq_of_lt hpos] using h⟩
  | succ n ih =>
    intro g s ts pos p pre h hg hw hts hpos
    obtain ⟨g, rfl⟩ : ∃ g1, g = g1 + 1 := ⟨g - 1, by omega⟩
    rw [dloop0_step _ _ (by rw [h.length]; omega) h.done]
    obtain ⟨hb1, hb2⟩ := dec_body (g + 1) s skip ts pos bits p n B pre off olen h (by omega) (by omega) hw hts hpos
    have hwt := getTree_WF ts pos hw
    simp only [decRunR]
    cases hd : decSym (getTree ts pos) (bits.drop p) with
    | none =>
      have hf := hb2 hd
      rw [dloop0_done _ _ (Or.inr hf.done)]
      exact ⟨fun _ _ h => by simp at h, fun _ => hf⟩
    | some r =>
      obtain ⟨sym, rest1⟩ := r
      obtain ⟨hsym, q, hq1, hq2, hinv⟩ := hb1 sym rest1 hd
      have e8 : (UInt8.ofNat sym).toNat = sym := by rw [UInt8.toNat_ofNat']; exact Nat.mod_eq_of_lt hsym
      simp only [e8]
      obtain ⟨ih1, ih2⟩ := ih g _ _ _ q _ hinv (by have := hinv.hp; omega) (set_WF ts pos _ hw (splay_WF _ _ hwt hsym)) (by simpa using hts)
        (Nat.mod_lt _ (by omega))
      rw [hq1]
      constructor
      · intro out rest hr
        cases hr2 : decRunR skip (ts.set pos (splay (getTree ts pos) sym)) ((pos + 1) % skip) (bits.drop q) n with
        | none => rw [hr2] at hr; simp at hr
        | some r2 =>
          obtain ⟨out2, rest2⟩ := r2
          rw [hr2] at hr
          simp only [Option.map_some, Option.some.injEq, Prod.mk.injEq] at hr
          obtain ⟨rfl, rfl⟩ := hr
          obtain ⟨q2, hq3, hinv2⟩ := ih1 out2 rest2 hr2
          refine ⟨q2, hq3, ?_⟩
          have e : (pos + (n + 1)) % skip = ((pos + 1) % skip + n) % skip := by rw [Nat.mod_add_mod]; congr 1; omega
          simp only [runTrees, e8, e]
          simpa using hinv2
      · intro hr
        cases hr2 : decRunR skip (ts.set pos (splay (getTree ts pos) sym)) ((pos + 1) % skip) (bits.drop q) n with
        | none => exact ih2 hr2
        | some r2 => rw [hr2] at hr; simp at hr


theorem decRunR_length (skip : Nat) : ∀ (n : Nat) (ts : List Tree) (pos : Nat) (bits : List Bool) (out : List UInt8) (rest : List Bool),
    decRunR skip ts pos bits n = some (out, rest) → out.length = n := by
  intro n
  induction n with
  | zero => intro ts pos bits out rest h; simp only [decRunR, Option.some.injEq, Prod.mk.injEq] at h; rw [← h.1]; rfl
  | succ n ih =>
    intro ts pos bits out rest h
    simp only [decRunR] at h
    cases hd : decSym (getTree ts pos) bits with
    | none => rw [hd] at h; simp at h
    | some r =>
      obtain ⟨sym, rest1⟩ := r
      rw [hd] at h
      simp only at h
      cases hr : decRunR skip (ts.set pos (splay (getTree ts pos) (UInt8.ofNat sym).toNat)) ((pos + 1) % skip) rest1 n with
      | none => rw [hr] at h; simp at h
      | some r2 =>
        obtain ⟨o2, r2⟩ := r2
        rw [hr] at h
        simp only [Option.map_some, Option.some.injEq, Prod.mk.injEq] at h
        rw [← h.1, List.length_cons, ih _ _ _ _ _ hr]

/-! ### the bit stream between the two functions: `Hbitwrite(count, data)` puts `count` bits of `data`, most significant first; `Hbitread(1)` takes them one by one -/

/-- the `(count, data)` cells of region `io_out` as the bit cells of region `io_in` -/
def expandPairs : List Int → List Int
  | c :: d :: rest => bitsI (H4.Bits.msbBits c.toNat d.toNat) ++ expandPairs rest
  | _ => []

theorem bitsI_append (a b : List Bool) : bitsI (a ++ b) = bitsI a ++ bitsI b := by simp [bitsI]

theorem expandPairs_flat (fs : List (Nat × Nat)) : expandPairs (flat fs) = bitsI (H4.Bits.fieldsBits fs) := by
  induction fs with
  | nil => rfl
  | cons f fs ih => simp only [flat, expandPairs, Int.toNat_natCast, ih, fieldsBits_cons, bitsI_append]

/-- the walk from a leaf to ROOT: its length is the code length -/
theorem climb_length (t : Tree) : ∀ (n a : Nat), Reach (rd t.up) n a → ∀ (f : Nat) (acc : List Bool), n ≤ f →
    (climb f t a acc).length = acc.length + n := by
  intro n a h
  induction h with
  | one a hu =>
    intro f acc hf
    obtain ⟨f, rfl⟩ : ∃ f', f = f' + 1 := ⟨f - 1, by omega⟩
    simp [climb, hu, consts]
  | step a n hu _ ih =>
    intro f acc hf
    obtain ⟨f, rfl⟩ : ∃ f', f = f' + 1 := ⟨f - 1, by omega⟩
    simp only [climb, consts, ne_eq, hu, not_false_eq_true, ↓reduceIte]
    rw [ih f _ (by omega)]
    simp; omega

end H4.Lemmas.C05SkpFn
