import H4.Gen.Fn.Hcomp
import H4.Format
import H4.CompHdr
import H4.Lemmas.Format
import H4.Lemmas.C2LBytes
/-! Lemmas for `H4.Props.C02HdrFn`: `HCPencode_header` / `HCPdecode_header` of `hdf/src/hcomp.c`, as TRANSLATED from the C text
    (`H4.Gen.Fn.Hcomp`, regenerated on every run), against the hand-written codec `H4.Format.encodeCoderInfo / decodeCoderInfo`
    (the model/coder part of the compressed-element header that the C02 reader and the C05 chunk headers use).

    Method: each function is RESTATED as a composition of the macro combinators of `H4.C2L` (`enc16`, `enc32`, `dec16u`, …) and the
    restatement is checked against the generated definition by the kernel (`HCPencode_header_phases`, `HCPdecode_header_phases`).
    Core only. -/
set_option linter.unusedSimpArgs false
set_option linter.unusedVariables false
namespace H4.Lemmas.C02HdrFn
open H4 H4.Format H4.Gen.Hdf H4.Gen.Fmt H4.Gen.Fn.Hcomp H4.C2L H4.CompHdr

/-! ## 1. `HCPencode_header` -/

/-- the output cursor of `HCPencode_header`: region `p`, index `p_i` -/
def encL : Cursor ESt where
  buf := (·.p)
  pos := (·.p_i)
  ub := (·.ub)
  setBuf := HCPencode_header.St.set_p
  setPos := HCPencode_header.St.set_p_i
  chk := fun s c _ => HCPencode_header.chk s c

theorem encLaw : encL.Lawful where
  chk_true := by intro s c _ h; simp [encL, HCPencode_header.chk, h]
  buf_setBuf := fun _ _ => rfl
  pos_setBuf := fun _ _ => rfl
  buf_setPos := fun _ _ => rfl
  pos_setPos := fun _ _ => rfl
  buf_chk := fun _ _ _ => rfl
  pos_chk := fun _ _ _ => rfl
  chk_setPos := fun _ _ _ _ => rfl
  chk_chk := by intro s c d _ _ h; simp [encL, HCPencode_header.chk, h]
  chk_and := by
    intro s c d _ _
    simp only [encL, HCPencode_header.chk, Bool.or_assoc, Bool.decide_and, Bool.not_and]
  chk_congr := by
    intro s c d _ _ h
    simp only [encL, HCPencode_header.chk, decide_eq_decide.mpr h]
  setPos_setPos := fun _ _ _ => rfl

/-- `case COMP_CODE_NBIT:` (operands read from the state at entry: no store of the function changes them) -/
def nbitW (s : ESt) : ESt :=
  have t : ESt := enc32 encL s ((s.c_info_nbit_nt) % 4294967296)
  have t : ESt := enc16 encL t ((s.c_info_nbit_sign_ext) % 65536) ((s.c_info_nbit_sign_ext) % 65536)
  have t : ESt := enc16 encL t ((s.c_info_nbit_fill_one) % 65536) ((s.c_info_nbit_fill_one) % 65536)
  have t : ESt := enc32 encL t ((s.c_info_nbit_start_bit) % 4294967296)
  have t : ESt := enc32 encL t ((s.c_info_nbit_bit_len) % 4294967296)
  t

/-- `case COMP_CODE_SKPHUFF:` -/
def skpW (s : ESt) : ESt :=
  have s : ESt := if (s.c_info_skphuff_skp_size < 1) then
      have s : ESt := HCPencode_header.St.set_ret s ((- 1))
      have s : ESt := HCPencode_header.St.set_done s (true)
      s
    else
      s
  have s : ESt := if s.done ∨ s.gto then s else
    enc32 encL s ((s.c_info_skphuff_skp_size) % 4294967296)
  have s : ESt := if s.done ∨ s.gto then s else
    enc32 encL s ((s.c_info_skphuff_skp_size) % 4294967296)
  s

/-- `case COMP_CODE_DEFLATE:` -/
def deflW (s : ESt) : ESt :=
  have s : ESt := if ((s.c_info_deflate_level < 0) ∨ (s.c_info_deflate_level > 9)) then
      have s : ESt := HCPencode_header.St.set_ret s ((- 1))
      have s : ESt := HCPencode_header.St.set_done s (true)
      s
    else
      s
  have s : ESt := if s.done ∨ s.gto then s else
    enc16 encL s ((s.c_info_deflate_level) % 65536) ((s.c_info_deflate_level) % 65536)
  s

/-- `case COMP_CODE_SZIP:` -/
def szipW (s : ESt) : ESt :=
  have t : ESt := enc32 encL s ((s.c_info_szip_pixels) % 4294967296)
  have t : ESt := enc32 encL t ((s.c_info_szip_pixels_per_scanline) % 4294967296)
  have t : ESt := enc32 encL t ((orS s.c_info_szip_options_mask 65536) % 4294967296)
  have t : ESt := pbyte encL t ((s.c_info_szip_bits_per_pixel) % 256)
  have t : ESt := pbyte encL t ((s.c_info_szip_pixels_per_block) % 256)
  t

/-- `case COMP_CODE_IMCOMP:` -/
def imcompW (s : ESt) : ESt :=
  have s : ESt := HCPencode_header.St.set_ret s ((- 1))
  have s : ESt := HCPencode_header.St.set_done s (true)
  s

/-- `ret_value = SUCCEED; if (p == NULL || m_info == NULL || c_info == NULL) HGOTO_ERROR(DFE_ARGS, FAIL);` -/
def preW (s : ESt) : ESt :=
  have s : ESt := HCPencode_header.St.set_ret_value s (0)
  have s : ESt := if ((False ∨ (s.m_info_null = true)) ∨ (s.c_info_null = true)) then
      have s : ESt := HCPencode_header.St.set_ret_value s ((- 1))
      have s : ESt := HCPencode_header.St.set_gto s (true)
      s
    else
      s
  s

/-- the two type fields; `switch (model_type) { default: break; }` -/
def hdrW (s : ESt) : ESt :=
  have s : ESt := if s.done ∨ s.gto then s else
    enc16 encL s ((s.model_type) % 65536) ((s.model_type) % 65536)
  have s : ESt := if s.done ∨ s.gto then s else
    enc16 encL s ((s.coder_type) % 65536) ((s.coder_type) % 65536)
  have s : ESt := if s.done ∨ s.gto then s else
    s
  s

/-- `switch (coder_type)` -/
def swW (s : ESt) : ESt :=
  if s.done ∨ s.gto then s else
    let sw : Int := s.coder_type
    if sw = ((2) % 4294967296) then nbitW s
    else if sw = ((3) % 4294967296) then skpW s
    else if sw = ((4) % 4294967296) then deflW s
    else if sw = ((5) % 4294967296) then szipW s
    else if sw = ((12) % 4294967296) then imcompW s
    else s

/-- `done: return ret_value;` -/
def finW (s : ESt) : ESt :=
  if s.done then s else
    have s : ESt := HCPencode_header.St.set_gto s (false)
    have s : ESt := HCPencode_header.St.set_ret s (s.ret_value)
    have s : ESt := HCPencode_header.St.set_done s (true)
    s

/-- the body of `HCPencode_header` in phases -/
def encBody (s : ESt) : ESt := finW (swW (hdrW (preW s)))

/-- the state at entry -/
def encInit (p : List Int) (model_type : Int) (m_info_null : Bool) (coder_type : Int) (c_info_null : Bool) (c : CInfo) : ESt :=
  { p := p, model_type := model_type, m_info_null := m_info_null, coder_type := coder_type, c_info_null := c_info_null,
    c_info_nbit_nt := c.nt, c_info_nbit_sign_ext := c.sign_ext, c_info_nbit_fill_one := c.fill_one,
    c_info_nbit_start_bit := c.start_bit, c_info_nbit_bit_len := c.bit_len, c_info_skphuff_skp_size := c.skp_size,
    c_info_deflate_level := c.level, c_info_szip_pixels := c.pixels, c_info_szip_pixels_per_scanline := c.pixels_per_scanline,
    c_info_szip_options_mask := c.options_mask, c_info_szip_bits_per_pixel := c.bits_per_pixel,
    c_info_szip_pixels_per_block := c.pixels_per_block }

/-- **the restatement is the generated definition** (kernel check: any change of the translated C text that is not a change of
    these phases breaks it) -/
theorem HCPencode_header_phases (fuel : Nat) (p : List Int) (model_type : Int) (m_info_null : Bool) (coder_type : Int)
    (c_info_null : Bool) (c : CInfo) :
    HCPencode_headerC fuel p model_type m_info_null coder_type c_info_null c =
      encBody (encInit p model_type m_info_null coder_type c_info_null c) := by
  kernel_rfl

/-! ### what each phase stores -/

theorem be16I_length (x : Int) : (be16I x).length = 2 := rfl
theorem be32I_length (x : Int) : (be32I x).length = 4 := rfl

/-- discharges the bounds of the next macro: cursor and buffer length after the stores so far -/
macro "enc_bnd" : tactic => `(tactic|
  (try simp only [be32I_length, be16I_length, List.length_cons, List.length_nil, List.length_append]
   try simp only [encL] at *
   omega))

theorem nbitW_eq (s : ESt) (hb : 0 ≤ s.p_i ∧ s.p_i + 16 ≤ s.p.length) :
    nbitW s = putN encL s (be32I (s.c_info_nbit_nt % 4294967296) ++ be16I (s.c_info_nbit_sign_ext % 65536) ++
      be16I (s.c_info_nbit_fill_one % 65536) ++ be32I (s.c_info_nbit_start_bit % 4294967296) ++ be32I (s.c_info_nbit_bit_len % 4294967296)) := by
  unfold nbitW
  simp only []
  rw [enc32_eq encLaw s _ (by omega) (by enc_bnd)]
  rw [enc16_putN encLaw s _ _ _ (by omega) rfl (by enc_bnd)]
  rw [enc16_putN encLaw s _ _ _ (by omega) rfl (by enc_bnd)]
  rw [enc32_putN encLaw s _ _ (by omega) (by enc_bnd)]
  rw [enc32_putN encLaw s _ _ (by omega) (by enc_bnd)]

theorem szipW_eq (s : ESt) (hb : 0 ≤ s.p_i ∧ s.p_i + 14 ≤ s.p.length) :
    szipW s = putN encL s (be32I (s.c_info_szip_pixels % 4294967296) ++ be32I (s.c_info_szip_pixels_per_scanline % 4294967296) ++
      be32I ((orS s.c_info_szip_options_mask 65536) % 4294967296) ++ [s.c_info_szip_bits_per_pixel % 256] ++
      [s.c_info_szip_pixels_per_block % 256]) := by
  unfold szipW
  simp only []
  rw [enc32_eq encLaw s _ (by omega) (by enc_bnd)]
  rw [enc32_putN encLaw s _ _ (by omega) (by enc_bnd)]
  rw [enc32_putN encLaw s _ _ (by omega) (by enc_bnd)]
  rw [pbyte_putN encLaw s _ _ (by enc_bnd)]
  rw [pbyte_putN encLaw s _ _ (by enc_bnd)]

/-- a run of stores as a structure update: every other field is the one of `s` -/
theorem putN_struct (s : ESt) (vs : List Int) :
    putN encL s vs = { s with p := setsFrom s.p s.p_i vs, p_i := s.p_i + vs.length } := by
  induction vs generalizing s with
  | nil => simp [putN, setsFrom]
  | cons v vs ih =>
    rw [putN_cons, ih]
    simp only [put, encL, HCPencode_header.St.set_p, HCPencode_header.St.set_p_i, setsFrom, List.length_cons]
    congr 1
    omega

/-! ### frame: the fields a run of stores leaves alone -/

theorem done_putN (s : ESt) (vs : List Int) : (putN encL s vs).done = s.done := frame_putN encL (·.done) (fun _ _ => rfl) (fun _ _ => rfl) s vs
theorem gto_putN (s : ESt) (vs : List Int) : (putN encL s vs).gto = s.gto := frame_putN encL (·.gto) (fun _ _ => rfl) (fun _ _ => rfl) s vs
theorem ub_putN (s : ESt) (vs : List Int) : (putN encL s vs).ub = s.ub := frame_putN encL (·.ub) (fun _ _ => rfl) (fun _ _ => rfl) s vs
theorem oof_putN (s : ESt) (vs : List Int) : (putN encL s vs).oof = s.oof := frame_putN encL (·.oof) (fun _ _ => rfl) (fun _ _ => rfl) s vs
theorem ret_putN (s : ESt) (vs : List Int) : (putN encL s vs).ret = s.ret := frame_putN encL (·.ret) (fun _ _ => rfl) (fun _ _ => rfl) s vs
theorem ret_value_putN (s : ESt) (vs : List Int) : (putN encL s vs).ret_value = s.ret_value := frame_putN encL (·.ret_value) (fun _ _ => rfl) (fun _ _ => rfl) s vs
theorem coder_type_putN (s : ESt) (vs : List Int) : (putN encL s vs).coder_type = s.coder_type := frame_putN encL (·.coder_type) (fun _ _ => rfl) (fun _ _ => rfl) s vs
theorem p_putN (s : ESt) (vs : List Int) : (putN encL s vs).p = setsFrom s.p s.p_i vs := buf_putN_sets encLaw s vs
theorem p_i_putN (s : ESt) (vs : List Int) : (putN encL s vs).p_i = s.p_i + vs.length := pos_putN encLaw s vs

theorem preW_ok (s : ESt) (h1 : s.m_info_null = false) (h2 : s.c_info_null = false) : preW s = { s with ret_value := 0 } := by
  simp only [preW, HCPencode_header.St.set_ret_value, h1, h2, Bool.false_eq_true, or_self, if_false]

theorem preW_null (s : ESt) (h : s.m_info_null = true ∨ s.c_info_null = true) : preW s = { s with ret_value := -1, gto := true } := by
  have c : (False ∨ (s.m_info_null = true)) ∨ (s.c_info_null = true) := by
    rcases h with h | h
    · exact Or.inl (Or.inr h)
    · exact Or.inr h
  simp only [preW, HCPencode_header.St.set_ret_value, HCPencode_header.St.set_gto]
  rw [if_pos c]

theorem hdrW_ok (s : ESt) (hd : s.done = false) (hg : s.gto = false) (hm : 0 ≤ s.model_type) (hc : 0 ≤ s.coder_type)
    (hb : 0 ≤ s.p_i ∧ s.p_i + 4 ≤ s.p.length) :
    hdrW s = putN encL s (be16I s.model_type ++ be16I s.coder_type) := by
  unfold hdrW
  simp only [hd, hg, Bool.false_eq_true, or_self, if_false]
  rw [enc16_eq encLaw s _ _ (by omega) rfl (by enc_bnd)]
  simp only [done_putN, gto_putN, coder_type_putN, hd, hg, Bool.false_eq_true, or_self, if_false]
  rw [enc16_putN encLaw s _ _ _ (by omega) rfl (by enc_bnd), be16I_mod, be16I_mod]
  simp only [ite_self]

theorem hdrW_skip (s : ESt) (hg : s.gto = true) : hdrW s = s := by
  unfold hdrW
  simp only [hg, or_true, if_true]

theorem swW_skip (s : ESt) (hg : s.gto = true) : swW s = s := by
  unfold swW
  simp only [hg, or_true, if_true]

/-- the state at `return ret_value;` -/
def finS (s : ESt) : ESt := { s with gto := false, ret := s.ret_value, done := true }

theorem finW_ok (s : ESt) (hd : s.done = false) : finW s = finS s := by
  simp only [finW, finS, hd, Bool.false_eq_true, if_false, HCPencode_header.St.set_gto, HCPencode_header.St.set_ret, HCPencode_header.St.set_done]

theorem finW_done (s : ESt) (hd : s.done = true) : finW s = s := by
  simp only [finW, hd, if_true]

theorem skpW_ok (s : ESt) (hd : s.done = false) (hg : s.gto = false) (h : 1 ≤ s.c_info_skphuff_skp_size)
    (hb : 0 ≤ s.p_i ∧ s.p_i + 8 ≤ s.p.length) :
    skpW s = putN encL s (be32I (s.c_info_skphuff_skp_size % 4294967296) ++ be32I (s.c_info_skphuff_skp_size % 4294967296)) := by
  unfold skpW
  have c : ¬ (s.c_info_skphuff_skp_size < 1) := by omega
  simp only [c, if_false, hd, hg, Bool.false_eq_true, or_self]
  rw [enc32_eq encLaw s _ (by omega) (by enc_bnd)]
  have e : ∀ vs, (putN encL s vs).c_info_skphuff_skp_size = s.c_info_skphuff_skp_size :=
    fun vs => frame_putN encL (·.c_info_skphuff_skp_size) (fun _ _ => rfl) (fun _ _ => rfl) s vs
  simp only [done_putN, gto_putN, e, hd, hg, Bool.false_eq_true, or_self, if_false]
  rw [enc32_putN encLaw s _ _ (by omega) (by enc_bnd)]

theorem skpW_fail (s : ESt) (h : s.c_info_skphuff_skp_size < 1) : skpW s = { s with ret := -1, done := true } := by
  unfold skpW
  simp only [h, if_true, HCPencode_header.St.set_ret, HCPencode_header.St.set_done, true_or]

theorem deflW_ok (s : ESt) (hd : s.done = false) (hg : s.gto = false) (h : 0 ≤ s.c_info_deflate_level ∧ s.c_info_deflate_level ≤ 9)
    (hb : 0 ≤ s.p_i ∧ s.p_i + 2 ≤ s.p.length) :
    deflW s = putN encL s (be16I (s.c_info_deflate_level % 65536)) := by
  unfold deflW
  have c : ¬ ((s.c_info_deflate_level < 0) ∨ (s.c_info_deflate_level > 9)) := by omega
  simp only [c, if_false, hd, hg, Bool.false_eq_true, or_self]
  rw [enc16_eq encLaw s _ _ (by omega) rfl (by enc_bnd)]

theorem deflW_fail (s : ESt) (h : s.c_info_deflate_level < 0 ∨ s.c_info_deflate_level > 9) : deflW s = { s with ret := -1, done := true } := by
  unfold deflW
  simp only [h, if_true, HCPencode_header.St.set_ret, HCPencode_header.St.set_done, true_or]

/-! ### the bytes of each coder, and the model's record -/

theorem cinfoOf_putN (s : ESt) (vs : List Int) : cinfoOf (putN encL s vs) = cinfoOf s :=
  frame_putN encL cinfoOf (fun _ _ => rfl) (fun _ _ => rfl) s vs

def nbitB (c : CInfo) : List Int :=
  be32I (c.nt % 4294967296) ++ be16I (c.sign_ext % 65536) ++ be16I (c.fill_one % 65536) ++ be32I (c.start_bit % 4294967296) ++
    be32I (c.bit_len % 4294967296)
def skpB (c : CInfo) : List Int := be32I (c.skp_size % 4294967296) ++ be32I (c.skp_size % 4294967296)
def deflB (c : CInfo) : List Int := be16I (c.level % 65536)
def szipB (c : CInfo) : List Int :=
  be32I (c.pixels % 4294967296) ++ be32I (c.pixels_per_scanline % 4294967296) ++ be32I ((orS c.options_mask 65536) % 4294967296) ++
    [c.bits_per_pixel % 256] ++ [c.pixels_per_block % 256]

theorem u8s_enc16 (n : Nat) : u8s (Format.enc16 n) = be16I (n : Int) := by
  have a1 : ((n / 256 : Nat) : Int) = (n : Int) / 256 := by omega
  simp only [Format.enc16, u8s_cons, u8s_nil, u8_toInt, be16I, a1]

theorem u8s_enc32 (n : Nat) : u8s (Format.enc32 n) = be32I (n : Int) := by
  have a1 : ((n / 256 : Nat) : Int) = (n : Int) / 256 := by omega
  have a2 : ((n / 65536 : Nat) : Int) = (n : Int) / 65536 := by omega
  have a3 : ((n / 16777216 : Nat) : Int) = (n : Int) / 16777216 := by omega
  simp only [Format.enc32, u8s_cons, u8s_nil, u8_toInt, be32I, a1, a2, a3]

theorem ofS32_cast (i : Int) : ((ofS32 i : Nat) : Int) = i % 4294967296 := by
  unfold ofS32
  omega

theorem u8s_encS32 (i : Int) : u8s (encS32 i) = be32I (i % 4294967296) := by
  rw [encS32, u8s_enc32, ofS32_cast]

theorem ofS32_toS32_ofS32 (i : Int) : ofS32 (toS32 (ofS32 i)) = ofS32 i := by
  unfold toS32 ofS32
  split <;> omega

theorem u8s_enc8 (n : Nat) : u8s (Format.enc8 n) = [(n : Int) % 256] := by
  simp only [Format.enc8, u8s_cons, u8s_nil, u8_toInt]

theorem toNat_mod_cast (x : Int) (m : Int) (hm : 0 < m) : (((x % m).toNat : Nat) : Int) = x % m := by
  have := Int.emod_nonneg x (Int.ne_of_gt hm)
  omega

/-- `(uint32)(options_mask | SZ_H4_REV_2)` is the 32-bit pattern of the mask with that bit set -/
theorem szmask_cast (m : Int) : (((ofS32 m ||| szRev2 : Nat)) : Int) = (orS m 65536) % 4294967296 := by
  have hlt : ofS32 m < 2 ^ 32 := by unfold ofS32; omega
  have h2 : ofS32 m ||| szRev2 < 2 ^ 32 := Nat.or_lt_two_pow hlt (by decide)
  have e : orU m 65536 = ((ofS32 m ||| szRev2 : Nat) : Int) := by
    unfold orU ofS32 szRev2
    have : Int.toNat ((65536 : Int) % 4294967296) = 65536 := by decide
    rw [this]
    rfl
  unfold orS
  rw [e]
  split <;> omega

theorem consts : (COMP_CODE_NONE : Nat) = 0 ∧ COMP_CODE_RLE = 1 ∧ COMP_CODE_NBIT = 2 ∧ COMP_CODE_SKPHUFF = 3 ∧ COMP_CODE_DEFLATE = 4 ∧
    COMP_CODE_SZIP = 5 ∧ COMP_CODE_IMCOMP = 12 := by decide

/-- the two type fields -/
def hdrB (mt ct : Int) : List Int := be16I mt ++ be16I ct

/-- the parameter bytes `HCPencode_header` stores for coder type `ct` -/
def paramB (ct : Int) (c : CInfo) : List Int :=
  if ct = 2 then nbitB c else if ct = 3 then skpB c else if ct = 4 then deflB c else if ct = 5 then szipB c else []

theorem coderOf_2 (c : CInfo) : coderOf 2 c = .nbit c.nt (c.sign_ext % 65536).toNat (c.fill_one % 65536).toNat c.start_bit c.bit_len := rfl
theorem coderOf_3 (c : CInfo) : coderOf 3 c = .skphuff (ofS32 c.skp_size) (ofS32 c.skp_size) := rfl
theorem coderOf_4 (c : CInfo) : coderOf 4 c = .deflate (c.level % 65536).toNat := rfl
theorem coderOf_5 (c : CInfo) : coderOf 5 c =
    .szip (ofS32 c.pixels) (ofS32 c.pixels_per_scanline) (ofS32 c.options_mask ||| szRev2) (c.bits_per_pixel % 256).toNat (c.pixels_per_block % 256).toNat := rfl
theorem coderOf_0 (c : CInfo) : coderOf 0 c = .none := rfl
theorem coderOf_1 (c : CInfo) : coderOf 1 c = .rle := rfl
theorem coderOf_other (ct : Int) (c : CInfo) (h0 : ct ≠ 0) (h1 : ct ≠ 1) (h2 : ct ≠ 2) (h3 : ct ≠ 3) (h4 : ct ≠ 4) (h5 : ct ≠ 5) :
    coderOf ct c = .other ct.toNat := by
  unfold coderOf
  simp [COMP_CODE_NONE, COMP_CODE_RLE, COMP_CODE_NBIT, COMP_CODE_SKPHUFF, COMP_CODE_DEFLATE, COMP_CODE_SZIP, h0, h1, h2, h3, h4, h5]

theorem coder_code_bytes (ct : Int) (c : CInfo) (hc : 0 ≤ ct) : be16I ((coderOf ct c).code : Int) = be16I ct := by
  by_cases h2 : ct = 2
  · subst h2; rfl
  by_cases h3 : ct = 3
  · subst h3; rfl
  by_cases h4 : ct = 4
  · subst h4; rfl
  by_cases h5 : ct = 5
  · subst h5; rfl
  by_cases h0 : ct = 0
  · subst h0; rfl
  by_cases h1 : ct = 1
  · subst h1; rfl
  rw [coderOf_other ct c h0 h1 h2 h3 h4 h5]
  simp only [Coder.code]
  congr 1
  omega

/-- **the record of the model is the bytes the phases store** -/
theorem model_bytes (mt ct : Int) (c : CInfo) (hm : 0 ≤ mt) (hc : 0 ≤ ct) :
    u8s (encodeCoderInfo ⟨mt.toNat, coderOf ct c⟩) = hdrB mt ct ++ paramB ct c := by
  have hmt : ((mt.toNat : Nat) : Int) = mt := by omega
  simp only [encodeCoderInfo, u8s_append, u8s_enc16, coder_code_bytes ct c hc, hmt, hdrB, List.append_assoc]
  congr 2
  by_cases h2 : ct = 2
  · subst h2
    simp only [coderOf_2, paramB, if_true, encodeCoderParams, u8s_append, u8s_encS32, u8s_enc16, nbitB, toNat_mod_cast _ 65536 (by decide)]
  by_cases h3 : ct = 3
  · subst h3
    simp only [coderOf_3, paramB, encodeCoderParams, u8s_append, u8s_enc32, ofS32_cast, skpB]
    rfl
  by_cases h4 : ct = 4
  · subst h4
    simp only [coderOf_4, paramB, encodeCoderParams, u8s_enc16, deflB, toNat_mod_cast _ 65536 (by decide)]
    rfl
  by_cases h5 : ct = 5
  · subst h5
    simp only [coderOf_5, paramB, encodeCoderParams, u8s_append, u8s_enc32, u8s_enc8, ofS32_cast, szipB, szmask_cast, toNat_mod_cast _ 256 (by decide),
      Int.emod_emod, List.append_assoc]
    rfl
  by_cases h0 : ct = 0
  · subst h0; rfl
  by_cases h1 : ct = 1
  · subst h1; rfl
  rw [coderOf_other ct c h0 h1 h2 h3 h4 h5]
  simp only [paramB, h2, h3, h4, h5, if_false]
  rfl

/-! ### the whole function -/

theorem nbitW_eq' (s : ESt) (hb : 0 ≤ s.p_i ∧ s.p_i + 16 ≤ s.p.length) : nbitW s = putN encL s (nbitB (cinfoOf s)) := nbitW_eq s hb
theorem szipW_eq' (s : ESt) (hb : 0 ≤ s.p_i ∧ s.p_i + 14 ≤ s.p.length) : szipW s = putN encL s (szipB (cinfoOf s)) := szipW_eq s hb
theorem skpW_ok' (s : ESt) (hd : s.done = false) (hg : s.gto = false) (h : 1 ≤ s.c_info_skphuff_skp_size)
    (hb : 0 ≤ s.p_i ∧ s.p_i + 8 ≤ s.p.length) : skpW s = putN encL s (skpB (cinfoOf s)) := skpW_ok s hd hg h hb
theorem deflW_ok' (s : ESt) (hd : s.done = false) (hg : s.gto = false) (h : 0 ≤ s.c_info_deflate_level ∧ s.c_info_deflate_level ≤ 9)
    (hb : 0 ≤ s.p_i ∧ s.p_i + 2 ≤ s.p.length) : deflW s = putN encL s (deflB (cinfoOf s)) := deflW_ok s hd hg h hb

theorem hdrB_length (mt ct : Int) : (hdrB mt ct).length = 4 := rfl
theorem nbitB_length (c : CInfo) : (nbitB c).length = 16 := rfl
theorem skpB_length (c : CInfo) : (skpB c).length = 8 := rfl
theorem deflB_length (c : CInfo) : (deflB c).length = 2 := rfl
theorem szipB_length (c : CInfo) : (szipB c).length = 14 := rfl

theorem paramB_2 (c : CInfo) : paramB 2 c = nbitB c := rfl
theorem paramB_3 (c : CInfo) : paramB 3 c = skpB c := rfl
theorem paramB_4 (c : CInfo) : paramB 4 c = deflB c := rfl
theorem paramB_5 (c : CInfo) : paramB 5 c = szipB c := rfl
theorem paramB_other (ct : Int) (c : CInfo) (h2 : ct ≠ 2) (h3 : ct ≠ 3) (h4 : ct ≠ 4) (h5 : ct ≠ 5) : paramB ct c = [] := by
  simp only [paramB, h2, h3, h4, h5, if_false]

theorem swW_at (s : ESt) (hd : s.done = false) (hg : s.gto = false) :
    swW s = if s.coder_type = 2 then nbitW s else if s.coder_type = 3 then skpW s else if s.coder_type = 4 then deflW s
      else if s.coder_type = 5 then szipW s else if s.coder_type = 12 then imcompW s else s := by
  unfold swW
  simp only [hd, hg, Bool.false_eq_true, or_self, if_false, Int.reduceMod]

/-- the state after the switch, when the coder's branch succeeds: the type fields and the parameter bytes have been stored -/
theorem swW_ok (s : ESt) (mt ct : Int) (hct : s.coder_type = ct) (hd : s.done = false) (hg : s.gto = false) (hp : s.p_i = 0)
    (hf : ¬ EncFails ct (cinfoOf s)) (hb : 4 + (paramB ct (cinfoOf s)).length ≤ s.p.length) :
    swW (putN encL s (hdrB mt ct)) = putN encL s (hdrB mt ct ++ paramB ct (cinfoOf s)) := by
  have hd1 : (putN encL s (hdrB mt ct)).done = false := by rw [done_putN, hd]
  have hg1 : (putN encL s (hdrB mt ct)).gto = false := by rw [gto_putN, hg]
  have hp1 : (putN encL s (hdrB mt ct)).p_i = 4 := by rw [p_i_putN, hp]; rfl
  have hl1 : (putN encL s (hdrB mt ct)).p.length = s.p.length := by rw [p_putN, setsFrom_length]
  have hc1 : (putN encL s (hdrB mt ct)).coder_type = ct := by rw [coder_type_putN, hct]
  rw [swW_at _ hd1 hg1, hc1]
  have e3 : (putN encL s (hdrB mt ct)).c_info_skphuff_skp_size = (cinfoOf s).skp_size :=
    frame_putN encL (·.c_info_skphuff_skp_size) (fun _ _ => rfl) (fun _ _ => rfl) s _
  have e4 : (putN encL s (hdrB mt ct)).c_info_deflate_level = (cinfoOf s).level :=
    frame_putN encL (·.c_info_deflate_level) (fun _ _ => rfl) (fun _ _ => rfl) s _
  by_cases h2 : ct = 2
  · subst h2
    rw [paramB_2, nbitB_length] at hb
    rw [if_pos rfl, paramB_2, nbitW_eq' _ (by rw [hp1, hl1]; omega), cinfoOf_putN, putN_append]
  by_cases h3 : ct = 3
  · subst h3
    rw [paramB_3, skpB_length] at hb
    have hf' : 1 ≤ (cinfoOf s).skp_size := by
      have : ¬ ((cinfoOf s).skp_size < 1) := fun h => hf (Or.inl ⟨rfl, h⟩)
      omega
    rw [if_neg (by decide), if_pos rfl, paramB_3, skpW_ok' _ hd1 hg1 (by rw [e3]; exact hf') (by rw [hp1, hl1]; omega), cinfoOf_putN, putN_append]
  by_cases h4 : ct = 4
  · subst h4
    rw [paramB_4, deflB_length] at hb
    have hf' : 0 ≤ (cinfoOf s).level ∧ (cinfoOf s).level ≤ 9 := by
      have : ¬ ((cinfoOf s).level < 0 ∨ 9 < (cinfoOf s).level) := fun h => hf (Or.inr (Or.inl ⟨rfl, h⟩))
      omega
    rw [if_neg (by decide), if_neg (by decide), if_pos rfl, paramB_4, deflW_ok' _ hd1 hg1 (by rw [e4]; exact hf') (by rw [hp1, hl1]; omega),
      cinfoOf_putN, putN_append]
  by_cases h5 : ct = 5
  · subst h5
    rw [paramB_5, szipB_length] at hb
    rw [if_neg (by decide), if_neg (by decide), if_neg (by decide), if_pos rfl, paramB_5, szipW_eq' _ (by rw [hp1, hl1]; omega), cinfoOf_putN,
      putN_append]
  have h12 : ct ≠ 12 := fun h => hf (Or.inr (Or.inr (by rw [h]; rfl)))
  rw [if_neg h2, if_neg h3, if_neg h4, if_neg h5, if_neg h12, paramB_other ct _ h2 h3 h4 h5, List.append_nil]

theorem swW_fail (s : ESt) (mt ct : Int) (hct : s.coder_type = ct) (hd : s.done = false) (hg : s.gto = false)
    (hf : EncFails ct (cinfoOf s)) :
    swW (putN encL s (hdrB mt ct)) = { putN encL s (hdrB mt ct) with ret := -1, done := true } := by
  have hd1 : (putN encL s (hdrB mt ct)).done = false := by rw [done_putN, hd]
  have hg1 : (putN encL s (hdrB mt ct)).gto = false := by rw [gto_putN, hg]
  have hc1 : (putN encL s (hdrB mt ct)).coder_type = ct := by rw [coder_type_putN, hct]
  rw [swW_at _ hd1 hg1, hc1]
  have e3 : (putN encL s (hdrB mt ct)).c_info_skphuff_skp_size = (cinfoOf s).skp_size :=
    frame_putN encL (·.c_info_skphuff_skp_size) (fun _ _ => rfl) (fun _ _ => rfl) s _
  have e4 : (putN encL s (hdrB mt ct)).c_info_deflate_level = (cinfoOf s).level :=
    frame_putN encL (·.c_info_deflate_level) (fun _ _ => rfl) (fun _ _ => rfl) s _
  rcases hf with ⟨h, h'⟩ | ⟨h, h'⟩ | h
  · have h3 : ct = 3 := h
    subst h3
    rw [if_neg (by decide), if_pos rfl, skpW_fail _ (by rw [e3]; exact h')]
  · have h4 : ct = 4 := h
    subst h4
    rw [if_neg (by decide), if_neg (by decide), if_pos rfl, deflW_fail _ (by rw [e4]; omega)]
  · have h12 : ct = 12 := h
    subst h12
    rw [if_neg (by decide), if_neg (by decide), if_neg (by decide), if_neg (by decide), if_pos rfl]
    rfl

/-- **`HCPencode_header` succeeds**: the two type fields and the coder's parameter bytes are stored at the start of `p`, the rest
    of `p` is untouched, the cursor is behind the record, no check failed -/
theorem encode_ok (fuel : Nat) (p : List Int) (mt ct : Int) (c : CInfo) (hm : 0 ≤ mt) (hc : 0 ≤ ct) (hf : ¬ EncFails ct c)
    (hb : 4 + (paramB ct c).length ≤ p.length) :
    let s := HCPencode_headerC fuel p mt false ct false c
    s.ub = false ∧ s.oof = false ∧ s.ret = 0 ∧ s.p_i = ((4 + (paramB ct c).length : Nat) : Int) ∧
      s.p = hdrB mt ct ++ paramB ct c ++ p.drop (4 + (paramB ct c).length) := by
  intro s
  have e : s = encBody (encInit p mt false ct false c) := HCPencode_header_phases fuel p mt false ct false c
  have e1 : preW (encInit p mt false ct false c) = encInit p mt false ct false c := by
    rw [preW_ok _ rfl rfl]; rfl
  have e2 : hdrW (encInit p mt false ct false c) = putN encL (encInit p mt false ct false c) (hdrB mt ct) :=
    hdrW_ok _ rfl rfl hm hc ⟨Int.le_refl 0, by show (0 : Int) + 4 ≤ (p.length : Int); omega⟩
  have e3 : swW (putN encL (encInit p mt false ct false c) (hdrB mt ct)) =
      putN encL (encInit p mt false ct false c) (hdrB mt ct ++ paramB ct c) :=
    swW_ok (encInit p mt false ct false c) mt ct rfl rfl rfl rfl hf hb
  have e4 := finW_ok (putN encL (encInit p mt false ct false c) (hdrB mt ct ++ paramB ct c)) (by rw [done_putN]; rfl)
  have e5 : s = finS (putN encL (encInit p mt false ct false c) (hdrB mt ct ++ paramB ct c)) := by
    rw [e]; unfold encBody; rw [e1, e2, e3, e4]
  have hl : (hdrB mt ct ++ paramB ct c).length = 4 + (paramB ct c).length := by rw [List.length_append, hdrB_length]
  rw [e5]
  refine ⟨?_, ?_, ?_, ?_, ?_⟩
  · show (putN encL _ _).ub = false
    rw [ub_putN]; rfl
  · show (putN encL _ _).oof = false
    rw [oof_putN]; rfl
  · show (putN encL _ _).ret_value = 0
    rw [ret_value_putN]; rfl
  · show (putN encL _ _).p_i = _
    rw [p_i_putN, hl]
    show (0 : Int) + _ = _
    omega
  · show (putN encL _ _).p = _
    rw [p_putN]
    show setsFrom p ((0 : Nat) : Int) _ = _
    rw [setsFrom_eq p 0 _ (by rw [hl]; omega), hl]
    simp

/-- **`HCPencode_header` fails** (skipping Huffman with a unit size below 1, deflate with a level outside 0..9, IMCOMP): FAIL is
    returned AFTER the two type fields have been stored -/
theorem encode_fail (fuel : Nat) (p : List Int) (mt ct : Int) (c : CInfo) (hm : 0 ≤ mt) (hc : 0 ≤ ct) (hf : EncFails ct c)
    (hb : 4 ≤ p.length) :
    let s := HCPencode_headerC fuel p mt false ct false c
    s.ub = false ∧ s.oof = false ∧ s.ret = -1 ∧ s.p = hdrB mt ct ++ p.drop 4 := by
  intro s
  have e : s = encBody (encInit p mt false ct false c) := HCPencode_header_phases fuel p mt false ct false c
  have e1 : preW (encInit p mt false ct false c) = encInit p mt false ct false c := by
    rw [preW_ok _ rfl rfl]; rfl
  have e2 : hdrW (encInit p mt false ct false c) = putN encL (encInit p mt false ct false c) (hdrB mt ct) :=
    hdrW_ok _ rfl rfl hm hc ⟨Int.le_refl 0, by show (0 : Int) + 4 ≤ (p.length : Int); omega⟩
  have e3 : swW (putN encL (encInit p mt false ct false c) (hdrB mt ct)) =
      { putN encL (encInit p mt false ct false c) (hdrB mt ct) with ret := -1, done := true } :=
    swW_fail (encInit p mt false ct false c) mt ct rfl rfl rfl hf
  have e5 : s = { putN encL (encInit p mt false ct false c) (hdrB mt ct) with ret := -1, done := true } := by
    rw [e]; unfold encBody; rw [e1, e2, e3, finW_done _ rfl]
  rw [e5]
  refine ⟨?_, ?_, rfl, ?_⟩
  · show (putN encL _ _).ub = false
    rw [ub_putN]; rfl
  · show (putN encL _ _).oof = false
    rw [oof_putN]; rfl
  · show (putN encL _ _).p = _
    rw [p_putN]
    show setsFrom p ((0 : Nat) : Int) _ = _
    rw [setsFrom_eq p 0 _ (by rw [hdrB_length]; omega), hdrB_length]
    simp

/-- a NULL `m_info` or `c_info`: FAIL, nothing is stored -/
theorem encode_null (fuel : Nat) (p : List Int) (mt ct : Int) (c : CInfo) (mn cn : Bool) (h : mn = true ∨ cn = true) :
    let s := HCPencode_headerC fuel p mt mn ct cn c
    s.ub = false ∧ s.oof = false ∧ s.ret = -1 ∧ s.p = p := by
  intro s
  have e : s = encBody (encInit p mt mn ct cn c) := HCPencode_header_phases fuel p mt mn ct cn c
  have e5 : s = finS { encInit p mt mn ct cn c with ret_value := -1, gto := true } := by
    rw [e]; unfold encBody
    rw [preW_null _ h, hdrW_skip _ rfl, swW_skip _ rfl, finW_ok _ rfl]
  rw [e5]
  exact ⟨rfl, rfl, rfl, rfl⟩

/-! ## 2. `HCPdecode_header` -/

/-- the input cursor of `HCPdecode_header`: region `p`, index `p_i` -/
def decL : Cursor DSt where
  buf := (·.p)
  pos := (·.p_i)
  ub := (·.ub)
  setBuf := fun s b => { s with p := b }
  setPos := HCPdecode_header.St.set_p_i
  chk := fun s c _ => HCPdecode_header.chk s c

theorem decLaw : decL.Lawful where
  chk_true := by intro s c _ h; simp [decL, HCPdecode_header.chk, h]
  buf_setBuf := fun _ _ => rfl
  pos_setBuf := fun _ _ => rfl
  buf_setPos := fun _ _ => rfl
  pos_setPos := fun _ _ => rfl
  buf_chk := fun _ _ _ => rfl
  pos_chk := fun _ _ _ => rfl
  chk_setPos := fun _ _ _ _ => rfl
  chk_chk := by intro s c d _ _ h; simp [decL, HCPdecode_header.chk, h]
  chk_and := by
    intro s c d _ _
    simp only [decL, HCPdecode_header.chk, Bool.or_assoc, Bool.decide_and, Bool.not_and]
  chk_congr := by
    intro s c d _ _ h
    simp only [decL, HCPdecode_header.chk, decide_eq_decide.mpr h]
  setPos_setPos := fun _ _ _ => rfl

/-- the variables the DECODE macros of `HCPdecode_header` assign -/
def tM : Tgt DSt := ⟨(·.m_type), HCPdecode_header.St.set_m_type⟩
def tC : Tgt DSt := ⟨(·.c_type), HCPdecode_header.St.set_c_type⟩
def tNt : Tgt DSt := ⟨(·.c_info_nbit_nt), HCPdecode_header.St.set_c_info_nbit_nt⟩
def tSext : Tgt DSt := ⟨(·.s_ext), HCPdecode_header.St.set_s_ext⟩
def tFone : Tgt DSt := ⟨(·.f_one), HCPdecode_header.St.set_f_one⟩
def tMoff : Tgt DSt := ⟨(·.m_off), HCPdecode_header.St.set_m_off⟩
def tMlen : Tgt DSt := ⟨(·.m_len), HCPdecode_header.St.set_m_len⟩
def tSkp : Tgt DSt := ⟨(·.skp_size), HCPdecode_header.St.set_skp_size⟩
def tCsz : Tgt DSt := ⟨(·.comp_size), HCPdecode_header.St.set_comp_size⟩
def tLvl : Tgt DSt := ⟨(·.level), HCPdecode_header.St.set_level⟩
def tBuf : Tgt DSt := ⟨(·.buf), HCPdecode_header.St.set_buf⟩
def tBpp : Tgt DSt := ⟨(·.c_info_szip_bits_per_pixel), HCPdecode_header.St.set_c_info_szip_bits_per_pixel⟩
def tPpb : Tgt DSt := ⟨(·.c_info_szip_pixels_per_block), HCPdecode_header.St.set_c_info_szip_pixels_per_block⟩

macro "tgt_law" : tactic => `(tactic| exact ⟨fun _ _ => rfl, fun _ _ _ => rfl, fun _ _ => rfl, fun _ _ => rfl, fun _ _ => rfl,
  fun _ _ _ => rfl, fun _ _ _ => rfl, fun _ _ _ _ => rfl⟩)
theorem tM_law : tM.Lawful decL := by tgt_law
theorem tC_law : tC.Lawful decL := by tgt_law
theorem tNt_law : tNt.Lawful decL := by tgt_law
theorem tSext_law : tSext.Lawful decL := by tgt_law
theorem tFone_law : tFone.Lawful decL := by tgt_law
theorem tMoff_law : tMoff.Lawful decL := by tgt_law
theorem tMlen_law : tMlen.Lawful decL := by tgt_law
theorem tSkp_law : tSkp.Lawful decL := by tgt_law
theorem tCsz_law : tCsz.Lawful decL := by tgt_law
theorem tLvl_law : tLvl.Lawful decL := by tgt_law
theorem tBuf_law : tBuf.Lawful decL := by tgt_law
theorem tBpp_law : tBpp.Lawful decL := by tgt_law
theorem tPpb_law : tPpb.Lawful decL := by tgt_law

/-- `ret_value = SUCCEED; if (p == NULL || model_type == NULL || m_info == NULL || coder_type == NULL || c_info == NULL) …` -/
def preR (s : DSt) : DSt :=
  have s : DSt := HCPdecode_header.St.set_ret_value s (0)
  have s : DSt := if ((((False ∨ (s.model_type_null = true)) ∨ (s.m_info_null = true)) ∨ (s.coder_type_null = true)) ∨ (s.c_info_null = true)) then
      have s : DSt := HCPdecode_header.St.set_ret_value s ((- 1))
      have s : DSt := HCPdecode_header.St.set_gto s (true)
      s
    else
      s
  s

/-- the two type fields, stored through `model_type` / `coder_type`; `switch (*model_type) { default: break; }` -/
def hdrR (s : DSt) : DSt :=
  have s : DSt := if s.done ∨ s.gto then s else
    dec16u decL tM s
  have s : DSt := if s.done ∨ s.gto then s else
    have s : DSt := HCPdecode_header.chk s (0 < s.model_type.length)
    have s : DSt := HCPdecode_header.St.set_model_type s (s.model_type.set (Int.toNat (0)) (s.m_type))
    s
  have s : DSt := if s.done ∨ s.gto then s else
    dec16u decL tC s
  have s : DSt := if s.done ∨ s.gto then s else
    have s : DSt := HCPdecode_header.chk s (0 < s.coder_type.length)
    have s : DSt := HCPdecode_header.St.set_coder_type s (s.coder_type.set (Int.toNat (0)) (s.c_type))
    s
  have s : DSt := if s.done ∨ s.gto then s else
    have s : DSt := HCPdecode_header.chk s (0 < s.model_type.length)
    s
  s

/-- `case COMP_CODE_NBIT:` -/
def nbitR (s : DSt) : DSt :=
  have s : DSt := dec32s decL tNt s
  have s : DSt := dec16u decL tSext s
  have s : DSt := HCPdecode_header.St.set_c_info_nbit_sign_ext s (s.s_ext)
  have s : DSt := dec16u decL tFone s
  have s : DSt := HCPdecode_header.St.set_c_info_nbit_fill_one s (s.f_one)
  have s : DSt := dec32s decL tMoff s
  have s : DSt := HCPdecode_header.St.set_c_info_nbit_start_bit s (s.m_off)
  have s : DSt := dec32s decL tMlen s
  have s : DSt := HCPdecode_header.St.set_c_info_nbit_bit_len s (s.m_len)
  s

/-- `case COMP_CODE_SKPHUFF:` -/
def skpR (s : DSt) : DSt :=
  have s : DSt := dec32u decL tSkp s
  have s : DSt := dec32u decL tCsz s
  have s : DSt := HCPdecode_header.St.set_c_info_skphuff_skp_size s (wrapS32 s.skp_size)
  s

/-- `case COMP_CODE_DEFLATE:` -/
def deflR (s : DSt) : DSt :=
  have s : DSt := dec16u decL tLvl s
  have s : DSt := HCPdecode_header.St.set_c_info_deflate_level s (s.level)
  s

/-- `case COMP_CODE_SZIP:` -/
def szipR (s : DSt) : DSt :=
  have s : DSt := dec32u decL tBuf s
  have s : DSt := HCPdecode_header.St.set_c_info_szip_pixels s (wrapS32 s.buf)
  have s : DSt := dec32u decL tBuf s
  have s : DSt := HCPdecode_header.St.set_c_info_szip_pixels_per_scanline s (wrapS32 s.buf)
  have s : DSt := dec32u decL tBuf s
  have s : DSt := HCPdecode_header.St.set_c_info_szip_options_mask s (wrapS32 s.buf)
  have s : DSt := dbyte decL tBpp s
  have s : DSt := dbyte decL tPpb s
  s

/-- `switch (*coder_type)` -/
def swR (s : DSt) : DSt :=
  if s.done ∨ s.gto then s else
    have s : DSt := HCPdecode_header.chk s (0 < s.coder_type.length)
    let sw : Int := (s.coder_type.getD (Int.toNat (0)) 0)
    if sw = ((2) % 4294967296) then nbitR s
    else if sw = ((3) % 4294967296) then skpR s
    else if sw = ((4) % 4294967296) then deflR s
    else if sw = ((5) % 4294967296) then szipR s
    else s

/-- `done: return ret_value;` -/
def finR (s : DSt) : DSt :=
  if s.done then s else
    have s : DSt := HCPdecode_header.St.set_gto s (false)
    have s : DSt := HCPdecode_header.St.set_ret s (s.ret_value)
    have s : DSt := HCPdecode_header.St.set_done s (true)
    s

def decBody (s : DSt) : DSt := finR (swR (hdrR (preR s)))

def decInit (p : List Int) (model_type_null : Bool) (model_type : List Int) (m_info_null coder_type_null : Bool)
    (coder_type : List Int) (c_info_null : Bool) (c : CInfo) : DSt :=
  { p := p, model_type_null := model_type_null, model_type := model_type, m_info_null := m_info_null,
    coder_type_null := coder_type_null, coder_type := coder_type, c_info_null := c_info_null,
    c_info_nbit_nt := c.nt, c_info_nbit_sign_ext := c.sign_ext, c_info_nbit_fill_one := c.fill_one,
    c_info_nbit_start_bit := c.start_bit, c_info_nbit_bit_len := c.bit_len, c_info_skphuff_skp_size := c.skp_size,
    c_info_deflate_level := c.level, c_info_szip_pixels := c.pixels, c_info_szip_pixels_per_scanline := c.pixels_per_scanline,
    c_info_szip_options_mask := c.options_mask, c_info_szip_bits_per_pixel := c.bits_per_pixel,
    c_info_szip_pixels_per_block := c.pixels_per_block }

/-- **the restatement is the generated definition** (kernel check) -/
theorem HCPdecode_header_phases (fuel : Nat) (p : List Int) (mtn : Bool) (mt : List Int) (min ctn : Bool) (ct : List Int) (cin : Bool)
    (c : CInfo) :
    HCPdecode_headerC fuel p mtn mt min ctn ct cin c = decBody (decInit p mtn mt min ctn ct cin c) := by
  kernel_rfl

/-! ### every macro of the function as ONE structure update (unconditional rewrite rules) -/

theorem r_tM (s : DSt) : dec16u decL tM s =
    { s with ub := s.ub || !decide (0 ≤ s.p_i ∧ s.p_i + 2 ≤ s.p.length), p_i := s.p_i + 2, m_type := val16 s.p s.p_i } := by
  rw [dec16u_eq decLaw tM_law]; rfl
theorem r_tC (s : DSt) : dec16u decL tC s =
    { s with ub := s.ub || !decide (0 ≤ s.p_i ∧ s.p_i + 2 ≤ s.p.length), p_i := s.p_i + 2, c_type := val16 s.p s.p_i } := by
  rw [dec16u_eq decLaw tC_law]; rfl
theorem r_tNt (s : DSt) : dec32s decL tNt s =
    { s with ub := s.ub || !decide (0 ≤ s.p_i ∧ s.p_i + 4 ≤ s.p.length), p_i := s.p_i + 4, c_info_nbit_nt := wrapS32 (val32 s.p s.p_i) } := by
  rw [dec32s_eq decLaw tNt_law]; rfl
theorem r_tSext (s : DSt) : dec16u decL tSext s =
    { s with ub := s.ub || !decide (0 ≤ s.p_i ∧ s.p_i + 2 ≤ s.p.length), p_i := s.p_i + 2, s_ext := val16 s.p s.p_i } := by
  rw [dec16u_eq decLaw tSext_law]; rfl
theorem r_tFone (s : DSt) : dec16u decL tFone s =
    { s with ub := s.ub || !decide (0 ≤ s.p_i ∧ s.p_i + 2 ≤ s.p.length), p_i := s.p_i + 2, f_one := val16 s.p s.p_i } := by
  rw [dec16u_eq decLaw tFone_law]; rfl
theorem r_tMoff (s : DSt) : dec32s decL tMoff s =
    { s with ub := s.ub || !decide (0 ≤ s.p_i ∧ s.p_i + 4 ≤ s.p.length), p_i := s.p_i + 4, m_off := wrapS32 (val32 s.p s.p_i) } := by
  rw [dec32s_eq decLaw tMoff_law]; rfl
theorem r_tMlen (s : DSt) : dec32s decL tMlen s =
    { s with ub := s.ub || !decide (0 ≤ s.p_i ∧ s.p_i + 4 ≤ s.p.length), p_i := s.p_i + 4, m_len := wrapS32 (val32 s.p s.p_i) } := by
  rw [dec32s_eq decLaw tMlen_law]; rfl
theorem r_tSkp (s : DSt) : dec32u decL tSkp s =
    { s with ub := s.ub || !decide (0 ≤ s.p_i ∧ s.p_i + 4 ≤ s.p.length), p_i := s.p_i + 4, skp_size := val32 s.p s.p_i } := by
  rw [dec32u_eq decLaw tSkp_law]; rfl
theorem r_tCsz (s : DSt) : dec32u decL tCsz s =
    { s with ub := s.ub || !decide (0 ≤ s.p_i ∧ s.p_i + 4 ≤ s.p.length), p_i := s.p_i + 4, comp_size := val32 s.p s.p_i } := by
  rw [dec32u_eq decLaw tCsz_law]; rfl
theorem r_tLvl (s : DSt) : dec16u decL tLvl s =
    { s with ub := s.ub || !decide (0 ≤ s.p_i ∧ s.p_i + 2 ≤ s.p.length), p_i := s.p_i + 2, level := val16 s.p s.p_i } := by
  rw [dec16u_eq decLaw tLvl_law]; rfl
theorem r_tBuf (s : DSt) : dec32u decL tBuf s =
    { s with ub := s.ub || !decide (0 ≤ s.p_i ∧ s.p_i + 4 ≤ s.p.length), p_i := s.p_i + 4, buf := val32 s.p s.p_i } := by
  rw [dec32u_eq decLaw tBuf_law]; rfl
theorem r_tBpp (s : DSt) : dbyte decL tBpp s =
    { s with ub := s.ub || !decide (0 ≤ s.p_i ∧ s.p_i + 1 ≤ s.p.length), p_i := s.p_i + 1, c_info_szip_bits_per_pixel := s.p.getD (Int.toNat s.p_i) 0 } := by
  rw [dbyte_eq decLaw tBpp_law]; rfl
theorem r_tPpb (s : DSt) : dbyte decL tPpb s =
    { s with ub := s.ub || !decide (0 ≤ s.p_i ∧ s.p_i + 1 ≤ s.p.length), p_i := s.p_i + 1, c_info_szip_pixels_per_block := s.p.getD (Int.toNat s.p_i) 0 } := by
  rw [dbyte_eq decLaw tPpb_law]; rfl

/-! ### the whole function, evaluated on the state at entry -/

/-- parameter bytes the reader consumes for the coder type `code` -/
def needOf (code : Int) : Nat := if code = 2 then 16 else if code = 3 then 8 else if code = 4 then 2 else if code = 5 then 14 else 0

/-- `*c_info` after `HCPdecode_header` has read the record in `p` (cells `p[4 ..]` are the parameters): only the members of the coder
    found in the record are assigned -/
def cinfoAfter (p : List Int) (code : Int) (c : CInfo) : CInfo :=
  if code = 2 then
    { c with nt := wrapS32 (val32 p 4), sign_ext := val16 p 8, fill_one := val16 p 10, start_bit := wrapS32 (val32 p 12),
             bit_len := wrapS32 (val32 p 16) }
  else if code = 3 then { c with skp_size := wrapS32 (val32 p 4) }
  else if code = 4 then { c with level := val16 p 4 }
  else if code = 5 then
    { c with pixels := wrapS32 (val32 p 4), pixels_per_scanline := wrapS32 (val32 p 8), options_mask := wrapS32 (val32 p 12),
             bits_per_pixel := p.getD 16 0, pixels_per_block := p.getD 17 0 }
  else c

theorem set0_getD (l : List Int) (v : Int) (h : 0 < l.length) : (l.set (Int.toNat 0) v).getD (Int.toNat 0) 0 = v := by
  cases l with
  | nil => exact absurd h (by decide)
  | cons a t => rfl

/-- evaluates the phases on the literal state at entry: every macro is one structure update (`r_*`), the guards see `done = gto = false` -/
macro "dec_eval_simp" h:term : tactic => `(tactic|
  simp only [decBody, finR, swR, hdrR, preR, decInit, nbitR, skpR, deflR, szipR, cinfoOfD,
    r_tM, r_tC, r_tNt, r_tSext, r_tFone, r_tMoff, r_tMlen, r_tSkp, r_tCsz, r_tLvl, r_tBuf, r_tBpp, r_tPpb,
    HCPdecode_header.St.set_ret_value, HCPdecode_header.St.set_model_type, HCPdecode_header.St.set_coder_type, HCPdecode_header.chk,
    HCPdecode_header.St.set_c_info_nbit_sign_ext, HCPdecode_header.St.set_c_info_nbit_fill_one, HCPdecode_header.St.set_c_info_nbit_start_bit,
    HCPdecode_header.St.set_c_info_nbit_bit_len, HCPdecode_header.St.set_c_info_skphuff_skp_size, HCPdecode_header.St.set_c_info_deflate_level,
    HCPdecode_header.St.set_c_info_szip_pixels, HCPdecode_header.St.set_c_info_szip_pixels_per_scanline,
    HCPdecode_header.St.set_c_info_szip_options_mask,
    HCPdecode_header.St.set_gto, HCPdecode_header.St.set_ret, HCPdecode_header.St.set_done,
    Bool.false_eq_true, or_self, if_false, Bool.false_or, $h:term, Int.reduceMod, Int.reduceAdd, Int.reduceEq, if_true])

/-- turns the accumulated `ub` flag into a statement about lengths -/
macro "ub_len" : tactic => `(tactic|
  (rw [Bool.eq_iff_iff]
   simp only [Bool.or_eq_true, Bool.not_eq_true', decide_eq_false_iff_not, decide_eq_true_iff, List.length_set]
   omega))

theorem dec_eval_2 (p mt ct : List Int) (c : CInfo) (hmt : 0 < mt.length) (hct : 0 < ct.length) (hcode : val16 p 2 = 2) :
    let s := decBody (decInit p false mt false false ct false c)
    s.ub = !decide (4 + needOf 2 ≤ p.length) ∧ s.oof = false ∧ s.ret = 0 ∧ s.p_i = ((4 + needOf 2 : Nat) : Int) ∧
      s.model_type = mt.set 0 (val16 p 0) ∧ s.coder_type = ct.set 0 2 ∧ cinfoOfD s = cinfoAfter p 2 c := by
  have hsw : (ct.set (Int.toNat 0) (val16 p 2)).getD (Int.toNat 0) 0 = 2 := by rw [set0_getD _ _ hct, hcode]
  intro s
  refine ⟨?_, ?_, ?_, ?_, ?_, ?_, ?_⟩
  · show (decBody _).ub = _
    dec_eval_simp hsw
    simp only [needOf, if_true]
    ub_len
  · show (decBody _).oof = _
    dec_eval_simp hsw
  · show (decBody _).ret = _
    dec_eval_simp hsw
  · show (decBody _).p_i = _
    dec_eval_simp hsw
    rfl
  · show (decBody _).model_type = _
    dec_eval_simp hsw
    rfl
  · show (decBody _).coder_type = _
    dec_eval_simp hsw
    rw [hcode]; rfl
  · show cinfoOfD (decBody _) = _
    dec_eval_simp hsw
    rfl

theorem dec_eval_3 (p mt ct : List Int) (c : CInfo) (hmt : 0 < mt.length) (hct : 0 < ct.length) (hcode : val16 p 2 = 3) :
    let s := decBody (decInit p false mt false false ct false c)
    s.ub = !decide (4 + needOf 3 ≤ p.length) ∧ s.oof = false ∧ s.ret = 0 ∧ s.p_i = ((4 + needOf 3 : Nat) : Int) ∧
      s.model_type = mt.set 0 (val16 p 0) ∧ s.coder_type = ct.set 0 3 ∧ cinfoOfD s = cinfoAfter p 3 c := by
  have hsw : (ct.set (Int.toNat 0) (val16 p 2)).getD (Int.toNat 0) 0 = 3 := by rw [set0_getD _ _ hct, hcode]
  intro s
  refine ⟨?_, ?_, ?_, ?_, ?_, ?_, ?_⟩
  · show (decBody _).ub = _
    dec_eval_simp hsw
    simp only [needOf, Int.reduceEq, if_true, if_false]
    ub_len
  · show (decBody _).oof = _
    dec_eval_simp hsw
  · show (decBody _).ret = _
    dec_eval_simp hsw
  · show (decBody _).p_i = _
    dec_eval_simp hsw
    rfl
  · show (decBody _).model_type = _
    dec_eval_simp hsw
    rfl
  · show (decBody _).coder_type = _
    dec_eval_simp hsw
    rw [hcode]; rfl
  · show cinfoOfD (decBody _) = _
    dec_eval_simp hsw
    rfl

theorem dec_eval_4 (p mt ct : List Int) (c : CInfo) (hmt : 0 < mt.length) (hct : 0 < ct.length) (hcode : val16 p 2 = 4) :
    let s := decBody (decInit p false mt false false ct false c)
    s.ub = !decide (4 + needOf 4 ≤ p.length) ∧ s.oof = false ∧ s.ret = 0 ∧ s.p_i = ((4 + needOf 4 : Nat) : Int) ∧
      s.model_type = mt.set 0 (val16 p 0) ∧ s.coder_type = ct.set 0 4 ∧ cinfoOfD s = cinfoAfter p 4 c := by
  have hsw : (ct.set (Int.toNat 0) (val16 p 2)).getD (Int.toNat 0) 0 = 4 := by rw [set0_getD _ _ hct, hcode]
  intro s
  refine ⟨?_, ?_, ?_, ?_, ?_, ?_, ?_⟩
  · show (decBody _).ub = _
    dec_eval_simp hsw
    simp only [needOf, Int.reduceEq, if_true, if_false]
    ub_len
  · show (decBody _).oof = _
    dec_eval_simp hsw
  · show (decBody _).ret = _
    dec_eval_simp hsw
  · show (decBody _).p_i = _
    dec_eval_simp hsw
    rfl
  · show (decBody _).model_type = _
    dec_eval_simp hsw
    rfl
  · show (decBody _).coder_type = _
    dec_eval_simp hsw
    rw [hcode]; rfl
  · show cinfoOfD (decBody _) = _
    dec_eval_simp hsw
    rfl

theorem dec_eval_5 (p mt ct : List Int) (c : CInfo) (hmt : 0 < mt.length) (hct : 0 < ct.length) (hcode : val16 p 2 = 5) :
    let s := decBody (decInit p false mt false false ct false c)
    s.ub = !decide (4 + needOf 5 ≤ p.length) ∧ s.oof = false ∧ s.ret = 0 ∧ s.p_i = ((4 + needOf 5 : Nat) : Int) ∧
      s.model_type = mt.set 0 (val16 p 0) ∧ s.coder_type = ct.set 0 5 ∧ cinfoOfD s = cinfoAfter p 5 c := by
  have hsw : (ct.set (Int.toNat 0) (val16 p 2)).getD (Int.toNat 0) 0 = 5 := by rw [set0_getD _ _ hct, hcode]
  intro s
  refine ⟨?_, ?_, ?_, ?_, ?_, ?_, ?_⟩
  · show (decBody _).ub = _
    dec_eval_simp hsw
    simp only [needOf, Int.reduceEq, if_true, if_false]
    ub_len
  · show (decBody _).oof = _
    dec_eval_simp hsw
  · show (decBody _).ret = _
    dec_eval_simp hsw
  · show (decBody _).p_i = _
    dec_eval_simp hsw
    rfl
  · show (decBody _).model_type = _
    dec_eval_simp hsw
    rfl
  · show (decBody _).coder_type = _
    dec_eval_simp hsw
    rw [hcode]; rfl
  · show cinfoOfD (decBody _) = _
    dec_eval_simp hsw
    rfl

theorem needOf_other (code : Int) (h2 : code ≠ 2) (h3 : code ≠ 3) (h4 : code ≠ 4) (h5 : code ≠ 5) : needOf code = 0 := by
  simp only [needOf, h2, h3, h4, h5, if_false]
theorem cinfoAfter_other (p : List Int) (code : Int) (c : CInfo) (h2 : code ≠ 2) (h3 : code ≠ 3) (h4 : code ≠ 4) (h5 : code ≠ 5) :
    cinfoAfter p code c = c := by
  simp only [cinfoAfter, h2, h3, h4, h5, if_false]

theorem dec_eval_other (p mt ct : List Int) (c : CInfo) (hmt : 0 < mt.length) (hct : 0 < ct.length)
    (h2 : val16 p 2 ≠ 2) (h3 : val16 p 2 ≠ 3) (h4 : val16 p 2 ≠ 4) (h5 : val16 p 2 ≠ 5) :
    let s := decBody (decInit p false mt false false ct false c)
    s.ub = !decide (4 ≤ p.length) ∧ s.oof = false ∧ s.ret = 0 ∧ s.p_i = 4 ∧
      s.model_type = mt.set 0 (val16 p 0) ∧ s.coder_type = ct.set 0 (val16 p 2) ∧ cinfoOfD s = c := by
  have hsw : (ct.set (Int.toNat 0) (val16 p 2)).getD (Int.toNat 0) 0 = val16 p 2 := set0_getD _ _ hct
  intro s
  refine ⟨?_, ?_, ?_, ?_, ?_, ?_, ?_⟩
  · show (decBody _).ub = _
    dec_eval_simp hsw
    simp only [h2, h3, h4, h5, if_false, Bool.false_eq_true, or_self]
    ub_len
  · show (decBody _).oof = _
    dec_eval_simp hsw
    simp only [h2, h3, h4, h5, if_false, Bool.false_eq_true, or_self]
  · show (decBody _).ret = _
    dec_eval_simp hsw
    simp only [h2, h3, h4, h5, if_false, Bool.false_eq_true, or_self]
  · show (decBody _).p_i = _
    dec_eval_simp hsw
    simp only [h2, h3, h4, h5, if_false, Bool.false_eq_true, or_self]
  · show (decBody _).model_type = _
    dec_eval_simp hsw
    simp only [h2, h3, h4, h5, if_false, Bool.false_eq_true, or_self]
    rfl
  · show (decBody _).coder_type = _
    dec_eval_simp hsw
    simp only [h2, h3, h4, h5, if_false, Bool.false_eq_true, or_self]
    rfl
  · show cinfoOfD (decBody _) = _
    dec_eval_simp hsw
    simp only [h2, h3, h4, h5, if_false, Bool.false_eq_true, or_self]

/-- **the translated `HCPdecode_header` on non-NULL arguments**, for EVERY buffer `p` (any length, any cells): it reads the two type
    fields, stores them through `model_type` / `coder_type`, reads the parameters of the coder it found into `*c_info`; `ub` is set
    exactly when the buffer is shorter than `4 + needOf code` cells (a read behind the buffer); it always returns SUCCEED -/
theorem dec_eval (fuel : Nat) (p mt ct : List Int) (c : CInfo) (hmt : 0 < mt.length) (hct : 0 < ct.length) :
    let s := HCPdecode_headerC fuel p false mt false false ct false c
    s.ub = !decide (4 + needOf (val16 p 2) ≤ p.length) ∧ s.oof = false ∧ s.ret = 0 ∧ s.p_i = ((4 + needOf (val16 p 2) : Nat) : Int) ∧
      s.model_type = mt.set 0 (val16 p 0) ∧ s.coder_type = ct.set 0 (val16 p 2) ∧ cinfoOfD s = cinfoAfter p (val16 p 2) c := by
  intro s
  have e : s = decBody (decInit p false mt false false ct false c) := HCPdecode_header_phases fuel p false mt false false ct false c
  rw [e]
  by_cases h2 : val16 p 2 = 2
  · rw [h2]; exact dec_eval_2 p mt ct c hmt hct h2
  by_cases h3 : val16 p 2 = 3
  · rw [h3]; exact dec_eval_3 p mt ct c hmt hct h3
  by_cases h4 : val16 p 2 = 4
  · rw [h4]; exact dec_eval_4 p mt ct c hmt hct h4
  by_cases h5 : val16 p 2 = 5
  · rw [h5]; exact dec_eval_5 p mt ct c hmt hct h5
  rw [needOf_other _ h2 h3 h4 h5, cinfoAfter_other _ _ _ h2 h3 h4 h5]
  exact dec_eval_other p mt ct c hmt hct h2 h3 h4 h5

theorem preR_null (s : DSt) (h : s.model_type_null = true ∨ s.m_info_null = true ∨ s.coder_type_null = true ∨ s.c_info_null = true) :
    preR s = { s with ret_value := -1, gto := true } := by
  have c0 : ((((False ∨ (s.model_type_null = true)) ∨ (s.m_info_null = true)) ∨ (s.coder_type_null = true)) ∨ (s.c_info_null = true)) := by
    rcases h with h | h | h | h
    · exact Or.inl (Or.inl (Or.inl (Or.inr h)))
    · exact Or.inl (Or.inl (Or.inr h))
    · exact Or.inl (Or.inr h)
    · exact Or.inr h
  simp only [preR, HCPdecode_header.St.set_ret_value, HCPdecode_header.St.set_gto]
  rw [if_pos c0]

theorem hdrR_skip (s : DSt) (hg : s.gto = true) : hdrR s = s := by
  unfold hdrR
  simp only [hg, or_true, if_true]

theorem swR_skip (s : DSt) (hg : s.gto = true) : swR s = s := by
  unfold swR
  simp only [hg, or_true, if_true]

/-- a NULL argument: FAIL, nothing is read or stored -/
theorem dec_null (fuel : Nat) (p mt ct : List Int) (c : CInfo) (mtn min ctn cin : Bool) (h : mtn = true ∨ min = true ∨ ctn = true ∨ cin = true) :
    let s := HCPdecode_headerC fuel p mtn mt min ctn ct cin c
    s.ub = false ∧ s.oof = false ∧ s.ret = -1 ∧ s.model_type = mt ∧ s.coder_type = ct ∧ cinfoOfD s = c := by
  intro s
  have e : s = decBody (decInit p mtn mt min ctn ct cin c) := HCPdecode_header_phases fuel p mtn mt min ctn ct cin c
  rw [e]
  unfold decBody
  rw [preR_null _ h, hdrR_skip _ rfl, swR_skip _ rfl]
  exact ⟨rfl, rfl, rfl, rfl, rfl, rfl⟩

/-! ## 3. the hand-written decoder, by offsets -/

/-- big-endian values of the model's bytes at offset `k` -/
def nv8 (b : Bytes) (k : Nat) : Nat := (b.getD k 0).toNat
def nv16 (b : Bytes) (k : Nat) : Nat := nv8 b k * 256 + nv8 b (k + 1)
def nv32 (b : Bytes) (k : Nat) : Nat := ((nv8 b k * 256 + nv8 b (k + 1)) * 256 + nv8 b (k + 2)) * 256 + nv8 b (k + 3)

theorem nv8_lt (b : Bytes) (k : Nat) : nv8 b k < 256 := UInt8.toNat_lt _
theorem nv8_drop (b : Bytes) (k j : Nat) : nv8 (b.drop k) j = nv8 b (k + j) := by
  simp [nv8, List.getD_eq_getElem?_getD, List.getElem?_drop]

theorem get8_eq (r : Bytes) : get8 r = if 1 ≤ r.length then some (nv8 r 0, r.drop 1) else none := by
  match r with
  | [] => rfl
  | a :: r => simp [get8, nv8]
theorem get16_eq (r : Bytes) : get16 r = if 2 ≤ r.length then some (nv16 r 0, r.drop 2) else none := by
  match r with
  | [] => rfl
  | [a] => rfl
  | a :: b :: r => simp [get16, be16, nv16, nv8]
theorem get32_eq (r : Bytes) : get32 r = if 4 ≤ r.length then some (nv32 r 0, r.drop 4) else none := by
  match r with
  | [] => rfl
  | [a] => rfl
  | [a, b] => rfl
  | [a, b, c] => rfl
  | a :: b :: c :: d :: r => simp [get32, be32, nv32, nv8]

theorem get8_drop (b : Bytes) (k : Nat) : get8 (b.drop k) = if k + 1 ≤ b.length then some (nv8 b k, b.drop (k + 1)) else none := by
  rw [get8_eq, nv8_drop, List.drop_drop, List.length_drop]
  by_cases h : k + 1 ≤ b.length
  · rw [if_pos h, if_pos (by omega)]; rfl
  · rw [if_neg h, if_neg (by omega)]
theorem get16_drop (b : Bytes) (k : Nat) : get16 (b.drop k) = if k + 2 ≤ b.length then some (nv16 b k, b.drop (k + 2)) else none := by
  rw [get16_eq, List.drop_drop, List.length_drop]
  simp only [nv16, nv8_drop]
  by_cases h : k + 2 ≤ b.length
  · rw [if_pos h, if_pos (by omega)]; rfl
  · rw [if_neg h, if_neg (by omega)]
theorem get32_drop (b : Bytes) (k : Nat) : get32 (b.drop k) = if k + 4 ≤ b.length then some (nv32 b k, b.drop (k + 4)) else none := by
  rw [get32_eq, List.drop_drop, List.length_drop]
  simp only [nv32, nv8_drop]
  by_cases h : k + 4 ≤ b.length
  · rw [if_pos h, if_pos (by omega)]; rfl
  · rw [if_neg h, if_neg (by omega)]
theorem getS32_drop (b : Bytes) (k : Nat) :
    getS32 (b.drop k) = if k + 4 ≤ b.length then some (toS32 (nv32 b k), b.drop (k + 4)) else none := by
  rw [getS32, get32_drop]
  split <;> rfl

/-- the model's values are the cells the translated reader combines -/
theorem cellAt_u8s (b : Bytes) (k j : Nat) : cellAt (u8s b) (k : Int) j = (nv8 b (k + j) : Int) := by
  unfold cellAt nv8
  rw [show Int.toNat ((k : Int) + (j : Int)) = k + j by omega, u8s_getD]
  have := UInt8.toNat_lt (b.getD (k + j) 0)
  omega
theorem val16_u8s (b : Bytes) (k : Nat) : val16 (u8s b) (k : Int) = (nv16 b k : Int) := by
  unfold val16 nv16
  rw [cellAt_u8s, cellAt_u8s]
  simp
theorem val32_u8s (b : Bytes) (k : Nat) : val32 (u8s b) (k : Int) = (nv32 b k : Int) := by
  unfold val32 nv32
  rw [cellAt_u8s, cellAt_u8s, cellAt_u8s, cellAt_u8s]
  simp only [Nat.add_zero]
  omega
theorem nv16_lt (b : Bytes) (k : Nat) : nv16 b k < 65536 := by
  have h1 := nv8_lt b k; have h2 := nv8_lt b (k + 1); unfold nv16; omega
theorem nv32_lt (b : Bytes) (k : Nat) : nv32 b k < 4294967296 := by
  have h1 := nv8_lt b k; have h2 := nv8_lt b (k + 1); have h3 := nv8_lt b (k + 2); have h4 := nv8_lt b (k + 3); unfold nv32; omega
theorem toS32_wrap (n : Nat) (h : n < 4294967296) : toS32 n = wrapS32 (n : Int) := by
  unfold toS32 wrapS32
  split <;> omega

/-- parameter bytes of coder type `code` in the model -/
def needN (code : Nat) : Nat :=
  if code = COMP_CODE_NBIT then 16 else if code = COMP_CODE_SKPHUFF then 8 else if code = COMP_CODE_DEFLATE then 2
  else if code = COMP_CODE_SZIP then 14 else 0

/-- the coder the model reads from the record `b` whose coder type field is `code` -/
def coderAtB (b : Bytes) (code : Nat) : Coder :=
  if code = COMP_CODE_NONE then .none
  else if code = COMP_CODE_RLE then .rle
  else if code = COMP_CODE_NBIT then .nbit (toS32 (nv32 b 4)) (nv16 b 8) (nv16 b 10) (toS32 (nv32 b 12)) (toS32 (nv32 b 16))
  else if code = COMP_CODE_SKPHUFF then .skphuff (nv32 b 4) (nv32 b 8)
  else if code = COMP_CODE_DEFLATE then .deflate (nv16 b 4)
  else if code = COMP_CODE_SZIP then .szip (nv32 b 4) (nv32 b 8) (nv32 b 12) (nv8 b 16) (nv8 b 17)
  else .other code

theorem bind_ite_some {α β : Type} (c : Prop) [Decidable c] (x : α) (f : α → Option β) :
    (if c then some x else none).bind f = if c then f x else none := by
  split <;> rfl

theorem decodeCoderParams_drop (b : Bytes) (code : Nat) (h4 : 4 ≤ b.length) :
    decodeCoderParams code (b.drop 4) =
      if 4 + needN code ≤ b.length then some (coderAtB b code, b.drop (4 + needN code)) else none := by
  unfold decodeCoderParams needN coderAtB
  simp only [COMP_CODE_NONE, COMP_CODE_RLE, COMP_CODE_NBIT, COMP_CODE_SKPHUFF, COMP_CODE_DEFLATE, COMP_CODE_SZIP]
  by_cases h0 : code = 0
  · subst h0; simp [h4]
  by_cases h1 : code = 1
  · subst h1; simp [h4]
  by_cases h2 : code = 2
  · subst h2
    simp only [Nat.reduceEqDiff, if_false, if_true, getS32_drop, get16_drop, Option.bind_eq_bind, bind_ite_some]
    repeat' split
    all_goals first | rfl | omega
  by_cases h3 : code = 3
  · subst h3
    simp only [Nat.reduceEqDiff, if_false, if_true, get32_drop, Option.bind_eq_bind, bind_ite_some]
    repeat' split
    all_goals first | rfl | omega
  by_cases h4' : code = 4
  · subst h4'
    simp only [Nat.reduceEqDiff, if_false, if_true, get16_drop, Option.bind_eq_bind, bind_ite_some]
    repeat' split
    all_goals first | rfl | omega
  by_cases h5 : code = 5
  · subst h5
    simp only [Nat.reduceEqDiff, if_false, if_true, get32_drop, get8_drop, Option.bind_eq_bind, bind_ite_some]
    repeat' split
    all_goals first | rfl | omega
  simp only [h0, h1, h2, h3, h4', h5, if_false, Nat.add_zero, if_pos h4]

/-- **the hand-written decoder by offsets**: it succeeds exactly when the record has the two type fields and the parameter bytes of
    the coder type found in it -/
theorem decodeCoderInfo_eq (b : Bytes) :
    decodeCoderInfo b =
      if 4 + needN (nv16 b 2) ≤ b.length then some (⟨nv16 b 0, coderAtB b (nv16 b 2)⟩, b.drop (4 + needN (nv16 b 2))) else none := by
  unfold decodeCoderInfo
  have e0 : get16 b = get16 (b.drop 0) := by rw [List.drop_zero]
  rw [e0, get16_drop]
  by_cases h2 : 0 + 2 ≤ b.length
  · rw [if_pos h2]
    simp only [Option.bind_eq_bind, Option.bind_some, get16_drop]
    by_cases h4 : 4 ≤ b.length
    · rw [if_pos (by omega)]
      simp only [Option.bind_some, decodeCoderParams_drop b _ h4]
      split <;> rfl
    · rw [if_neg (by omega), if_neg (by omega)]
      rfl
  · rw [if_neg h2, if_neg (by omega)]
    rfl

end H4.Lemmas.C02HdrFn
