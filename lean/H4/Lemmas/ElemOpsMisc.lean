import H4.Lemmas.ElemOpsSeek
/-! `Htrunc`, `Hendaccess`. -/
namespace H4.Elem
open H4.Gen.Hdf

theorem bytesAt_take (f : File) (o l n : Nat) (h : n ≤ l) : (f.bytesAt o l).take n = f.bytesAt o n := by
  unfold File.bytesAt
  rw [← List.map_take, List.take_range]
  congr 2
  omega

/-- `Htrunc` on a contiguous element: the DD's length shrinks, nothing else happens -/
theorem trunc_spec (f : File) (hw : WFE f) (s o l n : Nat) (hl : f.live s) (hsp : isSpecial (f.dd s).tag = false)
    (hut : baseTag (f.dd s).tag ≠ DFTAG_LINKED) (hext : (f.dd s).ext = some (o, l)) (hn : n < l) :
    let f' := f.ddSetExt s (o, n)
    WFE f' ∧ f'.dd s = { f.dd s with ext := some (o, n) } ∧ f'.slotBytes s = some ((f.bytesAt o l).take n) ∧
    (∀ s', f.live s' → s' ≠ s → f'.dd s' = f.dd s' ∧ f'.slotBytes s' = f.slotBytes s') ∧
    (∀ j, f'.live j ↔ f.live j) ∧ f'.present = f.present := by
  intro f'
  have hs_lt := live_lt f s hl
  have hle := hw.ext_le s o l hl hext
  have hdd : ∀ j, f'.dd j = if j = s then { f.dd s with ext := some (o, n) } else f.dd j := fun j => ddSetExt_dd f s j _ hs_lt
  have hend : f'.endOff = f.endOff := by
    show (f.ddSetExt s (o, n)).endOff = _; rw [ddSetExt_endOff f s _ hs_lt]; simp; omega
  have hdisk : f'.disk = f.disk := ddSetExt_disk f s _
  have hlive : ∀ j, f'.live j ↔ f.live j := by
    intro j; unfold File.live; rw [hdd]
    by_cases e : j = s
    · subst e; simp
    · simp [e]
  have hw' : WFF f' := by
    refine ⟨by show (f.ddSetExt s (o, n)).ndds ≥ 1; rw [ddSetExt_ndds]; exact hw.ndds_pos, ?_, ?_, ?_, ?_⟩
    · intro j oj lj hj he
      rw [hend]; rw [hdd] at he
      by_cases e : j = s
      · subst e; simp at he; omega
      · simp only [e, if_false] at he; exact hw.ext_le j oj lj ((hlive j).mp hj) he
    · intro a b oa la ob lb hab ha hb hea heb x
      rw [hdd] at hea heb
      by_cases ea : a = s
      · by_cases eb : b = s
        · omega
        · subst ea; simp at hea; simp only [eb, if_false] at heb
          have := hw.disj a b o l ob lb hab hl ((hlive b).mp hb) hext heb x; omega
      · simp only [ea, if_false] at hea
        by_cases eb : b = s
        · subst eb; simp at heb
          have := hw.disj a b oa la o l hab ((hlive a).mp ha) hl hea hext x; omega
        · simp only [eb, if_false] at heb
          exact hw.disj a b oa la ob lb hab ((hlive a).mp ha) ((hlive b).mp hb) hea heb x
    · intro k hk; rw [hdisk]; rw [hend] at hk; exact hw.tail0 k hk
    · intro a b ha hb ht hr
      have e : ∀ j, (f'.dd j).tag = (f.dd j).tag ∧ (f'.dd j).ref = (f.dd j).ref := by
        intro j; rw [hdd]; by_cases e : j = s
        · subst e; simp
        · simp [e]
      rw [(e a).1, (e b).1] at ht; rw [(e a).2, (e b).2] at hr
      exact hw.uniq a b ((hlive a).mp ha) ((hlive b).mp hb) ht hr
  have hs' : f'.dd s = { f.dd s with ext := some (o, n) } := by rw [hdd]; simp
  have hstep := hw.plain_step hw' s (by intro j _ hne; rw [hdd]; simp [hne]) (by rw [hs']; exact ⟨hsp, hut⟩) (fun _ => ⟨hsp, hut⟩)
    (by intro j hj hnl; exact absurd ((hlive j).mp hj) hnl) (ddSetExt_links f s _) (by intro x _ _; rw [hdisk])
  refine ⟨hstep.1, hs', ?_, ?_, hlive, ddSetExt_present f s _⟩
  · rw [slotBytes_plain _ _ (by rw [hs']; exact hsp), hs']
    simp only [Option.map_some]
    rw [bytesAt_take f o l n (by omega)]
    congr 1
    apply bytesAt_congr
    intro i _; rw [hdisk]
  · intro s' hs'l hne
    exact ⟨by rw [hdd]; simp [hne], hstep.2 s' hs'l hne⟩

/-- `Htrunc` on a linked-block element is refused and changes nothing (1e2fd75; before, it cut the description record) -/
theorem htrunc_linked_refused (w : World) (h n : Nat) (a : Acc) (ha : w.acc h = some a) (hsp : a.special = true) :
    htrunc w h n = (w, .fail) := by
  simp only [htrunc, ha]
  split
  · rfl
  · first | rfl | rw [if_pos hsp]

theorem stepOK_trunc (w : World) (hw : WFW w) (h n : Nat) : StepOK w (.trunc h n) := by
  cases ha : w.acc h with
  | none => exact stepOK_fail_same w hw _ (by simp [step, htrunc, ha])
  | some a =>
    have hh := hw.handles h a ha
    have he := handle_elem w hw h a ha
    by_cases hfx : a.special = true
    · exact stepOK_fail_same w hw _ (by show htrunc w h n = _; exact htrunc_linked_refused w h n a ha hfx)
    have hsp0 : a.special = false := by simpa using hfx
    have hsp' : isSpecial ((w.file a.file).dd a.slot).tag = false := by rw [← hh.special_iff]; exact hsp0
    have hfi := file_lt_of_live w a.file a.slot hh.live
    by_cases hcw : (!a.canWrite) = true
    · exact stepOK_fail_same w hw _ (by simp only [step, htrunc, ha]; rw [if_pos hcw])
    cases hx : ((w.file a.file).dd a.slot).ext with
    | none =>
      refine stepOK_fail_same w hw _ ?_
      simp only [step, htrunc, ha]
      rw [if_neg hcw, if_neg hfx]
      have : ¬ (ddLen ((w.file a.file).dd a.slot) > (n : Int)) := by simp [ddLen, hx, INVALID_LENGTH]
      rw [if_neg this]
    | some e =>
      obtain ⟨o, l⟩ := e
      have hdl : ddLen ((w.file a.file).dd a.slot) = (l : Int) := by simp [ddLen, hx]
      have hdo : (ddOff ((w.file a.file).dd a.slot)).toNat = o := by simp [ddOff, hx]
      by_cases hgt : (l : Int) > n
      · have hstep : step w (.trunc h n) =
            ((w.setFile a.file ((w.file a.file).ddSetExt a.slot (o, n))).setAcc h { a with posn := min a.posn n }, .num n) := by
          simp only [step, htrunc, ha]
          rw [if_neg hcw, if_neg hfx, hdl, if_pos hgt, hdo]
        obtain ⟨hE', hds, hbytes, hothers, hlive, hpres⟩ := trunc_spec (w.file a.file) (hw.files a.file) a.slot o l n hh.live hsp'
          (keyOf_user_ne_linked hh.user) hx (by omega)
        have hC := coh_ddSetExt (hw.coh a.file) a.slot (o, n) (live_lt _ _ hh.live)
        generalize (w.file a.file).ddSetExt a.slot (o, n) = f' at hstep hE' hds hbytes hothers hlive hpres hC
        have hshape : ∀ s', (w.file a.file).live s' → (f'.dd s').tag = ((w.file a.file).dd s').tag ∧
            (f'.dd s').ref = ((w.file a.file).dd s').ref ∧ ((f'.dd s').ext = none ↔ ((w.file a.file).dd s').ext = none) := by
          intro s' hl'
          by_cases e : s' = a.slot
          · subst e; rw [hds]; simp [hx]
          · rw [(hothers s' hl' e).1]; exact ⟨rfl, rfl, Iff.rfl⟩
        have hkey' : f'.keyOf a.slot = (w.file a.file).keyOf a.slot := by
          unfold File.keyOf; rw [(hshape a.slot hh.live).1, (hshape a.slot hh.live).2.1]
        unfold StepOK
        rw [hstep]
        have hww : WFW ((w.setFile a.file f').setAcc h { a with posn := min a.posn n }) := by
          apply hw.update a.file hfi f' hE' hC h { a with posn := min a.posn n } rfl
          · refine ⟨(hlive a.slot).mpr hh.live, by rw [hkey']; exact hh.user, ?_, ?_, hh.special_new, hh.blk⟩
            · show a.special = _; rw [(hshape a.slot hh.live).1]; exact hh.special_iff
            · intro hs0 hx'
              exact hh.new_of_none hs0 ((hshape a.slot hh.live).2.2.mp hx')
          · intro h' a'' _ ha'' ef
            have := (hw.handles h' a'' ha'').live
            rw [ef] at this
            exact ⟨(hshape a''.slot this).1, (hshape a''.slot this).2.1, (hshape a''.slot this).2.2.mp⟩
        refine ⟨hww, ((abs w).setElem a.file ((w.file a.file).keyOf a.slot)
            (some (some (((w.file a.file).bytesAt o l).take n)))).setHnd h
            (some { file := a.file, key := (w.file a.file).keyOf a.slot, pos := min a.posn n }), ?_, ?_⟩
        · simp only [specStep, abs_hnd, ha, Option.map_some, he, slotBytes_plain _ _ hsp', hx, bytesAt_length]
          have : n < l := by omega
          simp [this]
        · have := abs_update hw a.file hfi f' hE'.toWFF h { a with posn := min a.posn n } rfl
            ((w.file a.file).keyOf a.slot) (some (some (((w.file a.file).bytesAt o l).take n))) hpres
            (by
              have h1 := elem_keyOf f' hE'.toWFF a.slot ((hlive a.slot).mpr hh.live)
              rw [hkey'] at h1
              rw [h1, hbytes])
            (by
              intro k' hu hne
              apply elem_frame (hw.files a.file).toWFF hE'.toWFF
              · intro j
                by_cases hj : (w.file a.file).live j
                · exact hasKey_congr (hshape j hj).1 (hshape j hj).2.1
                · constructor
                  · intro hk; exact absurd ((hlive j).mp hk.1) hj
                  · intro hk; exact absurd hk.1 hj
              · intro j hk
                have hjs : j ≠ a.slot := fun e => hne ((keyOf_of_hasKey hu (e ▸ hk)).symm)
                exact (hothers j hk.1 hjs).2)
            (by
              intro h' a'' _ ha'' ef
              have := (hw.handles h' a'' ha'').live
              rw [ef] at this
              unfold File.keyOf
              rw [(hshape a''.slot this).1, (hshape a''.slot this).2.1])
          rw [hkey'] at this
          exact this
      · refine stepOK_fail_same w hw _ ?_
        simp only [step, htrunc, ha]
        rw [if_neg hcw, if_neg hfx, hdl, if_neg hgt]

end H4.Elem

namespace H4.Elem
open H4.Gen.Hdf

/-- the attach counter is invisible to everything the invariants talk about -/
theorem WFE.attach {f : File} (h : WFE f) (n : Nat) : WFE { f with attach := n } := by
  have hw' : WFF ({ f with attach := n } : File) := ⟨h.ndds_pos, h.ext_le, h.disj, h.tail0, h.uniq⟩
  refine ⟨hw', ?_, h.hdr_tag, h.own⟩
  intro s hs hsp
  obtain ⟨li, ho, hl, h1, h2, h3, h4⟩ := h.linked_ok s hs hsp
  exact ⟨li, ho, hl, h1, h2.frame hw' (fun _ _ => rfl) (fun _ _ _ _ _ _ _ _ => rfl), h3, h4⟩

theorem attach_dd (f : File) (n j : Nat) : ({ f with attach := n } : File).dd j = f.dd j := rfl
theorem attach_elem (f : File) (n t r : Nat) : ({ f with attach := n } : File).elem t r = f.elem t r := rfl
theorem attach_keyOf (f : File) (n j : Nat) : ({ f with attach := n } : File).keyOf j = f.keyOf j := rfl

theorem stepOK_endaccess (w : World) (hw : WFW w) (h : Nat) : StepOK w (.endaccess h) := by
  cases ha : w.acc h with
  | none => exact stepOK_fail_same w hw _ (by simp [step, hendaccess, ha])
  | some a =>
    have hh := hw.handles h a ha
    have hfi := file_lt_of_live w a.file a.slot hh.live
    unfold StepOK
    simp only [step, hendaccess, ha]
    have hfile : ∀ j, ((w.setFile a.file { w.file a.file with attach := (w.file a.file).attach - 1 }).delAcc h).file j =
        if j = a.file then { w.file a.file with attach := (w.file a.file).attach - 1 } else w.file j := by
      intro j; rw [file_delAcc, file_setFile w a.file j _ hfi]
    refine ⟨⟨?_, ?_, ?_⟩, (abs w).setHnd h none, rfl, ?_⟩
    · intro j; rw [hfile]; split
      · exact (hw.files a.file).attach _
      · exact hw.files j
    · intro j; rw [hfile]; split
      · exact coh_attach (hw.coh a.file) _
      · exact hw.coh j
    · intro h' a' ha'
      rw [acc_delAcc, acc_setFile] at ha'
      by_cases e : h' = h
      · simp [e] at ha'
      · simp only [e, if_false] at ha'
        have hold := hw.handles h' a' ha'
        have hd : ∀ s, (((w.setFile a.file { w.file a.file with attach := (w.file a.file).attach - 1 }).delAcc h).file a'.file).dd s =
            (w.file a'.file).dd s := by
          intro s; rw [hfile]; split
          · rename_i c; rw [c]; rfl
          · rfl
        exact hold.transfer (by rw [hd]) (by rw [hd]) (by rw [hd]; exact id)
    · refine ⟨?_, ?_, ?_⟩
      · intro j
        show (w.file j).present = (((w.setFile a.file { w.file a.file with attach := (w.file a.file).attach - 1 }).delAcc h).file j).present
        rw [hfile]; split
        · rename_i c; rw [c]
        · rfl
      · intro j k _
        show (w.file j).elem k.1 k.2 = (((w.setFile a.file { w.file a.file with attach := (w.file a.file).attach - 1 }).delAcc h).file j).elem k.1 k.2
        rw [hfile]; split
        · rename_i c; rw [c]; rfl
        · rfl
      · intro h'
        simp only [View.setHnd, abs_hnd, acc_delAcc, acc_setFile]
        by_cases e : h' = h
        · simp [e]
        · simp only [e, if_false]
          cases w.acc h' with
          | none => rfl
          | some a'' =>
            simp only [Option.map_some]
            rw [hfile]; split
            · rename_i c; rw [c]; rfl
            · rfl

end H4.Elem
