import H4.Lemmas.C07Fn4
/-! Lemmas for `H4.Props.C07Fn3`, part 3: `HIstrncpy` into an array of `*vs`, one generic induction for the translated `for` loops and
    the four field-table loops (type, isize, off, order: cursors into the one block `wlist.bptr`).  Core only. -/
set_option linter.unusedSimpArgs false
set_option linter.unusedVariables false
namespace H4.Lemmas.C07Fn3
open H4 H4.Gen.Hdf H4.Gen.Fn.Vio3 H4.C2L
open H4.Lemmas.C08Fn3 (andS orS andU orU andS_255 andU_255 b8 be16 be32 b8_range b8_nat or_add or_add' orS_nat orU_nat v16 S32 orS_S32 orS_S32i
  nattrs_val flags_val be16N be16_eq be16N_lt be32N be32_eq be32N_lt w16 take_takeWhile_length vals vals_length vals_succ fill fill_nil fill_length
  fill_snoc strAt)

theorem guard_ok {B s p} (h : Ok B s p) (f : St → St) : guard s f = f s := by
  simp only [guard, h.done, h.gto]; simp

theorem frameOf {α} (set : St → α → St) (h1 : ∀ t v, (set t v).bb = t.bb) (h2 : ∀ t v, (set t v).buf = t.buf) (h3 : ∀ t v, (set t v).ub = t.ub)
    (h4 : ∀ t v, (set t v).oof = t.oof) (h5 : ∀ t v, (set t v).done = t.done) (h6 : ∀ t v, (set t v).gto = t.gto) : ∀ v, Frame (set · v) :=
  fun v => ⟨fun t => h1 t v, fun t => h2 t v, fun t => h3 t v, fun t => h4 t v, fun t => h5 t v, fun t => h6 t v⟩

/-- `HIstrncpy(dst, (char *)bb, int16var + 1)` for a length `l ≥ 0` whose bytes are inside the buffer and whose C string (the bytes
    before the first NUL) fits into `dst` with its terminator: `dst` starts with that string and a NUL, the rest is kept -/
theorem cpy_ok (reg : St → List Int) (setreg : St → List Int → St) {B s p} (h : Ok B s p) (l : Nat) (hu : s.int16var = l)
    (hl : p + l ≤ B.length) (hfit : (((B.drop p).take l).takeWhile (· ≠ 0)).length + 1 ≤ (reg s).length) :
    cpy s reg setreg = setreg s (((B.drop p).take l).takeWhile (· ≠ 0) ++ 0 :: (reg s).drop ((((B.drop p).take l).takeWhile (· ≠ 0)).length + 1)) := by
  have hb := h.buf
  subst hb
  have e1 : Int.toNat ((l : Int) + 1 - 1) = l := by omega
  have e2 : Int.toNat ((p : Int)) = p := by omega
  have hK : (((s.buf.drop p).take l).takeWhile (· ≠ 0)).length ≤ l := by
    have := (List.takeWhile_prefix (l := (s.buf.drop p).take l) (· ≠ (0 : Int))).length_le
    simp only [List.length_take, List.length_drop] at this
    omega
  simp only [cpy]
  rw [chk_true s _ (by
    rw [hu, h.bb, e1, e2]
    right
    refine ⟨by omega, ?_⟩
    simp only [List.length_drop]
    omega)]
  rw [chk_true s _ (by
    rw [hu, h.bb, e1, e2]
    right
    simp only [Int.ofNat_eq_natCast]
    omega)]
  have h1 : ¬ (s.int16var + 1 = 0) := by rw [hu]; omega
  rw [if_neg h1, hu, h.bb, e1, e2, take_takeWhile_length]
  have e3 : Int.toNat (0 + (Int.ofNat (((s.buf.drop p).take l).takeWhile (· ≠ 0)).length + 1)) =
      (((s.buf.drop p).take l).takeWhile (· ≠ 0)).length + 1 := by
    simp only [Int.ofNat_eq_natCast]; omega
  have e4 : Int.toNat 0 = 0 := rfl
  rw [e3, e4, List.take_zero, List.nil_append]
  simp only [List.append_assoc, List.cons_append, List.nil_append]

theorem skip_ok {B s p} (h : Ok B s p) (l : Nat) (hu : s.int16var = l) (hlt : l < 32768) :
    skip s = vunpackvs.St.set_bb s ((p + l : Nat) : Int) ∧ Ok B (vunpackvs.St.set_bb s ((p + l : Nat) : Int)) (p + l) := by
  refine ⟨?_, h.move _⟩
  simp only [skip, hu, h.bb]
  congr 1
  omega


/-- a translated `for` loop whose states are known: `F j` after `j` passes, the condition holds at `F j` for `j < m` and fails
    at `F m`; with fuel for the `m` passes the loop ends in `F m` (no `oof`) -/
theorem loop_iterG {σ : Type} (loop : Nat → σ → σ) (c : σ → Prop) [DecidablePred c] (body : Nat → σ → σ)
    (h0 : ∀ s, ¬ c s → loop 0 s = s)
    (hs : ∀ fuel s, loop (fuel + 1) s = if c s then loop fuel (body (fuel + 1) s) else s)
    (m : Nat) (F : Nat → σ) (hb : ∀ j, j < m → c (F j) ∧ ∀ fuel, body fuel (F j) = F (j + 1)) (he : ¬ c (F m)) :
    ∀ d j fuel, j + d = m → d ≤ fuel → loop fuel (F j) = F m := by
  intro d
  induction d with
  | zero =>
    intro j fuel hj _
    have : j = m := by omega
    subst this
    cases fuel with
    | zero => exact h0 _ he
    | succ f => rw [hs, if_neg he]
  | succ d ih =>
    intro j fuel hj hf
    obtain ⟨f, rfl⟩ : ∃ f, fuel = f + 1 := ⟨fuel - 1, by omega⟩
    obtain ⟨hc, hbd⟩ := hb j (by omega)
    rw [hs, if_pos hc, hbd]
    exact ih (j + 1) f (by omega) (by omega)

/-- the identity on values (unsigned decode) -/
def idv (x : Int) : Int := x
theorem map_idv (l : List Int) : l.map idv = l := by
  have : idv = id := rfl
  rw [this, List.map_id]

/-- the state of loop 0 (`vs_wlist_type[i]`, `i < n`) after `j` passes -/
def F0 (B : List Int) (s : St) (p cN : Nat) (j : Nat) : St :=
  ((s.set_vs_wlist_bptr (fill s.vs_wlist_bptr cN ((vals B p 2 j).map w16))).set_i ((j : Nat) : Int)).set_bb ((p + 2 * j : Nat) : Int)

theorem loop0_ok (M D : Int → Int) {B s p} (h : Ok B s p) (m fuel cN : Nat) (hu : s.i = 0) (hn : s.vs_wlist_n = (m : Int))
    (hc : s.vs_wlist_type = (cN : Int)) (hl : p + 2 * m ≤ B.length) (ht : cN + m ≤ s.vs_wlist_bptr.length) (hf : m ≤ fuel) :
    vunpackvs.loop0 M D fuel s = F0 B s p cN m ∧ Ok B (F0 B s p cN m) (p + 2 * m) := by
  refine ⟨?_, ⟨h.buf, rfl, h.ub, h.oof, h.done, h.gto⟩⟩
  have hF0 : F0 B s p cN 0 = s := by
    simp only [F0, vals, List.range_zero, List.map_nil, fill_nil, vunpackvs.St.set_vs_wlist_bptr, vunpackvs.St.set_i, vunpackvs.St.set_bb]
    have e1 : ((0 : Nat) : Int) = s.i := by rw [hu]; rfl
    have e2 : ((p + 2 * 0 : Nat) : Int) = s.bb := by rw [h.bb]; rfl
    rw [e1, e2]
  have key := loop_iterG (vunpackvs.loop0 M D) (fun s => (s.i < s.vs_wlist_n) ∧ ¬(s.done ∨ s.gto)) (vunpackvs.loop0.body M D)
    (fun s hc => by rw [vunpackvs.loop0]; exact if_neg hc)
    (fun fuel s => by rw [vunpackvs.loop0])
    m (F0 B s p cN)
    (fun j hj => by
      have ok : Ok B (F0 B s p cN j) (p + 2 * j) := ⟨h.buf, rfl, h.ub, h.oof, h.done, h.gto⟩
      refine ⟨⟨?_, ?_⟩, fun fuel => ?_⟩
      · show ((j : Nat) : Int) < s.vs_wlist_n
        rw [hn]; omega
      · show ¬ (s.done = true ∨ s.gto = true)
        rw [h.done, h.gto]; simp
      · rw [loop0_body]
        obtain ⟨q, _⟩ := decS16a_ok (fun s => (s.vs_wlist_type + s.i)) (·.vs_wlist_bptr) vunpackvs.St.set_vs_wlist_bptr
          (fun _ => ⟨fun _ => rfl, fun _ => rfl, fun _ => rfl, fun _ => rfl, fun _ => rfl, fun _ => rfl⟩)
          (fun _ _ => rfl) (fun _ _ => rfl) (fun _ _ _ => rfl) ok (by omega) (cN + j)
          (by show s.vs_wlist_type + ((j : Nat) : Int) = _; rw [hc]; omega)
          (by show cN + j < (fill s.vs_wlist_bptr cN ((vals B p 2 j).map w16)).length; rw [fill_length _ _ _ (by simp; omega)]; omega)
        simp only [q]
        show vunpackvs.St.set_i (vunpackvs.St.set_bb (vunpackvs.St.set_vs_wlist_bptr (F0 B s p cN j)
          ((fill s.vs_wlist_bptr cN ((vals B p 2 j).map w16)).set (cN + j) (w16 (be16 B (p + 2 * j))))) _) _ = _
        have e := fill_snoc s.vs_wlist_bptr cN ((vals B p 2 j).map w16) (w16 (be16 B (p + 2 * j))) (by simp; omega)
        simp only [List.length_map, vals_length] at e
        rw [e, ← List.map_singleton (f := w16), ← List.map_append, ← vals_succ]
        simp only [F0, vunpackvs.St.set_vs_wlist_bptr, vunpackvs.St.set_i, vunpackvs.St.set_bb]
        congr 1)
    (by
      show ¬ (((m : Nat) : Int) < s.vs_wlist_n ∧ _)
      rw [hn]; omega)
    m 0 fuel (by omega) hf
  rw [hF0] at key
  exact key

/-- the state of loop 1 (`vs_wlist_isize[i]`, `i < n`) after `j` passes -/
def F1 (B : List Int) (s : St) (p cN : Nat) (j : Nat) : St :=
  ((s.set_vs_wlist_bptr (fill s.vs_wlist_bptr cN ((vals B p 2 j).map idv))).set_i ((j : Nat) : Int)).set_bb ((p + 2 * j : Nat) : Int)

theorem loop1_ok (M D : Int → Int) {B s p} (h : Ok B s p) (m fuel cN : Nat) (hu : s.i = 0) (hn : s.vs_wlist_n = (m : Int))
    (hc : s.vs_wlist_isize = (cN : Int)) (hl : p + 2 * m ≤ B.length) (ht : cN + m ≤ s.vs_wlist_bptr.length) (hf : m ≤ fuel) :
    vunpackvs.loop1 M D fuel s = F1 B s p cN m ∧ Ok B (F1 B s p cN m) (p + 2 * m) := by
  refine ⟨?_, ⟨h.buf, rfl, h.ub, h.oof, h.done, h.gto⟩⟩
  have hF0 : F1 B s p cN 0 = s := by
    simp only [F1, vals, List.range_zero, List.map_nil, fill_nil, vunpackvs.St.set_vs_wlist_bptr, vunpackvs.St.set_i, vunpackvs.St.set_bb]
    have e1 : ((0 : Nat) : Int) = s.i := by rw [hu]; rfl
    have e2 : ((p + 2 * 0 : Nat) : Int) = s.bb := by rw [h.bb]; rfl
    rw [e1, e2]
  have key := loop_iterG (vunpackvs.loop1 M D) (fun s => (s.i < s.vs_wlist_n) ∧ ¬(s.done ∨ s.gto)) (vunpackvs.loop1.body M D)
    (fun s hc => by rw [vunpackvs.loop1]; exact if_neg hc)
    (fun fuel s => by rw [vunpackvs.loop1])
    m (F1 B s p cN)
    (fun j hj => by
      have ok : Ok B (F1 B s p cN j) (p + 2 * j) := ⟨h.buf, rfl, h.ub, h.oof, h.done, h.gto⟩
      refine ⟨⟨?_, ?_⟩, fun fuel => ?_⟩
      · show ((j : Nat) : Int) < s.vs_wlist_n
        rw [hn]; omega
      · show ¬ (s.done = true ∨ s.gto = true)
        rw [h.done, h.gto]; simp
      · rw [loop1_body]
        obtain ⟨q, _⟩ := dec16a_ok (fun s => (s.vs_wlist_isize + s.i)) (·.vs_wlist_bptr) vunpackvs.St.set_vs_wlist_bptr
          (fun _ => ⟨fun _ => rfl, fun _ => rfl, fun _ => rfl, fun _ => rfl, fun _ => rfl, fun _ => rfl⟩)
          (fun _ _ => rfl) (fun _ _ => rfl) (fun _ _ _ => rfl) ok (by omega) (cN + j)
          (by show s.vs_wlist_isize + ((j : Nat) : Int) = _; rw [hc]; omega)
          (by show cN + j < (fill s.vs_wlist_bptr cN ((vals B p 2 j).map idv)).length; rw [fill_length _ _ _ (by simp; omega)]; omega)
        simp only [q]
        show vunpackvs.St.set_i (vunpackvs.St.set_bb (vunpackvs.St.set_vs_wlist_bptr (F1 B s p cN j)
          ((fill s.vs_wlist_bptr cN ((vals B p 2 j).map idv)).set (cN + j) (idv (be16 B (p + 2 * j))))) _) _ = _
        have e := fill_snoc s.vs_wlist_bptr cN ((vals B p 2 j).map idv) (idv (be16 B (p + 2 * j))) (by simp; omega)
        simp only [List.length_map, vals_length] at e
        rw [e, ← List.map_singleton (f := idv), ← List.map_append, ← vals_succ]
        simp only [F1, vunpackvs.St.set_vs_wlist_bptr, vunpackvs.St.set_i, vunpackvs.St.set_bb]
        congr 1)
    (by
      show ¬ (((m : Nat) : Int) < s.vs_wlist_n ∧ _)
      rw [hn]; omega)
    m 0 fuel (by omega) hf
  rw [hF0] at key
  exact key

/-- the state of loop 2 (`vs_wlist_off[i]`, `i < n`) after `j` passes -/
def F2 (B : List Int) (s : St) (p cN : Nat) (j : Nat) : St :=
  ((s.set_vs_wlist_bptr (fill s.vs_wlist_bptr cN ((vals B p 2 j).map idv))).set_i ((j : Nat) : Int)).set_bb ((p + 2 * j : Nat) : Int)

theorem loop2_ok (M D : Int → Int) {B s p} (h : Ok B s p) (m fuel cN : Nat) (hu : s.i = 0) (hn : s.vs_wlist_n = (m : Int))
    (hc : s.vs_wlist_off = (cN : Int)) (hl : p + 2 * m ≤ B.length) (ht : cN + m ≤ s.vs_wlist_bptr.length) (hf : m ≤ fuel) :
    vunpackvs.loop2 M D fuel s = F2 B s p cN m ∧ Ok B (F2 B s p cN m) (p + 2 * m) := by
  refine ⟨?_, ⟨h.buf, rfl, h.ub, h.oof, h.done, h.gto⟩⟩
  have hF0 : F2 B s p cN 0 = s := by
    simp only [F2, vals, List.range_zero, List.map_nil, fill_nil, vunpackvs.St.set_vs_wlist_bptr, vunpackvs.St.set_i, vunpackvs.St.set_bb]
    have e1 : ((0 : Nat) : Int) = s.i := by rw [hu]; rfl
    have e2 : ((p + 2 * 0 : Nat) : Int) = s.bb := by rw [h.bb]; rfl
    rw [e1, e2]
  have key := loop_iterG (vunpackvs.loop2 M D) (fun s => (s.i < s.vs_wlist_n) ∧ ¬(s.done ∨ s.gto)) (vunpackvs.loop2.body M D)
    (fun s hc => by rw [vunpackvs.loop2]; exact if_neg hc)
    (fun fuel s => by rw [vunpackvs.loop2])
    m (F2 B s p cN)
    (fun j hj => by
      have ok : Ok B (F2 B s p cN j) (p + 2 * j) := ⟨h.buf, rfl, h.ub, h.oof, h.done, h.gto⟩
      refine ⟨⟨?_, ?_⟩, fun fuel => ?_⟩
      · show ((j : Nat) : Int) < s.vs_wlist_n
        rw [hn]; omega
      · show ¬ (s.done = true ∨ s.gto = true)
        rw [h.done, h.gto]; simp
      · rw [loop2_body]
        obtain ⟨q, _⟩ := dec16a_ok (fun s => (s.vs_wlist_off + s.i)) (·.vs_wlist_bptr) vunpackvs.St.set_vs_wlist_bptr
          (fun _ => ⟨fun _ => rfl, fun _ => rfl, fun _ => rfl, fun _ => rfl, fun _ => rfl, fun _ => rfl⟩)
          (fun _ _ => rfl) (fun _ _ => rfl) (fun _ _ _ => rfl) ok (by omega) (cN + j)
          (by show s.vs_wlist_off + ((j : Nat) : Int) = _; rw [hc]; omega)
          (by show cN + j < (fill s.vs_wlist_bptr cN ((vals B p 2 j).map idv)).length; rw [fill_length _ _ _ (by simp; omega)]; omega)
        simp only [q]
        show vunpackvs.St.set_i (vunpackvs.St.set_bb (vunpackvs.St.set_vs_wlist_bptr (F2 B s p cN j)
          ((fill s.vs_wlist_bptr cN ((vals B p 2 j).map idv)).set (cN + j) (idv (be16 B (p + 2 * j))))) _) _ = _
        have e := fill_snoc s.vs_wlist_bptr cN ((vals B p 2 j).map idv) (idv (be16 B (p + 2 * j))) (by simp; omega)
        simp only [List.length_map, vals_length] at e
        rw [e, ← List.map_singleton (f := idv), ← List.map_append, ← vals_succ]
        simp only [F2, vunpackvs.St.set_vs_wlist_bptr, vunpackvs.St.set_i, vunpackvs.St.set_bb]
        congr 1)
    (by
      show ¬ (((m : Nat) : Int) < s.vs_wlist_n ∧ _)
      rw [hn]; omega)
    m 0 fuel (by omega) hf
  rw [hF0] at key
  exact key

/-- the state of loop 3 (`vs_wlist_order[i]`, `i < n`) after `j` passes -/
def F3 (B : List Int) (s : St) (p cN : Nat) (j : Nat) : St :=
  ((s.set_vs_wlist_bptr (fill s.vs_wlist_bptr cN ((vals B p 2 j).map idv))).set_i ((j : Nat) : Int)).set_bb ((p + 2 * j : Nat) : Int)

theorem loop3_ok (M D : Int → Int) {B s p} (h : Ok B s p) (m fuel cN : Nat) (hu : s.i = 0) (hn : s.vs_wlist_n = (m : Int))
    (hc : s.vs_wlist_order = (cN : Int)) (hl : p + 2 * m ≤ B.length) (ht : cN + m ≤ s.vs_wlist_bptr.length) (hf : m ≤ fuel) :
    vunpackvs.loop3 M D fuel s = F3 B s p cN m ∧ Ok B (F3 B s p cN m) (p + 2 * m) := by
  refine ⟨?_, ⟨h.buf, rfl, h.ub, h.oof, h.done, h.gto⟩⟩
  have hF0 : F3 B s p cN 0 = s := by
    simp only [F3, vals, List.range_zero, List.map_nil, fill_nil, vunpackvs.St.set_vs_wlist_bptr, vunpackvs.St.set_i, vunpackvs.St.set_bb]
    have e1 : ((0 : Nat) : Int) = s.i := by rw [hu]; rfl
    have e2 : ((p + 2 * 0 : Nat) : Int) = s.bb := by rw [h.bb]; rfl
    rw [e1, e2]
  have key := loop_iterG (vunpackvs.loop3 M D) (fun s => (s.i < s.vs_wlist_n) ∧ ¬(s.done ∨ s.gto)) (vunpackvs.loop3.body M D)
    (fun s hc => by rw [vunpackvs.loop3]; exact if_neg hc)
    (fun fuel s => by rw [vunpackvs.loop3])
    m (F3 B s p cN)
    (fun j hj => by
      have ok : Ok B (F3 B s p cN j) (p + 2 * j) := ⟨h.buf, rfl, h.ub, h.oof, h.done, h.gto⟩
      refine ⟨⟨?_, ?_⟩, fun fuel => ?_⟩
      · show ((j : Nat) : Int) < s.vs_wlist_n
        rw [hn]; omega
      · show ¬ (s.done = true ∨ s.gto = true)
        rw [h.done, h.gto]; simp
      · rw [loop3_body]
        obtain ⟨q, _⟩ := dec16a_ok (fun s => (s.vs_wlist_order + s.i)) (·.vs_wlist_bptr) vunpackvs.St.set_vs_wlist_bptr
          (fun _ => ⟨fun _ => rfl, fun _ => rfl, fun _ => rfl, fun _ => rfl, fun _ => rfl, fun _ => rfl⟩)
          (fun _ _ => rfl) (fun _ _ => rfl) (fun _ _ _ => rfl) ok (by omega) (cN + j)
          (by show s.vs_wlist_order + ((j : Nat) : Int) = _; rw [hc]; omega)
          (by show cN + j < (fill s.vs_wlist_bptr cN ((vals B p 2 j).map idv)).length; rw [fill_length _ _ _ (by simp; omega)]; omega)
        simp only [q]
        show vunpackvs.St.set_i (vunpackvs.St.set_bb (vunpackvs.St.set_vs_wlist_bptr (F3 B s p cN j)
          ((fill s.vs_wlist_bptr cN ((vals B p 2 j).map idv)).set (cN + j) (idv (be16 B (p + 2 * j))))) _) _ = _
        have e := fill_snoc s.vs_wlist_bptr cN ((vals B p 2 j).map idv) (idv (be16 B (p + 2 * j))) (by simp; omega)
        simp only [List.length_map, vals_length] at e
        rw [e, ← List.map_singleton (f := idv), ← List.map_append, ← vals_succ]
        simp only [F3, vunpackvs.St.set_vs_wlist_bptr, vunpackvs.St.set_i, vunpackvs.St.set_bb]
        congr 1)
    (by
      show ¬ (((m : Nat) : Int) < s.vs_wlist_n ∧ _)
      rw [hn]; omega)
    m 0 fuel (by omega) hf
  rw [hF0] at key
  exact key

end H4.Lemmas.C07Fn3
