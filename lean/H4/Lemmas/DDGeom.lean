import H4.DD
/-! # Geometry of the DD block chain: positions, prefixes/suffixes of the slot sequence, and the scanning loops of
`HTIfind_dd` expressed on the flattened slot list. -/
namespace H4.DD
open H4.Gen.Hdf

/-- `q` addresses an existing slot -/
def Valid (blocks : List Block) (q : Pos) : Prop := ∃ blk, blocks[q.blk]? = some blk ∧ q.idx < blk.dds.length

/-- slots before slot `n` of block `b` (chain order) -/
def preUpto (blocks : List Block) (b n : Nat) : List DD :=
  slotsOf (blocks.take b) ++ (match blocks[b]? with | none => [] | some blk => blk.dds.take n)

/-- slots from slot `idx` of block `b` on -/
def sufFrom (blocks : List Block) (b idx : Nat) : List DD :=
  match blocks.drop b with
  | [] => []
  | blk :: rest => blk.dds.drop idx ++ slotsOf rest

theorem take_set_self {α} (l : List α) (i : Nat) (d : α) : List.take i (l.set i d) = List.take i l := by
  rw [List.take_set, List.set_eq_of_length_le]; simp; omega
theorem drop_set_succ {α} (l : List α) (i : Nat) (d : α) : List.drop (i + 1) (l.set i d) = List.drop (i + 1) l := by
  rw [List.drop_set]; simp

theorem list_split_at {α} (l : List α) (i : Nat) (hi : i < l.length) : l = l.take i ++ l[i] :: l.drop (i + 1) := by
  rw [List.getElem_cons_drop hi, List.take_append_drop]

@[simp] theorem slotsOf_nil : slotsOf [] = [] := rfl
@[simp] theorem slotsOf_cons (b : Block) (bs : List Block) : slotsOf (b :: bs) = b.dds ++ slotsOf bs := by
  simp [slotsOf]
theorem slotsOf_append (a b : List Block) : slotsOf (a ++ b) = slotsOf a ++ slotsOf b := by
  simp [slotsOf]

theorem preUpto_cons_succ (blk : Block) (rest : List Block) (b n : Nat) :
    preUpto (blk :: rest) (b + 1) n = blk.dds ++ preUpto rest b n := by
  simp [preUpto, List.append_assoc]

theorem sufFrom_cons_succ (blk : Block) (rest : List Block) (b n : Nat) :
    sufFrom (blk :: rest) (b + 1) n = sufFrom rest b n := by
  simp [sufFrom]

theorem sufFrom_cons_zero (blk : Block) (rest : List Block) (n : Nat) :
    sufFrom (blk :: rest) 0 n = blk.dds.drop n ++ slotsOf rest := by
  simp [sufFrom]

theorem preUpto_cons_zero (blk : Block) (rest : List Block) (n : Nat) :
    preUpto (blk :: rest) 0 n = blk.dds.take n := by
  simp [preUpto]

/-- the slot sequence splits at any position -/
theorem slots_split (blocks : List Block) : ∀ (b n : Nat), slotsOf blocks = preUpto blocks b n ++ sufFrom blocks b n := by
  induction blocks with
  | nil => intro b n; simp [preUpto, sufFrom]
  | cons blk rest ih =>
    intro b n
    cases b with
    | zero => rw [preUpto_cons_zero, sufFrom_cons_zero, ← List.append_assoc, List.take_append_drop, slotsOf_cons]
    | succ b => rw [preUpto_cons_succ, sufFrom_cons_succ, slotsOf_cons, List.append_assoc, ← ih b n]

theorem sufFrom_zero_zero (blocks : List Block) : sufFrom blocks 0 0 = slotsOf blocks := by
  cases blocks <;> simp [sufFrom]

theorem getDD_cons_succ (blk : Block) (rest : List Block) (b i : Nat) :
    getDD (blk :: rest) ⟨b + 1, i⟩ = getDD rest ⟨b, i⟩ := by
  simp [getDD]

theorem valid_cons_succ (blk : Block) (rest : List Block) (b i : Nat) :
    Valid (blk :: rest) ⟨b + 1, i⟩ ↔ Valid rest ⟨b, i⟩ := by
  simp [Valid]

/-- a valid position heads its suffix -/
theorem sufFrom_valid {blocks : List Block} {q : Pos} (h : Valid blocks q) :
    sufFrom blocks q.blk q.idx = getDD blocks q :: sufFrom blocks q.blk (q.idx + 1) := by
  obtain ⟨b, i⟩ := q
  induction blocks generalizing b with
  | nil => obtain ⟨blk, h1, _⟩ := h; simp at h1
  | cons blk rest ih =>
    cases b with
    | zero =>
      obtain ⟨blk', h1, h2⟩ := h
      simp at h1; subst h1
      have h2' : i < blk.dds.length := h2
      have e := List.drop_eq_getElem_cons h2'
      simp only [sufFrom_cons_zero, getDD, List.getElem?_cons_zero]
      rw [e, List.getD_eq_getElem?_getD, List.getElem?_eq_getElem h2']; rfl
    | succ b =>
      rw [sufFrom_cons_succ, sufFrom_cons_succ, getDD_cons_succ]
      exact ih b ((valid_cons_succ _ _ _ _).mp h)

theorem slots_split_valid {blocks : List Block} {q : Pos} (h : Valid blocks q) :
    slotsOf blocks = preUpto blocks q.blk q.idx ++ getDD blocks q :: sufFrom blocks q.blk (q.idx + 1) := by
  rw [slots_split blocks q.blk q.idx, sufFrom_valid h]

theorem getDD_mem_slots {blocks : List Block} {q : Pos} (h : Valid blocks q) : getDD blocks q ∈ slotsOf blocks := by
  rw [slots_split_valid h]; simp

/-! ## `setDD` -/

theorem setDD_cons_succ (blk : Block) (rest : List Block) (b i : Nat) (d : DD) :
    setDD (blk :: rest) ⟨b + 1, i⟩ d = blk :: setDD rest ⟨b, i⟩ d := by
  simp [setDD]

theorem setDD_cons_zero (blk : Block) (rest : List Block) (i : Nat) (d : DD) :
    setDD (blk :: rest) ⟨0, i⟩ d = { blk with dds := blk.dds.set i d } :: rest := by
  simp [setDD]

theorem setDD_length (blocks : List Block) (q : Pos) (d : DD) : (setDD blocks q d).length = blocks.length := by
  simp [setDD]

theorem preUpto_setDD (blocks : List Block) (q : Pos) (d : DD) :
    preUpto (setDD blocks q d) q.blk q.idx = preUpto blocks q.blk q.idx := by
  obtain ⟨b, i⟩ := q
  induction blocks generalizing b with
  | nil => simp [setDD]
  | cons blk rest ih =>
    cases b with
    | zero => simp [setDD_cons_zero, preUpto_cons_zero, take_set_self]
    | succ b => rw [setDD_cons_succ, preUpto_cons_succ, preUpto_cons_succ]; simp only; rw [ih b]

theorem sufFrom_setDD (blocks : List Block) (q : Pos) (d : DD) :
    sufFrom (setDD blocks q d) q.blk (q.idx + 1) = sufFrom blocks q.blk (q.idx + 1) := by
  obtain ⟨b, i⟩ := q
  induction blocks generalizing b with
  | nil => simp [setDD]
  | cons blk rest ih =>
    cases b with
    | zero => simp [setDD_cons_zero, sufFrom_cons_zero, drop_set_succ]
    | succ b => rw [setDD_cons_succ, sufFrom_cons_succ, sufFrom_cons_succ]; exact ih b

theorem valid_setDD {blocks : List Block} (q r : Pos) (d : DD) :
    Valid (setDD blocks q d) r ↔ Valid blocks r := by
  unfold Valid setDD
  simp only [List.getElem?_modify]
  cases h : blocks[r.blk]? with
  | none => simp
  | some blk =>
    by_cases hq : q.blk = r.blk <;> simp [hq]

theorem getDD_setDD_same {blocks : List Block} {q : Pos} (h : Valid blocks q) (d : DD) :
    getDD (setDD blocks q d) q = d := by
  obtain ⟨blk, h1, h2⟩ := h
  simp [getDD, setDD, List.getElem?_modify, h1, List.getD_eq_getElem?_getD, h2]

theorem getDD_setDD_other {blocks : List Block} {q r : Pos} (hne : q ≠ r) (d : DD) :
    getDD (setDD blocks q d) r = getDD blocks r := by
  simp only [getDD, setDD, List.getElem?_modify]
  cases h : blocks[r.blk]? with
  | none => simp
  | some blk =>
    by_cases hq : q.blk = r.blk
    · have : q.idx ≠ r.idx := by
        intro hi; apply hne; cases q; cases r; simp_all
      simp [hq, List.getD_eq_getElem?_getD, List.getElem?_set, this]
    · simp [hq]

/-- writing a slot replaces exactly that element of the slot sequence -/
theorem slots_setDD {blocks : List Block} {q : Pos} (h : Valid blocks q) (d : DD) :
    slotsOf (setDD blocks q d) = preUpto blocks q.blk q.idx ++ d :: sufFrom blocks q.blk (q.idx + 1) := by
  have hv : Valid (setDD blocks q d) q := (valid_setDD q q d).mpr h
  rw [slots_split_valid hv, preUpto_setDD, sufFrom_setDD, getDD_setDD_same h]

/-! ## the scanning loops -/

theorem firstIdx_none {p : DD → Bool} {l : List DD} (h : firstIdx p l = none) : l.filter p = [] := by
  induction l with
  | nil => rfl
  | cons d ds ih =>
    unfold firstIdx at h
    split at h
    · cases h
    · rename_i hp
      simp only [Option.map_eq_none_iff] at h
      simp [hp, ih h]

theorem firstIdx_some {p : DD → Bool} {l : List DD} {i : Nat} (h : firstIdx p l = some i) :
    ∃ hi : i < l.length, p l[i] = true ∧ (l.take i).filter p = [] := by
  induction l generalizing i with
  | nil => cases h
  | cons d ds ih =>
    unfold firstIdx at h
    split at h
    · rename_i hp
      cases h
      exact ⟨by simp, by simpa using hp, by simp⟩
    · rename_i hp
      simp only [Option.map_eq_some_iff] at h
      obtain ⟨j, hj, rfl⟩ := h
      obtain ⟨hi, h1, h2⟩ := ih hj
      refine ⟨by simp; omega, by simpa using h1, ?_⟩
      simp [List.take_succ_cons, hp, h2]

theorem lastIdx_none {p : DD → Bool} {l : List DD} (h : lastIdx p l = none) : l.filter p = [] := by
  induction l with
  | nil => rfl
  | cons d ds ih =>
    unfold lastIdx at h
    split at h
    · cases h
    · rename_i hl
      split at h
      · cases h
      · rename_i hp
        simp [hp, ih hl]

theorem lastIdx_some {p : DD → Bool} {l : List DD} {i : Nat} (h : lastIdx p l = some i) :
    ∃ hi : i < l.length, p l[i] = true ∧ (l.drop (i + 1)).filter p = [] := by
  induction l generalizing i with
  | nil => cases h
  | cons d ds ih =>
    unfold lastIdx at h
    split at h
    · rename_i j hj
      cases h
      obtain ⟨hi, h1, h2⟩ := ih hj
      exact ⟨by simp; omega, by simpa using h1, by simpa using h2⟩
    · rename_i hl
      split at h
      · rename_i hp
        cases h
        refine ⟨by simp, by simpa using hp, ?_⟩
        simpa using lastIdx_none hl
      · cases h

theorem drop_eq_cons {α} {l : List α} {b : Nat} {x : α} {xs : List α} (h : l.drop b = x :: xs) :
    l[b]? = some x ∧ l.drop (b + 1) = xs := by
  constructor
  · have := List.getElem?_drop (xs := l) (i := b) (j := 0)
    rw [h] at this; simpa using this.symm
  · have : l.drop (b + 1) = (l.drop b).drop 1 := by rw [List.drop_drop]
    rw [this, h]; rfl

theorem sufFrom_of_drop {blocks : List Block} {b : Nat} {blk : Block} {rest : List Block}
    (h : blocks.drop b = blk :: rest) (n : Nat) : sufFrom blocks b n = blk.dds.drop n ++ slotsOf rest := by
  simp [sufFrom, h]

theorem getDD_of_getElem? {blocks : List Block} {b i : Nat} {blk : Block} (h : blocks[b]? = some blk)
    (hi : i < blk.dds.length) : getDD blocks ⟨b, i⟩ = blk.dds[i] := by
  simp [getDD, h, List.getD_eq_getElem?_getD, hi]

theorem scanFwdBlocks_none {p : DD → Bool} : ∀ (rest : List Block) (b : Nat),
    scanFwdBlocks p rest b = none → (slotsOf rest).filter p = [] := by
  intro rest
  induction rest with
  | nil => intros; rfl
  | cons blk rest ih =>
    intro b h
    unfold scanFwdBlocks at h
    split at h
    · cases h
    · rename_i hf
      simp [firstIdx_none hf, ih _ h]

theorem scanFwdBlocks_some {p : DD → Bool} {blocks : List Block} : ∀ (rest : List Block) (b : Nat) (q : Pos),
    blocks.drop b = rest → scanFwdBlocks p rest b = some q →
    Valid blocks q ∧ p (getDD blocks q) = true ∧
    ∃ mid, slotsOf rest = mid ++ getDD blocks q :: sufFrom blocks q.blk (q.idx + 1) ∧ mid.filter p = [] := by
  intro rest
  induction rest with
  | nil => intro b q _ h; cases h
  | cons blk rest ih =>
    intro b q hd h
    obtain ⟨hb, hd'⟩ := drop_eq_cons hd
    unfold scanFwdBlocks at h
    split at h
    · rename_i i hf
      cases h
      obtain ⟨hi, hp, hpre⟩ := firstIdx_some hf
      refine ⟨⟨blk, hb, hi⟩, by rw [getDD_of_getElem? hb hi]; exact hp, blk.dds.take i, ?_, hpre⟩
      rw [getDD_of_getElem? hb hi, sufFrom_of_drop hd, slotsOf_cons]
      have e := list_split_at blk.dds i hi
      calc blk.dds ++ slotsOf rest = (blk.dds.take i ++ blk.dds[i] :: blk.dds.drop (i + 1)) ++ slotsOf rest := by rw [← e]
        _ = _ := by simp only [List.append_assoc, List.cons_append]
    · rename_i hf
      obtain ⟨hv, hp, mid, hm, hmf⟩ := ih (b + 1) q hd' h
      refine ⟨hv, hp, blk.dds ++ mid, ?_, ?_⟩
      · rw [slotsOf_cons, hm]; simp
      · simp [firstIdx_none hf, hmf]

theorem scanFwd_none {p : DD → Bool} {blocks : List Block} {b idx : Nat}
    (h : scanFwd p blocks b idx = none) : (sufFrom blocks b idx).filter p = [] := by
  unfold scanFwd at h
  unfold sufFrom
  split at h
  · rename_i hd; simp [hd]
  · rename_i blk rest hd
    rw [hd]
    split at h
    · cases h
    · rename_i hf
      simp [firstIdx_none hf, scanFwdBlocks_none _ _ h]

theorem scanFwd_some {p : DD → Bool} {blocks : List Block} {b idx : Nat} {q : Pos}
    (h : scanFwd p blocks b idx = some q) :
    Valid blocks q ∧ p (getDD blocks q) = true ∧
    ∃ mid, sufFrom blocks b idx = mid ++ getDD blocks q :: sufFrom blocks q.blk (q.idx + 1) ∧ mid.filter p = [] := by
  unfold scanFwd at h
  split at h
  · cases h
  · rename_i blk rest hd
    obtain ⟨hb, hd'⟩ := drop_eq_cons hd
    split at h
    · rename_i i hf
      cases h
      obtain ⟨hi, hp, hpre⟩ := firstIdx_some hf
      have hi' : i + idx < blk.dds.length := by simp at hi; omega
      have hget : (blk.dds.drop idx)[i] = blk.dds[i + idx] := by simp [Nat.add_comm]
      refine ⟨⟨blk, hb, hi'⟩, by rw [getDD_of_getElem? hb hi', ← hget]; exact hp, (blk.dds.drop idx).take i, ?_, hpre⟩
      rw [getDD_of_getElem? hb hi', sufFrom_of_drop hd, sufFrom_of_drop hd, ← hget]
      have e := list_split_at (blk.dds.drop idx) i hi
      have e2 : (blk.dds.drop idx).drop (i + 1) = blk.dds.drop (i + idx + 1) := by
        rw [List.drop_drop]; congr 1; omega
      calc blk.dds.drop idx ++ slotsOf rest
          = ((blk.dds.drop idx).take i ++ (blk.dds.drop idx)[i] :: (blk.dds.drop idx).drop (i + 1)) ++ slotsOf rest := by rw [← e]
        _ = _ := by rw [e2]; simp only [List.append_assoc, List.cons_append]
    · rename_i hf
      obtain ⟨hv, hp, mid, hm, hmf⟩ := scanFwdBlocks_some (blocks := blocks) rest (b + 1) q hd' h
      refine ⟨hv, hp, blk.dds.drop idx ++ mid, ?_, ?_⟩
      · rw [sufFrom_of_drop hd, hm]; simp
      · simp [firstIdx_none hf, hmf]

/-! backward -/

theorem take_succ_reverse {α} {l : List α} {cnt : Nat} {x : α} {xs : List α}
    (h : (l.take (cnt + 1)).reverse = x :: xs) (hc : cnt < l.length) : l[cnt]? = some x ∧ (l.take cnt).reverse = xs := by
  rw [List.take_succ_eq_append_getElem hc, List.reverse_append] at h
  simp at h
  exact ⟨by rw [List.getElem?_eq_getElem hc, h.1], h.2⟩

theorem preUpto_of_getElem? {blocks : List Block} {b : Nat} {blk : Block} (h : blocks[b]? = some blk) (n : Nat) :
    preUpto blocks b n = slotsOf (blocks.take b) ++ blk.dds.take n := by
  simp [preUpto, h]

theorem slotsOf_take_succ {blocks : List Block} {b : Nat} {blk : Block} (h : blocks[b]? = some blk) :
    slotsOf (blocks.take (b + 1)) = slotsOf (blocks.take b) ++ blk.dds := by
  have hb : b < blocks.length := by
    rcases Nat.lt_or_ge b blocks.length with h' | h'
    · exact h'
    · simp [List.getElem?_eq_none h'] at h
  rw [List.take_succ_eq_append_getElem hb, slotsOf_append]
  have : blocks[b] = blk := by rw [List.getElem?_eq_getElem hb] at h; simpa using h
  simp [this]

theorem scanBwdBlocks_none {p : DD → Bool} {blocks : List Block} : ∀ (rev : List Block) (cnt : Nat),
    cnt ≤ blocks.length → (blocks.take cnt).reverse = rev → scanBwdBlocks p rev cnt = none →
    (slotsOf (blocks.take cnt)).filter p = [] := by
  intro rev
  induction rev with
  | nil =>
    intro cnt hc hr _
    have : blocks.take cnt = [] := by simpa using hr
    rw [this]; rfl
  | cons blk rev ih =>
    intro cnt hc hr h
    cases cnt with
    | zero => simp at hr
    | succ cnt =>
      obtain ⟨hb, hr'⟩ := take_succ_reverse hr (by omega)
      unfold scanBwdBlocks at h
      split at h
      · cases h
      · rename_i hl
        simp only [Nat.add_sub_cancel] at h
        rw [slotsOf_take_succ hb]
        simp [ih cnt (by omega) hr' h, lastIdx_none hl]

theorem scanBwdBlocks_some {p : DD → Bool} {blocks : List Block} : ∀ (rev : List Block) (cnt : Nat) (q : Pos),
    cnt ≤ blocks.length → (blocks.take cnt).reverse = rev → scanBwdBlocks p rev cnt = some q →
    Valid blocks q ∧ p (getDD blocks q) = true ∧
    ∃ mid, slotsOf (blocks.take cnt) = preUpto blocks q.blk q.idx ++ getDD blocks q :: mid ∧ mid.filter p = [] := by
  intro rev
  induction rev with
  | nil => intro cnt q _ _ h; cases h
  | cons blk rev ih =>
    intro cnt q hc hr h
    cases cnt with
    | zero => simp at hr
    | succ cnt =>
      obtain ⟨hb, hr'⟩ := take_succ_reverse hr (by omega)
      unfold scanBwdBlocks at h
      simp only [Nat.add_sub_cancel] at h
      split at h
      · rename_i i hl
        cases h
        obtain ⟨hi, hp, hpost⟩ := lastIdx_some hl
        refine ⟨⟨blk, hb, hi⟩, by rw [getDD_of_getElem? hb hi]; exact hp, blk.dds.drop (i + 1), ?_, hpost⟩
        rw [getDD_of_getElem? hb hi, slotsOf_take_succ hb, preUpto_of_getElem? hb]
        have e := list_split_at blk.dds i hi
        calc slotsOf (blocks.take cnt) ++ blk.dds
            = slotsOf (blocks.take cnt) ++ (blk.dds.take i ++ blk.dds[i] :: blk.dds.drop (i + 1)) := by rw [← e]
          _ = _ := by simp only [List.append_assoc]
      · rename_i hl
        obtain ⟨hv, hp, mid, hm, hmf⟩ := ih cnt q (by omega) hr' h
        refine ⟨hv, hp, mid ++ blk.dds, ?_, ?_⟩
        · rw [slotsOf_take_succ hb, hm]; simp
        · simp [hmf, lastIdx_none hl]

theorem scanBwd_none {p : DD → Bool} {blocks : List Block} {b n : Nat} (hbl : b < blocks.length)
    (h : scanBwd p blocks b n = none) : (preUpto blocks b n).filter p = [] := by
  unfold scanBwd at h
  split at h
  · rename_i hb
    simp [List.getElem?_eq_getElem hbl] at hb
  · rename_i blk hb
    split at h
    · cases h
    · rename_i hl
      rw [preUpto_of_getElem? hb]
      simp [lastIdx_none hl, scanBwdBlocks_none _ b (by omega) rfl h]

theorem scanBwd_some {p : DD → Bool} {blocks : List Block} {b n : Nat} {q : Pos}
    (h : scanBwd p blocks b n = some q) :
    Valid blocks q ∧ p (getDD blocks q) = true ∧
    ∃ mid, preUpto blocks b n = preUpto blocks q.blk q.idx ++ getDD blocks q :: mid ∧ mid.filter p = [] := by
  unfold scanBwd at h
  split at h
  · cases h
  · rename_i blk hb
    have hbl : b < blocks.length := by
      rcases Nat.lt_or_ge b blocks.length with h' | h'
      · exact h'
      · simp [List.getElem?_eq_none h'] at hb
    split at h
    · rename_i i hl
      cases h
      obtain ⟨hi, hp, hpost⟩ := lastIdx_some hl
      have hi' : i < blk.dds.length := by simp at hi; omega
      have hget : (blk.dds.take n)[i] = blk.dds[i] := by simp
      refine ⟨⟨blk, hb, hi'⟩, by rw [getDD_of_getElem? hb hi', ← hget]; exact hp, (blk.dds.take n).drop (i + 1), ?_, hpost⟩
      rw [getDD_of_getElem? hb hi', preUpto_of_getElem? hb, preUpto_of_getElem? hb, ← hget]
      have e := list_split_at (blk.dds.take n) i hi
      have e2 : (blk.dds.take n).take i = blk.dds.take i := by
        rw [List.take_take]; congr 1; simp at hi; omega
      calc slotsOf (blocks.take b) ++ blk.dds.take n
          = slotsOf (blocks.take b) ++ ((blk.dds.take n).take i ++ (blk.dds.take n)[i] :: (blk.dds.take n).drop (i + 1)) := by rw [← e]
        _ = _ := by rw [e2]; simp only [List.append_assoc]
    · rename_i hl
      obtain ⟨hv, hp, mid, hm, hmf⟩ := scanBwdBlocks_some (blocks := blocks) _ b q (by omega) rfl h
      refine ⟨hv, hp, mid ++ blk.dds.take n, ?_, ?_⟩
      · rw [preUpto_of_getElem? hb, hm]; simp
      · simp [hmf, lastIdx_none hl]

end H4.DD
