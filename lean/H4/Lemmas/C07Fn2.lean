import H4.Lemmas.C07Fn
/-! Second half of the lemmas for `H4.Props.C07Fn`: the phases of the translated `vpackvs` composed (`vpackvs_run`). Core only. -/
set_option linter.unusedSimpArgs false
set_option linter.unusedVariables false
namespace H4.Lemmas.C07Fn
open H4 H4.Format H4.Gen.Hdf H4.Gen.Fn.Vio H4.C2L
open H4.Lemmas.C08Fn (bytesI bytesI_length bytesI_nil bytesI_cons bytesI_append)

/-! the ENCODE macros applied to a field `f` of the structure -/

theorem encI16f_at {F b0 s out} (h : At F b0 s out) (f : St → Int) (hf : ∀ t, f t = f (frame t)) (v : Int) (hv : f F = v)
    (hr : out.length + 2 < b0.length) : At F b0 (encI16 s ((f s) % 4294967296)) (out ++ bytesI (encS16 v)) :=
  encI16_at h v _ (by rw [h.get f hf, hv]) hr

theorem encU16f_at {F b0 s out} (h : At F b0 s out) (f : St → Int) (hf : ∀ t, f t = f (frame t)) (x : Nat) (hv : f F = (x : Int))
    (hr : out.length + 2 < b0.length) : At F b0 (encU16 s (f s)) (out ++ bytesI (enc16 x)) :=
  encU16_at h x _ ((h.get f hf).trans hv) hr

theorem encI32f_at {F b0 s out} (h : At F b0 s out) (f : St → Int) (hf : ∀ t, f t = f (frame t)) (v : Int) (hv : f F = v)
    (hr : out.length + 4 < b0.length) : At F b0 (enc32 s ((f s) % 4294967296)) (out ++ bytesI (encS32 v)) :=
  encI32_at h v _ (by rw [h.get f hf, hv]) hr

theorem encU32f_at {F b0 s out} (h : At F b0 s out) (f : St → Int) (hf : ∀ t, f t = f (frame t)) (x : Nat) (hv : f F = (x : Int))
    (hr : out.length + 4 < b0.length) : At F b0 (enc32 s (f s)) (out ++ bytesI (Format.enc32 x)) :=
  enc32_at h x _ ((h.get f hf).trans hv) hr

theorem encS16_nat (n : Nat) (h : n < 4294967296) : encS16 (n : Int) = enc16 n := by
  rw [encS16_eq]; congr 1; omega

theorem encS32_nat (n : Nat) (h : n < 4294967296) : encS32 (n : Int) = Format.enc32 n := by
  simp only [encS32, ofS32]; congr 1; omega

/-- interlace, nvertices, ivsize, nfields -/
theorem ph1_at {F b0 s out} (h : At F b0 s out) (v : VH) (rowpad : List Int) (hR : Regs v rowpad F)
    (hn : v.fields.length < 2147483648) (hr : out.length + 10 < b0.length) :
    At F b0 (ph1 s) (out ++ bytesI (encS16 v.interlace) ++ bytesI (encS32 v.nvert) ++ bytesI (enc16 v.ivsize) ++
      bytesI (enc16 v.fields.length)) := by
  have a1 := encI16f_at h (·.vs_interlace) (fun _ => rfl) v.interlace hR.il (by omega)
  have a2 := encI32f_at a1 (·.vs_nvertices) (fun _ => rfl) v.nvert hR.nv
    (by simp only [List.length_append, bytesI_length, encS16_length]; omega)
  have a3 := encU16f_at a2 (·.vs_wlist_ivsize) (fun _ => rfl) v.ivsize hR.ivs
    (by simp only [List.length_append, bytesI_length, encS16_length, encS32_length]; omega)
  have a4 := encI16f_at a3 (·.vs_wlist_n) (fun _ => rfl) (v.fields.length : Int) hR.n
    (by simp only [List.length_append, bytesI_length, encS16_length, encS32_length, enc16_length]; omega)
  rw [encS16_nat _ (by omega)] at a4
  exact a4

/-- the five per-field arrays of the record -/
def fieldsPart (v : VH) : Bytes :=
  v.fields.flatMap (fun f => encS16 f.type) ++ v.fields.flatMap (fun f => enc16 f.isize) ++
  v.fields.flatMap (fun f => enc16 f.off) ++ v.fields.flatMap (fun f => enc16 f.order) ++
  v.fields.flatMap (fun f => encStr16 f.name)

theorem loopI16_types {F b0 s out} (h : At F b0 s out) (v : VH) (rowpad : List Int) (hR : Regs v rowpad F) (fuel : Nat)
    (hfuel : v.fields.length ≤ fuel) (hi : F.i = 0)
    (hr : out.length + (v.fields.flatMap (fun f => encS16 f.type)).length < b0.length) :
    At (F.set_i v.fields.length) b0 (vpackvs.loop0 fuel s) (out ++ bytesI (v.fields.flatMap (fun f => encS16 f.type))) := by
  have := loop_at b0 vpackvs.loop0 (fun s => encI16r s (·.vs_wlist_type)) (·.vs_wlist_n) (fun _ => rfl) (fun _ _ => rfl)
    (fun s => by rw [vpackvs.loop0]) (fun f s => by rw [vpackvs.loop0, loop0_body])
    v.fields (fun f => bytesI (encS16 f.type)) (Regs v rowpad) (fun _ x hP => hP.set_i x)
    (fun k hk F s out hP hA hi hr => by
      obtain ⟨pad, e⟩ := hP.ty
      exact encI16r_at hA (·.vs_wlist_type) (fun _ => rfl) k (v.fields[k]).type hi (by rw [e]; simp; omega)
        (by rw [e]; exact getD_map_append v.fields (·.type) pad k hk)
        (by simpa only [bytesI_length, encS16_length] using hr))
    v.fields.length fuel 0 F s out hfuel (by omega) hR h hi hR.n
    (by simpa only [List.drop_zero, ← bytesI_flatMap, bytesI_length] using hr)
  simpa only [List.drop_zero, ← bytesI_flatMap] using this

/-- the three `uint16` arrays (`isize`, `off`, `order`): one statement for the three generated loops -/
theorem loopU16_at {F b0 s out} (h : At F b0 s out) (v : VH) (rowpad : List Int) (hR : Regs v rowpad F) (fuel : Nat)
    (loop : Nat → St → St) (reg : St → List Int) (hreg : ∀ t, reg t = reg (frame t)) (g : VField → Nat)
    (h0 : ∀ s, loop 0 s = if s.i < s.vs_wlist_n then { s with oof := true } else s)
    (hS : ∀ f s, loop (f + 1) s = if s.i < s.vs_wlist_n then
      loop f (vpackvs.St.set_i (encU16r s reg) ((encU16r s reg).i + 1)) else s)
    (hproj : ∀ F, Regs v rowpad F → ∃ pad, reg F = ints (v.fields.map g) ++ pad)
    (hfuel : v.fields.length ≤ fuel) (hi : F.i = 0)
    (hr : out.length + (v.fields.flatMap (fun f => enc16 (g f))).length < b0.length) :
    At (F.set_i v.fields.length) b0 (loop fuel s) (out ++ bytesI (v.fields.flatMap (fun f => enc16 (g f)))) := by
  have := loop_at b0 loop (fun s => encU16r s reg) (·.vs_wlist_n) (fun _ => rfl) (fun _ _ => rfl) h0 hS
    v.fields (fun f => bytesI (enc16 (g f))) (Regs v rowpad) (fun _ x hP => hP.set_i x)
    (fun k hk F s out hP hA hi hr => by
      obtain ⟨pad, e⟩ := hproj F hP
      exact encU16r_at hA reg hreg k (g v.fields[k]) hi (by rw [e]; simp; omega)
        (by rw [e]; exact getD_ints_append v.fields g pad k hk)
        (by simpa only [bytesI_length, enc16_length] using hr))
    v.fields.length fuel 0 F s out hfuel (by omega) hR h hi hR.n
    (by simpa only [List.drop_zero, ← bytesI_flatMap, bytesI_length] using hr)
  simpa only [List.drop_zero, ← bytesI_flatMap] using this

/-- the field names -/
theorem loopNames_at {F b0 s out} (h : At F b0 s out) (v : VH) (rowpad : List Int) (hR : Regs v rowpad F) (fuel : Nat)
    (hnames : ∀ f ∈ v.fields, NameOK f.name) (hfuel : v.fields.length ≤ fuel) (hi : F.i = 0)
    (hr : out.length + (v.fields.flatMap (fun f => encStr16 f.name)).length < b0.length) :
    At (F.set_i v.fields.length) b0 (vpackvs.loop4 fuel s) (out ++ bytesI (v.fields.flatMap (fun f => encStr16 f.name))) := by
  have := loop_at b0 vpackvs.loop4 body4 (·.vs_wlist_n) (fun _ => rfl) (fun _ _ => rfl)
    (fun s => by rw [vpackvs.loop4]) (fun f s => by rw [vpackvs.loop4, loop4_body])
    v.fields (fun f => bytesI (encStr16 f.name)) (Regs v rowpad) (fun _ x hP => hP.set_i x)
    (fun k hk F s out hP hA hi hr => by
      obtain ⟨rows, e⟩ := hP.nm
      have hrow : row F = bytesI (v.fields[k]).name ++ 0 :: rowpad := by
        simp only [row, hi, Int.toNat_natCast, e]
        rw [List.getD_eq_getElem?_getD, List.getElem?_append_left (by simpa using hk)]
        simp [hk]
      have c1 : 0 ≤ s.i ∧ s.i < s.vs_wlist_name.length := by
        rw [hA.get (·.i) (fun _ => rfl), hA.get (·.vs_wlist_name) (fun _ => rfl), hi, e]
        simp only [List.length_append, List.length_map]; omega
      rw [body4_eq s c1]
      exact pstr_at hA row (fun _ => rfl) _ (hnames _ (List.getElem_mem hk)) rowpad hrow
        (by simpa only [bytesI_length] using hr))
    v.fields.length fuel 0 F s out hfuel (by omega) hR h hi hR.n
    (by simpa only [List.drop_zero, ← bytesI_flatMap, bytesI_length] using hr)
  simpa only [List.drop_zero, ← bytesI_flatMap] using this

theorem encodeVAttr_length (a : VAttr) : (encodeVAttr a).length = 8 := rfl

/-- the attribute list -/
theorem loopAttrs_at {F b0 s out} (h : At F b0 s out) (v : VH) (rowpad : List Int) (hR : Regs v rowpad F) (fuel : Nat)
    (hfuel : v.attrs.length ≤ fuel) (hi : F.i = 0)
    (hr : out.length + (v.attrs.flatMap encodeVAttr).length < b0.length) :
    At (F.set_i v.attrs.length) b0 (vpackvs.loop5 fuel s) (out ++ bytesI (v.attrs.flatMap encodeVAttr)) := by
  have := loop_at b0 vpackvs.loop5
    (fun s => encU16r (encU16r (encI32r s (·.vs_alist_findex)) (·.vs_alist_atag)) (·.vs_alist_aref))
    (·.vs_nattrs) (fun _ => rfl) (fun _ _ => rfl)
    (fun s => by rw [vpackvs.loop5]) (fun f s => by rw [vpackvs.loop5, loop5_body])
    v.attrs (fun a => bytesI (encodeVAttr a)) (Regs v rowpad) (fun _ x hP => hP.set_i x)
    (fun k hk F s out hP hA hi hr => by
      obtain ⟨p1, e1⟩ := hP.fi
      obtain ⟨p2, e2⟩ := hP.atg
      obtain ⟨p3, e3⟩ := hP.arf
      simp only [bytesI_length, encodeVAttr_length] at hr
      have a1 := encI32r_at hA (·.vs_alist_findex) (fun _ => rfl) k (v.attrs[k]).findex hi (by rw [e1]; simp; omega)
        (by rw [e1]; exact getD_map_append v.attrs (·.findex) p1 k hk) (by omega)
      have a2 := encU16r_at a1 (·.vs_alist_atag) (fun _ => rfl) k (v.attrs[k]).atag hi (by rw [e2]; simp; omega)
        (by rw [e2]; exact getD_ints_append v.attrs (·.atag) p2 k hk)
        (by simp only [List.length_append, bytesI_length, encS32_length]; omega)
      have a3 := encU16r_at a2 (·.vs_alist_aref) (fun _ => rfl) k (v.attrs[k]).aref hi (by rw [e3]; simp; omega)
        (by rw [e3]; exact getD_ints_append v.attrs (·.aref) p3 k hk)
        (by simp only [List.length_append, bytesI_length, encS32_length, enc16_length]; omega)
      simpa only [encodeVAttr, bytesI_append, List.append_assoc] using a3)
    v.attrs.length fuel 0 F s out hfuel (by omega) hR h hi hR.na
    (by simpa only [List.drop_zero, ← bytesI_flatMap, bytesI_length] using hr)
  simpa only [List.drop_zero, ← bytesI_flatMap] using this

/-- the five field loops -/
theorem ph2_at {F b0 s out} (h : At F b0 s out) (v : VH) (rowpad : List Int) (hR : Regs v rowpad F) (fuel : Nat)
    (hnames : ∀ f ∈ v.fields, NameOK f.name) (hfuel : v.fields.length ≤ fuel)
    (hr : out.length + (fieldsPart v).length < b0.length) :
    ∃ F', At F' b0 (ph2 fuel s) (out ++ bytesI (fieldsPart v)) ∧ Regs v rowpad F' ∧ F'.size = F.size ∧ F'.ret_value = F.ret_value := by
  have en : s.vs_wlist_n = (v.fields.length : Int) := (h.get (·.vs_wlist_n) (fun _ => rfl)).trans hR.n
  by_cases hc : s.vs_wlist_n > 0
  · simp only [fieldsPart, List.length_append] at hr
    have z : ((0 : Int)) = ((0 : Nat) : Int) := rfl
    have a1 := loopI16_types (h.set_i 0) v rowpad (hR.set_i 0) fuel hfuel z (by omega)
    have a2 := loopU16_at (a1.set_i 0) v rowpad ((hR.set_i 0).set_i _ |>.set_i 0) fuel vpackvs.loop1 (·.vs_wlist_isize) (fun _ => rfl) (·.isize)
      (fun s => by rw [vpackvs.loop1]) (fun f s => by rw [vpackvs.loop1, loop1_body]) (fun F hP => hP.isz) hfuel z
      (by simp only [List.length_append, bytesI_length]; omega)
    have a3 := loopU16_at (a2.set_i 0) v rowpad (((hR.set_i 0).set_i _ |>.set_i 0).set_i _ |>.set_i 0) fuel vpackvs.loop2 (·.vs_wlist_off) (fun _ => rfl) (·.off)
      (fun s => by rw [vpackvs.loop2]) (fun f s => by rw [vpackvs.loop2, loop2_body]) (fun F hP => hP.off) hfuel z
      (by simp only [List.length_append, bytesI_length]; omega)
    have a4 := loopU16_at (a3.set_i 0) v rowpad ((((hR.set_i 0).set_i _ |>.set_i 0).set_i _ |>.set_i 0).set_i _ |>.set_i 0) fuel vpackvs.loop3 (·.vs_wlist_order) (fun _ => rfl) (·.order)
      (fun s => by rw [vpackvs.loop3]) (fun f s => by rw [vpackvs.loop3, loop3_body]) (fun F hP => hP.ord) hfuel z
      (by simp only [List.length_append, bytesI_length]; omega)
    have a5 := loopNames_at (a4.set_i 0) v rowpad (((((hR.set_i 0).set_i _ |>.set_i 0).set_i _ |>.set_i 0).set_i _ |>.set_i 0).set_i _ |>.set_i 0) fuel hnames hfuel z
      (by simp only [List.length_append, bytesI_length]; omega)
    refine ⟨F.set_i (v.fields.length : Int), ?_, hR.set_i _, rfl, rfl⟩
    simp only [ph2, hc, if_true, fieldsPart, bytesI_append, ← List.append_assoc]
    exact a5
  · have h0 : v.fields = [] := by
      have : v.fields.length = 0 := by omega
      exact List.length_eq_zero_iff.mp this
    refine ⟨F, ?_, hR, rfl, rfl⟩
    simp only [ph2, hc, if_false, fieldsPart, h0, List.flatMap_nil, List.append_nil, bytesI_nil]
    exact h

/-- extag, exref, version, more -/
theorem ph5_at {F b0 s out} (h : At F b0 s out) (v : VH) (rowpad : List Int) (hR : Regs v rowpad F)
    (hr : out.length + 8 < b0.length) :
    At F b0 (ph5 s) (out ++ bytesI (enc16 v.extag) ++ bytesI (enc16 v.exref) ++ bytesI (encS16 v.version) ++ bytesI (encS16 v.more)) := by
  have a1 := encU16f_at h (·.vs_extag) (fun _ => rfl) v.extag hR.et (by omega)
  have a2 := encU16f_at a1 (·.vs_exref) (fun _ => rfl) v.exref hR.er
    (by simp only [List.length_append, bytesI_length, enc16_length]; omega)
  have a3 := encI16f_at a2 (·.vs_version) (fun _ => rfl) v.version hR.ver
    (by simp only [List.length_append, bytesI_length, enc16_length]; omega)
  have a4 := encI16f_at a3 (·.vs_more) (fun _ => rfl) v.more hR.more
    (by simp only [List.length_append, bytesI_length, enc16_length, encS16_length]; omega)
  exact a4

/-- version, more (second copy) -/
theorem ph7_at {F b0 s out} (h : At F b0 s out) (v : VH) (rowpad : List Int) (hR : Regs v rowpad F)
    (hr : out.length + 4 < b0.length) :
    At F b0 (ph7 s) (out ++ bytesI (encS16 v.version) ++ bytesI (encS16 v.more)) := by
  have a3 := encI16f_at h (·.vs_version) (fun _ => rfl) v.version hR.ver (by omega)
  have a4 := encI16f_at a3 (·.vs_more) (fun _ => rfl) v.more hR.more
    (by simp only [List.length_append, bytesI_length, encS16_length]; omega)
  exact a4

theorem ph6b_at {F b0 s out} (h : At F b0 s out) (v : VH) (rowpad : List Int) (hR : Regs v rowpad F) (fuel : Nat)
    (ha : v.flags % 2 = 1 → v.attrs.length < 2147483648 ∧ v.attrs.length ≤ fuel)
    (hr : out.length + (if v.flags % 2 = 1 then Format.enc32 v.attrs.length ++ v.attrs.flatMap encodeVAttr else []).length < b0.length) :
    ∃ F', At F' b0 (ph6b fuel s) (out ++ bytesI (if v.flags % 2 = 1 then Format.enc32 v.attrs.length ++ v.attrs.flatMap encodeVAttr else [])) ∧
      Regs v rowpad F' ∧ F'.size = F.size ∧ F'.ret_value = F.ret_value := by
  have efl : s.vs_flags = (v.flags : Int) := (h.get (·.vs_flags) (fun _ => rfl)).trans hR.fl
  by_cases hc : v.flags % 2 = 1
  · obtain ⟨hlt, hfu⟩ := ha hc
    have hc' := (land_one v.flags).mpr hc
    rw [if_pos hc] at hr
    rw [if_pos hc]
    simp only [List.length_append, enc32_length] at hr
    have a1 := encI32f_at h (·.vs_nattrs) (fun _ => rfl) (v.attrs.length : Int) hR.na (by omega)
    rw [encS32_nat _ (by omega)] at a1
    have a3 := loopAttrs_at (a1.set_i 0) v rowpad (hR.set_i 0) fuel hfu rfl
      (by simp only [List.length_append, bytesI_length, enc32_length]; omega)
    refine ⟨F.set_i (v.attrs.length : Int), ?_, hR.set_i _, rfl, rfl⟩
    simp only [ph6b, efl]
    rw [if_pos hc', bytesI_append, ← List.append_assoc]
    exact a3
  · have hc' : ¬ (Int.ofNat (Int.toNat ((v.flags : Nat) : Int) &&& Int.toNat (((1) % 4294967296))) ≠ 0) :=
      fun x => hc ((land_one v.flags).mp x)
    rw [if_neg hc] at hr
    rw [if_neg hc]
    refine ⟨F, ?_, hR, rfl, rfl⟩
    simp only [ph6b, efl]
    rw [if_neg hc']
    simpa using h

theorem ph6_at {F b0 s out} (h : At F b0 s out) (v : VH) (rowpad : List Int) (hR : Regs v rowpad F) (fuel : Nat)
    (hfl : v.flags < 4294967296)
    (ha : v.flags % 2 = 1 → v.attrs.length < 2147483648 ∧ v.attrs.length ≤ fuel)
    (hr : out.length + (flagsPart v).length < b0.length) :
    ∃ F', At F' b0 (ph6 fuel s) (out ++ bytesI (flagsPart v)) ∧ Regs v rowpad F' ∧ F'.size = F.size ∧ F'.ret_value = F.ret_value := by
  have efl : s.vs_flags = (v.flags : Int) := (h.get (·.vs_flags) (fun _ => rfl)).trans hR.fl
  have z : ((0 : Int) % 4294967296) = 0 := by decide
  by_cases hc : v.flags ≠ 0
  · have hc' : s.vs_flags ≠ ((0) % 4294967296) := by rw [efl, z]; omega
    simp only [flagsPart, hc, ne_eq, not_false_eq_true, if_true, List.length_append, enc32_length] at hr ⊢
    have a1 := encU32f_at h (·.vs_flags) (fun _ => rfl) v.flags hR.fl (by omega)
    have e2 : (enc32 s s.vs_flags).vs_flags = ((v.flags : Nat) : Int) := (a1.get (·.vs_flags) (fun _ => rfl)).trans hR.fl
    have c : (0 : Int) ≤ (enc32 s s.vs_flags).vs_flags ∧ (0 : Int) ≤ ((1) % 4294967296) := by
      rw [e2]; exact ⟨by omega, by decide⟩
    obtain ⟨F', a3, f1, f2, f3⟩ := ph6b_at a1 v rowpad hR fuel ha (by simp only [List.length_append, bytesI_length, enc32_length]; omega)
    refine ⟨F', ?_, f1, f2, f3⟩
    simp only [ph6, hc', ne_eq, not_false_eq_true, if_true]
    simp only [chk_true _ _ c]
    rw [bytesI_append, ← List.append_assoc]
    exact a3
  · have hf0 : v.flags = 0 := by omega
    have hc' : ¬ (s.vs_flags ≠ ((0) % 4294967296)) := by rw [efl, z, hf0]; simp
    refine ⟨F, ?_, hR, rfl, rfl⟩
    simp only [ph6, hc', if_false, flagsPart, hf0, ne_eq, not_true_eq_false, bytesI_nil, List.append_nil]
    exact h

theorem ph8_at {F b0 s out} (h : At F b0 s out) (hs : 0 < F.size.length) (rec : List Int) (hrec : rec = out ++ [0]) :
    (ph8 s).ub = false ∧ (ph8 s).oof = false ∧ (ph8 s).buf = rec ++ b0.drop rec.length ∧
      (ph8 s).size = F.size.set 0 (rec.length : Int) ∧ (ph8 s).ret = F.ret_value := by
  obtain ⟨z, hz⟩ := h.buf
  have c1 : 0 < s.size.length := by rw [h.get (·.size) (fun _ => rfl)]; exact hs
  have c2 : 0 ≤ (vpackvs.St.set_size s (s.size.set (Int.toNat (0)) (((s.bb - 0) + 1)))).bb ∧
      (vpackvs.St.set_size s (s.size.set (Int.toNat (0)) (((s.bb - 0) + 1)))).bb <
        (vpackvs.St.set_size s (s.size.set (Int.toNat (0)) (((s.bb - 0) + 1)))).buf.length := h.bounds
  subst hrec
  simp only [ph8]
  simp only [chk_true s _ c1]
  simp only [chk_true _ _ c2]
  refine ⟨h.ub, h.oof, ?_, ?_, h.get (·.ret_value) (fun _ => rfl)⟩
  · simp only [vpackvs.St.set_ret, vpackvs.St.set_buf, vpackvs.St.set_size, h.bb, hz, Int.toNat_natCast]
    rw [List.set_append_right _ _ (Nat.le_refl _)]
    simp
  · simp only [vpackvs.St.set_ret, vpackvs.St.set_buf, vpackvs.St.set_size, h.bb, h.get (·.size) (fun _ => rfl),
      List.length_append, List.length_cons, List.length_nil]
    congr 1

/-- the record of the model, split the way the phases write it -/
theorem vpackvs_split (v : VH) : Format.vpackvs v =
    [] ++ encS16 v.interlace ++ encS32 v.nvert ++ enc16 v.ivsize ++ enc16 v.fields.length ++ fieldsPart v ++
      encStr16 v.name ++ encStr16 v.cls ++ enc16 v.extag ++ enc16 v.exref ++ encS16 v.version ++ encS16 v.more ++
      flagsPart v ++ encS16 v.version ++ encS16 v.more ++ [0] := by
  simp only [Format.vpackvs, fieldsPart, flagsPart, List.nil_append, List.append_assoc]

theorem init_regs (v : VH) (tpad ipad opad dpad rowpad : List Int) (rows : List (List Int)) (npad cpad fpad atpad arpad buf size : List Int) :
    Regs v rowpad (ph0 (init v tpad ipad opad dpad rowpad rows npad cpad fpad atpad arpad buf size)) :=
  ⟨rfl, rfl, rfl, rfl, ⟨_, rfl⟩, ⟨_, rfl⟩, ⟨_, rfl⟩, ⟨_, rfl⟩, ⟨_, rfl⟩, ⟨_, rfl⟩, ⟨_, rfl⟩, rfl, rfl, rfl, rfl, rfl, rfl,
    ⟨_, rfl⟩, ⟨_, rfl⟩, ⟨_, rfl⟩⟩

/-- **`vpackvs` as translated from vio.c writes the model's record** (technical form; `H4.Props.C07Fn` states it for callers) -/
theorem vpackvs_run (v : VH) (fuel : Nat) (tpad ipad opad dpad rowpad : List Int) (rows : List (List Int))
    (npad cpad fpad atpad arpad buf size : List Int)
    (hn : v.fields.length < 2147483648) (hnames : ∀ f ∈ v.fields, NameOK f.name) (hname : NameOK v.name) (hcls : NameOK v.cls)
    (hfl : v.flags < 4294967296) (hattr : v.flags % 2 = 1 → v.attrs.length < 2147483648)
    (hfuel : v.fields.length ≤ fuel) (hfuel2 : v.flags % 2 = 1 → v.attrs.length ≤ fuel)
    (hbuf : (Format.vpackvs v).length ≤ buf.length) (hsize : 0 < size.length) :
    let s := vpackvsC fuel v.interlace v.nvert (v.ivsize : Int) (v.fields.length : Int) (v.fields.map (·.type) ++ tpad)
      (ints (v.fields.map (·.isize)) ++ ipad) (ints (v.fields.map (·.off)) ++ opad) (ints (v.fields.map (·.order)) ++ dpad)
      (v.fields.map (fun f => bytesI f.name ++ 0 :: rowpad) ++ rows) (bytesI v.name ++ 0 :: npad) (bytesI v.cls ++ 0 :: cpad)
      (v.extag : Int) (v.exref : Int) v.version v.more (v.flags : Int) (v.attrs.length : Int) (v.attrs.map (·.findex) ++ fpad)
      (ints (v.attrs.map (·.atag)) ++ atpad) (ints (v.attrs.map (·.aref)) ++ arpad) buf size
    s.ub = false ∧ s.oof = false ∧
      s.buf = bytesI (Format.vpackvs v) ++ buf.drop (Format.vpackvs v).length ∧
      s.size = size.set 0 ((Format.vpackvs v).length : Int) ∧ s.ret = 0 := by
  intro s
  have hs : s = ph8 (ph7 (ph6 fuel (ph5 (ph4 (ph3 (ph2 fuel (ph1 (ph0
      (init v tpad ipad opad dpad rowpad rows npad cpad fpad atpad arpad buf size))))))))) :=
    vpackvs_phases _ _ _ _ _ _ _ _ _ _ _ _ _ _ _ _ _ _ _ _ _ _ _
  have hL := congrArg List.length (vpackvs_split v)
  simp only [List.length_append, List.length_nil, enc16_length, encS16_length, encS32_length, List.length_cons] at hL
  rw [hL] at hbuf
  have hR0 := init_regs v tpad ipad opad dpad rowpad rows npad cpad fpad atpad arpad buf size
  generalize hS0 : init v tpad ipad opad dpad rowpad rows npad cpad fpad atpad arpad buf size = S0 at hs hR0
  have a0 : At (ph0 S0) buf (ph0 S0) [] := by
    subst hS0
    exact ⟨rfl, ⟨buf[0], by simp only [ph0, init, List.nil_append, List.length_nil, Nat.zero_add]; rw [← List.drop_eq_getElem_cons (by omega)]; rfl⟩, rfl, rfl, rfl⟩
  have a1 := ph1_at a0 v rowpad hR0 hn (by simp only [List.length_nil]; omega)
  obtain ⟨F2, a2, hR2, s2, r2⟩ := ph2_at a1 v rowpad hR0 fuel hnames hfuel
    (by simp only [List.length_append, List.length_nil, bytesI_length, enc16_length, encS16_length, encS32_length]; omega)
  obtain ⟨np, en⟩ := hR2.vn
  have a3 : At F2 buf (ph3 (ph2 fuel (ph1 (ph0 S0)))) _ := pstr_at a2 (·.vs_vsname) (fun _ => rfl) v.name hname np en
    (by simp only [List.length_append, List.length_nil, bytesI_length, enc16_length, encS16_length, encS32_length]; omega)
  obtain ⟨cp, ec⟩ := hR2.vc
  have a4 : At F2 buf (ph4 (ph3 (ph2 fuel (ph1 (ph0 S0))))) _ := pstr_at a3 (·.vs_vsclass) (fun _ => rfl) v.cls hcls cp ec
    (by simp only [List.length_append, List.length_nil, bytesI_length, enc16_length, encS16_length, encS32_length]; omega)
  have a5 := ph5_at a4 v rowpad hR2
    (by simp only [List.length_append, List.length_nil, bytesI_length, enc16_length, encS16_length, encS32_length]; omega)
  obtain ⟨F6, a6, hR6, s6, r6⟩ := ph6_at a5 v rowpad hR2 fuel hfl (fun x => ⟨hattr x, hfuel2 x⟩)
    (by simp only [List.length_append, List.length_nil, bytesI_length, enc16_length, encS16_length, encS32_length]; omega)
  have a7 := ph7_at a6 v rowpad hR6
    (by simp only [List.length_append, List.length_nil, bytesI_length, enc16_length, encS16_length, encS32_length]; omega)
  obtain ⟨q1, q2, q3, q4, q5⟩ := ph8_at a7 (by rw [s6, s2]; subst hS0; exact hsize) (bytesI (Format.vpackvs v))
    (by rw [vpackvs_split v]; simp only [bytesI_append]; rfl)
  rw [hs]
  refine ⟨q1, q2, ?_, ?_, ?_⟩
  · rw [q3, bytesI_length]
  · rw [q4, s6, s2, bytesI_length]
    subst hS0
    rfl
  · rw [q5, r6, r2]; subst hS0; rfl

end H4.Lemmas.C07Fn
