import H4.Lemmas.ElemOps
import H4.Lemmas.ElemCoh
import H4.Lemmas.ElemLinkedOp
/-! `Hwrite` against the byte-array specification. -/
namespace H4.Elem
open H4.Gen.Hdf

/-- the statement proved for the helper functions a call is made of -/
def ResOK (w : World) (op : Op) (r : World × Res) : Prop :=
  WFW r.1 ∧ ∃ v', specStep (abs w) op r.2 = some v' ∧ v'.Eqv (abs r.1)

theorem coh_plainWriteF {f : File} (h : Coh f) (s o l p : Nat) (bs : Bytes) (grow : Bool) (hs : s < f.mem.length) :
    Coh (plainWriteF f s o l p bs grow) := by
  unfold plainWriteF
  cases grow with
  | false => simp only [Bool.false_eq_true, false_and, if_false]; exact coh_endOff (coh_pwrite h _ _) _
  | true =>
    simp only [if_true, true_and]
    by_cases c : p > l
    · rw [if_pos c]; exact coh_endOff (coh_pwrite (coh_ddSetExt (coh_pwrite h _ _) s _ hs) _ _) _
    · rw [if_neg c]; exact coh_endOff (coh_pwrite (coh_ddSetExt h s _ hs) _ _) _

/-- a user key names the slot it is registered in -/
theorem keyOf_of_hasKey {f : File} {j : Nat} {k : Nat × Nat} (hu : UserKey k) (hk : f.hasKey j k.1 k.2) : f.keyOf j = k := by
  unfold File.keyOf
  rw [hk.2.1, hk.2.2, baseTag_not_special _ hu.1]

/-- putting back what is already there -/
theorem abs_same_update (w : World) (fi : Nat) (hfi : fi < w.files.length) (h : Nat) (a : Acc) (ha : w.acc h = some a) :
    (abs w).Eqv (abs ((w.setFile fi (w.file fi)).setAcc h a)) := by
  refine ⟨?_, ?_, ?_⟩
  · intro j
    show (w.file j).present = (((w.setFile fi (w.file fi)).setAcc h a).file j).present
    rw [file_setAcc, file_setFile w fi j _ hfi]; split
    · rename_i e; rw [e]
    · rfl
  · intro j k _
    show (w.file j).elem k.1 k.2 = (((w.setFile fi (w.file fi)).setAcc h a).file j).elem k.1 k.2
    rw [file_setAcc, file_setFile w fi j _ hfi]; split
    · rename_i e; rw [e]
    · rfl
  · intro h'
    simp only [abs_hnd, acc_setAcc, acc_setFile]
    by_cases e : h' = h
    · simp only [e, if_true, ha, Option.map_some, file_setAcc]
      by_cases ef : a.file = fi
      · rw [ef, file_setFile_same w fi _ hfi]
      · rw [file_setFile_ne w fi _ _ ef]
    · simp only [e, if_false]
      cases w.acc h' with
      | none => rfl
      | some a'' =>
        simp only [Option.map_some, file_setAcc]
        by_cases ef : a''.file = fi
        · rw [ef, file_setFile_same w fi _ hfi]
        · rw [file_setFile_ne w fi _ _ ef]

/-- `Hwrite` on a contiguous element that has a length: inside the element, or extending it in place at the end of the
    file, or (non-appendable, beyond the end) refused -/
theorem hwritePlain_ok (w : World) (hw : WFW w) (h : Nat) (bs : Bytes) (hbs : bs ≠ []) (a : Acc)
    (ha : w.acc h = some a) (hsp : a.special = false) (hnew : a.newElem = false)
    (hnoprom : ¬ (a.appendable = true ∧ (bs.length : Int) + a.posn > ddLen ((w.file a.file).dd a.slot) ∧
      ddLen ((w.file a.file).dd a.slot) + ddOff ((w.file a.file).dd a.slot) ≠ (w.file a.file).endOff)) :
    ResOK w (.write h bs) (hwritePlain w h a (w.file a.file) bs) := by
  have hh := hw.handles h a ha
  have he := handle_elem w hw h a ha
  have hsp' : isSpecial ((w.file a.file).dd a.slot).tag = false := by rw [← hh.special_iff]; exact hsp
  have hfi := file_lt_of_live w a.file a.slot hh.live
  have hn : 1 ≤ bs.length := by cases bs with | nil => exact absurd rfl hbs | cons _ _ => simp
  cases hx : ((w.file a.file).dd a.slot).ext with
  | none =>
    have := hh.new_of_none hsp hx
    rw [hnew] at this; exact absurd this (by decide)
  | some e =>
    obtain ⟨o, l⟩ := e
    have hdl : ddLen ((w.file a.file).dd a.slot) = (l : Int) := by simp [ddLen, hx]
    have hdo : ddOff ((w.file a.file).dd a.slot) = (o : Int) := by simp [ddOff, hx]
    rw [hdl, hdo] at hnoprom
    unfold hwritePlain ResOK
    simp only [hdl, hdo]
    by_cases hfail : ((bs.length : Int) ≤ 0 ∨ (a.appendable = false ∧ (bs.length : Int) + a.posn > l))
    · -- overflow of a non-appendable element: FAIL, nothing changes
      rw [if_pos hfail]
      have hww : WFW ((w.setFile a.file (w.file a.file)).setAcc h a) :=
        hw.update a.file hfi (w.file a.file) (hw.files a.file) (hw.coh a.file) h a rfl
          ⟨hh.live, hh.user, hh.special_iff, hh.new_of_none, hh.special_new, hh.blk⟩ (fun _ _ _ _ _ => ⟨rfl, rfl, id⟩)
      exact ⟨hww, abs w, rfl, abs_same_update w a.file hfi h a ha⟩
    · rw [if_neg hfail, if_neg hnoprom]
      have hgrow_case : (¬ (a.appendable = true ∧ (bs.length : Int) + a.posn > l) ∧ a.posn + bs.length ≤ l) ∨
          ((a.appendable = true ∧ (bs.length : Int) + a.posn > l) ∧ a.posn + bs.length > l ∧ o + l = (w.file a.file).endOff) := by
        by_cases hg : a.appendable = true ∧ (bs.length : Int) + a.posn > l
        · right
          refine ⟨hg, by omega, ?_⟩
          by_cases heof : (l : Int) + o ≠ (w.file a.file).endOff
          · exact absurd ⟨hg.1, hg.2, heof⟩ hnoprom
          · omega
        · left
          refine ⟨hg, ?_⟩
          by_cases hap : a.appendable = true
          · have : ¬ ((bs.length : Int) + a.posn > l) := fun h2 => hg ⟨hap, h2⟩
            omega
          · have : ¬ ((bs.length : Int) + a.posn > l) := by
              intro h2; apply hfail; right
              exact ⟨by simpa using hap, h2⟩
            omega
      have hfeq : ({ ((if a.appendable = true ∧ (bs.length : Int) + a.posn > l then
              (if a.appendable = true ∧ (bs.length : Int) + a.posn > l ∧ (a.posn : Int) > l then
                (w.file a.file).pwrite ((o : Int).toNat + (l : Int).toNat) (zeros (a.posn - (l : Int).toNat)) else w.file a.file).ddSetExt a.slot ((o : Int).toNat, a.posn + bs.length)
            else (if a.appendable = true ∧ (bs.length : Int) + a.posn > l ∧ (a.posn : Int) > l then
                (w.file a.file).pwrite ((o : Int).toNat + (l : Int).toNat) (zeros (a.posn - (l : Int).toNat)) else w.file a.file)).pwrite ((o : Int).toNat + a.posn) bs) with
            endOff := max ((if a.appendable = true ∧ (bs.length : Int) + a.posn > l then
              (if a.appendable = true ∧ (bs.length : Int) + a.posn > l ∧ (a.posn : Int) > l then
                (w.file a.file).pwrite ((o : Int).toNat + (l : Int).toNat) (zeros (a.posn - (l : Int).toNat)) else w.file a.file).ddSetExt a.slot ((o : Int).toNat, a.posn + bs.length)
              else (if a.appendable = true ∧ (bs.length : Int) + a.posn > l ∧ (a.posn : Int) > l then
                (w.file a.file).pwrite ((o : Int).toNat + (l : Int).toNat) (zeros (a.posn - (l : Int).toNat)) else w.file a.file)).pwrite ((o : Int).toNat + a.posn) bs).endOff ((o : Int).toNat + a.posn + bs.length) } : File) =
          plainWriteF (w.file a.file) a.slot o l a.posn bs (decide (a.appendable = true ∧ (bs.length : Int) + a.posn > l)) := by
        simp only [plainWriteF, Int.toNat_natCast]
        by_cases hg : a.appendable = true ∧ (bs.length : Int) + a.posn > l
        · by_cases hp : a.posn > l
          · have hp' : (a.posn : Int) > l := by omega
            simp [hg, hp, hp']
          · have hp' : ¬ ((a.posn : Int) > l) := by omega
            simp [hg, hp, hp']
        · have hg' : ¬ (a.appendable = true ∧ (bs.length : Int) + a.posn > l ∧ (a.posn : Int) > l) := fun c => hg ⟨c.1, c.2.1⟩
          rw [if_neg hg, if_neg hg']
          simp [hg]
      rw [hfeq]
      have hPW := plainWrite_spec (w.file a.file) (hw.files a.file) a.slot o l a.posn bs
        (decide (a.appendable = true ∧ (bs.length : Int) + a.posn > l)) hh.live hsp' (keyOf_user_ne_linked hh.user) hx
        (by rcases hgrow_case with ⟨h1, h2⟩ | ⟨h1, h2, h3⟩
            · left; exact ⟨by simpa using h1, h2⟩
            · right; exact ⟨by simpa using h1, h2, h3⟩)
      have hC : Coh (plainWriteF (w.file a.file) a.slot o l a.posn bs (decide (a.appendable = true ∧ (bs.length : Int) + a.posn > l))) :=
        coh_plainWriteF (hw.coh a.file) _ _ _ _ _ _ (live_lt _ _ hh.live)
      generalize plainWriteF (w.file a.file) a.slot o l a.posn bs (decide (a.appendable = true ∧ (bs.length : Int) + a.posn > l)) = f' at hPW hC
      have hpres : f'.present = (w.file a.file).present := hPW.present
      have hshape : ∀ s', (w.file a.file).live s' → (f'.dd s').tag = ((w.file a.file).dd s').tag ∧
          (f'.dd s').ref = ((w.file a.file).dd s').ref ∧ ((f'.dd s').ext = none ↔ ((w.file a.file).dd s').ext = none) := by
        intro s' hl'
        by_cases e : s' = a.slot
        · subst e; rw [hPW.dd_s]; simp [hx]
        · rw [(hPW.others s' hl' e).1]; exact ⟨rfl, rfl, Iff.rfl⟩
      have hlive' : ∀ j, f'.live j ↔ (w.file a.file).live j := by
        intro j
        constructor
        · exact hPW.new_live j
        · intro hj; unfold File.live; rw [(hshape j hj).1]; exact hj
      have hkey' : f'.keyOf a.slot = (w.file a.file).keyOf a.slot := by
        unfold File.keyOf; rw [(hshape a.slot hh.live).1, (hshape a.slot hh.live).2.1]
      have hww : WFW ((w.setFile a.file f').setAcc h { a with posn := a.posn + bs.length }) := by
        apply hw.update a.file hfi f' hPW.wfe hC h { a with posn := a.posn + bs.length } rfl
        · refine ⟨(hlive' a.slot).mpr hh.live, by rw [hkey']; exact hh.user, ?_, ?_, hh.special_new, hh.blk⟩
          · show a.special = _; rw [(hshape a.slot hh.live).1]; exact hh.special_iff
          · intro _ hx'
            exfalso
            have : (f'.dd a.slot).ext = none := hx'
            rw [hPW.dd_s] at this; simp at this
        · intro h' a'' _ ha'' ef
          have := (hw.handles h' a'' ha'').live
          rw [ef] at this
          exact ⟨(hshape a''.slot this).1, (hshape a''.slot this).2.1, (hshape a''.slot this).2.2.mp⟩
      refine ⟨hww, ((abs w).setElem a.file ((w.file a.file).keyOf a.slot)
          (some (some (specWrite ((w.file a.file).bytesAt o l) a.posn bs)))).setHnd h
          (some { file := a.file, key := (w.file a.file).keyOf a.slot, pos := a.posn + bs.length }), ?_, ?_⟩
      rotate_left
      · have := abs_update hw a.file hfi f' hPW.wfe.toWFF h { a with posn := a.posn + bs.length } rfl
          ((w.file a.file).keyOf a.slot) (some (some (specWrite ((w.file a.file).bytesAt o l) a.posn bs))) hpres
          (by
            have := elem_keyOf f' hPW.wfe.toWFF a.slot ((hlive' a.slot).mpr hh.live)
            rw [hkey'] at this
            rw [this, hPW.bytes])
          (by
            intro k' hu hne
            apply elem_frame (hw.files a.file).toWFF hPW.wfe.toWFF
            · intro j
              by_cases hj : (w.file a.file).live j
              · exact hasKey_congr (hshape j hj).1 (hshape j hj).2.1
              · constructor
                · intro hk; exact absurd ((hlive' j).mp hk.1) hj
                · intro hk; exact absurd hk.1 hj
            · intro j hk
              by_cases e : j = a.slot
              · exfalso
                subst e
                exact hne (keyOf_of_hasKey hu hk).symm
              · exact (hPW.others j hk.1 e).2)
          (by
            intro h' a'' _ ha'' ef
            have := (hw.handles h' a'' ha'').live
            rw [ef] at this
            unfold File.keyOf
            rw [(hshape a''.slot this).1, (hshape a''.slot this).2.1])
        rw [hkey'] at this
        exact this
      · simp only [specStep, abs_hnd, ha, Option.map_some, he, slotBytes_plain _ _ hsp', hx]
        simp [hbs]

end H4.Elem

namespace H4.Elem
open H4.Gen.Hdf

/-- a user key is not registered on a `DFTAG_LINKED` DD -/
theorem user_not_linked {f : File} {j : Nat} {k : Nat × Nat} (hu : UserKey k) (hk : f.hasKey j k.1 k.2) :
    (f.dd j).tag ≠ DFTAG_LINKED := by
  intro e
  have := hk.2.1
  rw [e, baseTag_linked, baseTag_not_special _ hu.1] at this
  exact hu.2.1 this.symm

/-- `Hwrite` on a linked-block element -/
theorem hwriteLinked_ok (w : World) (hw : WFW w) (h : Nat) (bs : Bytes) (hbs : bs ≠ []) (a : Acc)
    (ha : w.acc h = some a) (hsp : a.special = true) :
    ResOK w (.write h bs) (hwriteLinked w h a (w.file a.file) bs) ∧
    (hwriteLinked w h a (w.file a.file) bs).2 = .num bs.length := by
  have hh := hw.handles h a ha
  have he := handle_elem w hw h a ha
  have hsp' : isSpecial ((w.file a.file).dd a.slot).tag = true := by rw [← hh.special_iff]; exact hsp
  have hfi := file_lt_of_live w a.file a.slot hh.live
  have hE := hw.files a.file
  obtain ⟨li, ho, hlen, hlink, hwl, hext, h6⟩ := hE.linked_ok a.slot hh.live hsp'
  obtain ⟨f', li', hr, W⟩ := hlpWrite_spec (w.file a.file) li hE.toWFF hwl a.slot a.posn bs hbs hh.live
    (hE.hdr_tag a.slot hh.live hsp') ho hlen hext h6
  have hkeyf' : a.key f' = (w.file a.file).keyOf a.slot := by
    rw [acc_key_eq]; exact keyOf_eq (W.dd_keep a.slot hh.live)
  unfold hwriteLinked ResOK
  rw [acc_key_eq, hlink]
  simp only [hr, hkeyf']
  refine ⟨?_, trivial⟩
  obtain ⟨hE', hfr⟩ := linkedWrite_wfe (w.file a.file) hE a.slot hh.live hsp' li ho hlen hlink hwl hext h6 a.posn bs f' li' W
  have hC : Coh (f'.setLink ((w.file a.file).keyOf a.slot) li') := by
    have := coh_hlpWrite (hw.coh a.file) li a.slot a.posn bs
    rw [hr] at this
    exact coh_setLink this _ _
  generalize hf'' : f'.setLink ((w.file a.file).keyOf a.slot) li' = f'' at hE' hfr hC
  have hdd : ∀ j, (w.file a.file).live j → f''.dd j = (w.file a.file).dd j := by
    intro j hj; rw [← hf'']; exact W.dd_keep j hj
  have hkey' : f''.keyOf a.slot = (w.file a.file).keyOf a.slot := keyOf_eq (hdd a.slot hh.live)
  have hww : WFW ((w.setFile a.file f'').setAcc h { a with posn := a.posn + bs.length }) := by
    apply hw.update a.file hfi f'' hE' hC h { a with posn := a.posn + bs.length } rfl
    · refine ⟨by unfold File.live; rw [hdd a.slot hh.live]; exact hh.live, by rw [hkey']; exact hh.user, ?_, ?_, hh.special_new, hh.blk⟩
      · show a.special = _; rw [hdd a.slot hh.live]; exact hh.special_iff
      · intro hf; rw [hsp] at hf; exact absurd hf (by decide)
    · intro h' a'' _ ha'' ef
      have := (hw.handles h' a'' ha'').live
      rw [ef] at this
      rw [hdd a''.slot this]; exact ⟨rfl, rfl, id⟩
  refine ⟨hww, ((abs w).setElem a.file ((w.file a.file).keyOf a.slot)
      (some (some (specWrite ((w.file a.file).linkedBytes li) a.posn bs)))).setHnd h
      (some { file := a.file, key := (w.file a.file).keyOf a.slot, pos := a.posn + bs.length }), ?_, ?_⟩
  · simp only [specStep, abs_hnd, ha, Option.map_some, he, slotBytes_special _ _ hsp', hlink]
    simp [hbs]
  · have := abs_update hw a.file hfi f'' hE'.toWFF h { a with posn := a.posn + bs.length } rfl
      ((w.file a.file).keyOf a.slot) (some (some (specWrite ((w.file a.file).linkedBytes li) a.posn bs)))
      (by rw [← hf'']; exact W.present)
      (by
        have h1 := elem_keyOf f'' hE'.toWFF a.slot (by unfold File.live; rw [hdd a.slot hh.live]; exact hh.live)
        rw [hkey'] at h1
        rw [h1, slotBytes_special _ _ (by rw [hdd a.slot hh.live]; exact hsp'), hkey', ← hf'', link_setLink_same]
        simp only [Option.map_some, setLink_linkedBytes]
        rw [linkedBytes_written hwl W])
      (by
        intro k' hu hne
        apply elem_frame hE.toWFF hE'.toWFF
        · intro j
          constructor
          · intro hk
            have hjl : (w.file a.file).live j := by
              rcases W.new_slots j (by rw [← hf''] at hk; exact hk.1) with h1 | h1
              · exact h1
              · exact absurd (by rw [← hf'']; exact h1) (user_not_linked hu hk)
            unfold File.hasKey File.live at *
            rw [← hdd j hjl]; exact hk
          · intro hk
            unfold File.hasKey File.live at *
            rw [hdd j hk.1]; exact hk
        · intro j hk
          have hjs : j ≠ a.slot := fun e => hne ((keyOf_of_hasKey hu (e ▸ hk)).symm)
          refine hfr j hk.1 hjs ?_
          rw [hk.2.1, baseTag_not_special _ hu.1]; exact hu.2.1)
      (by
        intro h' a'' _ ha'' ef
        have := (hw.handles h' a'' ha'').live
        rw [ef] at this
        exact keyOf_eq (hdd a''.slot this))
    rw [hkey'] at this
    exact this

end H4.Elem
