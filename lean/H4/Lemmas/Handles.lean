import H4.Handles
import H4.Lemmas.Atom
/-! Helper lemmas for `Props/C13Files.lean`: heaps, the registrations of the two atom groups, and the well-formedness invariant of
the file table. -/
namespace H4.Handles
open H4.Atom H4.Gen.Atom H4.Gen.Hdf H4.Gen.Macros

theorem countP_eraseP_find {α} (p q : α → Bool) (l : List α) (e : α) (h : l.find? p = some e) :
    (l.eraseP p).countP q + (if q e then 1 else 0) = l.countP q := by
  induction l with
  | nil => simp at h
  | cons a t ih =>
    by_cases hp : p a = true
    · simp only [List.find?_cons, hp, Option.some.injEq] at h
      subst h
      simp only [List.eraseP_cons, hp, cond_true, List.countP_cons]
    · have hp' : p a = false := by simpa using hp
      simp only [List.find?_cons, hp'] at h
      have := ih h
      simp only [List.eraseP_cons, hp', cond_false, List.countP_cons]
      omega

/-! ## heap facts -/

theorem getF_mem {w : World} {p : Nat} {r : FRec} (h : getF w p = some r) : (p, r) ∈ w.frecs := by
  unfold getF at h
  simp only [Option.map_eq_some_iff] at h
  obtain ⟨e, he, rfl⟩ := h
  have h1 := List.mem_of_find?_eq_some he
  have h2 := List.find?_some he
  simp only [beq_iff_eq] at h2
  obtain ⟨a, b⟩ := e
  simp only at h2
  subst h2; exact h1

theorem lookup_of_mem {α} (l : List (Nat × α)) (hk : (l.map (·.1)).Nodup) {p : Nat} {r : α} (h : (p, r) ∈ l) :
    (l.find? (fun e => e.1 == p)).map (·.2) = some r := by
  induction l with
  | nil => cases h
  | cons a t ih =>
    simp only [List.map_cons, List.nodup_cons] at hk
    rcases List.mem_cons.mp h with rfl | ht
    · simp
    · have : a.1 ≠ p := by
        intro heq; apply hk.1; rw [heq]; exact List.mem_map.mpr ⟨(p, r), ht, rfl⟩
      have hb : (a.1 == p) = false := by simpa using this
      simp only [List.find?_cons, hb]
      exact ih hk.2 ht

theorem getF_of_mem {w : World} (hk : (w.frecs.map (·.1)).Nodup) {p : Nat} {r : FRec} (h : (p, r) ∈ w.frecs) : getF w p = some r :=
  lookup_of_mem w.frecs hk h

@[simp] theorem setF_keys (w : World) (p : Nat) (r : FRec) : (setF w p r).frecs.map (·.1) = w.frecs.map (·.1) := by
  simp only [setF, List.map_map]
  apply List.map_congr_left
  intro e _
  simp only [Function.comp]
  split
  · rename_i h; simp at h; exact h.symm
  · rfl

theorem mem_setF {w : World} {p : Nat} {r : FRec} {e : Nat × FRec} (h : e ∈ (setF w p r).frecs) :
    (e = (p, r) ∧ ∃ r0, (p, r0) ∈ w.frecs) ∨ (e ∈ w.frecs ∧ e.1 ≠ p) := by
  simp only [setF, List.mem_map] at h
  obtain ⟨x, hx, rfl⟩ := h
  by_cases hxp : x.1 = p
  · left; simp only [hxp, beq_self_eq_true, if_true, true_and]; exact ⟨x.2, by rw [← hxp]; exact hx⟩
  · right; simp only [beq_iff_eq, hxp, if_false]; exact ⟨hx, hxp⟩

theorem mem_setF_of {w : World} {p : Nat} {r r0 : FRec} (h0 : (p, r0) ∈ w.frecs) : (p, r) ∈ (setF w p r).frecs := by
  simp only [setF, List.mem_map]
  exact ⟨(p, r0), h0, by simp⟩

theorem mem_setF_other {w : World} {p : Nat} {r : FRec} {e : Nat × FRec} (he : e ∈ w.frecs) (hne : e.1 ≠ p) : e ∈ (setF w p r).frecs := by
  simp only [setF, List.mem_map]
  exact ⟨e, he, by simp [hne]⟩

theorem getA_mem {w : World} {q : Nat} {a : ARec} (h : getA w q = some a) : (q, a) ∈ w.arecs := by
  unfold getA at h
  simp only [Option.map_eq_some_iff] at h
  obtain ⟨e, he, rfl⟩ := h
  have h1 := List.mem_of_find?_eq_some he
  have h2 := List.find?_some he
  simp only [beq_iff_eq] at h2
  obtain ⟨x, y⟩ := e
  simp only at h2
  subst h2; exact h1

theorem group_consts : FIDGROUP = 2 ∧ AIDGROUP = 1 := by decide

/-- with the typed resolvers a successful file lookup tells the group of the id, the registration and the record -/
theorem lookF_file {cfg : Cfg} (hk : cfg.kindChecked = true) {w : World} {id p : Nat} {r : FRec} (h : lookF cfg w id = .file p r) :
    ATOM_TO_GROUP id = FIDGROUP ∧ (∃ e, w.fidg.live.find? (fun e => e.id == id) = some e ∧ e.obj = p) ∧ getF w p = some r ∧ r.refcount ≠ 0 := by
  unfold lookF at h
  simp only [hk, Bool.true_and] at h
  split at h
  · cases h
  · rename_i hg
    have hg' : ATOM_TO_GROUP id = FIDGROUP := by simpa using hg
    split at h
    · cases h
    · rename_i hn
      split at h
      · rename_i r' hr
        split at h
        · cases h
        · rename_i hrc
          injection h with h1 h2
          subst h1; subst h2
          refine ⟨hg', ?_, hr, by simpa using hrc⟩
          unfold aObj grpOf at hn ⊢
          simp only [hg', if_true] at hn ⊢
          cases hf : List.find? (fun e => e.id == id) w.fidg.live with
          | none => simp [hf, NULL] at hn
          | some e => exact ⟨e, rfl, by simp⟩
      · split at h <;> cases h


/-- well-formedness of the file table (everything but the attach counters) -/
structure WF (w : World) : Prop where
  fkeys : (w.frecs.map (·.1)).Nodup
  akeys : (w.arecs.map (·.1)).Nodup
  fptr : ∀ e ∈ w.frecs, e.1 < w.nobj
  aptr : ∀ e ∈ w.arecs, e.1 < w.nobj
  fobj : ∀ i ∈ w.fidg.live, ∃ e ∈ w.frecs, e.1 = i.obj
  aobj : ∀ i ∈ w.aidg.live, ∃ a ∈ w.arecs, a.1 = i.obj
  refc : ∀ e ∈ w.frecs, e.2.refcount = w.fidg.live.countP (fun i => i.obj == e.1) ∧ 1 ≤ e.2.refcount
  aone : ∀ a ∈ w.arecs, w.aidg.live.countP (fun i => i.obj == a.1) = 1
  paths : (w.frecs.map (·.2.path)).Nodup

/-- the use count of DDGROUP is not part of the invariant -/
theorem dd_wf (w : World) (n : Nat) (h : WF w) : WF (setDd w n) :=
  ⟨h.fkeys, h.akeys, h.fptr, h.aptr, h.fobj, h.aobj, h.refc, h.aone, h.paths⟩

theorem setF_paths (w : World) (p : Nat) (r r0 : FRec) (hk : (w.frecs.map (·.1)).Nodup) (h0 : (p, r0) ∈ w.frecs) (hp : r.path = r0.path) :
    (setF w p r).frecs.map (·.2.path) = w.frecs.map (·.2.path) := by
  simp only [setF, List.map_map]
  apply List.map_congr_left
  intro e he
  simp only [Function.comp]
  split
  · rename_i h
    have h1 : e.1 = p := by simpa using h
    have : getF w p = some e.2 := getF_of_mem hk (by rw [← h1]; exact he)
    rw [getF_of_mem hk h0] at this
    injection this with this
    simp only [hp, this]
  · rfl

@[simp] theorem setF_fidg (w : World) (p : Nat) (r : FRec) : (setF w p r).fidg = w.fidg := rfl
@[simp] theorem setF_aidg (w : World) (p : Nat) (r : FRec) : (setF w p r).aidg = w.aidg := rfl
@[simp] theorem setF_arecs (w : World) (p : Nat) (r : FRec) : (setF w p r).arecs = w.arecs := rfl
@[simp] theorem setF_nobj (w : World) (p : Nat) (r : FRec) : (setF w p r).nobj = w.nobj := rfl
@[simp] theorem setF_leaked (w : World) (p : Nat) (r : FRec) : (setF w p r).leaked = w.leaked := rfl

/-- `findRec` finds nothing only if no record has the path (every record has a live file id) -/
theorem findRec_none {w : World} (h : WF w) {path : Nat} (hn : findRec w path = none) : ∀ e ∈ w.frecs, e.2.path ≠ path := by
  intro e he hp
  have hc := (h.refc e he)
  have hpos : 0 < w.fidg.live.countP (fun i => i.obj == e.1) := by omega
  obtain ⟨i, hi, hio⟩ := List.countP_pos_iff.mp hpos
  unfold findRec at hn
  simp only [Option.map_eq_none_iff] at hn
  have := List.find?_eq_none.mp hn i hi
  have hio' : i.obj = e.1 := by simpa using hio
  have hg : getF w i.obj = some e.2 := by rw [hio']; exact getF_of_mem h.fkeys (by cases e; exact he)
  simp [hg, hp] at this

theorem hopen_wf (w : World) (path acc : Nat) (osOk : Bool) (h : WF w) : WF (hopen w path acc osOk).1 := by
  unfold hopen
  split
  · exact h
  · split
    · rename_i p hp
      split
      · rename_i r hr
        split
        · exact h
        · -- one more reference to the record p
          have hmem := getF_mem hr
          have hkeys := setF_keys w p { r with refcount := r.refcount + 1, access := reopenAccess r acc }
          refine ⟨?_, h.akeys, ?_, h.aptr, ?_, h.aobj, ?_, h.aone, ?_⟩
          · show ((setF w p _).frecs.map (·.1)).Nodup
            rw [hkeys]; exact h.fkeys
          · intro e he
            rcases mem_setF he with ⟨rfl, _⟩ | ⟨he', _⟩
            · exact h.fptr (p, r) hmem
            · exact h.fptr _ he'
          · intro i hi
            simp only [regF, List.mem_cons] at hi
            rcases hi with rfl | hi
            · exact ⟨(p, _), mem_setF_of hmem, rfl⟩
            · obtain ⟨e, he, heq⟩ := h.fobj i hi
              by_cases hep : e.1 = p
              · exact ⟨(p, _), mem_setF_of hmem, by rw [← heq, hep]⟩
              · exact ⟨e, mem_setF_other he hep, heq⟩
          · intro e he
            simp only [regF, List.countP_cons]
            rcases mem_setF he with ⟨rfl, _⟩ | ⟨he', hne⟩
            · have := h.refc (p, r) hmem
              simp only [beq_self_eq_true, if_true, setF_fidg]
              simp only [] at this
              constructor <;> omega
            · have := h.refc _ he'
              have hb : (p == e.1) = false := by simpa using (Ne.symm hne)
              simp only [hb, Bool.false_eq_true, if_false, Nat.add_zero, setF_fidg]
              exact this
          · show ((setF w p _).frecs.map (·.2.path)).Nodup
            rw [setF_paths w p { r with refcount := r.refcount + 1, access := reopenAccess r acc } r h.fkeys hmem rfl]; exact h.paths
      · exact h
    · rename_i hnone
      split
      · exact h
      · -- a new record at the fresh pointer
        apply dd_wf
        have hfresh : ∀ e ∈ w.frecs, e.1 ≠ w.nobj := fun e he => Nat.ne_of_lt (h.fptr e he)
        have hnolive : w.fidg.live.countP (fun i => i.obj == w.nobj) = 0 := by
          rw [List.countP_eq_zero]
          intro i hi
          obtain ⟨e, he, heq⟩ := h.fobj i hi
          have := hfresh e he
          simp only [beq_iff_eq]; rw [← heq]; exact this
        refine ⟨?_, h.akeys, ?_, ?_, ?_, h.aobj, ?_, h.aone, ?_⟩
        · simp only [regF, List.map_append, List.map_cons, List.map_nil]
          rw [List.nodup_append]
          refine ⟨h.fkeys, by simp, ?_⟩
          intro a ha b hb
          simp only [List.mem_singleton] at hb
          subst hb
          obtain ⟨e, he, rfl⟩ := List.mem_map.mp ha
          exact hfresh e he
        · intro e he
          simp only [regF, List.mem_append, List.mem_singleton] at he
          rcases he with he | rfl
          · have := h.fptr e he; simp only [regF]; omega
          · simp [regF]
        · intro e he
          have := h.aptr e he
          simp only [regF]; omega
        · intro i hi
          simp only [regF, List.mem_cons] at hi
          rcases hi with rfl | hi
          · exact ⟨(w.nobj, ⟨path, if acc == DFACC_CREATE then DFACC_ALL else acc ||| DFACC_READ, 1, 0⟩), by simp [regF], rfl⟩
          · obtain ⟨e, he, heq⟩ := h.fobj i hi
            exact ⟨e, by simp [regF, he], heq⟩
        · intro e he
          simp only [regF, List.mem_append, List.mem_singleton] at he
          simp only [regF, List.countP_cons]
          rcases he with he | rfl
          · have hb : (w.nobj == e.1) = false := by simpa using (Ne.symm (hfresh e he))
            simp only [hb, Bool.false_eq_true, if_false, Nat.add_zero]
            exact h.refc e he
          · simp [hnolive]
        · simp only [regF, List.map_append, List.map_cons, List.map_nil]
          rw [List.nodup_append]
          refine ⟨h.paths, by simp, ?_⟩
          intro a ha b hb
          simp only [List.mem_singleton] at hb
          subst hb
          obtain ⟨e, he, rfl⟩ := List.mem_map.mp ha
          exact findRec_none h hnone e he


theorem init_wf : WF World.init := by
  refine ⟨by simp [World.init], by simp [World.init], ?_, ?_, ?_, ?_, ?_, ?_, by simp [World.init]⟩ <;> intro x hx <;> simp [World.init] at hx

/-- `HAremove_atom` of an id of FIDGROUP -/
theorem aRem_fid (w : World) (id : Nat) (hg : ATOM_TO_GROUP id = FIDGROUP) :
    (aRem w id).fidg.live = w.fidg.live.eraseP (fun e => e.id == id) ∧ (aRem w id).aidg = w.aidg ∧ (aRem w id).frecs = w.frecs ∧
    (aRem w id).arecs = w.arecs ∧ (aRem w id).nobj = w.nobj ∧ (aRem w id).leaked = w.leaked := by
  unfold aRem
  simp [hg]

theorem aRem_aid (w : World) (id : Nat) (hg : ATOM_TO_GROUP id = AIDGROUP) :
    (aRem w id).aidg.live = w.aidg.live.eraseP (fun e => e.id == id) ∧ (aRem w id).fidg = w.fidg ∧ (aRem w id).frecs = w.frecs ∧
    (aRem w id).arecs = w.arecs ∧ (aRem w id).nobj = w.nobj ∧ (aRem w id).leaked = w.leaked := by
  unfold aRem
  have : AIDGROUP ≠ FIDGROUP := by decide
  simp [hg, this]

@[simp] theorem delF_fidg (w : World) (p : Nat) : (delF w p).fidg = w.fidg := rfl
@[simp] theorem delF_aidg (w : World) (p : Nat) : (delF w p).aidg = w.aidg := rfl
@[simp] theorem delF_arecs (w : World) (p : Nat) : (delF w p).arecs = w.arecs := rfl
@[simp] theorem delF_nobj (w : World) (p : Nat) : (delF w p).nobj = w.nobj := rfl
@[simp] theorem delF_leaked (w : World) (p : Nat) : (delF w p).leaked = w.leaked := rfl
@[simp] theorem delA_fidg (w : World) (p : Nat) : (delA w p).fidg = w.fidg := rfl
@[simp] theorem delA_aidg (w : World) (p : Nat) : (delA w p).aidg = w.aidg := rfl
@[simp] theorem delA_frecs (w : World) (p : Nat) : (delA w p).frecs = w.frecs := rfl
@[simp] theorem delA_nobj (w : World) (p : Nat) : (delA w p).nobj = w.nobj := rfl
@[simp] theorem delA_leaked (w : World) (p : Nat) : (delA w p).leaked = w.leaked := rfl

theorem mem_delF {w : World} {p : Nat} {e : Nat × FRec} : e ∈ (delF w p).frecs ↔ e ∈ w.frecs ∧ e.1 ≠ p := by
  simp [delF]

theorem hcloseRec_wf (w : World) (id p : Nat) (r : FRec) (h : WF w) (hg : ATOM_TO_GROUP id = FIDGROUP)
    (e0 : Info) (hfind : w.fidg.live.find? (fun e => e.id == id) = some e0) (hobj : e0.obj = p) (hget : getF w p = some r) :
    WF (hcloseRec w id p r).1 := by
  unfold hcloseRec
  have hmem := getF_mem hget
  have hcnt (q : Nat) := countP_eraseP_find (fun e : Info => e.id == id) (fun i : Info => i.obj == q) w.fidg.live e0 hfind
  split
  · rename_i h1
    split
    · exact h
    · -- last reference: the record goes away
      apply dd_wf
      obtain ⟨r1, r2, r3, r4, r5, r6⟩ := aRem_fid (delF w p) id hg
      simp only [delF_fidg, delF_aidg, delF_arecs, delF_nobj, delF_leaked] at r1 r2 r4 r5 r6
      have hr1 : r.refcount = 1 := by simpa using h1
      have hp0 : (w.fidg.live.eraseP (fun e => e.id == id)).countP (fun i => i.obj == p) = 0 := by
        have := hcnt p
        have h2 := (h.refc (p, r) hmem).1
        simp only [hobj, beq_self_eq_true, if_true] at this
        simp only [] at h2
        omega
      refine ⟨?_, ?_, ?_, ?_, ?_, ?_, ?_, ?_, ?_⟩
      · rw [r3]; exact (h.fkeys.sublist (List.Sublist.map _ List.filter_sublist))
      · rw [r4]; exact h.akeys
      · intro e he; rw [r3] at he; rw [r5]; exact h.fptr e (mem_delF.mp he).1
      · intro e he; rw [r4] at he; rw [r5]; exact h.aptr e he
      · intro i hi
        rw [r1] at hi
        have hi' : i ∈ w.fidg.live := List.mem_of_mem_eraseP hi
        obtain ⟨e, he, heq⟩ := h.fobj i hi'
        refine ⟨e, ?_, heq⟩
        rw [r3]; refine mem_delF.mpr ⟨he, ?_⟩
        intro hep
        have : 0 < (w.fidg.live.eraseP (fun e => e.id == id)).countP (fun i => i.obj == p) :=
          List.countP_pos_iff.mpr ⟨i, hi, by simp [← heq, hep]⟩
        omega
      · intro i hi; rw [r2] at hi; rw [r4]; exact h.aobj i hi
      · intro e he
        rw [r3] at he
        obtain ⟨he', hne⟩ := mem_delF.mp he
        have := hcnt e.1
        have hb : (e0.obj == e.1) = false := by rw [hobj]; simpa using (Ne.symm hne)
        simp only [hb, Bool.false_eq_true, if_false, Nat.add_zero] at this
        rw [r1, this]; exact h.refc e he'
      · intro a ha; rw [r4] at ha; rw [r2]; exact h.aone a ha
      · rw [r3]; exact (h.paths.sublist (List.Sublist.map _ List.filter_sublist))
  · -- other references remain
    rename_i h1
    obtain ⟨r1, r2, r3, r4, r5, r6⟩ := aRem_fid (setF w p { r with refcount := r.refcount - 1 }) id hg
    simp only [setF_fidg, setF_aidg, setF_arecs, setF_nobj, setF_leaked] at r1 r2 r4 r5 r6
    have hr1 : r.refcount ≠ 1 := by simpa using h1
    refine ⟨?_, ?_, ?_, ?_, ?_, ?_, ?_, ?_, ?_⟩
    · rw [r3, setF_keys]; exact h.fkeys
    · rw [r4]; exact h.akeys
    · intro e he; rw [r3] at he; rw [r5]
      rcases mem_setF he with ⟨rfl, _⟩ | ⟨he', _⟩
      · exact h.fptr (p, r) hmem
      · exact h.fptr e he'
    · intro e he; rw [r4] at he; rw [r5]; exact h.aptr e he
    · intro i hi
      rw [r1] at hi
      obtain ⟨e, he, heq⟩ := h.fobj i (List.mem_of_mem_eraseP hi)
      rw [r3]
      by_cases hep : e.1 = p
      · exact ⟨(p, _), mem_setF_of hmem, by rw [← heq, hep]⟩
      · exact ⟨e, mem_setF_other he hep, heq⟩
    · intro i hi; rw [r2] at hi; rw [r4]; exact h.aobj i hi
    · intro e he
      rw [r3] at he
      rw [r1]
      rcases mem_setF he with ⟨rfl, _⟩ | ⟨he', hne⟩
      · have := hcnt p
        have h2 := h.refc (p, r) hmem
        simp only [hobj, beq_self_eq_true, if_true] at this
        simp only [setF_fidg] at this ⊢
        simp only [] at h2 ⊢
        constructor <;> omega
      · have := hcnt e.1
        have hb : (e0.obj == e.1) = false := by rw [hobj]; simpa using (Ne.symm hne)
        simp only [hb, Bool.false_eq_true, if_false, Nat.add_zero, setF_fidg] at this ⊢
        rw [this]; exact h.refc e he'
    · intro a ha; rw [r4] at ha; rw [r2]; exact h.aone a ha
    · rw [r3, setF_paths w p { r with refcount := r.refcount - 1 } r h.fkeys hmem rfl]; exact h.paths



theorem hclose_wf (cfg : Cfg) (hk : cfg.kindChecked = true) (w : World) (id : Nat) (h : WF w) : WF (hclose cfg w id).1 := by
  unfold hclose
  split
  · exact h
  · exact h
  · rename_i p r hl
    obtain ⟨hg, ⟨e0, hfind, hobj⟩, hget, _⟩ := lookF_file hk hl
    split
    · exact h
    · exact hcloseRec_wf w id p r h hg e0 hfind hobj hget

theorem lookA_acc {cfg : Cfg} (hk : cfg.kindChecked = true) {w : World} {id q : Nat} {a : ARec} (h : lookA cfg w id = .acc q a) :
    ATOM_TO_GROUP id = AIDGROUP ∧ (∃ e, w.aidg.live.find? (fun e => e.id == id) = some e ∧ e.obj = q) ∧ getA w q = some a := by
  unfold lookA at h
  simp only [hk, Bool.true_and] at h
  split at h
  · cases h
  · rename_i hg
    have hg' : ATOM_TO_GROUP id = AIDGROUP := by simpa using hg
    split at h
    · cases h
    · rename_i hn
      split at h
      · rename_i a' ha
        injection h with h1 h2
        subst h1; subst h2
        refine ⟨hg', ?_, ha⟩
        unfold aObj grpOf at hn ⊢
        have hne : AIDGROUP ≠ FIDGROUP := by decide
        simp only [hg', hne, if_false, if_true] at hn ⊢
        cases hf : List.find? (fun e => e.id == id) w.aidg.live with
        | none => simp [hf, NULL] at hn
        | some e => exact ⟨e, rfl, by simp⟩
      · split at h <;> cases h

theorem mem_delA {w : World} {q : Nat} {e : Nat × ARec} : e ∈ (delA w q).arecs ↔ e ∈ w.arecs ∧ e.1 ≠ q := by
  simp [delA]

theorem startAccess_wf (cfg : Cfg) (hk : cfg.kindChecked = true) (w : World) (id : Nat) (fnd wr : Bool) (h : WF w) :
    WF (startAccess cfg w id fnd wr).1 := by
  unfold startAccess
  split
  · exact h
  · exact h
  · rename_i p r hl
    obtain ⟨hg, _, hget, hrc⟩ := lookF_file hk hl
    have hmem := getF_mem hget
    split
    · exact h
    · split
      · exact h
      · have hfreshA : ∀ e ∈ w.arecs, e.1 ≠ w.nobj := fun e he => Nat.ne_of_lt (h.aptr e he)
        have hnolive : w.aidg.live.countP (fun i => i.obj == w.nobj) = 0 := by
          rw [List.countP_eq_zero]
          intro i hi
          obtain ⟨e, he, heq⟩ := h.aobj i hi
          have := hfreshA e he
          simp only [beq_iff_eq]; rw [← heq]; exact this
        refine ⟨?_, ?_, ?_, ?_, ?_, ?_, ?_, ?_, ?_⟩
        · simp only [regA, setF_keys]; exact h.fkeys
        · simp only [regA, setF_arecs, List.map_append, List.map_cons, List.map_nil]
          rw [List.nodup_append]
          refine ⟨h.akeys, by simp, ?_⟩
          intro a ha b hb
          simp only [List.mem_singleton] at hb
          subst hb
          obtain ⟨e, he, rfl⟩ := List.mem_map.mp ha
          exact hfreshA e he
        · intro e he
          simp only [regA] at he ⊢
          rcases mem_setF he with ⟨rfl, _⟩ | ⟨he', _⟩
          · have := h.fptr (p, r) hmem; simp only [] at this ⊢; omega
          · have := h.fptr e he'; omega
        · intro e he
          simp only [regA, setF_arecs, List.mem_append, List.mem_singleton] at he ⊢
          rcases he with he | rfl
          · have := h.aptr e he; omega
          · simp
        · intro i hi
          simp only [regA, setF_fidg] at hi ⊢
          obtain ⟨e, he, heq⟩ := h.fobj i hi
          by_cases hep : e.1 = p
          · exact ⟨(p, _), mem_setF_of hmem, by rw [← heq, hep]⟩
          · exact ⟨e, mem_setF_other he hep, heq⟩
        · intro i hi
          simp only [regA, setF_aidg, List.mem_cons] at hi
          simp only [regA, setF_arecs]
          rcases hi with rfl | hi
          · exact ⟨(w.nobj, ⟨id, p⟩), by simp, rfl⟩
          · obtain ⟨e, he, heq⟩ := h.aobj i hi
            exact ⟨e, by simp [he], heq⟩
        · intro e he
          simp only [regA, setF_fidg] at he ⊢
          rcases mem_setF he with ⟨rfl, _⟩ | ⟨he', _⟩
          · exact h.refc (p, r) hmem
          · exact h.refc e he'
        · intro a ha
          simp only [regA, setF_arecs, setF_aidg, List.mem_append, List.mem_singleton, List.countP_cons] at ha ⊢
          rcases ha with ha | rfl
          · have hb : (w.nobj == a.1) = false := by simpa using (Ne.symm (hfreshA a ha))
            simp only [hb, Bool.false_eq_true, if_false, Nat.add_zero]
            exact h.aone a ha
          · simp [hnolive]
        · simp only [regA]
          rw [setF_paths w p { r with attach := r.attach + 1 } r h.fkeys hmem rfl]; exact h.paths


/-- the world after `HAremove_atom(aid)` and the release of its access record -/
theorem endAccess_mid_wf (w : World) (id q : Nat) (a : ARec) (h : WF w) (hg : ATOM_TO_GROUP id = AIDGROUP)
    (e0 : Info) (hfind : w.aidg.live.find? (fun e => e.id == id) = some e0) (hobj : e0.obj = q) (hget : getA w q = some a) :
    WF (delA (aRem w id) q) := by
  obtain ⟨r1, r2, r3, r4, r5, r6⟩ := aRem_aid w id hg
  have hmem := getA_mem hget
  have hcnt (x : Nat) := countP_eraseP_find (fun e : Info => e.id == id) (fun i : Info => i.obj == x) w.aidg.live e0 hfind
  have hq0 : (w.aidg.live.eraseP (fun e => e.id == id)).countP (fun i => i.obj == q) = 0 := by
    have := hcnt q
    have h2 := h.aone (q, a) hmem
    simp only [hobj, beq_self_eq_true, if_true] at this
    simp only [] at h2
    omega
  refine ⟨?_, ?_, ?_, ?_, ?_, ?_, ?_, ?_, ?_⟩
  · simp only [delA_frecs, r3]; exact h.fkeys
  · simp only [delA, r4]; exact (h.akeys.sublist (List.Sublist.map _ List.filter_sublist))
  · intro e he; simp only [delA_frecs, r3] at he; simp only [delA_nobj, r5]; exact h.fptr e he
  · intro e he
    have := (mem_delA.mp he).1
    rw [r4] at this
    simp only [delA_nobj, r5]; exact h.aptr e this
  · intro i hi; simp only [delA_fidg, r2] at hi; simp only [delA_frecs, r3]; exact h.fobj i hi
  · intro i hi
    simp only [delA_aidg, r1] at hi
    obtain ⟨e, he, heq⟩ := h.aobj i (List.mem_of_mem_eraseP hi)
    refine ⟨e, mem_delA.mpr ⟨by rw [r4]; exact he, ?_⟩, heq⟩
    intro heq2
    have : 0 < (w.aidg.live.eraseP (fun e => e.id == id)).countP (fun i => i.obj == q) :=
      List.countP_pos_iff.mpr ⟨i, hi, by simp [← heq, heq2]⟩
    omega
  · intro e he; simp only [delA_frecs, r3] at he; simp only [delA_fidg, r2]; exact h.refc e he
  · intro x hx
    obtain ⟨hx', hne⟩ := mem_delA.mp hx
    rw [r4] at hx'
    simp only [delA_aidg, r1]
    have := hcnt x.1
    have hb : (e0.obj == x.1) = false := by rw [hobj]; simpa using (Ne.symm hne)
    simp only [hb, Bool.false_eq_true, if_false, Nat.add_zero] at this
    rw [this]; exact h.aone x hx'
  · simp only [delA_frecs, r3]; exact h.paths

/-- changing only the attach counter of a record keeps the invariant -/
theorem setF_attach_wf (w : World) (p : Nat) (r : FRec) (n : Nat) (h : WF w) (hget : getF w p = some r) :
    WF (setF w p { r with attach := n }) := by
  have hmem := getF_mem hget
  refine ⟨?_, h.akeys, ?_, h.aptr, ?_, h.aobj, ?_, h.aone, ?_⟩
  · rw [setF_keys]; exact h.fkeys
  · intro e he
    rcases mem_setF he with ⟨rfl, _⟩ | ⟨he', _⟩
    · exact h.fptr (p, r) hmem
    · exact h.fptr e he'
  · intro i hi
    obtain ⟨e, he, heq⟩ := h.fobj i hi
    by_cases hep : e.1 = p
    · exact ⟨(p, _), mem_setF_of hmem, by rw [← heq, hep]⟩
    · exact ⟨e, mem_setF_other he hep, heq⟩
  · intro e he
    rcases mem_setF he with ⟨rfl, _⟩ | ⟨he', _⟩
    · exact h.refc (p, r) hmem
    · exact h.refc e he'
  · rw [setF_paths w p { r with attach := n } r h.fkeys hmem rfl]; exact h.paths

theorem leak_wf (w : World) (l : List Nat) (h : WF w) : WF { w with leaked := l } :=
  ⟨h.fkeys, h.akeys, h.fptr, h.aptr, h.fobj, h.aobj, h.refc, h.aone, h.paths⟩

theorem endAccess_wf (cfg : Cfg) (hk : cfg.kindChecked = true) (w : World) (id : Nat) (h : WF w) : WF (endAccess cfg w id).1 := by
  unfold endAccess
  split
  · exact h
  · exact h
  · rename_i q a hl
    obtain ⟨hg, ⟨e0, hfind, hobj⟩, hget⟩ := lookA_acc hk hl
    have hmid := endAccess_mid_wf w id q a h hg e0 hfind hobj hget
    split
    · rename_i p r hlf
      obtain ⟨_, _, hgetF, _⟩ := lookF_file hk hlf
      exact setF_attach_wf _ p r _ hmid hgetF
    · exact leak_wf _ _ hmid

theorem nextRead_state' (cfg : Cfg) (w : World) (id : Nat) (f : Bool) : (nextRead cfg w id f).1 = w := by
  unfold nextRead; repeat' split
  all_goals rfl

theorem hopenBad_wf (w : World) (path acc : Nat) (st : OpenStage) (h : WF w) : WF (hopenBad w path acc st).1 := by
  unfold hopenBad
  repeat' split
  all_goals first
    | exact h
    | exact hopen_wf w path acc _ h
    | exact dd_wf _ _ h

theorem step_wf (cfg : Cfg) (hk : cfg.kindChecked = true) (w : World) (op : Op) (h : WF w) : WF (step cfg w op).1 := by
  cases op with
  | nextread id f => simp only [step, nextRead_state']; exact h
  | hopen p a o => exact hopen_wf w p a o h
  | hopenbad p a st => exact hopenBad_wf w p a st h
  | hclose id => exact hclose_wf cfg hk w id h
  | startaccess id f wr => exact startAccess_wf cfg hk w id f wr h
  | endaccess id => exact endAccess_wf cfg hk w id h
  | usefid id => exact h
  | useaid id => exact h

theorem run_wf (cfg : Cfg) (hk : cfg.kindChecked = true) (w : World) (ops : List Op) (h : WF w) : WF (run cfg w ops) := by
  induction ops generalizing w with
  | nil => exact h
  | cons op ops ih => exact ih _ (step_wf cfg hk w op h)


/-- second part of the invariant: the attach counters.  `ARec.file` and `leaked` are ghosts. -/
structure WFA (w : World) : Prop where
  att : ∀ e ∈ w.frecs, e.2.attach = w.arecs.countP (fun a => a.2.file == e.1) + w.leaked.countP (fun x => x == e.1)
  afile : ∀ a ∈ w.arecs, ∃ e ∈ w.frecs, e.1 = a.2.file
  lfile : ∀ x ∈ w.leaked, ∃ e ∈ w.frecs, e.1 = x
  issued : ∀ a ∈ w.arecs, ∃ k, k < w.fidg.nextid ∧ a.2.fileId = MAKE_ATOM FIDGROUP k
  fissued : ∀ i ∈ w.fidg.live, ∃ k, k < w.fidg.nextid ∧ i.id = MAKE_ATOM FIDGROUP k
  fnodup : w.fidg.live.Pairwise (fun a b => a.id ≠ b.id)
  link : ∀ a ∈ w.arecs, ∀ i ∈ w.fidg.live, i.id = a.2.fileId → i.obj = a.2.file

theorem dd_wfa (w : World) (n : Nat) (h : WFA w) : WFA (setDd w n) :=
  ⟨h.att, h.afile, h.lfile, h.issued, h.fissued, h.fnodup, h.link⟩

theorem init_wfa : WFA World.init := by
  refine ⟨?_, ?_, ?_, ?_, ?_, by simp [World.init], ?_⟩ <;> intro x hx <;> simp [World.init] at hx

theorem fid16 : FIDGROUP < 16 := by decide

/-- a fresh file id differs from every id issued before (no wrap-around of the 28-bit counter) -/
theorem fidNew_ne {w : World} (hs : w.fidg.nextid < 2 ^ 28) {x : Nat} (hx : ∃ k, k < w.fidg.nextid ∧ x = MAKE_ATOM FIDGROUP k) :
    fidNew w ≠ x := by
  obtain ⟨k, hk, rfl⟩ := hx
  intro heq
  have := MAKE_ATOM_inj FIDGROUP w.fidg.nextid k fid16 hs (by omega) heq
  omega

theorem regF_wfa (w : World) (p : Nat) (hs : w.fidg.nextid < 2 ^ 28) (h : WFA w) (hp : ∃ e ∈ w.frecs, e.1 = p) : WFA (regF w p) := by
  refine ⟨h.att, h.afile, h.lfile, ?_, ?_, ?_, ?_⟩
  · intro a ha
    obtain ⟨k, hk, he⟩ := h.issued a ha
    exact ⟨k, by simp only [regF]; omega, he⟩
  · intro i hi
    simp only [regF, List.mem_cons] at hi
    rcases hi with rfl | hi
    · exact ⟨w.fidg.nextid, by simp [regF], rfl⟩
    · obtain ⟨k, hk, he⟩ := h.fissued i hi
      exact ⟨k, by simp only [regF]; omega, he⟩
  · simp only [regF, List.pairwise_cons]
    refine ⟨?_, h.fnodup⟩
    intro i hi
    exact fidNew_ne hs (h.fissued i hi)
  · intro a ha i hi hid
    simp only [regF, List.mem_cons] at hi
    rcases hi with rfl | hi
    · exact absurd hid (fidNew_ne hs (h.issued a ha))
    · exact h.link a ha i hi hid

/-- a change of a record that keeps its attach counter -/
theorem setF_same_attach_wfa (w : World) (p : Nat) (r r' : FRec) (h : WFA w) (hmem : (p, r) ∈ w.frecs) (hat : r'.attach = r.attach) :
    WFA (setF w p r') := by
  refine ⟨?_, ?_, ?_, h.issued, h.fissued, h.fnodup, h.link⟩
  · intro e he
    rcases mem_setF he with ⟨rfl, _⟩ | ⟨he', _⟩
    · simp only [setF_arecs, setF_leaked, hat]; exact h.att (p, r) hmem
    · exact h.att e he'
  · intro a ha
    obtain ⟨e, he, heq⟩ := h.afile a ha
    by_cases hep : e.1 = p
    · exact ⟨(p, r'), mem_setF_of hmem, by rw [← heq, hep]⟩
    · exact ⟨e, mem_setF_other he hep, heq⟩
  · intro x hx
    obtain ⟨e, he, heq⟩ := h.lfile x hx
    by_cases hep : e.1 = p
    · exact ⟨(p, r'), mem_setF_of hmem, by rw [← heq, hep]⟩
    · exact ⟨e, mem_setF_other he hep, heq⟩

theorem hopen_wfa (w : World) (path acc : Nat) (osOk : Bool) (hw : WF w) (hs : w.fidg.nextid < 2 ^ 28) (h : WFA w) :
    WFA (hopen w path acc osOk).1 := by
  unfold hopen
  split
  · exact h
  · split
    · rename_i p hp
      split
      · rename_i r hr
        split
        · exact h
        · have hmem := getF_mem hr
          exact regF_wfa _ p hs (setF_same_attach_wfa w p r _ h hmem rfl) ⟨(p, _), mem_setF_of hmem, rfl⟩
      · exact h
    · split
      · exact h
      · apply dd_wfa
        have hfresh : ∀ e ∈ w.frecs, e.1 ≠ w.nobj := fun e he => Nat.ne_of_lt (hw.fptr e he)
        refine regF_wfa _ w.nobj hs ⟨?_, ?_, ?_, h.issued, h.fissued, h.fnodup, h.link⟩ ⟨(w.nobj, ⟨path, if acc == DFACC_CREATE then DFACC_ALL else acc ||| DFACC_READ, 1, 0⟩), by simp, rfl⟩
        · intro e he
          simp only [List.mem_append, List.mem_singleton] at he
          rcases he with he | rfl
          · exact h.att e he
          · simp only []
            have h1 : w.arecs.countP (fun a => a.2.file == w.nobj) = 0 := by
              rw [List.countP_eq_zero]; intro a ha
              obtain ⟨e, he, heq⟩ := h.afile a ha
              have := hfresh e he
              simp only [beq_iff_eq]; rw [← heq]; exact this
            have h2 : w.leaked.countP (fun x => x == w.nobj) = 0 := by
              rw [List.countP_eq_zero]; intro x hx
              obtain ⟨e, he, heq⟩ := h.lfile x hx
              have := hfresh e he
              simp only [beq_iff_eq]; rw [← heq]; exact this
            omega
        · intro a ha
          obtain ⟨e, he, heq⟩ := h.afile a ha
          exact ⟨e, by simp [he], heq⟩
        · intro x hx
          obtain ⟨e, he, heq⟩ := h.lfile x hx
          exact ⟨e, by simp [he], heq⟩

/-- removing a file id's registration keeps the facts about the remaining ones -/
theorem eraseF_wfa (w w' : World) (id : Nat) (h : WFA w) (hl : w'.fidg.live = w.fidg.live.eraseP (fun e => e.id == id))
    (hn : w'.fidg.nextid = w.fidg.nextid) (hf : w'.frecs = w.frecs) (ha : w'.arecs = w.arecs) (hk : w'.leaked = w.leaked) : WFA w' := by
  refine ⟨?_, ?_, ?_, ?_, ?_, ?_, ?_⟩
  · rw [hf, ha, hk]; exact h.att
  · rw [hf, ha]; exact h.afile
  · rw [hf, hk]; exact h.lfile
  · rw [ha, hn]; exact h.issued
  · intro i hi; rw [hl] at hi; rw [hn]; exact h.fissued i (List.mem_of_mem_eraseP hi)
  · rw [hl]; exact h.fnodup.sublist List.eraseP_sublist
  · intro a haa i hi; rw [ha] at haa; rw [hl] at hi; exact h.link a haa i (List.mem_of_mem_eraseP hi)

theorem aRem_fid_nextid (w : World) (id : Nat) (hg : ATOM_TO_GROUP id = FIDGROUP) : (aRem w id).fidg.nextid = w.fidg.nextid := by
  unfold aRem; simp [hg]

theorem hcloseRec_wfa (w : World) (id p : Nat) (r : FRec) (hw : WF w) (h : WFA w) (hg : ATOM_TO_GROUP id = FIDGROUP)
    (hget : getF w p = some r) : WFA (hcloseRec w id p r).1 := by
  unfold hcloseRec
  have hmem := getF_mem hget
  split
  · split
    · exact h
    · rename_i hat
      apply dd_wfa
      have hat0 : r.attach = 0 := by omega
      have h0 := h.att (p, r) hmem
      simp only [hat0] at h0
      have hA : w.arecs.countP (fun a => a.2.file == p) = 0 := by omega
      have hL : w.leaked.countP (fun x => x == p) = 0 := by omega
      obtain ⟨r1, r2, r3, r4, r5, r6⟩ := aRem_fid (delF w p) id hg
      simp only [delF_fidg, delF_aidg, delF_arecs, delF_nobj, delF_leaked] at r1 r2 r4 r5 r6
      have hdel : WFA (delF w p) := by
        refine ⟨?_, ?_, ?_, h.issued, h.fissued, h.fnodup, h.link⟩
        · intro e he; exact h.att e (mem_delF.mp he).1
        · intro a ha
          obtain ⟨e, he, heq⟩ := h.afile a ha
          refine ⟨e, mem_delF.mpr ⟨he, ?_⟩, heq⟩
          intro hep
          have := (List.countP_eq_zero.mp hA) a ha
          simp [← heq, hep] at this
        · intro x hx
          obtain ⟨e, he, heq⟩ := h.lfile x hx
          refine ⟨e, mem_delF.mpr ⟨he, ?_⟩, heq⟩
          intro hep
          have := (List.countP_eq_zero.mp hL) x hx
          simp [← heq, hep] at this
      exact eraseF_wfa (delF w p) _ id hdel r1 (aRem_fid_nextid _ id hg) r3 r4 r6
  · obtain ⟨r1, r2, r3, r4, r5, r6⟩ := aRem_fid (setF w p { r with refcount := r.refcount - 1 }) id hg
    exact eraseF_wfa (setF w p { r with refcount := r.refcount - 1 }) _ id (setF_same_attach_wfa w p r { r with refcount := r.refcount - 1 } h hmem rfl) r1 (aRem_fid_nextid _ id hg) r3 r4 r6


theorem hclose_wfa (cfg : Cfg) (hk : cfg.kindChecked = true) (w : World) (id : Nat) (hw : WF w) (h : WFA w) : WFA (hclose cfg w id).1 := by
  unfold hclose
  split
  · exact h
  · exact h
  · rename_i p r hl
    obtain ⟨hg, _, hget, _⟩ := lookF_file hk hl
    split
    · exact h
    · exact hcloseRec_wfa w id p r hw h hg hget

theorem startAccess_wfa (cfg : Cfg) (hk : cfg.kindChecked = true) (w : World) (id : Nat) (fnd wr : Bool) (hw : WF w) (h : WFA w) :
    WFA (startAccess cfg w id fnd wr).1 := by
  unfold startAccess
  split
  · exact h
  · exact h
  · rename_i p r hl
    obtain ⟨hg, ⟨e0, hfind, hobj⟩, hget, _⟩ := lookF_file hk hl
    have hmem := getF_mem hget
    have he0 : e0 ∈ w.fidg.live := List.mem_of_find?_eq_some hfind
    have he0id : e0.id = id := by have := List.find?_some hfind; simpa using this
    split
    · exact h
    · split
      · exact h
      · refine ⟨?_, ?_, ?_, ?_, ?_, ?_, ?_⟩
        · intro e he
          simp only [regA] at he ⊢
          rcases mem_setF he with ⟨rfl, _⟩ | ⟨he', hne⟩
          · have := h.att (p, r) hmem
            simp only [List.countP_append, List.countP_cons, List.countP_nil, beq_self_eq_true, if_true, setF_leaked] at this ⊢
            omega
          · have := h.att e he'
            have hb : (p == e.1) = false := by simpa using (Ne.symm hne)
            simp only [List.countP_append, List.countP_cons, List.countP_nil, hb, Bool.false_eq_true, if_false, Nat.add_zero, setF_leaked]
            exact this
        · intro a ha
          simp only [regA, List.mem_append, List.mem_singleton] at ha
          simp only [regA]
          rcases ha with ha | rfl
          · obtain ⟨e, he, heq⟩ := h.afile a ha
            by_cases hep : e.1 = p
            · exact ⟨(p, _), mem_setF_of hmem, by rw [← heq, hep]⟩
            · exact ⟨e, mem_setF_other he hep, heq⟩
          · exact ⟨(p, _), mem_setF_of hmem, rfl⟩
        · intro x hx
          simp only [regA] at hx ⊢
          obtain ⟨e, he, heq⟩ := h.lfile x hx
          by_cases hep : e.1 = p
          · exact ⟨(p, _), mem_setF_of hmem, by rw [← heq, hep]⟩
          · exact ⟨e, mem_setF_other he hep, heq⟩
        · intro a ha
          simp only [regA, List.mem_append, List.mem_singleton] at ha
          simp only [regA]
          rcases ha with ha | rfl
          · exact h.issued a ha
          · obtain ⟨k, hk', hid⟩ := h.fissued e0 he0
            exact ⟨k, hk', by rw [← he0id]; exact hid⟩
        · intro i hi; simp only [regA] at hi ⊢; exact h.fissued i hi
        · simp only [regA]; exact h.fnodup
        · intro a ha i hi hid
          simp only [regA, List.mem_append, List.mem_singleton] at ha hi
          rcases ha with ha | rfl
          · exact h.link a ha i hi hid
          · -- the new access record names the file id it was started through
            simp only [] at hid ⊢
            by_cases hie : i = e0
            · rw [hie]; exact hobj
            · exfalso
              have hne : i.id ≠ e0.id := by
                rcases List.pairwise_iff_getElem.mp h.fnodup with hp
                obtain ⟨a1, ha1, rfl⟩ := List.getElem_of_mem hi
                obtain ⟨a2, ha2, hb2⟩ := List.getElem_of_mem he0
                rcases Nat.lt_trichotomy a1 a2 with hlt | heq | hgt
                · rw [← hb2]; exact hp a1 a2 ha1 ha2 hlt
                · subst heq; exact absurd hb2 hie
                · rw [← hb2]; exact Ne.symm (hp a2 a1 ha2 ha1 hgt)
              exact hne (by rw [hid, he0id])

theorem countP_filter_ne (l : List (Nat × ARec)) (q : Nat) (a : ARec) (hk2 : (l.map (·.1)).Nodup) (hmem : (q, a) ∈ l) (x : Nat) :
    (l.filter (fun e => e.1 != q)).countP (fun b => b.2.file == x) + (if a.file == x then 1 else 0) = l.countP (fun b => b.2.file == x) := by
  induction l with
  | nil => cases hmem
  | cons b t ih =>
    simp only [List.map_cons, List.nodup_cons] at hk2
    rcases List.mem_cons.mp hmem with rfl | ht
    · have hnot : ∀ y ∈ t, y.1 ≠ q := fun y hy heq => hk2.1 (by rw [← heq]; exact List.mem_map.mpr ⟨y, hy, rfl⟩)
      have hfil : t.filter (fun e => e.1 != q) = t := by
        apply List.filter_eq_self.mpr; intro y hy; simpa using hnot y hy
      simp only [List.filter_cons, bne_self_eq_false, Bool.false_eq_true, if_false, hfil, List.countP_cons]
    · have hbq : b.1 ≠ q := fun heq => hk2.1 (by rw [heq]; exact List.mem_map.mpr ⟨(q, a), ht, rfl⟩)
      have hbq' : (b.1 != q) = true := by simpa using hbq
      have := ih hk2.2 ht
      simp only [List.filter_cons, hbq', if_true, List.countP_cons]
      omega

theorem endAccess_wfa (cfg : Cfg) (hk : cfg.kindChecked = true) (w : World) (id : Nat) (hw : WF w) (h : WFA w) : WFA (endAccess cfg w id).1 := by
  unfold endAccess
  split
  · exact h
  · exact h
  · rename_i q a hl
    obtain ⟨hg, ⟨e0, hfind, hobj⟩, hget⟩ := lookA_acc hk hl
    obtain ⟨r1, r2, r3, r4, r5, r6⟩ := aRem_aid w id hg
    have hmem := getA_mem hget
    have hmid := endAccess_mid_wf w id q a hw hg e0 hfind hobj hget
    -- the access records that remain, and how the one that goes was counted
    have hcountA (x : Nat) := countP_filter_ne w.arecs q a hw.akeys hmem x
    have hmidA : (delA (aRem w id) q).arecs = w.arecs.filter (fun e => e.1 != q) := by simp only [delA, r4]
    split
    · rename_i p r hlf
      obtain ⟨_, ⟨e1, hfind1, hobj1⟩, hgetF, _⟩ := lookF_file hk hlf
      simp only [delA_fidg, r2] at hfind1
      have he1 : e1 ∈ w.fidg.live := List.mem_of_find?_eq_some hfind1
      have he1id : e1.id = a.fileId := by have := List.find?_some hfind1; simpa using this
      have hpfile : p = a.file := by rw [← hobj1]; exact h.link (q, a) hmem e1 he1 he1id
      have hmemF := getF_mem hgetF
      simp only [delA_frecs, r3] at hmemF
      refine ⟨?_, ?_, ?_, ?_, ?_, ?_, ?_⟩
      · intro e he
        simp only [setF_arecs, setF_leaked, hmidA, delA_leaked, r6]
        rcases mem_setF he with ⟨rfl, _⟩ | ⟨he', hne⟩
        · have h1 := h.att (p, r) hmemF
          have h2 := hcountA p
          have hb : (a.file == p) = true := by simp [hpfile]
          simp only [hb, if_true] at h2
          simp only [] at h1 ⊢
          omega
        · simp only [delA_frecs, r3] at he'
          have h1 := h.att e he'
          have h2 := hcountA e.1
          have hb : (a.file == e.1) = false := by rw [← hpfile]; simpa using (Ne.symm hne)
          simp only [hb, Bool.false_eq_true, if_false, Nat.add_zero] at h2
          rw [h2]; exact h1
      · intro b hb
        simp only [setF_arecs, hmidA] at hb
        obtain ⟨e, he, heq⟩ := h.afile b (List.mem_filter.mp hb).1
        by_cases hep : e.1 = p
        · exact ⟨(p, _), mem_setF_of (by simp only [delA_frecs, r3]; exact hmemF), by rw [← heq, hep]⟩
        · exact ⟨e, mem_setF_other (by simp only [delA_frecs, r3]; exact he) hep, heq⟩
      · intro x hx
        simp only [setF_leaked, delA_leaked, r6] at hx
        obtain ⟨e, he, heq⟩ := h.lfile x hx
        by_cases hep : e.1 = p
        · exact ⟨(p, _), mem_setF_of (by simp only [delA_frecs, r3]; exact hmemF), by rw [← heq, hep]⟩
        · exact ⟨e, mem_setF_other (by simp only [delA_frecs, r3]; exact he) hep, heq⟩
      · intro b hb
        simp only [setF_arecs, hmidA] at hb
        simp only [setF_fidg, delA_fidg, r2]
        exact h.issued b (List.mem_filter.mp hb).1
      · intro i hi; simp only [setF_fidg, delA_fidg, r2] at hi ⊢; exact h.fissued i hi
      · simp only [setF_fidg, delA_fidg, r2]; exact h.fnodup
      · intro b hb i hi hid
        simp only [setF_arecs, hmidA] at hb
        simp only [setF_fidg, delA_fidg, r2] at hi
        exact h.link b (List.mem_filter.mp hb).1 i hi hid
    · -- the file id the access was started through is gone: the count is lost
      obtain ⟨ef, hef, hefeq⟩ := h.afile (q, a) hmem
      refine ⟨?_, ?_, ?_, ?_, ?_, ?_, ?_⟩
      · intro e he
        simp only [delA_frecs, r3] at he
        simp only [hmidA, List.countP_append, List.countP_cons, List.countP_nil]
        have h1 := h.att e he
        have h2 := hcountA e.1
        omega
      · intro b hb
        simp only [hmidA] at hb
        simp only [delA_frecs, r3]
        exact h.afile b (List.mem_filter.mp hb).1
      · intro x hx
        simp only [List.mem_append, List.mem_singleton] at hx
        simp only [delA_frecs, r3]
        rcases hx with hx | rfl
        · exact h.lfile x hx
        · exact ⟨ef, hef, hefeq⟩
      · intro b hb
        simp only [hmidA] at hb
        simp only [delA_fidg, r2]
        exact h.issued b (List.mem_filter.mp hb).1
      · intro i hi; simp only [delA_fidg, r2] at hi ⊢; exact h.fissued i hi
      · simp only [delA_fidg, r2]; exact h.fnodup
      · intro b hb i hi hid
        simp only [hmidA] at hb
        simp only [delA_fidg, r2] at hi
        exact h.link b (List.mem_filter.mp hb).1 i hi hid


/-! ## both parts along a run -/

theorem nextRead_state (cfg : Cfg) (w : World) (id : Nat) (f : Bool) : (nextRead cfg w id f).1 = w := by
  unfold nextRead; repeat' split
  all_goals rfl

theorem hopen_nextid (w : World) (p a : Nat) (o : Bool) : (hopen w p a o).1.fidg.nextid ≤ w.fidg.nextid + 1 := by
  simp only [hopen]
  repeat' split
  all_goals simp [regF, setDd]

theorem step_nextid (cfg : Cfg) (w : World) (op : Op) : (step cfg w op).1.fidg.nextid ≤ w.fidg.nextid + 1 := by
  cases op with
  | nextread id f => simp [step, nextRead_state]
  | hopen p a o => exact hopen_nextid w p a o
  | hopenbad p a st =>
    simp only [step, hopenBad]
    repeat' split
    all_goals first
      | exact hopen_nextid w p a _
      | simp [setDd]
  | hclose id =>
    simp only [step, hclose, hcloseRec]
    repeat' split
    all_goals (simp only [aRem, setDd]; repeat' split)
    all_goals simp
  | startaccess id f wr =>
    simp only [step, startAccess]
    repeat' split
    all_goals simp [regA]
  | endaccess id =>
    simp only [step, endAccess]
    repeat' split
    all_goals (simp only [aRem, delA_fidg, setF_fidg]; repeat' split)
    all_goals simp
  | usefid id => simp [step]
  | useaid id => simp [step]

theorem step_wfa (cfg : Cfg) (hk : cfg.kindChecked = true) (w : World) (op : Op) (hw : WF w) (hs : w.fidg.nextid < 2 ^ 28) (h : WFA w) :
    WFA (step cfg w op).1 := by
  cases op with
  | nextread id f => simp only [step, nextRead_state]; exact h
  | hopen p a o => exact hopen_wfa w p a o hw hs h
  | hopenbad p a st =>
    simp only [step, hopenBad]
    repeat' split
    all_goals first
      | exact h
      | exact hopen_wfa w p a _ hw hs h
      | exact dd_wfa _ _ h
  | hclose id => exact hclose_wfa cfg hk w id hw h
  | startaccess id f wr => exact startAccess_wfa cfg hk w id f wr hw h
  | endaccess id => exact endAccess_wfa cfg hk w id hw h
  | usefid id => exact h
  | useaid id => exact h

theorem run_wfa (cfg : Cfg) (hk : cfg.kindChecked = true) (w : World) (ops : List Op) (hw : WF w) (h : WFA w)
    (hs : w.fidg.nextid + ops.length < 2 ^ 28) : WFA (run cfg w ops) := by
  induction ops generalizing w with
  | nil => exact h
  | cons op ops ih =>
    have h1 := step_nextid cfg w op
    simp only [List.length_cons] at hs
    exact ih _ (step_wf cfg hk w op hw) (step_wfa cfg hk w op hw (by omega) h) (by omega)

/-! ## SD ids -/

section sd
open H4.Gen.Src H4.Gen.Sdid

theorem SDSTART_ID_eq (c : Nat) (hc : c < 4096) : SDSTART_ID c = c * 2 ^ 20 + 6 * 2 ^ 16 + c := by
  unfold SDSTART_ID
  simp only [Nat.shiftLeft_eq]
  omega

theorem SDSELECT_ID_eq (c i : Nat) (hc : c < 4096) (hi : i < 65536) : SDSELECT_ID (SDSTART_ID c) i = c * 2 ^ 20 + 4 * 2 ^ 16 + i := by
  rw [SDSTART_ID_eq c hc]
  unfold SDSELECT_ID
  have : (65535 : Nat) = 2 ^ 16 - 1 := by decide
  rw [this, Nat.and_two_pow_sub_one_eq_mod]
  simp only [Nat.shiftLeft_eq]
  omega

theorem unpack_eq (x : Nat) (hx : x < 2 ^ 32) : sdidUnpack x = (x / 1048576 % 4096, x / 65536 % 16, x % 65536) := by
  unfold sdidUnpack SDID_SLOT SDID_KIND SDID_VARINDEX
  have h1 : (4095 : Nat) = 2 ^ 12 - 1 := by decide
  have h2 : (15 : Nat) = 2 ^ 4 - 1 := by decide
  have h3 : (65535 : Nat) = 2 ^ 16 - 1 := by decide
  rw [h1, h2, h3, Nat.and_two_pow_sub_one_eq_mod, Nat.and_two_pow_sub_one_eq_mod, Nat.and_two_pow_sub_one_eq_mod,
    Nat.shiftRight_eq_div_pow, Nat.shiftRight_eq_div_pow]
  have a1 : x / 2 ^ 20 % 2 ^ 12 % 4294967296 = x / 1048576 % 4096 := by omega
  have a2 : x / 2 ^ 16 % 2 ^ 4 % 4294967296 = x / 65536 % 16 := by omega
  have a3 : x % 2 ^ 16 % 4294967296 = x % 65536 := by omega
  rw [a1, a2, a3]


end sd

/-! ## the atom calls of the model are calls of `H4.Atom`'s specification machine -/

theorem badGroup_fid : badGroup (FIDGROUP : Int) = false := by decide
theorem badGroup_aid : badGroup (AIDGROUP : Int) = false := by decide

theorem atoms_regF (w : World) (obj : Nat) (hc : w.fidg.count ≠ 0) :
    (regF w obj).atoms = sstep w.atoms (.register FIDGROUP obj) := by
  funext g
  have h1 : ((FIDGROUP : Nat) : Int).toNat = FIDGROUP := rfl
  simp only [sstep, badGroup_fid, Bool.false_eq_true, if_false, h1]
  have hcnt : ((w.atoms FIDGROUP).count == 0) = false := by simp [World.atoms, hc]
  simp only [hcnt, Bool.false_eq_true, if_false, upd]
  by_cases hg : g = FIDGROUP
  · subst hg; simp [World.atoms, regF, fidNew]
  · have : AIDGROUP ≠ FIDGROUP := by decide
    by_cases hg2 : g = AIDGROUP
    · subst hg2; simp [World.atoms, regF, this]
    · simp [World.atoms, regF, hg, hg2]

theorem atoms_regA (w : World) (obj : Nat) (hc : w.aidg.count ≠ 0) :
    (regA w obj).atoms = sstep w.atoms (.register AIDGROUP obj) := by
  funext g
  have h1 : ((AIDGROUP : Nat) : Int).toNat = AIDGROUP := rfl
  have hne : AIDGROUP ≠ FIDGROUP := by decide
  simp only [sstep, badGroup_aid, Bool.false_eq_true, if_false, h1]
  have hcnt : ((w.atoms AIDGROUP).count == 0) = false := by simp [World.atoms, hc, hne]
  simp only [hcnt, Bool.false_eq_true, if_false, upd]
  by_cases hg : g = FIDGROUP
  · subst hg; simp [World.atoms, regA, hne.symm]
  · by_cases hg2 : g = AIDGROUP
    · subst hg2; simp [World.atoms, regA, hne, aidNew]
    · simp [World.atoms, regA, hg, hg2]

theorem atoms_aRem (w : World) (id : Nat) : (aRem w id).atoms = sstep w.atoms (.remove id) := by
  have hne : AIDGROUP ≠ FIDGROUP := by decide
  funext g
  simp only [sstep, slookup]
  by_cases hF : ATOM_TO_GROUP id = FIDGROUP
  · cases hf : w.fidg.live.find? (fun e => e.id == id) with
    | none =>
      have he : w.fidg.live.eraseP (fun e => e.id == id) = w.fidg.live := by
        apply List.eraseP_of_forall_not; intro a ha; have := List.find?_eq_none.mp hf a ha; simpa using this
      simp [World.atoms, aRem, hF, hf, he]
    | some e =>
      by_cases hg : g = FIDGROUP
      · subst hg; simp [World.atoms, aRem, hF, hf, upd]
      · by_cases hg2 : g = AIDGROUP
        · subst hg2; simp [World.atoms, aRem, hF, hf, upd, hne]
        · simp [World.atoms, aRem, hF, hf, upd, hg, hg2]
  · by_cases hA : ATOM_TO_GROUP id = AIDGROUP
    · cases hf : w.aidg.live.find? (fun e => e.id == id) with
      | none =>
        have he : w.aidg.live.eraseP (fun e => e.id == id) = w.aidg.live := by
          apply List.eraseP_of_forall_not; intro a ha; have := List.find?_eq_none.mp hf a ha; simpa using this
        simp [World.atoms, aRem, hA, hne, hf, he]
      | some e =>
        by_cases hg : g = FIDGROUP
        · subst hg; simp [World.atoms, aRem, hA, hne, hf, upd, hne.symm]
        · by_cases hg2 : g = AIDGROUP
          · subst hg2; simp [World.atoms, aRem, hA, hne, hf, upd]
          · simp [World.atoms, aRem, hA, hne, hf, upd, hg, hg2]
    · simp [World.atoms, aRem, hF, hA]


/-- the atom state of the world is the specification machine run on the recorded atom calls; both groups are initialised -/
structure TraceOk (w : World) : Prop where
  eq : w.atoms = srunS SState.init w.trace
  cf : w.fidg.count ≠ 0
  ca : w.aidg.count ≠ 0

theorem srunS_snoc (sp : SState) (l : List Atom.Op) (op : Atom.Op) : srunS sp (l ++ [op]) = sstep (srunS sp l) op := by
  rw [srunS_append]; rfl

theorem traceOk_same {w w' : World} (h : TraceOk w) (hf : w'.fidg = w.fidg) (ha : w'.aidg = w.aidg) (ht : w'.trace = w.trace) : TraceOk w' := by
  refine ⟨?_, by rw [hf]; exact h.cf, by rw [ha]; exact h.ca⟩
  have : w'.atoms = w.atoms := by funext g; simp [World.atoms, hf, ha]
  rw [this, ht]; exact h.eq

theorem traceOk_regF {w : World} (h : TraceOk w) (obj : Nat) : TraceOk (regF w obj) := by
  refine ⟨?_, h.cf, h.ca⟩
  rw [atoms_regF w obj h.cf, h.eq]
  show _ = srunS SState.init (w.trace ++ [.register FIDGROUP obj])
  rw [srunS_snoc]

theorem traceOk_regA {w : World} (h : TraceOk w) (obj : Nat) : TraceOk (regA w obj) := by
  refine ⟨?_, h.cf, h.ca⟩
  rw [atoms_regA w obj h.ca, h.eq]
  show _ = srunS SState.init (w.trace ++ [.register AIDGROUP obj])
  rw [srunS_snoc]

theorem aRem_trace (w : World) (id : Nat) : (aRem w id).trace = w.trace ++ [.remove id] := by
  unfold aRem; simp only []
  split
  · rfl
  · split <;> rfl

theorem aRem_frecs (w : World) (id : Nat) : (aRem w id).frecs = w.frecs := by
  unfold aRem; simp only []
  split
  · rfl
  · split <;> rfl

theorem aRem_ddUse (w : World) (id : Nat) : (aRem w id).ddUse = w.ddUse := by
  unfold aRem; simp only []
  split
  · rfl
  · split <;> rfl

theorem aRem_counts (w : World) (id : Nat) : (aRem w id).fidg.count = w.fidg.count ∧ (aRem w id).aidg.count = w.aidg.count := by
  unfold aRem; simp only []
  split
  · exact ⟨rfl, rfl⟩
  · split <;> exact ⟨rfl, rfl⟩

theorem traceOk_aRem {w : World} (h : TraceOk w) (id : Nat) : TraceOk (aRem w id) := by
  refine ⟨?_, ?_, ?_⟩
  · rw [atoms_aRem w id, h.eq, aRem_trace, srunS_snoc]
  · rw [(aRem_counts w id).1]; exact h.cf
  · rw [(aRem_counts w id).2]; exact h.ca

theorem init_traceOk : TraceOk World.init := by
  refine ⟨?_, by decide, by decide⟩
  funext g
  have hne : AIDGROUP ≠ FIDGROUP := by decide
  have e1 : (64 &&& (64 - 1) != 0) = false := by decide
  have e2 : (256 &&& (256 - 1) != 0) = false := by decide
  have t1 : ((FIDGROUP : Nat) : Int).toNat = FIDGROUP := rfl
  have t2 : ((AIDGROUP : Nat) : Int).toNat = AIDGROUP := rfl
  simp only [World.init, initOps, srunS, sstep, badGroup_fid, badGroup_aid, e1, e2, Bool.false_eq_true, if_false, Bool.or_false,
    show ((64 : Nat) == 0) = false from rfl, show ((256 : Nat) == 0) = false from rfl, t1, t2]
  by_cases hg : g = FIDGROUP
  · subst hg; simp [World.atoms, upd, SState.init, hne.symm]
  · by_cases hg2 : g = AIDGROUP
    · subst hg2; simp [World.atoms, upd, SState.init, hne]
    · simp [World.atoms, upd, SState.init, hg, hg2]

theorem dd_traceOk {w : World} (n : Nat) (h : TraceOk w) : TraceOk (setDd w n) := traceOk_same h rfl rfl rfl

theorem hopen_traceOk (w : World) (p a : Nat) (o : Bool) (h : TraceOk w) : TraceOk (hopen w p a o).1 := by
  simp only [hopen]
  repeat' split
  all_goals first
    | exact h
    | (apply traceOk_regF; exact traceOk_same h rfl rfl rfl)
    | (apply dd_traceOk; apply traceOk_regF; exact traceOk_same h rfl rfl rfl)

theorem step_traceOk (cfg : Cfg) (w : World) (op : Op) (h : TraceOk w) : TraceOk (step cfg w op).1 := by
  cases op with
  | nextread id f => simp only [step, nextRead_state]; exact h
  | hopen p a o => exact hopen_traceOk w p a o h
  | hopenbad p a st =>
    simp only [step, hopenBad]
    repeat' split
    all_goals first
      | exact h
      | exact hopen_traceOk w p a _ h
      | exact dd_traceOk _ h
  | hclose id =>
    simp only [step, hclose, hcloseRec]
    repeat' split
    all_goals first
      | exact h
      | (apply traceOk_aRem; exact traceOk_same h rfl rfl rfl)
      | (apply dd_traceOk; apply traceOk_aRem; exact traceOk_same h rfl rfl rfl)
  | startaccess id f wr =>
    simp only [step, startAccess]
    repeat' split
    all_goals first
      | exact h
      | (apply traceOk_regA; exact traceOk_same h rfl rfl rfl)
  | endaccess id =>
    simp only [step, endAccess]
    repeat' split
    all_goals first
      | exact h
      | exact traceOk_same (traceOk_aRem h id) rfl rfl rfl
  | usefid id => exact h
  | useaid id => exact h

theorem run_traceOk (cfg : Cfg) (w : World) (ops : List Op) (h : TraceOk w) : TraceOk (run cfg w ops) := by
  induction ops generalizing w with
  | nil => exact h
  | cons op ops ih => exact ih _ (step_traceOk cfg w op h)


/-! ## with the per-id test of `Hclose` no access record is orphaned and no attach count is lost -/

theorem mem_eraseP_of_ne {α} (p : α → Bool) (l : List α) (x : α) (hx : x ∈ l) (hp : p x = false) : x ∈ l.eraseP p := by
  induction l with
  | nil => cases hx
  | cons a t ih =>
    by_cases hpa : p a = true
    · simp only [List.eraseP_cons, hpa, cond_true]
      rcases List.mem_cons.mp hx with rfl | h
      · simp [hp] at hpa
      · exact h
    · have : p a = false := by simpa using hpa
      simp only [List.eraseP_cons, this, cond_false]
      rcases List.mem_cons.mp hx with rfl | h
      · exact List.mem_cons_self
      · exact List.mem_cons_of_mem _ (ih h)

/-- with the per-id test of `Hclose`: every access record was started through a file id that is still live, nothing leaked -/
structure NoOrphan (w : World) : Prop where
  alive : ∀ a ∈ w.arecs, ∃ i ∈ w.fidg.live, i.id = a.2.fileId
  noleak : w.leaked = []
  fpos : ∀ e ∈ w.frecs, 1 ≤ e.1
  npos : 1 ≤ w.nobj

theorem dd_noOrphan (w : World) (n : Nat) (h : NoOrphan w) : NoOrphan (setDd w n) := ⟨h.alive, h.noleak, h.fpos, h.npos⟩

theorem init_noOrphan : NoOrphan World.init := by
  refine ⟨?_, rfl, ?_, by simp [World.init]⟩ <;> intro x hx <;> simp [World.init] at hx

/-- a live file id whose record exists resolves -/
theorem lookF_of_live {cfg : Cfg} {w : World} (hw : WF w) (hn : NoOrphan w) {id : Nat} (hg : ATOM_TO_GROUP id = FIDGROUP)
    {i : Info} (hi : i ∈ w.fidg.live) (hid : i.id = id) : ∃ p r, lookF cfg w id = .file p r := by
  have hsome : (w.fidg.live.find? (fun e => e.id == id)).isSome := by
    rw [List.find?_isSome]; exact ⟨i, hi, by simp [hid]⟩
  obtain ⟨e, he⟩ := Option.isSome_iff_exists.mp hsome
  have hem := List.mem_of_find?_eq_some he
  obtain ⟨rec, hrec, hreq⟩ := hw.fobj e hem
  have hget : getF w e.obj = some rec.2 := getF_of_mem hw.fkeys (by rw [← hreq]; cases rec; exact hrec)
  have hpos := hn.fpos rec hrec
  have hrc := (hw.refc rec hrec).2
  refine ⟨e.obj, rec.2, ?_⟩
  unfold lookF
  have h1 : (cfg.kindChecked && ATOM_TO_GROUP id != FIDGROUP) = false := by simp [hg]
  have haobj : aObj w id = e.obj := by unfold aObj grpOf; simp [hg, he]
  have hnn : (e.obj == NULL) = false := by simp [NULL]; omega
  have hr0 : (rec.2.refcount == 0) = false := by simp; omega
  simp only [h1, Bool.false_eq_true, if_false, haobj, hnn, hget, hr0]

theorem hopen_noOrphan (w : World) (path acc : Nat) (osOk : Bool) (hw : WF w) (h : NoOrphan w) : NoOrphan (hopen w path acc osOk).1 := by
  unfold hopen
  split
  · exact h
  · split
    · rename_i p hp
      split
      · rename_i r hr
        split
        · exact h
        · have hmem := getF_mem hr
          refine ⟨?_, h.noleak, ?_, h.npos⟩
          · intro a ha
            obtain ⟨i, hi, hid⟩ := h.alive a ha
            exact ⟨i, by simp [regF, hi], hid⟩
          · intro e he
            simp only [regF] at he
            rcases mem_setF he with ⟨rfl, _⟩ | ⟨he', _⟩
            · exact h.fpos (p, r) hmem
            · exact h.fpos e he'
      · exact h
    · split
      · exact h
      · apply dd_noOrphan
        refine ⟨?_, h.noleak, ?_, by simp only [regF]; have := h.npos; omega⟩
        · intro a ha
          obtain ⟨i, hi, hid⟩ := h.alive a ha
          exact ⟨i, by simp [regF, hi], hid⟩
        · intro e he
          simp only [regF, List.mem_append, List.mem_singleton] at he
          rcases he with he | rfl
          · exact h.fpos e he
          · exact h.npos

theorem hclose_noOrphan (cfg : Cfg) (hk : cfg.kindChecked = true) (hc : cfg.closeChecksAids = true) (w : World) (id : Nat)
    (h : NoOrphan w) : NoOrphan (hclose cfg w id).1 := by
  unfold hclose
  split
  · exact h
  · exact h
  · rename_i p r hl
    obtain ⟨hg, _, hget, _⟩ := lookF_file hk hl
    have hmem := getF_mem hget
    split
    · exact h
    · rename_i hany
      have hno : ∀ a ∈ w.arecs, a.2.fileId ≠ id := by
        intro a ha heq
        apply hany
        simp only [hc, Bool.true_and, List.any_eq_true]
        exact ⟨a, ha, by simp [heq]⟩
      have keep : ∀ a ∈ w.arecs, ∃ i ∈ w.fidg.live.eraseP (fun e => e.id == id), i.id = a.2.fileId := by
        intro a ha
        obtain ⟨i, hi, hid⟩ := h.alive a ha
        refine ⟨i, mem_eraseP_of_ne _ _ i hi ?_, hid⟩
        have := hno a ha
        simp only [beq_eq_false_iff_ne, ne_eq]; rw [hid]; exact this
      unfold hcloseRec
      split
      · split
        · exact h
        · apply dd_noOrphan
          obtain ⟨r1, r2, r3, r4, r5, r6⟩ := aRem_fid (delF w p) id hg
          simp only [delF_fidg, delF_aidg, delF_arecs, delF_nobj, delF_leaked] at r1 r2 r4 r5 r6
          refine ⟨?_, by rw [r6]; exact h.noleak, ?_, by rw [r5]; exact h.npos⟩
          · intro a ha; rw [r4] at ha; rw [r1]; exact keep a ha
          · intro e he; rw [r3] at he; exact h.fpos e (mem_delF.mp he).1
      · obtain ⟨r1, r2, r3, r4, r5, r6⟩ := aRem_fid (setF w p { r with refcount := r.refcount - 1 }) id hg
        simp only [setF_fidg, setF_aidg, setF_arecs, setF_nobj, setF_leaked] at r1 r2 r4 r5 r6
        refine ⟨?_, by rw [r6]; exact h.noleak, ?_, by rw [r5]; exact h.npos⟩
        · intro a ha; rw [r4] at ha; rw [r1]; exact keep a ha
        · intro e he; rw [r3] at he
          rcases mem_setF he with ⟨rfl, _⟩ | ⟨he', _⟩
          · exact h.fpos (p, r) hmem
          · exact h.fpos e he'

theorem startAccess_noOrphan (cfg : Cfg) (hk : cfg.kindChecked = true) (w : World) (id : Nat) (fnd wr : Bool) (h : NoOrphan w) :
    NoOrphan (startAccess cfg w id fnd wr).1 := by
  unfold startAccess
  split
  · exact h
  · exact h
  · rename_i p r hl
    obtain ⟨hg, ⟨e0, hfind, hobj⟩, hget, _⟩ := lookF_file hk hl
    have hmem := getF_mem hget
    have he0 : e0 ∈ w.fidg.live := List.mem_of_find?_eq_some hfind
    have he0id : e0.id = id := by have := List.find?_some hfind; simpa using this
    split
    · exact h
    · split
      · exact h
      · refine ⟨?_, h.noleak, ?_, by simp only [regA]; have := h.npos; omega⟩
        · intro a ha
          simp only [regA, List.mem_append, List.mem_singleton] at ha
          simp only [regA, setF_fidg]
          rcases ha with ha | rfl
          · exact h.alive a ha
          · exact ⟨e0, he0, he0id⟩
        · intro e he
          simp only [regA] at he
          rcases mem_setF he with ⟨rfl, _⟩ | ⟨he', _⟩
          · exact h.fpos (p, r) hmem
          · exact h.fpos e he'

theorem endAccess_noOrphan (cfg : Cfg) (hk : cfg.kindChecked = true) (w : World) (id : Nat) (hw : WF w) (ha : WFA w) (h : NoOrphan w) :
    NoOrphan (endAccess cfg w id).1 := by
  unfold endAccess
  split
  · exact h
  · exact h
  · rename_i q a hl
    obtain ⟨hg, ⟨e0, hfind, hobj⟩, hget⟩ := lookA_acc hk hl
    obtain ⟨r1, r2, r3, r4, r5, r6⟩ := aRem_aid w id hg
    have hmem := getA_mem hget
    have hmid := endAccess_mid_wf w id q a hw hg e0 hfind hobj hget
    have hmidN : NoOrphan (delA (aRem w id) q) := by
      refine ⟨?_, by simp only [delA_leaked, r6]; exact h.noleak, ?_, by simp only [delA_nobj, r5]; exact h.npos⟩
      · intro b hb
        have hb' := (mem_delA.mp hb).1
        rw [r4] at hb'
        simp only [delA_fidg, r2]
        exact h.alive b hb'
      · intro e he; simp only [delA_frecs, r3] at he; exact h.fpos e he
    -- the file id the access was started through is live, so the lookup succeeds
    obtain ⟨i, hi, hid⟩ := h.alive (q, a) hmem
    obtain ⟨k, _, hk2⟩ := ha.issued (q, a) hmem
    have hgF : ATOM_TO_GROUP a.fileId = FIDGROUP := by
      simp only [] at hk2; rw [hk2]; exact group_MAKE_ATOM FIDGROUP k (by decide)
    have hi' : i ∈ (delA (aRem w id) q).fidg.live := by simp only [delA_fidg, r2]; exact hi
    obtain ⟨p, r, hlf⟩ := lookF_of_live (cfg := cfg) hmid hmidN hgF hi' hid
    rw [hlf]
    obtain ⟨_, _, hgetF, _⟩ := lookF_file hk hlf
    have hmemF := getF_mem hgetF
    refine ⟨?_, hmidN.noleak, ?_, hmidN.npos⟩
    · intro b hb; simp only [setF_arecs] at hb; simp only [setF_fidg]; exact hmidN.alive b hb
    · intro e he
      rcases mem_setF he with ⟨rfl, _⟩ | ⟨he', _⟩
      · exact hmidN.fpos (p, r) hmemF
      · exact hmidN.fpos e he'

theorem step_noOrphan (cfg : Cfg) (hk : cfg.kindChecked = true) (hc : cfg.closeChecksAids = true) (w : World) (op : Op)
    (hw : WF w) (ha : WFA w) (h : NoOrphan w) : NoOrphan (step cfg w op).1 := by
  cases op with
  | nextread id f => simp only [step, nextRead_state]; exact h
  | hopen p a o => exact hopen_noOrphan w p a o hw h
  | hopenbad p a st =>
    simp only [step, hopenBad]
    repeat' split
    all_goals first
      | exact h
      | exact hopen_noOrphan w p a _ hw h
      | exact dd_noOrphan _ _ h
  | hclose id => exact hclose_noOrphan cfg hk hc w id h
  | startaccess id f wr => exact startAccess_noOrphan cfg hk w id f wr h
  | endaccess id => exact endAccess_noOrphan cfg hk w id hw ha h
  | usefid id => exact h
  | useaid id => exact h

theorem run_noOrphan (cfg : Cfg) (hk : cfg.kindChecked = true) (hc : cfg.closeChecksAids = true) (w : World) (ops : List Op)
    (hw : WF w) (ha : WFA w) (h : NoOrphan w) (hs : w.fidg.nextid + ops.length < 2 ^ 28) : NoOrphan (run cfg w ops) := by
  induction ops generalizing w with
  | nil => exact h
  | cons op ops ih =>
    have h1 := step_nextid cfg w op
    simp only [List.length_cons] at hs
    exact ih _ (step_wf cfg hk w op hw) (step_wfa cfg hk w op hw (by omega) ha) (step_noOrphan cfg hk hc w op hw ha h) (by omega)


end H4.Handles
