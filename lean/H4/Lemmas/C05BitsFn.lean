import H4.BitIOFn
import H4.Lemmas.BitIO
/-! Lemmas for `H4.Props.C05BitsFn` -/
set_option linter.unusedSimpArgs false
set_option linter.unusedVariables false
namespace H4.Lemmas.C05BitsFn
open H4 H4.BitIO H4.Gen.Hbitio H4.Gen.Fn.Hbitio2

/-- `(int)BITNUM`, `(int)DATANUM` as the translator writes them (exact two's complement reduction of the `size_t` constant) -/
theorem bitnum_int : ((((((1 * ((8) % 18446744073709551616))) % 18446744073709551616)) + 2147483648) % 4294967296 - 2147483648 : Int) = 8 := by decide
theorem datanum_int : ((((((4 * ((8) % 18446744073709551616))) % 18446744073709551616)) + 2147483648) % 4294967296 - 2147483648 : Int) = 32 := by decide

theorem maskl_len : (H4.Gen.Hbitio.maskl).length = 33 := rfl
theorem maskc_len : (H4.Gen.Hbitio.maskc).length = 9 := rfl
theorem mod256_nonneg (x : Int) : (0 ≤ x % 256) = True := by simp only [eq_iff_iff, iff_true]; omega
theorem zero_ne_neg1 : ((0 : Int) = -1) = False := by decide

/-- symbolic execution of translated code: unfold the given definitions / use the given facts to decide every `if`, with a fixed
    set of harmless normalisations (no arithmetic, no list lemmas that change the shape of terms) -/
syntax "c2l_simp" "[" Lean.Parser.Tactic.simpLemma,* "]" (Lean.Parser.Tactic.location)? : tactic
macro_rules
  | `(tactic| c2l_simp [$ls,*] $[$loc]?) =>
    `(tactic| simp only [$ls,*, Int.sub_zero, Int.add_zero, Int.zero_add, Int.toNat_zero, List.drop_zero, List.take_zero, List.nil_append,
        eq_self, decide_true, decide_false, ite_true, ite_false, if_true, if_false, Bool.false_eq_true, Bool.true_eq_false,
        not_true_eq_false, not_false_eq_true, ne_eq, gt_iff_lt, ge_iff_le, Bool.or_false, Bool.false_or, Bool.not_true, Bool.not_false,
        and_true, true_and, and_self, false_or, or_false, Int.le_refl, Bool.or_self, zero_ne_neg1,
        imp_self, false_implies, forall_const, true_implies, not_true_eq_false, not_false_eq_true, implies_true, true_or, or_true,
        and_false, false_and] $[$loc]?)

/-- the `ub` flag of a symbolically executed block is `false`: every recorded check holds -/
syntax "c2l_ub" "[" Lean.Parser.Tactic.simpLemma,* "]" : tactic
macro_rules
  | `(tactic| c2l_ub [$ls,*]) =>
    `(tactic| (simp only [Bool.or_eq_false_iff, Bool.not_eq_false', decide_eq_true_eq]
               try simp only [$ls,*, List.length_set, Int.ofNat_eq_natCast, maskl_len, maskc_len, mod256_nonneg]
               (repeat' apply And.intro) <;> first | trivial | omega))


/-- `c2l_simp` with the setters / `chk` of the translated `Hbitwrite` -/
syntax "wr_simp" "[" Lean.Parser.Tactic.simpLemma,* "]" (Lean.Parser.Tactic.location)? : tactic
macro_rules
  | `(tactic| wr_simp [$ls,*] $[$loc]?) =>
    `(tactic| c2l_simp [$ls,*, Hbitwrite.St.set_orig_count, Hbitwrite.St.set_ret, Hbitwrite.St.set_done, Hbitwrite.St.set_count, Hbitwrite.St.set_rec_block_offset, Hbitwrite.St.set_rec_bytea, Hbitwrite.St.set_rec_bytep, Hbitwrite.St.set_rec_count, Hbitwrite.St.set_rec_max_offset, Hbitwrite.St.set_rec_mode, Hbitwrite.St.set_rec_byte_offset, Hbitwrite.St.set_rec_bits, Hbitwrite.St.set_rec_bytez, Hbitwrite.St.set_rec_buf_read, Hbitwrite.St.set_io_elt, Hbitwrite.St.set_io_epos, Hbitwrite.St.set_io_enew, Hbitwrite.St.set_data, Hbitwrite.St.set_write_size, Hbitwrite.St.set_read_size, Hbitwrite.St.set_n, Hbitwrite.chk, Hbitwrite.St.join] $[$loc]?)

/-- `c2l_simp` with the setters / `chk` of the translated `HIbitflush` -/
syntax "fl_simp" "[" Lean.Parser.Tactic.simpLemma,* "]" (Lean.Parser.Tactic.location)? : tactic
macro_rules
  | `(tactic| fl_simp [$ls,*] $[$loc]?) =>
    `(tactic| c2l_simp [$ls,*, HIbitflush.St.set_rec_mode, HIbitflush.St.set_rec_block_offset, HIbitflush.St.set_rec_bytea, HIbitflush.St.set_rec_bytep, HIbitflush.St.set_rec_count, HIbitflush.St.set_rec_max_offset, HIbitflush.St.set_rec_byte_offset, HIbitflush.St.set_rec_bits, HIbitflush.St.set_rec_bytez, HIbitflush.St.set_rec_buf_read, HIbitflush.St.set_io_elt, HIbitflush.St.set_io_epos, HIbitflush.St.set_io_enew, HIbitflush.St.set_ret, HIbitflush.St.set_done, HIbitflush.St.set_write_size, HIbitflush.chk, HIbitflush.St.join] $[$loc]?)

/-- `c2l_simp` with the setters / `chk` of the translated `HIbitflush_m` -/
syntax "flm_simp" "[" Lean.Parser.Tactic.simpLemma,* "]" (Lean.Parser.Tactic.location)? : tactic
macro_rules
  | `(tactic| flm_simp [$ls,*] $[$loc]?) =>
    `(tactic| c2l_simp [$ls,*, HIbitflush_m.St.set_ret, HIbitflush_m.St.set_done, HIbitflush_m.St.set_rec_bytea, HIbitflush_m.St.set_rec_bytep, HIbitflush_m.St.set_rec_byte_offset, HIbitflush_m.St.set_rec_max_offset, HIbitflush_m.St.set_rec_count, HIbitflush_m.St.set_rec_bits, HIbitflush_m.St.set_write_size, HIbitflush_m.St.set_io_elt, HIbitflush_m.St.set_io_epos, HIbitflush_m.St.set_io_enew, HIbitflush_m.chk] $[$loc]?)

/-- `c2l_simp` with the setters / `chk` of the translated `Hbitread` -/
syntax "rd_simp" "[" Lean.Parser.Tactic.simpLemma,* "]" (Lean.Parser.Tactic.location)? : tactic
macro_rules
  | `(tactic| rd_simp [$ls,*] $[$loc]?) =>
    `(tactic| c2l_simp [$ls,*, Hbitread.St.set_b, Hbitread.St.set_ret, Hbitread.St.set_done, Hbitread.St.set_rec_count, Hbitread.St.set_rec_byte_offset, Hbitread.St.set_rec_max_offset, Hbitread.St.set_rec_mode, Hbitread.St.set_rec_block_offset, Hbitread.St.set_rec_bytea, Hbitread.St.set_rec_bytep, Hbitread.St.set_rec_bits, Hbitread.St.set_rec_bytez, Hbitread.St.set_rec_buf_read, Hbitread.St.set_io_elt, Hbitread.St.set_io_epos, Hbitread.St.set_io_enew, Hbitread.St.set_count, Hbitread.St.set_data, Hbitread.St.set_orig_count, Hbitread.St.set_n, Hbitread.St.set_l, Hbitread.chk, Hbitread.St.join] $[$loc]?)

/-- `c2l_simp` with the setters / `chk` of the translated `Hbitseek` -/
syntax "sk_simp" "[" Lean.Parser.Tactic.simpLemma,* "]" (Lean.Parser.Tactic.location)? : tactic
macro_rules
  | `(tactic| sk_simp [$ls,*] $[$loc]?) =>
    `(tactic| c2l_simp [$ls,*, Hbitseek.St.set_ret, Hbitseek.St.set_done, Hbitseek.St.set_new_block, Hbitseek.St.set_rec_count, Hbitseek.St.set_rec_byte_offset, Hbitseek.St.set_rec_max_offset, Hbitseek.St.set_rec_bytea, Hbitseek.St.set_rec_bytep, Hbitseek.St.set_rec_bits, Hbitseek.St.set_io_elt, Hbitseek.St.set_io_epos, Hbitseek.St.set_io_enew, Hbitseek.St.set_seek_pos, Hbitseek.St.set_read_size, Hbitseek.St.set_n, Hbitseek.St.set_rec_bytez, Hbitseek.St.set_rec_buf_read, Hbitseek.St.set_rec_block_offset, Hbitseek.chk, Hbitseek.St.join] $[$loc]?)

/-- `c2l_simp` with the setters / `chk` of the translated `HIread2write` -/
syntax "r2w_simp" "[" Lean.Parser.Tactic.simpLemma,* "]" (Lean.Parser.Tactic.location)? : tactic
macro_rules
  | `(tactic| r2w_simp [$ls,*] $[$loc]?) =>
    `(tactic| c2l_simp [$ls,*, HIread2write.St.set_pos, HIread2write.St.set_bit, HIread2write.St.set_rec_max_offset, HIread2write.St.set_rec_block_offset, HIread2write.St.set_rec_count, HIread2write.St.set_rec_byte_offset, HIread2write.St.set_rec_bytea, HIread2write.St.set_rec_bytep, HIread2write.St.set_rec_bits, HIread2write.St.set_rec_bytez, HIread2write.St.set_rec_buf_read, HIread2write.St.set_io_elt, HIread2write.St.set_io_epos, HIread2write.St.set_io_enew, HIread2write.St.set_ret, HIread2write.St.set_done, HIread2write.St.set_rec_mode, HIread2write.chk, HIread2write.St.join] $[$loc]?)

/-- `c2l_simp` with the setters / `chk` of the translated `HIwrite2read` -/
syntax "w2r_simp" "[" Lean.Parser.Tactic.simpLemma,* "]" (Lean.Parser.Tactic.location)? : tactic
macro_rules
  | `(tactic| w2r_simp [$ls,*] $[$loc]?) =>
    `(tactic| c2l_simp [$ls,*, HIwrite2read.St.set_prev_count, HIwrite2read.St.set_prev_offset, HIwrite2read.St.set_rec_count, HIwrite2read.St.set_rec_byte_offset, HIwrite2read.St.set_rec_max_offset, HIwrite2read.St.set_rec_mode, HIwrite2read.St.set_rec_block_offset, HIwrite2read.St.set_rec_bytea, HIwrite2read.St.set_rec_bytep, HIwrite2read.St.set_rec_bits, HIwrite2read.St.set_rec_bytez, HIwrite2read.St.set_rec_buf_read, HIwrite2read.St.set_io_elt, HIwrite2read.St.set_io_epos, HIwrite2read.St.set_io_enew, HIwrite2read.St.set_ret, HIwrite2read.St.set_done, HIwrite2read.chk, HIwrite2read.St.join] $[$loc]?)

/-! ## flat (record-level) form of the leaf blocks -/

/-- number of bytes `Hread(acc_id, n, …)` delivers on an element of `len` bytes at position `pos` -/
def kRead (len pos n : Int) : Int := if (n : Int) = 0 ∨ n + pos > len then Int.ofNat (Int.toNat (len - pos)) else n
/-- `MIN(max_offset - byte_offset, BITBUF_SIZE)` -/
def rdSize (mx off : Int) : Int := if mx - off < 4096 then mx - off else 4096

theorem kRead_fold (len pos n : Int) : (if (n : Int) = 0 ∨ n + pos > len then Int.ofNat (Int.toNat (len - pos)) else n) = kRead len pos n := rfl
theorem rdSize_fold (mx off : Int) : (if mx - off < 4096 then mx - off else 4096) = rdSize mx off := rfl

theorem rdSize_pos {mx off : Int} (h : mx > off) : 0 < rdSize mx off ∧ rdSize mx off ≤ 4096 := by
  unfold rdSize; split <;> omega
theorem kRead_bounds {len pos n : Int} (hn : 0 < n) : 0 ≤ kRead len pos n ∧ kRead len pos n ≤ n := by
  unfold kRead; simp only [Int.ofNat_eq_natCast]; split <;> omega
theorem kRead_avail {len pos n : Int} (hn : 0 < n) (hk : 0 < kRead len pos n) : kRead len pos n ≤ len - pos := by
  unfold kRead at hk ⊢; simp only [Int.ofNat_eq_natCast] at hk ⊢; split at hk <;> simp_all <;> omega
theorem kRead_le {len pos n : Int} (hn : 0 < n) (h : n ≤ 4096) : (kRead len pos n ≤ 4096) = True := by
  have := @kRead_bounds len pos n hn; simp only [eq_iff_iff, iff_true]; omega
theorem kRead_ne {len pos n : Int} (hn : 0 < n) : (kRead len pos n = -1) = False := by
  have := @kRead_bounds len pos n hn; simp only [eq_iff_iff, iff_false]; omega

/-- `*(bytep) = b; byte_offset++; if (++bytep == bytez) { Hwrite the block; block_offset += …; pre-read the next block }` -/
def fPut (r : CRec) (b : Int) : CRec :=
  let r1 : CRec := { r with bytea := r.bytea.set r.bytep.toNat b, byteOff := r.byteOff + 1, bytep := r.bytep + 1 }
  if r1.bytep = r1.bytez then
    let ws := r1.bytez
    let r2 : CRec := { r1 with bytep := 0, elt := r1.elt.take r1.epos.toNat ++ r1.bytea.take ws.toNat ++ r1.elt.drop (r1.epos + ws).toNat,
                               epos := r1.epos + ws, enew := 0, blockOff := r1.blockOff + ws }
    if r2.maxOff > r2.byteOff then
      let rs := rdSize r2.maxOff r2.byteOff
      let k := kRead r2.elt.length r2.epos rs
      { r2 with bytea := (r2.elt.drop r2.epos.toNat).take k.toNat ++ r2.bytea.drop k.toNat, bufRead := k,
                epos := if 0 ≤ r2.blockOff then r2.blockOff else r2.epos + k }
    else r2
  else r1

/-- the record inside the state of the translated `Hbitwrite` -/
def wrRec (s : Hbitwrite.St) : CRec :=
  { access := s.rec_access, mode := s.rec_mode, count := s.rec_count, bits := s.rec_bits, bufRead := s.rec_buf_read,
    byteOff := s.rec_byte_offset, maxOff := s.rec_max_offset, blockOff := s.rec_block_offset, bytep := s.rec_bytep,
    bytez := s.rec_bytez, bytea := s.rec_bytea, elt := s.io_elt, epos := s.io_epos, enew := s.io_enew }

theorem wr_body (fuel : Nat) (s : Hbitwrite.St) (hub : s.ub = false) (hdone : s.done = false)
    (hc : 8 ≤ s.count ∧ s.count < 40) (hd : 0 ≤ s.data) (hl : s.rec_bytea.length = 4096)
    (hp : 0 ≤ s.rec_bytep ∧ s.rec_bytep < 4096) (hz : 0 ≤ s.rec_bytez ∧ s.rec_bytez ≤ 4096) (he : 0 ≤ s.io_epos)
    (hb : 0 ≤ s.rec_block_offset) :
    let s' := Hbitwrite.loop0.body fuel s
    s'.ub = false ∧ s'.done = false ∧ s'.oof = s.oof ∧ wrRec s' = fPut (wrRec s) ((s.data / 2 ^ (s.count - 8).toNat) % 256) ∧
      s'.count = s.count - 8 ∧ s'.data = s.data ∧ s'.orig_count = s.orig_count ∧ s'.ret = s.ret := by
  obtain ⟨bitid, count, data, orig_count, rec_access, rec_mode, rec_block_offset, rec_bytep, rec_count, rec_bit_id, rec_max_offset, rec_byte_offset, rec_bits, rec_bytez, rec_buf_read, io_epos, io_enew, write_size, read_size, n, rec_null, rec_bytea, io_elt, ub, oof, ret, done⟩ := s
  simp only at hub hdone hc hd hl hp hz he hb
  subst hub hdone
  obtain ⟨hc1, hc2⟩ := hc
  obtain ⟨hp1, hp2⟩ := hp
  obtain ⟨hz1, hz2⟩ := hz
  have h8a : (0:Int) ≤ count - 8 := by omega
  have h8b : count - 8 < 32 := by omega
  have hzn : ¬ (rec_bytez = -1) := by omega
  have hzn' : (rec_bytez = -1) = False := by simp only [eq_iff_iff, iff_false]; omega
  have hbz : 0 ≤ rec_block_offset + rec_bytez := by omega
  have hl' : (rec_bytea.length : Int) = 4096 := by omega
  by_cases hfull : rec_bytep + 1 = rec_bytez
  · by_cases hmore : rec_max_offset > rec_byte_offset + 1
    · have hrs := rdSize_pos hmore
      wr_simp [Hbitwrite.loop0.body, kRead_fold, rdSize_fold, bitnum_int, fPut, wrRec,
        hfull, hzn', hmore, hrs.1, kRead_ne hrs.1, hb, hbz]
      c2l_ub [hl', kRead_le hrs.1 hrs.2]
    · wr_simp [Hbitwrite.loop0.body, kRead_fold, rdSize_fold, bitnum_int, fPut, wrRec,
        hfull, hzn', hmore, hb, hbz]
      c2l_ub [hl']
  · wr_simp [Hbitwrite.loop0.body, kRead_fold, rdSize_fold, bitnum_int, fPut, wrRec,
        hfull, hzn', hb, hbz]
    c2l_ub [hl']

/-! ## the C view of the model's primitives -/

@[simp] theorem ints_length (l : List Byte) : (ints l).length = l.length := by simp [ints]
@[simp] theorem ints_nil : ints [] = [] := rfl
@[simp] theorem ints_cons (a : Byte) (l : List Byte) : ints (a :: l) = (a.toNat : Int) :: ints l := rfl
theorem ints_append (a b : List Byte) : ints (a ++ b) = ints a ++ ints b := by simp [ints]
theorem ints_take (l : List Byte) (n : Nat) : ints (l.take n) = (ints l).take n := by simp [ints]
theorem ints_drop (l : List Byte) (n : Nat) : ints (l.drop n) = (ints l).drop n := by simp [ints]
theorem ints_getD (l : List Byte) (i : Nat) (h : i < l.length) : (ints l).getD i 0 = ((l[i]).toNat : Int) := by
  simp [ints, h]
theorem ints_set (l : List Byte) (i : Nat) (b : Byte) : (ints l).set i (b.toNat : Int) = ints (l.set i b) := by
  simp [ints, List.map_set]

/-- representation invariant of a model state: the zipper is consistent with `bytep`, the cursors are inside the buffer, no
    undefined behaviour / H-layer failure has happened; in write mode the cursor is strictly inside the block -/
structure Inv (m : St) : Prop where
  noOob : m.oob = false
  noErr : m.err = false
  bytep : m.bytep = m.pre.length
  len : m.pre.length + m.post.length = 4096
  zle : m.bytez ≤ 4096
  ple : m.bytep ≤ m.bytez
  cnt : m.count ≤ 8
  wlt : m.wMode = true → m.bytep < m.bytez
  bits : m.bits < 256
  wcnt : m.wMode = true → 1 ≤ m.count
  wacc : m.wMode = true → m.wAccess = true
  wz : m.wMode = true → m.bytez = 4096

/-- the part of `Inv` that only says that the C view is faithful (it survives `HIbitflush`, which may leave `bytep` at the end of the block) -/
structure Rep (m : St) : Prop where
  noOob : m.oob = false
  noErr : m.err = false
  bytep : m.bytep = m.pre.length
  len : m.pre.length + m.post.length = 4096
  zle : m.bytez ≤ 4096
  cnt : m.count ≤ 8
  bits : m.bits < 256

theorem Inv.rep {m : St} (h : Inv m) : Rep m := ⟨h.noOob, h.noErr, h.bytep, h.len, h.zle, h.cnt, h.bits⟩

theorem kRead_nat (L p n : Nat) :
    kRead (L : Int) (p : Int) (n : Int) = ((if n = 0 ∨ n + p > L then L - p else n : Nat) : Int) := by
  unfold kRead
  simp only [Int.ofNat_eq_natCast]
  split <;> split <;> omega

theorem rdSize_nat (mx off : Nat) (h : mx > off) : rdSize (mx : Int) (off : Int) = ((min (mx - off) 4096 : Nat) : Int) := by
  unfold rdSize; split <;> omega

theorem set_append_cons {α} (p : List α) (x b : α) (t : List α) : (p ++ x :: t).set p.length b = p ++ b :: t := by
  induction p with
  | nil => rfl
  | cons a p ih => simp [ih]

/-- `*(bytep) = b; byte_offset++; if (++bytep == bytez) …` of the model is `fPut` on the C view -/
theorem putByte_toC {m : St} (h : Inv m) (hw : m.wMode = true) (b : Nat) (hb : b < 256) :
    (putByte m b).toC = fPut m.toC b ∧ Inv (putByte m b) ∧ (putByte m b).wMode = true ∧ (putByte m b).wAccess = m.wAccess ∧
      (putByte m b).count = m.count ∧ (putByte m b).bits = m.bits ∧ (putByte m b).bytez = m.bytez := by
  obtain ⟨h1, h2, h3, h4, h5, h6, h7, h8, h9, h10, h11, h12⟩ := h
  have hlt := h8 hw
  have hcnt1 := h10 hw
  have hacc1 := h11 hw
  have hz1 := h12 hw
  obtain ⟨elem, posn, isNew, wAccess, wMode, blockOff, maxOff, byteOff, count, bufRead, bits, pre, post, bytep, bytez, oob, err⟩ := m
  simp only at h1 h2 h3 h4 h5 h6 h7 hlt hw h9 hcnt1 hacc1 hz1
  subst h1 h2 h3 hw
  cases post with
  | nil => simp at h4; omega
  | cons x t =>
    simp only [List.length_cons] at h4
    have hB : ((UInt8.ofNat b).toNat : Int) = (b : Int) := by rw [UInt8.toNat_ofNat']; omega
    by_cases hfull : pre.length + 1 = bytez
    · have hfull' : ((pre.length : Int) + 1 = (bytez : Int)) := by omega
      by_cases hmore : maxOff > byteOff + 1
      · have hmore' : (maxOff : Int) > (byteOff : Int) + 1 := by omega
        simp only [putByte, St.store, afterStore, St.adv, hfull, if_true, St.toC, fPut, St.buf, List.reverse_cons, List.append_assoc,
          List.singleton_append, ints_append, ints_cons, hfull', Int.toNat_natCast, hB, Int.natCast_add, Int.natCast_one,
          St.setPtr, hWrite, hRead, hSeek, St.load, hmore, hmore', List.take_zero, List.drop_zero, List.reverse_nil, List.nil_append,
          Bool.false_eq_true, if_false, ite_true, ite_false, consts]
        have hbuf : (pre.reverse ++ UInt8.ofNat b :: t).length = 4096 := by simp; omega
        have hdata : (List.take bytez (pre.reverse ++ UInt8.ofNat b :: t)).length = bytez := by rw [List.length_take, hbuf]; omega
        have e : (ints pre.reverse ++ (x.toNat : Int) :: ints t).set pre.length (b : Int) = ints (pre.reverse ++ UInt8.ofNat b :: t) := by
          have := set_append_cons (ints pre.reverse) (x.toNat : Int) (b : Int) (ints t)
          simp only [ints_length, List.length_reverse] at this
          rw [this, ints_append, ints_cons, hB]
        have e2 : ((posn : Int) + (bytez : Int)).toNat = posn + bytez := by omega
        simp only [hdata, e, e2, ← ints_take, ← ints_drop, ← ints_append]
        generalize hE : List.take posn elem ++ (List.take bytez (pre.reverse ++ UInt8.ofNat b :: t) ++ List.drop (posn + bytez) elem) = E
        generalize hN : (if min (maxOff - (byteOff + 1)) 4096 = 0 ∨ min (maxOff - (byteOff + 1)) 4096 + (posn + bytez) > E.length
          then E.length - (posn + bytez) else min (maxOff - (byteOff + 1)) 4096) = N
        have hkk : kRead (↑(ints E).length) (↑posn + ↑bytez) (rdSize (↑maxOff) (↑byteOff + 1)) = (N : Int) := by
          have h1 := rdSize_nat maxOff (byteOff + 1) hmore
          have h2 := kRead_nat E.length (posn + bytez) (min (maxOff - (byteOff + 1)) 4096)
          rw [hN] at h2
          simp only [Int.natCast_add, Int.natCast_one] at h1 h2
          rw [ints_length, h1, h2]
        have hNle : N ≤ E.length - (posn + bytez) ∧ N ≤ 4096 := by rw [← hN]; split <;> omega
        have hlen : (List.take N (List.drop (posn + bytez) E)).length = N := by simp; omega
        have hpos : (0 : Int) ≤ (blockOff : Int) + (bytez : Int) := by omega
        simp only [hkk, hlen, Int.toNat_natCast, hpos, if_true, Int.natCast_zero, true_and, and_true]
        exact ⟨rfl, rfl, rfl, by simp [hlen, hbuf]; omega, h5, by simp, h7, fun _ => by simp; omega, h9, fun _ => hcnt1, fun _ => hacc1, fun _ => hz1⟩
      · have hmore' : ¬ ((maxOff : Int) > (byteOff : Int) + 1) := by omega
        simp only [putByte, St.store, afterStore, St.adv, hfull, if_true, St.toC, fPut, St.buf, List.reverse_cons, List.append_assoc,
          List.singleton_append, ints_append, ints_cons, hfull', Int.toNat_natCast, hB, Int.natCast_add, Int.natCast_one,
          St.setPtr, hWrite, hRead, hSeek, St.load, hmore, hmore', List.take_zero, List.drop_zero, List.reverse_nil, List.nil_append,
          Bool.false_eq_true, if_false, ite_true, ite_false, consts]
        have hbuf : (pre.reverse ++ UInt8.ofNat b :: t).length = 4096 := by simp; omega
        have hdata : (List.take bytez (pre.reverse ++ UInt8.ofNat b :: t)).length = bytez := by rw [List.length_take, hbuf]; omega
        have e : (ints pre.reverse ++ (x.toNat : Int) :: ints t).set pre.length (b : Int) = ints (pre.reverse ++ UInt8.ofNat b :: t) := by
          have := set_append_cons (ints pre.reverse) (x.toNat : Int) (b : Int) (ints t)
          simp only [ints_length, List.length_reverse] at this
          rw [this, ints_append, ints_cons, hB]
        have e2 : ((posn : Int) + (bytez : Int)).toNat = posn + bytez := by omega
        simp only [hdata, e, e2, ← ints_take, ← ints_drop, ← ints_append, Int.natCast_zero, true_and, and_true]
        refine ⟨?_, ⟨rfl, rfl, rfl, by simp [hbuf], h5, by simp, h7, fun _ => by simp; omega, h9, fun _ => hcnt1, fun _ => hacc1, fun _ => hz1⟩⟩
        have e3 : ints (pre.reverse ++ UInt8.ofNat b :: t) = ints pre.reverse ++ (b : Int) :: ints t := by rw [ints_append, ints_cons, hB]
        rw [e3]
    · have hfull' : ¬ ((pre.length : Int) + 1 = (bytez : Int)) := by omega
      simp only [putByte, St.store, afterStore, St.adv, hfull, if_false, St.toC, fPut, St.buf, List.reverse_cons, List.append_assoc,
        List.singleton_append, ints_append, ints_cons, hfull', Int.toNat_natCast, hB, Int.natCast_add, Int.natCast_one]
      have e : (ints pre.reverse ++ (x.toNat : Int) :: ints t).set pre.length (b : Int) = ints pre.reverse ++ (b : Int) :: ints t := by
        have := set_append_cons (ints pre.reverse) (x.toNat : Int) (b : Int) (ints t)
        simp only [ints_length, List.length_reverse] at this
        exact this
      refine ⟨by rw [e], ⟨rfl, rfl, by simp, by simp; omega, h5, by simp; omega, h7, fun _ => by simp; omega, h9, fun _ => hcnt1, fun _ => hacc1, fun _ => hz1⟩, by simp⟩

theorem buf_length {m : St} (h : Inv m) : m.buf.length = 4096 := by
  simp [St.buf, h.len]

/-- what the translated code needs to know about the C view of a model state in write mode -/
theorem toC_w_facts {m : St} (h : Inv m) (hw : m.wMode = true) :
    m.toC.bytea.length = 4096 ∧ (0 ≤ m.toC.bytep ∧ m.toC.bytep < 4096) ∧ (0 ≤ m.toC.bytez ∧ m.toC.bytez ≤ 4096) ∧
      0 ≤ m.toC.epos ∧ 0 ≤ m.toC.blockOff := by
  have h1 := h.wlt hw
  have h2 := h.zle
  simp only [St.toC, ints_length, buf_length h]
  refine ⟨trivial, ⟨?_, ?_⟩, ⟨?_, ?_⟩, ?_, ?_⟩ <;> omega

theorem wr_loop_stop (fuel : Nat) (s : Hbitwrite.St) (h : s.count < 8) : Hbitwrite.loop0 fuel s = s := by
  have h' : ¬ (8 ≤ s.count) := by omega
  cases fuel <;> simp [Hbitwrite.loop0, bitnum_int, h']

theorem wr_loop_step (fuel : Nat) (s : Hbitwrite.St) (h : 8 ≤ s.count) (hd : s.done = false) :
    Hbitwrite.loop0 (fuel + 1) s = Hbitwrite.loop0 fuel (Hbitwrite.loop0.body (fuel + 1) s) := by
  simp [Hbitwrite.loop0, bitnum_int, h, hd]

theorem wholeBytes_stop (f : Nat) (m : St) (d c : Nat) (h : c < 8) : wholeBytes f m d c = (m, c) := by
  have h' : ¬ (c ≥ BITNUM) := by simp [consts]; omega
  cases f <;> simp [wholeBytes, h']

theorem byte_cast (d k : Nat) : (((d >>> k) % 256 : Nat) : Int) = (d : Int) / 2 ^ k % 256 := by
  rw [Nat.shiftRight_eq_div_pow]; simp

/-- the loop `while (count >= BITNUM) { *(bytep) = (uint8)(data >> (count -= BITNUM)); … }` of `Hbitwrite` is the model's `wholeBytes` -/
theorem wr_loop (n : Nat) : ∀ (c fuel f : Nat) (s : Hbitwrite.St) (m : St) (d : Nat),
    c < 8 * (n + 1) → c < 40 → n ≤ fuel → n ≤ f → s.ub = false → s.done = false → s.count = c → s.data = d → wrRec s = m.toC →
    Inv m → m.wMode = true →
    let s' := Hbitwrite.loop0 fuel s
    let r := wholeBytes f m d c
    s'.ub = false ∧ s'.done = false ∧ s'.oof = s.oof ∧ wrRec s' = r.1.toC ∧ s'.count = r.2 ∧ r.2 < 8 ∧ Inv r.1 ∧ r.1.wMode = true ∧
      r.1.wAccess = m.wAccess ∧ r.1.count = m.count ∧ r.1.bits = m.bits ∧ s'.data = s.data ∧ s'.orig_count = s.orig_count ∧ s'.ret = s.ret ∧
      r.1.bytez = m.bytez := by
  induction n with
  | zero =>
    intro c fuel f s m d hc _ _ _ hub hdone hcnt hdat hrec hinv hw
    have hc8 : c < 8 := by omega
    rw [show Hbitwrite.loop0 fuel s = s from wr_loop_stop fuel s (by omega), wholeBytes_stop f m d c hc8]
    exact ⟨hub, hdone, rfl, hrec, hcnt, hc8, hinv, hw, rfl, rfl, rfl, rfl, rfl, rfl, rfl⟩
  | succ n ih =>
    intro c fuel f s m d hc hc40 hfuel hf hub hdone hcnt hdat hrec hinv hw
    by_cases hc8 : c < 8
    · rw [show Hbitwrite.loop0 fuel s = s from wr_loop_stop fuel s (by omega), wholeBytes_stop f m d c hc8]
      exact ⟨hub, hdone, rfl, hrec, hcnt, hc8, hinv, hw, rfl, rfl, rfl, rfl, rfl, rfl, rfl⟩
    · obtain ⟨fuel, rfl⟩ : ∃ k, fuel = k + 1 := ⟨fuel - 1, by omega⟩
      obtain ⟨f, rfl⟩ : ∃ k, f = k + 1 := ⟨f - 1, by omega⟩
      obtain ⟨g1, g2, g3, g4, g5⟩ := toC_w_facts hinv hw
      rw [← hrec] at g1 g2 g3 g4 g5
      have hb := wr_body (fuel + 1) s hub hdone (by omega) (by omega) g1 g2 g3 g4 g5
      simp only at hb
      obtain ⟨b1, b2, b3, b4, b5, b6, b7, b8⟩ := hb
      have hbyte : (s.data / 2 ^ (s.count - 8).toNat) % 256 = (((d >>> (c - 8)) % 256 : Nat) : Int) := by
        rw [byte_cast, hdat, hcnt]
        congr 3; omega
      obtain ⟨p1, p2, p3, p4, p5, p6, p7⟩ := putByte_toC hinv hw ((d >>> (c - 8)) % 256) (Nat.mod_lt _ (by omega))
      rw [hrec, hbyte, ← p1] at b4
      have := ih (c - 8) fuel f (Hbitwrite.loop0.body (fuel + 1) s) (putByte m ((d >>> (c - 8)) % 256)) d (by omega) (by omega)
        (by omega) (by omega) b1 b2 (by rw [b5, hcnt]; omega) (by rw [b6, hdat]) b4 p2 p3
      simp only at this
      obtain ⟨q1, q2, q3, q4, q5, q6, q7, q8, q9, q10, q11, q12, q13, q14, q15⟩ := this
      have hm : wholeBytes (f + 1) m d c = wholeBytes f (putByte m ((d >>> (c - 8)) % 256)) d (c - 8) := by
        have h8 : c ≥ BITNUM := by simp [consts]; omega
        rw [wholeBytes, if_pos h8]; rfl
      rw [wr_loop_step fuel s (by omega) hdone, hm]
      exact ⟨q1, q2, by rw [q3, b3], q4, q5, q6, q7, q8, by rw [q9, p4], by rw [q10, p5], by rw [q11, p6], by rw [q12, b6],
        by rw [q13, b7], by rw [q14, b8], by rw [q15, p7]⟩

/-! ## `Hbitwrite`, segment by segment -/


/-- `data &= maskl[count]` as the translator writes it -/
def maskedC (data count : Int) : Int :=
  Int.ofNat (Int.toNat data &&& Int.toNat (Int.ofNat ((H4.Gen.Hbitio.maskl).getD (Int.toNat count) 0)))

theorem maskedC_fold (data count : Int) :
    Int.ofNat (Int.toNat data &&& Int.toNat (Int.ofNat ((H4.Gen.Hbitio.maskl).getD (Int.toNat count) 0))) = maskedC data count := rfl

theorem maskedC_nonneg (data count : Int) : 0 ≤ maskedC data count := by
  unfold maskedC; simp only [Int.ofNat_eq_natCast]; omega

/-- segment 2 of `Hbitwrite` (mask the data; merge into the bit buffer and return, or complete the current byte and store it) -/
theorem wr_seg2 (fuel : Nat) (s : Hbitwrite.St) (hub : s.ub = false) (hdone : s.done = false)
    (hc : 1 ≤ s.count ∧ s.count ≤ 32) (hd : 0 ≤ s.data) (hrc : 1 ≤ s.rec_count ∧ s.rec_count ≤ 8) (hbits : 0 ≤ s.rec_bits)
    (hl : s.rec_bytea.length = 4096)
    (hp : 0 ≤ s.rec_bytep ∧ s.rec_bytep < 4096) (hz : 0 ≤ s.rec_bytez ∧ s.rec_bytez ≤ 4096) (he : 0 ≤ s.io_epos)
    (hb : 0 ≤ s.rec_block_offset) :
    let dm := maskedC s.data s.count
    let s' := Hbitwrite.seg2 fuel s
    s'.ub = false ∧ s'.oof = s.oof ∧ s'.data = dm ∧ s'.orig_count = s.orig_count ∧
    (s.count < s.rec_count → s'.done = true ∧ s'.ret = s.orig_count ∧
      wrRec s' = { wrRec s with
        bits := (Int.ofNat (Int.toNat s.rec_bits ||| Int.toNat (dm * 2 ^ Int.toNat (s.rec_count - s.count) % 4294967296 % 256))) % 256,
        count := s.rec_count - s.count }) ∧
    (¬ s.count < s.rec_count → s'.done = false ∧ s'.ret = s.ret ∧ s'.count = s.count - s.rec_count ∧
      wrRec s' = fPut (wrRec s) ((Int.ofNat (Int.toNat s.rec_bits ||| Int.toNat (dm / 2 ^ Int.toNat (s.count - s.rec_count) % 256))) % 256)) := by
  obtain ⟨bitid, count, data, orig_count, rec_access, rec_mode, rec_block_offset, rec_bytep, rec_count, rec_bit_id, rec_max_offset, rec_byte_offset, rec_bits, rec_bytez, rec_buf_read, io_epos, io_enew, write_size, read_size, n, rec_null, rec_bytea, io_elt, ub, oof, ret, done⟩ := s
  simp only at hub hdone hc hd hl hp hz he hb hrc hbits
  subst hub hdone
  obtain ⟨hc1, hc2⟩ := hc
  obtain ⟨hp1, hp2⟩ := hp
  obtain ⟨hz1, hz2⟩ := hz
  obtain ⟨hrc1, hrc2⟩ := hrc
  have hzn' : (rec_bytez = -1) = False := by simp only [eq_iff_iff, iff_false]; omega
  have hbz : 0 ≤ rec_block_offset + rec_bytez := by omega
  have hl' : (rec_bytea.length : Int) = 4096 := by omega
  have hdm := maskedC_nonneg data count
  by_cases hearly : count < rec_count
  · wr_simp [Hbitwrite.seg2, maskedC_fold, wrRec, hearly]
    c2l_ub [hl']
  · have hfb : (0 : Int) ≤ count - rec_count ∧ count - rec_count < 32 := by omega
    by_cases hfull : rec_bytep + 1 = rec_bytez
    · by_cases hmore : rec_max_offset > rec_byte_offset + 1
      · have hrs := rdSize_pos hmore
        wr_simp [Hbitwrite.seg2, maskedC_fold, kRead_fold, rdSize_fold, fPut, wrRec, hearly,
          hfull, hzn', hmore, hrs.1, kRead_ne hrs.1, hb, hbz]
        c2l_ub [hl', kRead_le hrs.1 hrs.2]
      · wr_simp [Hbitwrite.seg2, maskedC_fold, kRead_fold, rdSize_fold, fPut, wrRec, hearly, hfull, hzn', hmore, hb, hbz]
        c2l_ub [hl']
    · wr_simp [Hbitwrite.seg2, maskedC_fold, kRead_fold, rdSize_fold, fPut, wrRec, hearly, hfull, hzn', hb, hbz]
      c2l_ub [hl']

/-! ### register arithmetic: the `Int` expressions of the translation are the model's `Nat` expressions -/

theorem maskedC_nat (d c : Nat) : maskedC (d : Int) (c : Int) = ((d &&& maskL c : Nat) : Int) := by
  simp [maskedC, maskL]

theorem early_bits (b dm mc c : Nat) (hb : b < 256) (hc : c < mc) :
    (Int.ofNat (Int.toNat (b : Int) ||| Int.toNat ((dm : Int) * 2 ^ Int.toNat ((mc : Int) - (c : Int)) % 4294967296 % 256))) % 256
      = ((b ||| ((dm <<< (mc - c)) % 256) : Nat) : Int) := by
  have e : Int.toNat ((mc : Int) - (c : Int)) = mc - c := by omega
  rw [e, Nat.shiftLeft_eq]
  have e2 : ((dm : Int) * 2 ^ (mc - c) % 4294967296 % 256) = ((dm * 2 ^ (mc - c) % 256 : Nat) : Int) := by
    have h1 : ((dm * 2 ^ (mc - c) : Nat) : Int) = (dm : Int) * 2 ^ (mc - c) := by simp
    rw [← h1]; omega
  rw [e2]
  simp only [Int.toNat_natCast, Int.ofNat_eq_natCast]
  have : b ||| dm * 2 ^ (mc - c) % 256 < 256 := Nat.or_lt_two_pow (n := 8) hb (Nat.mod_lt _ (by omega))
  omega

theorem first_bits (b dm mc c : Nat) (hc : mc ≤ c) :
    (Int.ofNat (Int.toNat (b : Int) ||| Int.toNat ((dm : Int) / 2 ^ Int.toNat ((c : Int) - (mc : Int)) % 256))) % 256
      = (((b ||| ((dm >>> (c - mc)) % 256)) % 256 : Nat) : Int) := by
  have e : Int.toNat ((c : Int) - (mc : Int)) = c - mc := by omega
  rw [e, Nat.shiftRight_eq_div_pow]
  have e2 : ((dm : Int) / 2 ^ (c - mc) % 256) = ((dm / 2 ^ (c - mc) % 256 : Nat) : Int) := by
    simp
  rw [e2]
  simp only [Int.toNat_natCast, Int.ofNat_eq_natCast]
  omega

theorem final_bits (dm c2 : Nat) (hc : c2 < 8) :
    ((dm : Int) * 2 ^ Int.toNat (8 - (c2 : Int))) % 4294967296 % 256 = (((dm <<< (8 - c2)) % 256 : Nat) : Int) := by
  have e : Int.toNat (8 - (c2 : Int)) = 8 - c2 := by omega
  rw [e, Nat.shiftLeft_eq]
  have h1 : ((dm * 2 ^ (8 - c2) : Nat) : Int) = (dm : Int) * 2 ^ (8 - c2) := by simp
  rw [← h1]; omega

/-- after a `return`, the remaining segments of `Hbitwrite` do nothing -/
theorem wr_seg_done (fuel : Nat) (s : Hbitwrite.St) (h : s.done = true) :
    Hbitwrite.seg1 fuel s = s ∧ Hbitwrite.seg2 fuel s = s ∧ Hbitwrite.seg3 fuel s = s ∧ Hbitwrite.seg4 fuel s = s := by
  refine ⟨?_, ?_, ?_, ?_⟩
  · simp only [Hbitwrite.seg1, h, if_true]
  · simp only [Hbitwrite.seg2, h, if_true]
  · simp only [Hbitwrite.seg3, h, if_true]
  · simp only [Hbitwrite.seg4, h, if_true]

/-- segment 0 of `Hbitwrite`: the argument checks and the clipping of `count` to `DATANUM` -/
theorem wr_seg0 (fuel : Nat) (s : Hbitwrite.St) (hub : s.ub = false) (hdone : s.done = false) (hnull : s.rec_null = false) :
    let s' := Hbitwrite.seg0 fuel s
    s'.ub = false ∧ s'.oof = s.oof ∧ wrRec s' = wrRec s ∧ s'.data = s.data ∧ s'.orig_count = s.count ∧
    ((s.count ≤ 0 ∨ s.rec_access ≠ 119) → s'.done = true ∧ s'.ret = -1) ∧
    (0 < s.count → s.rec_access = 119 → s'.done = false ∧ s'.ret = s.ret ∧ s'.count = (if s.count > 32 then 32 else s.count)) := by
  obtain ⟨bitid, count, data, orig_count, rec_access, rec_mode, rec_block_offset, rec_bytep, rec_count, rec_bit_id, rec_max_offset, rec_byte_offset, rec_bits, rec_bytez, rec_buf_read, io_epos, io_enew, write_size, read_size, n, rec_null, rec_bytea, io_elt, ub, oof, ret, done⟩ := s
  simp only at hub hdone hnull
  subst hub hdone hnull
  by_cases h0 : count ≤ 0
  · have h0' : ¬ (0 < count) := by omega
    wr_simp [Hbitwrite.seg0, wrRec, datanum_int, h0, h0']
  · have h0' : 0 < count := by omega
    by_cases ha : rec_access = 119
    · by_cases h32 : count > 32
      · wr_simp [Hbitwrite.seg0, wrRec, datanum_int, h0, h0', ha, h32]
      · wr_simp [Hbitwrite.seg0, wrRec, datanum_int, h0, h0', ha, h32]
    · wr_simp [Hbitwrite.seg0, wrRec, datanum_int, h0, h0', ha]

/-- segment 1 of `Hbitwrite` in write mode: no mode switch -/
theorem wr_seg1_w (fuel : Nat) (s : Hbitwrite.St) (hdone : s.done = false) (hm : s.rec_mode = 119) : Hbitwrite.seg1 fuel s = s := by
  have hm' : ¬ (s.rec_mode = 114) := by omega
  simp only [Hbitwrite.seg1, hdone, hm', Bool.false_eq_true, if_false]

/-- segment 4 of `Hbitwrite`: the remaining bits go to the bit buffer, `max_offset` follows `byte_offset`, `return orig_count` -/
theorem wr_seg4 (fuel : Nat) (s : Hbitwrite.St) (hub : s.ub = false) (hdone : s.done = false) (hc : 0 ≤ s.count ∧ s.count < 8)
    (hd : 0 ≤ s.data) :
    let s' := Hbitwrite.seg4 fuel s
    s'.ub = false ∧ s'.oof = s.oof ∧ s'.done = true ∧ s'.ret = s.orig_count ∧
      wrRec s' = { wrRec s with count := 8 - s.count, bits := s.data * 2 ^ Int.toNat (8 - s.count) % 4294967296 % 256,
                                maxOff := if s.rec_byte_offset > s.rec_max_offset then s.rec_byte_offset else s.rec_max_offset } := by
  obtain ⟨bitid, count, data, orig_count, rec_access, rec_mode, rec_block_offset, rec_bytep, rec_count, rec_bit_id, rec_max_offset, rec_byte_offset, rec_bits, rec_bytez, rec_buf_read, io_epos, io_enew, write_size, read_size, n, rec_null, rec_bytea, io_elt, ub, oof, ret, done⟩ := s
  simp only at hub hdone hc hd
  subst hub hdone
  have h1 : (8 : Int) - count > 0 := by omega
  by_cases hmo : rec_byte_offset > rec_max_offset
  · wr_simp [Hbitwrite.seg4, wrRec, bitnum_int, h1, hmo]
    c2l_ub []
  · wr_simp [Hbitwrite.seg4, wrRec, bitnum_int, h1, hmo]
    c2l_ub []

theorem wr_seg3_run (fuel : Nat) (s : Hbitwrite.St) (h : s.done = false) : Hbitwrite.seg3 fuel s = Hbitwrite.loop0 fuel s := by
  simp only [Hbitwrite.seg3, h, Bool.false_eq_true, if_false]

/-- segments 2..4 of `Hbitwrite` in write mode (`count` checked and clipped) are the model's `bitwriteCore` -/
theorem wr_core (fuel : Nat) (s : Hbitwrite.St) (m : St) (c d : Nat) (hc1 : 1 ≤ c) (hc : c ≤ 32) (hf : 3 ≤ fuel)
    (hub : s.ub = false) (hdone : s.done = false) (hcnt : s.count = c) (hdat : s.data = d) (hrec : wrRec s = m.toC)
    (hinv : Inv m) (hw : m.wMode = true) :
    let s' := Hbitwrite.seg4 fuel (Hbitwrite.seg3 fuel (Hbitwrite.seg2 fuel s))
    let m' := bitwriteCore m c d
    s'.ub = false ∧ s'.oof = s.oof ∧ s'.done = true ∧ s'.ret = s.orig_count ∧ wrRec s' = m'.toC ∧ Inv m' ∧ m'.wMode = true ∧
      m'.wAccess = m.wAccess ∧ m'.bytez = m.bytez := by
  obtain ⟨g1, g2, g3, g4, g5⟩ := toC_w_facts hinv hw
  have gc : (1 : Int) ≤ m.toC.count ∧ m.toC.count ≤ 8 := by
    have := hinv.wcnt hw; have := hinv.cnt; simp only [St.toC]; omega
  have gb : (0 : Int) ≤ m.toC.bits := by simp only [St.toC]; omega
  rw [← hrec] at g1 g2 g3 g4 g5 gc gb
  have h2 := wr_seg2 fuel s hub hdone (by omega) (by omega) gc gb g1 g2 g3 g4 g5
  simp only at h2
  obtain ⟨a1, a2, a3, a4, a5, a6⟩ := h2
  have hmc : s.rec_count = (m.count : Int) := congrArg CRec.count hrec
  have hmb : s.rec_bits = (m.bits : Int) := congrArg CRec.bits hrec
  have hdm : maskedC s.data s.count = ((d &&& maskL c : Nat) : Int) := by rw [hdat, hcnt, maskedC_nat]
  by_cases hearly : c < m.count
  · -- the new bits fit into the bit buffer
    obtain ⟨e1, e2, e3⟩ := a5 (by omega)
    obtain ⟨-, -, d3, d4⟩ := wr_seg_done fuel (Hbitwrite.seg2 fuel s) e1
    simp only [d3, d4]
    have hm' : bitwriteCore m c d = { m with count := m.count - c, bits := m.bits ||| (((d &&& maskL c) <<< (m.count - c)) % 256) } := by
      simp only [bitwriteCore, hearly, if_true]
    rw [hm']
    refine ⟨a1, a2, e1, e2, ?_, ?_, hw, rfl, rfl⟩
    · rw [e3, hrec, hmc, hmb, hdm, hcnt, early_bits _ _ _ _ hinv.bits hearly]
      simp only [St.toC, St.buf]
      congr 1
      omega
    · have hb' : m.bits ||| (((d &&& maskL c) <<< (m.count - c)) % 256) < 256 :=
        Nat.or_lt_two_pow (n := 8) hinv.bits (Nat.mod_lt _ (by omega))
      exact ⟨hinv.noOob, hinv.noErr, hinv.bytep, hinv.len, hinv.zle, hinv.ple, by have := hinv.cnt; simp only; omega, hinv.wlt, hb',
        fun _ => by simp only; omega, hinv.wacc, hinv.wz⟩
  · -- the current byte is completed and stored, whole bytes follow, the rest goes to the bit buffer
    obtain ⟨e1, e2, e3, e4⟩ := a6 (by omega)
    have hmc1 := hinv.wcnt hw
    obtain ⟨p1, p2, p3, p4, p5, p6, p7⟩ := putByte_toC hinv hw ((m.bits ||| (((d &&& maskL c) >>> (c - m.count)) % 256)) % 256)
      (Nat.mod_lt _ (by omega))
    have hrec2 : wrRec (Hbitwrite.seg2 fuel s) = (putByte m ((m.bits ||| (((d &&& maskL c) >>> (c - m.count)) % 256)) % 256)).toC := by
      rw [e4, hrec, hmb, hdm, hcnt, hmc, first_bits _ _ _ _ (by omega), ← p1]
    rw [wr_seg3_run _ _ e1]
    have hl := wr_loop ((c - m.count) / 8) (c - m.count) fuel (c - m.count) (Hbitwrite.seg2 fuel s)
      (putByte m ((m.bits ||| (((d &&& maskL c) >>> (c - m.count)) % 256)) % 256)) (d &&& maskL c)
      (by omega) (by omega) (by omega) (by omega) a1 e1 (by rw [e3, hcnt, hmc]; omega) (by rw [a3, hdm]) hrec2 p2 p3
    simp only at hl
    have hm' : bitwriteCore m c d =
        (let r := wholeBytes (c - m.count) (putByte m ((m.bits ||| (((d &&& maskL c) >>> (c - m.count)) % 256)) % 256)) (d &&& maskL c) (c - m.count)
         let s3 : St := if 8 - r.2 > 0 then { r.1 with count := 8 - r.2, bits := ((d &&& maskL c) <<< (8 - r.2)) % 256 } else { r.1 with count := 8 - r.2 }
         if s3.byteOff > s3.maxOff then { s3 with maxOff := s3.byteOff } else s3) := by
      simp only [bitwriteCore, hearly, if_false, consts]
    rw [hm']
    generalize Hbitwrite.loop0 fuel (Hbitwrite.seg2 fuel s) = L at hl ⊢
    generalize wholeBytes (c - m.count) (putByte m ((m.bits ||| (((d &&& maskL c) >>> (c - m.count)) % 256)) % 256)) (d &&& maskL c) (c - m.count) = W at hl ⊢
    obtain ⟨m2, c2⟩ := W
    obtain ⟨q1, q2, q3, q4, q5, q6, q7, q8, q9, q10, q11, q12, q13, q14, q15⟩ := hl
    simp only at q4 q5 q6 q7 q8 q9 q10 q11 q15
    have h4 := wr_seg4 fuel L q1 q2 (by rw [q5]; omega) (by rw [q12, a3, hdm]; omega)
    simp only at h4
    obtain ⟨f1, f2, f3, f4, f5⟩ := h4
    have hc2 : 8 - c2 > 0 := by omega
    simp only [hc2, if_true]
    have hbo : L.rec_byte_offset = (m2.byteOff : Int) := congrArg CRec.byteOff q4
    have hmo : L.rec_max_offset = (m2.maxOff : Int) := congrArg CRec.maxOff q4
    have hbits : L.data * 2 ^ Int.toNat (8 - L.count) % 4294967296 % 256 = ((((d &&& maskL c) <<< (8 - c2)) % 256 : Nat) : Int) := by
      rw [q12, a3, hdm, q5, final_bits _ _ q6]
    have hb' : ((d &&& maskL c) <<< (8 - c2)) % 256 < 256 := Nat.mod_lt _ (by omega)
    refine ⟨f1, by rw [f2, q3, a2], f3, by rw [f4, q13, a4], ?_, ?_, ?_, ?_, ?_⟩
    · rw [f5, q4, hbo, hmo, hbits, q5]
      by_cases hgt : m2.byteOff > m2.maxOff
      · have hgt' : (m2.byteOff : Int) > (m2.maxOff : Int) := by omega
        simp only [hgt, hgt', if_true, St.toC, St.buf]
        congr 1
        omega
      · have hgt' : ¬ ((m2.byteOff : Int) > (m2.maxOff : Int)) := by omega
        simp only [hgt, hgt', if_false, St.toC, St.buf]
        congr 1
        omega
    · by_cases hgt : m2.byteOff > m2.maxOff
      · simp only [hgt, if_true]
        exact ⟨q7.noOob, q7.noErr, q7.bytep, q7.len, q7.zle, q7.ple, by simp only; omega, q7.wlt, hb', fun _ => by simp only; omega, q7.wacc, q7.wz⟩
      · simp only [hgt, if_false]
        exact ⟨q7.noOob, q7.noErr, q7.bytep, q7.len, q7.zle, q7.ple, by simp only; omega, q7.wlt, hb', fun _ => by simp only; omega, q7.wacc, q7.wz⟩
    · by_cases hgt : m2.byteOff > m2.maxOff <;> simp only [hgt, if_true, if_false] <;> exact q8
    · by_cases hgt : m2.byteOff > m2.maxOff <;> simp only [hgt, if_true, if_false] <;> rw [q9, p4]
    · by_cases hgt : m2.byteOff > m2.maxOff <;> simp only [hgt, if_true, if_false] <;> rw [q15, p7]

/-- the state in which the translated `Hbitwrite` starts on the record `r` -/
def wrInit (r : CRec) (count data : Int) : Hbitwrite.St :=
  { bitid := bitId, count := count, data := data, rec_null := false, rec_access := r.access, rec_mode := r.mode,
    rec_block_offset := r.blockOff, rec_bytea := r.bytea, rec_bytep := r.bytep, rec_count := r.count, rec_bit_id := bitId,
    rec_max_offset := r.maxOff, rec_bytez := r.bytez, rec_buf_read := r.bufRead, rec_byte_offset := r.byteOff, rec_bits := r.bits,
    io_elt := r.elt, io_epos := r.epos, io_enew := r.enew }

theorem cBitwrite_eq (fuel : Nat) (r : CRec) (count data : Int) :
    cBitwrite fuel r count data =
      (let s := Hbitwrite.seg4 fuel (Hbitwrite.seg3 fuel (Hbitwrite.seg2 fuel (Hbitwrite.seg1 fuel (Hbitwrite.seg0 fuel (wrInit r count data)))))
       { crec := wrRec s, ret := s.ret, ub := s.ub, oof := s.oof }) := rfl

theorem modeChar_w : modeChar true = 119 := rfl
theorem modeChar_r : modeChar false = 114 := rfl

/-- **`Hbitwrite` in write mode** (no mode switch): the translated function computes the model's `bitwrite` on the C view -/
theorem Hbitwrite_w (m : St) (hinv : Inv m) (hw : m.wMode = true) (count : Int) (data : Nat) (hd : data < 2 ^ 32)
    (fuel : Nat) (hf : 3 ≤ fuel) :
    let o := cBitwrite fuel m.toC count data
    let r := bitwrite m count.toNat data
    o.ub = false ∧ o.oof = false ∧ o.crec = r.1.toC ∧ o.ret = (match r.2 with | some _ => count | none => -1) ∧ Inv r.1 ∧
      r.1.wMode = true ∧ r.1.wAccess = m.wAccess ∧ r.1.bytez = m.bytez := by
  rw [cBitwrite_eq]
  have h0 := wr_seg0 fuel (wrInit m.toC count data) rfl rfl rfl
  simp only at h0
  obtain ⟨a1, a2, a3, a4, a5, a6, a7⟩ := h0
  have hrec0 : wrRec (wrInit m.toC count data) = m.toC := rfl
  by_cases hbad : count ≤ 0 ∨ m.wAccess = false
  · -- `count <= 0` or no write access: FAIL, nothing changes
    have hb' : (wrInit m.toC count data).count ≤ 0 ∨ (wrInit m.toC count data).rec_access ≠ 119 := by
      rcases hbad with h | h
      · exact Or.inl h
      · right; show modeChar m.wAccess ≠ 119; rw [h]; decide
    obtain ⟨b1, b2⟩ := a6 hb'
    obtain ⟨d1, -, -, -⟩ := wr_seg_done fuel _ b1
    rw [d1]
    obtain ⟨-, d2, -, -⟩ := wr_seg_done fuel _ b1
    rw [d2]
    obtain ⟨-, -, d3, -⟩ := wr_seg_done fuel _ b1
    rw [d3]
    obtain ⟨-, -, -, d4⟩ := wr_seg_done fuel _ b1
    rw [d4]
    have hm : bitwrite m count.toNat data = (m, none) := by
      rcases hbad with h | h
      · have : count.toNat = 0 := by omega
        simp [bitwrite, this]
      · simp [bitwrite, h]
    rw [hm]
    exact ⟨a1, a2, a3, b2, hinv, hw, rfl, rfl⟩
  · have hc0 : 0 < count := by
      by_cases h : 0 < count
      · exact h
      · exact absurd (Or.inl (by omega)) hbad
    have hacc : m.wAccess = true := by
      cases h : m.wAccess
      · exact absurd (Or.inr h) hbad
      · rfl
    obtain ⟨b1, b2, b3⟩ := a7 hc0 (by show modeChar m.wAccess = 119; rw [hacc]; rfl)
    have hmode : (Hbitwrite.seg0 fuel (wrInit m.toC count data)).rec_mode = 119 := by
      have := congrArg CRec.mode a3
      exact this.trans (by show modeChar m.wMode = 119; rw [hw]; rfl)
    rw [wr_seg1_w fuel _ b1 hmode]
    have hcc : (Hbitwrite.seg0 fuel (wrInit m.toC count data)).count = ((min count.toNat 32 : Nat) : Int) := by
      rw [b3]; show (if count > 32 then 32 else count) = _
      split <;> omega
    have hk := wr_core fuel (Hbitwrite.seg0 fuel (wrInit m.toC count data)) m (min count.toNat 32) data (by omega) (by omega) hf a1 b1
      hcc a4 (a3.trans hrec0) hinv hw
    simp only at hk
    obtain ⟨k1, k2, k3, k4, k5, k6, k7, k8, k9⟩ := hk
    have hm : bitwrite m count.toNat data = (bitwriteCore m (min count.toNat 32) data, some count.toNat) := by
      have hne : ¬ (count.toNat = 0) := by omega
      have hmod : data % 2 ^ 32 = data := Nat.mod_eq_of_lt hd
      simp only [bitwrite, hne, if_false, hacc, hw, Bool.not_true, Bool.false_eq_true, consts, hmod, k6.noErr]
    rw [hm]
    exact ⟨k1, (k2.trans a2).trans rfl, k5, k4.trans a5, k6, k7, k8, k9⟩

/-! ## `HIbitflush`, segment by segment -/

/-- the record inside the state of the translated `HIbitflush` -/
def flRec (s : HIbitflush.St) : CRec :=
  { access := s.rec_access, mode := s.rec_mode, count := s.rec_count, bits := s.rec_bits, bufRead := s.rec_buf_read,
    byteOff := s.rec_byte_offset, maxOff := s.rec_max_offset, blockOff := s.rec_block_offset, bytep := s.rec_bytep,
    bytez := s.rec_bytez, bytea := s.rec_bytea, elt := s.io_elt, epos := s.io_epos, enew := s.io_enew }

/-- `(uint8)(~(maskc[BITNUM - count] << count))` as the translator writes it -/
def mergeMaskC (count : Int) : Int :=
  (-(Int.ofNat ((H4.Gen.Hbitio.maskc).getD (Int.toNat (8 - count)) 0) * 2 ^ Int.toNat count) - 1) % 256

theorem mergeMaskC_fold (count : Int) :
    (-(Int.ofNat ((H4.Gen.Hbitio.maskc).getD (Int.toNat (8 - count)) 0) * 2 ^ Int.toNat count) - 1) % 256 = mergeMaskC count := rfl

/-- the "middle of the dataset" branch of `HIbitflush`: the pending bits are merged into the byte under the cursor -/
def fMerge (r : CRec) : CRec :=
  let x := r.bytea.getD r.bytep.toNat 0
  let x1 := Int.ofNat (x.toNat &&& (mergeMaskC r.count).toNat) % 256
  let x2 := Int.ofNat (x1.toNat ||| r.bits.toNat) % 256
  { r with bytea := r.bytea.set r.bytep.toNat x2, bytep := r.bytep + 1, byteOff := r.byteOff + 1,
           maxOff := if r.byteOff + 1 > r.maxOff then r.byteOff + 1 else r.maxOff, count := 8, bits := 0 }

/-- `if (writeout == TRUE) { write_size = MIN(bytez - bytea, max_offset - block_offset); if (write_size > 0) Hwrite(…) }` -/
def fWriteout (r : CRec) : CRec :=
  let ws := if r.bytez < r.maxOff - r.blockOff then r.bytez else r.maxOff - r.blockOff
  if ws > 0 then
    { r with elt := r.elt.take r.epos.toNat ++ r.bytea.take ws.toNat ++ r.elt.drop (r.epos + ws).toNat, epos := r.epos + ws, enew := 0 }
  else r

theorem getD_set_self' {α} (l : List α) (i : Nat) (v d : α) (h : i < l.length) : (l.set i v).getD i d = v := by
  simp [h]

theorem fl_seg0_skip (fuel : Nat) (s : HIbitflush.St) (h : 8 ≤ s.rec_count) : HIbitflush.seg0 fuel s = s := by
  have h' : ¬ (s.rec_count < 8) := by omega
  simp only [HIbitflush.seg0, bitnum_int, h', if_false]

theorem fl_seg0_merge (fuel : Nat) (s : HIbitflush.St) (hub : s.ub = false) (hc : 0 ≤ s.rec_count ∧ s.rec_count < 8)
    (hcond : ¬ (s.rec_byte_offset ≥ s.rec_max_offset ∧ s.flushbit ≠ -1)) (hl : s.rec_bytea.length = 4096)
    (hp : 0 ≤ s.rec_bytep ∧ s.rec_bytep < 4096) (hbits : 0 ≤ s.rec_bits) (hx : 0 ≤ s.rec_bytea.getD s.rec_bytep.toNat 0) :
    let s' := HIbitflush.seg0 fuel s
    s'.ub = false ∧ s'.oof = s.oof ∧ s'.done = s.done ∧ s'.ret = s.ret ∧ s'.flushbit = s.flushbit ∧ s'.writeout = s.writeout ∧
      flRec s' = fMerge (flRec s) := by
  obtain ⟨flushbit, writeout, write_size, rec_count, rec_byte_offset, rec_max_offset, rec_bit_id, rec_access, rec_mode, rec_block_offset, rec_bytep, rec_bits, rec_bytez, rec_buf_read, io_epos, io_enew, rec_bytea, io_elt, ub, oof, ret, done⟩ := s
  simp only at hub hc hcond hl hp hbits hx
  subst hub
  obtain ⟨hc1, hc2⟩ := hc
  obtain ⟨hp1, hp2⟩ := hp
  have hl' : (rec_bytea.length : Int) = 4096 := by omega
  have hpn : rec_bytep.toNat < rec_bytea.length := by omega
  have hmm : (0 ≤ mergeMaskC rec_count) = True := by unfold mergeMaskC; exact mod256_nonneg _
  by_cases hmo : rec_byte_offset + 1 > rec_max_offset
  · fl_simp [HIbitflush.seg0, bitnum_int, mergeMaskC_fold, fMerge, flRec, hc2, hcond, hmo, getD_set_self' _ _ _ _ hpn, List.set_set,
      Int.zero_emod]
    c2l_ub [hl', hmm]
  · fl_simp [HIbitflush.seg0, bitnum_int, mergeMaskC_fold, fMerge, flRec, hc2, hcond, hmo, getD_set_self' _ _ _ _ hpn, List.set_set,
      Int.zero_emod]
    c2l_ub [hl', hmm]

theorem fl_seg1 (fuel : Nat) (s : HIbitflush.St) (hub : s.ub = false) (hdone : s.done = false) (hl : s.rec_bytea.length = 4096)
    (hz : 0 ≤ s.rec_bytez ∧ s.rec_bytez ≤ 4096) (he : 0 ≤ s.io_epos) :
    let s' := HIbitflush.seg1 fuel s
    s'.ub = false ∧ s'.oof = s.oof ∧ s'.done = true ∧ s'.ret = 0 ∧
      flRec s' = if s.writeout = 1 then fWriteout (flRec s) else flRec s := by
  obtain ⟨flushbit, writeout, write_size, rec_count, rec_byte_offset, rec_max_offset, rec_bit_id, rec_access, rec_mode, rec_block_offset, rec_bytep, rec_bits, rec_bytez, rec_buf_read, io_epos, io_enew, rec_bytea, io_elt, ub, oof, ret, done⟩ := s
  simp only at hub hdone hl hz he
  subst hub hdone
  obtain ⟨hz1, hz2⟩ := hz
  have hl' : (rec_bytea.length : Int) = 4096 := by omega
  by_cases hwo : writeout = 1
  · by_cases hlt : rec_bytez < rec_max_offset - rec_block_offset
    · by_cases hpos : rec_bytez > 0
      · have hn : (rec_bytez = -1) = False := by simp only [eq_iff_iff, iff_false]; omega
        fl_simp [HIbitflush.seg1, fWriteout, flRec, hwo, hlt, hpos, hn]
        c2l_ub [hl']
      · fl_simp [HIbitflush.seg1, fWriteout, flRec, hwo, hlt, hpos]
    · by_cases hpos : rec_max_offset - rec_block_offset > 0
      · have hn : (rec_max_offset - rec_block_offset = -1) = False := by simp only [eq_iff_iff, iff_false]; omega
        fl_simp [HIbitflush.seg1, fWriteout, flRec, hwo, hlt, hpos, hn]
        c2l_ub [hl']
      · fl_simp [HIbitflush.seg1, fWriteout, flRec, hwo, hlt, hpos]
  · fl_simp [HIbitflush.seg1, fWriteout, flRec, hwo]

/-- the branch of `HIbitflush` that completes the last byte with the flush bit: a call of (the translated) `Hbitwrite` on the same record -/
theorem fl_seg0_call (fuel : Nat) (s : HIbitflush.St) (hc : s.rec_count < 8) (hid : s.rec_bit_id = bitId)
    (hcond : s.rec_byte_offset ≥ s.rec_max_offset ∧ s.flushbit ≠ -1) :
    let o := cBitwrite fuel (flRec s) s.rec_count ((if s.flushbit ≠ 0 then 255 else 0) % 4294967296)
    let s' := HIbitflush.seg0 fuel s
    s'.ub = (s.ub || o.ub) ∧ s'.oof = (s.oof || o.oof) ∧ s'.done = (if o.ret = -1 then true else s.done) ∧
      s'.ret = (if o.ret = -1 then -1 else s.ret) ∧ s'.flushbit = s.flushbit ∧ s'.writeout = s.writeout ∧
      flRec s' = { o.crec with access := s.rec_access } := by
  obtain ⟨flushbit, writeout, write_size, rec_count, rec_byte_offset, rec_max_offset, rec_bit_id, rec_access, rec_mode, rec_block_offset, rec_bytep, rec_bits, rec_bytez, rec_buf_read, io_epos, io_enew, rec_bytea, io_elt, ub, oof, ret, done⟩ := s
  simp only at hc hcond hid
  subst hid
  intro o
  by_cases hr : o.ret = -1
  · have hr' := hr
    simp only [o, cBitwrite, flRec] at hr'
    fl_simp [HIbitflush.seg0, bitnum_int, flRec, hc, hcond, hr, hr', o, cBitwrite]
  · have hr' := hr
    simp only [o, cBitwrite, flRec] at hr'
    fl_simp [HIbitflush.seg0, bitnum_int, flRec, hc, hcond, hr, hr', o, cBitwrite]

/-! ### the model's `bitflush` in two steps -/

/-- the "middle of the dataset" branch of the model's `bitflush` -/
def mMerge (s : St) : St :=
  let (x, s) := s.peek
  let m := (255 ^^^ ((maskC (BITNUM - s.count) <<< s.count) % 256))
  let s := s.store (UInt8.ofNat (((x.toNat &&& m) ||| s.bits) % 256))
  let s := s.adv
  let s := { s with byteOff := s.byteOff + 1 }
  let s := if s.byteOff > s.maxOff then { s with maxOff := s.byteOff } else s
  { s with count := BITNUM, bits := 0 }

/-- the write-out step of the model's `bitflush` -/
def mWriteout (s : St) (writeout : Bool) : St :=
  if writeout then
    let writeSize := min s.bytez (s.maxOff - s.blockOff)
    if writeSize > 0 then hWrite s (s.buf.take writeSize) else s
  else s

theorem bitflush_eq (s : St) (fb : Option Bool) (wo : Bool) :
    bitflush s fb wo =
      mWriteout (if s.count < BITNUM then
                   (if s.byteOff ≥ s.maxOff ∧ fb.isSome then bitwriteCore s (min s.count DATANUM) (if fb.getD false then 0xFF else 0)
                    else mMerge s)
                 else s) wo := rfl

theorem mergeMaskC_nat : ∀ c : Nat, c < 8 → mergeMaskC (c : Int) = ((255 ^^^ ((maskC (BITNUM - c) <<< c) % 256) : Nat) : Int) := by
  decide

theorem and_le_255 (x k : Nat) (hx : x < 256) : x &&& k < 256 := Nat.lt_of_le_of_lt Nat.and_le_left hx

theorem mMerge_toC {m : St} (h : Rep m) (hp : m.bytep < 4096) (hc : m.count < 8) :
    (mMerge m).toC = fMerge m.toC ∧ Rep (mMerge m) ∧ (mMerge m).wMode = m.wMode ∧ (mMerge m).wAccess = m.wAccess ∧
      (mMerge m).bytez = m.bytez ∧ (mMerge m).bytep = m.bytep + 1 := by
  obtain ⟨h1, h2, h3, h4, h5, h7, h9⟩ := h
  obtain ⟨elem, posn, isNew, wAccess, wMode, blockOff, maxOff, byteOff, count, bufRead, bits, pre, post, bytep, bytez, oob, err⟩ := m
  simp only at h1 h2 h3 h4 h5 h7 h9 hp hc
  subst h1 h2 h3
  cases post with
  | nil => simp at h4; omega
  | cons x t =>
    simp only [List.length_cons] at h4
    have hx := UInt8.toNat_lt x
    have hM : (mergeMaskC (count : Int)).toNat = (255 ^^^ ((maskC (8 - count) <<< count) % 256)) := by
      rw [mergeMaskC_nat count hc]; simp only [Int.toNat_natCast, consts]
    generalize hMd : (255 ^^^ ((maskC (8 - count) <<< count) % 256)) = M at hM
    have hxm : x.toNat &&& M < 256 := and_le_255 _ _ hx
    have hB : ((UInt8.ofNat ((x.toNat &&& M ||| bits) % 256)).toNat : Int) = (((x.toNat &&& M ||| bits) % 256 : Nat) : Int) := by
      rw [UInt8.toNat_ofNat']; omega
    have hget : (ints pre.reverse ++ (x.toNat : Int) :: ints t).getD pre.length 0 = (x.toNat : Int) := by
      have : pre.length = (ints pre.reverse).length := by simp
      rw [this, List.getD_eq_getElem?_getD, List.getElem?_append_right (Nat.le_refl _)]
      simp
    have hx1 : (((x.toNat &&& M : Nat) : Int) % 256).toNat = x.toNat &&& M := by omega
    have e := set_append_cons (ints pre.reverse) (x.toNat : Int) ((((x.toNat &&& M ||| bits) % 256 : Nat) : Int)) (ints t)
    simp only [ints_length, List.length_reverse] at e
    by_cases hmo : byteOff + 1 > maxOff
    · have hmo' : (byteOff : Int) + 1 > (maxOff : Int) := by omega
      simp only [mMerge, St.peek, St.store, St.adv, St.toC, fMerge, St.buf, List.reverse_cons, List.append_assoc, List.singleton_append,
        ints_append, ints_cons, Int.toNat_natCast, hget, hM, hx1, hB, Int.ofNat_eq_natCast, Int.natCast_emod, e, hmo, hmo', if_true,
        consts, hMd, Int.natCast_add, Int.natCast_one]
      refine ⟨by simp, ⟨rfl, rfl, by simp, by simp; omega, h5, by simp, by simp⟩, by simp⟩
    · have hmo' : ¬ ((byteOff : Int) + 1 > (maxOff : Int)) := by omega
      simp only [mMerge, St.peek, St.store, St.adv, St.toC, fMerge, St.buf, List.reverse_cons, List.append_assoc, List.singleton_append,
        ints_append, ints_cons, Int.toNat_natCast, hget, hM, hx1, hB, Int.ofNat_eq_natCast, Int.natCast_emod, e, hmo, hmo', if_false,
        consts, hMd, Int.natCast_add, Int.natCast_one]
      refine ⟨by simp, ⟨rfl, rfl, by simp, by simp; omega, h5, by simp, by simp⟩, by simp⟩

theorem mWriteout_toC {m : St} (h : Rep m) (wo : Bool) :
    (mWriteout m wo).toC = (if wo then fWriteout m.toC else m.toC) ∧ Rep (mWriteout m wo) ∧ (mWriteout m wo).wMode = m.wMode ∧
      (mWriteout m wo).wAccess = m.wAccess ∧ (mWriteout m wo).bytez = m.bytez ∧ (mWriteout m wo).bytep = m.bytep ∧
      (mWriteout m wo).count = m.count := by
  cases wo with
  | false => exact ⟨rfl, h, rfl, rfl, rfl, rfl, rfl⟩
  | true =>
    obtain ⟨h1, h2, h3, h4, h5, h7, h9⟩ := h
    obtain ⟨elem, posn, isNew, wAccess, wMode, blockOff, maxOff, byteOff, count, bufRead, bits, pre, post, bytep, bytez, oob, err⟩ := m
    simp only at h1 h2 h3 h4 h5 h7 h9
    subst h1 h2 h3
    have hbuf : (pre.reverse ++ post).length = 4096 := by simp; omega
    by_cases hpos : min bytez (maxOff - blockOff) > 0
    · have hlt : ((if (bytez : Int) < (maxOff : Int) - (blockOff : Int) then (bytez : Int) else (maxOff : Int) - (blockOff : Int)) : Int)
          = ((min bytez (maxOff - blockOff) : Nat) : Int) := by
        split <;> omega
      have hpos' : ((min bytez (maxOff - blockOff) : Nat) : Int) > 0 := by omega
      have hdl : (List.take (min bytez (maxOff - blockOff)) (pre.reverse ++ post)).length = min bytez (maxOff - blockOff) := by
        rw [List.length_take, hbuf]; omega
      have e2 : ((posn : Int) + ((min bytez (maxOff - blockOff) : Nat) : Int)).toNat = posn + min bytez (maxOff - blockOff) := by omega
      simp only [mWriteout, if_true, hpos, hWrite, St.toC, fWriteout, St.buf, hlt, hpos', hdl, e2, Int.toNat_natCast, ints_append,
        ints_take, ints_drop, Int.natCast_add, List.append_assoc]
      refine ⟨rfl, ⟨rfl, rfl, rfl, h4, h5, h7, h9⟩, ?_⟩
      simp
    · have hf : ∀ r : CRec, ¬ (r.bytez > 0 ∧ r.maxOff - r.blockOff > 0) → fWriteout r = r := by
        intro r hr
        unfold fWriteout
        simp only
        split <;> split <;> first | rfl | (exfalso; omega)
      rw [hf _ (by simp only [St.toC]; omega)]
      simp only [mWriteout, if_true, hpos, if_false, true_and]
      exact ⟨⟨rfl, rfl, rfl, h4, h5, h7, h9⟩, by simp⟩

/-! ## `HIbitflush` -/

/-- the state in which the translated `HIbitflush` starts on the record `r` -/
def flInit (r : CRec) (flushbit writeout : Int) : HIbitflush.St :=
  { rec_access := r.access, rec_mode := r.mode, rec_block_offset := r.blockOff, rec_bytea := r.bytea, rec_bytep := r.bytep,
    rec_count := r.count, rec_bit_id := bitId, rec_max_offset := r.maxOff, rec_byte_offset := r.byteOff, rec_bits := r.bits,
    rec_bytez := r.bytez, rec_buf_read := r.bufRead, flushbit := flushbit, writeout := writeout, io_elt := r.elt, io_epos := r.epos,
    io_enew := r.enew }

theorem cBitflush_eq (fuel : Nat) (r : CRec) (flushbit writeout : Int) :
    cBitflush fuel r flushbit writeout =
      (let s := HIbitflush.seg1 fuel (HIbitflush.seg0 fuel (flInit r flushbit writeout))
       { crec := flRec s, ret := s.ret, ub := s.ub, oof := s.oof }) := rfl

theorem toC_rep_facts {m : St} (h : Rep m) :
    m.toC.bytea.length = 4096 ∧ (0 ≤ m.toC.bytez ∧ m.toC.bytez ≤ 4096) ∧ 0 ≤ m.toC.epos ∧ 0 ≤ m.toC.bits ∧ 0 ≤ m.toC.bytep ∧
      0 ≤ m.toC.blockOff := by
  have h2 := h.zle
  have hb : m.buf.length = 4096 := by simp [St.buf, h.len]
  simp only [St.toC, ints_length, hb]
  refine ⟨trivial, ⟨?_, ?_⟩, ?_, ?_, ?_, ?_⟩ <;> omega

theorem ints_getD_nonneg (l : List Byte) (i : Nat) : 0 ≤ (ints l).getD i 0 := by
  by_cases h : i < l.length
  · rw [ints_getD l i h]; omega
  · simp [ints, List.getD_eq_getElem?_getD, h]

/-- the model's `bitwrite` in write mode with write access, for a count 1..32 -/
theorem bitwrite_w_eq (m : St) (hw : m.wMode = true) (hacc : m.wAccess = true) (c d : Nat) (hc1 : 1 ≤ c) (hc : c ≤ 32) (hd : d < 2 ^ 32)
    (herr : (bitwriteCore m c d).err = false) : bitwrite m c d = (bitwriteCore m c d, some c) := by
  have hne : ¬ (c = 0) := by omega
  have hmod : d % 2 ^ 32 = d := Nat.mod_eq_of_lt hd
  have hmin : min c 32 = c := by omega
  simp only [bitwrite, hne, if_false, hacc, hw, Bool.not_true, Bool.false_eq_true, consts, hmod, hmin, herr]

theorem flushArg_ne (fb : Option Bool) : (flushArg fb ≠ -1) ↔ fb.isSome = true := by
  cases fb with
  | none => exact ⟨fun h => absurd rfl h, fun h => by cases h⟩
  | some b => cases b <;> exact ⟨fun _ => rfl, fun _ => by decide⟩

theorem flushVal (b : Bool) :
    ((if flushArg (some b) ≠ 0 then 255 else 0) % 4294967296 : Int) = ((if (some b).getD false then 0xFF else 0 : Nat) : Int) := by
  cases b <;> simp [flushArg]

/-- **`HIbitflush` in write mode**: the translated function computes the model's `bitflush` on the C view, for every flush bit
    (0 / 1 / leave the bits) and with or without writing the buffer out -/
theorem HIbitflush_w (m : St) (hinv : Inv m) (hw : m.wMode = true) (fb : Option Bool) (wo : Bool) (fuel : Nat) (hf : 3 ≤ fuel) :
    let o := cBitflush fuel m.toC (flushArg fb) (if wo then 1 else 0)
    let m' := bitflush m fb wo
    o.ub = false ∧ o.oof = false ∧ o.ret = 0 ∧ o.crec = m'.toC ∧ Rep m' ∧ m'.wMode = true ∧ m'.wAccess = m.wAccess ∧ m'.bytez = m.bytez := by
  rw [cBitflush_eq, bitflush_eq]
  have hwo : ∀ x : CRec, (if (if wo then (1 : Int) else 0) = 1 then fWriteout x else x) = (if wo then fWriteout x else x) := by
    intro x; cases wo <;> simp
  -- what segment 1 does after a segment 0 that leaves a state `s1` whose record is the C view of `m1`
  have tail : ∀ (s1 : HIbitflush.St) (m1 : St), s1.ub = false → s1.oof = false → s1.done = false → s1.writeout = (if wo then 1 else 0) →
      flRec s1 = m1.toC → Rep m1 → m1.wMode = true → m1.wAccess = m.wAccess → m1.bytez = m.bytez →
      (HIbitflush.seg1 fuel s1).ub = false ∧ (HIbitflush.seg1 fuel s1).oof = false ∧ (HIbitflush.seg1 fuel s1).ret = 0 ∧
        flRec (HIbitflush.seg1 fuel s1) = (mWriteout m1 wo).toC ∧ Rep (mWriteout m1 wo) ∧ (mWriteout m1 wo).wMode = true ∧
        (mWriteout m1 wo).wAccess = m.wAccess ∧ (mWriteout m1 wo).bytez = m.bytez := by
    intro s1 m1 t1 t2 t3 t4 t5 t6 t7 t8 t9
    obtain ⟨g1, g2, g3, -, -, -⟩ := toC_rep_facts t6
    rw [← t5] at g1 g2 g3
    have h1 := fl_seg1 fuel s1 t1 t3 g1 g2 g3
    simp only at h1
    obtain ⟨c1, c2, c3, c4, c5⟩ := h1
    obtain ⟨w1, w2, w3, w4, w5, w6, w7⟩ := mWriteout_toC t6 wo
    refine ⟨c1, c2.trans t2, c4, ?_, w2, w3.trans t7, w4.trans t8, w5.trans t9⟩
    rw [c5, t4, hwo, t5, w1]
  by_cases hc8 : m.count < 8
  · have hc : m.count < BITNUM := by simpa [consts] using hc8
    rw [if_pos hc]
    have hcI : (flInit m.toC (flushArg fb) (if wo then 1 else 0)).rec_count < 8 := by show (m.count : Int) < 8; omega
    by_cases hcond : m.byteOff ≥ m.maxOff ∧ fb.isSome
    · -- the last byte is completed with the flush bit: `Hbitwrite(bit_id, count, flushbit ? 0xFF : 0)`
      rw [if_pos hcond]
      obtain ⟨hbo, hsome⟩ := hcond
      obtain ⟨b, rfl⟩ := Option.isSome_iff_exists.mp hsome
      have hcondC : (flInit m.toC (flushArg (some b)) (if wo then 1 else 0)).rec_byte_offset ≥
          (flInit m.toC (flushArg (some b)) (if wo then 1 else 0)).rec_max_offset ∧
          (flInit m.toC (flushArg (some b)) (if wo then 1 else 0)).flushbit ≠ -1 :=
        ⟨by show (m.byteOff : Int) ≥ (m.maxOff : Int); omega, (flushArg_ne (some b)).mpr rfl⟩
      have h0 := fl_seg0_call fuel _ hcI rfl hcondC
      simp only at h0
      have hv : (flInit m.toC (flushArg (some b)) (if wo then 1 else 0)).flushbit = flushArg (some b) := rfl
      rw [hv, flushVal b] at h0
      rw [show cBitwrite fuel (flRec (flInit m.toC (flushArg (some b)) (if wo then 1 else 0)))
          (flInit m.toC (flushArg (some b)) (if wo then 1 else 0)).rec_count
          ((if (some b).getD false then 0xFF else 0 : Nat) : Int) =
            cBitwrite fuel m.toC (m.count : Int) ((if (some b).getD false then 0xFF else 0 : Nat) : Int) from rfl] at h0
      have hmc1 := hinv.wcnt hw
      have hmc8 := hinv.cnt
      have hdl : (if (some b).getD false then 0xFF else 0 : Nat) < 2 ^ 32 := by cases b <;> decide
      have key := Hbitwrite_w m hinv hw (m.count : Int) (if (some b).getD false then 0xFF else 0) hdl fuel hf
      simp only [Int.toNat_natCast] at key
      have hcore : (bitwriteCore m m.count (if (some b).getD false then 0xFF else 0)).err = false →
          bitwrite m m.count (if (some b).getD false then 0xFF else 0) =
            (bitwriteCore m m.count (if (some b).getD false then 0xFF else 0), some m.count) :=
        bitwrite_w_eq m hw (hinv.wacc hw) m.count _ hmc1 (by omega) hdl
      have hmin : min m.count DATANUM = m.count := by simp [consts]; omega
      rw [hmin]
      -- the model's `bitwrite` is `bitwriteCore` here; its result has no error flag because it satisfies `Inv`
      have herr : (bitwriteCore m m.count (if (some b).getD false then 0xFF else 0)).err = false := by
        have hk := wr_core fuel (wrInit m.toC (m.count : Int) ((if (some b).getD false then 0xFF else 0 : Nat) : Int)) m m.count
          (if (some b).getD false then 0xFF else 0) hmc1 (by omega) hf rfl rfl rfl rfl rfl hinv hw
        exact hk.2.2.2.2.2.1.noErr
      rw [hcore herr] at key
      obtain ⟨k1, k2, k3, k4, k5, k6, k7, k8⟩ := key
      simp only at k3 k4 k5 k6 k7 k8
      obtain ⟨a1, a2, a3, a4, a5, a6, a7⟩ := h0
      have hret : ¬ ((cBitwrite fuel m.toC (m.count : Int) ((if (some b).getD false then 0xFF else 0 : Nat) : Int)).ret = -1) := by
        rw [k4]; omega
      rw [if_neg hret] at a3 a4
      rw [k1] at a1
      rw [k2] at a2
      refine tail _ _ a1 a2 a3 a6 ?_ k5.rep k6 k7 ?_
      · rw [a7, k3]
        show ({ (bitwriteCore m m.count (if (some b).getD false then 0xFF else 0)).toC with access := modeChar m.wAccess } : CRec) = _
        simp only [St.toC, k7]
      · exact k8
    · -- the pending bits are merged into the byte under the cursor
      rw [if_neg hcond]
      have hcondC : ¬ ((flInit m.toC (flushArg fb) (if wo then 1 else 0)).rec_byte_offset ≥
          (flInit m.toC (flushArg fb) (if wo then 1 else 0)).rec_max_offset ∧
          (flInit m.toC (flushArg fb) (if wo then 1 else 0)).flushbit ≠ -1) := by
        intro ⟨h1, h2⟩
        exact hcond ⟨by have : (m.byteOff : Int) ≥ (m.maxOff : Int) := h1; omega, (flushArg_ne fb).mp h2⟩
      have hplt : m.bytep < 4096 := by have := hinv.wlt hw; have := hinv.zle; omega
      obtain ⟨g1, g2, g3, g4, g5⟩ := toC_w_facts hinv hw
      have h0 := fl_seg0_merge fuel (flInit m.toC (flushArg fb) (if wo then 1 else 0)) rfl
        (by show (0 : Int) ≤ (m.count : Int) ∧ (m.count : Int) < 8; omega) hcondC g1 g2
        (by show (0 : Int) ≤ (m.bits : Int); omega) (ints_getD_nonneg _ _)
      simp only at h0
      obtain ⟨a1, a2, a3, a4, a5, a6, a7⟩ := h0
      obtain ⟨w1, w2, w3, w4, w5, w6⟩ := mMerge_toC hinv.rep hplt hc8
      exact tail _ _ a1 a2 a3 a6 (a7.trans w1.symm) w2 (w3.trans hw) w4 w5
  · -- nothing is pending
    have hc : ¬ (m.count < BITNUM) := by simpa [consts] using hc8
    rw [if_neg hc]
    have h0 : HIbitflush.seg0 fuel (flInit m.toC (flushArg fb) (if wo then 1 else 0)) = flInit m.toC (flushArg fb) (if wo then 1 else 0) :=
      fl_seg0_skip fuel _ (by show (8 : Int) ≤ (m.count : Int); omega)
    rw [h0]
    exact tail _ m rfl rfl rfl rfl rfl hinv.rep hw rfl rfl

/-! ## `Hbitread`, block by block -/

/-- the record inside the state of the translated `Hbitread` -/
def rdRec (s : Hbitread.St) : CRec :=
  { access := s.rec_access, mode := s.rec_mode, count := s.rec_count, bits := s.rec_bits, bufRead := s.rec_buf_read,
    byteOff := s.rec_byte_offset, maxOff := s.rec_max_offset, blockOff := s.rec_block_offset, bytep := s.rec_bytep,
    bytez := s.rec_bytez, bytea := s.rec_bytea, elt := s.io_elt, epos := s.io_epos, enew := s.io_enew }

/-- `if (bytep == bytez) { n = Hread(acc_id, BITBUF_SIZE, bytea); if (n <= 0) EOF; block_offset += buf_read; bytez = n + (bytep = bytea);
    buf_read = n; }`; `none` = the end-of-data branch -/
def fRefill (r : CRec) : Option CRec :=
  if r.bytep = r.bytez then
    if r.enew = 0 then
      let k := kRead r.elt.length r.epos 4096
      if k ≤ 0 then none
      else some { r with bytea := (r.elt.drop r.epos.toNat).take k.toNat ++ r.bytea.drop k.toNat, epos := r.epos + k,
                         blockOff := r.blockOff + r.bufRead, bytep := 0, bytez := k, bufRead := k }
    else none
  else some r

/-- `l = *bytep++; byte_offset++; if (byte_offset > max_offset) max_offset = byte_offset;` -/
def fGet (r : CRec) : Int × CRec :=
  (r.bytea.getD r.bytep.toNat 0,
   { r with bytep := r.bytep + 1, byteOff := r.byteOff + 1, maxOff := if r.byteOff + 1 > r.maxOff then r.byteOff + 1 else r.maxOff })

theorem getD_nonneg_of_all (l : List Int) (h : ∀ x ∈ l, 0 ≤ x) (i : Nat) : 0 ≤ l.getD i 0 := by
  by_cases hi : i < l.length
  · rw [List.getD_eq_getElem?_getD, List.getElem?_eq_getElem hi]; exact h _ (List.getElem_mem hi)
  · simp [List.getD_eq_getElem?_getD, hi]

theorem all_nonneg_read (a e : List Int) (ha : ∀ x ∈ a, 0 ≤ x) (he : ∀ x ∈ e, 0 ≤ x) (p k : Nat) :
    ∀ x ∈ (e.drop p).take k ++ a.drop k, 0 ≤ x := by
  intro x hx
  rcases List.mem_append.mp hx with h | h
  · exact he x (List.mem_of_mem_drop (List.mem_of_mem_take h))
  · exact ha x (List.mem_of_mem_drop h)

/-- one pass through the loop `while (count >= BITNUM) { refill; l = *bytep++; b |= l << (count -= BITNUM); … }` of `Hbitread` -/
theorem rd_body (fuel : Nat) (s : Hbitread.St) (hub : s.ub = false) (hdone : s.done = false)
    (hc : 8 ≤ s.count ∧ s.count < 40) (hb : 0 ≤ s.b) (hdl : 0 < s.data.length) (hl : s.rec_bytea.length = 4096)
    (hp : 0 ≤ s.rec_bytep ∧ s.rec_bytep ≤ s.rec_bytez) (hz : s.rec_bytez ≤ 4096) (he : 0 ≤ s.io_epos)
    (hA : ∀ x ∈ s.rec_bytea, 0 ≤ x) (hE : ∀ x ∈ s.io_elt, 0 ≤ x) :
    let s' := Hbitread.loop0.body fuel s
    s'.ub = false ∧ s'.oof = s.oof ∧ s'.orig_count = s.orig_count ∧
    (fRefill (rdRec s) = none → s'.done = true ∧ s'.ret = s.orig_count - s.count ∧ s'.data = s.data.set 0 s.b ∧
      rdRec s' = { rdRec s with count := 0 }) ∧
    (∀ r1, fRefill (rdRec s) = some r1 → s'.done = false ∧ s'.ret = s.ret ∧ s'.data = s.data ∧ rdRec s' = (fGet r1).2 ∧
      s'.count = s.count - 8 ∧
      s'.b = Int.ofNat (Int.toNat s.b ||| Int.toNat ((fGet r1).1 * 2 ^ Int.toNat (s.count - 8) % 4294967296))) := by
  obtain ⟨bitid, count, l, b, orig_count, n, rec_mode, rec_count, rec_byte_offset, rec_max_offset, rec_bit_id, rec_access, rec_block_offset, rec_bytep, rec_bits, rec_bytez, rec_buf_read, io_epos, io_enew, rec_null, rec_bytea, io_elt, data, ub, oof, ret, done⟩ := s
  simp only at hub hdone hc hb hdl hl hp hz he hA hE
  subst hub hdone
  obtain ⟨hc1, hc2⟩ := hc
  obtain ⟨hp1, hp2⟩ := hp
  have h8a : (0 : Int) ≤ count - 8 := by omega
  have h8b : count - 8 < 32 := by omega
  have hl' : (rec_bytea.length : Int) = 4096 := by omega
  have hkb := @kRead_bounds (io_elt.length : Int) io_epos 4096 (by omega)
  by_cases hfull : rec_bytep = rec_bytez
  · by_cases hnew : io_enew = 0
    · by_cases hk : kRead io_elt.length io_epos 4096 ≤ 0
      · have hk0 : kRead io_elt.length io_epos 4096 = 0 := by omega
        rd_simp [Hbitread.loop0.body, bitnum_int, kRead_fold, fRefill, fGet, rdRec, hfull, hnew, hk0, reduceCtorEq]
        c2l_ub [hl', hdl, he]
      · have hkp : 0 < kRead io_elt.length io_epos 4096 := by omega
        have hkn : (kRead io_elt.length io_epos 4096 ≤ 0) = False := by simp only [eq_iff_iff, iff_false]; omega
        have hka := kRead_avail (by omega) hkp
        have hA' := all_nonneg_read rec_bytea io_elt hA hE io_epos.toNat (kRead io_elt.length io_epos 4096).toNat
        have hx := getD_nonneg_of_all _ hA' 0
        have hlen : ((List.take (kRead io_elt.length io_epos 4096).toNat (List.drop io_epos.toNat io_elt) ++
            List.drop (kRead io_elt.length io_epos 4096).toNat rec_bytea).length : Int) = 4096 := by
          simp only [List.length_append, List.length_take, List.length_drop]; omega
        by_cases hmo : rec_max_offset < rec_byte_offset + 1
        · rd_simp [Hbitread.loop0.body, bitnum_int, kRead_fold, fRefill, fGet, rdRec, hfull, hnew, hkn, reduceCtorEq,
            Option.some.injEq, forall_eq', hmo]
          c2l_ub [hl', hdl, he, hlen, hx]
        · rd_simp [Hbitread.loop0.body, bitnum_int, kRead_fold, fRefill, fGet, rdRec, hfull, hnew, hkn, reduceCtorEq,
            Option.some.injEq, forall_eq', hmo]
          c2l_ub [hl', hdl, he, hlen, hx]
    · have hm1 : ((-1 : Int) ≤ 0) = True := by decide
      rd_simp [Hbitread.loop0.body, bitnum_int, kRead_fold, fRefill, fGet, rdRec, hfull, hnew, reduceCtorEq, hm1]
      c2l_ub [hl', hdl, he]
  · have hx := getD_nonneg_of_all _ hA rec_bytep.toNat
    by_cases hmo : rec_max_offset < rec_byte_offset + 1
    · rd_simp [Hbitread.loop0.body, bitnum_int, kRead_fold, fRefill, fGet, rdRec, hfull, reduceCtorEq, Option.some.injEq, forall_eq', hmo]
      c2l_ub [hl', hdl, he, hx]
    · rd_simp [Hbitread.loop0.body, bitnum_int, kRead_fold, fRefill, fGet, rdRec, hfull, reduceCtorEq, Option.some.injEq, forall_eq', hmo]
      c2l_ub [hl', hdl, he, hx]

theorem ints_nonneg (l : List Byte) : ∀ x ∈ ints l, 0 ≤ x := by
  intro x hx
  simp only [ints, List.mem_map] at hx
  obtain ⟨b, -, rfl⟩ := hx
  omega

/-- invariant of a model state in read mode: the C view is faithful and the cursor has not passed the end of the buffered bytes -/
structure RdInv (m : St) : Prop where
  rep : Rep m
  rMode : m.wMode = false
  ple : m.bytep ≤ m.bytez

theorem load_buf (s : St) (d : List Byte) : (s.load d).buf = d ++ s.buf.drop d.length := by
  simp [St.load, St.buf]

/-- the model's `refill` on the C view -/
theorem refill_toC {m : St} (h : RdInv m) :
    (refill m).map St.toC = fRefill m.toC ∧
    ∀ m1, refill m = some m1 → Rep m1 ∧ m1.bytep < m1.bytez ∧ m1.wMode = false ∧ m1.wAccess = m.wAccess ∧ m1.count = m.count ∧
      m1.bits = m.bits := by
  obtain ⟨⟨h1, h2, h3, h4, h5, h7, h9⟩, hr, hple⟩ := h
  obtain ⟨elem, posn, isNew, wAccess, wMode, blockOff, maxOff, byteOff, count, bufRead, bits, pre, post, bytep, bytez, oob, err⟩ := m
  simp only at h1 h2 h3 h4 h5 h7 h9 hr hple
  subst h1 h2 h3 hr
  by_cases hfull : pre.length = bytez
  · have hfull' : (pre.length : Int) = (bytez : Int) := by omega
    cases isNew with
    | true =>
      simp only [refill, hfull, if_true, hRead, Option.map_none, fRefill, St.toC, hfull', if_false, true_and]
      refine ⟨by simp, ?_⟩
      intro m1 hm; cases hm
    | false =>
      generalize hN : (if BITBUF_SIZE = 0 ∨ BITBUF_SIZE + posn > elem.length then elem.length - posn else BITBUF_SIZE) = N
      have hkk : kRead (↑(ints elem).length) (↑posn) 4096 = (N : Int) := by
        have h2 := kRead_nat elem.length posn 4096
        rw [ints_length, show ((4096 : Nat) : Int) = 4096 from rfl] at *
        rw [h2, ← hN]; rfl
      have hNle : N ≤ elem.length - posn ∧ N ≤ 4096 := by rw [← hN]; simp only [consts]; split <;> omega
      have hlen : (List.take N (List.drop posn elem)).length = N := by simp; omega
      by_cases hN0 : N = 0
      · have hk0 : ((N : Int) ≤ 0) := by omega
        simp only [refill, hfull, if_true, hRead, Bool.false_eq_true, if_false, hN, hlen, hN0, Option.map_none, fRefill, St.toC, hfull',
          hkk, hk0, true_and]
        refine ⟨by simp [hN0], ?_⟩
        intro m1 hm; simp [hN0] at hm
      · have hk0 : ¬ ((N : Int) ≤ 0) := by omega
        have hbuf : (pre.reverse ++ post).length = 4096 := by simp; omega
        simp only [refill, hfull, if_true, hRead, Bool.false_eq_true, if_false, hN, hlen, hN0, Option.map_some, fRefill, St.toC, hfull',
          hkk, hk0, St.setPtr, St.load, St.buf, List.reverse_reverse, List.take_append_drop, List.take_zero, List.drop_zero, List.reverse_nil,
          List.nil_append, Int.toNat_natCast,
          ints_append, ints_take, ints_drop, Int.natCast_add, Int.natCast_zero]
        refine ⟨trivial, ?_⟩
        intro m1 hm
        cases hm
        refine ⟨⟨rfl, rfl, rfl, by simp [hlen, hbuf]; omega, by simp only; omega, h7, h9⟩, by simp only; omega, rfl, rfl, rfl, rfl⟩
  · have hfull' : ¬ ((pre.length : Int) = (bytez : Int)) := by omega
    simp only [refill, hfull, if_false, Option.map_some, fRefill, St.toC, hfull', true_and]
    intro m1 hm
    cases hm
    exact ⟨⟨rfl, rfl, rfl, h4, h5, h7, h9⟩, by simp only; omega, rfl, rfl, rfl, rfl⟩

/-- the model's `getByte` (`l = *bytep++; byte_offset++; …`) on the C view -/
theorem getByte_toC {m : St} (h : Rep m) (hlt : m.bytep < m.bytez) :
    ((getByte m).1 : Int) = (fGet m.toC).1 ∧ (getByte m).2.toC = (fGet m.toC).2 ∧ Rep (getByte m).2 ∧
      (getByte m).2.bytep ≤ (getByte m).2.bytez ∧ (getByte m).2.wMode = m.wMode ∧ (getByte m).2.wAccess = m.wAccess ∧
      (getByte m).2.count = m.count ∧ (getByte m).2.bits = m.bits ∧ (getByte m).1 < 256 := by
  obtain ⟨h1, h2, h3, h4, h5, h7, h9⟩ := h
  obtain ⟨elem, posn, isNew, wAccess, wMode, blockOff, maxOff, byteOff, count, bufRead, bits, pre, post, bytep, bytez, oob, err⟩ := m
  simp only at h1 h2 h3 h4 h5 h7 h9 hlt
  subst h1 h2 h3
  cases post with
  | nil => simp at h4; omega
  | cons x t =>
    simp only [List.length_cons] at h4
    have hx := UInt8.toNat_lt x
    have hget : (ints pre.reverse ++ (x.toNat : Int) :: ints t).getD pre.length 0 = (x.toNat : Int) := by
      have : pre.length = (ints pre.reverse).length := by simp
      rw [this, List.getD_eq_getElem?_getD, List.getElem?_append_right (Nat.le_refl _)]
      simp
    by_cases hmo : byteOff + 1 > maxOff
    · have hmo' : (byteOff : Int) + 1 > (maxOff : Int) := by omega
      simp only [getByte, St.peek, St.adv, St.toC, fGet, St.buf, List.reverse_cons, List.append_assoc, List.singleton_append,
        ints_append, ints_cons, Int.toNat_natCast, hget, hmo, hmo', if_true, Int.natCast_add, Int.natCast_one, true_and]
      exact ⟨⟨rfl, rfl, by simp, by simp; omega, h5, h7, h9⟩, by omega, by omega⟩
    · have hmo' : ¬ ((byteOff : Int) + 1 > (maxOff : Int)) := by omega
      simp only [getByte, St.peek, St.adv, St.toC, fGet, St.buf, List.reverse_cons, List.append_assoc, List.singleton_append,
        ints_append, ints_cons, Int.toNat_natCast, hget, hmo, hmo', if_false, Int.natCast_add, Int.natCast_one, true_and]
      exact ⟨⟨rfl, rfl, by simp, by simp; omega, h5, h7, h9⟩, by omega, by omega⟩

theorem rd_loop_stop (fuel : Nat) (s : Hbitread.St) (h : s.count < 8 ∨ s.done = true) : Hbitread.loop0 fuel s = s := by
  rcases h with h | h
  · have h' : ¬ (8 ≤ s.count) := by omega
    cases fuel <;> simp [Hbitread.loop0, bitnum_int, h']
  · cases fuel <;> simp [Hbitread.loop0, bitnum_int, h]

theorem rd_loop_step (fuel : Nat) (s : Hbitread.St) (h : 8 ≤ s.count) (hd : s.done = false) :
    Hbitread.loop0 (fuel + 1) s = Hbitread.loop0 fuel (Hbitread.loop0.body (fuel + 1) s) := by
  simp [Hbitread.loop0, bitnum_int, h, hd]

theorem readWhole_stop (f : Nat) (m : St) (b c : Nat) (h : c < 8) : readWhole f m b c = (m, b, c, false) := by
  have h' : ¬ (c ≥ BITNUM) := by simp [consts]; omega
  cases f <;> simp [readWhole, h']

theorem rd_b_cast (bN x c : Nat) (hc : 8 ≤ c) :
    Int.ofNat (Int.toNat (bN : Int) ||| Int.toNat ((x : Int) * 2 ^ Int.toNat ((c : Int) - 8) % 4294967296)) =
      ((bN ||| ((x <<< (c - 8)) % 2 ^ DATANUM) : Nat) : Int) := by
  have e : Int.toNat ((c : Int) - 8) = c - 8 := by omega
  rw [e, Nat.shiftLeft_eq]
  have h1 : ((x * 2 ^ (c - 8) : Nat) : Int) = (x : Int) * 2 ^ (c - 8) := by simp
  have e2 : ((x : Int) * 2 ^ (c - 8) % 4294967296) = ((x * 2 ^ (c - 8) % 2 ^ DATANUM : Nat) : Int) := by
    rw [← h1]; simp only [consts]; omega
  rw [e2]
  simp only [Int.toNat_natCast, Int.ofNat_eq_natCast]

theorem toC_r_facts {m : St} (h : RdInv m) :
    m.toC.bytea.length = 4096 ∧ (0 ≤ m.toC.bytep ∧ m.toC.bytep ≤ m.toC.bytez) ∧ m.toC.bytez ≤ 4096 ∧ 0 ≤ m.toC.epos ∧
      (∀ x ∈ m.toC.bytea, 0 ≤ x) ∧ (∀ x ∈ m.toC.elt, 0 ≤ x) := by
  have h1 := h.ple
  have h2 := h.rep.zle
  have hb : m.buf.length = 4096 := by simp [St.buf, h.rep.len]
  refine ⟨by simp [St.toC, hb], ⟨by simp only [St.toC]; omega, by simp only [St.toC]; omega⟩, by simp only [St.toC]; omega,
    by simp only [St.toC]; omega, ints_nonneg _, ints_nonneg _⟩

/-- the loop `while (count >= BITNUM) { … }` of `Hbitread` is the model's `readWhole` -/
theorem rd_loop (n : Nat) : ∀ (c fuel f : Nat) (s : Hbitread.St) (m : St) (bN : Nat),
    c < 8 * (n + 1) → c < 40 → n ≤ fuel → n ≤ f → s.ub = false → s.done = false → s.count = c → s.b = bN → rdRec s = m.toC →
    RdInv m → 0 < s.data.length →
    let s' := Hbitread.loop0 fuel s
    let r := readWhole f m bN c
    s'.ub = false ∧ s'.oof = s.oof ∧ s'.orig_count = s.orig_count ∧ rdRec s' = r.1.toC ∧ RdInv r.1 ∧ r.1.wAccess = m.wAccess ∧
    (r.2.2.2 = true → s'.done = true ∧ s'.ret = s.orig_count - r.2.2.1 ∧ s'.data = s.data.set 0 r.2.1 ∧ r.1.count = 0) ∧
    (r.2.2.2 = false → s'.done = false ∧ s'.ret = s.ret ∧ s'.data = s.data ∧ s'.count = r.2.2.1 ∧ s'.b = r.2.1 ∧ r.2.2.1 < 8 ∧
      r.1.count = m.count ∧ r.1.bits = m.bits) ∧ r.2.2.1 ≤ c := by
  induction n with
  | zero =>
    intro c fuel f s m bN hc _ _ _ hub hdone hcnt hb hrec hinv hdl
    have hc8 : c < 8 := by omega
    rw [show Hbitread.loop0 fuel s = s from rd_loop_stop fuel s (Or.inl (by omega)), readWhole_stop f m bN c hc8]
    exact ⟨hub, rfl, rfl, hrec, hinv, rfl, fun h => Bool.noConfusion h, fun _ => ⟨hdone, rfl, rfl, hcnt, hb, hc8, rfl, rfl⟩, Nat.le_refl _⟩
  | succ n ih =>
    intro c fuel f s m bN hc hc40 hfuel hf hub hdone hcnt hb hrec hinv hdl
    by_cases hc8 : c < 8
    · rw [show Hbitread.loop0 fuel s = s from rd_loop_stop fuel s (Or.inl (by omega)), readWhole_stop f m bN c hc8]
      exact ⟨hub, rfl, rfl, hrec, hinv, rfl, fun h => Bool.noConfusion h, fun _ => ⟨hdone, rfl, rfl, hcnt, hb, hc8, rfl, rfl⟩, Nat.le_refl _⟩
    · obtain ⟨fuel, rfl⟩ : ∃ k, fuel = k + 1 := ⟨fuel - 1, by omega⟩
      obtain ⟨f, rfl⟩ : ∃ k, f = k + 1 := ⟨f - 1, by omega⟩
      obtain ⟨g1, g2, g3, g4, g5, g6⟩ := toC_r_facts hinv
      rw [← hrec] at g1 g2 g3 g4 g5 g6
      have hbd := rd_body (fuel + 1) s hub hdone (by omega) (by omega) hdl g1 g2 g3 g4 g5 g6
      simp only at hbd
      obtain ⟨b1, b2, b3, b4, b5⟩ := hbd
      obtain ⟨t1, t2⟩ := refill_toC hinv
      rw [← hrec] at t1
      have h8 : c ≥ BITNUM := by simp [consts]; omega
      rw [rd_loop_step fuel s (by omega) hdone]
      cases hrf : refill m with
      | none =>
        -- end of the data: the bits gathered so far are delivered
        rw [hrf, Option.map_none] at t1
        obtain ⟨e1, e2, e3, e4⟩ := b4 t1.symm
        have hm : readWhole (f + 1) m bN c = ({ m with count := 0 }, bN, c, true) := by
          rw [readWhole, if_pos h8, hrf]
        rw [hm, rd_loop_stop fuel _ (Or.inr e1)]
        refine ⟨b1, b2, b3, ?_, ⟨⟨hinv.rep.noOob, hinv.rep.noErr, hinv.rep.bytep, hinv.rep.len, hinv.rep.zle, by simp, hinv.rep.bits⟩,
          hinv.rMode, hinv.ple⟩, rfl, fun _ => ⟨e1, by rw [e2, hcnt], by rw [e3, hb], rfl⟩, fun h => Bool.noConfusion h, Nat.le_refl _⟩
        rw [e4, hrec]
        simp only [St.toC, St.buf, Int.natCast_zero]
      | some m1 =>
        rw [hrf, Option.map_some] at t1
        obtain ⟨e1, e2, e3, e4, e5, e6⟩ := b5 m1.toC t1.symm
        obtain ⟨u1, u2, u3, u4, u5, u6⟩ := t2 m1 hrf
        obtain ⟨v1, v2, v3, v4, v5, v6, v7, v8, v9⟩ := getByte_toC u1 u2
        have hm : readWhole (f + 1) m bN c =
            readWhole f (getByte m1).2 (bN ||| (((getByte m1).1 <<< (c - 8)) % 2 ^ DATANUM)) (c - 8) := by
          rw [readWhole, if_pos h8, hrf]; rfl
        rw [hm]
        have hb' : (Hbitread.loop0.body (fuel + 1) s).b =
            ((bN ||| (((getByte m1).1 <<< (c - 8)) % 2 ^ DATANUM) : Nat) : Int) := by
          rw [e6, hb, hcnt, ← v1, rd_b_cast _ _ _ (by omega)]
        have := ih (c - 8) fuel f (Hbitread.loop0.body (fuel + 1) s) (getByte m1).2
          (bN ||| (((getByte m1).1 <<< (c - 8)) % 2 ^ DATANUM)) (by omega) (by omega) (by omega) (by omega) b1 e1
          (by rw [e5, hcnt]; omega) hb' (by rw [e4, v2]) ⟨v3, v5.trans u3, v4⟩ (by rw [e3]; exact hdl)
        simp only at this
        obtain ⟨q1, q2, q3, q4, q5, q6, q7, q8, q9⟩ := this
        refine ⟨q1, by rw [q2, b2], by rw [q3, b3], q4, q5, by rw [q6, v6, u4], ?_, ?_, by omega⟩
        · intro h
          obtain ⟨w1, w2, w3, w4⟩ := q7 h
          exact ⟨w1, by rw [w2, b3], by rw [w3, e3], w4⟩
        · intro h
          obtain ⟨w1, w2, w3, w4, w5, w6, w7, w8⟩ := q8 h
          exact ⟨w1, by rw [w2, e2], by rw [w3, e3], w4, w5, w6, by rw [w7, v7, u5], by rw [w8, v8, u6]⟩

/-- `(bits >> (count -= n)) & maskc[n]` as the translator writes it -/
def earlyVal (bits rc c : Int) : Int :=
  Int.ofNat (Int.toNat (bits / 2 ^ Int.toNat (rc - c)) &&& Int.toNat (Int.ofNat ((H4.Gen.Hbitio.maskc).getD (Int.toNat c) 0)))
/-- `b = (bits & maskc[count]); b <<= (n -= count)` as the translator writes it -/
def bufBits (bits rc c : Int) : Int :=
  (Int.ofNat (Int.toNat bits &&& Int.toNat (Int.ofNat ((H4.Gen.Hbitio.maskc).getD (Int.toNat rc) 0)))) % 4294967296 *
    2 ^ Int.toNat (c - rc) % 4294967296

theorem earlyVal_fold (bits rc c : Int) :
    Int.ofNat (Int.toNat (bits / 2 ^ Int.toNat (rc - c)) &&& Int.toNat (Int.ofNat ((H4.Gen.Hbitio.maskc).getD (Int.toNat c) 0))) =
      earlyVal bits rc c := rfl
theorem bufBits_fold (bits rc c : Int) :
    (Int.ofNat (Int.toNat bits &&& Int.toNat (Int.ofNat ((H4.Gen.Hbitio.maskc).getD (Int.toNat rc) 0)))) % 4294967296 *
      2 ^ Int.toNat (c - rc) % 4294967296 = bufBits bits rc c := rfl

/-- segment 2 of `Hbitread`: clip the count; serve the request from the bit buffer, or move the buffered bits into place -/
theorem rd_seg2 (fuel : Nat) (s : Hbitread.St) (hub : s.ub = false) (hdone : s.done = false) (hc : 1 ≤ s.count)
    (hrc : 0 ≤ s.rec_count ∧ s.rec_count ≤ 8) (hbits : 0 ≤ s.rec_bits) (hdl : 0 < s.data.length) :
    let c := if s.count > 32 then 32 else s.count
    let s' := Hbitread.seg2 fuel s
    s'.ub = false ∧ s'.oof = s.oof ∧
    (c ≤ s.rec_count → s'.done = true ∧ s'.ret = c ∧ s'.data = s.data.set 0 (earlyVal s.rec_bits s.rec_count c) ∧
      rdRec s' = { rdRec s with count := s.rec_count - c }) ∧
    (¬ c ≤ s.rec_count → s'.done = false ∧ s'.ret = s.ret ∧ s'.data = s.data ∧ rdRec s' = rdRec s ∧ s'.orig_count = c ∧
      s'.count = c - s.rec_count ∧ s'.b = (if s.rec_count > 0 then bufBits s.rec_bits s.rec_count c else s.b)) := by
  obtain ⟨bitid, count, l, b, orig_count, n, rec_mode, rec_count, rec_byte_offset, rec_max_offset, rec_bit_id, rec_access, rec_block_offset, rec_bytep, rec_bits, rec_bytez, rec_buf_read, io_epos, io_enew, rec_null, rec_bytea, io_elt, data, ub, oof, ret, done⟩ := s
  simp only at hub hdone hc hrc hbits hdl
  subst hub hdone
  obtain ⟨hrc1, hrc2⟩ := hrc
  have hdiv : ∀ k : Nat, (0 ≤ rec_bits / 2 ^ k) = True := by
    intro k; simp only [eq_iff_iff, iff_true]; exact Int.ediv_nonneg hbits (Int.pow_nonneg (by omega))
  by_cases h32 : count > 32
  · have he : ¬ ((32 : Int) ≤ rec_count) := by omega
    by_cases hpos : rec_count > 0
    · rd_simp [Hbitread.seg2, datanum_int, rdRec, earlyVal_fold, bufBits_fold, h32, he, hpos]
      c2l_ub [hdl]
    · have h0 : rec_count = 0 := by omega
      subst h0
      rd_simp [Hbitread.seg2, datanum_int, rdRec, earlyVal_fold, bufBits_fold, h32, he, hpos]
  · by_cases hearly : count ≤ rec_count
    · rd_simp [Hbitread.seg2, datanum_int, rdRec, earlyVal_fold, bufBits_fold, h32, hearly]
      c2l_ub [hdl, hdiv]
    · by_cases hpos : rec_count > 0
      · rd_simp [Hbitread.seg2, datanum_int, rdRec, earlyVal_fold, bufBits_fold, h32, hearly, hpos]
        c2l_ub [hdl]
      · have h0 : rec_count = 0 := by omega
        subst h0
        rd_simp [Hbitread.seg2, datanum_int, rdRec, earlyVal_fold, bufBits_fold, h32, hearly, hpos]

/-- segment 4 of `Hbitread`: the last, partial byte (its unused bits stay in the bit buffer), `*data = b`, `return orig_count` -/
theorem rd_seg4 (fuel : Nat) (s : Hbitread.St) (hub : s.ub = false) (hdone : s.done = false)
    (hc : 0 ≤ s.count ∧ s.count < 8) (hb : 0 ≤ s.b) (hdl : 0 < s.data.length) (hl : s.rec_bytea.length = 4096)
    (hp : 0 ≤ s.rec_bytep ∧ s.rec_bytep ≤ s.rec_bytez) (hz : s.rec_bytez ≤ 4096) (he : 0 ≤ s.io_epos)
    (hA : ∀ x ∈ s.rec_bytea, 0 ≤ x) (hE : ∀ x ∈ s.io_elt, 0 ≤ x) :
    let s' := Hbitread.seg4 fuel s
    s'.ub = false ∧ s'.oof = s.oof ∧ s'.done = true ∧
    (s.count = 0 → s'.ret = s.orig_count ∧ s'.data = s.data.set 0 s.b ∧ rdRec s' = { rdRec s with count := 0 }) ∧
    (0 < s.count → fRefill (rdRec s) = none → s'.ret = s.orig_count - s.count ∧ s'.data = s.data.set 0 s.b ∧
      rdRec s' = { rdRec s with count := 0 }) ∧
    (0 < s.count → ∀ r1, fRefill (rdRec s) = some r1 → s'.ret = s.orig_count ∧
      s'.data = s.data.set 0 (Int.ofNat (Int.toNat s.b ||| Int.toNat ((fGet r1).1 / 2 ^ Int.toNat (8 - s.count)))) ∧
      rdRec s' = { (fGet r1).2 with count := 8 - s.count, bits := (fGet r1).1 }) := by
  obtain ⟨bitid, count, l, b, orig_count, n, rec_mode, rec_count, rec_byte_offset, rec_max_offset, rec_bit_id, rec_access, rec_block_offset, rec_bytep, rec_bits, rec_bytez, rec_buf_read, io_epos, io_enew, rec_null, rec_bytea, io_elt, data, ub, oof, ret, done⟩ := s
  simp only at hub hdone hc hb hdl hl hp hz he hA hE
  subst hub hdone
  obtain ⟨hc1, hc2⟩ := hc
  obtain ⟨hp1, hp2⟩ := hp
  have hl' : (rec_bytea.length : Int) = 4096 := by omega
  have hkb := @kRead_bounds (io_elt.length : Int) io_epos 4096 (by omega)
  have hdiv : ∀ (x : Int) (k : Nat), 0 ≤ x → (0 ≤ x / 2 ^ k) = True := by
    intro x k hx; simp only [eq_iff_iff, iff_true]; exact Int.ediv_nonneg hx (Int.pow_nonneg (by omega))
  by_cases hpos : count > 0
  · have hne : ¬ (count = 0) := by omega
    have h8a : (0 : Int) ≤ 8 - count := by omega
    have h8b : 8 - count < 32 := by omega
    by_cases hfull : rec_bytep = rec_bytez
    · by_cases hnew : io_enew = 0
      · by_cases hk : kRead io_elt.length io_epos 4096 ≤ 0
        · have hk0 : kRead io_elt.length io_epos 4096 = 0 := by omega
          rd_simp [Hbitread.seg4, bitnum_int, kRead_fold, fRefill, fGet, rdRec, hfull, hnew, hk0, reduceCtorEq, hpos, hne]
          c2l_ub [hl', hdl, he]
        · have hkp : 0 < kRead io_elt.length io_epos 4096 := by omega
          have hkn : (kRead io_elt.length io_epos 4096 ≤ 0) = False := by simp only [eq_iff_iff, iff_false]; omega
          have hka := kRead_avail (by omega) hkp
          have hA' := all_nonneg_read rec_bytea io_elt hA hE io_epos.toNat (kRead io_elt.length io_epos 4096).toNat
          have hx := getD_nonneg_of_all _ hA' 0
          have hlen : ((List.take (kRead io_elt.length io_epos 4096).toNat (List.drop io_epos.toNat io_elt) ++
              List.drop (kRead io_elt.length io_epos 4096).toNat rec_bytea).length : Int) = 4096 := by
            simp only [List.length_append, List.length_take, List.length_drop]; omega
          by_cases hmo : rec_max_offset < rec_byte_offset + 1
          · rd_simp [Hbitread.seg4, bitnum_int, kRead_fold, fRefill, fGet, rdRec, hfull, hnew, hkn, reduceCtorEq,
              Option.some.injEq, forall_eq', hmo, hpos, hne]
            c2l_ub [hl', hdl, he, hlen, hx, hdiv _ _ hx]
          · rd_simp [Hbitread.seg4, bitnum_int, kRead_fold, fRefill, fGet, rdRec, hfull, hnew, hkn, reduceCtorEq,
              Option.some.injEq, forall_eq', hmo, hpos, hne]
            c2l_ub [hl', hdl, he, hlen, hx, hdiv _ _ hx]
      · have hm1 : ((-1 : Int) ≤ 0) = True := by decide
        rd_simp [Hbitread.seg4, bitnum_int, kRead_fold, fRefill, fGet, rdRec, hfull, hnew, reduceCtorEq, hm1, hpos, hne]
        c2l_ub [hl', hdl, he]
    · have hx := getD_nonneg_of_all _ hA rec_bytep.toNat
      by_cases hmo : rec_max_offset < rec_byte_offset + 1
      · rd_simp [Hbitread.seg4, bitnum_int, kRead_fold, fRefill, fGet, rdRec, hfull, reduceCtorEq, Option.some.injEq, forall_eq', hmo,
          hpos, hne]
        c2l_ub [hl', hdl, he, hx, hdiv _ _ hx]
      · rd_simp [Hbitread.seg4, bitnum_int, kRead_fold, fRefill, fGet, rdRec, hfull, reduceCtorEq, Option.some.injEq, forall_eq', hmo,
          hpos, hne]
        c2l_ub [hl', hdl, he, hx, hdiv _ _ hx]
  · have h0 : count = 0 := by omega
    subst h0
    rd_simp [Hbitread.seg4, bitnum_int, rdRec, hpos, Int.lt_irrefl, hdl]

/-! ## `Hbitread` in read mode -/

/-- the state in which the translated `Hbitread` starts on the record `r`, with `*data = d0` -/
def rdInit (r : CRec) (count d0 : Int) : Hbitread.St :=
  { bitid := bitId, count := count, data := [d0], rec_null := false, rec_access := r.access, rec_mode := r.mode,
    rec_block_offset := r.blockOff, rec_bytea := r.bytea, rec_bytep := r.bytep, rec_count := r.count, rec_bit_id := bitId,
    rec_max_offset := r.maxOff, rec_byte_offset := r.byteOff, rec_bits := r.bits, rec_bytez := r.bytez, rec_buf_read := r.bufRead,
    io_elt := r.elt, io_epos := r.epos, io_enew := r.enew }

theorem cBitread_eq (fuel : Nat) (r : CRec) (count d0 : Int) :
    cBitread fuel r count d0 =
      (let s := Hbitread.seg4 fuel (Hbitread.seg3 fuel (Hbitread.seg2 fuel (Hbitread.seg1 fuel (Hbitread.seg0 fuel (rdInit r count d0)))))
       ({ crec := rdRec s, ret := s.ret, ub := s.ub, oof := s.oof }, s.data.getD 0 0)) := rfl

theorem rd_seg_done (fuel : Nat) (s : Hbitread.St) (h : s.done = true) :
    Hbitread.seg1 fuel s = s ∧ Hbitread.seg2 fuel s = s ∧ Hbitread.seg3 fuel s = s ∧ Hbitread.seg4 fuel s = s := by
  refine ⟨?_, ?_, ?_, ?_⟩
  · simp only [Hbitread.seg1, h, if_true]
  · simp only [Hbitread.seg2, h, if_true]
  · simp only [Hbitread.seg3, h, if_true]
  · simp only [Hbitread.seg4, h, if_true]

theorem rd_seg0 (fuel : Nat) (s : Hbitread.St) (hub : s.ub = false) (hdone : s.done = false) (hnull : s.rec_null = false) :
    let s' := Hbitread.seg0 fuel s
    s'.ub = false ∧ s'.oof = s.oof ∧ rdRec s' = rdRec s ∧ s'.data = s.data ∧ s'.count = s.count ∧ s'.b = 0 ∧
    (s.count ≤ 0 → s'.done = true ∧ s'.ret = -1) ∧ (0 < s.count → s'.done = false ∧ s'.ret = s.ret) := by
  obtain ⟨bitid, count, l, b, orig_count, n, rec_mode, rec_count, rec_byte_offset, rec_max_offset, rec_bit_id, rec_access, rec_block_offset, rec_bytep, rec_bits, rec_bytez, rec_buf_read, io_epos, io_enew, rec_null, rec_bytea, io_elt, data, ub, oof, ret, done⟩ := s
  simp only at hub hdone hnull
  subst hub hdone hnull
  by_cases h0 : count ≤ 0
  · have h0' : ¬ (0 < count) := by omega
    rd_simp [Hbitread.seg0, rdRec, h0, h0', Int.zero_emod]
  · have h0' : 0 < count := by omega
    rd_simp [Hbitread.seg0, rdRec, h0, h0', Int.zero_emod]

theorem rd_seg1_r (fuel : Nat) (s : Hbitread.St) (hm : s.rec_mode = 114) : Hbitread.seg1 fuel s = s := by
  have hm' : ¬ (s.rec_mode = 119) := by omega
  cases hd : s.done <;> simp only [Hbitread.seg1, hd, hm', Bool.false_eq_true, if_false, if_true]

theorem rd_seg3_run (fuel : Nat) (s : Hbitread.St) (h : s.done = false) : Hbitread.seg3 fuel s = Hbitread.loop0 fuel s := by
  simp only [Hbitread.seg3, h, Bool.false_eq_true, if_false]

theorem earlyVal_nat (bits mc c : Nat) (hc : c ≤ mc) :
    earlyVal (bits : Int) (mc : Int) (c : Int) = (((bits >>> (mc - c)) &&& maskC c : Nat) : Int) := by
  have e : Int.toNat ((mc : Int) - (c : Int)) = mc - c := by omega
  unfold earlyVal maskC
  rw [e, Nat.shiftRight_eq_div_pow]
  have e2 : ((bits : Int) / 2 ^ (mc - c)) = ((bits / 2 ^ (mc - c) : Nat) : Int) := by simp
  rw [e2]
  simp only [Int.toNat_natCast, Int.ofNat_eq_natCast]

theorem bufBits_nat (bits mc c : Nat) (hb : bits < 256) (hc : mc ≤ c) :
    bufBits (bits : Int) (mc : Int) (c : Int) = ((((bits &&& maskC mc) <<< (c - mc)) % 2 ^ DATANUM : Nat) : Int) := by
  have e : Int.toNat ((c : Int) - (mc : Int)) = c - mc := by omega
  unfold bufBits maskC
  rw [e, Nat.shiftLeft_eq]
  simp only [Int.toNat_natCast, Int.ofNat_eq_natCast]
  have hlt : bits &&& maskc.getD mc 0 < 256 := and_le_255 _ _ hb
  have e1 : ((bits &&& maskc.getD mc 0 : Nat) : Int) % 4294967296 = ((bits &&& maskc.getD mc 0 : Nat) : Int) := by omega
  rw [e1]
  have h1 : (((bits &&& maskc.getD mc 0) * 2 ^ (c - mc) : Nat) : Int) = ((bits &&& maskc.getD mc 0 : Nat) : Int) * 2 ^ (c - mc) := by simp
  rw [← h1]; simp only [consts]; omega

theorem last_bits (b l c : Nat) (hc : c ≤ 8) :
    Int.ofNat (Int.toNat (b : Int) ||| Int.toNat ((l : Int) / 2 ^ Int.toNat (8 - (c : Int)))) = ((b ||| (l >>> (8 - c)) : Nat) : Int) := by
  have e : Int.toNat (8 - (c : Int)) = 8 - c := by omega
  rw [e, Nat.shiftRight_eq_div_pow]
  have e2 : ((l : Int) / 2 ^ (8 - c)) = ((l / 2 ^ (8 - c) : Nat) : Int) := by simp
  rw [e2]
  simp only [Int.toNat_natCast, Int.ofNat_eq_natCast]

/-- result of `Hbitread` as the harness prints it: `(bits read, data)`, `none` = FAIL (`*data` untouched) -/
def rdOut (o : COut × Int) (d0 : Int) (res : Option (Nat × Nat)) : Prop :=
  match res with
  | some (n, v) => o.1.ret = n ∧ o.2 = v
  | none => o.1.ret = -1 ∧ o.2 = d0

/-- **`Hbitread` in read mode** (no mode switch): the translated function computes the model's `bitread` on the C view - request served
    from the bit buffer, whole bytes with refills every `BITBUF_SIZE` bytes, the last partial byte, the end of the data (short count) -/
theorem Hbitread_r (m : St) (hinv : RdInv m) (count d0 : Int) (fuel : Nat) (hf : 4 ≤ fuel) :
    let o := cBitread fuel m.toC count d0
    let r := bitread m count.toNat
    o.1.ub = false ∧ o.1.oof = false ∧ o.1.crec = r.1.toC ∧ rdOut o d0 r.2 ∧ RdInv r.1 ∧ r.1.wAccess = m.wAccess := by
  rw [cBitread_eq]
  have h0 := rd_seg0 fuel (rdInit m.toC count d0) rfl rfl rfl
  simp only at h0
  obtain ⟨a1, a2, a3, a4, a5, a6, a7, a8⟩ := h0
  have hrec0 : rdRec (rdInit m.toC count d0) = m.toC := rfl
  have hmode : (Hbitread.seg0 fuel (rdInit m.toC count d0)).rec_mode = 114 := by
    have := congrArg CRec.mode a3
    exact this.trans (by show modeChar m.wMode = 114; rw [hinv.rMode]; rfl)
  rw [rd_seg1_r fuel _ hmode]
  by_cases hbad : count ≤ 0
  · -- `count <= 0`: FAIL, nothing changes
    obtain ⟨b1, b2⟩ := a7 hbad
    obtain ⟨-, d2, d3, d4⟩ := rd_seg_done fuel _ b1
    rw [d2, d3, d4]
    have hm : bitread m count.toNat = (m, none) := by
      have : count.toNat = 0 := by omega
      simp [bitread, this]
    rw [hm]
    refine ⟨a1, a2, a3, ⟨b2, ?_⟩, hinv, rfl⟩
    show (Hbitread.seg0 fuel (rdInit m.toC count d0)).data.getD 0 0 = d0
    rw [a4]; rfl
  · have hc0 : 0 < count := by omega
    obtain ⟨b1, b2⟩ := a8 hc0
    have hmc8 := hinv.rep.cnt
    have hmb := hinv.rep.bits
    have hdl : 0 < (Hbitread.seg0 fuel (rdInit m.toC count d0)).data.length := by rw [a4]; exact Nat.zero_lt_one
    have hrc : (Hbitread.seg0 fuel (rdInit m.toC count d0)).rec_count = (m.count : Int) := congrArg CRec.count a3
    have hrb : (Hbitread.seg0 fuel (rdInit m.toC count d0)).rec_bits = (m.bits : Int) := congrArg CRec.bits a3
    have h2 := rd_seg2 fuel _ a1 b1 (by rw [a5]; exact hc0) (by rw [hrc]; omega) (by rw [hrb]; omega) hdl
    simp only at h2
    have hcc : (if (Hbitread.seg0 fuel (rdInit m.toC count d0)).count > 32 then 32 else (Hbitread.seg0 fuel (rdInit m.toC count d0)).count)
        = ((min count.toNat 32 : Nat) : Int) := by
      rw [a5]; show (if count > 32 then 32 else count) = _
      split <;> omega
    rw [hcc, hrc, hrb] at h2
    obtain ⟨s2a, s2b, s2c, s2d⟩ := h2
    have hne : ¬ (count.toNat = 0) := by omega
    generalize hcN : min count.toNat 32 = c at *
    have hc1 : 1 ≤ c := by omega
    have hc32 : c ≤ 32 := by omega
    by_cases hearly : c ≤ m.count
    · -- the request is served from the bit buffer
      obtain ⟨e1, e2, e3, e4⟩ := s2c (by omega)
      obtain ⟨-, -, d3, d4⟩ := rd_seg_done fuel _ e1
      rw [d3, d4]
      have hm : bitread m count.toNat =
          ({ m with count := m.count - c }, some (c, (m.bits >>> (m.count - c)) &&& maskC c)) := by
        simp only [bitread, hne, if_false, hinv.rMode, Bool.false_eq_true, consts, hcN, hearly, if_true]
      rw [hm]
      refine ⟨s2a, s2b.trans a2, ?_, ⟨e2, ?_⟩, ⟨⟨hinv.rep.noOob, hinv.rep.noErr, hinv.rep.bytep, hinv.rep.len, hinv.rep.zle,
        by simp only; omega, hinv.rep.bits⟩, hinv.rMode, hinv.ple⟩, rfl⟩
      · show rdRec _ = _
        rw [e4, a3, hrec0]
        simp only [St.toC, St.buf]
        congr 1
        omega
      · show (Hbitread.seg2 fuel (Hbitread.seg0 fuel (rdInit m.toC count d0))).data.getD 0 0 = _
        rw [e3, a4, earlyVal_nat _ _ _ hearly]; rfl
    · -- buffered bits first, then whole bytes, then the last partial byte
      obtain ⟨e1, e2, e3, e4, e5, e6, e7⟩ := s2d (by omega)
      rw [rd_seg3_run _ _ e1]
      -- the model's `b` and `count` before the loop
      have hb0 : (Hbitread.seg2 fuel (Hbitread.seg0 fuel (rdInit m.toC count d0))).b =
          (((if m.count > 0 then ((m.bits &&& maskC m.count) <<< (c - m.count)) % 2 ^ DATANUM else 0) : Nat) : Int) := by
        rw [e7]
        by_cases hpos : m.count > 0
        · have hpos' : (m.count : Int) > 0 := by omega
          rw [if_pos hpos, if_pos hpos', bufBits_nat _ _ _ hmb (by omega)]
        · have hpos' : ¬ ((m.count : Int) > 0) := by omega
          rw [if_neg hpos, if_neg hpos', a6]; rfl
      have hl := rd_loop ((c - m.count) / 8) (c - m.count) fuel (c - m.count) (Hbitread.seg2 fuel (Hbitread.seg0 fuel (rdInit m.toC count d0)))
        m (if m.count > 0 then ((m.bits &&& maskC m.count) <<< (c - m.count)) % 2 ^ DATANUM else 0)
        (by omega) (by omega) (by omega) (by omega) s2a e1 (by rw [e6]; omega) hb0 (by rw [e4, a3, hrec0]) hinv (by rw [e3]; exact hdl)
      simp only at hl
      have hm : bitread m count.toNat =
          (let r := readWhole (c - m.count) m (if m.count > 0 then ((m.bits &&& maskC m.count) <<< (c - m.count)) % 2 ^ DATANUM else 0) (c - m.count)
           if r.2.2.2 then (r.1, some (c - r.2.2.1, r.2.1))
           else if r.2.2.1 > 0 then
             match refill r.1 with
             | none => ({ r.1 with count := 0 }, some (c - r.2.2.1, r.2.1))
             | some s =>
               ({ (getByte { s with count := 8 - r.2.2.1 }).2 with bits := (getByte { s with count := 8 - r.2.2.1 }).1 },
                some (c, r.2.1 ||| ((getByte { s with count := 8 - r.2.2.1 }).1 >>> (getByte { s with count := 8 - r.2.2.1 }).2.count)))
           else ({ r.1 with count := 0 }, some (c, r.2.1))) := by
        simp only [bitread, hne, if_false, hinv.rMode, Bool.false_eq_true, consts, hcN, hearly]
        by_cases hpos : m.count > 0
        · simp only [hpos, if_true]
          split <;> rfl
        · have h0 : m.count = 0 := by omega
          simp only [hpos, if_false, h0, Nat.sub_zero]
          split <;> rfl
      rw [hm]
      generalize Hbitread.loop0 fuel (Hbitread.seg2 fuel (Hbitread.seg0 fuel (rdInit m.toC count d0))) = L at hl ⊢
      generalize readWhole (c - m.count) m (if m.count > 0 then ((m.bits &&& maskC m.count) <<< (c - m.count)) % 2 ^ DATANUM else 0) (c - m.count) = R at hl ⊢
      obtain ⟨m2, b2, c2, eof⟩ := R
      obtain ⟨q1, q2, q3, q4, q5, q6, q7, q8, q9⟩ := hl
      simp only at q4 q5 q6 q7 q8 q9 ⊢
      cases eof with
      | true =>
        -- the data ended inside the whole bytes
        obtain ⟨w1, w2, w3, w4⟩ := q7 rfl
        obtain ⟨-, -, -, d4⟩ := rd_seg_done fuel L w1
        rw [d4]
        simp only [if_true]
        refine ⟨q1, (q2.trans s2b).trans a2, q4, ⟨by show L.ret = _; rw [w2, e5]; omega, ?_⟩, q5, q6⟩
        show L.data.getD 0 0 = _
        rw [w3, e3, a4]; rfl
      | false =>
        obtain ⟨w1, w2, w3, w4, w5, w6, w7, w8⟩ := q8 rfl
        simp only [Bool.false_eq_true, if_false]
        obtain ⟨g1, g2, g3, g4, g5, g6⟩ := toC_r_facts q5
        rw [← q4] at g1 g2 g3 g4 g5 g6
        have hdlL : 0 < L.data.length := by rw [w3, e3]; exact hdl
        have h4 := rd_seg4 fuel L q1 w1 (by rw [w4]; omega) (by rw [w5]; omega) hdlL g1 g2 g3 g4 g5 g6
        simp only at h4
        obtain ⟨f1, f2, f3, f4, f5, f6⟩ := h4
        obtain ⟨t1, t2⟩ := refill_toC q5
        rw [← q4] at t1
        by_cases hc2 : c2 > 0
        · simp only [hc2, if_true]
          cases hrf : refill m2 with
          | none =>
            rw [hrf, Option.map_none] at t1
            obtain ⟨x1, x2, x3⟩ := f5 (by rw [w4]; omega) t1.symm
            refine ⟨f1, ((f2.trans q2).trans s2b).trans a2, ?_, ⟨by show (Hbitread.seg4 fuel L).ret = _; rw [x1, q3, e5, w4]; omega, ?_⟩,
              ⟨⟨q5.rep.noOob, q5.rep.noErr, q5.rep.bytep, q5.rep.len, q5.rep.zle, by simp, q5.rep.bits⟩, q5.rMode, q5.ple⟩, q6⟩
            · show rdRec _ = _
              rw [x3, q4]; simp only [St.toC, St.buf, Int.natCast_zero]
            · show (Hbitread.seg4 fuel L).data.getD 0 0 = _
              rw [x2, w3, e3, a4, w5]; rfl
          | some m3 =>
            rw [hrf, Option.map_some] at t1
            obtain ⟨x1, x2, x3⟩ := f6 (by rw [w4]; omega) m3.toC t1.symm
            obtain ⟨u1, u2, u3, u4, u5, u6⟩ := t2 m3 hrf
            have hrep3 : Rep { m3 with count := 8 - c2 } :=
              ⟨u1.noOob, u1.noErr, u1.bytep, u1.len, u1.zle, by simp only; omega, u1.bits⟩
            obtain ⟨v1, v2, v3, v4, v5, v6, v7, v8, v9⟩ := getByte_toC (m := { m3 with count := 8 - c2 }) hrep3 u2
            have hfg1 : (fGet ({ m3 with count := 8 - c2 } : St).toC).1 = (fGet m3.toC).1 := rfl
            have hfg2 : (fGet ({ m3 with count := 8 - c2 } : St).toC).2 = { (fGet m3.toC).2 with count := ((8 - c2 : Nat) : Int) } := rfl
            refine ⟨f1, ((f2.trans q2).trans s2b).trans a2, ?_, ⟨by show (Hbitread.seg4 fuel L).ret = _; rw [x1, q3, e5], ?_⟩,
              ⟨⟨v3.noOob, v3.noErr, v3.bytep, v3.len, v3.zle, v3.cnt, v9⟩, v5.trans u3, v4⟩, by rw [v6, u4, q6]⟩
            · show rdRec _ = _
              rw [x3, w4, ← v1.trans hfg1]
              have := (v2.trans hfg2).symm
              simp only [St.toC, St.buf] at this ⊢
              simp only [CRec.mk.injEq] at this ⊢
              obtain ⟨z1, z2, z3, z4, z5, z6, z7, z8, z9, z10, z11, z12, z13, z14⟩ := this
              refine ⟨z1, z2, ?_, trivial, z5, z6, z7, z8, z9, z10, z11, z12, z13, z14⟩
              rw [v7]; simp only; omega
            · show (Hbitread.seg4 fuel L).data.getD 0 0 = _
              rw [x2, w3, e3, a4, w5, w4, ← v1.trans hfg1, last_bits _ _ _ (by omega), v7]; rfl
        · have h0 : c2 = 0 := by omega
          subst h0
          simp only [Nat.lt_irrefl, if_false]
          obtain ⟨x1, x2, x3⟩ := f4 (by rw [w4]; rfl)
          refine ⟨f1, ((f2.trans q2).trans s2b).trans a2, ?_, ⟨by show (Hbitread.seg4 fuel L).ret = _; rw [x1, q3, e5], ?_⟩,
            ⟨⟨q5.rep.noOob, q5.rep.noErr, q5.rep.bytep, q5.rep.len, q5.rep.zle, by simp, q5.rep.bits⟩, q5.rMode, q5.ple⟩, q6⟩
          · show rdRec _ = _
            rw [x3, q4]; simp only [St.toC, St.buf, Int.natCast_zero]
          · show (Hbitread.seg4 fuel L).data.getD 0 0 = _
            rw [x2, w3, e3, a4, w5]; rfl


/-! ## links to the invariants of the model theorems (`H4.Lemmas.BitIO`) -/

/-- the sequential-write invariant of the C05 model theorems implies the representation invariant -/
theorem inv_of_WInv {s : St} (h : H4.BitIO.WInv s) (hr : RegOK s) : Inv s := by
  obtain ⟨r1, r2, r3, r4⟩ := hr
  exact ⟨h.noOob, h.noErr, h.bytep, h.len, by rw [h.bytez]; exact Nat.le_refl _, by rw [h.bytep, h.bytez]; exact Nat.le_of_lt h.lt, r2,
    fun _ => by rw [h.bytep, h.bytez]; exact h.lt, r3, fun _ => r1, fun _ => h.wAcc, fun _ => h.bytez⟩

theorem startRead_bits (e : List Byte) : (startRead e).bits = 0 := by
  unfold startRead
  simp only [hRead, Bool.false_eq_true, if_false]
  split <;> rfl

/-- the state after `Hstartbitread` satisfies the read invariant -/
theorem rdInv_startRead (e : List Byte) : RdInv (startRead e) := by
  obtain ⟨h, _⟩ := startRead_ok e
  exact ⟨⟨h.noOob, h.noErr, h.bytep, h.len, h.zle, Nat.le_of_lt h.cnt, by rw [startRead_bits]; decide⟩, h.rMode, h.ple⟩
