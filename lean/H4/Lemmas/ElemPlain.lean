import H4.Lemmas.ElemFrame
/-! Contiguous elements: `Hwrite` in place and at the end of the file, `Hread`, `Htrunc`, creation. -/
namespace H4.Elem
open H4.Gen.Hdf

theorem bytesAt_length (f : File) (o l : Nat) : (f.bytesAt o l).length = l := by simp [File.bytesAt]

theorem bytesAt_getD (f : File) (o l i : Nat) : (f.bytesAt o l).getD i 0 = if i < l then rd f.disk (o + i) else 0 := by
  simp only [File.bytesAt, List.getD_eq_getElem?_getD, List.getElem?_map]
  by_cases h : i < l
  · simp [h, List.getElem?_range h]
  · simp [h, List.getElem?_eq_none (by simp; omega : (List.range l).length ≤ i)]

/-- the bytes of a contiguous element after a write that stays inside it or extends it at the end of the file -/
theorem plain_write_bytes (f f' : File) (o l l' p : Nat) (bs : Bytes) (hl' : l' = max l (p + bs.length))
    (htail : ∀ i, l ≤ i → i < l' → rd f.disk (o + i) = 0)
    (hd' : ∀ x, rd f'.disk x = if o + p ≤ x ∧ x < o + p + bs.length then bs.getD (x - (o + p)) 0 else rd f.disk x) :
    f'.bytesAt o l' = specWrite (f.bytesAt o l) p bs := by
  unfold specWrite
  rw [bytesAt_length, ← hl']
  unfold File.bytesAt
  apply List.map_congr_left
  intro i hi
  have hi : i < l' := List.mem_range.mp hi
  rw [hd']
  by_cases hin : p ≤ i ∧ i < p + bs.length
  · have : o + p ≤ o + i ∧ o + i < o + p + bs.length := by omega
    rw [if_pos this, if_pos hin]
    congr 1; omega
  · have : ¬ (o + p ≤ o + i ∧ o + i < o + p + bs.length) := by omega
    rw [if_neg this, if_neg hin]
    have := bytesAt_getD f o l i
    unfold File.bytesAt at this
    rw [this]
    by_cases h : i < l
    · rw [if_pos h]
    · rw [if_neg h]; exact htail i (by omega) hi

/-- `Hread` on a contiguous element delivers the slice of its bytes -/
theorem plain_read_bytes (f : File) (o l p n : Nat) (bs : Bytes) (hpn : p + n ≤ l)
    (h : f.hpRead (o + p) n = some bs) : bs = specRead (f.bytesAt o l) p n := by
  rw [hpRead_eq _ _ _ _ h]
  unfold specRead File.bytesAt
  apply List.ext_getElem?
  intro i
  simp only [List.getElem?_map, List.getElem?_take, List.getElem?_drop]
  by_cases hi : i < n
  · simp only [hi, if_true, List.getElem?_range hi, Option.map_some]
    rw [List.getElem?_range (by omega : p + i < l)]
    simp only [Option.map_some]
    congr 2; omega
  · simp only [hi, if_false]
    rw [List.getElem?_eq_none (by simp; omega : (List.range n).length ≤ i)]
    rfl

end H4.Elem

namespace H4.Elem
open H4.Gen.Hdf

theorem slotBytes_plain (f : File) (s : Nat) (h : isSpecial (f.dd s).tag = false) :
    f.slotBytes s = (f.dd s).ext.map (fun e => f.bytesAt e.1 e.2) := by
  unfold File.slotBytes; simp [h]

theorem slotBytes_special (f : File) (s : Nat) (h : isSpecial (f.dd s).tag = true) :
    f.slotBytes s = (f.link (f.keyOf s)).map f.linkedBytes := by
  unfold File.slotBytes; simp [h, File.keyOf]

/-- the file after a plain `Hwrite` of `bs` at `p` into the element in slot `s` (extent `(o, l)`), `grow` = the DD's
    length is pushed to `p + |bs|` first (appendable element at the end of the file), after the gap `[l, p)` has been
    filled with zeros -/
def plainWriteF (f : File) (s o l p : Nat) (bs : Bytes) (grow : Bool) : File :=
  let f := if grow = true ∧ p > l then f.pwrite (o + l) (zeros (p - l)) else f
  let f := if grow then f.ddSetExt s (o, p + bs.length) else f
  let f := f.pwrite (o + p) bs
  { f with endOff := max f.endOff (o + p + bs.length) }

/-- what a plain write guarantees -/
structure PlainWritten (f : File) (s o l p : Nat) (bs : Bytes) (f' : File) : Prop where
  wfe : WFE f'
  dd_s : f'.dd s = { f.dd s with ext := some (o, max l (p + bs.length)) }
  bytes : f'.slotBytes s = some (specWrite (f.bytesAt o l) p bs)
  others : ∀ s', f.live s' → s' ≠ s → f'.dd s' = f.dd s' ∧ f'.slotBytes s' = f.slotBytes s'
  new_live : ∀ j, f'.live j → f.live j
  links : f'.links = f.links
  present : f'.present = f.present

theorem plainWrite_core (f f1 : File) (hw : WFE f) (s o l p : Nat) (bs : Bytes)
    (hl : f.live s) (hsp : isSpecial (f.dd s).tag = false) (hut : baseTag (f.dd s).tag ≠ DFTAG_LINKED)
    (hext : (f.dd s).ext = some (o, l))
    (hcase : p + bs.length ≤ l ∨ (p + bs.length > l ∧ o + l = f.endOff))
    (hdd1 : ∀ j, f1.dd j = if j = s then { f.dd s with ext := some (o, max l (p + bs.length)) } else f.dd j)
    (hend1 : f1.endOff = max f.endOff (o + max l (p + bs.length)) ∧ (∀ x, rd f1.disk x = rd f.disk x) ∧ f1.links = f.links ∧ f1.ndds = f.ndds)
    (hpres1 : f1.present = f.present) :
    PlainWritten f s o l p bs (f1.pwrite (o + p) bs) := by
  have hle := hw.ext_le s o l hl hext
  have hfit' : o + p + bs.length ≤ f1.endOff := by rw [hend1.1]; omega
  have hlive : ∀ j, (f1.pwrite (o + p) bs).live j ↔ f.live j := by
    intro j
    unfold File.live
    rw [pwrite_dd, hdd1]
    by_cases e : j = s
    · subst e; simp
    · simp [e]
  have hrd : ∀ x, rd (f1.pwrite (o + p) bs).disk x = if o + p ≤ x ∧ x < o + p + bs.length then bs.getD (x - (o + p)) 0 else rd f.disk x := by
    intro x; rw [pwrite_rd, hend1.2.1 x]
  -- WFF of the result
  have hw' : WFF (f1.pwrite (o + p) bs) := by
    refine ⟨by show f1.ndds ≥ 1; rw [hend1.2.2.2]; exact hw.ndds_pos, ?_, ?_, ?_, ?_⟩
    · intro j oj lj hj he
      rw [pwrite_dd, hdd1] at he
      show oj + lj ≤ f1.endOff
      rw [hend1.1]
      by_cases e : j = s
      · subst e; simp at he; omega
      · simp only [e, if_false] at he
        have := hw.ext_le j oj lj ((hlive j).mp hj) he
        omega
    · intro a b oa la ob lb hab ha hb hea heb x
      rw [pwrite_dd, hdd1] at hea heb
      have key : ∀ j oj lj, j ≠ s → f.live j → (f.dd j).ext = some (oj, lj) →
          ¬ (o ≤ x ∧ x < o + max l (p + bs.length) ∧ oj ≤ x ∧ x < oj + lj) := by
        intro j oj lj hne hj he
        have h1 := hw.disj s j o l oj lj (fun e => hne e.symm) hl hj hext he x
        have h2 := hw.ext_le j oj lj hj he
        rcases hcase with hfit | ⟨_, heof⟩
        · have : max l (p + bs.length) = l := by omega
          rw [this]; omega
        · omega
      by_cases ea : a = s
      · by_cases eb : b = s
        · omega
        · subst ea
          simp only [if_true] at hea
          simp only [eb, if_false] at heb
          simp at hea
          have := key b ob lb eb ((hlive b).mp hb) heb
          omega
      · simp only [ea, if_false] at hea
        by_cases eb : b = s
        · subst eb
          simp at heb
          have := key a oa la ea ((hlive a).mp ha) hea
          omega
        · simp only [eb, if_false] at heb
          exact hw.disj a b oa la ob lb hab ((hlive a).mp ha) ((hlive b).mp hb) hea heb x
    · intro k hk
      have hk' : f1.endOff ≤ k := hk
      rw [hrd]
      have : ¬ (o + p ≤ k ∧ k < o + p + bs.length) := by omega
      rw [if_neg this]
      exact hw.tail0 k (by rw [hend1.1] at hk'; omega)
    · intro a b ha hb ht hr
      rw [pwrite_dd, pwrite_dd, hdd1, hdd1] at ht hr
      have e : ∀ j, (if j = s then ({ f.dd s with ext := some (o, max l (p + bs.length)) } : DD) else f.dd j).tag = (f.dd j).tag ∧
          (if j = s then ({ f.dd s with ext := some (o, max l (p + bs.length)) } : DD) else f.dd j).ref = (f.dd j).ref := by
        intro j; by_cases e : j = s
        · subst e; simp
        · simp [e]
      rw [(e a).1, (e b).1] at ht
      rw [(e a).2, (e b).2] at hr
      exact hw.uniq a b ((hlive a).mp ha) ((hlive b).mp hb) ht hr
  have hs' : (f1.pwrite (o + p) bs).dd s = { f.dd s with ext := some (o, max l (p + bs.length)) } := by
    rw [pwrite_dd, hdd1]; simp
  have hstep := hw.plain_step hw' s
    (by intro j _ hne; rw [pwrite_dd, hdd1]; simp [hne])
    (by rw [hs']; exact ⟨hsp, hut⟩)
    (fun _ => ⟨hsp, hut⟩)
    (by intro j hj hnl; exact absurd ((hlive j).mp hj) hnl)
    (by show f1.links = f.links; exact hend1.2.2.1)
    (by
      intro x hx hn
      rw [hrd]
      have hn' := hn o l hl hext
      have : ¬ (o + p ≤ x ∧ x < o + p + bs.length) := by
        rcases hcase with hfit | ⟨_, heof⟩ <;> omega
      rw [if_neg this])
  refine ⟨hstep.1, hs', ?_, ?_, fun j hj => (hlive j).mp hj, hend1.2.2.1, hpres1⟩
  · rw [slotBytes_plain _ _ (by rw [hs']; exact hsp), hs']
    simp only [Option.map_some]
    congr 1
    apply plain_write_bytes f _ o l _ p bs rfl _ hrd
    intro i hi1 hi2
    rcases hcase with hfit | ⟨_, heof⟩
    · omega
    · exact hw.tail0 _ (by omega)
  · intro s' hs'l hne
    exact ⟨by rw [pwrite_dd, hdd1]; simp [hne], hstep.2 s' hs'l hne⟩

theorem plainWrite_spec (f : File) (hw : WFE f) (s o l p : Nat) (bs : Bytes) (grow : Bool)
    (hl : f.live s) (hsp : isSpecial (f.dd s).tag = false) (hut : baseTag (f.dd s).tag ≠ DFTAG_LINKED)
    (hext : (f.dd s).ext = some (o, l))
    (hcase : (grow = false ∧ p + bs.length ≤ l) ∨ (grow = true ∧ p + bs.length > l ∧ o + l = f.endOff)) :
    PlainWritten f s o l p bs (plainWriteF f s o l p bs grow) := by
  have hs_lt := live_lt f s hl
  have hle := hw.ext_le s o l hl hext
  rcases hcase with ⟨hg, hfit⟩ | ⟨hg, hgt, heof⟩
  · subst hg
    have hm : max l (p + bs.length) = l := by omega
    have := plainWrite_core f f hw s o l p bs hl hsp hut hext (Or.inl hfit)
      (by intro j; by_cases e : j = s
          · subst e; simp only [if_true]; rw [hm, ← hext]
          · simp [e])
      ⟨by rw [hm]; omega, fun _ => rfl, rfl, rfl⟩ rfl
    unfold plainWriteF
    simp only [Bool.false_eq_true, false_and, if_false]
    rw [endOff_max_noop _ _ (by show o + p + bs.length ≤ f.endOff; omega)]
    exact this
  · subst hg
    have hm : max l (p + bs.length) = p + bs.length := by omega
    -- the gap fill: zeros written where (by `tail0`) zeros are; `growth_gap_zero` says they are zeros whatever was there
    have hg0 : ∀ g : File, g = (if p > l then f.pwrite (o + l) (zeros (p - l)) else f) →
        (∀ x, rd g.disk x = rd f.disk x) ∧ (∀ j, g.dd j = f.dd j) ∧ g.endOff = f.endOff ∧ g.links = f.links ∧
        g.ndds = f.ndds ∧ g.present = f.present ∧ g.mem.length = f.mem.length := by
      intro g hg
      by_cases c : p > l
      · rw [if_pos c] at hg
        subst hg
        refine ⟨?_, fun _ => rfl, rfl, rfl, rfl, rfl, rfl⟩
        intro x
        exact pwrite_zeros_rd f (o + l) (p - l) (fun y hy _ => hw.tail0 y (by omega)) x
      · rw [if_neg c] at hg
        subst hg
        exact ⟨fun _ => rfl, fun _ => rfl, rfl, rfl, rfl, rfl, rfl⟩
    unfold plainWriteF
    simp only [if_true, true_and]
    generalize hgd : (if p > l then f.pwrite (o + l) (zeros (p - l)) else f) = g
    obtain ⟨g1, g2, g3, g4, g5, g6, g7⟩ := hg0 g hgd.symm
    have hs_lt' : s < g.mem.length := by rw [g7]; exact hs_lt
    have := plainWrite_core f (g.ddSetExt s (o, p + bs.length)) hw s o l p bs hl hsp hut hext (Or.inr ⟨hgt, heof⟩)
      (by intro j; rw [ddSetExt_dd g s j _ hs_lt', hm, g2 s, g2 j])
      ⟨by rw [ddSetExt_endOff g s _ hs_lt', hm, g3], fun x => by rw [ddSetExt_disk]; exact g1 x,
       by rw [ddSetExt_links]; exact g4, by rw [ddSetExt_ndds]; exact g5⟩
      (by
        have : (g.ddSetExt s (o, p + bs.length)).present = g.present := by
          unfold File.ddSetExt File.updateDD; simp only [File.dd]; split <;> split <;> rfl
        rw [this]; exact g6)
    rw [endOff_max_noop _ _ (by show o + p + bs.length ≤ (g.ddSetExt s (o, p + bs.length)).endOff; rw [ddSetExt_endOff g s _ hs_lt', g3]; simp; omega)]
    exact this

/-- 998a325, independent of what the file held there: after the gap fill every byte between the old end of the element
    and the write position is zero -/
theorem growth_gap_zero (f : File) (o l p : Nat) (x : Nat) (h1 : o + l ≤ x) (h2 : x < o + p) :
    rd (f.pwrite (o + l) (zeros (p - l))).disk x = 0 := by
  rw [pwrite_rd, zeros_length, if_pos ⟨h1, by omega⟩]
  unfold zeros
  simp only [List.getD_eq_getElem?_getD, List.getElem?_replicate]
  split <;> rfl

end H4.Elem
