import H4.Lemmas.DDLog
/-! # C17: every prefix of the flush (`HTPsync`) leaves a file that opens, with every old object intact -/
namespace H4.DD
open H4.Gen.Hdf H4.Bitvect

/-- effect of one logged write on the decoded disk image (only the two kinds of write `HTPsync` issues change DD blocks
    as a whole; the other kinds are not used below and leave the image as it is) -/
def applyWr (disk : List DBlock) : Wr → List DBlock
  | .hdr off n nx => disk.map (fun d => if d.myoff = off then { d with hdr := true, ndds := n, next := nx } else d)
  | .dds off l => disk.map (fun d => if d.myoff + (NDDS_SZ + OFFSET_SZ) = off then { d with dds := l } else d)
  | _ => disk

/-- the image after a sequence of writes -/
def applyWrs (disk : List DBlock) (ws : List Wr) : List DBlock := ws.foldl applyWr disk

/-- what `HTPstart` makes of a run of consecutive disk blocks: it follows `nextoffset` until it is 0 -/
def cutChain : List DBlock → List Block
  | [] => []
  | d :: ds => ⟨d.myoff, d.next, false, d.dds⟩ :: (if d.next ≠ 0 then cutChain ds else [])

/-- one block: memory `b`, the image before the flush `d0`, an image during the flush `d` -/
structure SlotOK (b : Block) (d0 d : DBlock) : Prop where
  off0 : d0.myoff = b.myoff
  off : d.myoff = b.myoff
  hdr : d.hdr = true
  nd0 : d0.dds.length = b.dds.length
  nd : d.ndds = d.dds.length ∧ d.dds.length = b.dds.length ∧ b.dds.length ≠ 0
  next0 : d0.next = b.next ∨ d0.next = 0
  nextd : d.next = d0.next ∨ d.next = b.next
  /-- a descriptor that is live in the old image is the same in memory (nothing old was deleted or changed) -/
  dds0 : ∀ (j : Nat) (x : DD), d0.dds[j]? = some x → isLive x = true → b.dds[j]? = some x
  ddsd : d.dds = d0.dds ∨ d.dds = b.dds

/-- the three lists in step -/
inductive Tri : List Block → List DBlock → List DBlock → Prop
  | nil : Tri [] [] []
  | cons {b d0 d bs ds0 ds} : SlotOK b d0 d → Tri bs ds0 ds → Tri (b :: bs) (d0 :: ds0) (d :: ds)

theorem Tri.length {bs : List Block} {ds0 ds : List DBlock} (h : Tri bs ds0 ds) : ds.length = bs.length ∧ ds0.length = bs.length := by
  induction h with
  | nil => exact ⟨rfl, rfl⟩
  | cons _ _ ih => simp [ih.1, ih.2]

/-- `HTPstart` on an image during the flush reads exactly `cutChain` of it -/
theorem readChain_tri (allD post : List DBlock) : ∀ (sufB : List Block) (sufD0 sufD preD : List DBlock) (off fuel : Nat),
    allD = preD ++ sufD ++ post → Tri sufB sufD0 sufD → sufB ≠ [] → chainFrom off sufB → (∀ c ∈ preD, c.myoff < off) →
    sufB.length ≤ fuel → readChain allD fuel off = some (cutChain sufD) := by
  intro sufB
  induction sufB with
  | nil => intro _ _ _ _ _ _ _ h; exact absurd rfl h
  | cons b rest ih =>
    intro sufD0 sufD preD off fuel hall htri _ hch hpre hfuel
    cases htri with
    | @cons _ d0 d _ ds0 ds hs ht =>
      obtain ⟨hoff, hpos, hlt, hrest⟩ := hch
      cases fuel with
      | zero => simp at hfuel
      | succ fuel =>
        have hfind : allD.find? (fun db => db.myoff == off) = some d := by
          rw [hall, List.append_assoc, List.find?_append]
          have : preD.find? (fun db => db.myoff == off) = none := by
            rw [List.find?_eq_none]
            intro c hc
            have := hpre c hc
            simp; omega
          rw [this]
          simp [hs.off, hoff]
        unfold readChain
        simp only [hfind]
        have hcond : ¬ (!d.hdr ∨ d.ndds = 0 ∨ d.dds.length ≠ d.ndds) := by
          have := hs.nd
          simp [hs.hdr]; omega
        rw [if_neg hcond]
        have hmy : d.myoff = off := by rw [hs.off, hoff]
        by_cases hn : d.next ≠ 0
        · rw [if_pos hn]
          have hdn : d.next = b.next := by
            rcases hs.nextd with h1 | h1
            · rcases hs.next0 with h2 | h2
              · rw [h1, h2]
              · rw [h1, h2] at hn; exact absurd rfl hn
            · exact h1
          have hrne : rest ≠ [] := by
            intro e; subst e
            simp [chainFrom] at hrest
            rw [hdn] at hn; exact hn hrest
          have := ih ds0 ds (preD ++ [d]) b.next fuel (by rw [hall]; simp) ht hrne hrest ?_ (by simp at hfuel; omega)
          · have hbn : b.next ≠ 0 := by rw [← hdn]; exact hn
            rw [hdn, this]
            simp [cutChain, hbn, hmy, hdn]
          · intro c hc
            cases rest with
            | nil => exact absurd rfl hrne
            | cons r rs =>
              obtain ⟨hr1, _, _, _⟩ := hrest
              have hbr : off < r.myoff := hlt r (by simp)
              simp at hc
              rcases hc with hc | hc
              · have := hpre c hc; omega
              · subst hc; omega
        · rw [if_neg hn]
          have hn0 : d.next = 0 := by omega
          simp [cutChain, hn0, hmy]

/-- what is live in the old chain is live, unchanged, in the chain read during the flush -/
theorem cut_old_subset {bs : List Block} {ds0 ds : List DBlock} (h : Tri bs ds0 ds) :
    ∀ x ∈ liveOf (slotsOf (cutChain ds0)), x ∈ liveOf (slotsOf (cutChain ds)) := by
  induction h with
  | nil => intro x hx; exact hx
  | @cons b d0 d bs ds0 ds hs _ ih =>
    intro x hx
    simp only [cutChain, slotsOf_cons, liveOf_append, List.mem_append] at hx ⊢
    rcases hx with hx | hx
    · left
      obtain ⟨hm, hl⟩ := mem_liveOf.mp hx
      apply mem_liveOf.mpr
      refine ⟨?_, hl⟩
      rcases hs.ddsd with e | e
      · rw [e]; exact hm
      · rw [e]
        obtain ⟨j, hj, rfl⟩ := List.getElem_of_mem hm
        have := hs.dds0 j _ (List.getElem?_eq_getElem hj) hl
        exact List.mem_of_getElem? this
    · right
      by_cases hn0 : d0.next ≠ 0
      · rw [if_pos hn0] at hx
        have hdn : d.next ≠ 0 := by
          rcases hs.nextd with h1 | h1
          · rw [h1]; exact hn0
          · rcases hs.next0 with h2 | h2
            · rw [h1, ← h2]; exact hn0
            · exact absurd h2 hn0
        rw [if_pos hdn]
        exact ih x hx
      · rw [if_neg hn0] at hx
        simp [liveOf] at hx

/-- whatever is live in a chain read during the flush is a live descriptor of the in-memory directory -/
theorem cut_subset_mem {bs : List Block} {ds0 ds : List DBlock} (h : Tri bs ds0 ds) :
    ∀ x ∈ liveOf (slotsOf (cutChain ds)), x ∈ liveOf (slotsOf bs) := by
  induction h with
  | nil => intro x hx; exact hx
  | @cons b d0 d bs ds0 ds hs _ ih =>
    intro x hx
    simp only [cutChain, slotsOf_cons, liveOf_append, List.mem_append] at hx ⊢
    rcases hx with hx | hx
    · left
      obtain ⟨hm, hl⟩ := mem_liveOf.mp hx
      apply mem_liveOf.mpr
      refine ⟨?_, hl⟩
      rcases hs.ddsd with e | e
      · rw [e] at hm
        obtain ⟨j, hj, rfl⟩ := List.getElem_of_mem hm
        have := hs.dds0 j _ (List.getElem?_eq_getElem hj) hl
        exact List.mem_of_getElem? this
      · rw [e] at hm; exact hm
    · right
      by_cases hn : d.next ≠ 0
      · rw [if_pos hn] at hx; exact ih x hx
      · rw [if_neg hn] at hx; simp [liveOf] at hx

/-! ## the writes of `HTPsync` keep the three lists in step -/

/-- block offsets strictly increase along the chain -/
def OffInc : List Block → Prop
  | [] => True
  | b :: bs => (∀ c ∈ bs, b.myoff < c.myoff) ∧ OffInc bs

theorem offInc_of_chain : ∀ (bs : List Block) (off : Nat), chainFrom off bs → OffInc bs := by
  intro bs
  induction bs with
  | nil => intro _ _; trivial
  | cons b rest ih =>
    intro off h
    obtain ⟨h1, _, h3, h4⟩ := h
    exact ⟨fun c hc => by rw [h1]; exact h3 c hc, ih _ h4⟩

theorem tri_offs {bs : List Block} {ds0 ds : List DBlock} (h : Tri bs ds0 ds) : ∀ d ∈ ds, ∃ b ∈ bs, d.myoff = b.myoff := by
  induction h with
  | nil => intro d hd; cases hd
  | @cons b d0 d bs ds0 ds hs _ ih =>
    intro e he
    rcases List.mem_cons.mp he with rfl | he
    · exact ⟨b, by simp, hs.off⟩
    · obtain ⟨b', hb', hoff⟩ := ih e he
      exact ⟨b', by simp [hb'], hoff⟩

theorem map_noop {α} (l : List α) (P : α → Prop) [DecidablePred P] (f : α → α) (h : ∀ x ∈ l, ¬ P x) :
    l.map (fun x => if P x then f x else x) = l := by
  induction l with
  | nil => rfl
  | cons a t ih =>
    simp only [List.map_cons, if_neg (h a (by simp))]
    rw [ih (fun x hx => h x (by simp [hx]))]

theorem tri_apply_hdr {bs : List Block} {ds0 ds : List DBlock} (h : Tri bs ds0 ds) (hinc : OffInc bs) {b : Block} (hb : b ∈ bs) :
    Tri bs ds0 (applyWr ds (.hdr b.myoff b.dds.length b.next)) := by
  induction h with
  | nil => cases hb
  | @cons b1 d0 d bs ds0 ds hs ht ih =>
    obtain ⟨hlt, hinc'⟩ := hinc
    simp only [applyWr, List.map_cons]
    rcases List.mem_cons.mp hb with rfl | hb'
    · -- the header of this very block
      have hrest : List.map (fun d => if d.myoff = b.myoff then { d with hdr := true, ndds := b.dds.length, next := b.next } else d) ds = ds := by
        apply map_noop
        intro e he
        obtain ⟨b', hb', hoff⟩ := tri_offs ht e he
        have := hlt b' hb'
        omega
      rw [hrest, if_pos hs.off]
      refine Tri.cons ⟨hs.off0, hs.off, rfl, hs.nd0, ⟨by simp only; exact hs.nd.2.1.symm, hs.nd.2⟩, hs.next0, Or.inr rfl, hs.dds0, hs.ddsd⟩ ht
    · have hne : d.myoff ≠ b.myoff := by
        rw [hs.off]; have := hlt b hb'; omega
      rw [if_neg hne]
      exact Tri.cons hs (ih hinc' hb')

theorem tri_apply_dds {bs : List Block} {ds0 ds : List DBlock} (h : Tri bs ds0 ds) (hinc : OffInc bs) {b : Block} (hb : b ∈ bs) :
    Tri bs ds0 (applyWr ds (.dds (b.myoff + (NDDS_SZ + OFFSET_SZ)) b.dds)) := by
  induction h with
  | nil => cases hb
  | @cons b1 d0 d bs ds0 ds hs ht ih =>
    obtain ⟨hlt, hinc'⟩ := hinc
    simp only [applyWr, List.map_cons]
    rcases List.mem_cons.mp hb with rfl | hb'
    · have hrest : List.map (fun d => if d.myoff + (NDDS_SZ + OFFSET_SZ) = b.myoff + (NDDS_SZ + OFFSET_SZ) then { d with dds := b.dds } else d) ds = ds := by
        apply map_noop
        intro e he
        obtain ⟨b', hb', hoff⟩ := tri_offs ht e he
        have := hlt b' hb'
        omega
      rw [hrest, if_pos (by rw [hs.off])]
      refine Tri.cons ⟨hs.off0, hs.off, hs.hdr, hs.nd0, ⟨by simp only; rw [hs.nd.1, hs.nd.2.1], rfl, hs.nd.2.2⟩, hs.next0, hs.nextd, hs.dds0, Or.inr rfl⟩ ht
    · have hne : ¬ d.myoff + (NDDS_SZ + OFFSET_SZ) = b.myoff + (NDDS_SZ + OFFSET_SZ) := by
        rw [hs.off]; have := hlt b hb'; omega
      rw [if_neg hne]
      exact Tri.cons hs (ih hinc' hb')

theorem mem_syncWrites {bs : List Block} {w : Wr} (h : w ∈ syncWrites bs) :
    ∃ b ∈ bs, w = .hdr b.myoff b.dds.length b.next ∨ w = .dds (b.myoff + (NDDS_SZ + OFFSET_SZ)) b.dds := by
  induction bs with
  | nil => cases h
  | cons b rest ih =>
    unfold syncWrites at h
    rcases List.mem_append.mp h with h | h
    · split at h
      · simp at h
        rcases h with rfl | rfl
        · exact ⟨b, by simp, Or.inl rfl⟩
        · exact ⟨b, by simp, Or.inr rfl⟩
      · cases h
    · obtain ⟨b', hb', hw⟩ := ih h
      exact ⟨b', by simp [hb'], hw⟩

theorem tri_applyWrs {bs : List Block} {ds0 : List DBlock} (hinc : OffInc bs) :
    ∀ (ws : List Wr) (ds : List DBlock), (∀ w ∈ ws, w ∈ syncWrites bs) → Tri bs ds0 ds → Tri bs ds0 (applyWrs ds ws) := by
  intro ws
  induction ws with
  | nil => intro ds _ h; exact h
  | cons w ws ih =>
    intro ds hw h
    unfold applyWrs
    simp only [List.foldl_cons]
    apply ih (applyWr ds w) (fun x hx => hw x (by simp [hx]))
    obtain ⟨b, hb, hk⟩ := mem_syncWrites (hw w (by simp))
    rcases hk with rfl | rfl
    · exact tri_apply_hdr h hinc hb
    · exact tri_apply_dds h hinc hb

/-- the relation between memory and the disk image that a session which only ADDS maintains (with the fix of F3/F3′):
    block by block, the disk block is a valid block of the same size, whatever is live in it is unchanged in memory,
    and its `nextoffset` is the one in memory or still 0 -/
def Added (s : File) : Prop :=
  s.disk.length = s.blocks.length ∧
  ∀ (i : Nat) (b : Block) (d : DBlock), s.blocks[i]? = some b → s.disk[i]? = some d → SlotOK b d d

theorem tri_of_added : ∀ (bs : List Block) (ds : List DBlock), ds.length = bs.length →
    (∀ (i : Nat) (b : Block) (d : DBlock), bs[i]? = some b → ds[i]? = some d → SlotOK b d d) → Tri bs ds ds := by
  intro bs
  induction bs with
  | nil => intro ds hl _; cases ds with | nil => exact Tri.nil | cons _ _ => simp at hl
  | cons b rest ih =>
    intro ds hl h
    cases ds with
    | nil => simp at hl
    | cons d ds =>
      exact Tri.cons (h 0 b d (by simp) (by simp))
        (ih ds (by simpa using hl) (fun i b' d' h1 h2 => h (i + 1) b' d' (by simpa using h1) (by simpa using h2)))

/-- **flush_prefix_safe** (C17): take any state reached by a session that only added objects (`Added`).  After ANY
    prefix of the physical writes of the flush (`HTPsync`: blocks head to tail, for each dirty block its header then its DD
    list), the DD chain read from the file as `HTPstart` reads it (i) decodes, (ii) contains every descriptor that was live
    in the file before the flush, unchanged, and (iii) contains no live descriptor that is not in the in-memory directory. -/
theorem flush_prefix_safe (cfg : Cfg) {s : File} (h : Inv cfg s) (ha : Added s) (j : Nat) :
    ∃ old chain, decodeBlocks s.disk = some old ∧
      decodeBlocks (applyWrs s.disk ((syncWrites s.blocks).take j)) = some chain ∧
      (∀ x ∈ liveOf (slotsOf old), x ∈ liveOf (slotsOf chain)) ∧
      (∀ x ∈ liveOf (slotsOf chain), x ∈ s.live) := by
  have hne : s.blocks ≠ [] := by intro e; have := h.wf.ne; simp [e] at this
  have htri0 := tri_of_added s.blocks s.disk ha.1 ha.2
  have hinc := offInc_of_chain _ _ h.disk.chain
  have htri := tri_applyWrs (ds0 := s.disk) hinc ((syncWrites s.blocks).take j) s.disk
    (fun w hw => List.mem_of_mem_take hw) htri0
  refine ⟨cutChain s.disk, cutChain (applyWrs s.disk ((syncWrites s.blocks).take j)), ?_, ?_, cut_old_subset htri, cut_subset_mem htri⟩
  · unfold decodeBlocks
    exact readChain_tri s.disk [] s.blocks s.disk s.disk [] MAGICLEN _ (by simp) htri0 hne h.disk.chain (by simp) (by rw [ha.1]; exact Nat.le_refl _)
  · unfold decodeBlocks
    have hl := htri.length.1
    exact readChain_tri _ [] s.blocks s.disk _ [] MAGICLEN _ (by simp) htri hne h.disk.chain (by simp) (by rw [hl]; exact Nat.le_refl _)

end H4.DD
