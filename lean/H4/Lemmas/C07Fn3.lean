import H4.Gen.Fn.Vio3
import H4.Format
import H4.Lemmas.C2L
import H4.Lemmas.C08Fn5
/-! Lemmas for `H4.Props.C07Fn3`: `vunpackvs` of `hdf/src/vio.c`, as TRANSLATED from the C text (`H4.Gen.Fn.Vio3`, regenerated on
    every run), against the independent reader `H4.Format.vunpackvs` of the DFTAG_VH record.

    Part 1 (this file): the generated definition restated as a composition of phases built from combinators (`UINT16DECODE`,
    `INT16DECODE`, `INT32DECODE` into a scalar or an array cell, `UINT32DECODE`, `HIstrncpy` into a fixed array / a fresh row); the
    restatement is checked against the generated text by `kernel_rfl`.  The bit-operation values are those of `H4.Lemmas.C08Fn3`.
    Core only. -/
set_option linter.unusedSimpArgs false
set_option linter.unusedVariables false
namespace H4.Lemmas.C07Fn3
open H4 H4.Gen.Hdf H4.Gen.Fn.Vio3 H4.C2L
open H4.Lemmas.C08Fn3 (andS orS andU orU)

abbrev St := vunpackvs.St

/-! ## 1. the generated text, restated -/

/-- `*bb` -/
def cur (s : St) : Int := (s.buf.getD (Int.toNat (s.bb)) 0)

/-- the bounds check of a load through `bb` -/
def rdchk (s : St) : St := vunpackvs.chk s (0 ≤ s.bb ∧ s.bb < s.buf.length)

/-- `bb++` -/
def inc (s : St) : St :=
  let e0 : Int := (s.bb + 1)
  vunpackvs.St.set_bb s (e0)

/-- `UINT16DECODE(bb, x)` (`x` read with `get`, stored with `set`; `pre` = the bounds check of `x` when it is an array cell) -/
def dec16g (s : St) (pre : St → St) (get : St → Int) (set : St → Int → St) : St :=
  have s : St := rdchk s
  have s : St := vunpackvs.chk s ((0 : Int) ≤ (andS (cur s) (255)) ∧ (0 : Int) ≤ 8 ∧ 8 < (32 : Int))
  have s : St := pre s
  have s : St := set s (((((andS (cur s) (255)) * 2 ^ Int.toNat (8))) % 65536))
  have s : St := inc s
  have s : St := rdchk s
  have s : St := pre s
  have s : St := set s ((((orS (get s) ((((andS (cur s) (255))) % 65536)))) % 65536))
  have s : St := inc s
  s

/-- `INT16DECODE(bb, x)`: `x = (int16)((*bb & 0x80) ? ~0xffff : 0) | ((int16)(*bb & 0xff) << 8); bb++; x |= (int16)(*bb & 0xff); bb++;` -/
def decS16g (s : St) (pre : St → St) (get : St → Int) (set : St → Int → St) : St :=
  have s : St := rdchk s
  have s : St := vunpackvs.chk s ((0 : Int) ≤ ((((andS (cur s) (255))) + 32768) % 65536 - 32768) ∧ (0 : Int) ≤ 8 ∧ 8 < (32 : Int))
  have s : St := pre s
  have s : St := set s (((((orS (((((if ((andS (cur s) (128)) ≠ 0) then (-(65535) - 1) else 0)) + 32768) % 65536 - 32768)) ((((((andS (cur s) (255))) + 32768) % 65536 - 32768) * 2 ^ Int.toNat (8))))) + 32768) % 65536 - 32768))
  have s : St := inc s
  have s : St := rdchk s
  have s : St := pre s
  have s : St := set s (((((orS (get s) (((((andS (cur s) (255))) + 32768) % 65536 - 32768)))) + 32768) % 65536 - 32768))
  have s : St := inc s
  s

/-- one of the two middle bytes of `INT32DECODE(bb, x)`: `x |= ((int32)(*bb & 0xff) << k); bb++` -/
def s32sh (s : St) (k : Int) (pre : St → St) (get : St → Int) (set : St → Int → St) : St :=
  have s : St := rdchk s
  have s : St := vunpackvs.chk s ((0 : Int) ≤ (andS (cur s) (255)) ∧ (0 : Int) ≤ k ∧ k < (32 : Int))
  have s : St := pre s
  have s : St := set s ((orS (get s) (((andS (cur s) (255)) * 2 ^ Int.toNat (k)))))
  have s : St := inc s
  s

/-- `INT32DECODE(bb, x)` -/
def decS32g (s : St) (pre : St → St) (get : St → Int) (set : St → Int → St) : St :=
  have s : St := rdchk s
  have s : St := vunpackvs.chk s ((0 : Int) ≤ (andU (cur s) (((255) % 4294967296))) ∧ (0 : Int) ≤ 24 ∧ 24 < (32 : Int))
  have s : St := pre s
  have s : St := set s (((((orU (((((((if ((andS (cur s) (128)) ≠ 0) then (((-(4294967295) - 1)) % 18446744073709551616) else 0)) + 2147483648) % 4294967296 - 2147483648)) % 4294967296)) (((((andU (cur s) (((255) % 4294967296))) * 2 ^ Int.toNat (24))) % 4294967296)))) + 2147483648) % 4294967296 - 2147483648))
  have s : St := inc s
  have s : St := s32sh s 16 pre get set
  have s : St := s32sh s 8 pre get set
  have s : St := rdchk s
  have s : St := pre s
  have s : St := set s ((orS (get s) ((andS (cur s) (255)))))
  have s : St := inc s
  s

/-- an access to `reg[idx]` of an array that `*vs` owns -/
def idxchk (idx : St → Int) (reg : St → List Int) (s : St) : St := vunpackvs.chk s (0 ≤ idx s ∧ idx s < (reg s).length)

/-- statements behind a possible `goto done` -/
def guard (s : St) (f : St → St) : St := if s.done ∨ s.gto then s else f s

/-- `HGOTO_ERROR(…, FAIL)` -/
def fail (s : St) : St :=
  have s : St := vunpackvs.St.set_ret_value s ((- 1))
  have s : St := vunpackvs.St.set_gto s (true)
  s

/-- `ret_value = SUCCEED; bb = &buf[len - 5];` -/
def phPre0 (s : St) : St :=
  have s : St := vunpackvs.St.set_ret_value s (0)
  have s : St := vunpackvs.St.set_bb s ((s.len - 5))
  s

def dec16v (s : St) : St := dec16g s (fun s => s) (·.uint16var) vunpackvs.St.set_uint16var
def decS16v (s : St) : St := decS16g s (fun s => s) (·.int16var) vunpackvs.St.set_int16var

/-- `UINT16DECODE(bb, uint16var); vs->version = (int16)uint16var;` -/
def phVer (s : St) : St :=
  have s : St := dec16v s
  have s : St := vunpackvs.St.set_vs_version s ((((s.uint16var) + 32768) % 65536 - 32768))
  s

/-- `UINT16DECODE(bb, uint16var); vs->more = (int16)uint16var; bb = &buf[0];` -/
def phMore (s : St) : St :=
  have s : St := dec16v s
  have s : St := vunpackvs.St.set_vs_more s ((((s.uint16var) + 32768) % 65536 - 32768))
  have s : St := vunpackvs.St.set_bb s (0)
  s

def phPre (s : St) : St := phMore (phVer (phPre0 s))

/-- interlace, nvertices, ivsize, nfields -/
def phHead (s : St) : St :=
  have s : St := decS16g s (fun s => s) (·.vs_interlace) vunpackvs.St.set_vs_interlace
  have s : St := decS32g s (fun s => s) (·.vs_nvertices) vunpackvs.St.set_vs_nvertices
  have s : St := dec16g s (fun s => s) (·.vs_wlist_ivsize) vunpackvs.St.set_vs_wlist_ivsize
  have s : St := decS16v s
  have s : St := vunpackvs.St.set_vs_wlist_n s (s.int16var)
  s

/-- no fields: every array pointer NULL -/
def phNoFields (s : St) : St :=
  have s : St := vunpackvs.St.set_vs_wlist_bptr_null s (true)
  have s : St := vunpackvs.St.set_vs_wlist_type_null s (true)
  have s : St := vunpackvs.St.set_vs_wlist_off_null s (true)
  have s : St := vunpackvs.St.set_vs_wlist_isize_null s (true)
  have s : St := vunpackvs.St.set_vs_wlist_order_null s (true)
  have s : St := vunpackvs.St.set_vs_wlist_esize_null s (true)
  have s : St := vunpackvs.St.set_vs_wlist_name_null s (true)
  s

/-- `bptr = malloc(sizeof(uint16) * (n * 5))` and the five arrays carved out of it -/
def phAllocB (s : St) : St :=
  have s : St := vunpackvs.St.set_vs_wlist_bptr s (if ((((2 * (((s.vs_wlist_n * 5)) % 18446744073709551616))) % 18446744073709551616) > 9223372036854775807) then [] else List.replicate (Int.toNat (Int.tdiv (((2 * (((s.vs_wlist_n * 5)) % 18446744073709551616))) % 18446744073709551616) 2)) 170)
  have s : St := vunpackvs.St.set_vs_wlist_bptr_null s (decide ((((2 * (((s.vs_wlist_n * 5)) % 18446744073709551616))) % 18446744073709551616) > 9223372036854775807))
  have s : St := if (s.vs_wlist_bptr_null = true) then
      fail s
    else
      s
  have s : St := guard s fun s =>
    have s : St := vunpackvs.St.set_vs_wlist_type s (0)
    have s : St := vunpackvs.St.set_vs_wlist_type_null s (s.vs_wlist_bptr_null)
    s
  have s : St := guard s fun s =>
    have s : St := vunpackvs.St.set_vs_wlist_off s ((s.vs_wlist_type + s.vs_wlist_n))
    have s : St := vunpackvs.St.set_vs_wlist_off_null s (s.vs_wlist_bptr_null)
    s
  have s : St := guard s fun s =>
    have s : St := vunpackvs.St.set_vs_wlist_isize s ((s.vs_wlist_off + s.vs_wlist_n))
    have s : St := vunpackvs.St.set_vs_wlist_isize_null s (s.vs_wlist_bptr_null)
    s
  have s : St := guard s fun s =>
    have s : St := vunpackvs.St.set_vs_wlist_order s ((s.vs_wlist_isize + s.vs_wlist_n))
    have s : St := vunpackvs.St.set_vs_wlist_order_null s (s.vs_wlist_bptr_null)
    s
  have s : St := guard s fun s =>
    have s : St := vunpackvs.St.set_vs_wlist_esize s ((s.vs_wlist_order + s.vs_wlist_n))
    have s : St := vunpackvs.St.set_vs_wlist_esize_null s (s.vs_wlist_bptr_null)
    s
  s

/-- `for (i = 0; …)` around one of the translated loops -/
def phLoop (s : St) (loop : St → St) : St :=
  guard s fun s =>
    have s : St := vunpackvs.St.set_i s (0)
    have s : St := loop s
    s

/-- `name = malloc(sizeof(char *) * n)` -/
def phAllocN (s : St) : St :=
  guard s fun s =>
    have s : St := vunpackvs.St.set_vs_wlist_name s (if ((((8 * ((s.vs_wlist_n) % 18446744073709551616))) % 18446744073709551616) > 9223372036854775807) then [] else List.replicate (Int.toNat (Int.tdiv (((8 * ((s.vs_wlist_n) % 18446744073709551616))) % 18446744073709551616) 8)) [])
    have s : St := vunpackvs.St.set_vs_wlist_name_null s (decide ((((8 * ((s.vs_wlist_n) % 18446744073709551616))) % 18446744073709551616) > 9223372036854775807))
    have s : St := if (s.vs_wlist_name_null = true) then
        fail s
      else
        s
    s

/-- the field table of a vdata with `n > 0` fields -/
def phFields (M D : Int → Int) (fuel : Nat) (s : St) : St :=
  have s : St := phAllocB s
  have s : St := phLoop s (vunpackvs.loop0 M D fuel)
  have s : St := phLoop s (vunpackvs.loop1 M D fuel)
  have s : St := phLoop s (vunpackvs.loop2 M D fuel)
  have s : St := phLoop s (vunpackvs.loop3 M D fuel)
  have s : St := phAllocN s
  have s : St := phLoop s (vunpackvs.loop4 M D fuel)
  s

/-- `if (n < 0) FAIL else if (n == 0) … else …` -/
def phTable (M D : Int → Int) (fuel : Nat) (s : St) : St :=
  if (s.vs_wlist_n < 0) then
      fail s
    else
      have s : St := if (s.vs_wlist_n = 0) then
          phNoFields s
        else
          phFields M D fuel s
      s

/-- `HIstrncpy(dst, (char *)bb, int16var + 1)` into an array of `*vs` -/
def cpy (s : St) (reg : St → List Int) (setreg : St → List Int → St) : St :=
  have s : St := vunpackvs.chk s ((s.int16var + 1) = 0 ∨ (0 ≤ s.bb ∧ ((((s.buf.drop (Int.toNat (s.bb))).take (Int.toNat ((s.int16var + 1) - 1))).takeWhile (· ≠ 0)).length = (Int.toNat ((s.int16var + 1) - 1)) ∨ (((s.buf.drop (Int.toNat (s.bb))).take (Int.toNat ((s.int16var + 1) - 1))).takeWhile (· ≠ 0)).length < (s.buf.drop (Int.toNat (s.bb))).length)))
  have s : St := vunpackvs.chk s ((s.int16var + 1) = 0 ∨ (0 ≤ 0 ∧ 0 + (Int.ofNat (((s.buf.drop (Int.toNat (s.bb))).take (Int.toNat ((s.int16var + 1) - 1))).takeWhile (· ≠ 0)).length + 1) ≤ (reg s).length))
  have s : St := setreg s (if (s.int16var + 1) = 0 then (reg s) else ((reg s).take (Int.toNat (0))) ++ ((s.buf.drop (Int.toNat (s.bb))).take (((s.buf.drop (Int.toNat (s.bb))).take (Int.toNat ((s.int16var + 1) - 1))).takeWhile (· ≠ 0)).length) ++ [0] ++ ((reg s).drop (Int.toNat (0 + (Int.ofNat (((s.buf.drop (Int.toNat (s.bb))).take (Int.toNat ((s.int16var + 1) - 1))).takeWhile (· ≠ 0)).length + 1)))))
  s

/-- `bb += (size_t)int16var` -/
def skip (s : St) : St := vunpackvs.St.set_bb s ((s.bb + ((s.int16var) % 18446744073709551616)))

/-- vsname / vsclass: length, `HIstrncpy` into the fixed array, skip -/
def phStr (s : St) (reg : St → List Int) (setreg : St → List Int → St) : St :=
  have s : St := guard s decS16v
  have s : St := guard s fun s => cpy s reg setreg
  have s : St := guard s skip
  s

def phExtag (s : St) : St := guard s fun s => dec16g s (fun s => s) (·.vs_extag) vunpackvs.St.set_vs_extag
def phExref (s : St) : St := guard s fun s => dec16g s (fun s => s) (·.vs_exref) vunpackvs.St.set_vs_exref

/-- the middle copy of a trailer field: `INT16DECODE(bb, temp); if (temp != x) HGOTO_ERROR(DFE_BADVH, FAIL);` -/
def phMid (s : St) (x : St → Int) : St :=
  have s : St := guard s fun s => decS16g s (fun s => s) (·.temp) vunpackvs.St.set_temp
  have s : St := guard s fun s =>
    if (s.temp ≠ x s) then
        fail s
      else
        s
  s

/-- one shifted byte of `UINT32DECODE(bb, vs->flags)` -/
def f32sh (s : St) (k : Int) (comb : St → Int → Int) : St :=
  have s : St := rdchk s
  have s : St := vunpackvs.chk s ((0 : Int) ≤ (((andS (cur s) (255))) % 4294967296) ∧ (0 : Int) ≤ k ∧ k < (32 : Int))
  have s : St := vunpackvs.St.set_vs_flags s (comb s (((((((andS (cur s) (255))) % 4294967296) * 2 ^ Int.toNat (k))) % 4294967296)))
  have s : St := inc s
  s

/-- `UINT32DECODE(bb, vs->flags)` -/
def decFlags (s : St) : St :=
  have s : St := f32sh s 24 (fun _ v => v)
  have s : St := f32sh s 16 (fun s v => (orU (s.vs_flags) (v)))
  have s : St := f32sh s 8 (fun s v => (orU (s.vs_flags) (v)))
  have s : St := rdchk s
  have s : St := vunpackvs.St.set_vs_flags s ((orU (s.vs_flags) ((((andS (cur s) (255))) % 4294967296))))
  have s : St := inc s
  s

/-- `vs->alist = malloc(nattrs * sizeof(vs_attr_t))`: three field arrays -/
def allocAlist (s : St) : St :=
  have s : St := vunpackvs.St.set_vs_alist_findex s (if ((((((s.vs_nattrs) % 18446744073709551616) * 8)) % 18446744073709551616) > 9223372036854775807) then [] else List.replicate (Int.toNat (Int.tdiv (((((s.vs_nattrs) % 18446744073709551616) * 8)) % 18446744073709551616) 8)) 170)
  have s : St := vunpackvs.St.set_vs_alist_atag s (if ((((((s.vs_nattrs) % 18446744073709551616) * 8)) % 18446744073709551616) > 9223372036854775807) then [] else List.replicate (Int.toNat (Int.tdiv (((((s.vs_nattrs) % 18446744073709551616) * 8)) % 18446744073709551616) 8)) 170)
  have s : St := vunpackvs.St.set_vs_alist_aref s (if ((((((s.vs_nattrs) % 18446744073709551616) * 8)) % 18446744073709551616) > 9223372036854775807) then [] else List.replicate (Int.toNat (Int.tdiv (((((s.vs_nattrs) % 18446744073709551616) * 8)) % 18446744073709551616) 8)) 170)
  have s : St := vunpackvs.St.set_vs_alist_null s (decide ((((((s.vs_nattrs) % 18446744073709551616) * 8)) % 18446744073709551616) > 9223372036854775807))
  have s : St := if (s.vs_alist_null = true) then
      fail s
    else
      s
  s

def phAttrs (M D : Int → Int) (fuel : Nat) (s : St) : St :=
  have s : St := decS32g s (fun s => s) (·.vs_nattrs) vunpackvs.St.set_vs_nattrs
  have s : St := allocAlist s
  have s : St := phLoop s (vunpackvs.loop5 M D fuel)
  s

/-- the version-4 fields -/
def phV4 (M D : Int → Int) (fuel : Nat) (s : St) : St :=
  guard s fun s =>
    if (s.vs_version = 4) then
        have s : St := decFlags s
        have s : St := if ((andU (s.vs_flags) (((1) % 4294967296))) ≠ 0) then
            have s : St := phAttrs M D fuel s
            s
          else
            s
        s
      else
        s

/-- `if (vs->version <= VSET_OLD_TYPES) for (…) type[i] = map_from_old_types(type[i]);` -/
def phOld (M D : Int → Int) (fuel : Nat) (s : St) : St :=
  guard s fun s =>
    if (s.vs_version ≤ 2) then
        have s : St := vunpackvs.St.set_i s (0)
        have s : St := vunpackvs.loop6 M D fuel s
        s
      else
        s

/-- the body of `if (vs->version <= 4)` -/
def phBody (M D : Int → Int) (fuel : Nat) (s : St) : St :=
  have s : St := phHead s
  have s : St := phTable M D fuel s
  have s : St := phStr s (·.vs_vsname) vunpackvs.St.set_vs_vsname
  have s : St := phStr s (·.vs_vsclass) vunpackvs.St.set_vs_vsclass
  have s : St := phExtag s
  have s : St := phExref s
  have s : St := phMid s (·.vs_version)
  have s : St := phMid s (·.vs_more)
  have s : St := phV4 M D fuel s
  have s : St := phOld M D fuel s
  have s : St := phLoop s (vunpackvs.loop7 M D fuel)
  s

/-- `done: return ret_value;` -/
def phEpi (s : St) : St :=
  if s.done then s else
    have s : St := vunpackvs.St.set_gto s (false)
    have s : St := vunpackvs.St.set_ret s (s.ret_value)
    have s : St := vunpackvs.St.set_done s (true)
    s

def run (M D : Int → Int) (fuel : Nat) (s : St) : St :=
  have s : St := phPre s
  have s : St := if (s.vs_version ≤ 4) then phBody M D fuel s else s
  phEpi s

/-- the initial state: the members of `*vs`, `buf` and `len` as in `a`, the locals and flags fresh -/
def st0 (a : St) : St :=
  { vs_version := a.vs_version, vs_more := a.vs_more, vs_interlace := a.vs_interlace, vs_nvertices := a.vs_nvertices, vs_wlist_ivsize := a.vs_wlist_ivsize, vs_wlist_n := a.vs_wlist_n, vs_wlist_bptr_null := a.vs_wlist_bptr_null, vs_wlist_type_null := a.vs_wlist_type_null, vs_wlist_off_null := a.vs_wlist_off_null, vs_wlist_isize_null := a.vs_wlist_isize_null, vs_wlist_order_null := a.vs_wlist_order_null, vs_wlist_esize_null := a.vs_wlist_esize_null, vs_wlist_name_null := a.vs_wlist_name_null, vs_wlist_bptr := a.vs_wlist_bptr, vs_wlist_type := a.vs_wlist_type, vs_wlist_off := a.vs_wlist_off, vs_wlist_isize := a.vs_wlist_isize, vs_wlist_order := a.vs_wlist_order, vs_wlist_esize := a.vs_wlist_esize, vs_wlist_name := a.vs_wlist_name, vs_vsname := a.vs_vsname, vs_vsclass := a.vs_vsclass, vs_extag := a.vs_extag, vs_exref := a.vs_exref, vs_flags := a.vs_flags, vs_nattrs := a.vs_nattrs, vs_alist_null := a.vs_alist_null, vs_alist_findex := a.vs_alist_findex, vs_alist_atag := a.vs_alist_atag, vs_alist_aref := a.vs_alist_aref, buf := a.buf, len := a.len }

/-- the translated function on the caller's `*vs`, `buf`, `len` (named arguments: the translator orders its parameters by first use) -/
def vunpackvsC (M D : Int → Int) (fuel : Nat) (a : St) : St :=
  Gen.Fn.Vio3.vunpackvs (map_from_old_types := M) (DFKNTsize := D) (fuel := fuel) (vs_version := a.vs_version) (vs_more := a.vs_more) (vs_interlace := a.vs_interlace) (vs_nvertices := a.vs_nvertices) (vs_wlist_ivsize := a.vs_wlist_ivsize) (vs_wlist_n := a.vs_wlist_n) (vs_wlist_bptr_null := a.vs_wlist_bptr_null) (vs_wlist_type_null := a.vs_wlist_type_null) (vs_wlist_off_null := a.vs_wlist_off_null) (vs_wlist_isize_null := a.vs_wlist_isize_null) (vs_wlist_order_null := a.vs_wlist_order_null) (vs_wlist_esize_null := a.vs_wlist_esize_null) (vs_wlist_name_null := a.vs_wlist_name_null) (vs_wlist_bptr := a.vs_wlist_bptr) (vs_wlist_type := a.vs_wlist_type) (vs_wlist_off := a.vs_wlist_off) (vs_wlist_isize := a.vs_wlist_isize) (vs_wlist_order := a.vs_wlist_order) (vs_wlist_esize := a.vs_wlist_esize) (vs_wlist_name := a.vs_wlist_name) (vs_vsname := a.vs_vsname) (vs_vsclass := a.vs_vsclass) (vs_extag := a.vs_extag) (vs_exref := a.vs_exref) (vs_flags := a.vs_flags) (vs_nattrs := a.vs_nattrs) (vs_alist_null := a.vs_alist_null) (vs_alist_findex := a.vs_alist_findex) (vs_alist_atag := a.vs_alist_atag) (vs_alist_aref := a.vs_alist_aref) (buf := a.buf) (len := a.len)

/-- **the restatement is the generated definition** (checked in the kernel by unfolding both sides) -/
theorem vunpackvs_phases (M D : Int → Int) (fuel : Nat) (a : St) : vunpackvsC M D fuel a = run M D fuel (st0 a) := by
  kernel_rfl

/-- `UINT16DECODE(bb, reg[idx])` -/
def dec16a (s : St) (idx : St → Int) (reg : St → List Int) (setreg : St → List Int → St) : St :=
  dec16g s (idxchk idx reg) (fun s => ((reg s).getD (Int.toNat (idx s)) 0)) (fun s v => setreg s ((reg s).set (Int.toNat (idx s)) v))

/-- `INT16DECODE(bb, reg[idx])` -/
def decS16a (s : St) (idx : St → Int) (reg : St → List Int) (setreg : St → List Int → St) : St :=
  decS16g s (idxchk idx reg) (fun s => ((reg s).getD (Int.toNat (idx s)) 0)) (fun s v => setreg s ((reg s).set (Int.toNat (idx s)) v))

/-- `INT32DECODE(bb, reg[idx])` -/
def decS32a (s : St) (idx : St → Int) (reg : St → List Int) (setreg : St → List Int → St) : St :=
  decS32g s (idxchk idx reg) (fun s => ((reg s).getD (Int.toNat (idx s)) 0)) (fun s v => setreg s ((reg s).set (Int.toNat (idx s)) v))

theorem loop0_body (M D : Int → Int) (fuel : Nat) (s : St) : vunpackvs.loop0.body M D fuel s =
    (have s : St := decS16a s (fun s => (s.vs_wlist_type + s.i)) (·.vs_wlist_bptr) vunpackvs.St.set_vs_wlist_bptr
     vunpackvs.St.set_i s ((s.i + 1))) := by kernel_rfl

theorem loop1_body (M D : Int → Int) (fuel : Nat) (s : St) : vunpackvs.loop1.body M D fuel s =
    (have s : St := dec16a s (fun s => (s.vs_wlist_isize + s.i)) (·.vs_wlist_bptr) vunpackvs.St.set_vs_wlist_bptr
     vunpackvs.St.set_i s ((s.i + 1))) := by kernel_rfl

theorem loop2_body (M D : Int → Int) (fuel : Nat) (s : St) : vunpackvs.loop2.body M D fuel s =
    (have s : St := dec16a s (fun s => (s.vs_wlist_off + s.i)) (·.vs_wlist_bptr) vunpackvs.St.set_vs_wlist_bptr
     vunpackvs.St.set_i s ((s.i + 1))) := by kernel_rfl

theorem loop3_body (M D : Int → Int) (fuel : Nat) (s : St) : vunpackvs.loop3.body M D fuel s =
    (have s : St := dec16a s (fun s => (s.vs_wlist_order + s.i)) (·.vs_wlist_bptr) vunpackvs.St.set_vs_wlist_bptr
     vunpackvs.St.set_i s ((s.i + 1))) := by kernel_rfl

/-- `name[i] = malloc(int16var + 1)` (FAIL when refused) -/
def allocRow (s : St) : St :=
  have s : St := vunpackvs.chk s (0 ≤ s.i ∧ s.i < s.vs_wlist_name.length)
  have s : St := vunpackvs.St.set_vs_wlist_name s (s.vs_wlist_name.set (Int.toNat (s.i)) (if (((((((s.int16var + 1)) % 18446744073709551616) * 1)) % 18446744073709551616) > 9223372036854775807) then [] else List.replicate (Int.toNat (Int.tdiv ((((((s.int16var + 1)) % 18446744073709551616) * 1)) % 18446744073709551616) 1)) 170))
  have s : St := if (((((((s.int16var + 1)) % 18446744073709551616) * 1)) % 18446744073709551616) > 9223372036854775807) then
      fail s
    else
      s
  s

/-- `HIstrncpy(name[i], (char *)bb, int16var + 1)` -/
def cpyRow (s : St) : St :=
  have s : St := vunpackvs.chk s (0 ≤ s.i ∧ s.i < s.vs_wlist_name.length)
  cpy s (fun s => (s.vs_wlist_name.getD (Int.toNat (s.i)) [])) (fun s v => vunpackvs.St.set_vs_wlist_name s (s.vs_wlist_name.set (Int.toNat (s.i)) v))

theorem loop4_body (M D : Int → Int) (fuel : Nat) (s : St) : vunpackvs.loop4.body M D fuel s =
    (have s : St := decS16v s
     have s : St := allocRow s
     have s : St := guard s cpyRow
     have s : St := guard s skip
     have s : St := guard s fun s => vunpackvs.St.set_i s ((s.i + 1))
     s) := by kernel_rfl

theorem loop5_body (M D : Int → Int) (fuel : Nat) (s : St) : vunpackvs.loop5.body M D fuel s =
    (have s : St := decS32a s (·.i) (·.vs_alist_findex) vunpackvs.St.set_vs_alist_findex
     have s : St := dec16a s (·.i) (·.vs_alist_atag) vunpackvs.St.set_vs_alist_atag
     have s : St := dec16a s (·.i) (·.vs_alist_aref) vunpackvs.St.set_vs_alist_aref
     vunpackvs.St.set_i s ((s.i + 1))) := by kernel_rfl

theorem loop6_body (M D : Int → Int) (fuel : Nat) (s : St) : vunpackvs.loop6.body M D fuel s =
    (have s : St := idxchk (fun s => (s.vs_wlist_type + s.i)) (·.vs_wlist_bptr) s
     have s : St := vunpackvs.St.set_vs_wlist_bptr s (s.vs_wlist_bptr.set (Int.toNat ((s.vs_wlist_type + s.i))) ((M ((s.vs_wlist_bptr.getD (Int.toNat ((s.vs_wlist_type + s.i))) 0)))))
     vunpackvs.St.set_i s ((s.i + 1))) := by kernel_rfl

theorem loop7_body (M D : Int → Int) (fuel : Nat) (s : St) : vunpackvs.loop7.body M D fuel s =
    (have s : St := idxchk (fun s => (s.vs_wlist_order + s.i)) (·.vs_wlist_bptr) s
     have s : St := idxchk (fun s => (s.vs_wlist_type + s.i)) (·.vs_wlist_bptr) s
     have s : St := idxchk (fun s => (s.vs_wlist_esize + s.i)) (·.vs_wlist_bptr) s
     have s : St := vunpackvs.St.set_vs_wlist_bptr s (s.vs_wlist_bptr.set (Int.toNat ((s.vs_wlist_esize + s.i))) (((((s.vs_wlist_bptr.getD (Int.toNat ((s.vs_wlist_order + s.i))) 0) * (D ((orS ((s.vs_wlist_bptr.getD (Int.toNat ((s.vs_wlist_type + s.i))) 0)) (4096)))))) % 65536)))
     vunpackvs.St.set_i s ((s.i + 1))) := by kernel_rfl

end H4.Lemmas.C07Fn3
