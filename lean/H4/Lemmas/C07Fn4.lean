import H4.Lemmas.C07Fn3
/-! Lemmas for `H4.Props.C07Fn3`, part 2: the decode combinators of the translated `vunpackvs` on a state without undefined behaviour
    (ported from `H4.Lemmas.C08Fn3`: the two functions have different state types), plus `INT16DECODE` and `INT32DECODE` into a scalar
    or an array cell.  Core only. -/
set_option linter.unusedSimpArgs false
set_option linter.unusedVariables false
namespace H4.Lemmas.C07Fn3
open H4 H4.Gen.Hdf H4.Gen.Fn.Vio3 H4.C2L
open H4.Lemmas.C08Fn3 (andS orS andU orU andS_255 andU_255 b8 be16 be32 b8_range b8_nat or_add or_add' orS_nat orU_nat v16 S32 orS_S32 orS_S32i
  nattrs_val flags_val be16N be16_eq be16N_lt be32N be32_eq be32N_lt w16)

theorem chk_true (s : St) (c : Prop) [Decidable c] (h : c) : vunpackvs.chk s c = s := by
  simp [vunpackvs.chk, h]

theorem dec16g_ok (s : St) (pre : St → St) (get : St → Int) (set : St → Int → St) (p : Nat)
    (hub : s.ub = false) (hbb : s.bb = p) (hlen : p + 1 < s.buf.length)
    (sbb : ∀ t v, (set t v).bb = t.bb) (sbuf : ∀ t v, (set t v).buf = t.buf) (sub : ∀ t v, (set t v).ub = t.ub)
    (gs : ∀ v, get (inc (set s v)) = v)
    (hp1 : pre s = s) (hp2 : ∀ v, pre (inc (set s v)) = inc (set s v)) :
    dec16g s pre get set = inc (set (inc (set s (b8 s.buf p * 256))) (be16 s.buf p)) := by
  have r1 : rdchk s = s := chk_true _ _ (by rw [hbb]; omega)
  have c0 : cur s = s.buf.getD p 0 := by simp only [cur, hbb, Int.toNat_natCast]
  have hr := b8_range s.buf p
  have a1 : andS (cur s) 255 = b8 s.buf p := by rw [c0, andS_255]; rfl
  have hi : (b8 s.buf p * 2 ^ Int.toNat 8) % 65536 = b8 s.buf p * 256 := by
    have : (2 : Int) ^ Int.toNat 8 = 256 := by decide
    rw [this]; omega
  simp only [dec16g]
  rw [r1]
  rw [chk_true s _ (by rw [a1]; omega)]
  rw [hp1]
  rw [a1]
  rw [hi]
  generalize hs1 : inc (set s (b8 s.buf p * 256)) = s1
  have b1 : s1.bb = (p : Int) + 1 := by rw [← hs1]; simp only [inc, vunpackvs.St.set_bb, sbb, hbb]
  have u1 : s1.buf = s.buf := by rw [← hs1]; simp only [inc, vunpackvs.St.set_bb, sbuf]
  have ub1 : s1.ub = false := by rw [← hs1]; simp only [inc, vunpackvs.St.set_bb, sub, hub]
  have r2 : rdchk s1 = s1 := chk_true _ _ (by rw [b1, u1]; omega)
  have c1 : cur s1 = s.buf.getD (p + 1) 0 := by
    simp only [cur, b1, u1]; congr 1
  have a2 : andS (cur s1) 255 = b8 s.buf (p + 1) := by rw [c1, andS_255]; rfl
  have g1 : get s1 = b8 s.buf p * 256 := by rw [← hs1, gs]
  have hr2 := b8_range s.buf (p + 1)
  rw [r2, ← hs1, hp2, hs1, a2, g1, v16 _ _ hr hr2]
  rfl

/-- the invariant of the run on a record that the reader accepts: `buf` is the caller's buffer, the cursor is at `p`, no check
    has failed, no loop ran out of fuel, no `goto done` / `return` is pending -/
structure Ok (B : List Int) (s : St) (p : Nat) : Prop where
  buf : s.buf = B
  bb : s.bb = p
  ub : s.ub = false
  oof : s.oof = false
  done : s.done = false
  gto : s.gto = false

/-- an assignment to a field other than the cursor, the buffer and the flags -/
structure Frame (f : St → St) : Prop where
  bb : ∀ t, (f t).bb = t.bb
  buf : ∀ t, (f t).buf = t.buf
  ub : ∀ t, (f t).ub = t.ub
  oof : ∀ t, (f t).oof = t.oof
  done : ∀ t, (f t).done = t.done
  gto : ∀ t, (f t).gto = t.gto

theorem Ok.frame {B s p} (h : Ok B s p) {f : St → St} (hf : Frame f) : Ok B (f s) p :=
  ⟨by rw [hf.buf]; exact h.buf, by rw [hf.bb]; exact h.bb, by rw [hf.ub]; exact h.ub, by rw [hf.oof]; exact h.oof,
   by rw [hf.done]; exact h.done, by rw [hf.gto]; exact h.gto⟩

theorem Ok.move {B s p} (h : Ok B s p) (q : Nat) : Ok B (vunpackvs.St.set_bb s (q : Int)) q :=
  ⟨h.buf, rfl, h.ub, h.oof, h.done, h.gto⟩

/-- `UINT16DECODE(bb, x)` for a scalar `x` (a local or a member of `*vg`) -/
theorem dec16s_ok (get : St → Int) (set : St → Int → St) (hf : ∀ v, Frame (set · v)) (gs : ∀ t v, get (inc (set t v)) = v)
    (ss : ∀ t a b, set (inc (set t a)) b = inc (set t b)) {B s p} (h : Ok B s p) (hl : p + 2 ≤ B.length) :
    dec16g s (fun s => s) get set = vunpackvs.St.set_bb (set s (be16 B p)) ((p + 2 : Nat) : Int) ∧
      Ok B (vunpackvs.St.set_bb (set s (be16 B p)) ((p + 2 : Nat) : Int)) (p + 2) := by
  refine ⟨?_, (h.frame (hf _)).move _⟩
  have hb := h.buf
  subst hb
  rw [dec16g_ok s (fun s => s) get set p h.ub h.bb (by omega) (fun t v => (hf v).bb t) (fun t v => (hf v).buf t)
    (fun t v => (hf v).ub t) (gs s) rfl (fun _ => rfl), ss]
  simp only [inc, vunpackvs.St.set_bb, (hf _).bb, h.bb]
  congr 1

theorem dec16v_ok {B s p} (h : Ok B s p) (hl : p + 2 ≤ B.length) :
    dec16v s = (s.set_uint16var (be16 B p)).set_bb ((p + 2 : Nat) : Int) ∧
      Ok B ((s.set_uint16var (be16 B p)).set_bb ((p + 2 : Nat) : Int)) (p + 2) :=
  dec16s_ok (·.uint16var) vunpackvs.St.set_uint16var (fun _ => ⟨fun _ => rfl, fun _ => rfl, fun _ => rfl, fun _ => rfl, fun _ => rfl, fun _ => rfl⟩)
    (fun _ _ => rfl) (fun _ _ _ => rfl) h hl

/-- `UINT16DECODE(bb, reg[idx])` for a cell of an array that `*vg` owns -/
theorem dec16a_ok (idx : St → Int) (reg : St → List Int) (setreg : St → List Int → St) (hf : ∀ l, Frame (setreg · l))
    (rs : ∀ t l, reg (inc (setreg t l)) = l) (is : ∀ t l, idx (inc (setreg t l)) = idx t)
    (ss : ∀ t a b, setreg (inc (setreg t a)) b = inc (setreg t b)) {B s p} (h : Ok B s p) (hl : p + 2 ≤ B.length)
    (k : Nat) (hi : idx s = k) (hk : k < (reg s).length) :
    dec16a s idx reg setreg = vunpackvs.St.set_bb (setreg s ((reg s).set k (be16 B p))) ((p + 2 : Nat) : Int) ∧
      Ok B (vunpackvs.St.set_bb (setreg s ((reg s).set k (be16 B p))) ((p + 2 : Nat) : Int)) (p + 2) := by
  refine ⟨?_, (h.frame (hf _)).move _⟩
  have hb := h.buf
  subst hb
  have hp1 : idxchk idx reg s = s := chk_true _ _ (by rw [hi]; omega)
  rw [dec16a, dec16g_ok s _ _ _ p h.ub h.bb (by omega) (fun t v => (hf _).bb t) (fun t v => (hf _).buf t)
    (fun t v => (hf _).ub t) ?_ hp1 ?_]
  · simp only [rs, is, ss, hi, Int.toNat_natCast, List.set_set]
    simp only [inc, vunpackvs.St.set_bb, (hf _).bb, h.bb]
    congr 1
  · intro v
    simp only [rs, is, hi, Int.toNat_natCast]
    simp [hk]
  · intro v
    exact chk_true _ _ (by simp only [rs, is, hi, List.length_set]; omega)

theorem cur_b8 {B s p} (h : Ok B s p) : andS (cur s) 255 = b8 B p := by
  rw [andS_255, cur, h.bb, h.buf, Int.toNat_natCast]; rfl

theorem rdchk_ok {B s p} (h : Ok B s p) (hl : p < B.length) : rdchk s = s :=
  chk_true _ _ (by rw [h.bb, h.buf]; omega)

theorem Ok.inc {B s p} (h : Ok B s p) : Ok B (inc s) (p + 1) :=
  ⟨h.buf, by simp only [C07Fn3.inc, vunpackvs.St.set_bb, h.bb]; omega, h.ub, h.oof, h.done, h.gto⟩

/-- one shifted byte of `UINT32DECODE(bb, vg->flags)` -/
theorem f32sh_ok {B s p} (h : Ok B s p) (hl : p < B.length) (k : Int) (hk : k = 8 ∨ k = 16 ∨ k = 24) (comb : St → Int → Int) :
    f32sh s k comb = inc (vunpackvs.St.set_vs_flags s (comb s (b8 B p * 2 ^ k.toNat))) ∧
      Ok B (inc (vunpackvs.St.set_vs_flags s (comb s (b8 B p * 2 ^ k.toNat)))) (p + 1) := by
  refine ⟨?_, Ok.inc ⟨h.buf, h.bb, h.ub, h.oof, h.done, h.gto⟩⟩
  have hr := b8_range B p
  simp only [f32sh]
  rw [rdchk_ok h hl]
  rw [chk_true s _ (by rw [cur_b8 h]; omega)]
  rw [cur_b8 h]
  have e : (b8 B p % 4294967296 * 2 ^ k.toNat) % 4294967296 = b8 B p * 2 ^ k.toNat := by
    rcases hk with rfl | rfl | rfl
    · have : (2 : Int) ^ (8 : Int).toNat = 256 := by decide
      rw [this]; omega
    · have : (2 : Int) ^ (16 : Int).toNat = 65536 := by decide
      rw [this]; omega
    · have : (2 : Int) ^ (24 : Int).toNat = 16777216 := by decide
      rw [this]; omega
  rw [e]

/-- `UINT32DECODE(bb, vg->flags)` -/
theorem decFlags_ok {B s p} (h : Ok B s p) (hl : p + 4 ≤ B.length) :
    decFlags s = (s.set_vs_flags (be32 B p)).set_bb ((p + 4 : Nat) : Int) ∧
      Ok B ((s.set_vs_flags (be32 B p)).set_bb ((p + 4 : Nat) : Int)) (p + 4) := by
  refine ⟨?_, ⟨h.buf, rfl, h.ub, h.oof, h.done, h.gto⟩⟩
  obtain ⟨a0, e0, h0⟩ := b8_nat B p
  obtain ⟨a1, e1, h1⟩ := b8_nat B (p + 1)
  obtain ⟨a2, e2, h2⟩ := b8_nat B (p + 2)
  obtain ⟨a3, e3, h3⟩ := b8_nat B (p + 3)
  have p24 : (2 : Int) ^ (24 : Int).toNat = 16777216 := by decide
  have p16 : (2 : Int) ^ (16 : Int).toNat = 65536 := by decide
  have p8 : (2 : Int) ^ (8 : Int).toNat = 256 := by decide
  obtain ⟨q1, o1⟩ := f32sh_ok h (by omega) 24 (Or.inr (Or.inr rfl)) (fun _ v => v)
  obtain ⟨q2, o2⟩ := f32sh_ok o1 (by omega) 16 (Or.inr (Or.inl rfl)) (fun s v => (orU (s.vs_flags) (v)))
  obtain ⟨q3, o3⟩ := f32sh_ok o2 (by omega) 8 (Or.inl rfl) (fun s v => (orU (s.vs_flags) (v)))
  simp only [decFlags]
  rw [q1, q2, q3, rdchk_ok o3 (by omega), cur_b8 o3]
  simp only [inc, vunpackvs.St.set_bb, vunpackvs.St.set_vs_flags, h.bb, be32, e0, e1, e2, e3, p24, p16, p8]
  congr 1
  exact flags_val a0 a1 a2 a3 h0 h1 h2 h3

/-- `v | b` on `int` operands when `v` (any sign) has a zero low byte and `b` is a byte -/
theorem orS_add (v b : Int) (hv : -2147483648 ≤ v ∧ v < 2147483648) (hm : v % 256 = 0) (hb : 0 ≤ b ∧ b < 256) : orS v b = v + b := by
  obtain ⟨m, rfl⟩ := Int.eq_ofNat_of_zero_le hb.1
  have e2 : Int.toNat ((m : Int) % 4294967296) = m := by omega
  have hn : (Int.toNat (v % 4294967296)) % 2 ^ 8 = 0 := by omega
  have h1 := or_add' 8 (Int.toNat (v % 4294967296)) m hn (by omega)
  simp only [orS, e2, h1, Int.ofNat_eq_natCast]
  split <;> omega

theorem vS16a (a : Int) (ha : 0 ≤ a ∧ a < 256) (c : Prop) [Decidable c] :
    (((orS (((((if c then (-(65535 : Int) - 1) else 0)) + 32768) % 65536 - 32768)) ((((a + 32768) % 65536 - 32768) * 2 ^ Int.toNat (8))))) + 32768) % 65536 - 32768
      = w16 (a * 256) := by
  have z : ((((if c then (-(65535 : Int) - 1) else 0)) + 32768) % 65536 - 32768) = 0 := by split <;> omega
  have e : (a + 32768) % 65536 - 32768 = a := by omega
  have p8 : (2 : Int) ^ (8 : Int).toNat = 256 := by decide
  rw [z, e, p8]
  obtain ⟨n, rfl⟩ := Int.eq_ofNat_of_zero_le ha.1
  have := orS_nat 0 (n * 256) (by simp; omega) (by omega) (by omega)
  simp only [Nat.zero_or, Int.natCast_mul] at this
  have e0 : ((0 : Nat) : Int) = 0 := rfl
  rw [e0] at this
  simp only [w16]
  rw [show ((256 : Nat) : Int) = 256 from rfl] at this
  rw [this]

theorem vS16b (a b : Int) (ha : 0 ≤ a ∧ a < 256) (hb : 0 ≤ b ∧ b < 256) :
    (((orS (w16 (a * 256)) (((b + 32768) % 65536 - 32768)))) + 32768) % 65536 - 32768 = w16 (a * 256 + b) := by
  have e : (b + 32768) % 65536 - 32768 = b := by omega
  rw [e, orS_add (w16 (a * 256)) b (by simp only [w16]; omega) (by simp only [w16]; omega) hb]
  simp only [w16]; omega

/-- `INT16DECODE(bb, x)` -/
theorem decS16g_ok (s : St) (pre : St → St) (get : St → Int) (set : St → Int → St) (p : Nat)
    (hub : s.ub = false) (hbb : s.bb = p) (hlen : p + 1 < s.buf.length)
    (sbb : ∀ t v, (set t v).bb = t.bb) (sbuf : ∀ t v, (set t v).buf = t.buf) (sub : ∀ t v, (set t v).ub = t.ub)
    (gs : ∀ v, get (inc (set s v)) = v)
    (hp1 : pre s = s) (hp2 : ∀ v, pre (inc (set s v)) = inc (set s v)) :
    decS16g s pre get set = inc (set (inc (set s (w16 (b8 s.buf p * 256)))) (w16 (be16 s.buf p))) := by
  have r1 : rdchk s = s := chk_true _ _ (by rw [hbb]; omega)
  have c0 : cur s = s.buf.getD p 0 := by simp only [cur, hbb, Int.toNat_natCast]
  have hr := b8_range s.buf p
  have a1 : andS (cur s) 255 = b8 s.buf p := by rw [c0, andS_255]; rfl
  simp only [decS16g]
  rw [r1]
  rw [chk_true s _ (by rw [a1]; omega)]
  rw [hp1]
  rw [a1, vS16a _ hr]
  generalize hs1 : inc (set s (w16 (b8 s.buf p * 256))) = s1
  have b1 : s1.bb = (p : Int) + 1 := by rw [← hs1]; simp only [inc, vunpackvs.St.set_bb, sbb, hbb]
  have u1 : s1.buf = s.buf := by rw [← hs1]; simp only [inc, vunpackvs.St.set_bb, sbuf]
  have ub1 : s1.ub = false := by rw [← hs1]; simp only [inc, vunpackvs.St.set_bb, sub, hub]
  have r2 : rdchk s1 = s1 := chk_true _ _ (by rw [b1, u1]; omega)
  have c1 : cur s1 = s.buf.getD (p + 1) 0 := by
    simp only [cur, b1, u1]; congr 1
  have a2 : andS (cur s1) 255 = b8 s.buf (p + 1) := by rw [c1, andS_255]; rfl
  have g1 : get s1 = w16 (b8 s.buf p * 256) := by rw [← hs1, gs]
  have hr2 := b8_range s.buf (p + 1)
  rw [r2, ← hs1, hp2, hs1, a2, g1, vS16b _ _ hr hr2]
  rfl

theorem s32sh_ok (pre : St → St) (get : St → Int) (set : St → Int → St) (hf : ∀ v, Frame (set · v)) {B s p} (h : Ok B s p)
    (hl : p < B.length) (k : Int) (hk : k = 8 ∨ k = 16) (hpre : pre s = s) :
    s32sh s k pre get set = inc (set s (orS (get s) (b8 B p * 2 ^ k.toNat))) ∧
      Ok B (inc (set s (orS (get s) (b8 B p * 2 ^ k.toNat)))) (p + 1) := by
  refine ⟨?_, Ok.inc (h.frame (hf _))⟩
  have hr := b8_range B p
  simp only [s32sh]
  rw [rdchk_ok h hl]
  rw [chk_true s _ (by rw [cur_b8 h]; omega)]
  rw [hpre, cur_b8 h]

theorem inc4 (s : St) (p : Nat) (hbb : s.bb = p) : inc (inc (inc (inc s))) = vunpackvs.St.set_bb s ((p + 4 : Nat) : Int) := by
  simp only [inc, vunpackvs.St.set_bb, hbb]
  congr 1

/-- `INT32DECODE(bb, x)` for a scalar or an array cell `x`; `G` = what makes `pre` pass and `get` read back what `set` stored -/
theorem decS32g_ok (pre : St → St) (get : St → Int) (set : St → Int → St) (G : St → Prop) (hf : ∀ v, Frame (set · v))
    (hG : ∀ t v, G t → G (inc (set t v))) (hpre : ∀ t, G t → pre t = t) (hget : ∀ t v, G t → get (inc (set t v)) = v)
    (ss : ∀ t a b, set (inc (set t a)) b = inc (set t b)) {B s p} (h : Ok B s p) (hl : p + 4 ≤ B.length) (hg : G s) :
    decS32g s pre get set = vunpackvs.St.set_bb (set s (S32 (be32 B p))) ((p + 4 : Nat) : Int) ∧
      Ok B (vunpackvs.St.set_bb (set s (S32 (be32 B p))) ((p + 4 : Nat) : Int)) (p + 4) := by
  refine ⟨?_, (h.frame (hf _)).move _⟩
  obtain ⟨a0, e0, h0⟩ := b8_nat B p
  obtain ⟨a1, e1, h1⟩ := b8_nat B (p + 1)
  obtain ⟨a2, e2, h2⟩ := b8_nat B (p + 2)
  obtain ⟨a3, e3, h3⟩ := b8_nat B (p + 3)
  have p24 : (2 : Int) ^ (24 : Int).toNat = 16777216 := by decide
  have p16 : (2 : Int) ^ (16 : Int).toNat = 65536 := by decide
  have p8 : (2 : Int) ^ (8 : Int).toNat = 256 := by decide
  have cu : andU (cur s) ((255 : Int) % 4294967296) = b8 B p := by
    rw [andU_255, cur, h.bb, h.buf, Int.toNat_natCast]; rfl
  have z : ∀ c : Prop, [Decidable c] → ((((if c then (((-(4294967295 : Int) - 1)) % 18446744073709551616) else 0)) + 2147483648) % 4294967296 - 2147483648) % 4294967296 = 0 := by
    intro c _; split <;> omega
  have v0 : orU 0 (((a0 : Int) * 16777216) % 4294967296) = (a0 : Int) * 16777216 := by
    have e : ((a0 : Int) * 16777216) % 4294967296 = ((a0 * 16777216 : Nat) : Int) := by omega
    have := orU_nat 0 (a0 * 16777216) (by omega) (by omega)
    rw [e]; simpa using this
  have s0 : ((a0 : Int) * 16777216 + 2147483648) % 4294967296 - 2147483648 = S32 ((a0 : Int) * 16777216) := by
    simp only [S32]; split <;> omega
  simp only [decS32g]
  rw [rdchk_ok h (by omega)]
  rw [chk_true s _ (by rw [cu]; have := b8_range B p; omega)]
  rw [hpre s hg, cu, z, e0, p24, v0, s0]
  have o1 : Ok B (inc (set s (S32 ((a0 : Int) * 16777216)))) (p + 1) := Ok.inc (h.frame (hf _))
  have g1 := hG s (S32 ((a0 : Int) * 16777216)) hg
  obtain ⟨q2, o2⟩ := s32sh_ok pre get set hf o1 (by omega) 16 (Or.inr rfl) (hpre _ g1)
  have g2 := hG _ (orS (get (inc (set s (S32 ((a0 : Int) * 16777216))))) (b8 B (p + 1) * 2 ^ (16 : Int).toNat)) g1
  obtain ⟨q3, o3⟩ := s32sh_ok pre get set hf o2 (by omega) 8 (Or.inl rfl) (hpre _ g2)
  have g3 := hG _ (orS (get (inc (set (inc (set s (S32 ((a0 : Int) * 16777216)))) (orS (get (inc (set s (S32 ((a0 : Int) * 16777216))))) (b8 B (p + 1) * 2 ^ (16 : Int).toNat)))))
    (b8 B (p + 1 + 1) * 2 ^ (8 : Int).toNat)) g2
  rw [q2, q3, rdchk_ok o3 (by omega), hpre _ g3, cur_b8 o3]
  rw [hget _ _ g2, hget _ _ g1, hget _ _ hg, ss, ss, ss, inc4 _ p (by rw [(hf _).bb]; exact h.bb)]
  have e1' : b8 B (p + 1 + 1) = (a2 : Int) := e2
  have e3' : b8 B (p + 1 + 1 + 1) = (a3 : Int) := e3
  rw [be32, e0, e1, e2, e3, p16, p8, nattrs_val a0 a1 a2 a3 h0 h1 h2 h3]

/-- `INT16DECODE(bb, x)` for a scalar `x` -/
theorem decS16s_ok (get : St → Int) (set : St → Int → St) (hf : ∀ v, Frame (set · v)) (gs : ∀ t v, get (inc (set t v)) = v)
    (ss : ∀ t a b, set (inc (set t a)) b = inc (set t b)) {B s p} (h : Ok B s p) (hl : p + 2 ≤ B.length) :
    decS16g s (fun s => s) get set = vunpackvs.St.set_bb (set s (w16 (be16 B p))) ((p + 2 : Nat) : Int) ∧
      Ok B (vunpackvs.St.set_bb (set s (w16 (be16 B p))) ((p + 2 : Nat) : Int)) (p + 2) := by
  refine ⟨?_, (h.frame (hf _)).move _⟩
  have hb := h.buf
  subst hb
  rw [decS16g_ok s (fun s => s) get set p h.ub h.bb (by omega) (fun t v => (hf v).bb t) (fun t v => (hf v).buf t)
    (fun t v => (hf v).ub t) (gs s) rfl (fun _ => rfl), ss]
  simp only [inc, vunpackvs.St.set_bb, (hf _).bb, h.bb]
  congr 1

/-- `INT16DECODE(bb, reg[idx])` -/
theorem decS16a_ok (idx : St → Int) (reg : St → List Int) (setreg : St → List Int → St) (hf : ∀ l, Frame (setreg · l))
    (rs : ∀ t l, reg (inc (setreg t l)) = l) (is : ∀ t l, idx (inc (setreg t l)) = idx t)
    (ss : ∀ t a b, setreg (inc (setreg t a)) b = inc (setreg t b)) {B s p} (h : Ok B s p) (hl : p + 2 ≤ B.length)
    (k : Nat) (hi : idx s = k) (hk : k < (reg s).length) :
    decS16a s idx reg setreg = vunpackvs.St.set_bb (setreg s ((reg s).set k (w16 (be16 B p)))) ((p + 2 : Nat) : Int) ∧
      Ok B (vunpackvs.St.set_bb (setreg s ((reg s).set k (w16 (be16 B p)))) ((p + 2 : Nat) : Int)) (p + 2) := by
  refine ⟨?_, (h.frame (hf _)).move _⟩
  have hb := h.buf
  subst hb
  have hp1 : idxchk idx reg s = s := chk_true _ _ (by rw [hi]; omega)
  rw [decS16a, decS16g_ok s _ _ _ p h.ub h.bb (by omega) (fun t v => (hf _).bb t) (fun t v => (hf _).buf t)
    (fun t v => (hf _).ub t) ?_ hp1 ?_]
  · simp only [rs, is, ss, hi, Int.toNat_natCast, List.set_set]
    simp only [inc, vunpackvs.St.set_bb, (hf _).bb, h.bb]
    congr 1
  · intro v
    simp only [rs, is, hi, Int.toNat_natCast]
    simp [hk]
  · intro v
    exact chk_true _ _ (by simp only [rs, is, hi, List.length_set]; omega)

/-- `INT32DECODE(bb, x)` for a scalar `x` -/
theorem decS32s_ok (get : St → Int) (set : St → Int → St) (hf : ∀ v, Frame (set · v)) (gs : ∀ t v, get (inc (set t v)) = v)
    (ss : ∀ t a b, set (inc (set t a)) b = inc (set t b)) {B s p} (h : Ok B s p) (hl : p + 4 ≤ B.length) :
    decS32g s (fun s => s) get set = vunpackvs.St.set_bb (set s (S32 (be32 B p))) ((p + 4 : Nat) : Int) ∧
      Ok B (vunpackvs.St.set_bb (set s (S32 (be32 B p))) ((p + 4 : Nat) : Int)) (p + 4) :=
  decS32g_ok (fun s => s) get set (fun _ => True) hf (fun _ _ _ => trivial) (fun _ _ => rfl) (fun t v _ => gs t v) ss h hl trivial

/-- `INT32DECODE(bb, reg[idx])` -/
theorem decS32a_ok (idx : St → Int) (reg : St → List Int) (setreg : St → List Int → St) (hf : ∀ l, Frame (setreg · l))
    (rs : ∀ t l, reg (inc (setreg t l)) = l) (is : ∀ t l, idx (inc (setreg t l)) = idx t)
    (ss : ∀ t a b, setreg (inc (setreg t a)) b = inc (setreg t b)) {B s p} (h : Ok B s p) (hl : p + 4 ≤ B.length)
    (k : Nat) (hi : idx s = k) (hk : k < (reg s).length) :
    decS32a s idx reg setreg = vunpackvs.St.set_bb (setreg s ((reg s).set k (S32 (be32 B p)))) ((p + 4 : Nat) : Int) ∧
      Ok B (vunpackvs.St.set_bb (setreg s ((reg s).set k (S32 (be32 B p)))) ((p + 4 : Nat) : Int)) (p + 4) := by
  have key := decS32g_ok (idxchk idx reg) (fun s => ((reg s).getD (Int.toNat (idx s)) 0))
    (fun s v => setreg s ((reg s).set (Int.toNat (idx s)) v)) (fun t => idx t = k ∧ k < (reg t).length)
    (fun _ => ⟨fun t => (hf _).bb t, fun t => (hf _).buf t, fun t => (hf _).ub t, fun t => (hf _).oof t, fun t => (hf _).done t, fun t => (hf _).gto t⟩)
    (fun t v hg => by simp only [rs, is, List.length_set]; exact hg)
    (fun t hg => chk_true _ _ (by rw [hg.1]; omega))
    (fun t v hg => by simp only [rs, is, hg.1, Int.toNat_natCast]; simp [hg.2])
    (fun t a b => by simp only [rs, is, ss, List.set_set]) h hl ⟨hi, hk⟩
  simp only [hi, Int.toNat_natCast] at key
  exact key


end H4.Lemmas.C07Fn3
