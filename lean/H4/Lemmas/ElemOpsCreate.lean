import H4.Lemmas.ElemCreate
import H4.Lemmas.ElemOpsDel
/-! `HLcreate`: a new linked-block element (empty), or an existing contiguous element re-registered as linked blocks. -/
namespace H4.Elem
open H4.Gen.Hdf

/-- the element `k` of `f` (in slot `old`, if it exists) is now the linked-block element in slot `s'` of `f'`, with bytes `B` -/
structure Replaced (f : File) (old : Option Nat) (k : Nat × Nat) (B : Bytes) (f' : File) (s' : Nat) : Prop where
  wfe : WFE f'
  live' : f'.live s'
  special' : isSpecial (f'.dd s').tag = true
  key' : f'.keyOf s' = k
  bytes : f'.slotBytes s' = some B
  others : ∀ x, f.live x → old ≠ some x → f'.dd x = f.dd x ∧ f'.slotBytes x = f.slotBytes x
  new_slots : ∀ x, f'.live x → (f.live x ∧ old ≠ some x) ∨ x = s' ∨ (f'.dd x).tag = DFTAG_LINKED
  present : f'.present = f.present

theorem create_world (w : World) (hw : WFW w) (h fi : Nat) (hnone : w.acc h = none) (hfi : fi < w.files.length)
    (old : Option Nat) (k : Nat × Nat) (B : Bytes) (f' : File) (s' : Nat) (R : Replaced (w.file fi) old k B f' s') (hC : Coh f')
    (hu : UserKey k)
    (hold : ∀ i, old = some i → NoHandleOn w fi i ∧ (w.file fi).hasKey i k.1 k.2)
    (hfresh : old = none → ∀ j, ¬ (w.file fi).hasKey j k.1 k.2)
    (a' : Acc) (haf : a'.file = fi) (hslot : a'.slot = s') (hposn : a'.posn = 0) (hspec : a'.special = true)
    (hnew : a'.newElem = false) (hblk : 1 ≤ a'.blockSize ∧ 1 ≤ a'.numBlocks) :
    WFW ((w.setFile fi { f' with attach := f'.attach + 1 }).setAcc h a') ∧
    (((abs w).setElem fi k (some (some B))).setHnd h (some { file := fi, key := k, pos := 0 })).Eqv
      (abs ((w.setFile fi { f' with attach := f'.attach + 1 }).setAcc h a')) := by
  have hE := hw.files fi
  have hother_slot : ∀ h' a'', w.acc h' = some a'' → a''.file = fi → old ≠ some a''.slot := by
    intro h' a'' ha'' ef e
    exact (hold _ e).1 h' a'' ha'' ⟨ef, rfl⟩
  have hkey_old : ∀ j, (w.file fi).hasKey j k.1 k.2 → old = some j := by
    intro j hj
    cases ho : old with
    | none => exact absurd hj (hfresh ho j)
    | some i =>
      have hi := (hold i ho).2
      rw [hE.uniq i j hi.1 hj.1 (by rw [hi.2.1, hj.2.1]) (by rw [hi.2.2, hj.2.2])]
  have hww : WFW ((w.setFile fi { f' with attach := f'.attach + 1 }).setAcc h a') := by
    apply hw.update fi hfi _ (R.wfe.attach _) (coh_attach hC _) h a' haf
    · rw [hslot]
      refine ⟨R.live', by show UserKey (f'.keyOf s'); rw [R.key']; exact hu, by rw [hspec]; exact R.special'.symm, ?_, fun _ => hnew, hblk⟩
      intro hf; rw [hspec] at hf; exact absurd hf (by decide)
    · intro h' a'' _ ha'' ef
      have hl := (hw.handles h' a'' ha'').live
      rw [ef] at hl
      have := (R.others a''.slot hl (hother_slot h' a'' ha'' ef)).1
      show (f'.dd a''.slot).tag = _ ∧ (f'.dd a''.slot).ref = _ ∧ ((f'.dd a''.slot).ext = none → _)
      rw [this]; exact ⟨rfl, rfl, id⟩
  refine ⟨hww, ?_⟩
  have := abs_update hw fi hfi { f' with attach := f'.attach + 1 } (R.wfe.attach _).toWFF h a' haf k (some (some B)) R.present
    (by
      have h1 := elem_keyOf f' R.wfe.toWFF s' R.live'
      rw [R.key'] at h1
      show f'.elem k.1 k.2 = _
      rw [h1, R.bytes])
    (by
      intro k' hu' hne
      show f'.elem k'.1 k'.2 = _
      apply elem_frame hE.toWFF R.wfe.toWFF
      · intro j
        constructor
        · intro hk
          rcases R.new_slots j hk.1 with ⟨h1, h2⟩ | h1 | h1
          · unfold File.hasKey File.live at *
            rw [← (R.others j h1 h2).1]; exact hk
          · exfalso
            have := keyOf_of_hasKey hu' hk
            rw [h1, R.key'] at this
            exact hne this.symm
          · exact absurd h1 (user_not_linked hu' hk)
        · intro hk
          have hjs : old ≠ some j := by
            intro e
            have h2 := (hold j e).2
            exact hne ((keyOf_of_hasKey hu' hk).symm.trans (keyOf_of_hasKey hu h2))
          unfold File.hasKey File.live at *
          rw [(R.others j hk.1 hjs).1]; exact hk
      · intro j hk
        have hjs : old ≠ some j := by
          intro e
          have h2 := (hold j e).2
          exact hne ((keyOf_of_hasKey hu' hk).symm.trans (keyOf_of_hasKey hu h2))
        exact (R.others j hk.1 hjs).2)
    (by
      intro h' a'' _ ha'' ef
      have hl := (hw.handles h' a'' ha'').live
      rw [ef] at hl
      show f'.keyOf a''.slot = _
      exact keyOf_eq (R.others a''.slot hl (hother_slot h' a'' ha'' ef)).1)
  have hk2 : ({ f' with attach := f'.attach + 1 } : File).keyOf a'.slot = k := by
    show f'.keyOf a'.slot = k; rw [hslot]; exact R.key'
  rw [hk2, hposn] at this
  exact this

theorem stepOK_hlcreate (w : World) (hw : WFW w) (h fi tag ref blen nblk : Nat)
    (hsafe : OpSafe w (.hlcreate h fi tag ref blen nblk)) : StepOK w (.hlcreate h fi tag ref blen nblk) := by
  obtain ⟨hnone, hu, hb, hn, hnoh⟩ := hsafe
  have hbase : baseTag tag = tag := userKey_base hu
  have hnsp : isSpecial tag = false := hu.1
  by_cases hguard : (!(w.file fi).isOpen || !(w.file fi).writable || isSpecial tag) = true
  · exact stepOK_fail_same w hw _ (by simp only [step, hlcreate]; rw [if_pos hguard])
  have hop : (w.file fi).isOpen = true := by
    cases ho : (w.file fi).isOpen with
    | true => rfl
    | false => rw [ho] at hguard; simp at hguard
  have hfi := file_lt_of_open w fi hop
  have hE := hw.files fi
  have hCoh := hw.coh fi
  -- the three ways `mk` is reached all end in `create_world`
  have hfinish : ∀ (old : Option Nat) (B : Bytes) (f' : File) (s' : Nat),
      Replaced (w.file fi) old (tag, ref) B f' s' → Coh f' →
      (∀ i, old = some i → NoHandleOn w fi i ∧ (w.file fi).hasKey i tag ref) →
      (old = none → ∀ j, ¬ (w.file fi).hasKey j tag ref) →
      step w (.hlcreate h fi tag ref blen nblk) =
        ((w.setFile fi { f' with attach := f'.attach + 1 }).setAcc h { file := fi, slot := s', canWrite := true, special := true }, .ok) →
      (match (abs w).elem fi (tag, ref) with
       | none | some none => B = []
       | some (some b) => B = b) →
      StepOK w (.hlcreate h fi tag ref blen nblk) := by
    intro old B f' s' R hC hold hfresh hstep hB
    obtain ⟨hww, heqv⟩ := create_world w hw h fi hnone hfi old (tag, ref) B f' s' R hC hu hold hfresh
      { file := fi, slot := s', canWrite := true, special := true } rfl rfl rfl rfl rfl default_blk
    unfold StepOK
    rw [hstep]
    cases hel : (abs w).elem fi (tag, ref) with
    | none =>
      rw [hel] at hB; simp only at hB; subst hB
      exact ⟨hww, _, by simp only [specStep, hbase, hel], heqv⟩
    | some e =>
      cases e with
      | none =>
        rw [hel] at hB; simp only at hB; subst hB
        exact ⟨hww, _, by simp only [specStep, hbase, hel], heqv⟩
      | some b =>
        rw [hel] at hB; simp only at hB; subst hB
        refine ⟨hww, (abs w).setHnd h (some { file := fi, key := (tag, ref), pos := 0 }), by simp only [specStep, hbase, hel], ?_⟩
        exact Eqv.trans (Eqv.setHnd (Eqv.symm (setElem_same (abs w) fi (tag, ref) _ hel)) h _) heqv
  cases hsel : (w.file fi).select tag ref with
  | none =>
    have hfresh : ∀ j, ¬ (w.file fi).hasKey j tag ref := select_none _ _ _ hsel
    have M := mkLinked_spec (w.file fi) hE tag ref blen nblk hnsp hu.2.2.2.2 hu.2.1 hfresh hb hn
    apply hfinish none [] _ _ ⟨M.wfe, M.live', M.special', M.key', M.bytes, fun x hx _ => M.others x hx,
      fun x hx => by rcases M.new_slots x hx with c | c | c
                     · exact Or.inl ⟨c, fun e => by cases e⟩
                     · exact Or.inr (Or.inl c)
                     · exact Or.inr (Or.inr c), M.present⟩ (coh_mkLinked hCoh tag ref blen nblk)
      (fun i e => by cases e) (fun _ => hfresh)
    · simp only [step, hlcreate]
      rw [if_neg hguard]
      simp only [hsel, hbase]
      rfl
    · have : (abs w).elem fi (tag, ref) = none := by rw [abs_elem]; unfold File.elem; rw [hsel]; rfl
      rw [this]
  | some i =>
    have hk := select_some _ _ _ i hsel
    have hil := live_lt _ i hk.1
    have hkey : (w.file fi).keyOf i = (tag, ref) := keyOf_of_hasKey (k := (tag, ref)) hu hk
    have hel : (abs w).elem fi (tag, ref) = some ((w.file fi).slotBytes i) := by
      rw [abs_elem]; unfold File.elem; rw [hsel]; rfl
    by_cases hsp : isSpecial ((w.file fi).dd i).tag = true
    · exact stepOK_fail_same w hw _ (by
        simp only [step, hlcreate]; rw [if_neg hguard]; simp only [hsel]; rw [if_pos hsp])
    have hsp0 : isSpecial ((w.file fi).dd i).tag = false := by simpa using hsp
    have htag : ((w.file fi).dd i).tag = tag := by
      have := hk.2.1; rw [baseTag_not_special _ hsp0, hbase] at this; exact this
    have href : ((w.file fi).dd i).ref = ref := hk.2.2
    have hnoi := hnoh i hsel
    cases hx : ((w.file fi).dd i).ext with
    | none =>
      -- the DD without data is dropped, then the element is created as above
      have hdd := fun j => ddDelete_dd (w.file fi) i j hil
      have hend : ((w.file fi).ddDelete i).endOff = (w.file fi).endOff := by rw [ddDelete_endOff, hx]
      obtain ⟨E1, hfr⟩ := delete_user hE i (by rw [htag, hbase]; exact hu.2.1) hdd (ddDelete_disk _ i) hend
        (ddDelete_links _ i) (ddDelete_ndds _ i)
      have hkeep : ∀ j, j ≠ i → ((w.file fi).ddDelete i).dd j = (w.file fi).dd j := by intro j hj; rw [hdd]; simp [hj]
      have hlive1 : ∀ j, ((w.file fi).ddDelete i).live j ↔ ((w.file fi).live j ∧ j ≠ i) := by
        intro j; unfold File.live
        by_cases e : j = i
        · subst e; rw [hdd]; simp
        · rw [hkeep j e]; simp [e]
      have hfresh1 : ∀ j, ¬ ((w.file fi).ddDelete i).hasKey j tag ref := by
        intro j hj
        obtain ⟨l1, l2⟩ := (hlive1 j).mp hj.1
        have : (w.file fi).hasKey j tag ref := (hasKey_congr (by rw [hkeep j l2]) (by rw [hkeep j l2])).mp hj
        exact l2 (hE.uniq j i this.1 hk.1 (by rw [this.2.1, hk.2.1]) (by rw [this.2.2, hk.2.2]))
      have M := mkLinked_spec ((w.file fi).ddDelete i) E1 tag ref blen nblk hnsp hu.2.2.2.2 hu.2.1 hfresh1 hb hn
      apply hfinish (some i) [] _ _ ⟨M.wfe, M.live', M.special', M.key', M.bytes, ?_, ?_, by rw [M.present, ddDelete_present]⟩
        (coh_mkLinked (coh_ddDelete hCoh i hil) tag ref blen nblk)
        (fun i' e => by cases e; exact ⟨hnoi, hk⟩) (fun e => by cases e)
      · simp only [step, hlcreate]
        rw [if_neg hguard]
        simp only [hsel]
        rw [if_neg hsp]
        simp only [hx, hbase]
        rfl
      · rw [hel, slotBytes_plain _ _ hsp0, hx]; rfl
      · intro x hxl hxo
        have hxi : x ≠ i := fun e => hxo (by rw [e])
        have h1 := M.others x ((hlive1 x).mpr ⟨hxl, hxi⟩)
        exact ⟨by rw [h1.1, hkeep x hxi], by rw [h1.2]; exact hfr x hxl hxi⟩
      · intro x hxl
        rcases M.new_slots x hxl with c | c | c
        · obtain ⟨c1, c2⟩ := (hlive1 x).mp c
          exact Or.inl ⟨c1, fun e => c2 (Option.some.inj e).symm⟩
        · exact Or.inr (Or.inl c)
        · exact Or.inr (Or.inr c)
    | some e =>
      obtain ⟨o, l⟩ := e
      -- the data becomes the first block: `HLconvert`'s tail
      have C := convertTail_spec (w.file fi) hE i o l blen nblk hk.1 hsp0 (by rw [htag]; exact hu.2.2.2.2)
        (by rw [htag]; exact hu.2.1) hx hb hn
      have hCC := coh_convertTail hCoh i ((w.file fi).dd i) o l blen nblk hil
      apply hfinish (some i) ((w.file fi).bytesAt o l) _ _
        ⟨C.wfe, C.live', C.special', by rw [C.key', hkey], C.bytes,
          fun x hxl hxo => C.others x hxl (fun e => hxo (by rw [e])),
          fun x hxl => by
            rcases C.new_slots x hxl with ⟨c1, c2⟩ | c | c
            · exact Or.inl ⟨c1, fun e => c2 (Option.some.inj e).symm⟩
            · exact Or.inr (Or.inl c)
            · exact Or.inr (Or.inr c), C.present⟩ hCC
        (fun i' e => by cases e; exact ⟨hnoi, hk⟩) (fun e => by cases e)
      · simp only [step, hlcreate]
        rw [if_neg hguard]
        simp only [hsel]
        rw [if_neg hsp]
        simp only [hx]
        unfold File.convertTail
        simp only [htag, href]
      · rw [hel, slotBytes_plain _ _ hsp0, hx]
        rfl

end H4.Elem
