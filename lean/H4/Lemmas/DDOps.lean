import H4.Lemmas.DDInv
/-! # What each modelled function of `hfiledd.c` does to the slot list, the tag tree and the positions. -/
namespace H4.DD
open H4.Gen.Hdf H4.Bitvect

/-! ## only the `dds` of the blocks matter for the slot list and for positions -/

def dview (blocks : List Block) : List (List DD) := blocks.map (·.dds)

theorem slotsOf_dview (blocks : List Block) : slotsOf blocks = (dview blocks).flatten := by
  induction blocks with
  | nil => rfl
  | cons b bs ih => simp only [slotsOf_cons, dview, List.map_cons, List.flatten_cons] at *; rw [ih]

theorem getDD_dview (blocks : List Block) (q : Pos) :
    getDD blocks q = match (dview blocks)[q.blk]? with | none => nilDD | some dds => dds.getD q.idx nilDD := by
  simp only [getDD, dview, List.getElem?_map]
  cases blocks[q.blk]? <;> rfl

theorem valid_dview (blocks : List Block) (q : Pos) :
    Valid blocks q ↔ ∃ dds, (dview blocks)[q.blk]? = some dds ∧ q.idx < dds.length := by
  simp only [Valid, dview, List.getElem?_map]
  cases blocks[q.blk]? <;> simp

theorem dview_modify {blocks : List Block} {f : Block → Block} (hf : ∀ b, (f b).dds = b.dds) (i : Nat) :
    dview (blocks.modify i f) = dview blocks := by
  apply List.ext_getElem?
  intro j
  simp only [dview, List.getElem?_map, List.getElem?_modify]
  cases blocks[j]? with
  | none => rfl
  | some b => by_cases h : i = j <;> simp [h, hf]

theorem slotsOf_congr {a b : List Block} (h : dview a = dview b) : slotsOf a = slotsOf b := by
  rw [slotsOf_dview, slotsOf_dview, h]
theorem getDD_congr {a b : List Block} (h : dview a = dview b) (q : Pos) : getDD a q = getDD b q := by
  rw [getDD_dview, getDD_dview, h]
theorem valid_congr {a b : List Block} (h : dview a = dview b) (q : Pos) : Valid a q ↔ Valid b q := by
  rw [valid_dview, valid_dview, h]
theorem length_congr {a b : List Block} (h : dview a = dview b) : a.length = b.length := by
  have := congrArg List.length h; simpa [dview] using this

theorem dview_append (a b : List Block) : dview (a ++ b) = dview a ++ dview b := by simp [dview]

theorem getDD_append_left {a : List Block} (b : List Block) {q : Pos} (h : q.blk < a.length) :
    getDD (a ++ b) q = getDD a q := by
  simp [getDD, List.getElem?_append_left h]

theorem valid_append_left {a : List Block} (b : List Block) {q : Pos} (h : Valid a q) : Valid (a ++ b) q := by
  obtain ⟨blk, h1, h2⟩ := h
  have : q.blk < a.length := by
    rcases Nat.lt_or_ge q.blk a.length with h' | h'
    · exact h'
    · simp [List.getElem?_eq_none h'] at h1
  exact ⟨blk, by rw [List.getElem?_append_left this]; exact h1, h2⟩

theorem valid_blk_lt {blocks : List Block} {q : Pos} (h : Valid blocks q) : q.blk < blocks.length := by
  obtain ⟨blk, h1, _⟩ := h
  rcases Nat.lt_or_ge q.blk blocks.length with h' | h'
  · exact h'
  · simp [List.getElem?_eq_none h'] at h1

/-! ## the state invariant (directory part) -/

structure WF (s : File) : Prop where
  wfl : WFl s.slots s.tags
  noub : s.ub = false
  ne : 0 < s.blocks.length
  slotne : ∀ b, b < s.blocks.length → Valid s.blocks ⟨b, 0⟩

/-! ## `HTIupdate_dd` touches flags, the disk image and `f_end_off` only -/

theorem bumpEnd_blocks (s : File) (d : DD) : (bumpEnd s d).blocks = s.blocks := by unfold bumpEnd; split <;> rfl
theorem bumpEnd_tags (s : File) (d : DD) : (bumpEnd s d).tags = s.tags := by unfold bumpEnd; split <;> rfl
theorem bumpEnd_ub (s : File) (d : DD) : (bumpEnd s d).ub = s.ub := by unfold bumpEnd; split <;> rfl
theorem bumpEnd_maxref (s : File) (d : DD) : (bumpEnd s d).maxref = s.maxref := by unfold bumpEnd; split <;> rfl
theorem bumpEnd_cache (s : File) (d : DD) : (bumpEnd s d).cache = s.cache := by unfold bumpEnd; split <;> rfl
theorem bumpEnd_disk (s : File) (d : DD) : (bumpEnd s d).disk = s.disk := by unfold bumpEnd; split <;> rfl
theorem bumpEnd_fdirty (s : File) (d : DD) : (bumpEnd s d).fdirty = s.fdirty := by unfold bumpEnd; split <;> rfl
theorem bumpEnd_fEnd_ge (s : File) (d : DD) : s.fEnd ≤ (bumpEnd s d).fEnd := by
  unfold bumpEnd; split
  · simp only; omega
  · exact Nat.le_refl _

theorem markOrWrite_dview (s : File) (p : Pos) : dview (markOrWrite s p).blocks = dview s.blocks := by
  unfold markOrWrite; split
  · exact dview_modify (f := fun b => { b with dirty := true }) (fun _ => rfl) p.blk
  · rfl
theorem markOrWrite_tags (s : File) (p : Pos) : (markOrWrite s p).tags = s.tags := by unfold markOrWrite; split <;> rfl
theorem markOrWrite_ub (s : File) (p : Pos) : (markOrWrite s p).ub = s.ub := by unfold markOrWrite; split <;> rfl
theorem markOrWrite_maxref (s : File) (p : Pos) : (markOrWrite s p).maxref = s.maxref := by unfold markOrWrite; split <;> rfl
theorem markOrWrite_cache (s : File) (p : Pos) : (markOrWrite s p).cache = s.cache := by unfold markOrWrite; split <;> rfl
theorem markOrWrite_fEnd (s : File) (p : Pos) : (markOrWrite s p).fEnd = s.fEnd := by unfold markOrWrite; split <;> rfl

theorem htiUpdateDD_dview (s : File) (p : Pos) : dview (htiUpdateDD s p).blocks = dview s.blocks := by
  unfold htiUpdateDD; rw [bumpEnd_blocks, markOrWrite_dview]
theorem htiUpdateDD_tags (s : File) (p : Pos) : (htiUpdateDD s p).tags = s.tags := by
  unfold htiUpdateDD; rw [bumpEnd_tags, markOrWrite_tags]
theorem htiUpdateDD_ub (s : File) (p : Pos) : (htiUpdateDD s p).ub = s.ub := by
  unfold htiUpdateDD; rw [bumpEnd_ub, markOrWrite_ub]
theorem htiUpdateDD_maxref (s : File) (p : Pos) : (htiUpdateDD s p).maxref = s.maxref := by
  unfold htiUpdateDD; rw [bumpEnd_maxref, markOrWrite_maxref]
theorem htiUpdateDD_cache (s : File) (p : Pos) : (htiUpdateDD s p).cache = s.cache := by
  unfold htiUpdateDD; rw [bumpEnd_cache, markOrWrite_cache]

/-! ## `fillSlot`: store a descriptor and `HTIupdate_dd` -/

theorem fillSlot_dview (s : File) (p : Pos) (d : DD) : dview (fillSlot s p d).blocks = dview (setDD s.blocks p d) := by
  unfold fillSlot; rw [htiUpdateDD_dview]
theorem fillSlot_tags (s : File) (p : Pos) (d : DD) : (fillSlot s p d).tags = s.tags := by
  unfold fillSlot; rw [htiUpdateDD_tags]
theorem fillSlot_ub (s : File) (p : Pos) (d : DD) : (fillSlot s p d).ub = s.ub := by
  unfold fillSlot; rw [htiUpdateDD_ub]
theorem fillSlot_maxref (s : File) (p : Pos) (d : DD) : (fillSlot s p d).maxref = s.maxref := by
  unfold fillSlot; rw [htiUpdateDD_maxref]
theorem fillSlot_cache (s : File) (p : Pos) (d : DD) : (fillSlot s p d).cache = s.cache := by
  unfold fillSlot; rw [htiUpdateDD_cache]

theorem fillSlot_valid (s : File) (p : Pos) (d : DD) (q : Pos) :
    Valid (fillSlot s p d).blocks q ↔ Valid s.blocks q := by
  rw [valid_congr (fillSlot_dview s p d), valid_setDD]
theorem fillSlot_length (s : File) (p : Pos) (d : DD) : (fillSlot s p d).blocks.length = s.blocks.length := by
  rw [length_congr (fillSlot_dview s p d), setDD_length]
theorem fillSlot_get_same {s : File} {p : Pos} (h : Valid s.blocks p) (d : DD) : getDD (fillSlot s p d).blocks p = d := by
  rw [getDD_congr (fillSlot_dview s p d), getDD_setDD_same h]
theorem fillSlot_get_other {s : File} {p q : Pos} (h : p ≠ q) (d : DD) :
    getDD (fillSlot s p d).blocks q = getDD s.blocks q := by
  rw [getDD_congr (fillSlot_dview s p d), getDD_setDD_other h]
theorem fillSlot_slots {s : File} {p : Pos} (h : Valid s.blocks p) (d : DD) :
    (fillSlot s p d).slots = preUpto s.blocks p.blk p.idx ++ d :: sufFrom s.blocks p.blk (p.idx + 1) := by
  show slotsOf _ = _
  rw [slotsOf_congr (fillSlot_dview s p d), slots_setDD h]

/-! ## `HTInew_dd_block` and the slot `HTPcreate` takes -/

theorem findNull_eq (s : File) : htiFindDD s DFTAG_NULL DFTAG_WILDCARD none .fwd =
    match scanFwd pNull s.blocks (s.nullBlk.getD 0) s.nullNext with
    | some p => (some p, { s with nullBlk := some p.blk, nullNext := p.idx + 1 })
    | none => (none, s) := by
  simp [htiFindDD, DFTAG_NULL, DFTAG_WILDCARD, DFREF_WILDCARD]
  rfl

theorem pNull_iff (d : DD) : pNull d = true ↔ isLive d = false := by
  simp [pNull, isLive]

theorem newBlockMem_dview (s : File) :
    dview (newBlockMem s) = dview s.blocks ++ [List.replicate (headNdds s) nilDD] := by
  unfold newBlockMem
  rw [dview_append, dview_modify (f := fun b => { b with next := s.fEnd, dirty := if s.cache then true else b.dirty }) (fun _ => rfl)]
  rfl

theorem headNdds_pos {s : File} (h : WF s) : 0 < headNdds s := by
  obtain ⟨blk, h1, h2⟩ := h.slotne 0 h.ne
  unfold headNdds
  cases hb : s.blocks with
  | nil => have := h.ne; simp [hb] at this
  | cons b bs =>
    simp only [List.head?_cons]
    simp [hb] at h1; subst h1; exact h2

/-- what `allocSlot` returns: a valid position holding a dead descriptor, in a chain that is the old one plus possibly
    one block of NIL descriptors -/
theorem allocSlot_spec (cfg : Cfg) {s : File} (h : WF s) :
    Valid (allocSlot cfg s).2.blocks (allocSlot cfg s).1 ∧
    isLive (getDD (allocSlot cfg s).2.blocks (allocSlot cfg s).1) = false ∧
    (allocSlot cfg s).2.tags = s.tags ∧ (allocSlot cfg s).2.ub = s.ub ∧
    (∃ n, (allocSlot cfg s).2.slots = s.slots ++ List.replicate n nilDD) ∧
    (∀ q, Valid s.blocks q → Valid (allocSlot cfg s).2.blocks q ∧ getDD (allocSlot cfg s).2.blocks q = getDD s.blocks q) ∧
    0 < (allocSlot cfg s).2.blocks.length ∧
    (∀ b, b < (allocSlot cfg s).2.blocks.length → Valid (allocSlot cfg s).2.blocks ⟨b, 0⟩) := by
  unfold allocSlot
  rw [findNull_eq]
  cases hs : scanFwd pNull s.blocks (s.nullBlk.getD 0) s.nullNext with
  | some p =>
    obtain ⟨hv, hp, _⟩ := scanFwd_some hs
    refine ⟨hv, (pNull_iff _).mp hp, rfl, rfl, ⟨0, by simp [File.slots]⟩, fun q hq => ⟨hq, rfl⟩, h.ne, h.slotne⟩
  | none =>
    simp only
    have hdv : dview (htiNewBlock cfg s).blocks = dview s.blocks ++ [List.replicate (headNdds s) nilDD] := newBlockMem_dview s
    have hlen : (htiNewBlock cfg s).blocks.length = s.blocks.length + 1 := by
      have := congrArg List.length hdv; simpa [dview] using this
    have hpos := headNdds_pos h
    have hvnew : Valid (htiNewBlock cfg s).blocks ⟨s.blocks.length, 0⟩ := by
      rw [valid_dview, hdv]
      refine ⟨List.replicate (headNdds s) nilDD, ?_, by simpa using hpos⟩
      have : (dview s.blocks).length = s.blocks.length := by simp [dview]
      simp [List.getElem?_append_right, this]
    have hold : ∀ q, Valid s.blocks q → Valid (htiNewBlock cfg s).blocks q ∧ getDD (htiNewBlock cfg s).blocks q = getDD s.blocks q := by
      intro q hq
      have hlt := valid_blk_lt hq
      have hlt' : q.blk < (dview s.blocks).length := by simpa [dview] using hlt
      constructor
      · rw [valid_dview, hdv, List.getElem?_append_left hlt']
        exact (valid_dview _ _).mp hq
      · rw [getDD_dview, getDD_dview, hdv, List.getElem?_append_left hlt']
    rw [hlen]
    simp only [Nat.add_sub_cancel]
    refine ⟨hvnew, ?_, rfl, rfl, ⟨headNdds s, ?_⟩, hold, by omega, ?_⟩
    · rw [getDD_dview, hdv]
      have : (dview s.blocks).length = s.blocks.length := by simp [dview]
      simp [List.getElem?_append_right, this, List.getD_eq_getElem?_getD, hpos, isLive, nilDD]
    · show slotsOf _ = slotsOf _ ++ _
      rw [slotsOf_dview, hdv, slotsOf_dview]; simp
    · intro b hb
      by_cases hbl : b < s.blocks.length
      · exact (hold _ (h.slotne b hbl)).1
      · have : b = s.blocks.length := by omega
        subst this; exact hvnew

theorem dview_setDD (blocks : List Block) (p : Pos) (d : DD) :
    dview (setDD blocks p d) = (dview blocks).modify p.blk (fun l => l.set p.idx d) := by
  apply List.ext_getElem?
  intro j
  simp only [dview, setDD, List.getElem?_map, List.getElem?_modify]
  cases blocks[j]? with
  | none => rfl
  | some b => by_cases h : p.blk = j <;> simp [h]

theorem setDD_congr {a b : List Block} (h : dview a = dview b) (p : Pos) (d : DD) :
    dview (setDD a p d) = dview (setDD b p d) := by
  rw [dview_setDD, dview_setDD, h]

/-- writing slot `p`: the slot list changes in exactly that element -/
theorem fillSlot_split {s : File} {p : Pos} (h : Valid s.blocks p) (d : DD) :
    ∃ pre post, s.slots = pre ++ getDD s.blocks p :: post ∧ (fillSlot s p d).slots = pre ++ d :: post :=
  ⟨_, _, slots_split_valid h, fillSlot_slots h d⟩

/-! ## lookups through the tag tree -/

theorem ddOf_pred (base ref : Nat) (d : DD) :
    (d.tag != DFTAG_NULL && baseTag d.tag == base && d.ref == ref) = true ↔ isLive d = true ∧ keyOf d = (base, ref) := by
  simp [isLive, keyOf, and_assoc]

theorem ddOf_some {blocks : List Block} {base ref : Nat} {q : Pos} (h : ddOf blocks base ref = some q) :
    Valid blocks q ∧ isLive (getDD blocks q) = true ∧ keyOf (getDD blocks q) = (base, ref) := by
  obtain ⟨hv, hp, _⟩ := scanFwd_some h
  exact ⟨hv, (ddOf_pred base ref _).mp hp⟩

theorem ddOf_none {blocks : List Block} {base ref : Nat} (h : ddOf blocks base ref = none) :
    ∀ d ∈ liveOf (slotsOf blocks), keyOf d ≠ (base, ref) := by
  have := scanFwd_none h
  rw [sufFrom_zero_zero, List.filter_eq_nil_iff] at this
  intro d hd hk
  obtain ⟨hm, hl⟩ := mem_liveOf.mp hd
  exact this d hm ((ddOf_pred base ref d).mpr ⟨hl, hk⟩)

theorem node_of_live {s : File} (h : WF s) {d : DD} (hd : d ∈ s.live) : ∃ bv, tget s.tags (baseTag d.tag) = some bv := by
  cases hg : tget s.tags (baseTag d.tag) with
  | none => exact absurd rfl (h.wfl.tags.nonode _ hg d hd)
  | some bv => exact ⟨bv, rfl⟩

theorem lookupDD_some {tags : Tags} {blocks : List Block} {base ref : Nat} {q : Pos}
    (h : lookupDD tags blocks base ref = some q) :
    Valid blocks q ∧ isLive (getDD blocks q) = true ∧ keyOf (getDD blocks q) = (base, ref) := by
  unfold lookupDD at h
  split at h
  · cases h
  · split at h
    · cases h
    · exact ddOf_some h

theorem lookupDD_none {s : File} (hw : WF s) {base ref : Nat} (h : lookupDD s.tags s.blocks base ref = none) :
    ∀ d ∈ s.live, keyOf d ≠ (base, ref) := by
  unfold lookupDD at h
  split at h
  · rename_i hg
    intro d hd hk
    exact hw.wfl.tags.nonode _ hg d hd (by simp [keyOf] at hk; exact hk.1)
  · rename_i bv hg
    split at h
    · rename_i hbit
      obtain ⟨binv, _, bspec⟩ := hw.wfl.tags.node _ _ hg
      intro d hd hk
      have hr : 1 ≤ ref := by
        have := (hw.wfl.live_ok d hd).2.1
        simp [keyOf] at hk; omega
      have := (bspec ref hr).mpr ⟨d, hd, hk⟩
      rw [(get_eq_zero binv ref).mp hbit] at this
      cases this
    · exact ddOf_none h

theorem htpSelect_some {s : File} {t r : Nat} {q : Pos} (h : htpSelect s t r = some q) :
    Valid s.blocks q ∧ isLive (getDD s.blocks q) = true ∧ keyOf (getDD s.blocks q) = (baseTag t, r) := by
  unfold htpSelect at h
  split at h
  · cases h
  · exact lookupDD_some h

theorem htpSelect_none {s : File} (hw : WF s) {t r : Nat} (ht0 : t ≠ 0) (ht1 : t ≠ 1) (hr : r ≠ 0)
    (h : htpSelect s t r = none) : ∀ d ∈ s.live, keyOf d ≠ (baseTag t, r) := by
  unfold htpSelect at h
  rw [if_neg (by simp only [DFTAG_NULL, DFTAG_WILDCARD, DFREF_WILDCARD]; omega)] at h
  exact lookupDD_none hw h

theorem htpSelect_wild {s : File} {t r : Nat} (h : t = 0 ∨ t = 1 ∨ r = 0) : htpSelect s t r = none := by
  unfold htpSelect
  rw [if_pos]
  show t = 1 ∨ t = 0 ∨ r = 0
  rcases h with h | h | h
  · exact Or.inr (Or.inl h)
  · exact Or.inl h
  · exact Or.inr (Or.inr h)

/-- a live descriptor is found by `HTPselect` under its own tag (or its base tag / special variant) -/
theorem htpSelect_of_live {s : File} (hw : WF s) {d : DD} (hd : d ∈ s.live) {t : Nat} (ht : baseTag t = baseTag d.tag)
    (ht0 : t ≠ 0) (ht1 : t ≠ 1) : ∃ q, htpSelect s t d.ref = some q ∧ getDD s.blocks q = d := by
  have hr := (hw.wfl.live_ok d hd).2.1
  cases hsel : htpSelect s t d.ref with
  | none =>
    exact absurd (by simp [keyOf, ht]) (htpSelect_none hw ht0 ht1 (by omega) hsel d hd)
  | some q =>
    refine ⟨q, rfl, ?_⟩
    obtain ⟨hv, hl, hk⟩ := htpSelect_some hsel
    obtain ⟨hm, hld⟩ := mem_liveOf.mp hd
    obtain ⟨a, b, hab⟩ := List.append_of_mem hm
    have := split_unique hw.wfl.nodup (slots_split_valid hv) hab hl hld (by rw [hk]; simp [keyOf, ht])
    exact this.2.1

/-! ## `HTPcreate` -/

theorem raiseMaxref_blocks (cfg : Cfg) (s : File) (r : Nat) : (raiseMaxref cfg s r).blocks = s.blocks := by
  unfold raiseMaxref; split <;> rfl
theorem raiseMaxref_tags (cfg : Cfg) (s : File) (r : Nat) : (raiseMaxref cfg s r).tags = s.tags := by
  unfold raiseMaxref; split <;> rfl
theorem raiseMaxref_ub (cfg : Cfg) (s : File) (r : Nat) : (raiseMaxref cfg s r).ub = s.ub := by
  unfold raiseMaxref; split <;> rfl

theorem htpCreate_spec (cfg : Cfg) {s : File} (h : WF s) {tag ref : Nat} (ht : 2 ≤ tag ∧ tag < 65536) (hr : 1 ≤ ref ∧ ref < 65536)
    (hfresh : ∀ d ∈ s.live, keyOf d ≠ (baseTag tag, ref)) :
    ∃ p s', htpCreate cfg s tag ref = (some p, s') ∧ WF s' ∧ Valid s'.blocks p ∧
      getDD s'.blocks p = ⟨tag, ref, -1, -1⟩ ∧ s'.live.Perm (⟨tag, ref, -1, -1⟩ :: s.live) ∧
      (∀ q, Valid s.blocks q → isLive (getDD s.blocks q) = true →
        Valid s'.blocks q ∧ getDD s'.blocks q = getDD s.blocks q ∧ q ≠ p) := by
  obtain ⟨av, adead, atags, aub, ⟨n, aslots⟩, aold, ane, aslotne⟩ := allocSlot_spec cfg h
  generalize ha : allocSlot cfg s = a at *
  obtain ⟨p, s0⟩ := a
  simp only at av adead atags aub aslots aold ane aslotne
  have hwf0 : WFl s0.slots s0.tags := by rw [aslots, atags]; exact WFl_append_nil h.wfl n
  have hlive0 : liveOf s0.slots = s.live := by rw [aslots]; simp [liveOf_replicate_nil, live_eq]
  obtain ⟨pre, post, hsp, hsp'⟩ := fillSlot_split av ⟨tag, ref, -1, -1⟩
  rw [hsp] at hwf0 hlive0
  obtain ⟨tags', hreg, hwf1⟩ := WFl_insert (d' := ⟨tag, ref, -1, -1⟩) hwf0 adead ht hr
    (by intro d hd; rw [hlive0] at hd; exact hfresh d hd) (by simp [okOL])
  have hne : ¬ (tag = DFTAG_NULL ∨ tag = DFTAG_WILDCARD ∨ ref = DFREF_WILDCARD) := by
    simp only [DFTAG_NULL, DFTAG_WILDCARD, DFREF_WILDCARD]; omega
  have hnodup : ¬ (cfg.fixF17 = true ∧ (lookupDD s.tags s.blocks (baseTag tag) ref).isSome = true) := by
    intro hh
    cases hl : lookupDD s.tags s.blocks (baseTag tag) ref with
    | none => rw [hl] at hh; simp at hh
    | some q =>
      obtain ⟨hv, hlv, hk⟩ := lookupDD_some hl
      exact hfresh _ (mem_liveOf.mpr ⟨getDD_mem_slots hv, hlv⟩) hk
  have hcr : htpCreate cfg s tag ref =
      (some p, raiseMaxref cfg { fillSlot s0 p ⟨tag, ref, -1, -1⟩ with tags := tags' } ref) := by
    unfold htpCreate
    rw [if_neg hne, if_neg hnodup]
    simp only [ha, INVALID_OFFSET, INVALID_LENGTH, fillSlot_tags]
    rw [hreg]
  refine ⟨p, _, hcr, ⟨?_, ?_, ?_, ?_⟩, ?_, ?_, ?_, ?_⟩
  · show WFl (slotsOf (raiseMaxref cfg _ ref).blocks) (raiseMaxref cfg _ ref).tags
    rw [raiseMaxref_blocks, raiseMaxref_tags]
    show WFl (fillSlot s0 p _).slots tags'
    rw [hsp']; exact hwf1
  · rw [raiseMaxref_ub]; show (fillSlot s0 p _).ub = false
    rw [fillSlot_ub, aub]; exact h.noub
  · rw [raiseMaxref_blocks]; show 0 < (fillSlot s0 p _).blocks.length
    rw [fillSlot_length]; exact ane
  · intro b hb
    rw [raiseMaxref_blocks] at hb ⊢
    show Valid (fillSlot s0 p _).blocks _
    rw [fillSlot_valid]
    apply aslotne
    have : (fillSlot s0 p ⟨tag, ref, -1, -1⟩).blocks.length = s0.blocks.length := fillSlot_length _ _ _
    simpa [this] using hb
  · rw [raiseMaxref_blocks]; show Valid (fillSlot s0 p _).blocks p
    rw [fillSlot_valid]; exact av
  · rw [raiseMaxref_blocks]; exact fillSlot_get_same av _
  · show (liveOf (slotsOf (raiseMaxref cfg _ ref).blocks)).Perm _
    rw [raiseMaxref_blocks]
    show (liveOf (fillSlot s0 p _).slots).Perm _
    rw [hsp', ← hlive0, liveOf_split_dead adead, liveOf_split_live (by simp [isLive, DFTAG_NULL]; omega)]
    exact List.perm_middle
  · intro q hq hql
    obtain ⟨hq0, hg0⟩ := aold q hq
    have hqp : q ≠ p := by
      intro e; subst e
      rw [hg0] at adead; rw [adead] at hql; cases hql
    rw [raiseMaxref_blocks]
    refine ⟨(fillSlot_valid _ _ _ _).mpr hq0, ?_, hqp⟩
    show getDD (fillSlot s0 p _).blocks q = _
    rw [fillSlot_get_other (fun e => hqp e.symm), hg0]

/-! ## `HTPupdate`, `HTPdelete` -/

theorem fillSlot_WF {s : File} (h : WF s) {p : Pos} (d : DD) (hw : WFl (fillSlot s p d).slots s.tags) : WF (fillSlot s p d) := by
  refine ⟨by rw [fillSlot_tags]; exact hw, by rw [fillSlot_ub]; exact h.noub, by rw [fillSlot_length]; exact h.ne, ?_⟩
  intro b hb
  rw [fillSlot_valid]; apply h.slotne
  have := fillSlot_length s p d
  omega

theorem htpUpdate_spec {s : File} (h : WF s) {p : Pos} (hv : Valid s.blocks p)
    (hl : isLive (getDD s.blocks p) = true) (off len : Int)
    (hol : okOL (updDD (getDD s.blocks p) off len)) :
    WF (htpUpdate s p off len) ∧
    (∃ pre post, s.slots = pre ++ getDD s.blocks p :: post ∧
      (htpUpdate s p off len).slots = pre ++ updDD (getDD s.blocks p) off len :: post) ∧
    (∀ q, Valid (htpUpdate s p off len).blocks q ↔ Valid s.blocks q) ∧
    getDD (htpUpdate s p off len).blocks p = updDD (getDD s.blocks p) off len ∧
    (∀ q, q ≠ p → getDD (htpUpdate s p off len).blocks q = getDD s.blocks q) := by
  unfold htpUpdate
  obtain ⟨pre, post, hsp, hsp'⟩ := fillSlot_split hv (updDD (getDD s.blocks p) off len)
  have hw := h.wfl
  rw [hsp] at hw
  have hw' := WFl_update (d' := updDD (getDD s.blocks p) off len) hw hl rfl rfl hol
  refine ⟨fillSlot_WF h _ (by rw [hsp']; exact hw'), ⟨pre, post, hsp, hsp'⟩, fillSlot_valid _ _ _, fillSlot_get_same hv _, ?_⟩
  intro q hq
  exact fillSlot_get_other (fun e => hq e.symm) _

theorem htpDelete_spec (cfg : Cfg) {s : File} (h : WF s) {p : Pos} (hv : Valid s.blocks p)
    (hl : isLive (getDD s.blocks p) = true) :
    ∃ s', htpDelete cfg s p = (true, s') ∧ WF s' ∧
      (∃ pre post, s.slots = pre ++ getDD s.blocks p :: post ∧
        s'.slots = pre ++ { getDD s.blocks p with tag := DFTAG_NULL } :: post) ∧
      (∀ q, Valid s'.blocks q ↔ Valid s.blocks q) ∧
      (∀ q, q ≠ p → getDD s'.blocks q = getDD s.blocks q) := by
  obtain ⟨pre, post, hsp⟩ : ∃ pre post, s.slots = pre ++ getDD s.blocks p :: post := ⟨_, _, slots_split_valid hv⟩
  have hw := h.wfl
  rw [hsp] at hw
  obtain ⟨tags', hun, hw'⟩ := WFl_delete hw hl
  unfold htpDelete
  by_cases hf : cfg.fixF4 = true
  · simp only [hf, if_true, hun]
    -- fixed order: unregister, null the tag, then write
    let s0 : File := { s with nullBlk := none, nullNext := 0, tags := tags' }
    have hv0 : Valid s0.blocks p := hv
    have hsp0 : (fillSlot s0 p { getDD s.blocks p with tag := DFTAG_NULL }).slots =
        pre ++ { getDD s.blocks p with tag := DFTAG_NULL } :: post := by
      rw [fillSlot_slots hv0]
      have hu := split_unique h.wfl.nodup hsp (slots_split_valid hv) hl hl rfl
      show preUpto s.blocks p.blk p.idx ++ _ :: sufFrom s.blocks p.blk (p.idx + 1) = _
      rw [← hu.1, ← hu.2.2]
    refine ⟨_, rfl, ⟨by rw [fillSlot_tags]; show WFl _ tags'; rw [hsp0]; exact hw',
      by rw [fillSlot_ub]; exact h.noub, by rw [fillSlot_length]; exact h.ne, ?_⟩, ⟨pre, post, hsp, hsp0⟩,
      fun q => fillSlot_valid s0 p _ q, fun q hq => fillSlot_get_other (fun e => hq e.symm) _⟩
    intro b hb
    rw [fillSlot_valid]
    apply h.slotne
    have := fillSlot_length s0 p { getDD s.blocks p with tag := DFTAG_NULL }
    exact Nat.lt_of_lt_of_eq hb this
  · simp only [hf, Bool.false_eq_true, if_false, htiUpdateDD_tags, hun]
    -- as is: written first, nulled afterwards
    let s0 : File := { s with nullBlk := none, nullNext := 0 }
    have hdv : dview (htiUpdateDD s0 p).blocks = dview s.blocks := htiUpdateDD_dview s0 p
    have hdv2 : dview (setDD (htiUpdateDD s0 p).blocks p { getDD s.blocks p with tag := DFTAG_NULL }) =
        dview (setDD s.blocks p { getDD s.blocks p with tag := DFTAG_NULL }) := setDD_congr hdv _ _
    have hslots : slotsOf (setDD (htiUpdateDD s0 p).blocks p { getDD s.blocks p with tag := DFTAG_NULL }) =
        pre ++ { getDD s.blocks p with tag := DFTAG_NULL } :: post := by
      rw [slotsOf_congr hdv2, slots_setDD hv]
      have hu := split_unique h.wfl.nodup hsp (slots_split_valid hv) hl hl rfl
      rw [← hu.1, ← hu.2.2]
    refine ⟨_, rfl, ⟨by show WFl (slotsOf _) tags'; rw [hslots]; exact hw', ?_, ?_, ?_⟩, ⟨pre, post, hsp, hslots⟩, ?_, ?_⟩
    · show (htiUpdateDD s0 p).ub = false
      rw [htiUpdateDD_ub]; exact h.noub
    · show 0 < (setDD _ _ _).length
      rw [setDD_length, length_congr hdv]; exact h.ne
    · intro b hb
      show Valid (setDD _ _ _) _
      rw [valid_congr hdv2, valid_setDD]
      apply h.slotne
      have e1 : (setDD (htiUpdateDD s0 p).blocks p { getDD s.blocks p with tag := DFTAG_NULL }).length = s.blocks.length := by
        rw [setDD_length, length_congr hdv]
      exact Nat.lt_of_lt_of_eq hb e1
    · intro q
      show Valid (setDD _ _ _) q ↔ _
      rw [valid_congr hdv2, valid_setDD]
    · intro q hq
      show getDD (setDD _ _ _) q = _
      rw [getDD_congr hdv2, getDD_setDD_other (fun e => hq e.symm)]

end H4.DD
