import H4.Lemmas.C07FldSet4
/-! `VSsetfields`: one pass of the field loop keeps the invariant and follows the model step `goStep` (user symbol: `l1_user`;
    reserved symbol or unknown name: `l1_rstab`). -/
namespace H4.Lemmas.C07Fld
open H4.Gen.Fn.Dfconv H4.Gen.Fn.Vsfld H4.VData H4.Gen.Hdf H4.Gen.Vs H4.C2L H4.VsfldEnc
set_option linter.unusedVariables false
set_option linter.unusedSimpArgs false

theorem frame_fields {s s0 : VSsetfields.St} (h : sfFrame s = sfFrame s0) :
    s.av = s0.av ∧ s.ac = s0.ac ∧ s.vs_usym_name = s0.vs_usym_name ∧ s.vs_usym_type = s0.vs_usym_type ∧
    s.vs_usym_isize = s0.vs_usym_isize ∧ s.vs_usym_order = s0.vs_usym_order ∧ s.vs_nusym = s0.vs_nusym ∧
    s.vs_wlist_type_i = s0.vs_wlist_type_i ∧ s.vs_wlist_off_i = s0.vs_wlist_off_i ∧ s.vs_wlist_isize_i = s0.vs_wlist_isize_i ∧
    s.vs_wlist_order_i = s0.vs_wlist_order_i ∧ s.vs_wlist_esize_i = s0.vs_wlist_esize_i := by
  simp only [sfFrame, Prod.mk.injEq] at h
  obtain ⟨⟨a1, a2, a3, a4, a5, a6, a7⟩, ⟨b1, b2, b3, b4, b5⟩, _⟩ := h
  exact ⟨a1, a2, a3, a4, a5, a6, a7, b1, b2, b3, b4, b5⟩

/-- the user-symbol part of one pass of the field loop: a user symbol named `nm` exists -/
theorem l1_user {usym : List SymDef} {names : List String} {pads : List (List Int)} {s0 s : VSsetfields.St} {fs : List Field} {iv : Nat}
    (E : BEnv usym names pads s0) (I : BInv names s0 fs iv s) (hk : fs.length < names.length) (fuel : Nat) (hf : usym.length ≤ fuel)
    (d : Nat) (hd : (usym.map (·.name)).findIdx? (· == names.getD fs.length "") = some d) :
    match goStep usym (names.getD fs.length "") iv with
    | some (f, iv') => BInv names s0 (fs ++ [f]) iv' (VSsetfields.loop1.body fuel s)
    | none => BFail s0 (VSsetfields.loop1.body fuel s) := by
  obtain ⟨a1, a2, a3, a4, a5, a6, a7, b1, b2, b3, b4, b5⟩ := frame_fields I.fr
  obtain ⟨h1, h2, h3⟩ := I.cl
  set nm := names.getD fs.length "" with hnm
  have hnmok : NameOK nm := E.hnames _ (by rw [hnm]; simp [hk])
  -- the symbol
  have hdlt : d < usym.length := by
    have := (List.findIdx?_eq_some_iff_getElem.mp hd).1
    simpa using this
  have hfind : usym.find? (·.name == nm) = some (usym.getD d default) := by
    rw [find_findIdx, ← findIdx_map_name, hd]; rfl
  obtain ⟨⟨ho, nt, hnt, his⟩, hname⟩ := E.hus (usym.getD d default) (by simp [hdlt])
  -- the scan
  set s2 : VSsetfields.St := VSsetfields.St.set_j (VSsetfields.St.set_found s 0) 0 with hs2
  have hi2 : 0 ≤ s2.i ∧ s2.i < (s2.av.length : Int) := by
    show 0 ≤ s.i ∧ s.i < (s.av.length : Int)
    rw [a1, E.hav, I.hi]; simp [avRows, E.hpl]; omega
  have hrow2 : s2.av.getD (Int.toNat s2.i) [] = chars nm ++ 0 :: pads.getD fs.length [] := by
    show s.av.getD (Int.toNat s.i) [] = _
    rw [a1, E.hav, I.hi, hnm]
    have := avRows_getD names pads E.hpl fs.length hk
    simpa using this
  have hp2 : P2 usym nm (pads.getD fs.length []) s2 :=
    ⟨⟨h1, h2, h3⟩, hrow2, hi2, by show s.vs_usym_name = _; rw [a3, E.u1], by show s.vs_nusym = _; rw [a7, E.hnu], by show (0 : Int) ≤ 0; omega⟩
  have hrun : ∀ f', _ := fun f' => l2A_run f' { s2 with j := s2.j + (d : Int) } ⟨h1, h2, h3⟩ names.length fs.length d iv usym nt
    (by show s.vs_wlist_n = _; exact I.hn) hk (by show s.vs_wlist_type_i = 0; rw [b1, E.c1])
    (by show s.vs_wlist_isize_i = _; rw [b3, E.c3]) (by show s.vs_wlist_order_i = _; rw [b4, E.c4])
    (by show s.vs_wlist_esize_i = _; rw [b5, E.c5]) I.hbl I.hnl (by show (0 : Int) + d = d; omega) hdlt
    (by show s.vs_usym_name = _; rw [a3, E.u1]) (by show s.vs_usym_type = _; rw [a4, E.u2])
    (by show s.vs_usym_isize = _; rw [a5, E.u3]) (by show s.vs_usym_order = _; rw [a6, E.u4]) hname hnt ho I.hiv
  have hM : MAX_FIELD_SIZE = 65535 := by decide
  have hexits : ∀ d' f', (usym.map (·.name)).findIdx? (· == nm) = some d' →
      (l2A f' { s2 with j := s2.j + (d' : Int) }).gto = true ∨ (l2A f' { s2 with j := s2.j + (d' : Int) }).brk = true := by
    intro d' f' hd'
    have : d' = d := by rw [hd] at hd'; exact (Option.some.inj hd').symm
    subst this
    have hr := hrun f'
    split at hr
    · exact Or.inl hr.1
    · rw [hr]; exact Or.inr rfl
  have hscan := l2_scan usym (fun sd h => (E.hus sd h).2) nm hnmok (pads.getD fs.length []) fuel s2 hf hp2 rfl hexits
  rw [hd] at hscan
  obtain ⟨f', hl2⟩ := hscan
  have hbody : VSsetfields.loop1.body fuel s = l1B fuel (VSsetfields.St.set_brk (VSsetfields.loop2 fuel s2) false) := by
    rw [loop1_body_pieces]; rfl
  rw [hbody, hl2]
  have hr := hrun f'
  unfold goStep
  rw [hfind]
  simp only [hnt, hM]
  by_cases c : (usym.getD d default).order * (usym.getD d default).isize > 65535 ∨ iv + (usym.getD d default).order * (usym.getD d default).isize > 65535
  · rw [if_pos c] at hr
    obtain ⟨g1, g2, g3, g4, g5, g6⟩ := hr
    have hnone : (if (usym.getD d default).order * (usym.getD d default).isize > 65535 then (none : Option (Field × Nat)) else
        if iv + (usym.getD d default).order * (usym.getD d default).isize > 65535 then none else
        some ({ name := (usym.getD d default).name, type := (usym.getD d default).type, tsz := nt.tsz, swap := nt.swap, order := (usym.getD d default).order, isize := (usym.getD d default).order * (usym.getD d default).isize, esize := (usym.getD d default).order * nt.nsz % 65536, off := 0 }, iv + (usym.getD d default).order * (usym.getD d default).isize)) = none := by
      rcases c with c | c
      · rw [if_pos c]
      · by_cases c' : (usym.getD d default).order * (usym.getD d default).isize > 65535
        · rw [if_pos c']
        · rw [if_neg c', if_pos c]
    rw [hnone]
    simp only
    rw [l1_tail_fail _ _ g1]
    exact ⟨g1, rfl, rfl, g3, (show sfFrame (l2A f' { s2 with j := s2.j + (d : Int) }) = _ from g4).trans I.fr, g5.trans I.hub, g6.trans I.hoof⟩
  · rw [if_neg c] at hr
    have c1' : ¬ ((usym.getD d default).order * (usym.getD d default).isize > 65535) := by omega
    have c2' : ¬ (iv + (usym.getD d default).order * (usym.getD d default).isize > 65535) := by omega
    rw [if_neg c1', if_neg c2']
    simp only
    rw [l1_tail_ok _ _ (by rw [hr]; exact h1) (by rw [hr]), hr]
    refine binv_extend I hk _ _ (by omega) _ rfl ⟨h1, rfl, rfl⟩ rfl rfl rfl rfl (by show (fs.length : Int) + 1 = s.vs_wlist_n + 1; rw [I.hn]) rfl ?_ rfl
    show _ = (((s.vs_wlist_bptr.set fs.length ((usym.getD d default).type : Int)).set (3 * names.length + fs.length) ((usym.getD d default).order : Int)).set
      (4 * names.length + fs.length) (((usym.getD d default).order * nt.nsz % 65536 : Nat) : Int)).set (2 * names.length + fs.length) (((usym.getD d default).order * (usym.getD d default).isize : Nat) : Int)
    have : (((usym.getD d default).order * nt.nsz : Nat) : Int) % 65536 = (((usym.getD d default).order * nt.nsz % 65536 : Nat) : Int) := by omega
    rw [← this]

/-- the reserved-symbol part of one pass of the field loop: no user symbol is named `nm` -/
theorem l1_rstab {usym : List SymDef} {names : List String} {pads : List (List Int)} {s0 s : VSsetfields.St} {fs : List Field} {iv : Nat}
    (E : BEnv usym names pads s0) (I : BInv names s0 fs iv s) (hk : fs.length < names.length) (fuel : Nat) (hf : usym.length ≤ fuel)
    (hf9 : 9 ≤ fuel) (hd : (usym.map (·.name)).findIdx? (· == names.getD fs.length "") = none) :
    match goStep usym (names.getD fs.length "") iv with
    | some (f, iv') => BInv names s0 (fs ++ [f]) iv' (VSsetfields.loop1.body fuel s)
    | none => BFail s0 (VSsetfields.loop1.body fuel s) := by
  obtain ⟨a1, a2, a3, a4, a5, a6, a7, b1, b2, b3, b4, b5⟩ := frame_fields I.fr
  obtain ⟨h1, h2, h3⟩ := I.cl
  set nm := names.getD fs.length "" with hnm
  have hnmok : NameOK nm := E.hnames _ (by rw [hnm]; simp [hk])
  have hM : MAX_FIELD_SIZE = 65535 := by decide
  have hfind : usym.find? (·.name == nm) = none := by
    rw [find_findIdx, ← findIdx_map_name, hd]; rfl
  set s2 : VSsetfields.St := VSsetfields.St.set_j (VSsetfields.St.set_found s 0) 0 with hs2
  have hi2 : 0 ≤ s2.i ∧ s2.i < (s2.av.length : Int) := by
    show 0 ≤ s.i ∧ s.i < (s.av.length : Int)
    rw [a1, E.hav, I.hi]; simp [avRows, E.hpl]; omega
  have hrow2 : s2.av.getD (Int.toNat s2.i) [] = chars nm ++ 0 :: pads.getD fs.length [] := by
    show s.av.getD (Int.toNat s.i) [] = _
    rw [a1, E.hav, I.hi, hnm]
    have := avRows_getD names pads E.hpl fs.length hk
    simpa using this
  have hp2 : P2 usym nm (pads.getD fs.length []) s2 :=
    ⟨⟨h1, h2, h3⟩, hrow2, hi2, by show s.vs_usym_name = _; rw [a3, E.u1], by show s.vs_nusym = _; rw [a7, E.hnu], by show (0 : Int) ≤ 0; omega⟩
  have hscan := l2_scan usym (fun sd h => (E.hus sd h).2) nm hnmok (pads.getD fs.length []) fuel s2 hf hp2 rfl
    (by intro d' f' hd'; rw [hd] at hd'; cases hd')
  rw [hd] at hscan
  simp only at hscan
  have hbody : VSsetfields.loop1.body fuel s = l1B fuel (VSsetfields.St.set_brk (VSsetfields.loop2 fuel s2) false) := by
    rw [loop1_body_pieces]; rfl
  rw [hbody, hscan]
  set s4 : VSsetfields.St := VSsetfields.St.set_brk { s2 with j := (usym.length : Int) } false with hs4
  rw [l1B_scan fuel s4 ⟨h1, rfl, h3⟩ rfl]
  set s5 : VSsetfields.St := { s4 with j := 0 } with hs5
  have hp3 : P3 nm (pads.getD fs.length []) s5 := ⟨⟨h1, rfl, h3⟩, hrow2, hi2, by show (0 : Int) ≤ 0; omega⟩
  unfold goStep
  rw [hfind]
  simp only
  cases hd3 : (rstab.map (·.name)).findIdx? (· == nm) with
  | none =>
    have hfind3 : rstab.find? (·.name == nm) = none := by
      rw [find_findIdx, ← findIdx_map_name, hd3]; rfl
    rw [hfind3]
    simp only
    have hscan3 := l3_scan nm hnmok (pads.getD fs.length []) fuel s5 hf9 hp3 rfl (by intro d' f' hd'; rw [hd3] at hd'; cases hd')
    rw [hd3] at hscan3
    simp only at hscan3
    rw [hscan3, l1C_notfound _ (VSsetfields.St.set_brk ({ s5 with j := 9 } : VSsetfields.St) false) ⟨h1, rfl, h3⟩ rfl]
    exact ⟨rfl, rfl, h3, rfl, I.fr, I.hub, I.hoof⟩
  | some d =>
    have hdlt : d < 9 := by
      have := (List.findIdx?_eq_some_iff_getElem.mp hd3).1
      simpa [rstab_rows.2.2.2.2.1] using this
    have hfind3 : rstab.find? (·.name == nm) = some (rstab.getD d default) := by
      rw [find_findIdx, ← findIdx_map_name, hd3]; rfl
    obtain ⟨⟨ho, nt, hnt, his⟩, hlt65⟩ := rstab_valid (rstab.getD d default) (by
      have : d < rstab.length := by rw [rstab_rows.2.2.2.2.1]; exact hdlt
      simp [this])
    rw [hfind3]
    simp only [hnt, hM]
    have hrun : ∀ f', _ := fun f' => l3A_run f' { s5 with j := s5.j + (d : Int) } ⟨h1, rfl, h3⟩ names.length fs.length d iv nt
      (by show s.vs_wlist_n = _; exact I.hn) hk (by show s.vs_wlist_type_i = 0; rw [b1, E.c1])
      (by show s.vs_wlist_isize_i = _; rw [b3, E.c3]) (by show s.vs_wlist_order_i = _; rw [b4, E.c4])
      (by show s.vs_wlist_esize_i = _; rw [b5, E.c5]) I.hbl I.hnl (by show (0 : Int) + d = d; omega) hdlt hnt I.hiv
    have hexits : ∀ d' f', (rstab.map (·.name)).findIdx? (· == nm) = some d' →
        (l3A f' { s5 with j := s5.j + (d' : Int) }).gto = true ∨ (l3A f' { s5 with j := s5.j + (d' : Int) }).brk = true := by
      intro d' f' hd'
      have : d' = d := by rw [hd3] at hd'; exact (Option.some.inj hd').symm
      subst this
      have hr := hrun f'
      split at hr
      · exact Or.inl hr.1
      · rw [hr]; exact Or.inr rfl
    have hscan3 := l3_scan nm hnmok (pads.getD fs.length []) fuel s5 hf9 hp3 rfl hexits
    rw [hd3] at hscan3
    obtain ⟨f', hl3⟩ := hscan3
    rw [hl3]
    have hr := hrun f'
    by_cases c : iv + (rstab.getD d default).order * (rstab.getD d default).isize % 65536 > 65535
    · rw [if_pos c] at hr
      obtain ⟨g1, g2, g3, g4, g5, g6⟩ := hr
      rw [if_pos c]
      simp only
      have hT : (VSsetfields.St.set_brk (VSsetfields.St.set_cnt (l3A f' { s5 with j := s5.j + (d : Int) }) false) false).gto = true := g1
      rw [l1C_gto _ _ hT]
      exact ⟨g1, rfl, rfl, g3, (show sfFrame (l3A f' { s5 with j := s5.j + (d : Int) }) = _ from g4).trans I.fr, g5.trans I.hub, g6.trans I.hoof⟩
    · rw [if_neg c] at hr
      rw [if_neg c]
      simp only
      have hT1 : (VSsetfields.St.set_brk (VSsetfields.St.set_cnt (l3A f' { s5 with j := s5.j + (d : Int) }) false) false).found = 1 := by
        show (l3A f' _).found = 1; rw [hr]
      have hT2 : (VSsetfields.St.set_brk (VSsetfields.St.set_cnt (l3A f' { s5 with j := s5.j + (d : Int) }) false) false).gto = false := by
        show (l3A f' _).gto = false; rw [hr]; exact h1
      rw [l1C_found _ _ ⟨hT2, rfl, rfl⟩ hT1, hr]
      refine binv_extend I hk _ _ (by omega) _ rfl ⟨h1, rfl, rfl⟩ rfl rfl rfl rfl (by show (fs.length : Int) + 1 = s.vs_wlist_n + 1; rw [I.hn]) rfl ?_ rfl
      show _ = (((s.vs_wlist_bptr.set fs.length ((rstab.getD d default).type : Int)).set (3 * names.length + fs.length) ((rstab.getD d default).order : Int)).set
        (4 * names.length + fs.length) (((rstab.getD d default).order * nt.nsz % 65536 : Nat) : Int)).set (2 * names.length + fs.length) (((rstab.getD d default).order * (rstab.getD d default).isize % 65536 : Nat) : Int)
      have : (((rstab.getD d default).order * nt.nsz : Nat) : Int) % 65536 = (((rstab.getD d default).order * nt.nsz % 65536 : Nat) : Int) := by omega
      rw [← this]
end H4.Lemmas.C07Fld
