import H4.Lemmas.C08Fn4
/-! Lemmas for `H4.Props.C08Fn3`, part 3: every phase of the translated `vunpackvg` on a state without undefined behaviour, with the
    state it leaves (explicit), cumulated to `body9_ok` (nvelt .. exref) and the three outcomes of the version-4 block.  Core only. -/
set_option linter.unusedSimpArgs false
set_option linter.unusedVariables false
namespace H4.Lemmas.C08Fn3
open H4 H4.VGroup H4.Gen.Hdf H4.Gen.Fn.Vgp3 H4.C2L
open H4.Lemmas.C08Fn (bytesI bytesI_length bytesI_nil bytesI_cons bytesI_append)

/-! ## the phases on a state without undefined behaviour -/

def be16N (B : List Int) (p : Nat) : Nat := (be16 B p).toNat

theorem be16_eq (B : List Int) (p : Nat) : be16 B p = (be16N B p : Int) := by
  have h1 := b8_range B p
  have h2 := b8_range B (p + 1)
  simp only [be16N, be16]; omega

theorem be16N_lt (B : List Int) (p : Nat) : be16N B p < 65536 := by
  have h1 := b8_range B p
  have h2 := b8_range B (p + 1)
  simp only [be16N, be16]; omega

/-- `(int16)x` of a `uint16` -/
def w16 (x : Int) : Int := (x + 32768) % 65536 - 32768

/-- the state after the preamble: version and more read from `buf[len-5 ..]`, cursor back at 0 -/
def SPre (B : List Int) (L : Nat) (s : St) : St :=
  ((((s.set_ret_value 0).set_uint16var (be16 B (L - 3))).set_vg_version (w16 (be16 B (L - 5)))).set_vg_more (w16 (be16 B (L - 3)))).set_bb 0

theorem phPre_ok (B : List Int) (L : Nat) (s : St) (hb : s.buf = B) (hlen : s.len = L) (h5 : 5 ≤ L) (hL : L ≤ B.length)
    (hub : s.ub = false) (hoof : s.oof = false) (hd : s.done = false) (hg : s.gto = false) :
    phPre s = SPre B L s ∧ Ok B (SPre B L s) 0 := by
  refine ⟨?_, ⟨hb, rfl, hub, hoof, hd, hg⟩⟩
  have o0 : Ok B (phPre0 s) (L - 5) := ⟨hb, by show s.len - 5 = _; rw [hlen]; omega, hub, hoof, hd, hg⟩
  obtain ⟨q1, o1⟩ := dec16v_ok o0 (by omega)
  have e1 : phVer (phPre0 s) = (((phPre0 s).set_uint16var (be16 B (L - 5))).set_bb ((L - 5 + 2 : Nat) : Int)).set_vg_version (w16 (be16 B (L - 5))) := by
    simp only [phVer]; rw [q1]; rfl
  have o1' : Ok B (phVer (phPre0 s)) (L - 5 + 2) := by rw [e1]; exact ⟨hb, rfl, hub, hoof, hd, hg⟩
  obtain ⟨q2, o2⟩ := dec16v_ok o1' (by omega)
  have e2 : L - 5 + 2 = L - 3 := by omega
  simp only [phPre, phMore]
  rw [q2, e1, e2]
  rfl

theorem guard_ok {B s p} (h : Ok B s p) (f : St → St) : guard s f = f s := by
  simp only [guard, h.done, h.gto]; simp

/-- `nvelt`, `msize` and the two member arrays (fresh, indeterminate content) -/
def SA (B : List Int) (s : St) : St :=
  ((((((s.set_vg_nvelt (be16N B 0)).set_vg_msize ((max (be16N B 0) 64 : Nat) : Int)).set_vg_tag (List.replicate (max (be16N B 0) 64) 170)).set_vg_tag_null
    false).set_vg_ref (List.replicate (max (be16N B 0) 64) 170)).set_vg_ref_null false).set_bb 2

theorem phA_ok {B s} (h : Ok B s 0) (hl : 2 ≤ B.length) : phA s = SA B s ∧ Ok B (SA B s) 2 := by
  refine ⟨?_, ⟨h.buf, rfl, h.ub, h.oof, h.done, h.gto⟩⟩
  obtain ⟨q, _⟩ := dec16s_ok (·.vg_nvelt) vunpackvg.St.set_vg_nvelt
    (fun _ => ⟨fun _ => rfl, fun _ => rfl, fun _ => rfl, fun _ => rfl, fun _ => rfl, fun _ => rfl⟩) (fun _ _ => rfl) (fun _ _ _ => rfl) h hl
  have hn := be16N_lt B 0
  simp only [phA]
  rw [q, be16_eq]
  generalize hs1 : vunpackvg.St.set_bb (vunpackvg.St.set_vg_nvelt s ((be16N B 0 : Nat) : Int)) ((0 + 2 : Nat) : Int) = s1
  have n1 : s1.vg_nvelt = (be16N B 0 : Nat) := by rw [← hs1]
  have m1 : (if (s1.vg_nvelt > ((64) % 4294967296)) then s1.vg_nvelt else 64) = ((max (be16N B 0) 64 : Nat) : Int) := by
    rw [n1]; split <;> omega
  rw [m1]
  have c : ¬ ((((((((max (be16N B 0) 64 : Nat) : Int)) % 18446744073709551616) * 2)) % 18446744073709551616) > 9223372036854775807) := by omega
  have t : Int.toNat (Int.tdiv (((((((max (be16N B 0) 64 : Nat) : Int)) % 18446744073709551616) * 2)) % 18446744073709551616) 2) = max (be16N B 0) 64 := by
    rw [Int.tdiv_eq_ediv_of_nonneg (by omega)]; omega
  simp only [vunpackvg.St.set_vg_msize, vunpackvg.St.set_vg_tag, vunpackvg.St.set_vg_tag_null, vunpackvg.St.set_vg_ref, vunpackvg.St.set_vg_ref_null,
    c, t, if_false, decide_false, Bool.false_eq_true, false_or]
  rw [← hs1]
  rfl

theorem phTags_ok {B s p} (h : Ok B s p) (m fuel : Nat) (hn : s.vg_nvelt = (m : Int)) (hm : m < 4294967296)
    (hl : p + 2 * m ≤ B.length) (ht : m ≤ s.vg_tag.length) (hf : m ≤ fuel) :
    phTags fuel s = F0 B (s.set_u 0) p m ∧ Ok B (F0 B (s.set_u 0) p m) (p + 2 * m) := by
  have o : Ok B (s.set_u 0) p := ⟨h.buf, h.bb, h.ub, h.oof, h.done, h.gto⟩
  have := loop0_ok o m fuel rfl hn hm hl ht hf
  rw [phTags, guard_ok h]
  exact this

theorem phRefs_ok {B s p} (h : Ok B s p) (m fuel : Nat) (hn : s.vg_nvelt = (m : Int)) (hm : m < 4294967296)
    (hl : p + 2 * m ≤ B.length) (ht : m ≤ s.vg_ref.length) (hf : m ≤ fuel) :
    phRefs fuel s = F1 B (s.set_u 0) p m ∧ Ok B (F1 B (s.set_u 0) p m) (p + 2 * m) := by
  have o : Ok B (s.set_u 0) p := ⟨h.buf, h.bb, h.ub, h.oof, h.done, h.gto⟩
  have := loop1_ok o m fuel rfl hn hm hl ht hf
  rw [phRefs, guard_ok h]
  exact this

theorem phLen_ok {B s p} (h : Ok B s p) (hl : p + 2 ≤ B.length) :
    phLen s = (s.set_uint16var (be16 B p)).set_bb ((p + 2 : Nat) : Int) ∧
      Ok B ((s.set_uint16var (be16 B p)).set_bb ((p + 2 : Nat) : Int)) (p + 2) := by
  rw [phLen, guard_ok h]
  exact dec16v_ok h hl

/-- the C string that `HIstrncpy` leaves in a fresh block of `l + 1` cells: the bytes before the first NUL among the `l` bytes at
    `p`, the NUL, the indeterminate rest -/
def strAt (B : List Int) (p l : Nat) : List Int :=
  ((B.drop p).take l).takeWhile (· ≠ 0) ++ 0 :: List.replicate (l - (((B.drop p).take l).takeWhile (· ≠ 0)).length) 170

/-- the state after a name / class block whose length prefix is `l` -/
def SStr (setnull : St → Bool → St) (setreg : St → List Int → St) (B : List Int) (s : St) (p l : Nat) : St :=
  if l = 0 then setnull s true else vunpackvg.St.set_bb (setnull (setreg s (strAt B p l)) false) ((p + l : Nat) : Int)

theorem SStr_ok (setnull : St → Bool → St) (setreg : St → List Int → St) (fn : ∀ b, Frame (setnull · b)) (fr : ∀ x, Frame (setreg · x))
    {B s p} (h : Ok B s p) (l : Nat) : Ok B (SStr setnull setreg B s p l) (p + l) := by
  simp only [SStr]
  split
  · rename_i h0; subst h0; exact h.frame (fn _)
  · exact ((h.frame (fr _)).frame (fn _)).move _

theorem phName_ok {B s p} (h : Ok B s p) (l : Nat) (hu : s.uint16var = l) (hlt : l < 65536) (hl : p + l ≤ B.length) :
    phName s = SStr vunpackvg.St.set_vg_vgname_null vunpackvg.St.set_vg_vgname B s p l := by
  rw [phName, guard_ok h]
  simp only [SStr]
  split
  · rename_i h0
    simp only [pstr, hu, h0]
    rfl
  · exact pstr_ok vunpackvg.St.set_vg_vgname_null (·.vg_vgname) vunpackvg.St.set_vg_vgname
      (fun _ => ⟨fun _ => rfl, fun _ => rfl, fun _ => rfl, fun _ => rfl, fun _ => rfl, fun _ => rfl⟩)
      (fun _ => ⟨fun _ => rfl, fun _ => rfl, fun _ => rfl, fun _ => rfl, fun _ => rfl, fun _ => rfl⟩)
      (fun _ _ => rfl) (fun _ _ => rfl) (fun _ _ => rfl) (fun _ _ => rfl) (fun _ _ _ _ => rfl) h l hu (by omega) hlt hl

theorem phClass_ok {B s p} (h : Ok B s p) (l : Nat) (hu : s.uint16var = l) (hlt : l < 65536) (hl : p + l ≤ B.length) :
    phClass s = SStr vunpackvg.St.set_vg_vgclass_null vunpackvg.St.set_vg_vgclass B s p l := by
  rw [phClass, guard_ok h]
  simp only [SStr]
  split
  · rename_i h0
    simp only [pstr, hu, h0]
    rfl
  · exact pstr_ok vunpackvg.St.set_vg_vgclass_null (·.vg_vgclass) vunpackvg.St.set_vg_vgclass
      (fun _ => ⟨fun _ => rfl, fun _ => rfl, fun _ => rfl, fun _ => rfl, fun _ => rfl, fun _ => rfl⟩)
      (fun _ => ⟨fun _ => rfl, fun _ => rfl, fun _ => rfl, fun _ => rfl, fun _ => rfl, fun _ => rfl⟩)
      (fun _ _ => rfl) (fun _ _ => rfl) (fun _ _ => rfl) (fun _ _ => rfl) (fun _ _ _ _ => rfl) h l hu (by omega) hlt hl

theorem phExtag_ok {B s p} (h : Ok B s p) (hl : p + 2 ≤ B.length) :
    phExtag s = (s.set_vg_extag (be16 B p)).set_bb ((p + 2 : Nat) : Int) ∧
      Ok B ((s.set_vg_extag (be16 B p)).set_bb ((p + 2 : Nat) : Int)) (p + 2) := by
  rw [phExtag, guard_ok h]
  exact dec16s_ok (·.vg_extag) vunpackvg.St.set_vg_extag
    (fun _ => ⟨fun _ => rfl, fun _ => rfl, fun _ => rfl, fun _ => rfl, fun _ => rfl, fun _ => rfl⟩) (fun _ _ => rfl) (fun _ _ _ => rfl) h hl

theorem phExref_ok {B s p} (h : Ok B s p) (hl : p + 2 ≤ B.length) :
    phExref s = (s.set_vg_exref (be16 B p)).set_bb ((p + 2 : Nat) : Int) ∧
      Ok B ((s.set_vg_exref (be16 B p)).set_bb ((p + 2 : Nat) : Int)) (p + 2) := by
  rw [phExref, guard_ok h]
  exact dec16s_ok (·.vg_exref) vunpackvg.St.set_vg_exref
    (fun _ => ⟨fun _ => rfl, fun _ => rfl, fun _ => rfl, fun _ => rfl, fun _ => rfl, fun _ => rfl⟩) (fun _ _ => rfl) (fun _ _ _ => rfl) h hl

/-! ## positions of the fields of a record (functions of the buffer; meaningful when inside it) -/

/-- `nvelt` -/
def nvN (B : List Int) : Nat := be16N B 0
/-- position of the name's length prefix -/
def pN (B : List Int) : Nat := 2 + 4 * nvN B
def lN (B : List Int) : Nat := be16N B (pN B)
/-- position of the class's length prefix -/
def pC (B : List Int) : Nat := pN B + 2 + lN B
def lC (B : List Int) : Nat := be16N B (pC B)
/-- position of `extag` -/
def pE (B : List Int) : Nat := pC B + 2 + lC B

def Sb2 (B : List Int) (s : St) : St := F0 B ((SA B s).set_u 0) 2 (nvN B)
def Sb3 (B : List Int) (s : St) : St := F1 B ((Sb2 B s).set_u 0) (2 + 2 * nvN B) (nvN B)
def Sb4 (B : List Int) (s : St) : St := ((Sb3 B s).set_uint16var (be16 B (pN B))).set_bb ((pN B + 2 : Nat) : Int)
def Sb5 (B : List Int) (s : St) : St := SStr vunpackvg.St.set_vg_vgname_null vunpackvg.St.set_vg_vgname B (Sb4 B s) (pN B + 2) (lN B)
def Sb6 (B : List Int) (s : St) : St := ((Sb5 B s).set_uint16var (be16 B (pC B))).set_bb ((pC B + 2 : Nat) : Int)
def Sb7 (B : List Int) (s : St) : St := SStr vunpackvg.St.set_vg_vgclass_null vunpackvg.St.set_vg_vgclass B (Sb6 B s) (pC B + 2) (lC B)
def Sb8 (B : List Int) (s : St) : St := ((Sb7 B s).set_vg_extag (be16 B (pE B))).set_bb ((pE B + 2 : Nat) : Int)
/-- the state after `exref` -/
def Sb9 (B : List Int) (s : St) : St := ((Sb8 B s).set_vg_exref (be16 B (pE B + 2))).set_bb ((pE B + 2 + 2 : Nat) : Int)

theorem frameN : ∀ b, Frame (vunpackvg.St.set_vg_vgname_null · b) := fun _ => ⟨fun _ => rfl, fun _ => rfl, fun _ => rfl, fun _ => rfl, fun _ => rfl, fun _ => rfl⟩
theorem frameNr : ∀ x, Frame (vunpackvg.St.set_vg_vgname · x) := fun _ => ⟨fun _ => rfl, fun _ => rfl, fun _ => rfl, fun _ => rfl, fun _ => rfl, fun _ => rfl⟩
theorem frameC : ∀ b, Frame (vunpackvg.St.set_vg_vgclass_null · b) := fun _ => ⟨fun _ => rfl, fun _ => rfl, fun _ => rfl, fun _ => rfl, fun _ => rfl, fun _ => rfl⟩
theorem frameCr : ∀ x, Frame (vunpackvg.St.set_vg_vgclass · x) := fun _ => ⟨fun _ => rfl, fun _ => rfl, fun _ => rfl, fun _ => rfl, fun _ => rfl, fun _ => rfl⟩

/-- **nvelt .. exref**: when the record reaches to the end of `exref` (`pE B + 4 ≤ |B|`: every earlier field is then inside too) the
    translated code reads them without undefined behaviour -/
theorem body9_ok {B s} (h : Ok B s 0) (fuel : Nat) (hb : pE B + 4 ≤ B.length) (hf : nvN B ≤ fuel) :
    phExref (phExtag (phClass (phLen (phName (phLen (phRefs fuel (phTags fuel (phA s)))))))) = Sb9 B s ∧ Ok B (Sb9 B s) (pE B + 4) := by
  have hn := be16N_lt B 0
  have hln := be16N_lt B (pN B)
  have hlc := be16N_lt B (pC B)
  have hpos : pN B = 2 + 4 * nvN B ∧ pC B = pN B + 2 + lN B ∧ pE B = pC B + 2 + lC B := ⟨rfl, rfl, rfl⟩
  have hnv : nvN B = be16N B 0 := rfl
  obtain ⟨q1, o1⟩ := phA_ok h (by omega)
  obtain ⟨q2, o2⟩ := phTags_ok o1 (nvN B) fuel rfl (by omega) (by omega) (by show nvN B ≤ (List.replicate _ _).length; rw [List.length_replicate, hnv]; omega) hf
  obtain ⟨q3, o3⟩ := phRefs_ok o2 (nvN B) fuel rfl (by omega) (by omega) (by show nvN B ≤ (List.replicate _ _).length; rw [List.length_replicate, hnv]; omega) hf
  have e3 : 2 + 2 * nvN B + 2 * nvN B = pN B := by omega
  rw [e3] at o3
  obtain ⟨q4, o4⟩ := phLen_ok o3 (by omega)
  have q5 := phName_ok o4 (lN B) (be16_eq B (pN B)) hln (by omega)
  have o5 := SStr_ok vunpackvg.St.set_vg_vgname_null vunpackvg.St.set_vg_vgname frameN frameNr o4 (lN B)
  have e5 : pN B + 2 + lN B = pC B := rfl
  rw [e5] at o5
  obtain ⟨q6, o6⟩ := phLen_ok o5 (by omega)
  have q7 := phClass_ok o6 (lC B) (be16_eq B (pC B)) hlc (by omega)
  have o7 := SStr_ok vunpackvg.St.set_vg_vgclass_null vunpackvg.St.set_vg_vgclass frameC frameCr o6 (lC B)
  have e7 : pC B + 2 + lC B = pE B := rfl
  rw [e7] at o7
  obtain ⟨q8, o8⟩ := phExtag_ok o7 (by omega)
  obtain ⟨q9, o9⟩ := phExref_ok o8 (by omega)
  refine ⟨?_, o9⟩
  rw [q1, q2, q3, q4, q5, q6, q7, q8, q9]
  rfl

/-! ## the version-4 fields, the epilogue, the whole function -/

def be32N (B : List Int) (p : Nat) : Nat := (be32 B p).toNat

theorem be32_eq (B : List Int) (p : Nat) : be32 B p = (be32N B p : Int) := by
  have h1 := b8_range B p
  have h2 := b8_range B (p + 1)
  have h3 := b8_range B (p + 2)
  have h4 := b8_range B (p + 3)
  simp only [be32N, be32]; omega

theorem be32N_lt (B : List Int) (p : Nat) : be32N B p < 4294967296 := by
  have h1 := b8_range B p
  have h2 := b8_range B (p + 1)
  have h3 := b8_range B (p + 2)
  have h4 := b8_range B (p + 3)
  simp only [be32N, be32]; omega

/-- `flags & VG_ATTR_SET` as the translated code tests it -/
theorem attr_bit (f : Nat) (hf : f < 4294967296) : (andU (f : Int) (((1 : Int) % 4294967296)) ≠ 0) ↔ f % 2 = 1 := by
  have e1 : Int.toNat ((f : Int) % 4294967296) = f := by omega
  have e2 : Int.toNat ((((1 : Int) % 4294967296)) % 4294967296) = 1 := by decide
  simp only [andU, e1, e2, Int.ofNat_eq_natCast, Nat.and_one_is_mod]
  omega

theorem phV4_old {B s p} (h : Ok B s p) (fuel : Nat) (hv : s.vg_version ≠ 4) : phV4 fuel s = s := by
  rw [phV4, guard_ok h]; exact if_neg hv

/-- version 4 without `VG_ATTR_SET`: only the flags word -/
theorem phV4_flags {B s p} (h : Ok B s p) (fuel : Nat) (hv : s.vg_version = 4) (hl : p + 4 ≤ B.length) (ha : be32N B p % 2 = 0) :
    phV4 fuel s = (s.set_vg_flags (be32 B p)).set_bb ((p + 4 : Nat) : Int) ∧
      Ok B ((s.set_vg_flags (be32 B p)).set_bb ((p + 4 : Nat) : Int)) (p + 4) := by
  obtain ⟨q, o⟩ := decFlags_ok h hl
  refine ⟨?_, o⟩
  rw [phV4, guard_ok h]
  simp only [if_pos hv]
  rw [q]
  have : ¬ (andU ((vunpackvg.St.set_vg_flags s (be32 B p)).set_bb ((p + 4 : Nat) : Int)).vg_flags (((1 : Int) % 4294967296)) ≠ 0) := by
    show ¬ (andU (be32 B p) _ ≠ 0)
    rw [be32_eq, attr_bit _ (be32N_lt B p)]; omega
  rw [if_neg this]

/-- the state before the attribute loop: flags, `nattrs = na`, two fresh arrays of `na` cells, `i = 0`, cursor behind `nattrs` -/
def SAlloc (B : List Int) (s : St) (p na : Nat) : St :=
  vunpackvg.St.set_i (vunpackvg.St.set_vg_alist_null (vunpackvg.St.set_vg_alist_aref (vunpackvg.St.set_vg_alist_atag
    (vunpackvg.St.set_bb (vunpackvg.St.set_vg_nattrs (vunpackvg.St.set_bb (vunpackvg.St.set_vg_flags s (be32 B p)) ((p + 4 : Nat) : Int)) (na : Int))
      ((p + 8 : Nat) : Int)) (List.replicate na 170)) (List.replicate na 170)) false) 0

/-- the state after the attribute list of `na` pairs that starts at `p + 8` (`p` = position of the flags word) -/
def SAttr (B : List Int) (s : St) (p na : Nat) : St := F2 B (SAlloc B s p na) (p + 8) na

/-- version 4 with `VG_ATTR_SET` and a non-negative `nattrs` whose pairs are inside the buffer -/
theorem phV4_attrs {B s p} (h : Ok B s p) (fuel : Nat) (hv : s.vg_version = 4) (ha : be32N B p % 2 = 1)
    (hna : be32N B (p + 4) < 2147483648) (hl : p + 8 + 4 * be32N B (p + 4) ≤ B.length) (hf : be32N B (p + 4) ≤ fuel) :
    phV4 fuel s = SAttr B s p (be32N B (p + 4)) ∧ Ok B (SAttr B s p (be32N B (p + 4))) (p + 8 + 4 * be32N B (p + 4)) := by
  obtain ⟨q, o⟩ := decFlags_ok h (by omega)
  obtain ⟨q2, o2⟩ := decNattrs_ok o (by omega)
  have e8 : p + 4 + 4 = p + 8 := by omega
  rw [e8] at q2 o2
  have s32 : S32 (be32 B (p + 4)) = (be32N B (p + 4) : Int) := by
    rw [be32_eq]; simp only [S32]; split <;> omega
  rw [s32] at q2 o2
  have q3 := allocAlist_ok (vunpackvg.St.set_bb (vunpackvg.St.set_vg_nattrs (vunpackvg.St.set_bb (vunpackvg.St.set_vg_flags s (be32 B p)) ((p + 4 : Nat) : Int))
    (be32N B (p + 4) : Int)) ((p + 8 : Nat) : Int)) (be32N B (p + 4)) rfl hna
  have o3 : Ok B (SAlloc B s p (be32N B (p + 4))) (p + 8) := ⟨h.buf, rfl, h.ub, h.oof, h.done, h.gto⟩
  obtain ⟨q4, o4⟩ := loop2_ok o3 (be32N B (p + 4)) fuel rfl rfl hl
    (by show _ ≤ (List.replicate _ _).length; simp) (by show _ ≤ (List.replicate _ _).length; simp) hf
  refine ⟨?_, o4⟩
  rw [phV4, guard_ok h]
  simp only [if_pos hv]
  rw [q]
  have : (andU ((vunpackvg.St.set_vg_flags s (be32 B p)).set_bb ((p + 4 : Nat) : Int)).vg_flags (((1 : Int) % 4294967296)) ≠ 0) := by
    show (andU (be32 B p) _ ≠ 0)
    rw [be32_eq, attr_bit _ (be32N_lt B p)]; omega
  rw [if_pos this]
  simp only [phAttrs]
  rw [q2, q3]
  have og : Ok B (vunpackvg.St.set_vg_alist_null (vunpackvg.St.set_vg_alist_aref (vunpackvg.St.set_vg_alist_atag
    (vunpackvg.St.set_bb (vunpackvg.St.set_vg_nattrs (vunpackvg.St.set_bb (vunpackvg.St.set_vg_flags s (be32 B p)) ((p + 4 : Nat) : Int)) (be32N B (p + 4) : Int))
      ((p + 8 : Nat) : Int)) (List.replicate (be32N B (p + 4)) 170)) (List.replicate (be32N B (p + 4)) 170)) false) (p + 8) :=
    ⟨h.buf, rfl, h.ub, h.oof, h.done, h.gto⟩
  rw [guard_ok og]
  exact q4

/-- version 4 with `VG_ATTR_SET` and a NEGATIVE `nattrs`: the allocation of `(size_t)nattrs * 4` bytes fails, `ret_value = FAIL` -/
theorem phV4_fail {B s p} (h : Ok B s p) (fuel : Nat) (hv : s.vg_version = 4) (ha : be32N B p % 2 = 1) (hl : p + 8 ≤ B.length)
    (hna : 2147483648 ≤ be32N B (p + 4)) :
    (phV4 fuel s).ub = false ∧ (phV4 fuel s).oof = false ∧ (phV4 fuel s).done = false ∧ (phV4 fuel s).ret_value = -1 := by
  obtain ⟨q, o⟩ := decFlags_ok h (by omega)
  obtain ⟨q2, o2⟩ := decNattrs_ok o (by omega)
  have hlt := be32N_lt B (p + 4)
  have s32 : S32 (be32 B (p + 4)) = (be32N B (p + 4) : Int) - 4294967296 := by
    rw [be32_eq]; simp only [S32]; split <;> omega
  rw [s32] at q2 o2
  have q3 := allocAlist_fail (vunpackvg.St.set_bb (vunpackvg.St.set_vg_nattrs (vunpackvg.St.set_bb (vunpackvg.St.set_vg_flags s (be32 B p)) ((p + 4 : Nat) : Int))
    ((be32N B (p + 4) : Int) - 4294967296)) ((p + 4 + 4 : Nat) : Int))
    (by show (be32N B (p + 4) : Int) - 4294967296 < 0; omega) (by show -2147483648 ≤ (be32N B (p + 4) : Int) - 4294967296; omega)
  rw [phV4, guard_ok h]
  simp only [if_pos hv]
  rw [q]
  have : (andU ((vunpackvg.St.set_vg_flags s (be32 B p)).set_bb ((p + 4 : Nat) : Int)).vg_flags (((1 : Int) % 4294967296)) ≠ 0) := by
    show (andU (be32 B p) _ ≠ 0)
    rw [be32_eq, attr_bit _ (be32N_lt B p)]; omega
  rw [if_pos this]
  simp only [phAttrs]
  rw [q2, q3]
  refine ⟨?_, ?_, ?_, ?_⟩
  · simp only [guard, vunpackvg.St.set_gto]; simp; exact h.ub
  · simp only [guard, vunpackvg.St.set_gto]; simp; exact h.oof
  · simp only [guard, vunpackvg.St.set_gto]; simp; exact h.done
  · simp only [guard, vunpackvg.St.set_gto]; simp

theorem phEpi_ok (s : St) (hd : s.done = false) : phEpi s = ((s.set_gto false).set_ret s.ret_value).set_done true := by
  simp only [phEpi, hd]; rfl

end H4.Lemmas.C08Fn3
