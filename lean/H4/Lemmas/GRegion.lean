import H4.GRegion
import H4.Lemmas.Slab
import H4.Lemmas.Interlace
/-! Helper lemmas for the region part of C09 (`H4/GRegion.lean`); the property theorems are in
    `H4/Props/C09Region.lean`. Core tactics only. -/
namespace H4.GRegion
open H4.Slab H4.Interlace

/-! ## `writeAt` on concatenations -/

theorem writeAt_append {α} : ∀ (o1 : List Nat) (v1 : List α) (o2 : List Nat) (v2 : List α) (img : List α),
    o1.length = v1.length → writeAt img (o1 ++ o2) (v1 ++ v2) = writeAt (writeAt img o1 v1) o2 v2 := by
  intro o1
  induction o1 with
  | nil => intro v1 o2 v2 img h; cases v1 <;> simp_all [writeAt]
  | cons o os ih =>
    intro v1 o2 v2 img h
    cases v1 with
    | nil => simp at h
    | cons v vs => simp only [List.cons_append, writeAt]; exact ih vs o2 v2 _ (by simpa using h)

/-- overwriting a run of fill pixels that follows a prefix -/
theorem writeAt_range'_replicate {α} (f : α) : ∀ (vs : List α) (pre : List α) (m : Nat),
    writeAt (pre ++ List.replicate (vs.length + m) f) (List.range' pre.length vs.length) vs
      = pre ++ vs ++ List.replicate m f := by
  intro vs
  induction vs with
  | nil => intro pre m; simp [writeAt]
  | cons v vs ih =>
    intro pre m
    simp only [List.length_cons, List.range'_succ, writeAt]
    have h1 : (pre ++ List.replicate (vs.length + 1 + m) f).set pre.length v
        = (pre ++ [v]) ++ List.replicate (vs.length + m) f := by
      have : vs.length + 1 + m = (vs.length + m) + 1 := by omega
      rw [this, List.replicate_succ]
      simp
    rw [h1]
    have := ih (pre ++ [v]) m
    simp only [List.length_append, List.length_cons, List.length_nil] at this
    rw [this]; simp

/-! ## the `Hwrite` trace: `render` is `writeAt` into an all-fill element -/

theorem render_length {α} (f : α) : ∀ segs : List (Seg α), (render f segs).length = slen segs := by
  intro segs
  induction segs with
  | nil => rfl
  | cons s r ih => cases s <;> simp [render, slen, Seg.len, ih]

theorem slen_append {α} (a b : List (Seg α)) : slen (a ++ b) = slen a + slen b := by
  induction a with
  | nil => simp [slen]
  | cons s r ih => simp [slen, ih]; omega

theorem render_append {α} (f : α) (a b : List (Seg α)) : render f (a ++ b) = render f a ++ render f b := by
  induction a with
  | nil => simp [render]
  | cons s r ih => cases s <;> simp [render, ih]

theorem dvals_append {α} (a b : List (Seg α)) : dvals (a ++ b) = dvals a ++ dvals b := by
  induction a with
  | nil => simp [dvals]
  | cons s r ih => cases s <;> simp [dvals, ih]

theorem positions_append {α} : ∀ (a b : List (Seg α)) (p : Nat),
    positions p (a ++ b) = positions p a ++ positions (p + slen a) b := by
  intro a
  induction a with
  | nil => intro b p; simp [positions, slen]
  | cons s r ih =>
    intro b p
    cases s with
    | fill n => simp only [List.cons_append, positions, slen, Seg.len, ih]; congr 2; omega
    | data vs => simp only [List.cons_append, positions, slen, Seg.len, ih, List.append_assoc]; congr 3; omega

theorem positions_length {α} : ∀ (segs : List (Seg α)) (p : Nat), (positions p segs).length = (dvals segs).length := by
  intro segs
  induction segs with
  | nil => intro p; rfl
  | cons s r ih => intro p; cases s <;> simp [positions, dvals, ih]

/-- **Trace lemma.** Whatever the sequence of `Hwrite` calls, the element it produces is the all-fill element
    of the same length with the caller's pixels stored at the positions the access id had when they were written. -/
theorem render_eq_writeAt {α} (f : α) : ∀ (segs : List (Seg α)) (pre : List α),
    pre ++ render f segs
      = writeAt (pre ++ List.replicate (slen segs) f) (positions pre.length segs) (dvals segs) := by
  intro segs
  induction segs with
  | nil => intro pre; simp [render, slen, positions, dvals, writeAt]
  | cons s r ih =>
    intro pre
    cases s with
    | fill n =>
      simp only [render, slen, Seg.len, positions, dvals]
      have := ih (pre ++ List.replicate n f)
      simp only [List.length_append, List.length_replicate, List.append_assoc] at this
      rw [this, List.replicate_append_replicate]
    | data vs =>
      simp only [render, slen, Seg.len, positions, dvals]
      rw [writeAt_append _ _ _ _ _ (by simp), writeAt_range'_replicate]
      have := ih (pre ++ vs)
      simp only [List.length_append, List.append_assoc] at this
      simpa using this

theorem render_eq_writeAt' {α} (f : α) (segs : List (Seg α)) :
    render f segs = writeAt (List.replicate (slen segs) f) (positions 0 segs) (dvals segs) := by
  simpa using render_eq_writeAt f segs []

/-! ## plain path: the transfers visit exactly the selected pixels, in buffer order -/

theorem flatMap_congr' {α β} {l : List α} {f g : α → List β} (h : ∀ x ∈ l, f x = g x) : l.flatMap f = l.flatMap g := by
  induction l with
  | nil => rfl
  | cons a l ih =>
    simp only [List.flatMap_cons]
    rw [h a (by simp), ih (fun x hx => h x (by simp [hx]))]

theorem flatMap_single {α β} (f : α → β) (l : List α) : l.flatMap (fun a => [f a]) = l.map f := by
  induction l with
  | nil => rfl
  | cons a l ih => simp [ih]

/-- closed form of the pixel offsets selected by a request, in the order of the caller's buffer -/
def selOffsets (W : Nat) (r : Req) : List Nat :=
  (List.range r.cy).flatMap fun i => (List.range r.cx).map fun j => (r.sy + i * r.ty) * W + (r.sx + j * r.tx)

/-- the rank-2 instance of `Slab.scells`/`Slab.offset`: `(x, y) ↦ y·W + x` over `start + i·stride` -/
theorem scells_offsets (W H : Nat) (r : Req) :
    (scells r.start r.stride r.count).map (offset (shape W H)) = selOffsets W r := by
  simp only [scells, Req.start, Req.stride, Req.count, shape, selOffsets, List.map_flatMap, List.map_map, offset, prod,
    List.map_cons, List.map_nil, List.flatMap_cons, List.flatMap_nil, List.append_nil, Nat.mul_one, Nat.add_zero,
    List.flatMap_map]
  apply flatMap_congr'; intro i _
  rw [flatMap_single]

theorem expandRuns_cons (a : Nat × Nat) (rs : List (Nat × Nat)) :
    expandRuns (a :: rs) = List.range' a.1 a.2 ++ expandRuns rs := by simp [expandRuns]

theorem expandRuns_append (a b : List (Nat × Nat)) : expandRuns (a ++ b) = expandRuns a ++ expandRuns b := by
  simp [expandRuns]

theorem pixLoop_eq (tx : Nat) : ∀ (n off : Nat),
    expandRuns (pixLoop tx n off) = (List.range n).map (fun j => off + j * tx) := by
  intro n
  induction n with
  | zero => intro off; simp [pixLoop, expandRuns]
  | succ n ih =>
    intro off
    rw [pixLoop, expandRuns_cons, ih, List.range_succ_eq_map]
    simp only [List.range'_one, List.map_cons, List.map_map, Nat.zero_mul, Nat.add_zero, List.cons_append,
      List.nil_append, List.cons.injEq, true_and]
    apply List.map_congr_left; intro j _; simp only [Function.comp]; rw [Nat.succ_mul]; omega

theorem stridedLoop_eq (W tx ty cx : Nat) : ∀ (n off : Nat),
    expandRuns (stridedLoop W tx ty cx n off)
      = (List.range n).flatMap (fun i => (List.range cx).map (fun j => off + i * (W * ty) + j * tx)) := by
  intro n
  induction n with
  | zero => intro off; simp [stridedLoop, expandRuns]
  | succ n ih =>
    intro off
    rw [stridedLoop, expandRuns_append, pixLoop_eq, ih, List.range_succ_eq_map]
    simp only [List.flatMap_cons, List.flatMap_map, Nat.zero_mul, Nat.add_zero]
    congr 1
    apply flatMap_congr'; intro i _
    apply List.map_congr_left; intro j _; rw [Nat.succ_mul]; omega

theorem solidLoop_eq (W cx : Nat) : ∀ (n off : Nat),
    expandRuns (solidLoop W cx n off)
      = (List.range n).flatMap (fun i => (List.range cx).map (fun j => off + i * W + j)) := by
  intro n
  induction n with
  | zero => intro off; simp [solidLoop, expandRuns]
  | succ n ih =>
    intro off
    rw [solidLoop, expandRuns_cons, ih, List.range_succ_eq_map]
    simp only [List.flatMap_cons, List.flatMap_map, Nat.zero_mul, Nat.add_zero]
    congr 1
    · rw [List.range_eq_range', List.map_add_range']; simp
    · apply flatMap_congr'; intro i _
      apply List.map_congr_left; intro j _; rw [Nat.succ_mul]; omega

/-- **Addressing.** For every image width and every request (valid or not), the `Hseek`/`Hwrite|Hread`
    transfers of the plain path – whole-image fast path, one run per line of a solid block, one transfer
    per pixel when sub-sampling – touch exactly the offsets `(sy + i·ty)·W + sx + j·tx`, `i < cy`, `j < cx`,
    once each, in the order of the caller's pixel-interlaced buffer. -/
theorem ioOffsets_eq_sel (W H : Nat) (r : Req) : ioOffsets W H r = selOffsets W r := by
  unfold ioOffsets ioRuns selOffsets
  by_cases hw : r.whole W H = true
  · simp only [hw, if_true]
    simp only [Req.whole, Req.solid, Bool.and_eq_true, beq_iff_eq] at hw
    obtain ⟨⟨⟨⟨⟨htx, hty⟩, hsx⟩, hsy⟩, hcx⟩, hcy⟩ := hw
    subst hcx hcy
    rw [expandRuns_cons]
    simp only [expandRuns, List.flatMap_nil, List.append_nil, htx, hty, hsx, hsy, Nat.zero_add, Nat.mul_one]
    have := range'_block 0 r.cx r.cy
    simp only [Nat.zero_add] at this
    rw [this, Nat.mul_comm]
  · have hw' : r.whole W H = false := by simpa using hw
    simp only [hw', Bool.false_eq_true, if_false]
    by_cases hs : r.solid = true
    · simp only [hs, if_true]
      simp only [Req.solid, Bool.and_eq_true, beq_iff_eq] at hs
      rw [solidLoop_eq]
      apply flatMap_congr'; intro i _
      apply List.map_congr_left; intro j _
      simp only [imgOffset, hs.1, hs.2, Nat.mul_one]
      rw [Nat.add_mul, Nat.mul_comm W r.sy]; omega
    · have hs' : r.solid = false := by simpa using hs
      simp only [hs', Bool.false_eq_true, if_false]
      rw [stridedLoop_eq]
      apply flatMap_congr'; intro i _
      apply List.map_congr_left; intro j _
      simp only [imgOffset]
      rw [Nat.add_mul, Nat.mul_comm W r.sy, Nat.mul_comm W r.ty, ← Nat.mul_assoc]; omega

/-! ## the fill-path traces -/

theorem slen_replicate_fill {α} (n W : Nat) : slen (List.replicate n (Seg.fill W : Seg α)) = n * W := by
  induction n with
  | zero => simp [slen]
  | succ n ih => simp [List.replicate_succ, slen, Seg.len, ih, Nat.succ_mul]; omega

theorem dvals_replicate_fill {α} (n W : Nat) : dvals (List.replicate n (Seg.fill W : Seg α)) = [] := by
  induction n with
  | zero => simp [dvals]
  | succ n ih => simp [List.replicate_succ, dvals, ih]

theorem positions_replicate_fill {α} (n W : Nat) : ∀ p, positions p (List.replicate n (Seg.fill W : Seg α)) = [] := by
  induction n with
  | zero => intro p; simp [positions]
  | succ n ih => intro p; simp [List.replicate_succ, positions, ih]

theorem slen_opt_fill {α} (c : Bool) (n : Nat) : slen (opt c (Seg.fill n : Seg α)) = if c then n else 0 := by
  cases c <;> simp [opt, slen, Seg.len]

theorem dvals_opt_fill {α} (c : Bool) (n : Nat) : dvals (opt c (Seg.fill n : Seg α)) = [] := by
  cases c <;> simp [opt, dvals]

theorem positions_opt_fill {α} (c : Bool) (n p : Nat) : positions p (opt c (Seg.fill n : Seg α)) = [] := by
  cases c <;> simp [opt, positions]

/-- rows of the solid-block fill branch: pixels consumed, pixels emitted, where the caller's pixels land -/
theorem solidRows_spec {α} (cx hl : Nat) : ∀ (n : Nat) (vals : List α) (p : Nat), n * cx ≤ vals.length →
    dvals (solidRows cx hl n vals) = vals.take (n * cx) ∧
    slen (solidRows cx hl n vals) = n * cx + (n - 1) * hl ∧
    positions p (solidRows cx hl n vals)
      = (List.range n).flatMap (fun i => (List.range cx).map (fun j => p + i * (cx + hl) + j)) := by
  intro n
  induction n with
  | zero => intro vals p _; simp [solidRows, dvals, slen, positions]
  | succ n ih =>
    intro vals p hlen
    have hlen' : n * cx ≤ (vals.drop cx).length := by
      rw [List.length_drop]; rw [Nat.succ_mul] at hlen; omega
    have hcx : cx ≤ vals.length := by rw [Nat.succ_mul] at hlen; omega
    obtain ⟨ih1, ih2, ih3⟩ := ih (vals.drop cx) (p + cx + hl) hlen'
    have htake : (vals.take cx).length = cx := by simp [List.length_take]; omega
    refine ⟨?_, ?_, ?_⟩
    · simp only [solidRows, dvals, dvals_append, dvals_opt_fill, List.nil_append, ih1]
      rw [Nat.succ_mul, Nat.add_comm (n * cx) cx, List.take_add]
    · simp only [solidRows, slen, Seg.len, slen_append, slen_opt_fill, ih2, htake]
      by_cases hn : n = 0
      · subst hn; simp
      · have : n - 1 + 1 = n := by omega
        by_cases hh : 0 < hl
        · simp [hn, hh, Nat.succ_mul]
          have : n * hl = (n - 1) * hl + hl := by
            conv => lhs; rw [← this]
            rw [Nat.succ_mul]
          omega
        · have : hl = 0 := by omega
          subst this; simp [Nat.succ_mul]; omega
    · simp only [solidRows, positions, positions_append, positions_opt_fill, List.nil_append, htake, slen_opt_fill]
      rw [List.range_succ_eq_map]
      simp only [List.flatMap_cons, List.flatMap_map, Nat.zero_mul, Nat.add_zero]
      congr 1
      · rw [List.range_eq_range', List.map_add_range']; simp
      · by_cases hn : n = 0
        · subst hn; simp [solidRows, positions]
        · have hp : p + cx + (if (decide (0 < hl) && decide (n ≠ 0)) = true then hl else 0) = p + cx + hl := by
            by_cases hh : 0 < hl
            · simp [hh, hn]
            · have : hl = 0 := by omega
              subst this; simp
          rw [hp, ih3]
          apply flatMap_congr'; intro i _
          apply List.map_congr_left; intro j _
          rw [Nat.succ_mul]; omega

/-- one row of the sub-sampling fill branch -/
theorem pixRun_spec {α} (tx : Nat) (htx : 1 ≤ tx) : ∀ (l : List α) (p : Nat),
    dvals (pixRun tx l) = l ∧
    (l ≠ [] → slen (pixRun tx l) = (l.length - 1) * tx + 1) ∧
    positions p (pixRun tx l) = (List.range l.length).map (fun j => p + j * tx) := by
  intro l
  induction l with
  | nil => intro p; simp [pixRun, dvals, positions]
  | cons v t ih =>
    intro p
    cases t with
    | nil => simp [pixRun, dvals, positions, slen, Seg.len]
    | cons w vs =>
      obtain ⟨ih1, ih2, ih3⟩ := ih (p + tx)
      have hs : slen (opt (decide (1 < tx)) (Seg.fill (tx - 1) : Seg α)) = tx - 1 := by
        rw [slen_opt_fill]; by_cases h : 1 < tx
        · simp [h]
        · have : tx = 1 := by omega
          subst this; simp
      refine ⟨?_, ?_, ?_⟩
      · simp only [pixRun, dvals, dvals_append, dvals_opt_fill, List.nil_append, ih1, List.cons_append]
      · intro _
        simp only [pixRun, slen, Seg.len, slen_append, hs, ih2 (by simp), List.length_cons, List.length_nil]
        simp only [Nat.add_sub_cancel, Nat.succ_mul]
        omega
      · simp only [pixRun, positions, positions_append, positions_opt_fill, List.nil_append, hs, List.length_cons,
          List.length_nil, List.range'_one, List.cons_append]
        have : p + (0 + 1) + (tx - 1) = p + tx := by omega
        rw [this, ih3]
        rw [List.range_succ_eq_map (n := vs.length + 1)]
        simp only [List.map_cons, List.map_map, Nat.zero_mul, Nat.add_zero, List.length_cons, Nat.zero_add,
          List.range'_one, List.cons_append, List.nil_append]
        congr 1
        apply List.map_congr_left; intro j _
        simp only [Function.comp]; rw [Nat.succ_mul]; omega

/-- the "Fill in the y-dim stride lines" writes of one row (since 80405e4: only when another row follows) -/
def yLines {α} (v : Variant) (W ty n : Nat) : List (Seg α) :=
  if decide (1 < ty) && (!v.f15Fixed || decide (n ≠ 0)) then List.replicate (ty - 1) (.fill W) else []

theorem yLines_fixed {α} (v : Variant) (hv : v.f15Fixed = true) (W ty n : Nat) (hty : 1 ≤ ty) :
    slen (yLines v W ty n : List (Seg α)) = (if n = 0 then 0 else (ty - 1) * W) ∧
    dvals (yLines v W ty n : List (Seg α)) = [] ∧ ∀ p, positions p (yLines v W ty n : List (Seg α)) = [] := by
  unfold yLines
  by_cases h1 : 1 < ty <;> by_cases hn : n = 0 <;>
    simp [h1, hn, hv, slen_replicate_fill, dvals_replicate_fill, positions_replicate_fill, slen, dvals, positions]
  have : ty = 1 := by omega
  simp [this]

/-- rows of the sub-sampling fill branch (code with 80405e4) -/
theorem stridedRows_spec {α} (v : Variant) (hv : v.f15Fixed = true) (W tx ty cx hl : Nat)
    (htx : 1 ≤ tx) (hty : 1 ≤ ty) (hcx : 1 ≤ cx) : ∀ (n : Nat) (vals : List α) (p : Nat), n * cx ≤ vals.length →
    dvals (stridedRows v W tx ty cx hl n vals) = vals.take (n * cx) ∧
    slen (stridedRows v W tx ty cx hl n vals) = n * ((cx - 1) * tx + 1) + (n - 1) * ((ty - 1) * W + hl) ∧
    positions p (stridedRows v W tx ty cx hl n vals)
      = (List.range n).flatMap (fun i => (List.range cx).map
          (fun j => p + i * (((cx - 1) * tx + 1) + ((ty - 1) * W + hl)) + j * tx)) := by
  intro n
  induction n with
  | zero => intro vals p _; simp [stridedRows, dvals, slen, positions]
  | succ n ih =>
    intro vals p hlen
    have hlen' : n * cx ≤ (vals.drop cx).length := by
      rw [List.length_drop]; rw [Nat.succ_mul] at hlen; omega
    have hcxl : cx ≤ vals.length := by rw [Nat.succ_mul] at hlen; omega
    have htake : (vals.take cx).length = cx := by simp [List.length_take]; omega
    have hne : vals.take cx ≠ [] := by intro h; rw [h] at htake; simp at htake; omega
    obtain ⟨pr1, pr2, pr3⟩ := pixRun_spec tx htx (vals.take cx) p
    have pr2 := pr2 hne
    rw [htake] at pr2 pr3
    obtain ⟨y1, y2, y3⟩ := yLines_fixed (α := α) v hv W ty n hty
    obtain ⟨ih1, ih2, ih3⟩ := ih (vals.drop cx) (p + (((cx - 1) * tx + 1) + ((ty - 1) * W + hl))) hlen'
    have hfold : stridedRows v W tx ty cx hl (n + 1) vals
        = pixRun tx (vals.take cx) ++ yLines v W ty n ++ opt (decide (0 < hl) && decide (n ≠ 0)) (.fill hl)
          ++ stridedRows v W tx ty cx hl n (vals.drop cx) := by
      simp [stridedRows, yLines]
    have ho : n ≠ 0 → slen (opt (decide (0 < hl) && decide (n ≠ 0)) (Seg.fill hl : Seg α)) = hl := by
      intro hn; rw [slen_opt_fill]
      by_cases hh : 0 < hl
      · simp [hh, hn]
      · have : hl = 0 := by omega
        subst this; simp
    rw [hfold]
    refine ⟨?_, ?_, ?_⟩
    · simp only [dvals_append, pr1, y2, dvals_opt_fill, List.append_nil, ih1]
      rw [Nat.succ_mul, Nat.add_comm (n * cx) cx, List.take_add]
    · simp only [slen_append, pr2, y1, ih2]
      by_cases hn : n = 0
      · subst hn; simp [slen_opt_fill]
      · rw [ho hn]; simp only [hn, if_false]
        have h1 : n - 1 + 1 = n := by omega
        have h2 : n * ((ty - 1) * W + hl) = (n - 1) * ((ty - 1) * W + hl) + ((ty - 1) * W + hl) := by
          conv => lhs; rw [← h1]
          rw [Nat.succ_mul]
        simp only [Nat.add_sub_cancel, Nat.succ_mul]
        omega
    · simp only [positions_append, pr3, y3, positions_opt_fill, List.append_nil, List.nil_append, slen_append, pr2, y1]
      rw [List.range_succ_eq_map]
      simp only [List.flatMap_cons, List.flatMap_map, Nat.zero_mul, Nat.add_zero]
      congr 1
      by_cases hn : n = 0
      · subst hn; simp [stridedRows, positions]
      · rw [ho hn]; simp only [hn, if_false]
        have : p + ((cx - 1) * tx + 1 + (ty - 1) * W + hl) = p + ((cx - 1) * tx + 1 + ((ty - 1) * W + hl)) := by omega
        rw [this, ih3]
        apply flatMap_congr'; intro i _
        apply List.map_congr_left; intro j _
        rw [Nat.succ_mul]; omega

/-! ## valid requests -/

/-- what the two argument checks of `GRwriteimage`/`GRreadimage` establish -/
theorem valid_bounds (W H : Nat) (r : Req) (hs : r.sane = true) (hi : r.inImage W H = true) :
    1 ≤ r.tx ∧ 1 ≤ r.ty ∧ 1 ≤ r.cx ∧ 1 ≤ r.cy ∧ lastCol r < W ∧ lastRow r < H := by
  simp only [Req.sane, Bool.and_eq_true, decide_eq_true_eq] at hs
  simp only [Req.inImage, Bool.not_eq_true', Bool.or_eq_false_iff, decide_eq_false_iff_not, Nat.not_le, Nat.not_lt,
    ge_iff_le, gt_iff_lt] at hi
  obtain ⟨⟨⟨h1, h2⟩, h3⟩, h4⟩ := hs
  obtain ⟨⟨⟨g1, g2⟩, g3⟩, g4⟩ := hi
  have g3' := (Nat.le_div_iff_mul_le (by omega : 0 < r.tx)).mp g3
  have g4' := (Nat.le_div_iff_mul_le (by omega : 0 < r.ty)).mp g4
  refine ⟨h1, h2, h3, h4, ?_, ?_⟩ <;> simp only [lastCol, lastRow] <;> omega

/-- the C checks accept exactly the selections that lie inside the image (`Slab.sInRange`, rank 2) -/
theorem valid_iff_sInRange (W H : Nat) (r : Req) :
    (r.sane = true ∧ r.inImage W H = true) ↔ sInRange (shape W H) r.start r.stride r.count := by
  constructor
  · rintro ⟨hs, hi⟩
    obtain ⟨h1, h2, h3, h4, h5, h6⟩ := valid_bounds W H r hs hi
    simp only [sInRange, shape, Req.start, Req.stride, Req.count, lastCol, lastRow] at *
    exact ⟨h2, h4, h6, h1, h3, h5, trivial⟩
  · intro h
    simp only [sInRange, shape, Req.start, Req.stride, Req.count] at h
    obtain ⟨h2, h4, h6, h1, h3, h5, _⟩ := h
    refine ⟨by simp [Req.sane, h1, h2, h3, h4], ?_⟩
    simp only [Req.inImage, Bool.not_eq_true', Bool.or_eq_false_iff, decide_eq_false_iff_not, Nat.not_le, Nat.not_lt,
      ge_iff_le, gt_iff_lt]
    have a : r.cx - 1 ≤ (W - 1 - r.sx) / r.tx := (Nat.le_div_iff_mul_le (by omega)).mpr (by omega)
    have b : r.cy - 1 ≤ (H - 1 - r.sy) / r.ty := (Nat.le_div_iff_mul_le (by omega)).mpr (by omega)
    have c : r.sx < W := by have := Nat.zero_le ((r.cx - 1) * r.tx); omega
    have d : r.sy < H := by have := Nat.zero_le ((r.cy - 1) * r.ty); omega
    exact ⟨⟨⟨c, d⟩, a⟩, b⟩

theorem fillLo_eq (r : Req) : fillLo r = r.sx := by unfold fillLo; split <;> omega

theorem fillHi_eq (W : Nat) (r : Req) (h : lastCol r < W) : fillHi W r + lastCol r + 1 = W := by
  unfold fillHi; split <;> omega

theorem ite_pos_self (n : Nat) : (if decide (0 < n) = true then n else 0) = n := by
  by_cases h : 0 < n
  · simp [h]
  · have : n = 0 := by omega
    simp [this]

theorem rows_mul (sy cy H W : Nat) (lr : Nat) (h : lr + 1 = sy + cy) (hH : lr < H) :
    sy * W + cy * W + (H - (lr + 1)) * W = W * H := by
  rw [← Nat.add_mul, ← Nat.add_mul, Nat.mul_comm W H]
  congr 1; omega

theorem rows_sum (n a b W : Nat) (hn : 1 ≤ n) (h : a + b = W) : n * a + (n - 1) * b + b = n * W := by
  obtain ⟨k, hk⟩ : ∃ k, n = k + 1 := ⟨n - 1, by omega⟩
  subst hk
  rw [← h, Nat.add_sub_cancel, Nat.succ_mul, Nat.succ_mul, Nat.mul_add]; omega

/-- **First write, solid block.** -/
theorem firstSolid_spec {α} (W H : Nat) (r : Req) (hs : r.sane = true) (hi : r.inImage W H = true)
    (hsol : r.solid = true) (vals : List α) (hl : vals.length = r.cx * r.cy) :
    slen (firstSolid W H r vals) = W * H ∧ positions 0 (firstSolid W H r vals) = selOffsets W r ∧
    dvals (firstSolid W H r vals) = vals := by
  obtain ⟨h1, h2, h3, h4, h5, h6⟩ := valid_bounds W H r hs hi
  simp only [Req.solid, Bool.and_eq_true, beq_iff_eq] at hsol
  obtain ⟨etx, ety⟩ := hsol
  have hlo := fillLo_eq r
  have hhi := fillHi_eq W r h5
  have hlen : r.cy * r.cx ≤ vals.length := Nat.le_of_eq (by rw [hl, Nat.mul_comm])
  obtain ⟨s1, s2, s3⟩ := solidRows_spec r.cx (fillHi W r + fillLo r) r.cy vals (r.sy * W + r.sx) hlen
  have hW : r.cx + (fillHi W r + fillLo r) = W := by
    simp only [lastCol, etx, Nat.mul_one] at hhi; omega
  have hrow : lastRow r + 1 = r.sy + r.cy := by simp only [lastRow, ety, Nat.mul_one]; omega
  unfold firstSolid linesBelow linesAbove
  refine ⟨?_, ?_, ?_⟩
  · simp only [slen_append, slen_replicate_fill, slen_opt_fill, ite_pos_self, s2]
    have hB := rows_sum r.cy r.cx (fillHi W r + fillLo r) W h4 hW
    have hA := rows_mul r.sy r.cy H W (lastRow r) hrow h6
    omega
  · simp only [positions_append, positions_replicate_fill, positions_opt_fill, List.nil_append, List.append_nil,
      slen_append, slen_replicate_fill, slen_opt_fill, ite_pos_self, Nat.zero_add]
    rw [hlo] at s3 hW ⊢
    rw [s3]
    unfold selOffsets
    apply flatMap_congr'; intro i _
    apply List.map_congr_left; intro j _
    rw [hW, etx, ety, Nat.mul_one, Nat.mul_one, Nat.add_mul]; omega
  · simp only [dvals_append, dvals_replicate_fill, dvals_opt_fill, List.nil_append, List.append_nil, s1]
    rw [Nat.mul_comm, ← hl, List.take_length]

theorem strided_total (sy cy ty H W span hl lo hi : Nat) (hcy : 1 ≤ cy) (hty : 1 ≤ ty) (hW : span + hl = W)
    (hhl : hl = hi + lo) (hH : sy + (cy - 1) * ty < H) :
    sy * W + lo + (cy * span + (cy - 1) * ((ty - 1) * W + hl)) + hi + (H - (sy + (cy - 1) * ty + 1)) * W = W * H := by
  obtain ⟨k, hk⟩ : ∃ k, cy = k + 1 := ⟨cy - 1, by omega⟩
  obtain ⟨m, hm⟩ : ∃ m, ty = m + 1 := ⟨ty - 1, by omega⟩
  subst hk hm
  simp only [Nat.add_sub_cancel] at *
  have F1 := rows_sum (k + 1) span hl W (by omega) hW
  simp only [Nat.add_sub_cancel] at F1
  have F2 : k * (m * W + hl) = (k * m) * W + k * hl := by rw [Nat.mul_add, Nat.mul_assoc]
  have F3 : k * (m + 1) = k * m + k := by rw [Nat.mul_succ]
  generalize hR : H - (sy + k * (m + 1) + 1) = R
  have hH' : H = sy + k + 1 + k * m + R := by omega
  rw [F2, hH', Nat.mul_comm W]
  simp only [Nat.add_mul, Nat.one_mul]
  simp only [Nat.succ_mul] at F1
  omega

/-- **First write, sub-sampled** (code with 80405e4). -/
theorem firstStrided_spec {α} (v : Variant) (hv : v.f15Fixed = true) (W H : Nat) (r : Req) (hs : r.sane = true)
    (hi : r.inImage W H = true) (vals : List α) (hl : vals.length = r.cx * r.cy) :
    slen (firstStrided v W H r vals) = W * H ∧ positions 0 (firstStrided v W H r vals) = selOffsets W r ∧
    dvals (firstStrided v W H r vals) = vals := by
  obtain ⟨h1, h2, h3, h4, h5, h6⟩ := valid_bounds W H r hs hi
  have hlo := fillLo_eq r
  have hhi := fillHi_eq W r h5
  have hlen : r.cy * r.cx ≤ vals.length := Nat.le_of_eq (by rw [hl, Nat.mul_comm])
  obtain ⟨s1, s2, s3⟩ := stridedRows_spec v hv W r.tx r.ty r.cx (fillHi W r + fillLo r) h1 h2 h3 r.cy vals
    (r.sy * W + r.sx) hlen
  have hW : ((r.cx - 1) * r.tx + 1) + (fillHi W r + fillLo r) = W := by
    simp only [lastCol] at hhi; omega
  unfold firstStrided linesBelow linesAbove
  simp only [hv, if_true]
  refine ⟨?_, ?_, ?_⟩
  · simp only [slen_append, slen_replicate_fill, slen_opt_fill, ite_pos_self, s2]
    have := strided_total r.sy r.cy r.ty H W ((r.cx - 1) * r.tx + 1) (fillHi W r + fillLo r) (fillLo r) (fillHi W r)
      h4 h2 hW rfl (by simpa [lastRow] using h6)
    simp only [lastRow]
    omega
  · simp only [positions_append, positions_replicate_fill, positions_opt_fill, List.nil_append, List.append_nil,
      slen_append, slen_replicate_fill, slen_opt_fill, ite_pos_self, Nat.zero_add]
    rw [hlo] at s3 hW ⊢
    rw [s3]
    unfold selOffsets
    apply flatMap_congr'; intro i _
    apply List.map_congr_left; intro j _
    have e : (r.cx - 1) * r.tx + 1 + ((r.ty - 1) * W + (fillHi W r + r.sx)) = r.ty * W := by
      obtain ⟨m, hm⟩ : ∃ m, r.ty = m + 1 := ⟨r.ty - 1, by omega⟩
      rw [hm, Nat.add_sub_cancel, Nat.succ_mul]; omega
    rw [e, Nat.add_mul, ← Nat.mul_assoc]; omega
  · simp only [dvals_append, dvals_replicate_fill, dvals_opt_fill, List.nil_append, List.append_nil, s1]
    rw [Nat.mul_comm, ← hl, List.take_length]

/-- **First write of a new image.** For every valid request the `Hwrite` trace of the fill path (solid or
    sub-sampled) writes exactly `W·H` pixels, puts the caller's pixels at the selected offsets in buffer order,
    and consumes exactly the caller's buffer. -/
theorem firstTrace_spec {α} (v : Variant) (hv : v.f15Fixed = true) (W H : Nat) (r : Req) (hs : r.sane = true)
    (hi : r.inImage W H = true) (vals : List α) (hl : vals.length = r.cx * r.cy) :
    slen (firstTrace v W H r vals) = W * H ∧ positions 0 (firstTrace v W H r vals) = selOffsets W r ∧
    dvals (firstTrace v W H r vals) = vals := by
  unfold firstTrace
  by_cases h : r.solid = true
  · simp only [h, if_true]; exact firstSolid_spec W H r hs hi h vals hl
  · have h' : r.solid = false := by simpa using h
    simp only [h', Bool.false_eq_true, if_false]; exact firstStrided_spec v hv W H r hs hi vals hl

/-- the element after the first write = the all-fill image with the selected pixels stored -/
theorem render_firstTrace {α} (v : Variant) (hv : v.f15Fixed = true) (W H : Nat) (f : α) (r : Req)
    (hs : r.sane = true) (hi : r.inImage W H = true) (vals : List α) (hl : vals.length = r.cx * r.cy) :
    render f (firstTrace v W H r vals) = writeAt (List.replicate (W * H) f) (selOffsets W r) vals := by
  obtain ⟨a, b, c⟩ := firstTrace_spec v hv W H r hs hi vals hl
  rw [render_eq_writeAt', a, b, c]

/-! ## strided cells of an in-range request (any rank) -/

theorem scells_inB : ∀ (sh s st c : List Nat), sInRange sh s st c → ∀ x ∈ scells s st c, inB sh x := by
  intro sh
  induction sh with
  | nil =>
    intro s st c h x hx
    cases s <;> cases st <;> cases c <;> simp [sInRange] at h
    simp [scells] at hx; subst hx; simp [inB]
  | cons d shs ih =>
    intro s st c h x hx
    cases s with
    | nil => cases st <;> cases c <;> simp [sInRange] at h
    | cons s0 ss =>
      cases st with
      | nil => cases c <;> simp [sInRange] at h
      | cons t0 ts =>
        cases c with
        | nil => simp [sInRange] at h
        | cons c0 cs =>
          obtain ⟨h1, h2, h3, hr⟩ := h
          simp only [scells, List.mem_flatMap, List.mem_range, List.mem_map] at hx
          obtain ⟨i, hi, x', hx', rfl⟩ := hx
          refine ⟨?_, ih ss ts cs hr x' hx'⟩
          have : i * t0 ≤ (c0 - 1) * t0 := Nat.mul_le_mul_right _ (by omega)
          omega

theorem scells_nodup : ∀ (sh s st c : List Nat), sInRange sh s st c → (scells s st c).Nodup := by
  intro sh
  induction sh with
  | nil =>
    intro s st c h
    cases s <;> cases st <;> cases c <;> simp [sInRange] at h
    simp [scells]
  | cons d shs ih =>
    intro s st c h
    cases s with
    | nil => cases st <;> cases c <;> simp [sInRange] at h
    | cons s0 ss =>
      cases st with
      | nil => cases c <;> simp [sInRange] at h
      | cons t0 ts =>
        cases c with
        | nil => simp [sInRange] at h
        | cons c0 cs =>
          obtain ⟨h1, h2, h3, hr⟩ := h
          simp only [scells]
          rw [List.nodup_iff_pairwise_ne, List.pairwise_flatMap]
          refine ⟨?_, ?_⟩
          · intro i _
            have := ih ss ts cs hr
            rw [List.nodup_iff_pairwise_ne] at this
            exact List.Pairwise.map _ (fun a b h => by simpa using h) this
          · rw [List.pairwise_iff_getElem]
            intro i j hi hj hij
            simp only [List.getElem_range]
            intro x h1' y h2'
            simp only [List.mem_map] at h1' h2'
            obtain ⟨a, _, rfl⟩ := h1'
            obtain ⟨b, _, rfl⟩ := h2'
            simp only [ne_eq, List.cons.injEq, not_and]
            intro he
            exfalso
            have : i * t0 < j * t0 := Nat.mul_lt_mul_of_pos_right hij (by omega)
            omega

theorem sum_map_const (k : Nat) : ∀ n, ((List.range n).map (fun _ => k)).sum = n * k := by
  intro n
  induction n with
  | zero => simp
  | succ n ih => rw [List.range_succ, List.map_append, List.sum_append, ih, Nat.succ_mul]; simp

theorem scells_length : ∀ (s st c : List Nat), s.length = c.length → st.length = c.length →
    (scells s st c).length = prod c := by
  intro s
  induction s with
  | nil => intro st c h1 h2; cases c <;> simp_all [scells, prod]
  | cons s0 ss ih =>
    intro st c h1 h2
    cases c with
    | nil => simp at h1
    | cons c0 cs =>
      cases st with
      | nil => simp at h2
      | cons t0 ts =>
        simp only [scells, prod, List.length_flatMap, List.length_map]
        rw [ih ts cs (by simpa using h1) (by simpa using h2)]
        exact sum_map_const _ _

theorem writeAt_range'_gen {α} : ∀ (vs pre old : List α), vs.length ≤ old.length →
    writeAt (pre ++ old) (List.range' pre.length vs.length) vs = pre ++ vs ++ old.drop vs.length := by
  intro vs
  induction vs with
  | nil => intro pre old _; simp [writeAt]
  | cons v vs ih =>
    intro pre old h
    cases old with
    | nil => simp at h
    | cons o os =>
      simp only [List.length_cons, List.range'_succ, writeAt, List.drop_succ_cons]
      have h1 : (pre ++ o :: os).set pre.length v = (pre ++ [v]) ++ os := by simp
      rw [h1]
      have := ih (pre ++ [v]) os (by simpa using h)
      simp only [List.length_append, List.length_cons, List.length_nil] at this
      rw [this]; simp

/-- rewriting the whole image in one transfer -/
theorem writeAt_whole {α} (vals e : List α) (h : vals.length = e.length) :
    vals ++ e.drop vals.length = writeAt e (List.range' 0 vals.length) vals := by
  have := writeAt_range'_gen vals [] e (by omega)
  simp only [List.nil_append, List.length_nil] at this
  rw [this]

/-- `render_firstTrace` also for the code before 80405e4 when the block is solid (that branch never changed) -/
theorem render_firstTrace' {α} (v : Variant) (W H : Nat) (f : α) (r : Req) (hv : v.f15Fixed = true ∨ r.solid = true)
    (hs : r.sane = true) (hi : r.inImage W H = true) (vals : List α) (hl : vals.length = r.cx * r.cy) :
    render f (firstTrace v W H r vals) = writeAt (List.replicate (W * H) f) (selOffsets W r) vals := by
  rcases hv with hv | hsol
  · exact render_firstTrace v hv W H f r hs hi vals hl
  · obtain ⟨a, b, c⟩ := firstSolid_spec W H r hs hi hsol vals hl
    unfold firstTrace
    simp only [hsol, if_true]
    rw [render_eq_writeAt', a, b, c]

theorem prod_shape (W H : Nat) : prod (shape W H) = W * H := by simp [shape, prod, Nat.mul_comm]

theorem selOffsets_lt (W H : Nat) (r : Req) (hs : r.sane = true) (hi : r.inImage W H = true) :
    ∀ o ∈ selOffsets W r, o < W * H := by
  intro o ho
  rw [← scells_offsets W H r, List.mem_map] at ho
  obtain ⟨c, hc, rfl⟩ := ho
  rw [← prod_shape]
  exact offset_lt _ _ (scells_inB _ _ _ _ ((valid_iff_sInRange W H r).mp ⟨hs, hi⟩) c hc)

theorem selOffsets_length (W : Nat) (r : Req) : (selOffsets W r).length = r.cx * r.cy := by
  unfold selOffsets
  simp only [List.length_flatMap, List.length_map, List.length_range]
  rw [sum_map_const, Nat.mul_comm]

/-- the element a request is applied to: the stored one, or – for a new image – the all-fill image the
    first write creates around the selection -/
def base {α} (f : α) (W H : Nat) (st : Store α) : List α := st.elem.getD (List.replicate (W * H) f)

/-- well-formed store of a `W×H` image: an existing element has exactly `W·H` pixels; an image without data
    still has `fill_img` set -/
def Store.WF {α} (W H : Nat) (st : Store α) : Prop :=
  match st.elem with
  | none => st.fillImg = true
  | some e => e.length = W * H

theorem base_length {α} (f : α) (W H : Nat) (st : Store α) (h : st.WF W H) : (base f W H st).length = W * H := by
  unfold base Store.WF at *
  cases he : st.elem with
  | none => simp
  | some e => simpa [he] using h

/-- **`GRwriteimage` = assignment of the selected pixels** on the (possibly still virtual, all-fill) image:
    every accepted branch – whole-image fast path, line runs, per-pixel transfers, and the seek-free first
    write with its fill lines – produces the same element. -/
theorem grWrite_eq {α} (v : Variant) (W H : Nat) (f : α) (r : Req) (vals : List α) (st : Store α)
    (hv : v.f15Fixed = true ∨ r.solid = true) (hs : r.sane = true) (hi : r.inImage W H = true)
    (hl : vals.length = r.cx * r.cy) (hwf : st.WF W H) :
    grWrite v W H f r vals st = some { st with elem := some (writeAt (base f W H st) (selOffsets W r) vals) } := by
  have hbl := base_length f W H st hwf
  unfold grWrite
  simp only [hs, hi, Bool.not_true, Bool.and_false, Bool.false_eq_true, if_false]
  by_cases hw : r.whole W H = true
  · simp only [hw, if_true]
    have hoff : selOffsets W r = List.range' 0 vals.length := by
      rw [← ioOffsets_eq_sel W H r]; unfold ioOffsets ioRuns
      simp [hw, expandRuns, hl]
    have hwh : vals.length = W * H := by
      simp only [Req.whole, Bool.and_eq_true, beq_iff_eq] at hw
      rw [hl, hw.1.2, hw.2]
    rw [hoff, ← writeAt_whole vals (base f W H st) (by rw [hbl, hwh])]
    congr 3
    unfold base Store.WF at *
    cases he : st.elem with
    | none => simp [hwh]
    | some e => simp
  · have hw' : r.whole W H = false := by simpa using hw
    simp only [hw', Bool.false_eq_true, if_false]
    unfold base Store.WF at *
    cases he : st.elem with
    | none =>
      simp only [he] at hwf
      simp only [hwf, if_true, Option.getD_none]
      rw [render_firstTrace' v W H f r hv hs hi vals hl]
    | some e =>
      simp only [he] at hwf
      simp only [Option.getD_some]
      have : (ioOffsets W H r).all (· < e.length) = true := by
        rw [List.all_eq_true]; intro o ho
        rw [ioOffsets_eq_sel] at ho
        simpa [hwf] using selOffsets_lt W H r hs hi o ho
      rw [ioOffsets_eq_sel] at this
      simp only [ioOffsets_eq_sel, this, if_true]


theorem grRead_eq {α} (v : Variant) (W H : Nat) (d : α) (r : Req) (st : Store α) (hs : r.sane = true)
    (hi : r.inImage W H = true) (e : List α) (he : st.elem = some e) (hlen : e.length = W * H) :
    grRead v W H d r st = some (.inr (readAt d e (selOffsets W r))) := by
  unfold grRead
  simp only [hs, hi, Bool.not_true, Bool.and_false, Bool.false_eq_true, if_false, he]
  have : (ioOffsets W H r).all (· < e.length) = true := by
    rw [List.all_eq_true]; intro o ho
    rw [ioOffsets_eq_sel] at ho
    simpa [hlen] using selOffsets_lt W H r hs hi o ho
  rw [ioOffsets_eq_sel] at this
  simp only [ioOffsets_eq_sel, this, if_true]

theorem grRead_none {α} (v : Variant) (W H : Nat) (d : α) (r : Req) (st : Store α) (hs : r.sane = true)
    (hi : r.inImage W H = true) (he : st.elem = none) : grRead v W H d r st = some (.inl (r.cx * r.cy)) := by
  unfold grRead
  simp only [hs, hi, Bool.not_true, Bool.and_false, Bool.false_eq_true, if_false, he]

/-- with the range check (9076f25) a request that is not inside the image is refused by both calls -/
theorem refused {α} (v : Variant) (hv : v.rangeCheck = true) (W H : Nat) (f d : α) (r : Req) (vals : List α)
    (st : Store α) (h : ¬ (r.sane = true ∧ r.inImage W H = true)) :
    grWrite v W H f r vals st = none ∧ grRead v W H d r st = none := by
  unfold grWrite grRead
  by_cases hs : r.sane = true
  · have hi : r.inImage W H = false := by
      cases hh : r.inImage W H
      · rfl
      · exact absurd ⟨hs, hh⟩ h
    simp [hs, hi, hv]
  · have hs' : r.sane = false := by simpa using hs
    simp [hs']

theorem selOffsets_nodup (W H : Nat) (r : Req) (hs : r.sane = true) (hi : r.inImage W H = true) :
    (selOffsets W r).Nodup := by
  have hr := (valid_iff_sInRange W H r).mp ⟨hs, hi⟩
  rw [← scells_offsets W H r]
  have := scells_nodup _ _ _ _ hr
  rw [List.nodup_iff_pairwise_ne] at this ⊢
  rw [List.pairwise_map]
  apply List.Pairwise.imp_of_mem _ this
  intro a b ha hb hne h
  exact hne (offset_inj _ a b (scells_inB _ _ _ _ hr a ha) (scells_inB _ _ _ _ hr b hb) h)

theorem readAt_writeAt_same {α} (d : α) (img : List α) (offs : List Nat) (vals : List α) (hnd : offs.Nodup)
    (hlt : ∀ o ∈ offs, o < img.length) (hv : vals.length = offs.length) :
    readAt d (writeAt img offs vals) offs = vals := by
  apply List.ext_getElem
  · simp [readAt, hv]
  · intro k h1 h2
    simp only [readAt, List.getElem_map]
    have hk : k < offs.length := by simpa [readAt] using h1
    rw [writeAt_getD_mem d offs vals img k hnd hlt hv hk]
    simp [List.getD_eq_getElem?_getD, h2]

/-! ## byte layer: pixels as byte chunks, `DFKconvert` -/

theorem chunksAux_fuel (n : Nat) (hn : 0 < n) : ∀ (k k' : Nat) (bs : List Byte), bs.length ≤ k → bs.length ≤ k' →
    chunksAux n k bs = chunksAux n k' bs := by
  intro k
  induction k with
  | zero =>
    intro k' bs h _
    have : bs = [] := List.eq_nil_of_length_eq_zero (by omega)
    subst this
    cases k' <;> simp [chunksAux]
  | succ k ih =>
    intro k' bs h h'
    cases bs with
    | nil => cases k' <;> simp [chunksAux]
    | cons b t =>
      cases k' with
      | zero => simp at h'
      | succ k' =>
        simp only [chunksAux, List.isEmpty_cons, Bool.false_eq_true, if_false, List.cons.injEq, true_and]
        apply ih <;> simp only [List.length_drop, List.length_cons] at * <;> omega

theorem chunks_nil (n : Nat) : chunks n [] = [] := by simp [chunks, chunksAux]

theorem chunks_cons (n : Nat) (hn : 0 < n) (b : Byte) (t : List Byte) :
    chunks n (b :: t) = (b :: t).take n :: chunks n ((b :: t).drop n) := by
  unfold chunks
  simp only [List.length_cons, chunksAux, List.isEmpty_cons, Bool.false_eq_true, if_false, List.cons.injEq, true_and]
  apply chunksAux_fuel n hn <;> simp only [List.length_drop, List.length_cons] <;> omega

theorem flatten_chunks (n : Nat) (hn : 0 < n) : ∀ (k : Nat) (bs : List Byte), bs.length ≤ k → (chunks n bs).flatten = bs := by
  intro k
  induction k with
  | zero =>
    intro bs h
    have : bs = [] := List.eq_nil_of_length_eq_zero (by omega)
    subst this; simp [chunks_nil]
  | succ k ih =>
    intro bs h
    cases bs with
    | nil => simp [chunks_nil]
    | cons b t =>
      rw [chunks_cons n hn, List.flatten_cons, ih _ (by simp only [List.length_drop, List.length_cons] at *; omega)]
      exact List.take_append_drop n (b :: t)

/-- splitting a concatenation of `n`-byte pieces gives the pieces back -/
theorem chunks_flatten (n : Nat) (hn : 0 < n) : ∀ (L : List (List Byte)), (∀ c ∈ L, c.length = n) →
    chunks n L.flatten = L := by
  intro L
  induction L with
  | nil => intro _; simp [chunks_nil]
  | cons c L ih =>
    intro h
    have hc : c.length = n := h c (by simp)
    cases c with
    | nil => simp at hc; omega
    | cons b t =>
      simp only [List.flatten_cons, List.cons_append]
      rw [chunks_cons n hn]
      have h1 : (b :: (t ++ L.flatten)).take n = b :: t := by
        rw [← List.cons_append, List.take_append_of_le_length (by omega), List.take_of_length_le (by omega)]
      have h2 : (b :: (t ++ L.flatten)).drop n = L.flatten := by
        rw [← List.cons_append, List.drop_append_of_le_length (by omega), List.drop_of_length_le (by omega)]
        simp
      rw [h1, h2, ih (fun c hc => h c (by simp [hc]))]

/-- a buffer of `m` pieces of `n` bytes splits into exactly those -/
theorem chunks_uniform (n : Nat) (hn : 0 < n) : ∀ (m : Nat) (bs : List Byte), bs.length = m * n →
    (chunks n bs).length = m ∧ ∀ c ∈ chunks n bs, c.length = n := by
  intro m
  induction m with
  | zero =>
    intro bs h
    have : bs = [] := List.eq_nil_of_length_eq_zero (by omega)
    subst this; simp [chunks_nil]
  | succ m ih =>
    intro bs h
    cases bs with
    | nil => simp [Nat.succ_mul] at h; omega
    | cons b t =>
      rw [chunks_cons n hn]
      have hd : ((b :: t).drop n).length = m * n := by rw [List.length_drop, h, Nat.succ_mul]; omega
      obtain ⟨i1, i2⟩ := ih _ hd
      refine ⟨by simp [i1], ?_⟩
      intro c hc
      simp only [List.mem_cons] at hc
      rcases hc with rfl | hc
      · rw [List.length_take, h, Nat.succ_mul]; omega
      · exact i2 c hc

theorem tr_length (swap : Bool) (e : List Byte) : (H4.Conv.tr swap e).length = e.length := by
  cases swap <;> simp [H4.Conv.tr]

theorem tr_tr (swap : Bool) (e : List Byte) : H4.Conv.tr swap (H4.Conv.tr swap e) = e := by
  cases swap <;> simp [H4.Conv.tr]

theorem dfk_eq (csz : Nat) (swap : Bool) (bs : List Byte) :
    dfk csz swap bs = ((chunks csz bs).map (H4.Conv.tr swap)).flatten := by
  simp [dfk, List.flatMap_def]

/-- `DFKconvert` there and back (write direction, then read direction) is the identity -/
theorem dfk_dfk (csz : Nat) (hc : 0 < csz) (swap : Bool) (m : Nat) (bs : List Byte) (h : bs.length = m * csz) :
    dfk csz swap (dfk csz swap bs) = bs := by
  obtain ⟨_, hu⟩ := chunks_uniform csz hc m bs h
  rw [dfk_eq, dfk_eq, chunks_flatten csz hc]
  · rw [List.map_map]
    have : (H4.Conv.tr swap ∘ H4.Conv.tr swap) = id := by funext e; simp [tr_tr]
    rw [this, List.map_id, flatten_chunks csz hc _ _ (Nat.le_refl _)]
  · intro c hc'
    simp only [List.mem_map] at hc'
    obtain ⟨c0, hc0, rfl⟩ := hc'
    rw [tr_length, hu c0 hc0]

theorem dfk_length (csz : Nat) (hc : 0 < csz) (swap : Bool) (bs : List Byte) : (dfk csz swap bs).length = bs.length := by
  have := flatten_chunks csz hc _ bs (Nat.le_refl _)
  rw [dfk_eq]
  conv => rhs; rw [← this]
  simp only [List.length_flatten, List.map_map]
  congr 1
  apply List.map_congr_left; intro c _; simp [tr_length]

/-! ## several RI ids on one image: the bookkeeping invariant -/

/-- the bookkeeping agrees with the element: `data_modified`, a positive `Hlength` and unflushed data imply an element;
    an element has its tag/ref and is either visible to `Hlength` or still buffered with `data_modified` set -/
def Coherent {α} (st : Store α) (b : Book) : Prop :=
  (b.dataModified = true → st.elem.isSome = true) ∧ (b.hlen = true → st.elem.isSome = true) ∧
  (b.pending = true → st.elem.isSome = true) ∧
  (st.elem.isSome = true → b.tagSet = true ∧ (b.hlen = true ∨ (b.pending = true ∧ b.dataModified = true)))

/-- under `Coherent` the C's `!new_image` / `image_data` is exactly "the element exists" -/
theorem hasData_eq {α} (st : Store α) (b : Book) (h : Coherent st b) : b.hasData = st.elem.isSome := by
  obtain ⟨h1, h2, _, h4⟩ := h
  unfold Book.hasData
  cases he : st.elem.isSome
  · rw [he] at h1 h2
    cases hd : b.dataModified <;> cases hh : b.hlen <;> simp_all
  · obtain ⟨ht, h5⟩ := h4 he
    rcases h5 with h5 | ⟨_, h5⟩ <;> simp [ht, h5]

theorem view_eq {α} (im : Img α) (h : Coherent im.st im.bk) : im.view = im.st := by
  unfold Img.view
  rw [hasData_eq _ _ h]
  cases he : im.st.elem with
  | none => simp; cases hs : im.st; simp_all
  | some e => simp

theorem coherent_closeAid {α} (st : Store α) (b : Book) (h : Coherent st b) : Coherent st b.closeAid := by
  unfold Coherent Book.closeAid at *
  obtain ⟨h1, h2, h3, h4⟩ := h
  refine ⟨h1, ?_, by simp, ?_⟩
  · simp only [Bool.or_eq_true]; rintro (g | g); exacts [h2 g, h3 g]
  · intro he; obtain ⟨ht, g⟩ := h4 he
    refine ⟨ht, Or.inl ?_⟩
    rcases g with g | ⟨g, _⟩ <;> simp [g]

theorem coherent_getaid {α} (st : Store α) (b : Book) (w : Bool) (h : Coherent st b) :
    Coherent st (b.getaid w) ∧ (b.getaid w).tagSet = true ∧ (b.getaid w).ids = b.ids ∧ (b.getaid w).buffered = b.buffered := by
  have h0 : Coherent st { b with tagSet := true } := by
    unfold Coherent at *; obtain ⟨h1, h2, h3, h4⟩ := h
    exact ⟨h1, h2, h3, fun he => ⟨rfl, (h4 he).2⟩⟩
  unfold Book.getaid
  simp only
  split
  · have := coherent_closeAid st _ h0
    split
    · exact ⟨this, rfl, rfl, rfl⟩
    · exact ⟨this, rfl, rfl, rfl⟩
  · split
    · exact ⟨h0, rfl, rfl, rfl⟩
    · exact ⟨h0, rfl, rfl, rfl⟩

theorem coherent_wrote {α} (st' : Store α) (b : Book) (ht : b.tagSet = true) (he : st'.elem.isSome = true) :
    Coherent st' b.wrote := by
  unfold Coherent Book.wrote
  refine ⟨fun _ => he, fun _ => he, fun _ => he, fun _ => ⟨ht, ?_⟩⟩
  cases hb : b.buffered <;> simp

theorem coherent_select {α} (st : Store α) (b b' : Book) (k : Nat) (h : Coherent st b) (hs : b.select k = some b') :
    Coherent st b' ∧ b'.ids = k :: b.ids ∧ b'.buffered = b.buffered ∧ b.ids.contains k = false := by
  unfold Book.select at hs
  split at hs
  · cases hs
  · cases hs; rename_i hk; exact ⟨h, rfl, rfl, by simpa using hk⟩

theorem coherent_endaccess {α} (st : Store α) (b b' : Book) (k : Nat) (h : Coherent st b) (hs : b.endaccess k = some b') :
    Coherent st b' ∧ b'.ids = b.ids.erase k ∧ b'.buffered = b.buffered ∧ b.ids.contains k = true := by
  unfold Book.endaccess at hs
  split at hs
  · cases hs
  · rename_i hk
    simp only [Option.some.injEq] at hs
    subst hs
    have h0 : Coherent st { b with ids := b.ids.erase k } := h
    split
    · exact ⟨coherent_closeAid st _ h0, rfl, rfl, by simpa using hk⟩
    · exact ⟨h0, rfl, rfl, by simpa using hk⟩

theorem coherent_setcompress {α} (st : Store α) (b b' : Book) (h : Coherent st b) (hs : b.setcompress = some b') :
    Coherent st b' ∧ b'.ids = b.ids ∧ b'.buffered = true ∧ b.buffered = false := by
  unfold Book.setcompress at hs
  split at hs
  · cases hs
  · rename_i hk
    simp only [Option.some.injEq] at hs
    subst hs
    have h0 := coherent_closeAid st b h
    refine ⟨?_, rfl, rfl, by simpa using hk⟩
    unfold Coherent at *
    obtain ⟨h1, h2, h3, h4⟩ := h0
    exact ⟨h1, h2, h3, fun he => ⟨rfl, (h4 he).2⟩⟩

theorem coherent_reopened {α} (v : Variant) (st : Store α) (b : Book) (h : Coherent st b) :
    Coherent ({ st with fillImg := v.lateFill }) b.reopened := by
  have h0 := coherent_closeAid st b h
  unfold Coherent Book.reopened at *
  obtain ⟨h1, h2, h3, h4⟩ := h0
  refine ⟨by simp, h2, h3, ?_⟩
  intro he
  obtain ⟨ht, g⟩ := h4 he
  refine ⟨ht, Or.inl ?_⟩
  rcases g with g | ⟨g, _⟩
  · exact g
  · simp [Book.closeAid] at g

end H4.GRegion
