import H4.Lemmas.VGroupSim
/-! `GraphInv` (handles and attach counts agree) is kept by every admissible operation of the reference model. -/
namespace H4.VGroup
open H4.Gen.Hdf

theorem ginv_of_vgs_slots {g g' : Graph} (hG : GraphInv g) (h1 : g'.vgs = g.vgs) (h2 : g'.slots = g.slots) : GraphInv g' := by
  intro r; rw [h1, h2]; exact hG r

theorem ginv_map_nattach {g : Graph} (hG : GraphInv g) (f : Node → Node) (hf : ∀ n, (f n).nattach = n.nattach) :
    GraphInv { g with vgs := g.vgs.map (fun e => (e.1, f e.2)) } := by
  intro r
  have := hG r
  simp only [alook_map]
  cases h : alook r g.vgs with
  | none => simpa [h] using this
  | some n => simpa [h, hf] using this

theorem ginv_step (g : Graph) (op : Op) (hG : GraphInv g) (ha : admissible g op = true) : GraphInv (gstep g op).1 := by
  cases op with
  | new slot ref =>
    simp only [gstep]
    split
    · exact hG
    · rename_i hc
      intro r
      simp only [cnt_cons, alook_ains]
      have hn : alook ref g.vgs = none := by
        cases h : alook ref g.vgs with
        | none => rfl
        | some n => exact absurd (Or.inr (Or.inr (Or.inl (by simp [h])))) hc
      by_cases e : r = ref
      · subst e
        have := hG r; simp only [hn] at this
        simp [this]
      · have e' : ¬ ref = r := fun x => e x.symm
        simpa [e, e'] using hG r
  | attach slot ref w =>
    by_cases hc : (alook slot g.slots).isSome = true
    · have e : gstep g (.attach slot ref w) = (g, .bad) := by simp only [gstep, hc, if_true]
      rw [e]; exact hG
    · cases h2 : alook ref g.vgs with
      | none =>
        have e : gstep g (.attach slot ref w) = (g, .fail) := by simp only [gstep, hc, if_false, Bool.false_eq_true, h2]
        rw [e]; exact hG
      | some n =>
        by_cases hn : n.nattach > 0
        · have e : gstep g (.attach slot ref w) =
              ({ g with vgs := aset ref { n with access := max n.access (if w then accW else accR), nattach := n.nattach + 1 } g.vgs,
                        slots := (slot, ref) :: g.slots }, .int ref) := by
            simp only [gstep, hc, if_false, Bool.false_eq_true, h2, hn, if_true]
          rw [e]
          intro r
          simp only [cnt_cons, alook_aset]
          by_cases e : r = ref
          · subst e
            have := hG r; simp only [h2] at this
            simp only [if_true, h2, Option.map_some]; rw [this, Nat.add_comm]
          · have e' : ¬ ref = r := fun x => e x.symm
            simpa [e, e'] using hG r
        · have e : gstep g (.attach slot ref w) =
              ({ g with vgs := aset ref { n with access := (if w then accW else accR), nattach := 1 } g.vgs,
                        slots := (slot, ref) :: g.slots }, .int ref) := by
            simp only [gstep, hc, if_false, Bool.false_eq_true, h2, hn]
          rw [e]
          intro r
          simp only [cnt_cons, alook_aset]
          by_cases e : r = ref
          · subst e
            have := hG r; simp only [h2] at this
            simp only [if_true, h2, Option.map_some]; rw [this]; show 1 + n.nattach = 1; have : n.nattach = 0 := by omega
            rw [this]
          · have e' : ¬ ref = r := fun x => e x.symm
            simpa [e, e'] using hG r
  | detach slot =>
    cases h1 : alook slot g.slots with
    | none =>
      have e : gstep g (.detach slot) = (g, .fail) := by simp only [gstep, h1]
      rw [e]; exact hG
    | some r0 =>
      cases h2 : alook r0 g.vgs with
      | none =>
        have e : gstep g (.detach slot) = (g, .bad) := by simp only [gstep, h1, h2]
        rw [e]; exact hG
      | some n =>
        have e : gstep g (.detach slot) =
            ({ g with vgs := aset r0 { n with nattach := n.nattach - 1 } g.vgs, slots := adel1 slot g.slots }, .ok) := by
          simp only [gstep, h1, h2]
        rw [e]
        intro r
        have c := cnt_adel1 h1 r
        have := hG r
        simp only [alook_aset]
        by_cases e : r = r0
        · subst e
          simp only [if_true, h2, Option.map_some] at c this ⊢
          show cnt r (adel1 slot g.slots) = n.nattach - 1
          omega
        · simp only [e, if_false] at c ⊢
          omega
  | setname slot n => exact ginv_withSlot_nattach hG (fun n => by split <;> rfl)
  | setclass slot n => exact ginv_withSlot_nattach hG (fun n => by split <;> rfl)
  | addtagref slot t r => exact ginv_withSlot_nattach hG (fun n => by split; rfl; split <;> rfl)
  | insertvg slot slot2 =>
    simp only [gstep]
    cases alook slot2 g.slots with
    | none => exact hG
    | some r2 => exact ginv_withSlot_nattach hG (fun n => by split; rfl; split; rfl; split <;> rfl)
  | insertvs slot vsref =>
    simp only [gstep]
    split
    · exact hG
    · exact ginv_withSlot_nattach hG (fun n => by split; rfl; split; rfl; split <;> rfl)
  | deltagref slot t r => exact ginv_withSlot_nattach hG (fun n => by split; rfl; split <;> rfl)
  | setattr slot vsref =>
    cases h1 : alook slot g.slots with
    | none =>
      have e : gstep g (.setattr slot vsref) = (g, .fail) := by simp only [gstep, h1]
      rw [e]; exact hG
    | some r0 =>
      cases h2 : alook r0 g.vgs with
      | none =>
        have e : gstep g (.setattr slot vsref) = (g, .bad) := by simp only [gstep, h1, h2]
        rw [e]; exact hG
      | some n =>
        simp only [gstep, h1, h2]
        split
        · exact hG
        · split
          · exact hG
          · split
            · exact hG
            · intro r
              have := hG r
              simp only [alook_aset]
              by_cases e : r = r0
              · subst e; simpa [h2] using this
              · simpa [e] using this
  | vdelete ref =>
    cases h2 : alook ref g.vgs with
    | none =>
      have e : gstep g (.vdelete ref) = (g, .fail) := by simp only [gstep, h2]
      rw [e]; exact hG
    | some n =>
      have hn : n.nattach = 0 := by simpa [admissible, h2] using ha
      have e : gstep g (.vdelete ref) = ({ g with vgs := adel ref g.vgs }, .ok) := by simp only [gstep, h2]
      rw [e]
      intro r
      have := hG r
      simp only [alook_adel]
      by_cases e : r = ref
      · subst e; simp only [h2] at this; simp [this, hn]
      · simpa [e] using this
  | vsdelete ref => simp only [gstep]; split <;> exact ginv_of_vgs_slots hG rfl rfl
  | vsnew ref => simp only [gstep]; split <;> exact ginv_of_vgs_slots hG rfl rfl
  | reopen =>
    intro r
    simp only [gstep, cnt, List.filter_nil, List.length_nil, alook_map]
    cases alook r g.vgs <;> rfl
  | ntagrefs slot => exact ginv_withSlot_nattach hG (fun n => rfl)
  | inq slot t r => exact ginv_withSlot_nattach hG (fun n => rfl)
  | gettagrefs slot n => exact ginv_withSlot_nattach hG (fun n => rfl)
  | gettagref slot i => exact ginv_withSlot_nattach hG (fun n => rfl)
  | nrefs slot t => exact ginv_withSlot_nattach hG (fun n => rfl)
  | getname slot => exact ginv_withSlot_nattach hG (fun n => rfl)
  | getclass slot => exact ginv_withSlot_nattach hG (fun n => rfl)
  | getnamelen slot => exact ginv_withSlot_nattach hG (fun n => rfl)
  | getclasslen slot => exact ginv_withSlot_nattach hG (fun n => rfl)
  | getid id => exact hG
  | getnext slot id => exact ginv_withSlot_nattach hG (fun n => rfl)
  | vsgetid id => exact hG
  | vlone => exact ginv_map_nattach hG Node.touched (fun n => by unfold Node.touched; split <;> rfl)
  | vslone => exact ginv_map_nattach hG Node.touched (fun n => by unfold Node.touched; split <;> rfl)
  | find n => exact hG
  | findclass n => exact hG

theorem ginv_empty : GraphInv {} := by intro r; rfl

end H4.VGroup
