import H4.ReadOnly
/-! Helper lemmas for `Props/C14.lean`: which model functions are "quiet" (no write request, no change of the bytes,
of the DD list in memory or of the access rights) and what a read-only, clean record guarantees. -/
namespace H4.ReadOnly
open H4.Gen.Hdf H4.Gen.Macros
open H4.Gen.RO (DFACC_CURRENT DDLIST_DIRTY FILE_END_DIRTY DFREF_NONE)

/-! ## constants the proofs use (Tie A pins them) -/

theorem consts : DFACC_READ = 1 ∧ DFACC_WRITE = 2 ∧ DFACC_RDWR = 3 ∧ DFACC_CREATE = 4 ∧ DFACC_ALL = 7 := by decide

theorem read_noW : DFACC_READ &&& DFACC_WRITE = 0 := by decide
theorem rdwr_W : DFACC_RDWR &&& DFACC_WRITE ≠ 0 := by decide

theorem or_read_noW (a : Nat) (h : a &&& DFACC_WRITE = 0) : (a ||| DFACC_READ) &&& DFACC_WRITE = 0 := by
  rw [Nat.and_or_distrib_right, h, read_noW]; rfl

/-! ## the relation "nothing that matters changed" -/

/-- no access record carries `DFACC_WRITE` -/
def AccsRO (s : State) : Prop := ∀ a ∈ s.accs, a.access &&& DFACC_WRITE = 0

/-- `s'` differs from `s` at most in the access records, the id counters, `attach`, `maxref`, `ddnull` and the version fields -/
structure Quiet (s s' : State) : Prop where
  disk : s'.f.disk = s.f.disk
  log : s'.log = s.log
  exts : s'.exts = s.exts
  blocks : s'.f.blocks = s.f.blocks
  dirty : s'.f.dirty = s.f.dirty
  access : s'.f.access = s.f.access
  streamW : s'.f.streamW = s.f.streamW
  cache : s'.f.cache = s.f.cache
  refcount : s'.f.refcount = s.f.refcount
  endOff : s'.f.endOff = s.f.endOff
  fids : s'.fids = s.fids
  accs : AccsRO s → AccsRO s'
  /-- once the version check has run and left the version record unmodified, it stays so -/
  ver : s.f.verSet = true → s.f.verMod = false → s'.f.verSet = true ∧ s'.f.verMod = false

theorem Quiet.refl (s : State) : Quiet s s := ⟨rfl, rfl, rfl, rfl, rfl, rfl, rfl, rfl, rfl, rfl, rfl, id, fun h1 h2 => ⟨h1, h2⟩⟩

theorem Quiet.trans {a b c : State} (h1 : Quiet a b) (h2 : Quiet b c) : Quiet a c :=
  ⟨h2.disk.trans h1.disk, h2.log.trans h1.log, h2.exts.trans h1.exts, h2.blocks.trans h1.blocks, h2.dirty.trans h1.dirty,
   h2.access.trans h1.access, h2.streamW.trans h1.streamW, h2.cache.trans h1.cache, h2.refcount.trans h1.refcount,
   h2.endOff.trans h1.endOff, h2.fids.trans h1.fids, fun h => h2.accs (h1.accs h),
   fun a b => h2.ver (h1.ver a b).1 (h1.ver a b).2⟩

theorem findAcc_mem {s : State} {aid : Nat} {a : Acc} (h : findAcc s aid = some a) : a ∈ s.accs :=
  List.mem_of_find?_eq_some h

theorem findAcc_aid {s : State} {aid : Nat} {a : Acc} (h : findAcc s aid = some a) : a.aid = aid := by
  have := List.find?_some h
  simpa using this

/-- replacing a record by one with the same access flags keeps `AccsRO` -/
theorem setAcc_quiet (s : State) (a : Acc) (h : AccsRO s → a.access &&& DFACC_WRITE = 0) : Quiet s (setAcc s a) := by
  refine ⟨rfl, rfl, rfl, rfl, rfl, rfl, rfl, rfl, rfl, rfl, rfl, ?_, fun h1 h2 => ⟨h1, h2⟩⟩
  intro hro x hx
  simp only [setAcc, List.mem_map] at hx
  obtain ⟨y, hy, rfl⟩ := hx
  split
  · exact h hro
  · exact hro y hy

theorem dropAcc_quiet (s : State) (aid : Nat) : Quiet s (dropAcc s aid) := by
  refine ⟨rfl, rfl, rfl, rfl, rfl, rfl, rfl, rfl, rfl, rfl, rfl, ?_, fun h1 h2 => ⟨h1, h2⟩⟩
  intro hro x hx
  simp only [dropAcc, List.mem_filter] at hx
  exact hro x hx.1

@[simp] theorem refreshNew_access (s : State) (a : Acc) : (refreshNew s a).access = a.access := by
  unfold refreshNew; simp only []; split <;> rfl
@[simp] theorem refreshNew_aid (s : State) (a : Acc) : (refreshNew s a).aid = a.aid := by
  unfold refreshNew; simp only []; split <;> rfl

theorem mem_setAcc_self {s : State} {a a' : Acc} (hm : a ∈ s.accs) (hid : a'.aid = a.aid) : a' ∈ (setAcc s a').accs := by
  simp only [setAcc, List.mem_map]
  exact ⟨a, hm, by simp [hid]⟩

/-- `HIrefresh_new` on a record of the state: quiet, and the refreshed record is in the new state -/
theorem refresh_quiet (s : State) (a : Acc) (hm : a ∈ s.accs) : Quiet s (setAcc s (refreshNew s a)) :=
  setAcc_quiet _ _ (fun hro => by rw [refreshNew_access]; exact hro a hm)

@[simp] theorem checkFileVersion_disk (f : File) : (checkFileVersion f).disk = f.disk := by
  unfold checkFileVersion; split <;> rfl
@[simp] theorem checkFileVersion_blocks (f : File) : (checkFileVersion f).blocks = f.blocks := by
  unfold checkFileVersion; split <;> rfl
@[simp] theorem checkFileVersion_dirty (f : File) : (checkFileVersion f).dirty = f.dirty := by
  unfold checkFileVersion; split <;> rfl
@[simp] theorem checkFileVersion_access (f : File) : (checkFileVersion f).access = f.access := by
  unfold checkFileVersion; split <;> rfl
@[simp] theorem checkFileVersion_streamW (f : File) : (checkFileVersion f).streamW = f.streamW := by
  unfold checkFileVersion; split <;> rfl
@[simp] theorem checkFileVersion_cache (f : File) : (checkFileVersion f).cache = f.cache := by
  unfold checkFileVersion; split <;> rfl
@[simp] theorem checkFileVersion_refcount (f : File) : (checkFileVersion f).refcount = f.refcount := by
  unfold checkFileVersion; split <;> rfl
@[simp] theorem checkFileVersion_endOff (f : File) : (checkFileVersion f).endOff = f.endOff := by
  unfold checkFileVersion; split <;> rfl
@[simp] theorem checkFileVersion_attach (f : File) : (checkFileVersion f).attach = f.attach := by
  unfold checkFileVersion; split <;> rfl

/-! ## read-class functions are quiet on every file -/

theorem openAcc_quiet (s : State) (fid : Nat) (p : Slot) (flags : Nat) (dn : Bool) (nref : Nat) (h : flags &&& DFACC_WRITE = 0) :
    Quiet s (openAcc s fid p flags dn nref).1 := by
  unfold openAcc
  refine ⟨?_, rfl, rfl, ?_, ?_, ?_, ?_, ?_, ?_, ?_, rfl, ?_, ?_⟩
  all_goals (try (simp only []; split <;> simp))
  · intro hro x hx
    simp only [List.mem_append, List.mem_singleton] at hx
    rcases hx with hx | rfl
    · exact hro x hx
    · exact h
  · intro h1 h2
    simp only [h1, Bool.not_true, Bool.false_eq_true, if_false]
    simp [h2]

theorem openSpecial_quiet (s : State) (fid : Nat) (p : Slot) (dd : DD) (flags : Nat) (h : flags &&& DFACC_WRITE = 0) :
    Quiet s (openSpecial s fid p dd flags).1 := by
  unfold openSpecial
  have e : (if (flags &&& DFACC_WRITE == 0) = true then DFACC_READ else DFACC_WRITE) = DFACC_READ := by simp [h]
  simp only [e]
  repeat' split
  all_goals first
    | exact Quiet.refl _
    | (refine ⟨rfl, rfl, rfl, rfl, rfl, rfl, rfl, rfl, rfl, rfl, rfl, ?_, fun h1 h2 => ⟨h1, h2⟩⟩
       intro hro x hx
       simp only [List.mem_append, List.mem_singleton] at hx
       rcases hx with hx | rfl
       · exact hro x hx
       · exact or_read_noW _ read_noW)

theorem setCursor_quiet (s : State) (c : Option (Nat × Int)) : Quiet s (setCursor s c) :=
  ⟨rfl, rfl, rfl, rfl, rfl, rfl, rfl, rfl, rfl, rfl, rfl, id, fun h1 h2 => ⟨h1, h2⟩⟩

theorem startAccess_quiet (s : State) (fid tag ref flags : Nat) (h : flags &&& DFACC_WRITE = 0) :
    Quiet s (startAccess s fid tag ref flags).1 := by
  unfold startAccess
  simp only [h]
  split
  · exact Quiet.refl _
  · split
    · exact Quiet.refl _
    · generalize (if (flags &&& DFACC_CURRENT != 0) = true then (none, s.f.ddnull) else hfind s.f tag ref) = fr
      have hq := setCursor_quiet s fr.2
      generalize saTarget fr.1 tag ref = tgt
      split
      · simp; exact hq
      · split
        · exact hq.trans (openSpecial_quiet _ _ _ _ _ h)
        · exact hq.trans (openAcc_quiet _ _ _ _ _ _ h)

/-- case analysis on every `if`/`match` of the goal, reducing `have` bindings on the way -/
macro "rsplit" : tactic => `(tactic| repeat' first | split | (simp only []; split))

theorem decAttach_quiet (s : State) : Quiet s (decAttach s) := ⟨rfl, rfl, rfl, rfl, rfl, rfl, rfl, rfl, rfl, rfl, rfl, id, fun h1 h2 => ⟨h1, h2⟩⟩

theorem endAccess_quiet (s : State) (aid : Nat) : Quiet s (endAccess s aid).1 := by
  unfold endAccess
  rsplit
  all_goals first
    | exact Quiet.refl _
    | exact dropAcc_quiet _ _
    | exact (dropAcc_quiet s aid).trans (decAttach_quiet _)

theorem hlConvert_ro (cfg : Cfg) (s : State) (aid : Nat) (h : canWrite s.f = false) : hlConvert cfg s aid = .fail := by
  unfold hlConvert; rsplit
  all_goals simp_all

theorem seek_quiet (cfg : Cfg) (s : State) (aid : Nat) (off : Int) (org : Nat) : Quiet s (seek cfg s aid off org).1 := by
  unfold seek
  split
  · exact Quiet.refl _
  · rename_i a ha
    have hm := findAcc_mem ha
    rsplit
    all_goals first
      | exact Quiet.refl _
      | (apply setAcc_quiet; intro hro; exact hro a hm)

theorem read_quiet (s : State) (aid : Nat) (len : Int) : Quiet s (read s aid len).1 := by
  unfold read
  split
  · exact Quiet.refl _
  · rename_i a ha
    have hm := findAcc_mem ha
    have h1 := refresh_quiet s a hm
    have hm' : refreshNew s a ∈ (setAcc s (refreshNew s a)).accs := mem_setAcc_self hm (refreshNew_aid s a)
    rsplit
    all_goals first
      | exact h1
      | (refine h1.trans (setAcc_quiet _ _ ?_); intro hro; exact hro _ hm')
      | (refine h1.trans (setAcc_quiet _ _ ?_); intro hro; have := hro _ hm'; simpa using this)

theorem appendable_quiet (s : State) (aid : Nat) : Quiet s (appendable s aid).1 := by
  unfold appendable
  split
  · exact Quiet.refl _
  · rename_i a ha
    exact setAcc_quiet _ _ (fun hro => hro a (findAcc_mem ha))

theorem startRead_quiet (s : State) (fid tag ref : Nat) : Quiet s (startRead s fid tag ref).1 :=
  startAccess_quiet _ _ _ _ _ read_noW

theorem getElement_quiet (s : State) (fid tag ref : Nat) : Quiet s (getElement s fid tag ref).1 := by
  unfold getElement
  have h1 := startRead_quiet s fid tag ref
  generalize startRead s fid tag ref = r at h1
  simp only []
  split
  · exact (h1.trans (read_quiet _ _ _)).trans (endAccess_quiet _ _)
  · exact h1

theorem hlength_quiet (s : State) (fid tag ref : Nat) : Quiet s (hlength s fid tag ref).1 := by
  unfold hlength
  have h1 := startRead_quiet s fid tag ref
  generalize startRead s fid tag ref = r at h1
  simp only []
  split
  · exact h1.trans (endAccess_quiet _ _)
  · exact h1

theorem hexist_quiet (s : State) (fid tag ref : Nat) : Quiet s (hexist s fid tag ref).1 := by
  unfold hexist
  split
  · exact Quiet.refl _
  · exact setCursor_quiet _ _

theorem setVer_quiet (s : State) (v) : Quiet s (setVer s v) := ⟨rfl, rfl, rfl, rfl, rfl, rfl, rfl, rfl, rfl, rfl, rfl, id, fun h1 _ => ⟨h1, rfl⟩⟩

theorem readVersion_quiet (s : State) (fid : Nat) : Quiet s (readVersion s fid) := by
  unfold readVersion
  exact (getElement_quiet s fid DFTAG_VERSION 1).trans (setVer_quiet _ _)

theorem readVersion_verMod (s : State) (fid : Nat) : (readVersion s fid).f.verMod = false := rfl

/-! ## a read-only record refuses every mutation -/

/-- the record has no write access and no access record carries `DFACC_WRITE` -/
def RO (s : State) : Prop := canWrite s.f = false ∧ AccsRO s

/-- nothing is waiting to be flushed -/
def Clean (s : State) : Prop := s.f.dirty = 0 ∧ ∀ b ∈ s.f.blocks, b.dirty = false

theorem Quiet.ro {s s' : State} (h : Quiet s s') (hr : RO s) : RO s' := by
  refine ⟨?_, h.accs hr.2⟩
  have := hr.1
  unfold canWrite at *
  rw [h.access]; exact this

theorem Quiet.clean {s s' : State} (h : Quiet s s') (hc : Clean s) : Clean s' := by
  unfold Clean; rw [h.dirty, h.blocks]; exact hc

theorem startAccess_ro_write (s : State) (fid tag ref flags : Nat) (hr : RO s) (hw : flags &&& DFACC_WRITE ≠ 0) :
    startAccess s fid tag ref flags = (s, .fail) := by
  unfold startAccess
  split
  · rfl
  · have : (flags &&& DFACC_WRITE != 0 && !canWrite s.f) = true := by simp [hw, hr.1]
    simp [this]

theorem startWrite_ro (cfg : Cfg) (s : State) (fid tag ref len : Nat) (hr : RO s) :
    startWrite cfg s fid tag ref len = (s, .fail) := by
  unfold startWrite
  rw [startAccess_ro_write s fid (BASETAG tag) ref DFACC_RDWR hr rdwr_W]

theorem putElement_ro (cfg : Cfg) (s : State) (fid tag ref : Nat) (d : Bytes) (hr : RO s) :
    putElement cfg s fid tag ref d = (s, .fail) := by
  unfold putElement
  rw [startWrite_ro cfg s fid tag ref _ hr]

theorem setLength_ro (cfg : Cfg) (hc : cfg.hsetlengthChecks = true) (s : State) (aid len : Nat) (hr : RO s) :
    (setLength cfg s aid len).2 = .fail ∧ Quiet s (setLength cfg s aid len).1 := by
  unfold setLength
  split
  · exact ⟨rfl, Quiet.refl _⟩
  · rename_i a ha
    have hm := findAcc_mem ha
    have h1 := refresh_quiet s a hm
    have hacc : (refreshNew s a).access &&& DFACC_WRITE = 0 := by rw [refreshNew_access]; exact hr.2 a hm
    simp only []
    split
    · exact ⟨rfl, h1⟩
    · simp only [hc, hacc, beq_self_eq_true, Bool.and_self, if_true]
      exact ⟨trivial, h1⟩

theorem write_ro (cfg : Cfg) (s : State) (aid : Nat) (d : Bytes) (hr : RO s) : write cfg s aid d = (s, .fail) := by
  unfold write
  split
  · rfl
  · rename_i a ha
    have := hr.2 a (findAcc_mem ha)
    simp [this]

theorem trunc_ro (s : State) (aid : Nat) (len : Int) (hr : RO s) : trunc s aid len = (s, .fail) := by
  unfold trunc
  split
  · rfl
  · rename_i a ha
    have := hr.2 a (findAcc_mem ha)
    simp [this]

theorem deldd_ro (cfg : Cfg) (hc : cfg.hdelddChecks = true) (s : State) (fid tag ref : Nat) (hr : RO s) :
    deldd cfg s fid tag ref = (s, .fail) := by
  unfold deldd
  split
  · rfl
  · simp [hc, hr.1]

theorem dupdd_ro (cfg : Cfg) (hc : cfg.hdupddChecks = true) (s : State) (fid tag ref ot orf : Nat) (hr : RO s) :
    dupdd cfg s fid tag ref ot orf = (s, .fail) := by
  unfold dupdd
  split
  · rfl
  · simp [hc, hr.1]

theorem reuse_ro (cfg : Cfg) (hc : cfg.hreuseChecks = true) (s : State) (fid tag ref : Nat) (hr : RO s) :
    reuse cfg s fid tag ref = (s, .fail) := by
  unfold reuse
  split
  · rfl
  · simp [hc, hr.1]

theorem specialCreate_ro (s : State) (fid tag : Nat) (ok : Bool) (hr : RO s) : specialCreate s fid tag ok = (s, .fail) := by
  unfold specialCreate
  split
  · rfl
  · simp [hr.1]

theorem updateVersion_ro (cfg : Cfg) (s : State) (fid : Nat) (hr : RO s) :
    updateVersion cfg s fid = { s with f := { s.f with ver := libVer } } := by
  unfold updateVersion
  have hr' : RO { s with f := { s.f with ver := libVer } } := hr
  rw [putElement_ro cfg _ fid _ _ _ hr']
  rfl

/-! ## a clean record has nothing to flush -/

theorem hiSync_clean (s : State) (hc : s.f.dirty = 0) : hiSync s = (s, true) := by
  unfold hiSync
  simp [hc]

theorem getD_dirty (bl : List Block) (i : Nat) (h : ∀ b ∈ bl, b.dirty = false) : (bl.getD i default).dirty = false := by
  rw [List.getD_eq_getElem?_getD]
  cases hg : bl[i]? with
  | none => rfl
  | some b => exact h b (List.mem_of_getElem? hg)

theorem htpSyncFrom_clean (s : State) (h : ∀ b ∈ s.f.blocks, b.dirty = false) (n i : Nat) : htpSyncFrom s n i = (s, true) := by
  induction n generalizing i with
  | zero => rfl
  | succ n ih =>
    unfold htpSyncFrom
    simp only [getD_dirty _ _ h]
    exact ih (i + 1)

theorem htpSync_clean (s : State) (h : ∀ b ∈ s.f.blocks, b.dirty = false) : (htpSync s).1 = s := by
  unfold htpSync
  split
  · rfl
  · rw [htpSyncFrom_clean s h]

theorem readBlocks_clean (d : Bytes) (fuel off : Nat) (bl : List Block) (h : readBlocks d fuel off = some bl) :
    ∀ b ∈ bl, b.dirty = false := by
  induction fuel generalizing off bl with
  | zero => simp [readBlocks] at h
  | succ n ih =>
    unfold readBlocks at h
    simp only [] at h
    split at h
    · simp at h
    · split at h
      · simp at h
      · split at h
        · simp at h
        · split at h
          · simp only [Option.map_eq_some_iff] at h
            obtain ⟨tl, htl, rfl⟩ := h
            intro b hb
            simp only [List.mem_cons] at hb
            rcases hb with rfl | hb
            · rfl
            · exact ih _ _ htl b hb
          · simp only [Option.some.injEq] at h
            subst h
            intro b hb
            simp only [List.mem_singleton] at hb
            subst hb; rfl

/-! ## open / close / sync on a read-only, clean record -/

/-- bytes, write log and external files are the same -/
def Same (s s' : State) : Prop := s'.f.disk = s.f.disk ∧ s'.log = s.log ∧ s'.exts = s.exts

theorem Same.refl (s : State) : Same s s := ⟨rfl, rfl, rfl⟩
theorem Same.trans {a b c : State} (h1 : Same a b) (h2 : Same b c) : Same a c :=
  ⟨h2.1.trans h1.1, h2.2.1.trans h1.2.1, h2.2.2.trans h1.2.2⟩
theorem Quiet.same {s s' : State} (h : Quiet s s') : Same s s' := ⟨h.disk, h.log, h.exts⟩

/-- the invariant of a read-only session -/
def Inv (s : State) : Prop := RO s ∧ Clean s

theorem Quiet.inv {s s' : State} (h : Quiet s s') (hi : Inv s) : Inv s' := ⟨h.ro hi.1, h.clean hi.2⟩

theorem hopenRec_ro (cfg : Cfg) (s s' : State) (acc : Nat) (hi : Inv s) (hacc : acc &&& DFACC_WRITE = 0)
    (h : hopenRec cfg s acc = some s') : Same s s' ∧ Inv s' := by
  unfold hopenRec at h
  split at h
  · simp only [hacc, bne_self_eq_false, Bool.false_and, Bool.false_eq_true, if_false, Option.some.injEq] at h
    subst h
    exact ⟨Same.refl _, hi⟩
  · split at h
    · simp at h
    · split at h
      · simp at h
      · rename_i bl hbl
        simp only [Option.some.injEq] at h
        subst h
        refine ⟨⟨rfl, rfl, rfl⟩, ⟨?_, hi.1.2⟩, rfl, readBlocks_clean _ _ _ _ hbl⟩
        show canWrite _ = false
        unfold canWrite
        simp [or_read_noW acc hacc]

theorem hopenFinish_quiet_inv (s : State) (hi : Inv s) : Same s (hopenFinish s).1 ∧ Inv (hopenFinish s).1 := by
  unfold hopenFinish
  have hq := readVersion_quiet { s with f := { s.f with verSet := false }, fids := s.fids ++ [s.nfid], nfid := s.nfid + 1 } s.nfid
  have hi' : Inv { s with f := { s.f with verSet := false }, fids := s.fids ++ [s.nfid], nfid := s.nfid + 1 } := hi
  exact ⟨⟨hq.disk, hq.log, hq.exts⟩, hq.inv hi'⟩

theorem hopen_ro (cfg : Cfg) (s : State) (acc : Nat) (hi : Inv s) (hacc : acc &&& DFACC_WRITE = 0) :
    Same s (hopen cfg s acc).1 ∧ Inv (hopen cfg s acc).1 := by
  unfold hopen
  split
  · exact ⟨Same.refl _, hi⟩
  · split
    · exact ⟨Same.refl _, hi⟩
    · rename_i s' h
      have h1 := hopenRec_ro cfg s s' acc hi hacc h
      have h2 := hopenFinish_quiet_inv s' h1.2
      exact ⟨h1.1.trans h2.1, h2.2⟩

theorem hsync_ro (s : State) (fid : Nat) (hi : Inv s) : (hsync s fid).1 = s := by
  unfold hsync
  split
  · rfl
  · rw [hiSync_clean s hi.2.1]

theorem hcache_ro (s : State) (fid : Nat) (on : Bool) (hi : Inv s) :
    Same s (hcache s fid on).1 ∧ Inv (hcache s fid on).1 := by
  unfold hcache
  split
  · exact ⟨Same.refl _, hi⟩
  · rw [show (if (!on && s.f.cache) = true then hiSync s else (s, true)) = (s, true) by
      split
      · exact hiSync_clean s hi.2.1
      · rfl]
    exact ⟨⟨rfl, rfl, rfl⟩, hi⟩

theorem hcloseCore_ro (s : State) (fid : Nat) (hi : Inv s) : Same s (hcloseCore s fid).1 ∧ Inv (hcloseCore s fid).1 := by
  unfold hcloseCore
  split
  · split
    · exact ⟨Same.refl _, hi⟩
    · have hi0 : Inv { s with f := { s.f with refcount := 0 } } := hi
      rw [hiSync_clean _ hi0.2.1]
      simp only [Bool.not_true, Bool.false_eq_true, if_false]
      have hs := htpSync_clean { s with f := { s.f with refcount := 0 } } hi0.2.2
      split
      · rw [hs]; exact ⟨Same.refl _, hi0⟩
      · rw [hs]
        refine ⟨⟨rfl, rfl, rfl⟩, ⟨by simp [canWrite], hi.1.2⟩, hi.2.1, ?_⟩
        intro b hb; simp at hb
  · exact ⟨⟨rfl, rfl, rfl⟩, hi⟩

theorem hclose_ro (cfg : Cfg) (s : State) (fid : Nat) (hi : Inv s) : Same s (hclose cfg s fid).1 ∧ Inv (hclose cfg s fid).1 := by
  unfold hclose
  split
  · exact ⟨Same.refl _, hi⟩
  · split
    · rw [updateVersion_ro cfg s fid hi.1]
      have hi2 : Inv { s with f := { s.f with ver := libVer } } := hi
      have := hcloseCore_ro { s with f := { s.f with ver := libVer } } fid hi2
      exact ⟨⟨this.1.1, this.1.2.1, this.1.2.2⟩, this.2⟩
    · exact hcloseCore_ro s fid hi

/-! ## one step of a read-only session -/

theorem guarded_iff (c : Cfg) : c.guarded = true ↔ c.hdelddChecks = true ∧ c.hdupddChecks = true ∧ c.hreuseChecks = true ∧ c.hsetlengthChecks = true := by
  unfold Cfg.guarded; simp [and_assoc]

theorem step_ro (cfg : Cfg) (hg : cfg.guarded = true) (s : State) (op : Op) (hi : Inv s) (hop : op.opensForWrite = false) :
    Same s (step cfg s op).1 ∧ Inv (step cfg s op).1 ∧ (op.isMutating = true → (step cfg s op).2 = .fail) := by
  obtain ⟨g1, g2, g3, g4⟩ := (guarded_iff cfg).mp hg
  have Q : ∀ {s' : State}, Quiet s s' → Same s s' ∧ Inv s' := fun h => ⟨h.same, h.inv hi⟩
  cases op with
  | hopen acc =>
    have hacc : acc &&& DFACC_WRITE = 0 := by simpa [Op.opensForWrite] using hop
    have := hopen_ro cfg s acc hi hacc
    exact ⟨this.1, this.2, by simp [Op.isMutating]⟩
  | hclose fid => have := hclose_ro cfg s fid hi; exact ⟨this.1, this.2, by simp [Op.isMutating]⟩
  | hcache fid on => have := hcache_ro s fid on hi; exact ⟨this.1, this.2, by simp [Op.isMutating]⟩
  | hsync fid => simp only [step]; rw [hsync_ro s fid hi]; exact ⟨Same.refl _, hi, by simp [Op.isMutating]⟩
  | startaccess fid tag ref flags =>
    simp only [step]
    by_cases hw : flags &&& DFACC_WRITE = 0
    · have := Q (startAccess_quiet s fid tag ref flags hw)
      exact ⟨this.1, this.2, by simp [Op.isMutating, hw]⟩
    · rw [startAccess_ro_write s fid tag ref flags hi.1 hw]; exact ⟨Same.refl _, hi, fun _ => rfl⟩
  | startread fid tag ref => have := Q (startRead_quiet s fid tag ref); exact ⟨this.1, this.2, by simp [Op.isMutating]⟩
  | startwrite fid tag ref len => simp only [step]; rw [startWrite_ro cfg s fid tag ref len hi.1]; exact ⟨Same.refl _, hi, fun _ => rfl⟩
  | setlength aid len => have h := setLength_ro cfg g4 s aid len hi.1; have := Q h.2; exact ⟨this.1, this.2, fun _ => h.1⟩
  | appendable aid => have := Q (appendable_quiet s aid); exact ⟨this.1, this.2, by simp [Op.isMutating]⟩
  | seek aid off org => have := Q (seek_quiet cfg s aid off org); exact ⟨this.1, this.2, by simp [Op.isMutating]⟩
  | read aid len => have := Q (read_quiet s aid len); exact ⟨this.1, this.2, by simp [Op.isMutating]⟩
  | write aid d => simp only [step]; rw [write_ro cfg s aid d hi.1]; exact ⟨Same.refl _, hi, fun _ => rfl⟩
  | trunc aid len => simp only [step]; rw [trunc_ro s aid len hi.1]; exact ⟨Same.refl _, hi, fun _ => rfl⟩
  | endaccess aid => have := Q (endAccess_quiet s aid); exact ⟨this.1, this.2, by simp [Op.isMutating]⟩
  | getelement fid tag ref => have := Q (getElement_quiet s fid tag ref); exact ⟨this.1, this.2, by simp [Op.isMutating]⟩
  | putelement fid tag ref d => simp only [step]; rw [putElement_ro cfg s fid tag ref d hi.1]; exact ⟨Same.refl _, hi, fun _ => rfl⟩
  | hlength fid tag ref => have := Q (hlength_quiet s fid tag ref); exact ⟨this.1, this.2, by simp [Op.isMutating]⟩
  | hexist fid tag ref => have := Q (hexist_quiet s fid tag ref); exact ⟨this.1, this.2, by simp [Op.isMutating]⟩
  | deldd fid tag ref => simp only [step]; rw [deldd_ro cfg g1 s fid tag ref hi.1]; exact ⟨Same.refl _, hi, fun _ => rfl⟩
  | dupdd fid tag ref ot orf => simp only [step]; rw [dupdd_ro cfg g2 s fid tag ref ot orf hi.1]; exact ⟨Same.refl _, hi, fun _ => rfl⟩
  | reuse fid tag ref => simp only [step]; rw [reuse_ro cfg g3 s fid tag ref hi.1]; exact ⟨Same.refl _, hi, fun _ => rfl⟩
  | hlcreate fid tag ref b n => simp only [step]; rw [specialCreate_ro s fid tag _ hi.1]; exact ⟨Same.refl _, hi, fun _ => rfl⟩
  | hlconvert aid b n =>
    simp only [step]
    split
    · exact ⟨Same.refl _, hi, fun _ => rfl⟩
    · exact ⟨Same.refl _, hi, fun _ => hlConvert_ro cfg s aid hi.1.1⟩
  | hxcreate fid tag ref o => simp only [step]; rw [specialCreate_ro s fid tag _ hi.1]; exact ⟨Same.refl _, hi, fun _ => rfl⟩
  | hccreate fid tag ref => simp only [step]; rw [specialCreate_ro s fid tag _ hi.1]; exact ⟨Same.refl _, hi, fun _ => rfl⟩
  | hmccreate fid tag ref => simp only [step]; rw [specialCreate_ro s fid tag _ hi.1]; exact ⟨Same.refl _, hi, fun _ => rfl⟩

/-! ## closing a clean record writes nothing (whatever its access rights) -/

theorem hcloseCore_same (s : State) (fid : Nat) (hc : Clean s) : Same s (hcloseCore s fid).1 := by
  unfold hcloseCore
  split
  · split
    · exact Same.refl _
    · have hc0 : Clean { s with f := { s.f with refcount := 0 } } := hc
      rw [hiSync_clean _ hc0.1]
      simp only [Bool.not_true, Bool.false_eq_true, if_false]
      have hs := htpSync_clean { s with f := { s.f with refcount := 0 } } hc0.2
      split
      · rw [hs]; exact Same.refl _
      · rw [hs]; exact ⟨rfl, rfl, rfl⟩
  · exact ⟨rfl, rfl, rfl⟩

theorem hclose_same (cfg : Cfg) (s : State) (fid : Nat) (hv : s.f.verMod = false) (hc : Clean s) :
    Same s (hclose cfg s fid).1 := by
  unfold hclose
  split
  · exact Same.refl _
  · simp only [hv, Bool.false_eq_true, if_false]
    exact hcloseCore_same s fid hc

/-- state of the record right after `Hopen` of a closed file, whatever the mode: bytes and log untouched, nothing to flush,
    version record not marked modified -/
theorem hopen_closed (cfg : Cfg) (disk : Bytes) (exts : List (Nat × Bytes)) (acc : Nat) :
    let r := hopen cfg (State.closed disk exts) acc
    Same (State.closed disk exts) r.1 ∧ Clean r.1 ∧ r.1.f.verMod = false := by
  show Same _ (hopen cfg (State.closed disk exts) acc).1 ∧ Clean (hopen cfg (State.closed disk exts) acc).1 ∧
    (hopen cfg (State.closed disk exts) acc).1.f.verMod = false
  have c0 : Clean (State.closed disk exts) := ⟨rfl, by intro b hb; simp [State.closed] at hb⟩
  unfold hopen
  split
  · exact ⟨Same.refl _, c0, rfl⟩
  · split
    · exact ⟨Same.refl _, c0, rfl⟩
    · rename_i s' h
      unfold hopenRec at h
      simp only [State.closed, bne_self_eq_false, Bool.false_eq_true, if_false] at h
      by_cases hm : (!magicOk disk) = true
      · simp [hm] at h
      · have hm' : (!magicOk disk) = false := by simpa using hm
        simp only [hm', Bool.false_eq_true, if_false] at h
        cases hbl : readBlocks disk (List.length disk + 1) MAGICLEN with
        | none => simp [hbl] at h
        | some bl =>
          simp only [hbl, Option.some.injEq] at h
          subst h
          unfold hopenFinish
          refine ⟨?_, ?_, readVersion_verMod _ _⟩
          · exact (readVersion_quiet _ _).same
          · exact (readVersion_quiet _ _).clean ⟨rfl, readBlocks_clean _ _ _ _ hbl⟩

/-! ## sessions of read-class calls on any record -/

/-- calls that only read or inquire (no `Hopen`/`Hclose`/`Hcache`, which change the record itself) -/
def Op.isReadClass : Op → Bool
  | .startaccess _ _ _ flags => flags &&& DFACC_WRITE == 0
  | .startread .. | .appendable .. | .seek .. | .read .. | .endaccess .. | .getelement .. | .hlength .. | .hexist .. => true
  | _ => false

theorem step_read_quiet (cfg : Cfg) (s : State) (op : Op) (h : op.isReadClass = true) : Quiet s (step cfg s op).1 := by
  cases op <;> simp only [Op.isReadClass, Bool.false_eq_true] at h
  case startaccess fid tag ref flags => exact startAccess_quiet s fid tag ref flags (by simpa using h)
  case startread fid tag ref => exact startRead_quiet s fid tag ref
  case appendable aid => exact appendable_quiet s aid
  case seek aid off org => exact seek_quiet cfg s aid off org
  case read aid len => exact read_quiet s aid len
  case endaccess aid => exact endAccess_quiet s aid
  case getelement fid tag ref => exact getElement_quiet s fid tag ref
  case hlength fid tag ref => exact hlength_quiet s fid tag ref
  case hexist fid tag ref => exact hexist_quiet s fid tag ref

theorem run_read_quiet (cfg : Cfg) (s : State) (ops : List Op) (h : ∀ op ∈ ops, op.isReadClass = true) : Quiet s (run cfg s ops) := by
  induction ops generalizing s with
  | nil => exact Quiet.refl _
  | cons op ops ih =>
    exact (step_read_quiet cfg s op (h op List.mem_cons_self)).trans (ih _ (fun o ho => h o (List.mem_cons_of_mem _ ho)))

end H4.ReadOnly
