import H4.Lemmas.ElemOpsOpen
/-! `Hstartwrite` = `Hstartaccess(DFACC_RDWR)` followed by `Hsetlength` when the element is new. -/
namespace H4.Elem
open H4.Gen.Hdf

/-- what `Hstartaccess` leaves behind besides what `StepOK` says: the record's "new" flag is exact -/
theorem hstartaccess_shape (w : World) (hw : WFW w) (h fi tag ref : Nat) (wr app : Bool) :
    ((hstartaccess w h fi tag ref wr app).2 = .fail ∨ (hstartaccess w h fi tag ref wr app).2 = .ok) ∧
    ((hstartaccess w h fi tag ref wr app).2 = .ok →
      ∃ a, (hstartaccess w h fi tag ref wr app).1.acc h = some a ∧ a.canWrite = wr ∧
        (a.newElem = true → (((hstartaccess w h fi tag ref wr app).1.file a.file).dd a.slot).ext = none)) := by
  by_cases hop' : ¬ (w.file fi).isOpen = true
  · have hop := hop'
    have : hstartaccess w h fi tag ref wr app = (w, .fail) := by
      unfold hstartaccess; simp only []; rw [if_pos (by simpa using hop)]
    rw [this]; exact ⟨Or.inl rfl, fun c => by cases c⟩
  have hop : (w.file fi).isOpen = true := Classical.not_not.mp hop'
  have hfi := file_lt_of_open w fi hop
  have hself : ∀ (f' : File) (a : Acc), ((w.setFile fi f').setAcc h a).acc h = some a := by
    intro f' a; rw [acc_setAcc, if_pos rfl]
  have hfile : ∀ (f' : File) (a : Acc), ((w.setFile fi f').setAcc h a).file fi = f' := by
    intro f' a; rw [file_setAcc, file_setFile_same w fi f' hfi]
  unfold hstartaccess
  simp only []
  split
  · exact ⟨Or.inl rfl, fun c => by cases c⟩
  split
  · exact ⟨Or.inl rfl, fun c => by cases c⟩
  split
  · split
    · exact ⟨Or.inl rfl, fun c => by cases c⟩
    · refine ⟨Or.inr rfl, fun _ => ⟨_, hself _ _, rfl, fun _ => ?_⟩⟩
      rw [hfile]
      have C := ddCreate_spec (w.file fi) tag ref (hw.files fi).ndds_pos (hw.files fi).tail0
      show (((w.file fi).ddCreate tag ref).1.dd ((w.file fi).ddCreate tag ref).2).ext = none
      rw [C.dd_new]
  · rename_i i hsel
    split
    · split
      · exact ⟨Or.inl rfl, fun c => by cases c⟩
      · refine ⟨Or.inr rfl, fun _ => ⟨_, hself _ _, rfl, ?_⟩⟩
        intro c; exact absurd (show false = true from c) (by decide)
    · refine ⟨Or.inr rfl, fun _ => ⟨_, hself _ _, rfl, ?_⟩⟩
      intro c
      rw [hfile]
      have c' : ((w.file fi).dd i).ext.isNone = true := c
      show ((w.file fi).dd i).ext = none
      cases hx : ((w.file fi).dd i).ext with
      | none => rfl
      | some p => rw [hx] at c'; cases c'

theorem stepOK_startwrite (w : World) (hw : WFW w) (h fi tag ref len : Nat)
    (hsafe : OpSafe w (.startwrite h fi tag ref len)) : StepOK w (.startwrite h fi tag ref len) := by
  obtain ⟨hnone, hu⟩ := hsafe
  have hbase : baseTag tag = tag := userKey_base hu
  have S := stepOK_startaccess w hw h fi tag ref true false ⟨hnone, hu⟩
  obtain ⟨hres, hshape⟩ := hstartaccess_shape w hw h fi tag ref true false
  unfold StepOK at S
  have hst : step w (.startaccess h fi tag ref true false) = hstartaccess w h fi tag ref true false := rfl
  rw [hst] at S
  have hstep0 : step w (.startwrite h fi tag ref len) = hstartwrite w h fi tag ref len := rfl
  generalize hr : hstartaccess w h fi tag ref true false = r at S hres hshape
  obtain ⟨w1, res⟩ := r
  obtain ⟨hw1, v1, hv1, heq1⟩ := S
  simp only at hw1 hv1 heq1 hres hshape
  rcases hres with hres | hres
  · subst hres
    have hstep : step w (.startwrite h fi tag ref len) = (w1, .fail) := by
      rw [hstep0]; unfold hstartwrite; rw [hr]
    unfold StepOK
    rw [hstep]
    have : v1 = abs w := by
      have : specStep (abs w) (.startaccess h fi tag ref true false) .fail = some (abs w) := rfl
      rw [this] at hv1; exact (Option.some.inj hv1).symm
    rw [this] at heq1
    exact ⟨hw1, abs w, rfl, heq1⟩
  subst hres
  obtain ⟨a, ha, hcw, hnewx⟩ := hshape rfl
  -- what the byte-array view says after `Hstartaccess`
  have hv1' : v1 = (if (abs w).elem fi (tag, ref) = none then (abs w).setElem fi (tag, ref) (some none) else abs w).setHnd h
      (some { file := fi, key := (tag, ref), pos := 0 }) := by
    have : specStep (abs w) (.startaccess h fi tag ref true false) .ok =
        some ((if (abs w).elem fi (tag, ref) = none then (abs w).setElem fi (tag, ref) (some none) else abs w).setHnd h
          (some { file := fi, key := (tag, ref), pos := 0 })) := by
      simp only [specStep, hbase]
    rw [this] at hv1; exact (Option.some.inj hv1).symm
  have hh1 : (abs w1).hnd h = some { file := fi, key := (tag, ref), pos := 0 } := by
    rw [← heq1.2.2 h, hv1']; simp [View.setHnd]
  rw [abs_hnd, ha] at hh1
  simp only [Option.map_some, Option.some.injEq, HView.mk.injEq] at hh1
  obtain ⟨haf, hak, hap⟩ := hh1
  have hak0 := hak
  rw [haf] at hak
  have hel1 : (abs w1).elem fi (tag, ref) = some ((w1.file fi).slotBytes a.slot) := by
    have := handle_elem w1 hw1 h a ha
    rw [haf, hak] at this; exact this
  have hel1' : (abs w1).elem fi (tag, ref) = if (abs w).elem fi (tag, ref) = none then some none else (abs w).elem fi (tag, ref) := by
    rw [← heq1.2.1 fi (tag, ref) hu, hv1']
    split <;> simp [View.setHnd, View.setElem]
  have hwfh0 := hw1.handles h a ha
  have hwfh : (w1.file fi).live a.slot ∧ a.special = isSpecial ((w1.file fi).dd a.slot).tag ∧
      (a.special = false → ((w1.file fi).dd a.slot).ext = none → a.newElem = true) ∧ (a.special = true → a.newElem = false) := by
    rw [← haf]; exact ⟨hwfh0.live, hwfh0.special_iff, hwfh0.new_of_none, hwfh0.special_new⟩
  obtain ⟨h_live, h_special_iff, h_new_iff, h_special_new⟩ := hwfh
  cases hne : a.newElem with
  | false =>
    have hstep : step w (.startwrite h fi tag ref len) = (w1, .ok) := by
      rw [hstep0]; unfold hstartwrite; rw [hr]; simp only [ha, hne]; rfl
    -- the element has data already
    have hsome : ∃ b, (w1.file fi).slotBytes a.slot = some b := by
      cases hsp : a.special with
      | true =>
        have := h_special_iff; rw [hsp] at this
        obtain ⟨li, ho, hl, hlink, _⟩ := (hw1.files fi).linked_ok a.slot h_live this.symm
        rw [slotBytes_special _ _ this.symm]
        simp only [File.keyOf] at *
        rw [hlink]; exact ⟨_, rfl⟩
      | false =>
        have hx : ((w1.file fi).dd a.slot).ext ≠ none := by
          intro c; have := h_new_iff hsp c; rw [hne] at this; exact absurd this (by decide)
        have := h_special_iff; rw [hsp] at this
        rw [slotBytes_plain _ _ this.symm]
        cases hx' : ((w1.file fi).dd a.slot).ext with
        | none => exact absurd hx' hx
        | some p => exact ⟨_, rfl⟩
    obtain ⟨b, hb⟩ := hsome
    rw [hb] at hel1
    have hw_el : (abs w).elem fi (tag, ref) = some (some b) := by
      rw [hel1] at hel1'
      by_cases c : (abs w).elem fi (tag, ref) = none
      · rw [if_pos c] at hel1'; cases hel1'
      · rw [if_neg c] at hel1'; exact hel1'.symm
    unfold StepOK
    rw [hstep]
    refine ⟨hw1, v1, ?_, heq1⟩
    rw [hv1', if_neg (by rw [hw_el]; exact fun c => by cases c)]
    simp only [specStep, hbase, hw_el]
  | true =>
    have hsp : a.special = false := by
      cases hs : a.special with
      | false => rfl
      | true => have := h_special_new hs; rw [hne] at this; exact absurd this (by decide)
    have hx0 : ((w1.file a.file).dd a.slot).ext = none := hnewx hne
    have hx : ((w1.file fi).dd a.slot).ext = none := by rw [← haf]; exact hx0
    have hspt := h_special_iff; rw [hsp] at hspt
    rw [slotBytes_plain _ _ hspt.symm, hx] at hel1
    have hw_el : (abs w).elem fi (tag, ref) = none ∨ (abs w).elem fi (tag, ref) = some none := by
      rw [hel1] at hel1'
      by_cases c : (abs w).elem fi (tag, ref) = none
      · exact Or.inl c
      · rw [if_neg c] at hel1'; exact Or.inr hel1'.symm
    have key : ∀ W2, W2 = (w1.setFile a.file ((w1.file a.file).setLength a.slot len).1).setAcc h { a with newElem := false } →
        WFW W2 ∧ (((abs w1).setElem a.file ((w1.file a.file).keyOf a.slot) (some (some (zeros len)))).setHnd h
          (some { file := a.file, key := (w1.file a.file).keyOf a.slot, pos := a.posn })).Eqv (abs W2) := by
      intro W2 e; subst e
      obtain ⟨hww, _, _, _, _, heqv⟩ := setLength_world w1 hw1 h a ha hsp hx0 len a.appendable
      exact ⟨hww, heqv⟩
    have hstep : step w (.startwrite h fi tag ref len) =
        ((w1.setFile a.file ((w1.file a.file).setLength a.slot len).1).setAcc h { a with newElem := false }, .ok) := by
      rw [hstep0]; unfold hstartwrite; rw [hr]; simp only [ha, hne, if_true]
      -- `HIrefresh_new` finds nothing to do on the record `Hstartaccess` has just made
      have hrf : w1.refresh h = w1 := by
        unfold World.refresh; rw [ha]; simp only
        have : a.refresh (w1.file a.file) = a := by
          unfold Acc.refresh; rw [if_neg (fun c => c.2.2 hx0)]
        rw [if_pos this]
      unfold hsetlength
      rw [hrf]
      unfold hsetlengthCore
      simp only [ha, hne, hcw]
      rfl
    generalize hW2 : (w1.setFile a.file ((w1.file a.file).setLength a.slot len).1).setAcc h { a with newElem := false } = W2 at hstep
    obtain ⟨hww, heqv⟩ := key W2 hW2.symm
    unfold StepOK
    rw [hstep]
    rw [hak0, hap, haf] at heqv
    refine ⟨hww, ((abs w).setElem fi (tag, ref) (some (some (zeros len)))).setHnd h (some { file := fi, key := (tag, ref), pos := 0 }), ?_, ?_⟩
    · rcases hw_el with c | c <;> simp only [specStep, hbase, c]
    · refine Eqv.trans (Eqv.symm ?_) heqv
      apply Eqv.overwrite (x0 := some none) (y0 := some { file := fi, key := (tag, ref), pos := 0 })
      refine Eqv.trans (Eqv.symm heq1) ?_
      rw [hv1']
      rcases hw_el with c | c
      · rw [if_pos c]; exact Eqv.refl _
      · rw [if_neg (by rw [c]; exact fun c => by cases c)]
        exact Eqv.setHnd (Eqv.symm (setElem_same _ _ _ _ c)) _ _

end H4.Elem
