import H4.Lemmas.ElemPlain
/-! Worlds: files and access records as finite maps. -/
namespace H4.Elem
open H4.Gen.Hdf

theorem file_def (w : World) (i : Nat) : w.file i = w.files[i]?.getD {} := by
  simp [World.file, List.getD_eq_getElem?_getD]

theorem file_setFile (w : World) (i j : Nat) (f : File) (hi : i < w.files.length) :
    (w.setFile i f).file j = if j = i then f else w.file j := by
  simp only [file_def, World.setFile, List.getElem?_set]
  by_cases h : i = j
  · subst h; simp [hi]
  · have : ¬ (j = i) := fun e => h e.symm
    simp [h, this]

theorem file_setFile_same (w : World) (i : Nat) (f : File) (hi : i < w.files.length) : (w.setFile i f).file i = f := by
  rw [file_setFile w i i f hi]; simp

theorem file_setFile_ne (w : World) (i j : Nat) (f : File) (h : j ≠ i) : (w.setFile i f).file j = w.file j := by
  simp only [file_def, World.setFile, List.getElem?_set]
  have : ¬ (i = j) := fun e => h e.symm
  simp [this]

theorem acc_setFile (w : World) (i : Nat) (f : File) (h : Nat) : (w.setFile i f).acc h = w.acc h := rfl
theorem file_setAcc (w : World) (h : Nat) (a : Acc) (i : Nat) : (w.setAcc h a).file i = w.file i := rfl
theorem file_delAcc (w : World) (h : Nat) (i : Nat) : (w.delAcc h).file i = w.file i := rfl
theorem files_setAcc (w : World) (h : Nat) (a : Acc) : (w.setAcc h a).files = w.files := rfl
theorem files_length_setFile (w : World) (i : Nat) (f : File) : (w.setFile i f).files.length = w.files.length := by
  simp [World.setFile]

theorem find_filter_ne (l : List (Nat × Acc)) (h h' : Nat) (hne : h' ≠ h) :
    (l.filter (fun p => p.1 != h)).find? (fun p => p.1 == h') = l.find? (fun p => p.1 == h') := by
  induction l with
  | nil => rfl
  | cons x xs ih =>
    simp only [List.filter_cons]
    by_cases hx : x.1 = h
    · have : (x.1 != h) = false := by simp [hx]
      simp only [this, Bool.false_eq_true, if_false, List.find?_cons]
      have : (x.1 == h') = false := by simp [hx]; exact fun e => hne e.symm
      simp only [this, ih]
    · have : (x.1 != h) = true := by simp [hx]
      simp only [this, if_true, List.find?_cons, ih]

theorem find_filter_self (l : List (Nat × Acc)) (h : Nat) :
    (l.filter (fun p => p.1 != h)).find? (fun p => p.1 == h) = none := by
  rw [List.find?_eq_none]
  intro x hx
  simp only [List.mem_filter, bne_iff_ne, ne_eq] at hx
  simp [hx.2]

theorem acc_setAcc (w : World) (h h' : Nat) (a : Acc) : (w.setAcc h a).acc h' = if h' = h then some a else w.acc h' := by
  unfold World.acc World.setAcc
  simp only [List.find?_cons]
  by_cases e : h' = h
  · subst e; simp
  · have : (h == h') = false := by simp; exact fun x => e x.symm
    simp only [this, e, if_false]
    rw [find_filter_ne _ _ _ e]

theorem acc_delAcc (w : World) (h h' : Nat) : (w.delAcc h).acc h' = if h' = h then none else w.acc h' := by
  unfold World.acc World.delAcc
  simp only
  by_cases e : h' = h
  · subst e; simp [find_filter_self]
  · simp only [e, if_false]; rw [find_filter_ne _ _ _ e]

/-- a file slot that does not exist reads as the empty file, which has no DD -/
theorem default_not_live (s : Nat) : ¬ (({} : File).live s) := by
  intro h
  apply h
  simp [File.dd, nilDD]

theorem file_lt_of_live (w : World) (i s : Nat) (h : (w.file i).live s) : i < w.files.length := by
  by_cases hi : i < w.files.length
  · exact hi
  · exfalso
    have : w.file i = {} := by simp [file_def, List.getElem?_eq_none (Nat.le_of_not_lt hi)]
    rw [this] at h
    exact default_not_live s h

end H4.Elem
