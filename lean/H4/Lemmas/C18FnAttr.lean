import Lean.Meta.Tactic.Simp.RegisterCommand
/-! The simp set `c18logic` used by `H4.Lemmas.C18Fn`: propositional / Boolean clean-up lemmas that evaluate the conditions of a
    translated loop body once the truth values of its atoms are known (a simp attribute has to be registered in a file of its own). -/
register_simp_attr c18logic
