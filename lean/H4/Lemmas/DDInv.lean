import H4.Lemmas.DDGeom
import H4.Lemmas.Bitvect
/-! # The directory invariant on the flattened slot list, and how the three elementary changes
(fill a NULL slot, rewrite offset/length of a live slot, null a live slot) preserve it. -/
namespace H4.DD
open H4.Gen.Hdf H4.Bitvect

/-! ## tag arithmetic -/

theorem baseTag_idem (t : Nat) : baseTag (baseTag t) = baseTag t := by
  by_cases h : 16384 ≤ t ∧ t < 32768
  · have e : baseTag t = t - 16384 := by simp [baseTag, h]
    rw [e]; unfold baseTag; rw [if_neg (by omega)]
  · have e : baseTag t = t := by simp [baseTag, h]
    rw [e, e]

theorem baseTag_mkSpecial {t : Nat} (h : mkSpecial t ≠ DFTAG_NULL) : baseTag (mkSpecial t) = baseTag t := by
  by_cases h1 : t < 16384
  · have e : mkSpecial t = t + 16384 := by simp [mkSpecial, h1]
    rw [e]; unfold baseTag
    rw [if_pos (by omega), if_neg (by omega)]; omega
  · by_cases h2 : t < 32768
    · have e : mkSpecial t = t := by simp [mkSpecial, h1, h2]
      rw [e]
    · exfalso; apply h; simp [mkSpecial, h1, h2]

theorem baseTag_not_special (t : Nat) : isSpecial (baseTag t) = false := by
  unfold isSpecial baseTag; split <;> simp <;> omega

theorem baseTag_of_not_special {t : Nat} (h : isSpecial t = false) : baseTag t = t := by
  unfold isSpecial at h; unfold baseTag; simp at h; split <;> omega

theorem isSpecial_mkSpecial {t : Nat} (h : t < 16384) : isSpecial (mkSpecial t) = true := by
  unfold isSpecial mkSpecial; simp [h]; omega

theorem baseTag_ge_two {t : Nat} (h : 2 ≤ baseTag t) : 2 ≤ t := by
  unfold baseTag at h; split at h <;> omega

theorem baseTag_ne_zero_iff (t : Nat) : baseTag t = 0 ↔ t = 0 ∨ t = 16384 := by
  unfold baseTag; split <;> omega

theorem or_lc {a b c : Prop} : a ∨ b ∨ c ↔ b ∨ a ∨ c := by
  constructor
  · rintro (h | h | h)
    · exact Or.inr (Or.inl h)
    · exact Or.inl h
    · exact Or.inr (Or.inr h)
  · rintro (h | h | h)
    · exact Or.inr (Or.inl h)
    · exact Or.inl h
    · exact Or.inr (Or.inr h)

/-! ## keys and liveness -/

def keyOf (d : DD) : Nat × Nat := (baseTag d.tag, d.ref)
def isLive (d : DD) : Bool := d.tag != DFTAG_NULL
def liveOf (l : List DD) : List DD := l.filter isLive
def KeysNodup (l : List DD) : Prop := ((liveOf l).map keyOf).Nodup

theorem live_eq (s : File) : s.live = liveOf s.slots := rfl

theorem isLive_iff (d : DD) : isLive d = true ↔ d.tag ≠ 1 := by simp [isLive, DFTAG_NULL]

@[simp] theorem liveOf_append (a b : List DD) : liveOf (a ++ b) = liveOf a ++ liveOf b := by simp [liveOf]
theorem liveOf_cons_live {d : DD} (h : isLive d = true) (l : List DD) : liveOf (d :: l) = d :: liveOf l := by
  simp [liveOf, h]
theorem liveOf_cons_dead {d : DD} (h : isLive d = false) (l : List DD) : liveOf (d :: l) = liveOf l := by
  simp [liveOf, h]
theorem liveOf_replicate_nil (n : Nat) : liveOf (List.replicate n nilDD) = [] := by
  simp [liveOf, List.filter_eq_nil_iff, isLive, nilDD]

theorem mem_liveOf {d : DD} {l : List DD} : d ∈ liveOf l ↔ d ∈ l ∧ isLive d = true := by simp [liveOf]

/-- in a list with distinct live keys a live element determines its position -/
theorem split_unique {l a b a' b' : List DD} {x x' : DD} (hn : KeysNodup l)
    (h1 : l = a ++ x :: b) (h2 : l = a' ++ x' :: b') (hx : isLive x = true) (hx' : isLive x' = true)
    (hk : keyOf x = keyOf x') : a = a' ∧ x = x' ∧ b = b' := by
  have key : ∀ (p c q : List DD) (y y' : DD), isLive y = true → isLive y' = true → keyOf y = keyOf y' →
      ¬ KeysNodup (p ++ y :: (c ++ y' :: q)) := by
    intro p c q y y' hy hy' hkk hnd
    unfold KeysNodup at hnd
    rw [liveOf_append, liveOf_cons_live hy, liveOf_append, liveOf_cons_live hy'] at hnd
    simp only [List.map_append, List.map_cons] at hnd
    have := (List.nodup_append.mp hnd).2.1
    have := (List.nodup_cons.mp this).1
    apply this
    simp [hkk]
  have e : a ++ x :: b = a' ++ x' :: b' := by rw [← h1, ← h2]
  rcases List.append_eq_append_iff.mp e with ⟨c, hc1, hc2⟩ | ⟨c, hc1, hc2⟩
  · cases c with
    | nil => simp at hc1 hc2; exact ⟨hc1.symm, hc2.1, hc2.2⟩
    | cons y c =>
      simp only [List.cons_append, List.cons.injEq] at hc2
      obtain ⟨_, hb⟩ := hc2
      exfalso
      apply key a c b' x x' hx hx' hk
      rw [← hb, ← h1]; exact hn
  · cases c with
    | nil => simp at hc1 hc2; exact ⟨hc1, hc2.1.symm, hc2.2.symm⟩
    | cons y c =>
      simp only [List.cons_append, List.cons.injEq] at hc2
      obtain ⟨_, hb⟩ := hc2
      exfalso
      apply key a' c b x' x hx' hx hk.symm
      rw [← hb, ← h2]; exact hn

/-! ## the tag tree as an association list -/

theorem tget_tput (tags : Tags) (t : Nat) (v : BV) (t' : Nat) :
    tget (tput tags t v) t' = if t' = t then some v else tget tags t' := by
  induction tags with
  | nil => simp only [tput, tget]; split <;> split <;> simp_all
  | cons kv r ih =>
    obtain ⟨k, w⟩ := kv
    simp only [tput]
    split
    · rename_i hk
      simp only [tget]
      split <;> split <;> simp_all
    · rename_i hk
      simp only [tget, ih]
      split <;> split <;> simp_all

theorem register_none {tags : Tags} {d : DD} (h : tget tags (baseTag d.tag) = none) :
    register tags d = some (tput tags (baseTag d.tag) ((BV.new.set 0 true).set d.ref true)) := by
  unfold register; simp only [h]
theorem register_some {tags : Tags} {d : DD} {bv : BV} (h : tget tags (baseTag d.tag) = some bv) :
    register tags d = if bv.get d.ref = 1 then none else some (tput tags (baseTag d.tag) (bv.set d.ref true)) := by
  unfold register; simp only [h]
theorem unregister_none {tags : Tags} {d : DD} (h : tget tags (baseTag d.tag) = none) : unregister tags d = none := by
  unfold unregister; simp only [h]
theorem unregister_some {tags : Tags} {d : DD} {bv : BV} (h : tget tags (baseTag d.tag) = some bv) :
    unregister tags d = if bv.get d.ref = 0 then none else some (tput tags (baseTag d.tag) (bv.set d.ref false)) := by
  unfold unregister; simp only [h]

/-- the tag tree agrees with the live descriptors -/
structure TagsOK (tags : Tags) (l : List DD) : Prop where
  node : ∀ base bv, tget tags base = some bv →
    bv.Inv ∧ bv.bit 0 = true ∧ ∀ r, 1 ≤ r → (bv.bit r = true ↔ ∃ d ∈ liveOf l, keyOf d = (base, r))
  nonode : ∀ base, tget tags base = none → ∀ d ∈ liveOf l, baseTag d.tag ≠ base

/-- offset and length of a descriptor: both "invalid" (-1) or both set; never the `-2` "leave unchanged" marker -/
def okOL (d : DD) : Prop := (d.off = -1 ↔ d.len = -1) ∧ -1 ≤ d.off ∧ -1 ≤ d.len

/-- the directory invariant over the slot list -/
structure WFl (l : List DD) (tags : Tags) : Prop where
  live_ok : ∀ d ∈ liveOf l, (2 ≤ d.tag ∧ d.tag < 65536) ∧ (1 ≤ d.ref ∧ d.ref < 65536)
  nodup : KeysNodup l
  tags : TagsOK tags l
  offlen : ∀ d ∈ liveOf l, okOL d

theorem liveOf_split_dead {pre post : List DD} {old : DD} (h : isLive old = false) :
    liveOf (pre ++ old :: post) = liveOf pre ++ liveOf post := by
  rw [liveOf_append, liveOf_cons_dead h]
theorem liveOf_split_live {pre post : List DD} {d : DD} (h : isLive d = true) :
    liveOf (pre ++ d :: post) = liveOf pre ++ d :: liveOf post := by
  rw [liveOf_append, liveOf_cons_live h]

/-- appending a block of NIL descriptors changes nothing -/
theorem WFl_append_nil {l : List DD} {tags : Tags} (h : WFl l tags) (n : Nat) :
    WFl (l ++ List.replicate n nilDD) tags := by
  have e : liveOf (l ++ List.replicate n nilDD) = liveOf l := by simp [liveOf_replicate_nil]
  exact ⟨by rw [e]; exact h.live_ok, by unfold KeysNodup; rw [e]; exact h.nodup,
    ⟨by rw [e]; exact h.tags.node, by rw [e]; exact h.tags.nonode⟩, by rw [e]; exact h.offlen⟩

/-- `HTPcreate` on the slot list: a NULL slot becomes a descriptor with a fresh key; `HTIregister_tag_ref` succeeds -/
theorem WFl_insert {pre post : List DD} {old d' : DD} {tags : Tags} (h : WFl (pre ++ old :: post) tags)
    (hold : isLive old = false) (htag : 2 ≤ d'.tag ∧ d'.tag < 65536) (href : 1 ≤ d'.ref ∧ d'.ref < 65536)
    (hfresh : ∀ d ∈ liveOf (pre ++ old :: post), keyOf d ≠ keyOf d')
    (hol : okOL d') :
    ∃ tags', register tags d' = some tags' ∧ WFl (pre ++ d' :: post) tags' := by
  have hlive' : isLive d' = true := by rw [isLive_iff]; omega
  have href1 : 1 ≤ d'.ref := href.1
  have e0 := liveOf_split_dead (pre := pre) (post := post) hold
  have e1 := liveOf_split_live (pre := pre) (post := post) hlive'
  have hmem : ∀ d, d ∈ liveOf (pre ++ d' :: post) ↔ d = d' ∨ d ∈ liveOf (pre ++ old :: post) := by
    intro d; rw [e0, e1]; simp only [List.mem_append, List.mem_cons]; exact or_lc
  -- the registration
  have hreg : ∃ bv', bv'.Inv ∧ bv'.bit 0 = true ∧ register tags d' = some (tput tags (baseTag d'.tag) bv') ∧
      ∀ r, 1 ≤ r → (bv'.bit r = true ↔ r = d'.ref ∨ ∃ d ∈ liveOf (pre ++ old :: post), keyOf d = (baseTag d'.tag, r)) := by
    cases hg : tget tags (baseTag d'.tag) with
    | none =>
      have i1 := set_inv new_inv 0 true
      have i2 := set_inv i1 d'.ref true
      refine ⟨_, i2, ?_, register_none hg, ?_⟩
      · rw [set_bit i1, set_bit new_inv]; simp
      · intro r hr
        rw [set_bit i1, set_bit new_inv, new_bit]
        have hno := h.tags.nonode _ hg
        constructor
        · intro hb
          by_cases hrr : r = d'.ref
          · exact Or.inl hrr
          · simp [hrr] at hb; omega
        · rintro (hrr | ⟨d, hd, hk⟩)
          · simp [hrr]
          · exfalso; apply hno d hd; simp [keyOf] at hk; exact hk.1
    | some bv =>
      obtain ⟨binv, b0, bspec⟩ := h.tags.node _ _ hg
      have hnot : bv.get d'.ref ≠ 1 := by
        intro hb
        rw [get_eq_one binv] at hb
        obtain ⟨d, hd, hk⟩ := (bspec _ href1).mp hb
        exact hfresh d hd hk
      refine ⟨_, set_inv binv d'.ref true, ?_, by rw [register_some hg, if_neg hnot], ?_⟩
      · rw [set_bit binv]; have : (0 : Nat) ≠ d'.ref := by omega
        simp [this, b0]
      · intro r hr
        rw [set_bit binv]
        by_cases hrr : r = d'.ref
        · simp [hrr]
        · simp only [hrr, if_false, false_or]
          exact bspec r hr
  obtain ⟨bv', binv', b0', hregeq, bspec'⟩ := hreg
  refine ⟨_, hregeq, ⟨?_, ?_, ⟨?_, ?_⟩, ?_⟩⟩
  · intro d hd
    rcases (hmem d).mp hd with rfl | hd
    · exact ⟨htag, href⟩
    · exact h.live_ok d hd
  · -- keys stay distinct
    have hn := h.nodup
    unfold KeysNodup at hn ⊢
    rw [e0] at hn
    rw [e1]
    simp only [List.map_append, List.map_cons] at hn ⊢
    have hperm : (List.map keyOf (liveOf pre) ++ keyOf d' :: List.map keyOf (liveOf post)).Perm
        (keyOf d' :: (List.map keyOf (liveOf pre) ++ List.map keyOf (liveOf post))) := List.perm_middle
    rw [hperm.nodup_iff, List.nodup_cons]
    refine ⟨?_, hn⟩
    intro hin
    rw [← List.map_append, List.mem_map] at hin
    obtain ⟨d, hd, hk⟩ := hin
    exact hfresh d (by rw [e0]; exact hd) hk
  · intro base bv hg
    rw [tget_tput] at hg
    split at hg
    · rename_i hb
      cases hg
      refine ⟨binv', b0', fun r hr => ?_⟩
      rw [bspec' r hr, hb]
      constructor
      · rintro (hrr | ⟨d, hd, hk⟩)
        · exact ⟨d', (hmem d').mpr (Or.inl rfl), by simp [keyOf, hrr]⟩
        · exact ⟨d, (hmem d).mpr (Or.inr hd), hk⟩
      · rintro ⟨d, hd, hk⟩
        rcases (hmem d).mp hd with rfl | hd
        · left; simp [keyOf] at hk; exact hk.symm
        · exact Or.inr ⟨d, hd, hk⟩
    · rename_i hb
      obtain ⟨i1, i2, i3⟩ := h.tags.node _ _ hg
      refine ⟨i1, i2, fun r hr => ?_⟩
      rw [i3 r hr]
      constructor
      · rintro ⟨d, hd, hk⟩; exact ⟨d, (hmem d).mpr (Or.inr hd), hk⟩
      · rintro ⟨d, hd, hk⟩
        rcases (hmem d).mp hd with rfl | hd
        · exfalso; simp [keyOf] at hk; exact hb hk.1.symm
        · exact ⟨d, hd, hk⟩
  · intro base hg d hd
    rw [tget_tput] at hg
    split at hg
    · cases hg
    · rename_i hb
      rcases (hmem d).mp hd with rfl | hd
      · exact fun e => hb e.symm
      · exact h.tags.nonode _ hg d hd
  · intro d hd
    rcases (hmem d).mp hd with rfl | hd
    · exact hol
    · exact h.offlen d hd

/-- `HTPupdate` on the slot list: offset/length of a live slot change, tag/ref stay -/
theorem WFl_update {pre post : List DD} {old d' : DD} {tags : Tags} (h : WFl (pre ++ old :: post) tags)
    (hold : isLive old = true) (htag : d'.tag = old.tag) (href : d'.ref = old.ref)
    (hol : okOL d') : WFl (pre ++ d' :: post) tags := by
  have hlive' : isLive d' = true := by rw [isLive_iff] at hold ⊢; rw [htag]; exact hold
  have e0 := liveOf_split_live (pre := pre) (post := post) hold
  have e1 := liveOf_split_live (pre := pre) (post := post) hlive'
  have hk : keyOf d' = keyOf old := by simp [keyOf, htag, href]
  have hmem : ∀ d, d ∈ liveOf (pre ++ d' :: post) ↔ d = d' ∨ (d ∈ liveOf pre ∨ d ∈ liveOf post) := by
    intro d; rw [e1]; simp only [List.mem_append, List.mem_cons]; exact or_lc
  have hmem0 : ∀ d, d ∈ liveOf (pre ++ old :: post) ↔ d = old ∨ (d ∈ liveOf pre ∨ d ∈ liveOf post) := by
    intro d; rw [e0]; simp only [List.mem_append, List.mem_cons]; exact or_lc
  have hex : ∀ k, (∃ d ∈ liveOf (pre ++ d' :: post), keyOf d = k) ↔ (∃ d ∈ liveOf (pre ++ old :: post), keyOf d = k) := by
    intro k
    constructor
    · rintro ⟨d, hd, hkk⟩
      rcases (hmem d).mp hd with rfl | hd
      · exact ⟨old, (hmem0 old).mpr (Or.inl rfl), by rw [← hk]; exact hkk⟩
      · exact ⟨d, (hmem0 d).mpr (Or.inr hd), hkk⟩
    · rintro ⟨d, hd, hkk⟩
      rcases (hmem0 d).mp hd with rfl | hd
      · exact ⟨d', (hmem d').mpr (Or.inl rfl), by rw [hk]; exact hkk⟩
      · exact ⟨d, (hmem d).mpr (Or.inr hd), hkk⟩
  refine ⟨?_, ?_, ⟨?_, ?_⟩, ?_⟩
  · intro d hd
    rcases (hmem d).mp hd with rfl | hd
    · rw [htag, href]; exact h.live_ok old ((hmem0 old).mpr (Or.inl rfl))
    · exact h.live_ok d ((hmem0 d).mpr (Or.inr hd))
  · have hn := h.nodup
    unfold KeysNodup at hn ⊢
    rw [e0] at hn; rw [e1]
    simpa [hk] using hn
  · intro base bv hg
    obtain ⟨i1, i2, i3⟩ := h.tags.node _ _ hg
    exact ⟨i1, i2, fun r hr => by rw [i3 r hr, hex]⟩
  · intro base hg d hd
    rcases (hmem d).mp hd with rfl | hd
    · rw [htag]; exact h.tags.nonode _ hg old ((hmem0 old).mpr (Or.inl rfl))
    · exact h.tags.nonode _ hg d ((hmem0 d).mpr (Or.inr hd))
  · intro d hd
    rcases (hmem d).mp hd with rfl | hd
    · exact hol
    · exact h.offlen d ((hmem0 d).mpr (Or.inr hd))

/-- `HTPdelete` on the slot list: a live slot gets `DFTAG_NULL`; `HTIunregister_tag_ref` succeeds -/
theorem WFl_delete {pre post : List DD} {old : DD} {tags : Tags} (h : WFl (pre ++ old :: post) tags)
    (hold : isLive old = true) :
    ∃ tags', unregister tags old = some tags' ∧ WFl (pre ++ { old with tag := DFTAG_NULL } :: post) tags' := by
  have hdead : isLive { old with tag := DFTAG_NULL } = false := by simp [isLive]
  have e0 := liveOf_split_live (pre := pre) (post := post) hold
  have e1 := liveOf_split_dead (pre := pre) (post := post) hdead
  have hmem0 : ∀ d, d ∈ liveOf (pre ++ old :: post) ↔ d = old ∨ d ∈ liveOf (pre ++ { old with tag := DFTAG_NULL } :: post) := by
    intro d; rw [e0, e1]; simp only [List.mem_append, List.mem_cons]; exact or_lc
  have hokold := h.live_ok old ((hmem0 old).mpr (Or.inl rfl))
  -- the other live descriptors all have another key
  have hother : ∀ d ∈ liveOf (pre ++ { old with tag := DFTAG_NULL } :: post), keyOf d ≠ keyOf old := by
    intro d hd hk
    have hn := h.nodup
    unfold KeysNodup at hn
    rw [e0] at hn
    simp only [List.map_append, List.map_cons] at hn
    have hperm : (List.map keyOf (liveOf pre) ++ keyOf old :: List.map keyOf (liveOf post)).Perm
        (keyOf old :: (List.map keyOf (liveOf pre) ++ List.map keyOf (liveOf post))) := List.perm_middle
    rw [hperm.nodup_iff, List.nodup_cons] at hn
    apply hn.1
    rw [← List.map_append, List.mem_map]
    exact ⟨d, by rw [e1] at hd; exact hd, hk⟩
  cases hg : tget tags (baseTag old.tag) with
  | none => exact absurd rfl (h.tags.nonode _ hg old ((hmem0 old).mpr (Or.inl rfl)))
  | some bv =>
    obtain ⟨binv, b0, bspec⟩ := h.tags.node _ _ hg
    have hset : bv.get old.ref ≠ 0 := by
      intro hb
      rw [get_eq_zero binv] at hb
      have := (bspec old.ref hokold.2.1).mpr ⟨old, (hmem0 old).mpr (Or.inl rfl), rfl⟩
      rw [hb] at this; cases this
    refine ⟨_, by rw [unregister_some hg, if_neg hset], ⟨?_, ?_, ⟨?_, ?_⟩, ?_⟩⟩
    · intro d hd; exact h.live_ok d ((hmem0 d).mpr (Or.inr hd))
    · have hn := h.nodup
      unfold KeysNodup at hn ⊢
      rw [e0] at hn; rw [e1]
      simp only [List.map_append, List.map_cons] at hn ⊢
      have hperm : (List.map keyOf (liveOf pre) ++ keyOf old :: List.map keyOf (liveOf post)).Perm
          (keyOf old :: (List.map keyOf (liveOf pre) ++ List.map keyOf (liveOf post))) := List.perm_middle
      rw [hperm.nodup_iff, List.nodup_cons] at hn
      exact hn.2
    · intro base bv' hg'
      rw [tget_tput] at hg'
      split at hg'
      · rename_i hb
        cases hg'
        refine ⟨set_inv binv _ _, ?_, fun r hr => ?_⟩
        · rw [set_bit binv]; have : (0 : Nat) ≠ old.ref := by omega
          simp [this, b0]
        · rw [set_bit binv]
          by_cases hrr : r = old.ref
          · simp only [hrr, if_true]
            constructor
            · intro hf; cases hf
            · rintro ⟨d, hd, hk⟩
              exfalso; exact hother d hd (by rw [hk, hb]; rfl)
          · simp only [hrr, if_false]
            rw [bspec r hr, hb]
            constructor
            · rintro ⟨d, hd, hk⟩
              rcases (hmem0 d).mp hd with rfl | hd
              · exfalso; simp [keyOf] at hk; exact hrr hk.symm
              · exact ⟨d, hd, hk⟩
            · rintro ⟨d, hd, hk⟩; exact ⟨d, (hmem0 d).mpr (Or.inr hd), hk⟩
      · rename_i hb
        obtain ⟨i1, i2, i3⟩ := h.tags.node _ _ hg'
        refine ⟨i1, i2, fun r hr => ?_⟩
        rw [i3 r hr]
        constructor
        · rintro ⟨d, hd, hk⟩
          rcases (hmem0 d).mp hd with rfl | hd
          · exfalso; simp [keyOf] at hk; exact hb hk.1.symm
          · exact ⟨d, hd, hk⟩
        · rintro ⟨d, hd, hk⟩; exact ⟨d, (hmem0 d).mpr (Or.inr hd), hk⟩
    · intro base hg' d hd
      rw [tget_tput] at hg'
      split at hg'
      · cases hg'
      · exact h.tags.nonode _ hg' d ((hmem0 d).mpr (Or.inr hd))
    · intro d hd; exact h.offlen d ((hmem0 d).mpr (Or.inr hd))

end H4.DD
