import H4.Lemmas.C08Fn5
/-! Lemmas for `H4.Props.C08Fn3`, part 4: the hand-written reader `H4.VGroup.vunpackvg` characterised by POSITIONS in the record
    (`model_char`): it succeeds exactly when every field it parses lies inside the record, and then returns the values found at the
    positions the translated C code reads.  Core only. -/
set_option linter.unusedSimpArgs false
set_option linter.unusedVariables false
namespace H4.Lemmas.C08Fn3
open H4 H4.VGroup H4.Gen.Hdf H4.Gen.Fn.Vgp3 H4.C2L
open H4.Lemmas.C08Fn (bytesI bytesI_length bytesI_nil bytesI_cons bytesI_append)

/-! ## the hand-written reader in terms of positions -/

theorem b8_rec (rec : Bytes) (tail : List Int) (p : Nat) (h : p < rec.length) :
    b8 (bytesI rec ++ tail) p = ((rec[p]).toNat : Int) := by
  have e : (bytesI rec ++ tail).getD p 0 = ((rec[p]).toNat : Int) := by
    rw [List.getD_eq_getElem?_getD, List.getElem?_append_left (by simpa using h)]
    simp [bytesI, h]
  have := (rec[p]).toNat_lt
  simp only [b8, e]; omega

theorem be16N_rec (rec : Bytes) (tail : List Int) (p : Nat) (h : p + 2 ≤ rec.length) :
    be16N (bytesI rec ++ tail) p = (rec[p]'(by omega)).toNat * 256 + (rec[p + 1]'(by omega)).toNat := by
  simp only [be16N, be16, b8_rec rec tail p (by omega), b8_rec rec tail (p + 1) (by omega)]
  omega

theorem be32N_rec (rec : Bytes) (tail : List Int) (p : Nat) (h : p + 4 ≤ rec.length) :
    be32N (bytesI rec ++ tail) p = (((rec[p]'(by omega)).toNat * 256 + (rec[p + 1]'(by omega)).toNat) * 256 + (rec[p + 2]'(by omega)).toNat) * 256
      + (rec[p + 3]'(by omega)).toNat := by
  simp only [be32N, be32, b8_rec rec tail p (by omega), b8_rec rec tail (p + 1) (by omega), b8_rec rec tail (p + 2) (by omega),
    b8_rec rec tail (p + 3) (by omega)]
  omega

theorem getU16_at (rec : Bytes) (tail : List Int) (p : Nat) (h : p + 2 ≤ rec.length) :
    getU16 (rec.drop p) = some (be16N (bytesI rec ++ tail) p, rec.drop (p + 2)) := by
  rw [be16N_rec rec tail p h, List.drop_eq_getElem_cons (by omega), List.drop_eq_getElem_cons (show p + 1 < rec.length by omega)]
  rfl

theorem getU16_none (rec : Bytes) (p : Nat) (h : rec.length < p + 2) : getU16 (rec.drop p) = none := by
  have hl : (rec.drop p).length < 2 := by simp only [List.length_drop]; omega
  match hd : rec.drop p with
  | [] => rfl
  | [_] => rfl
  | _ :: _ :: _ => rw [hd] at hl; simp at hl; omega

theorem getU32_at (rec : Bytes) (tail : List Int) (p : Nat) (h : p + 4 ≤ rec.length) :
    getU32 (rec.drop p) = some (be32N (bytesI rec ++ tail) p, rec.drop (p + 4)) := by
  rw [be32N_rec rec tail p h, List.drop_eq_getElem_cons (by omega), List.drop_eq_getElem_cons (show p + 1 < rec.length by omega),
    List.drop_eq_getElem_cons (show p + 1 + 1 < rec.length by omega), List.drop_eq_getElem_cons (show p + 1 + 1 + 1 < rec.length by omega)]
  rfl

theorem getU32_none (rec : Bytes) (p : Nat) (h : rec.length < p + 4) : getU32 (rec.drop p) = none := by
  have hl : (rec.drop p).length < 4 := by simp only [List.length_drop]; omega
  match hd : rec.drop p with
  | [] => rfl
  | [_] => rfl
  | [_, _] => rfl
  | [_, _, _] => rfl
  | _ :: _ :: _ :: _ :: _ => rw [hd] at hl; simp at hl; omega

/-- the 16-bit values at `p, p+st, …` as naturals -/
def valsN (B : List Int) (p st m : Nat) : List Nat := (List.range m).map fun j => be16N B (p + st * j)

theorem vals_eq (B : List Int) (p st m : Nat) : vals B p st m = ints (valsN B p st m) := by
  simp [vals, valsN, ints, be16_eq]

@[simp] theorem valsN_length (B : List Int) (p st m : Nat) : (valsN B p st m).length = m := by simp [valsN]

theorem valsN_cons (B : List Int) (p st m : Nat) : valsN B p st (m + 1) = be16N B p :: valsN B (p + st) st m := by
  simp only [valsN, List.range_succ_eq_map, List.map_cons, List.map_map, Nat.mul_zero, Nat.add_zero]
  congr 1
  apply List.map_congr_left
  intro j _
  simp only [Function.comp]
  congr 1
  rw [Nat.mul_succ]; omega

theorem getU16s_at (rec : Bytes) (tail : List Int) : ∀ (n p : Nat), p + 2 * n ≤ rec.length →
    getU16s n (rec.drop p) = some (valsN (bytesI rec ++ tail) p 2 n, rec.drop (p + 2 * n)) := by
  intro n
  induction n with
  | zero => intro p _; simp [getU16s, valsN]
  | succ n ih =>
    intro p h
    rw [getU16s, getU16_at rec tail p (by omega)]
    simp only
    rw [ih (p + 2) (by omega), valsN_cons]
    simp only
    congr 3
    omega

theorem getU16s_none (rec : Bytes) : ∀ (n p : Nat), p ≤ rec.length → rec.length < p + 2 * n → getU16s n (rec.drop p) = none := by
  intro n
  induction n with
  | zero => intro p h0 h; omega
  | succ n ih =>
    intro p h0 h
    rw [getU16s]
    by_cases h2 : p + 2 ≤ rec.length
    · rw [getU16_at rec [] p h2]
      simp only
      rw [ih (p + 2) h2 (by omega)]
    · rw [getU16_none rec p (by omega)]

/-- the attribute pairs at `p, p+4, …` -/
def pairsN (B : List Int) (p m : Nat) : List Pair := (valsN B p 4 m).zip (valsN B (p + 2) 4 m)

theorem getPairs_at (rec : Bytes) (tail : List Int) : ∀ (n p : Nat), p + 4 * n ≤ rec.length →
    getPairs n (rec.drop p) = some (pairsN (bytesI rec ++ tail) p n, rec.drop (p + 4 * n)) := by
  intro n
  induction n with
  | zero => intro p _; simp [getPairs, pairsN, valsN]
  | succ n ih =>
    intro p h
    rw [getPairs, getU16_at rec tail p (by omega)]
    simp only
    rw [getU16_at rec tail (p + 2) (by omega)]
    simp only
    rw [ih (p + 2 + 2) (by omega)]
    simp only [pairsN, valsN_cons, List.zip_cons_cons]
    have e1 : p + 2 + 2 = p + 4 := by omega
    have e2 : p + 4 + 2 = p + 2 + 4 := by omega
    have e3 : p + 4 + 4 * n = p + 4 * (n + 1) := by omega
    rw [e1, e2, e3]

theorem getPairs_none (rec : Bytes) : ∀ (n p : Nat), p ≤ rec.length → rec.length < p + 4 * n → getPairs n (rec.drop p) = none := by
  intro n
  induction n with
  | zero => intro p h0 h; omega
  | succ n ih =>
    intro p h0 h
    rw [getPairs]
    by_cases h2 : p + 2 ≤ rec.length
    · rw [getU16_at rec [] p h2]
      simp only
      by_cases h4 : p + 2 + 2 ≤ rec.length
      · rw [getU16_at rec [] (p + 2) h4]
        simp only
        rw [ih (p + 2 + 2) h4 (by omega)]
      · rw [getU16_none rec (p + 2) (by omega)]
    · rw [getU16_none rec p (by omega)]

/-- the name / class bytes of the record: the `l` bytes at `p` up to their first NUL -/
def nameAt (rec : Bytes) (p l : Nat) : Bytes := ((rec.drop p).take l).takeWhile (· ≠ 0)

theorem getStr_at (rec : Bytes) (tail : List Int) (p : Nat) (h : p + 2 ≤ rec.length) :
    getStr (rec.drop p) =
      if be16N (bytesI rec ++ tail) p = 0 then some (none, rec.drop (p + 2))
      else if rec.length < p + 2 + be16N (bytesI rec ++ tail) p then none
      else some (some (nameAt rec (p + 2) (be16N (bytesI rec ++ tail) p)), rec.drop (p + 2 + be16N (bytesI rec ++ tail) p)) := by
  rw [getStr, getU16_at rec tail p h]
  simp only [List.length_drop, List.drop_drop, nameAt]
  split
  · rfl
  · split
    · rw [if_pos (by omega)]
    · rw [if_neg (by omega)]

/-- the fields up to `exref` of the record in `B` (`rec` gives the name bytes as `Byte`s); flags and attributes empty -/
def baseVG (rec : Bytes) (B : List Int) : VG :=
  { members := (valsN B 2 2 (nvN B)).zip (valsN B (2 + 2 * nvN B) 2 (nvN B)),
    name := if lN B = 0 then none else some (nameAt rec (pN B + 2) (lN B)),
    cls := if lC B = 0 then none else some (nameAt rec (pC B + 2) (lC B)),
    extag := be16N B (pE B), exref := be16N B (pE B + 2),
    version := be16N B (rec.length - 5), more := be16N B (rec.length - 3), flags := 0, attrs := [] }

/-- what the hand-written reader returns, by positions (`B` = the record followed by anything) -/
def readAt (rec : Bytes) (B : List Int) : Option VG :=
  if rec.length < 5 then none else
  if toI16 (be16N B (rec.length - 5)) ≤ 4 then
    if rec.length < pE B + 4 then none else
    if toI16 (be16N B (rec.length - 5)) = VSET_NEW_VERSION then
      if rec.length < pE B + 8 then none else
      if be32N B (pE B + 4) &&& VG_ATTR_SET ≠ 0 then
        if rec.length < pE B + 12 then none else
        if be32N B (pE B + 8) ≥ 2147483648 then none else
        if rec.length < pE B + 12 + 4 * be32N B (pE B + 8) then none else
        some { baseVG rec B with flags := be32N B (pE B + 4), attrs := pairsN B (pE B + 12) (be32N B (pE B + 8)) }
      else some { baseVG rec B with flags := be32N B (pE B + 4) }
    else some (baseVG rec B)
  else some { version := be16N B (rec.length - 5), more := be16N B (rec.length - 3) }

theorem model_char (rec : Bytes) (tail : List Int) : vunpackvg rec = readAt rec (bytesI rec ++ tail) := by
  generalize hB : bytesI rec ++ tail = B
  have hpos : pN B = 2 + 4 * nvN B ∧ pC B = pN B + 2 + lN B ∧ pE B = pC B + 2 + lC B := ⟨rfl, rfl, rfl⟩
  by_cases hL : rec.length < 5
  · simp only [VGroup.vunpackvg, readAt, if_pos hL]
  rw [VGroup.vunpackvg, readAt, if_neg hL, if_neg hL, getU16_at rec tail (rec.length - 5) (by omega), hB]
  simp only
  have e3 : rec.length - 5 + 2 = rec.length - 3 := by omega
  rw [getU16_at rec tail (rec.length - 5 + 2) (by omega), hB, e3]
  simp only
  by_cases hv' : ¬ toI16 (be16N B (rec.length - 5)) ≤ 4
  · rw [if_neg hv', if_neg hv']
  have hv := Decidable.not_not.mp hv'
  rw [if_pos hv, if_pos hv]
  have g0 : getU16 rec = some (nvN B, rec.drop 2) := by
    have := getU16_at rec tail 0 (by omega)
    rwa [List.drop_zero, hB] at this
  rw [g0]
  simp only
  by_cases h1 : rec.length < 2 + 2 * nvN B
  · rw [getU16s_none rec _ 2 (by omega) h1, if_pos (by omega)]
  rw [getU16s_at rec tail _ 2 (by omega), hB]
  simp only
  by_cases h2 : rec.length < 2 + 2 * nvN B + 2 * nvN B
  · rw [getU16s_none rec _ _ (by omega) h2, if_pos (by omega)]
  rw [getU16s_at rec tail _ _ (by omega), hB]
  simp only
  have e4 : 2 + 2 * nvN B + 2 * nvN B = pN B := by omega
  rw [e4]
  by_cases h3 : rec.length < pN B + 2
  · rw [getStr, getU16_none rec _ h3, if_pos (by omega)]
  rw [getStr_at rec tail _ (by omega), hB]
  have eln : be16N B (pN B) = lN B := rfl
  rw [eln]
  by_cases h4 : lN B ≠ 0 ∧ rec.length < pN B + 2 + lN B
  · rw [if_neg h4.1, if_pos h4.2, if_pos (by omega)]
  have epc : pN B + 2 + lN B = pC B := rfl
  -- the name is read; what remains starts at `pC B`
  have hname : (if lN B = 0 then some ((none : Option Bytes), rec.drop (pN B + 2))
      else if rec.length < pN B + 2 + lN B then none
      else some (some (nameAt rec (pN B + 2) (lN B)), rec.drop (pN B + 2 + lN B))) =
      some ((baseVG rec B).name, rec.drop (pC B)) := by
    by_cases h0 : lN B = 0
    · rw [if_pos h0]
      simp only [baseVG, if_pos h0]
      congr 3
      omega
    · rw [if_neg h0, if_neg (by omega)]
      simp only [baseVG, if_neg h0]
      rfl
  rw [hname]
  simp only
  by_cases h5 : rec.length < pC B + 2
  · rw [getStr, getU16_none rec _ h5, if_pos (by omega)]
  rw [getStr_at rec tail _ (by omega), hB]
  have elc : be16N B (pC B) = lC B := rfl
  rw [elc]
  by_cases h6 : lC B ≠ 0 ∧ rec.length < pC B + 2 + lC B
  · rw [if_neg h6.1, if_pos h6.2, if_pos (by omega)]
  have hcls : (if lC B = 0 then some ((none : Option Bytes), rec.drop (pC B + 2))
      else if rec.length < pC B + 2 + lC B then none
      else some (some (nameAt rec (pC B + 2) (lC B)), rec.drop (pC B + 2 + lC B))) =
      some ((baseVG rec B).cls, rec.drop (pE B)) := by
    by_cases h0 : lC B = 0
    · rw [if_pos h0]
      simp only [baseVG, if_pos h0]
      congr 3
      omega
    · rw [if_neg h0, if_neg (by omega)]
      simp only [baseVG, if_neg h0]
      rfl
  rw [hcls]
  simp only
  by_cases h7 : rec.length < pE B + 2
  · rw [getU16_none rec _ h7, if_pos (by omega)]
  rw [getU16_at rec tail _ (by omega), hB]
  simp only
  by_cases h8 : rec.length < pE B + 2 + 2
  · rw [getU16_none rec _ h8, if_pos (by omega)]
  rw [getU16_at rec tail _ (by omega), hB, if_neg (by omega)]
  simp only
  by_cases hv4' : ¬ toI16 (be16N B (rec.length - 5)) = VSET_NEW_VERSION
  · rw [if_neg hv4', if_neg hv4']
    rfl
  have hv4 := Decidable.not_not.mp hv4'
  rw [if_pos hv4, if_pos hv4]
  have e8 : pE B + 2 + 2 = pE B + 4 := by omega
  rw [e8]
  by_cases h9 : rec.length < pE B + 4 + 4
  · rw [getU32_none rec _ h9, if_pos (by omega)]
  rw [getU32_at rec tail _ (by omega), hB, if_neg (by omega)]
  simp only
  by_cases hat' : ¬ be32N B (pE B + 4) &&& VG_ATTR_SET ≠ 0
  · rw [if_neg hat', if_neg hat']
    rfl
  have hat := Decidable.not_not.mp hat'
  rw [if_pos hat, if_pos hat]
  have e12 : pE B + 4 + 4 = pE B + 8 := by omega
  rw [e12]
  by_cases h10 : rec.length < pE B + 8 + 4
  · rw [getU32_none rec _ h10, if_pos (by omega)]
  rw [getU32_at rec tail _ (by omega), hB, if_neg (by omega)]
  simp only
  by_cases hna : be32N B (pE B + 8) ≥ 2147483648
  · rw [if_pos hna, if_pos hna]
  rw [if_neg hna, if_neg hna]
  have e16 : pE B + 8 + 4 = pE B + 12 := by omega
  rw [e16]
  by_cases h11 : rec.length < pE B + 12 + 4 * be32N B (pE B + 8)
  · rw [getPairs_none rec _ _ (by omega) h11, if_pos h11]
  rw [getPairs_at rec tail _ _ (by omega), hB, if_neg h11]
  rfl

end H4.Lemmas.C08Fn3
