import H4.Lemmas.ElemOpsPromote
/-! `Hseek`, `Htrunc`, `HLconvert`, `Hsetlength`, `Happendable`, `HLsetblockinfo`, `Hendaccess`. -/
namespace H4.Elem
open H4.Gen.Hdf

/-- setting an element to what it already is changes no view -/
theorem setElem_same (v : View) (fi : Nat) (k : Nat × Nat) (x : Option (Option Bytes)) (h : v.elem fi k = x) :
    (v.setElem fi k x).Eqv v := by
  refine ⟨fun _ => rfl, ?_, fun _ => rfl⟩
  intro j k' _
  simp only [View.setElem]
  by_cases c : j = fi ∧ k' = k
  · simp only [c, and_self, if_true]; rw [← h]
  · simp [c]

theorem setHnd_same (v : View) (h : Nat) (y : Option HView) (e : v.hnd h = y) : (v.setHnd h y).Eqv v := by
  refine ⟨fun _ => rfl, fun _ _ _ => rfl, ?_⟩
  intro h'
  simp only [View.setHnd]
  split
  · rename_i c; rw [c, e]
  · rfl

theorem Eqv.setHnd {v v' : View} (e : v.Eqv v') (h : Nat) (y : Option HView) : (v.setHnd h y).Eqv (v'.setHnd h y) := by
  refine ⟨e.1, e.2.1, ?_⟩
  intro h'
  simp only [View.setHnd]
  split
  · rfl
  · exact e.2.2 h'

theorem stepOK_seek (w : World) (hw : WFW w) (h : Nat) (off : Int) (origin : Nat) (hsafe : OpSafe w (.seek h off origin)) :
    StepOK w (.seek h off origin) := by
  cases ha : w.acc h with
  | none => exact stepOK_fail_same w hw _ (by simp [step, hseek, ha])
  | some a =>
    have hh := hw.handles h a ha
    have he := handle_elem w hw h a ha
    by_cases horg : origin ≠ DF_START ∧ origin ≠ DF_CURRENT ∧ origin ≠ DF_END
    · exact stepOK_fail_same w hw _ (by simp only [step, hseek, ha]; rw [if_pos horg])
    by_cases hsp : a.special = true
    · -- linked blocks: no upper bound
      have hsp' : isSpecial ((w.file a.file).dd a.slot).tag = true := by rw [← hh.special_iff]; exact hsp
      obtain ⟨li, ho, hl, hlink, hwl, _, _⟩ := (hw.files a.file).linked_ok a.slot hh.live hsp'
      have hstep : step w (.seek h off origin) =
          if off + (if origin = DF_CURRENT then (a.posn : Int) else 0) + (if origin = DF_END then (li.length : Int) else 0) < 0 then (w, .fail)
          else (w.setAcc h { a with posn := (off + (if origin = DF_CURRENT then (a.posn : Int) else 0) + (if origin = DF_END then (li.length : Int) else 0)).toNat }, .ok) := by
        simp only [step, hseek, ha]
        rw [if_neg horg, if_pos hsp]
        simp only [acc_key_eq, hlink]
      by_cases hneg : off + (if origin = DF_CURRENT then (a.posn : Int) else 0) + (if origin = DF_END then (li.length : Int) else 0) < 0
      · exact stepOK_fail_same w hw _ (by rw [hstep, if_pos hneg])
      · unfold StepOK
        rw [hstep, if_neg hneg]
        refine ⟨hw.setPosn h a ha _, _, ?_, abs_setPosn w h a ha _⟩
        simp only [specStep, abs_hnd, ha, Option.map_some, he, slotBytes_special _ _ hsp', hlink, seekTarget, lenI,
          linkedBytes_length]
        rw [if_neg hneg]
        simp
    · have hsp0 : a.special = false := by simpa using hsp
      have hsp' : isSpecial ((w.file a.file).dd a.slot).tag = false := by rw [← hh.special_iff]; exact hsp0
      have hlenI : lenI ((w.file a.file).slotBytes a.slot) = ddLen ((w.file a.file).dd a.slot) := by
        rw [slotBytes_plain _ _ hsp']
        cases hx : ((w.file a.file).dd a.slot).ext with
        | none => simp [lenI, ddLen, hx, INVALID_LENGTH]
        | some e => simp [lenI, ddLen, hx, bytesAt_length]
      generalize htgt : off + (if origin = DF_CURRENT then (a.posn : Int) else 0) +
        (if origin = DF_END then ddLen ((w.file a.file).dd a.slot) else 0) = tgt
      have hspec_t : seekTarget a.posn ((w.file a.file).slotBytes a.slot) off origin = tgt := by
        unfold seekTarget; rw [hlenI]; exact htgt
      have hstep : step w (.seek h off origin) =
          if tgt = a.posn then (w, .ok)
          else if tgt < 0 ∨ (a.appendable = false ∧ tgt > ddLen ((w.file a.file).dd a.slot)) then (w, .fail)
          else if a.appendable = true ∧ tgt ≥ ddLen ((w.file a.file).dd a.slot) ∧
              ddLen ((w.file a.file).dd a.slot) + ddOff ((w.file a.file).dd a.slot) ≠ (w.file a.file).endOff then
            if (w.file a.file).writable = false ∨ (((w.file a.file).dd a.slot).ext = none ∧ a.canWrite = false) then
              (w.setAcc h { a with appendable := false }, .fail)
            else
              ((w.setFile a.file ((w.file a.file).convert a.slot a.blockSize a.numBlocks).1).setAcc h
                { a with slot := ((w.file a.file).convert a.slot a.blockSize a.numBlocks).2, special := true, appendable := false,
                         newElem := false, posn := tgt.toNat }, .ok)
          else (w.setAcc h { a with posn := tgt.toNat }, .ok) := by
        simp only [step, hseek, ha]
        rw [if_neg horg, if_neg hsp]
        simp only [htgt]
      by_cases h1 : tgt = a.posn
      · unfold StepOK
        rw [hstep, if_pos h1]
        refine ⟨hw, (abs w).setHnd h (some { file := a.file, key := (w.file a.file).keyOf a.slot, pos := a.posn }), ?_, ?_⟩
        · simp only [specStep, abs_hnd, ha, Option.map_some, he, hspec_t]
          have : ¬ (tgt < 0) := by omega
          rw [if_neg this]
          have : ¬ ((w.file a.file).slotBytes a.slot = none ∧ tgt ≠ (a.posn : Int)) := fun c => c.2 h1
          rw [if_neg this, h1]
          simp
        · refine ⟨fun _ => rfl, fun _ _ _ => rfl, ?_⟩
          intro h'
          simp only [View.setHnd, abs_hnd]
          by_cases e : h' = h
          · simp [e, ha]
          · simp [e]
      by_cases h2 : tgt < 0 ∨ (a.appendable = false ∧ tgt > ddLen ((w.file a.file).dd a.slot))
      · exact stepOK_fail_same w hw _ (by rw [hstep, if_neg h1, if_pos h2])
      have htnn : ¬ (tgt < 0) := fun c => h2 (Or.inl c)
      by_cases h3 : a.appendable = true ∧ tgt ≥ ddLen ((w.file a.file).dd a.slot) ∧
          ddLen ((w.file a.file).dd a.slot) + ddOff ((w.file a.file).dd a.slot) ≠ (w.file a.file).endOff
      · by_cases hwr : (w.file a.file).writable = false ∨ (((w.file a.file).dd a.slot).ext = none ∧ a.canWrite = false)
        · -- the conversion is refused: FAIL, only the appendable flag changes
          unfold StepOK
          rw [hstep, if_neg h1, if_neg h2, if_pos h3, if_pos hwr]
          refine ⟨?_, abs w, rfl, ?_⟩
          · refine ⟨hw.files, hw.coh, ?_⟩
            intro h' a' ha'
            rw [acc_setAcc] at ha'
            by_cases e : h' = h
            · simp only [e, if_true, Option.some.injEq] at ha'
              subst ha'
              exact ⟨hh.live, hh.user, hh.special_iff, hh.new_of_none, hh.special_new, hh.blk⟩
            · simp only [e, if_false] at ha'
              have := hw.handles h' a' ha'
              exact ⟨this.live, this.user, this.special_iff, this.new_of_none, this.special_new, this.blk⟩
          · refine ⟨fun _ => rfl, fun _ _ _ => rfl, ?_⟩
            intro h'
            simp only [abs_hnd, acc_setAcc]
            by_cases e : h' = h
            · simp [e, ha, file_setAcc]
            · simp [e, file_setAcc]
        · -- promotion, then the seek
          unfold StepOK
          rw [hstep, if_neg h1, if_neg h2, if_pos h3, if_neg hwr]
          have halone := hsafe a ha hsp0 h3.1 (by rw [htgt]; exact h3.2.1) h3.2.2
          obtain ⟨hww, _, _, heqv⟩ := convert_world w hw h a ha hsp0 halone a.blockSize a.numBlocks hh.blk.1 hh.blk.2
            tgt.toNat false false rfl
          by_cases hnone : (w.file a.file).slotBytes a.slot = none
          · refine ⟨hww, _, ?_, heqv⟩
            simp only [specStep, abs_hnd, ha, Option.map_some, he, hspec_t]
            rw [if_neg htnn]
            have : (w.file a.file).slotBytes a.slot = none ∧ tgt ≠ (a.posn : Int) := ⟨hnone, h1⟩
            rw [if_pos this, hnone]
            rfl
          · cases hb : (w.file a.file).slotBytes a.slot with
            | none => exact absurd hb hnone
            | some b =>
              rw [hb] at heqv he hspec_t
              refine ⟨hww, (abs w).setHnd h (some { file := a.file, key := (w.file a.file).keyOf a.slot, pos := tgt.toNat }), ?_, ?_⟩
              · simp only [specStep, abs_hnd, ha, Option.map_some, he, hspec_t]
                rw [if_neg htnn]
                simp
              · exact Eqv.trans (Eqv.setHnd (Eqv.symm (setElem_same (abs w) a.file _ _ he)) h _) heqv
      · unfold StepOK
        rw [hstep, if_neg h1, if_neg h2, if_neg h3]
        refine ⟨hw.setPosn h a ha _, _, ?_, abs_setPosn w h a ha _⟩
        simp only [specStep, abs_hnd, ha, Option.map_some, he, hspec_t]
        rw [if_neg htnn]
        have : ¬ ((w.file a.file).slotBytes a.slot = none ∧ tgt ≠ (a.posn : Int)) := by
          intro c
          -- an element without length: the only non-failing seek that is not a promotion stays where it is
          have hx : ((w.file a.file).dd a.slot).ext = none := by
            have := c.1; rw [slotBytes_plain _ _ hsp'] at this
            cases hx : ((w.file a.file).dd a.slot).ext with
            | none => rfl
            | some e => rw [hx] at this; simp at this
          have hdl : ddLen ((w.file a.file).dd a.slot) = -1 := by simp [ddLen, hx, INVALID_LENGTH]
          have hdo : ddOff ((w.file a.file).dd a.slot) = -1 := by simp [ddOff, hx, INVALID_OFFSET]
          rw [hdl, hdo] at h3
          rw [hdl] at h2
          by_cases hap : a.appendable = true
          · apply h3
            refine ⟨hap, by omega, ?_⟩
            omega
          · apply h2; right; exact ⟨by simpa using hap, by omega⟩
        rw [if_neg this]

end H4.Elem

namespace H4.Elem
open H4.Gen.Hdf

/-! ### `HLconvert`, `Hsetlength` -/

theorem stepOK_hlconvert (w : World) (hw : WFW w) (h blen nblk : Nat) (hsafe : OpSafe w (.hlconvert h blen nblk)) :
    StepOK w (.hlconvert h blen nblk) := by
  obtain ⟨hb, hn, halone⟩ := hsafe
  cases ha : w.acc h with
  | none => exact stepOK_fail_same w hw _ (by simp [step, hlconvert, ha])
  | some a =>
    have hh := hw.handles h a ha
    have he := handle_elem w hw h a ha
    by_cases hc : (a.special || !(w.file a.file).writable) = true
    · exact stepOK_fail_same w hw _ (by simp only [step, hlconvert, ha]; rw [if_pos hc])
    have hsp0 : a.special = false := by
      cases hs : a.special with
      | false => rfl
      | true => simp [hs] at hc
    by_cases hc2 : (((w.file a.file).dd a.slot).ext.isNone && !a.canWrite) = true
    · exact stepOK_fail_same w hw _ (by simp only [step, hlconvert, ha]; rw [if_neg hc, if_pos hc2])
    obtain ⟨hww, _, _, heqv⟩ := convert_world w hw h a ha hsp0 halone blen nblk hb hn a.posn false false rfl
    unfold StepOK
    have hstep : step w (.hlconvert h blen nblk) =
        ((w.setFile a.file ((w.file a.file).convert a.slot blen nblk).1).setAcc h
          { a with slot := ((w.file a.file).convert a.slot blen nblk).2, special := true, appendable := false,
                   newElem := false }, .ok) := by
      simp only [step, hlconvert, ha]
      rw [if_neg hc, if_neg hc2]
    rw [hstep]
    by_cases hnone : (w.file a.file).slotBytes a.slot = none
    · rw [hnone] at heqv
      refine ⟨hww, (abs w).setElem a.file ((w.file a.file).keyOf a.slot) (some (some [])), ?_, ?_⟩
      · simp only [specStep, abs_hnd, ha, Option.map_some, he, hnone]
        simp
      · exact Eqv.trans (Eqv.symm (setHnd_same _ h _ (by simp [View.setElem, abs_hnd, ha]))) heqv
    · cases hb' : (w.file a.file).slotBytes a.slot with
      | none => exact absurd hb' hnone
      | some b =>
        rw [hb'] at heqv he
        refine ⟨hww, abs w, ?_, ?_⟩
        · simp only [specStep, abs_hnd, ha, Option.map_some, he]
          simp
        · have h1 : ((abs w).setHnd h (some { file := a.file, key := (w.file a.file).keyOf a.slot, pos := a.posn })).Eqv (abs w) :=
            setHnd_same _ h _ (by simp [abs_hnd, ha])
          exact Eqv.trans (Eqv.symm h1) (Eqv.trans (Eqv.setHnd (Eqv.symm (setElem_same (abs w) a.file _ _ he)) h _) heqv)

theorem stepOKC_setlength (w : World) (hw : WFW w) (h len : Nat) (hfresh : Fresh w h) :
    StepOKC w (.setlength h len) := by
  cases ha : w.acc h with
  | none => exact stepOKC_fail_same w hw _ (by simp [stepC, hsetlengthCore, ha])
  | some a =>
    have hh := hw.handles h a ha
    have he := handle_elem w hw h a ha
    by_cases hnew : a.newElem = true
    · by_cases hcw : (!a.canWrite) = true
      · exact stepOKC_fail_same w hw _ (by simp only [stepC, hsetlengthCore, ha]; rw [if_neg (by simp [hnew]), if_pos hcw])
      have hsp0 : a.special = false := by
        cases hs : a.special with
        | false => rfl
        | true => have := hh.special_new hs; rw [hnew] at this; exact absurd this (by decide)
      obtain ⟨hww, _, _, _, _, heqv⟩ := setLength_world w hw h a ha hsp0 (hfresh a ha hnew hsp0) len a.appendable
      have hstep : stepC w (.setlength h len) =
          ((w.setFile a.file ((w.file a.file).setLength a.slot len).1).setAcc h { a with newElem := false }, .ok) := by
        simp only [stepC, hsetlengthCore, ha]
        rw [if_neg (by simp [hnew]), if_neg hcw]
      unfold StepOKC
      rw [hstep]
      have hx : ((w.file a.file).dd a.slot).ext = none := hfresh a ha hnew hsp0
      have hsp' : isSpecial ((w.file a.file).dd a.slot).tag = false := by rw [← hh.special_iff]; exact hsp0
      rw [slotBytes_plain _ _ hsp', hx] at he
      refine ⟨hww, (abs w).setElem a.file ((w.file a.file).keyOf a.slot) (some (some (zeros len))), ?_, ?_⟩
      · simp only [specStep, abs_hnd, ha, Option.map_some, he]
        simp
      · have h1 : (((abs w).setElem a.file ((w.file a.file).keyOf a.slot) (some (some (zeros len)))).setHnd h
            (some { file := a.file, key := (w.file a.file).keyOf a.slot, pos := a.posn })).Eqv
            ((abs w).setElem a.file ((w.file a.file).keyOf a.slot) (some (some (zeros len)))) :=
          setHnd_same _ h _ (by simp [View.setElem, abs_hnd, ha])
        exact Eqv.trans (Eqv.symm h1) heqv
    · exact stepOKC_fail_same w hw _ (by simp only [stepC, hsetlengthCore, ha]; rw [if_pos (by simp [hnew])])

/-- **`Hsetlength`**: `HIrefresh_new`, then the allocation. No side condition: a second id on the element simply finds
    it sized (7f7ac10). -/
theorem stepOK_setlength (w : World) (hw : WFW w) (h len : Nat) : StepOK w (.setlength h len) :=
  stepOK_of_core w hw h (.setlength h len) rfl
    (stepOKC_setlength (w.refresh h) (refresh_spec w hw h).1 h len (refresh_spec w hw h).2.2.1)

/-! ### `Happendable`, `HLsetblockinfo`, `Hendaccess` -/

/-- changing flags of one access record that the byte-array view does not see -/
theorem flags_ok (w : World) (hw : WFW w) (h : Nat) (a a' : Acc) (ha : w.acc h = some a)
    (e1 : a'.file = a.file) (e2 : a'.slot = a.slot) (e3 : a'.posn = a.posn) (e4 : a'.special = a.special)
    (e5 : a'.newElem = a.newElem) (e6 : 1 ≤ a'.blockSize ∧ 1 ≤ a'.numBlocks) :
    WFW (w.setAcc h a') ∧ (abs w).Eqv (abs (w.setAcc h a')) := by
  have hh := hw.handles h a ha
  constructor
  · refine ⟨hw.files, hw.coh, ?_⟩
    intro h' a'' ha''
    rw [acc_setAcc] at ha''
    by_cases e : h' = h
    · simp only [e, if_true, Option.some.injEq] at ha''
      subst ha''
      refine ⟨?_, ?_, ?_, ?_, ?_, e6⟩
      · show (w.file a'.file).live a'.slot; rw [e1, e2]; exact hh.live
      · show UserKey ((w.file a'.file).keyOf a'.slot); rw [e1, e2]; exact hh.user
      · show a'.special = isSpecial ((w.file a'.file).dd a'.slot).tag; rw [e1, e2, e4]; exact hh.special_iff
      · show a'.special = false → ((w.file a'.file).dd a'.slot).ext = none → a'.newElem = true
        rw [e1, e2, e4, e5]; exact hh.new_of_none
      · rw [e4, e5]; exact hh.special_new
    · simp only [e, if_false] at ha''
      have := hw.handles h' a'' ha''
      exact ⟨this.live, this.user, this.special_iff, this.new_of_none, this.special_new, this.blk⟩
  · refine ⟨fun _ => rfl, fun _ _ _ => rfl, ?_⟩
    intro h'
    simp only [abs_hnd, acc_setAcc]
    by_cases e : h' = h
    · simp [e, ha, file_setAcc, e1, e2, e3]
    · simp [e, file_setAcc]

theorem stepOK_appendable (w : World) (hw : WFW w) (h : Nat) : StepOK w (.appendable h) := by
  cases ha : w.acc h with
  | none => exact stepOK_fail_same w hw _ (by simp [step, happendable, ha])
  | some a =>
    obtain ⟨h1, h2⟩ := flags_ok w hw h a { a with appendable := true } ha rfl rfl rfl rfl rfl (hw.handles h a ha).blk
    unfold StepOK
    simp only [step, happendable, ha]
    exact ⟨h1, abs w, rfl, h2⟩

theorem stepOK_setblockinfo (w : World) (hw : WFW w) (h : Nat) (blen nblk : Int) : StepOK w (.setblockinfo h blen nblk) := by
  cases ha : w.acc h with
  | none => exact stepOK_fail_same w hw _ (by simp [step, hsetblockinfo, ha])
  | some a =>
    by_cases hbad : (blen ≤ 0 ∧ blen ≠ -1) ∨ (nblk ≤ 0 ∧ nblk ≠ -1)
    · exact stepOK_fail_same w hw _ (by simp only [step, hsetblockinfo, ha]; rw [if_pos hbad])
    by_cases hsp : a.special = true
    · unfold StepOK
      simp only [step, hsetblockinfo, ha]
      rw [if_neg hbad, if_pos hsp]
      exact ⟨hw, abs w, rfl, Eqv.refl _⟩
    · have hblk := (hw.handles h a ha).blk
      obtain ⟨h1, h2⟩ := flags_ok w hw h a
        { a with blockSize := if blen = -1 then a.blockSize else blen.toNat, numBlocks := if nblk = -1 then a.numBlocks else nblk.toNat }
        ha rfl rfl rfl rfl rfl
        (by
          constructor
          · show 1 ≤ (if blen = -1 then a.blockSize else blen.toNat); split
            · exact hblk.1
            · omega
          · show 1 ≤ (if nblk = -1 then a.numBlocks else nblk.toNat); split
            · exact hblk.2
            · omega)
      unfold StepOK
      simp only [step, hsetblockinfo, ha]
      rw [if_neg hbad, if_neg hsp]
      exact ⟨h1, abs w, rfl, h2⟩

end H4.Elem
