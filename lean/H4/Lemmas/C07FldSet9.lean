import H4.Lemmas.C07FldSet8
/-! `VSsetfields`: the read-list branch follows `buildRList.go` (`l5_loop`). -/
namespace H4.Lemmas.C07Fld
open H4.Gen.Fn.Dfconv H4.Gen.Fn.Vsfld H4.VData H4.Gen.Hdf H4.Gen.Vs H4.C2L H4.VsfldEnc
set_option linter.unusedVariables false
set_option linter.unusedSimpArgs false

/-! ### the read list: the scan of the write-list names (loop 6) and the loop over the requested names (loop 5) -/

theorem l6A_spec (fuel : Nat) (s : VSsetfields.St) (hc : 0 ≤ s.vs_rlist_n ∧ s.vs_rlist_n < s.vs_rlist_item.length) :
    l6A fuel s = { s with found := 1, vs_rlist_item := s.vs_rlist_item.set (Int.toNat s.vs_rlist_n) s.j, vs_rlist_n := s.vs_rlist_n + 1, brk := true } := by
  simp only [l6A]
  rw [sf_chk_true _ _ (by exact hc)]
  rfl

theorem l6A_brk (fuel : Nat) (s : VSsetfields.St) : (l6A fuel s).brk = true := by
  simp [l6A]

theorem l6Body_eq (fuel : Nat) (s : VSsetfields.St) : l6Body fuel s =
    (have s : VSsetfields.St := VSsetfields.chk s (0 ≤ s.i ∧ s.i < s.av.length)
     have s : VSsetfields.St := VSsetfields.chk s (0 ≤ s.j ∧ s.j < s.vs_wlist_name.length)
     have s : VSsetfields.St := VSsetfields.chk s ((strcmpC (s.av.getD (Int.toNat (s.i)) []) (s.vs_wlist_name.getD (Int.toNat (s.j)) [])).isSome = true)
     scanStep s (l6A fuel s) (¬(((strcmpC (s.av.getD (Int.toNat (s.i)) []) (s.vs_wlist_name.getD (Int.toNat (s.j)) [])).getD 0) ≠ 0))) := rfl

theorem sf_loop6_exit (fuel : Nat) (s : VSsetfields.St) (h : ¬ ((s.j < s.vs_wlist_n) ∧ ¬(s.gto ∨ s.brk))) :
    VSsetfields.loop6 fuel s = s := by
  cases fuel <;> (rw [VSsetfields.loop6, if_neg h])

theorem l6_step (fuel : Nat) (s : VSsetfields.St) (hcl : SfClean s) (w : WList) (hn : ∀ f ∈ w.fields, NameOK f.name)
    (nm : String) (hnm : NameOK nm) (pad : List Int)
    (hav : s.av.getD (Int.toNat s.i) [] = chars nm ++ 0 :: pad) (hi : 0 ≤ s.i ∧ s.i < s.av.length)
    (u1 : s.vs_wlist_name = wNames w) (hnu : s.vs_wlist_n = w.n) (j0 : Nat) (hj : s.j = j0) (hj0 : j0 < w.fields.length) :
    VSsetfields.loop6 (fuel + 1) s = VSsetfields.loop6 fuel
      (if (w.fields.getD j0 default).name = nm then VSsetfields.St.set_cnt (l6A (fuel + 1) s) false else { s with j := s.j + 1, cnt := false }) := by
  obtain ⟨h1, h2, h3⟩ := hcl
  have hcond : (s.j < s.vs_wlist_n) ∧ ¬(s.gto ∨ s.brk) := ⟨by rw [hnu, hj]; simp [WList.n]; omega, by simp [h1, h2]⟩
  rw [VSsetfields.loop6, if_pos hcond, loop6_body_pieces, l6Body_eq]
  congr 1
  have hrow : s.vs_wlist_name.getD (Int.toNat s.j) [] = chars (w.fields.getD j0 default).name ++ 0 :: [] := by
    rw [u1, hj]; simp [wNames, hj0, cstr]
  obtain ⟨r, hr, hr0⟩ := strcmp_names nm (w.fields.getD j0 default).name hnm (hn _ (by simp [hj0])) pad []
  have c1 := sf_chk_true s _ hi
  have c2 := sf_chk_true s (0 ≤ s.j ∧ s.j < s.vs_wlist_name.length) (by rw [u1]; simp [wNames]; omega)
  have c3 := sf_chk_true s ((strcmpC (s.av.getD (Int.toNat (s.i)) []) (s.vs_wlist_name.getD (Int.toNat (s.j)) [])).isSome = true)
    (by rw [hav, hrow, hr]; rfl)
  simp only [c1]
  simp only [c2]
  simp only [c3]
  rw [hav, hrow, hr]
  by_cases e : (w.fields.getD j0 default).name = nm
  · have : r = 0 := hr0.mpr e.symm
    subst this
    rw [if_pos e, scanStep_yes _ _ _ (by simp) (Or.inr (l6A_brk _ _))]
  · have hr' : r ≠ 0 := fun h => e (hr0.mp h).symm
    rw [if_neg e, scanStep_no _ _ _ (by simpa using hr') ⟨h1, h2⟩]

def P6 (w : WList) (nm : String) (pad : List Int) (s : VSsetfields.St) : Prop :=
  SfClean s ∧ s.av.getD (Int.toNat s.i) [] = chars nm ++ 0 :: pad ∧ (0 ≤ s.i ∧ s.i < s.av.length) ∧
    s.vs_wlist_name = wNames w ∧ s.vs_wlist_n = w.n ∧ 0 ≤ s.j

theorem l6_scan (w : WList) (hn : ∀ f ∈ w.fields, NameOK f.name) (nm : String) (hnm : NameOK nm) (pad : List Int)
    (fuel : Nat) (s : VSsetfields.St) (hf : w.fields.length ≤ fuel) (hp : P6 w nm pad s) (hj : s.j = 0) :
    match (w.fields.map (·.name)).findIdx? (· == nm) with
    | none => VSsetfields.loop6 fuel s = { s with j := w.fields.length }
    | some d => ∃ f', VSsetfields.loop6 fuel s = VSsetfields.St.set_cnt (l6A f' { s with j := s.j + d }) false := by
  have hj' : s.j.toNat = 0 := by omega
  have := scan_generic VSsetfields.loop6 l6A (P6 w nm pad) (w.fields.map (·.name)) nm
    (fun s hp => ⟨hp.1.2.2, hp.2.2.2.2.2⟩)
    (fun s hp => ⟨⟨hp.1.1, hp.1.2.1, rfl⟩, hp.2.1, hp.2.2.1, hp.2.2.2.1, hp.2.2.2.2.1, by show 0 ≤ s.j + 1; have := hp.2.2.2.2.2; omega⟩)
    (fun fuel s h => sf_loop6_exit fuel s (by intro hc; rcases h with h | h; exact hc.2 (Or.inl h); exact hc.2 (Or.inr h)))
    (fun fuel s hp h => sf_loop6_exit fuel s (by
      intro hc; have h5 := hp.2.2.2.2.1; have := hp.2.2.2.2.2; simp at h; rw [h5] at hc; simp [WList.n] at hc; omega))
    (fun fuel s hp hlt hx => by
      have hlt' : s.j.toNat < w.fields.length := by simpa using hlt
      have hg : (w.fields.map (·.name)).getD s.j.toNat "" = (w.fields.getD s.j.toNat default).name := by simp [hlt']
      rw [hg]
      exact l6_step fuel s hp.1 w hn nm hnm pad hp.2.1 hp.2.2.1 hp.2.2.2.1 hp.2.2.2.2.1 s.j.toNat (by have := hp.2.2.2.2.2; omega) hlt')
    w.fields.length fuel s hf hp (by simp [hj']) (fun d f' _ => Or.inr (l6A_brk _ _))
  rw [hj'] at this
  simp only [List.drop_zero, List.length_map] at this
  exact this

theorem findIdx_map_name' (fs : List Field) (nm : String) :
    (fs.map (·.name)).findIdx? (· == nm) = fs.findIdx? (·.name == nm) := by
  induction fs with
  | nil => rfl
  | cons a t ih => simp [List.findIdx?_cons, ih]

theorem l5B_found (fuel : Nat) (s : VSsetfields.St) (hcl : SfClean s) (hf : s.found = 1) : l5B fuel s = { s with i := s.i + 1 } := by
  obtain ⟨h1, h2, h3⟩ := hcl
  cases s
  simp only at h1 h2 h3 hf
  subst h1 h2 h3 hf
  simp [l5B]

theorem l5B_notfound (fuel : Nat) (s : VSsetfields.St) (hcl : SfClean s) (hf : s.found = 0) :
    l5B fuel s = { s with ret_value := -1, gto := true } := by
  obtain ⟨h1, h2, h3⟩ := hcl
  cases s
  simp only at h1 h2 h3 hf
  subst h1 h2 h3 hf
  simp [l5B]

/-- what the read-list loop leaves alone -/
def rFrame (s : VSsetfields.St) :=
  ((s.vkey, s.ac, s.building, s.vkey_group, s.scan_ret, s.vs_access, s.vs_nvertices),
   (s.vs_wlist_n, s.vs_wlist_ivsize, s.vs_wlist_type_i, s.vs_wlist_off_i, s.vs_wlist_isize_i, s.vs_wlist_order_i, s.vs_wlist_esize_i),
   (s.vs_nusym, s.vs_marked, s.vs_new_h_sz, s.fields_null, s.w_null, s.vs_null, s.vs_wlist_bptr_null, s.vs_wlist_name_null),
   (s.av, s.vs_wlist_name, s.vs_usym_name, s.vs_wlist_bptr, s.vs_usym_order, s.vs_usym_type, s.vs_usym_isize))

/-- invariant of the read-list loop: the indices `items` (in order) are in `rlist.item` -/
structure RInv (ac : Nat) (s0 : VSsetfields.St) (items : List Nat) (s : VSsetfields.St) : Prop where
  fr : rFrame s = rFrame s0
  cl : SfClean s
  hub : s.ub = false
  hoof : s.oof = false
  rv : s.ret_value = -1
  hi : s.i = items.length
  hn : s.vs_rlist_n = items.length
  hl : s.vs_rlist_item.length = ac
  cells : ∀ j, j < items.length → s.vs_rlist_item.getD j 0 = ((items.getD j 0 : Nat) : Int)

/-- the read-list loop was left by `goto done`: the items found so far stay in the read list -/
def RFail (s0 : VSsetfields.St) (items : List Nat) (r : VSsetfields.St) : Prop :=
  r.gto = true ∧ r.brk = false ∧ r.cnt = false ∧ r.ret_value = -1 ∧ rFrame r = rFrame s0 ∧ r.ub = false ∧ r.oof = false ∧
    r.vs_rlist_n = items.length ∧ ∀ j, j < items.length → r.vs_rlist_item.getD j 0 = ((items.getD j 0 : Nat) : Int)

theorem findIdx_getD {α} (l : List α) (p : α → Bool) : l.findIdx p = (l.findIdx? p).getD l.length := by
  induction l with
  | nil => rfl
  | cons a t ih =>
    rw [List.findIdx_cons, List.findIdx?_cons]
    cases h : p a with
    | true => simp
    | false =>
      simp only [Bool.false_eq_true, if_false, cond_false, ih]
      cases t.findIdx? p <;> simp

theorem l5_body {w : WList} {names : List String} {pads : List (List Int)} {s0 s : VSsetfields.St} {items : List Nat}
    (hw : ∀ f ∈ w.fields, NameOK f.name) (hnames : ∀ nm ∈ names, NameOK nm) (hpl : pads.length = names.length)
    (hav : s0.av = avRows names pads) (hac : s0.ac = names.length) (hwn : s0.vs_wlist_name = wNames w) (hwl : s0.vs_wlist_n = w.n)
    (I : RInv names.length s0 items s) (hk : items.length < names.length) (fuel : Nat) (hf : w.fields.length ≤ fuel) :
    if w.fields.findIdx (·.name == names.getD items.length "") < w.fields.length
    then RInv names.length s0 (items ++ [w.fields.findIdx (·.name == names.getD items.length "")]) (VSsetfields.loop5.body fuel s)
    else RFail s0 items (VSsetfields.loop5.body fuel s) := by
  obtain ⟨h1, h2, h3⟩ := I.cl
  have hfr := I.fr
  simp only [rFrame, Prod.mk.injEq] at hfr
  obtain ⟨⟨_, a2, _⟩, ⟨b1, _⟩, _, ⟨d1, d2, _⟩⟩ := hfr
  set nm := names.getD items.length "" with hnm
  have hnmok : NameOK nm := hnames _ (by rw [hnm]; simp [hk])
  set s2 : VSsetfields.St := VSsetfields.St.set_j (VSsetfields.St.set_found s 0) 0 with hs2
  have hi2 : 0 ≤ s2.i ∧ s2.i < (s2.av.length : Int) := by
    show 0 ≤ s.i ∧ s.i < (s.av.length : Int)
    rw [d1, hav, I.hi]; simp [avRows, hpl]; omega
  have hrow2 : s2.av.getD (Int.toNat s2.i) [] = chars nm ++ 0 :: pads.getD items.length [] := by
    show s.av.getD (Int.toNat s.i) [] = _
    rw [d1, hav, I.hi, hnm]
    have := avRows_getD names pads hpl items.length hk
    simpa using this
  have hp6 : P6 w nm (pads.getD items.length []) s2 :=
    ⟨⟨h1, h2, h3⟩, hrow2, hi2, by show s.vs_wlist_name = _; rw [d2, hwn], by show s.vs_wlist_n = _; rw [b1, hwl], by show (0 : Int) ≤ 0; omega⟩
  have hscan := l6_scan w hw nm hnmok (pads.getD items.length []) fuel s2 hf hp6 rfl
  have hbody : VSsetfields.loop5.body fuel s = l5B fuel (VSsetfields.St.set_brk (VSsetfields.loop6 fuel s2) false) := by
    rw [loop5_body_pieces]; rfl
  rw [hbody, findIdx_getD, ← findIdx_map_name']
  cases hd : (w.fields.map (·.name)).findIdx? (· == nm) with
  | none =>
    rw [hd] at hscan
    simp only at hscan
    simp only [Option.getD_none, Nat.lt_irrefl, if_false]
    rw [hscan, l5B_notfound _ _ (by exact ⟨h1, rfl, h3⟩) (by rfl)]
    exact ⟨rfl, rfl, h3, rfl, I.fr, I.hub, I.hoof, I.hn, I.cells⟩
  | some d =>
    rw [hd] at hscan
    obtain ⟨f', hl6⟩ := hscan
    have hdlt : d < w.fields.length := by
      have := (List.findIdx?_eq_some_iff_getElem.mp hd).1
      simpa using this
    simp only [Option.getD_some, if_pos hdlt]
    have hc : 0 ≤ ({ s2 with j := s2.j + (d : Int) } : VSsetfields.St).vs_rlist_n ∧
        ({ s2 with j := s2.j + (d : Int) } : VSsetfields.St).vs_rlist_n < (({ s2 with j := s2.j + (d : Int) } : VSsetfields.St).vs_rlist_item.length : Int) := by
      show 0 ≤ s.vs_rlist_n ∧ s.vs_rlist_n < (s.vs_rlist_item.length : Int)
      rw [I.hn, I.hl]; omega
    rw [hl6, l6A_spec f' _ hc, l5B_found _ _ (by exact ⟨h1, rfl, rfl⟩) (by rfl)]
    refine ⟨I.fr, ⟨h1, rfl, rfl⟩, I.hub, I.hoof, I.rv, ?_, ?_, ?_, ?_⟩
    · show s.i + 1 = _; rw [I.hi]; simp
    · show s.vs_rlist_n + 1 = _; rw [I.hn]; simp
    · show (s.vs_rlist_item.set _ _).length = _; simp [I.hl]
    · intro j hj
      show (s.vs_rlist_item.set (Int.toNat s.vs_rlist_n) ((0 : Int) + d)).getD j 0 = _
      simp only [List.length_append, List.length_singleton] at hj
      have hnt : Int.toNat s.vs_rlist_n = items.length := by rw [I.hn]; simp
      rw [hnt]
      by_cases e : j = items.length
      · subst e
        rw [getD_set_self _ _ _ _ (by rw [I.hl]; exact hk)]
        simp
      · have hj' : j < items.length := by omega
        rw [getD_set_ne' _ _ _ _ _ (by omega), I.cells j hj']
        simp [List.getD_eq_getElem?_getD, List.getElem?_append_left hj']

theorem sf_loop5_exit (fuel : Nat) (s : VSsetfields.St) (h : ¬ ((s.i < s.ac) ∧ ¬(s.gto ∨ s.brk))) :
    VSsetfields.loop5 fuel s = s := by
  cases fuel <;> (rw [VSsetfields.loop5, if_neg h])

/-- the read-list loop follows `buildRList.go` -/
theorem l5_loop {w : WList} {names : List String} {pads : List (List Int)} {s0 : VSsetfields.St}
    (hw : ∀ f ∈ w.fields, NameOK f.name) (hnames : ∀ nm ∈ names, NameOK nm) (hpl : pads.length = names.length)
    (hav : s0.av = avRows names pads) (hac : s0.ac = names.length) (hwn : s0.vs_wlist_name = wNames w) (hwl : s0.vs_wlist_n = w.n) :
    ∀ (n fuel : Nat) (s : VSsetfields.St) (items : List Nat), RInv names.length s0 items s → items.length + n = names.length →
    n + w.fields.length ≤ fuel →
    if (buildRList.go w (names.drop items.length) items.reverse).2 = true
    then RInv names.length s0 (buildRList.go w (names.drop items.length) items.reverse).1 (VSsetfields.loop5 fuel s) ∧
      (buildRList.go w (names.drop items.length) items.reverse).1.length = names.length
    else RFail s0 (buildRList.go w (names.drop items.length) items.reverse).1 (VSsetfields.loop5 fuel s) := by
  intro n
  induction n with
  | zero =>
    intro fuel s items I hn hf
    have hfr := I.fr
    simp only [rFrame, Prod.mk.injEq] at hfr
    obtain ⟨⟨_, a2, _⟩, _⟩ := hfr
    have : names.drop items.length = [] := List.drop_eq_nil_of_le (by omega)
    rw [this]
    simp only [buildRList.go, List.reverse_reverse, if_true]
    rw [sf_loop5_exit _ _ (by rw [I.hi, a2, hac]; omega)]
    exact ⟨I, by omega⟩
  | succ n ih =>
    intro fuel s items I hn hf
    have hfr := I.fr
    simp only [rFrame, Prod.mk.injEq] at hfr
    obtain ⟨⟨_, a2, _⟩, _⟩ := hfr
    obtain ⟨h1, h2, h3⟩ := I.cl
    obtain ⟨fuel', rfl⟩ : ∃ f, fuel = f + 1 := ⟨fuel - 1, by omega⟩
    have hk : items.length < names.length := by omega
    have hdrop : names.drop items.length = names.getD items.length "" :: names.drop (items.length + 1) := by
      rw [List.drop_eq_getElem_cons hk]; simp [hk]
    have hcond : (s.i < s.ac) ∧ ¬(s.gto ∨ s.brk) := ⟨by rw [I.hi, a2, hac]; omega, by simp [h1, h2]⟩
    rw [VSsetfields.loop5, if_pos hcond, hdrop]
    have hb := l5_body hw hnames hpl hav hac hwn hwl I hk (fuel' + 1) (by omega)
    simp only [buildRList.go]
    by_cases c : w.fields.findIdx (·.name == names.getD items.length "") < w.fields.length
    · rw [if_pos c] at hb
      simp only [if_pos c]
      have := ih fuel' _ (items ++ [w.fields.findIdx (·.name == names.getD items.length "")]) hb (by simp; omega) (by omega)
      simpa using this
    · rw [if_neg c] at hb
      simp only [if_neg c, List.reverse_reverse, Bool.false_eq_true, if_false]
      rw [sf_loop5_exit _ _ (by intro hc; exact hc.2 (Or.inl hb.1))]
      exact hb
end H4.Lemmas.C07Fld
