import H4.Lemmas.DDOps
/-! # `HTIcount_dd` (Hnumber): the unrolled two-at-a-time loop, with and without the F5 fix -/
namespace H4.DD
open H4.Gen.Hdf

theorem pairLoop_spec (m : DD → Bool) : ∀ (l : List DD),
    (pairLoop m l).1 = (l.filter m).length ∧ ((pairLoop m l).2 = decide (l.length % 2 = 1)) := by
  intro l
  induction l using pairLoop.induct m with
  | case1 => simp [pairLoop]
  | case2 a => by_cases h : m a <;> simp [pairLoop, h]
  | case3 a b rest ih =>
    obtain ⟨i1, i2⟩ := ih
    simp only [pairLoop, i1, i2]
    constructor
    · by_cases ha : m a <;> by_cases hb : m b <;> simp [ha, hb] <;> omega
    · simp only [List.length_cons]
      congr 1
      apply propext
      omega

/-- one block: the count is always right; a read past the block happens exactly for an odd block whose first
    descriptor does not match, in the code without the F5 fix -/
theorem countBlkPairs_spec (cfg : Cfg) (m : DD → Bool) (dds : List DD) :
    (countBlkPairs cfg m dds).1 = (dds.filter m).length ∧
    ((countBlkPairs cfg m dds).2 = true ↔
      cfg.fixF5 = false ∧ dds.length % 2 = 1 ∧ ∃ d0 rest, dds = d0 :: rest ∧ m d0 = false) := by
  unfold countBlkPairs
  by_cases hodd : dds.length % 2 = 1
  · rw [if_pos hodd]
    cases dds with
    | nil => simp at hodd
    | cons d0 rest =>
      have hre : rest.length % 2 = 0 := by simp at hodd; omega
      obtain ⟨r1, r2⟩ := pairLoop_spec m rest
      obtain ⟨a1, a2⟩ := pairLoop_spec m (d0 :: rest)
      by_cases hm : m d0 = true
      · simp only [hm, if_true, r1, r2]
        refine ⟨by simp [hm], ?_⟩
        simp [hre, hm]
      · have hm' : m d0 = false := by cases h : m d0 <;> simp_all
        simp only [hm', Bool.false_eq_true, if_false]
        by_cases hf : cfg.fixF5 = true
        · simp only [hf, if_true, r1, r2]
          refine ⟨by simp [hm'], ?_⟩
          simp [hre]
        · have hf' : cfg.fixF5 = false := by cases h : cfg.fixF5 <;> simp_all
          simp only [hf', Bool.false_eq_true, if_false, a1, a2]
          refine ⟨trivial, ?_⟩
          simp [hodd, hm']
  · rw [if_neg hodd]
    obtain ⟨a1, a2⟩ := pairLoop_spec m dds
    refine ⟨a1, ?_⟩
    rw [a2]
    simp [hodd]

theorem foldl_count (f : Block → Nat × Bool) : ∀ (blocks : List Block) (c : Nat) (o : Bool),
    blocks.foldl (fun acc b => (acc.1 + (f b).1, acc.2 || (f b).2)) (c, o) =
      (c + (blocks.map (fun b => (f b).1)).sum, o || blocks.any (fun b => (f b).2)) := by
  intro blocks
  induction blocks with
  | nil => intro c o; simp
  | cons b bs ih =>
    intro c o
    simp only [List.foldl_cons, ih, List.map_cons, List.sum_cons, List.any_cons]
    simp [Nat.add_assoc, Bool.or_assoc]

theorem sum_filter_blocks (m : DD → Bool) : ∀ (blocks : List Block),
    (blocks.map (fun b => (b.dds.filter m).length)).sum = ((slotsOf blocks).filter m).length := by
  intro blocks
  induction blocks with
  | nil => rfl
  | cons b bs ih => simp [ih]

/-- the match predicate of `Hnumber(tag)`: the tag itself or its special variant -/
def numMatch (t : Nat) (d : DD) : Bool := d.tag == t || (mkSpecial t != DFTAG_NULL && d.tag == mkSpecial t)

theorem htiCountDD_general (cfg : Cfg) (s : File) {t : Nat} (h0 : t ≠ 0) (h1 : t ≠ 1) (h108 : t ≠ 108) :
    htiCountDD cfg s t =
      if mkSpecial t = DFTAG_NULL then ((s.slots.filter (fun d => d.tag == t)).length, false)
      else s.blocks.foldl (fun acc b =>
        let r := countBlkPairs cfg (fun d => d.tag == t || d.tag == mkSpecial t) b.dds
        (acc.1 + r.1, acc.2 || r.2)) (0, false) := by
  unfold htiCountDD
  rw [if_neg (by simpa [DFTAG_WILDCARD] using h0), if_neg (by simp [DFTAG_NULL, DFTAG_FREE, H4.Gen.DDTie.DFTAG_FREE]; omega)]

/-- `Hnumber(tag)` for an ordinary tag: the count is the number of matching descriptors in the blocks -/
theorem htiCountDD_count (cfg : Cfg) (s : File) {t : Nat} (h0 : t ≠ 0) (h1 : t ≠ 1) (h108 : t ≠ 108) :
    (htiCountDD cfg s t).1 = (s.slots.filter (numMatch t)).length := by
  rw [htiCountDD_general cfg s h0 h1 h108]
  by_cases hs : mkSpecial t = DFTAG_NULL
  · rw [if_pos hs]
    simp only
    congr 1
    apply List.filter_congr
    intro d _
    simp [numMatch, hs]
  · rw [if_neg hs]
    rw [foldl_count (fun b => countBlkPairs cfg (fun d => d.tag == t || d.tag == mkSpecial t) b.dds)]
    simp only [Nat.zero_add]
    have : (fun b : Block => (countBlkPairs cfg (fun d => d.tag == t || d.tag == mkSpecial t) b.dds).1) =
        (fun b : Block => (b.dds.filter (fun d => d.tag == t || d.tag == mkSpecial t)).length) := by
      funext b; exact (countBlkPairs_spec cfg _ b.dds).1
    rw [this, sum_filter_blocks]
    show ((s.slots).filter _).length = _
    congr 1
    apply List.filter_congr
    intro d _
    have : (mkSpecial t != DFTAG_NULL) = true := by simpa using hs
    simp [numMatch, this]

/-- `Hnumber(tag)`: when does `HTIcount_dd` read one `dd_t` past a block? -/
theorem htiCountDD_oob (cfg : Cfg) (s : File) {t : Nat} (h0 : t ≠ 0) (h1 : t ≠ 1) (h108 : t ≠ 108) :
    (htiCountDD cfg s t).2 = true ↔
      cfg.fixF5 = false ∧ mkSpecial t ≠ DFTAG_NULL ∧
      ∃ b ∈ s.blocks, b.dds.length % 2 = 1 ∧ ∃ d0 rest, b.dds = d0 :: rest ∧ numMatch t d0 = false := by
  rw [htiCountDD_general cfg s h0 h1 h108]
  by_cases hs : mkSpecial t = DFTAG_NULL
  · rw [if_pos hs]
    simp [hs]
  · rw [if_neg hs]
    rw [foldl_count (fun b => countBlkPairs cfg (fun d => d.tag == t || d.tag == mkSpecial t) b.dds)]
    simp only [Bool.false_or, List.any_eq_true]
    have hsp : (mkSpecial t != DFTAG_NULL) = true := by simpa using hs
    constructor
    · rintro ⟨b, hb, hoob⟩
      obtain ⟨f5, hodd, d0, rest, hd, hm⟩ := (countBlkPairs_spec cfg _ b.dds).2.mp hoob
      exact ⟨f5, hs, b, hb, hodd, d0, rest, hd, by simpa [numMatch, hsp] using hm⟩
    · rintro ⟨f5, _, b, hb, hodd, d0, rest, hd, hm⟩
      exact ⟨b, hb, (countBlkPairs_spec cfg _ b.dds).2.mpr ⟨f5, hodd, d0, rest, hd, by simpa [numMatch, hsp] using hm⟩⟩

/-- `Hnumber(DFTAG_WILDCARD)` -/
theorem htiCountDD_wild (cfg : Cfg) (s : File) :
    htiCountDD cfg s 0 = ((s.slots.filter (fun d => !(d.tag == DFTAG_NULL || d.tag == DFTAG_FREE))).length, false) := by
  simp [htiCountDD, DFTAG_WILDCARD]

end H4.DD
