import H4.Lemmas.C07Fn5
/-! Lemmas for `H4.Props.C07Fn3`, part 4: the loops of the translated `vunpackvs` that are not plain array reads: the field names
    (a fresh row per name, `HIstrncpy`), the attribute list (three field arrays), the old-type mapping and the `esize` loop (cells of the
    one block `wlist.bptr` computed from other cells of it).  Core only. -/
set_option linter.unusedSimpArgs false
set_option linter.unusedVariables false
namespace H4.Lemmas.C07Fn3
open H4 H4.Gen.Hdf H4.Gen.Fn.Vio3 H4.C2L
open H4.Lemmas.C08Fn3 (andS orS andU orU andS_255 andU_255 b8 be16 be32 b8_range b8_nat or_add or_add' orS_nat orU_nat v16 S32 orS_S32 orS_S32i
  nattrs_val flags_val be16N be16_eq be16N_lt be32N be32_eq be32N_lt w16 take_takeWhile_length vals vals_length vals_succ fill fill_nil fill_length
  fill_snoc strAt)

theorem fill_getD_lt (l : List Int) (k : Nat) (vs : List Int) (x : Nat) (d : Int) (hx : x < k) (hk : k ≤ l.length) :
    (fill l k vs).getD x d = l.getD x d := by
  simp only [fill, List.getD_eq_getElem?_getD, List.append_assoc]
  rw [List.getElem?_append_left (by simp; omega)]
  simp [List.getElem?_take, hx]

theorem fill_getD_ge (l : List Int) (k : Nat) (vs : List Int) (x : Nat) (d : Int) (hx : k + vs.length ≤ x) (hk : k + vs.length ≤ l.length) :
    (fill l k vs).getD x d = l.getD x d := by
  simp only [fill, List.getD_eq_getElem?_getD]
  rw [List.getElem?_append_right (by simp; omega)]
  simp only [List.length_append, List.length_take, List.getElem?_drop]
  congr 2
  omega

/-- position of the length prefix of field name `j` (names start at `p0`) -/
def namePos (B : List Int) (p0 : Nat) : Nat → Nat
  | 0 => p0
  | j + 1 => namePos B p0 j + 2 + be16N B (namePos B p0 j)

def nameLen (B : List Int) (p0 j : Nat) : Nat := be16N B (namePos B p0 j)

theorem namePos_mono (B : List Int) (p0 : Nat) : ∀ j k, j ≤ k → namePos B p0 j ≤ namePos B p0 k := by
  intro j k h
  induction k with
  | zero => have : j = 0 := by omega
            subst this; exact Nat.le_refl _
  | succ k ih =>
    by_cases hj : j = k + 1
    · subst hj; exact Nat.le_refl _
    · have := ih (by omega)
      simp only [namePos]; omega

/-- the rows after `j` passes of the name loop: `j` C strings in fresh blocks, the remaining rows untouched -/
def rowsAt (B : List Int) (p0 : Nat) (rows : List (List Int)) (j : Nat) : List (List Int) :=
  (List.range j).map (fun t => strAt B (namePos B p0 t + 2) (nameLen B p0 t)) ++ rows.drop j

theorem rowsAt_zero (B : List Int) (p0 : Nat) (rows : List (List Int)) : rowsAt B p0 rows 0 = rows := by simp [rowsAt]

theorem rowsAt_length (B : List Int) (p0 : Nat) (rows : List (List Int)) (j : Nat) (h : j ≤ rows.length) : (rowsAt B p0 rows j).length = rows.length := by
  simp [rowsAt]; omega

theorem rowsAt_set (B : List Int) (p0 : Nat) (rows : List (List Int)) (j : Nat) (h : j < rows.length) :
    (rowsAt B p0 rows j).set j (strAt B (namePos B p0 j + 2) (nameLen B p0 j)) = rowsAt B p0 rows (j + 1) := by
  simp only [rowsAt, List.range_succ, List.map_append, List.map_cons, List.map_nil]
  rw [List.set_append_right _ _ (by simp)]
  simp only [List.length_map, List.length_range, Nat.sub_self]
  rw [List.drop_eq_getElem_cons h, List.set_cons_zero]
  simp

theorem rowsAt_getD (B : List Int) (p0 : Nat) (rows : List (List Int)) (j : Nat) (h : j < rows.length) :
    (rowsAt B p0 rows j).getD j [] = rows.getD j [] := by
  simp only [rowsAt, List.getD_eq_getElem?_getD]
  rw [List.getElem?_append_right (by simp)]
  simp [h]

theorem strAt_eq (B : List Int) (p l : Nat) :
    strAt B p l = ((B.drop p).take l).takeWhile (· ≠ 0) ++ 0 :: (List.replicate (l + 1) 170).drop ((((B.drop p).take l).takeWhile (· ≠ 0)).length + 1) := by
  simp only [strAt, List.drop_replicate]
  congr 3
  omega

theorem allocRow_ok (s : St) (j l : Nat) (hi : s.i = j) (hj : j < s.vs_wlist_name.length) (hu : s.int16var = l) (hl : l < 32768) (hub : s.ub = false) :
    allocRow s = vunpackvs.St.set_vs_wlist_name s (s.vs_wlist_name.set j (List.replicate (l + 1) 170)) := by
  have c : ¬ (((((((s.int16var + 1)) % 18446744073709551616) * 1)) % 18446744073709551616) > 9223372036854775807) := by rw [hu]; omega
  have t : Int.toNat (Int.tdiv ((((((s.int16var + 1)) % 18446744073709551616) * 1)) % 18446744073709551616) 1) = l + 1 := by
    rw [hu, Int.tdiv_eq_ediv_of_nonneg (by omega)]; omega
  simp only [allocRow]
  rw [chk_true s _ (by rw [hi]; omega)]
  rw [if_neg c, if_neg c, t, hi, Int.toNat_natCast]

theorem cpyRow_ok {B s p} (h : Ok B s p) (j l : Nat) (hi : s.i = j) (hj : j < s.vs_wlist_name.length) (hu : s.int16var = l)
    (hl : p + l ≤ B.length) (hrow : s.vs_wlist_name.getD j [] = List.replicate (l + 1) 170) :
    cpyRow s = vunpackvs.St.set_vs_wlist_name s (s.vs_wlist_name.set j (strAt B p l)) := by
  have hK : (((B.drop p).take l).takeWhile (· ≠ 0)).length ≤ l := by
    have := (List.takeWhile_prefix (l := (B.drop p).take l) (· ≠ (0 : Int))).length_le
    simp only [List.length_take, List.length_drop] at this
    omega
  simp only [cpyRow]
  rw [chk_true s _ (by rw [hi]; omega)]
  rw [cpy_ok (fun s => (s.vs_wlist_name.getD (Int.toNat (s.i)) [])) (fun s v => vunpackvs.St.set_vs_wlist_name s (s.vs_wlist_name.set (Int.toNat (s.i)) v)) h l hu hl
    (by show _ ≤ (s.vs_wlist_name.getD (Int.toNat (s.i)) []).length; rw [hi, Int.toNat_natCast, hrow, List.length_replicate]; omega)]
  show vunpackvs.St.set_vs_wlist_name s (s.vs_wlist_name.set (Int.toNat (s.i)) (_ ++ 0 :: (s.vs_wlist_name.getD (Int.toNat (s.i)) []).drop _)) = _
  rw [hi, Int.toNat_natCast, hrow, ← strAt_eq]

/-- the state of the name loop after `j` passes -/
def F4 (B : List Int) (s : St) (p0 : Nat) (j : Nat) : St :=
  (((s.set_vs_wlist_name (rowsAt B p0 s.vs_wlist_name j)).set_int16var (if j = 0 then s.int16var else (nameLen B p0 (j - 1) : Int))).set_i ((j : Nat) : Int)).set_bb
    ((namePos B p0 j : Nat) : Int)

theorem loop4_ok (M D : Int → Int) {B s p0} (h : Ok B s p0) (m fuel : Nat) (hu : s.i = 0) (hn : s.vs_wlist_n = (m : Int))
    (hrows : s.vs_wlist_name.length = m)
    (hlen : ∀ t, t < m → nameLen B p0 t < 32768) (hend : namePos B p0 m ≤ B.length) (hf : m ≤ fuel) :
    vunpackvs.loop4 M D fuel s = F4 B s p0 m ∧ Ok B (F4 B s p0 m) (namePos B p0 m) := by
  refine ⟨?_, ⟨h.buf, rfl, h.ub, h.oof, h.done, h.gto⟩⟩
  have hF0 : F4 B s p0 0 = s := by
    simp only [F4, rowsAt_zero, namePos, vunpackvs.St.set_vs_wlist_name, vunpackvs.St.set_int16var, vunpackvs.St.set_i, vunpackvs.St.set_bb, if_true]
    have e1 : ((0 : Nat) : Int) = s.i := by rw [hu]; rfl
    have e2 : ((p0 : Nat) : Int) = s.bb := by rw [h.bb]
    rw [e1, e2]
  have key := loop_iterG (vunpackvs.loop4 M D) (fun s => (s.i < s.vs_wlist_n) ∧ ¬(s.done ∨ s.gto)) (vunpackvs.loop4.body M D)
    (fun s hc => by rw [vunpackvs.loop4]; exact if_neg hc)
    (fun fuel s => by rw [vunpackvs.loop4])
    m (F4 B s p0)
    (fun j hj => by
      have ok : Ok B (F4 B s p0 j) (namePos B p0 j) := ⟨h.buf, rfl, h.ub, h.oof, h.done, h.gto⟩
      refine ⟨⟨?_, ?_⟩, fun fuel => ?_⟩
      · show ((j : Nat) : Int) < s.vs_wlist_n
        rw [hn]; omega
      · show ¬ (s.done = true ∨ s.gto = true)
        rw [h.done, h.gto]; simp
      · have hmono := namePos_mono B p0 (j + 1) m (by omega)
        have hstep : namePos B p0 (j + 1) = namePos B p0 j + 2 + nameLen B p0 j := rfl
        have hl := hlen j hj
        rw [loop4_body]
        obtain ⟨q1, o1⟩ := decS16s_ok (·.int16var) vunpackvs.St.set_int16var
          (fun _ => ⟨fun _ => rfl, fun _ => rfl, fun _ => rfl, fun _ => rfl, fun _ => rfl, fun _ => rfl⟩) (fun _ _ => rfl) (fun _ _ _ => rfl) ok (by omega)
        have ew : w16 (be16 B (namePos B p0 j)) = (nameLen B p0 j : Int) := by
          rw [be16_eq]; simp only [w16, nameLen] at hl ⊢; omega
        rw [ew] at q1 o1
        simp only [decS16v]
        rw [q1]
        generalize hs1 : vunpackvs.St.set_bb (vunpackvs.St.set_int16var (F4 B s p0 j) (nameLen B p0 j : Int)) ((namePos B p0 j + 2 : Nat) : Int) = s1 at o1
        have i1 : s1.i = j := by rw [← hs1]; rfl
        have r1 : s1.vs_wlist_name = rowsAt B p0 s.vs_wlist_name j := by rw [← hs1]; rfl
        have u1 : s1.int16var = (nameLen B p0 j : Int) := by rw [← hs1]
        have q2 := allocRow_ok s1 j (nameLen B p0 j) i1 (by rw [r1, rowsAt_length _ _ _ _ (by omega)]; omega) u1 hl o1.ub
        rw [q2]
        have o2 : Ok B (vunpackvs.St.set_vs_wlist_name s1 (s1.vs_wlist_name.set j (List.replicate (nameLen B p0 j + 1) 170))) (namePos B p0 j + 2) :=
          ⟨o1.buf, o1.bb, o1.ub, o1.oof, o1.done, o1.gto⟩
        rw [guard_ok o2]
        have q3 := cpyRow_ok o2 j (nameLen B p0 j) i1 (by show j < (s1.vs_wlist_name.set j _).length; rw [List.length_set, r1, rowsAt_length _ _ _ _ (by omega)]; omega)
          u1 (by omega) (by show (s1.vs_wlist_name.set j _).getD j [] = _; rw [List.getD_eq_getElem?_getD, List.getElem?_set_self (by rw [r1, rowsAt_length _ _ _ _ (by omega)]; omega)]; rfl)
        rw [q3]
        have e3 : (s1.vs_wlist_name.set j (List.replicate (nameLen B p0 j + 1) 170)).set j (strAt B (namePos B p0 j + 2) (nameLen B p0 j)) = rowsAt B p0 s.vs_wlist_name (j + 1) := by
          rw [List.set_set, r1, rowsAt_set _ _ _ _ (by omega)]
        show guard (guard (vunpackvs.St.set_vs_wlist_name _ ((s1.vs_wlist_name.set j (List.replicate (nameLen B p0 j + 1) 170)).set j (strAt B (namePos B p0 j + 2) (nameLen B p0 j)))) skip) _ = _
        rw [e3]
        have o3 : Ok B (vunpackvs.St.set_vs_wlist_name (vunpackvs.St.set_vs_wlist_name s1 (s1.vs_wlist_name.set j (List.replicate (nameLen B p0 j + 1) 170))) (rowsAt B p0 s.vs_wlist_name (j + 1))) (namePos B p0 j + 2) :=
          ⟨o1.buf, o1.bb, o1.ub, o1.oof, o1.done, o1.gto⟩
        rw [guard_ok o3]
        obtain ⟨q4, o4⟩ := skip_ok o3 (nameLen B p0 j) u1 hl
        rw [q4, guard_ok o4, ← hs1]
        simp only [F4, vunpackvs.St.set_vs_wlist_name, vunpackvs.St.set_int16var, vunpackvs.St.set_i, vunpackvs.St.set_bb, Nat.add_sub_cancel, Nat.succ_ne_zero, if_false]
        congr 1)
    (by
      show ¬ (((m : Nat) : Int) < s.vs_wlist_n ∧ _)
      rw [hn]; omega)
    m 0 fuel (by omega) hf
  rw [hF0] at key
  exact key

/-- the 32-bit two's complement values at `p, p+st, …` -/
def vals32 (B : List Int) (p st m : Nat) : List Int := (List.range m).map fun j => S32 (be32 B (p + st * j))

@[simp] theorem vals32_length (B : List Int) (p st m : Nat) : (vals32 B p st m).length = m := by simp [vals32]

theorem vals32_succ (B : List Int) (p st m : Nat) : vals32 B p st (m + 1) = vals32 B p st m ++ [S32 (be32 B (p + st * m))] := by
  simp [vals32, List.range_succ]

/-- the state of the attribute loop after `j` passes -/
def F5 (B : List Int) (s : St) (p : Nat) (j : Nat) : St :=
  ((((s.set_vs_alist_findex (fill s.vs_alist_findex 0 (vals32 B p 8 j))).set_vs_alist_atag (fill s.vs_alist_atag 0 (vals B (p + 4) 8 j))).set_vs_alist_aref
    (fill s.vs_alist_aref 0 (vals B (p + 6) 8 j))).set_i ((j : Nat) : Int)).set_bb ((p + 8 * j : Nat) : Int)

theorem loop5_ok (M D : Int → Int) {B s p} (h : Ok B s p) (m fuel : Nat) (hu : s.i = 0) (hn : s.vs_nattrs = (m : Int))
    (hl : p + 8 * m ≤ B.length) (ht1 : m ≤ s.vs_alist_findex.length) (ht2 : m ≤ s.vs_alist_atag.length) (ht3 : m ≤ s.vs_alist_aref.length)
    (hf : m ≤ fuel) :
    vunpackvs.loop5 M D fuel s = F5 B s p m ∧ Ok B (F5 B s p m) (p + 8 * m) := by
  refine ⟨?_, ⟨h.buf, rfl, h.ub, h.oof, h.done, h.gto⟩⟩
  have hF0 : F5 B s p 0 = s := by
    simp only [F5, vals, vals32, List.range_zero, List.map_nil, fill_nil, vunpackvs.St.set_vs_alist_findex, vunpackvs.St.set_vs_alist_atag,
      vunpackvs.St.set_vs_alist_aref, vunpackvs.St.set_i, vunpackvs.St.set_bb]
    have e1 : ((0 : Nat) : Int) = s.i := by rw [hu]; rfl
    have e2 : ((p + 8 * 0 : Nat) : Int) = s.bb := by rw [h.bb]; rfl
    rw [e1, e2]
  have key := loop_iterG (vunpackvs.loop5 M D) (fun s => (s.i < s.vs_nattrs) ∧ ¬(s.done ∨ s.gto)) (vunpackvs.loop5.body M D)
    (fun s hc => by rw [vunpackvs.loop5]; exact if_neg hc)
    (fun fuel s => by rw [vunpackvs.loop5])
    m (F5 B s p)
    (fun j hj => by
      have ok : Ok B (F5 B s p j) (p + 8 * j) := ⟨h.buf, rfl, h.ub, h.oof, h.done, h.gto⟩
      refine ⟨⟨?_, ?_⟩, fun fuel => ?_⟩
      · show ((j : Nat) : Int) < s.vs_nattrs
        rw [hn]; omega
      · show ¬ (s.done = true ∨ s.gto = true)
        rw [h.done, h.gto]; simp
      · rw [loop5_body]
        obtain ⟨q1, o1⟩ := decS32a_ok (·.i) (·.vs_alist_findex) vunpackvs.St.set_vs_alist_findex
          (fun _ => ⟨fun _ => rfl, fun _ => rfl, fun _ => rfl, fun _ => rfl, fun _ => rfl, fun _ => rfl⟩)
          (fun _ _ => rfl) (fun _ _ => rfl) (fun _ _ _ => rfl) ok (by omega) j rfl
          (by show j < (fill s.vs_alist_findex 0 (vals32 B p 8 j)).length; rw [fill_length _ _ _ (by simp; omega)]; omega)
        obtain ⟨q2, o2⟩ := dec16a_ok (·.i) (·.vs_alist_atag) vunpackvs.St.set_vs_alist_atag
          (fun _ => ⟨fun _ => rfl, fun _ => rfl, fun _ => rfl, fun _ => rfl, fun _ => rfl, fun _ => rfl⟩)
          (fun _ _ => rfl) (fun _ _ => rfl) (fun _ _ _ => rfl) o1 (by omega) j rfl
          (by show j < (fill s.vs_alist_atag 0 (vals B (p + 4) 8 j)).length; rw [fill_length _ _ _ (by simp; omega)]; omega)
        obtain ⟨q3, _⟩ := dec16a_ok (·.i) (·.vs_alist_aref) vunpackvs.St.set_vs_alist_aref
          (fun _ => ⟨fun _ => rfl, fun _ => rfl, fun _ => rfl, fun _ => rfl, fun _ => rfl, fun _ => rfl⟩)
          (fun _ _ => rfl) (fun _ _ => rfl) (fun _ _ _ => rfl) o2 (by omega) j rfl
          (by show j < (fill s.vs_alist_aref 0 (vals B (p + 6) 8 j)).length; rw [fill_length _ _ _ (by simp; omega)]; omega)
        simp only [q1, q2, q3]
        show vunpackvs.St.set_i (vunpackvs.St.set_bb (vunpackvs.St.set_vs_alist_aref (vunpackvs.St.set_bb (vunpackvs.St.set_vs_alist_atag
          (vunpackvs.St.set_bb (vunpackvs.St.set_vs_alist_findex (F5 B s p j) ((fill s.vs_alist_findex 0 (vals32 B p 8 j)).set j (S32 (be32 B (p + 8 * j))))) _)
          ((fill s.vs_alist_atag 0 (vals B (p + 4) 8 j)).set j (be16 B (p + 8 * j + 4)))) _)
          ((fill s.vs_alist_aref 0 (vals B (p + 6) 8 j)).set j (be16 B (p + 8 * j + 4 + 2)))) _) _ = _
        have e1 := fill_snoc s.vs_alist_findex 0 (vals32 B p 8 j) (S32 (be32 B (p + 8 * j))) (by simp; omega)
        have e2 := fill_snoc s.vs_alist_atag 0 (vals B (p + 4) 8 j) (be16 B (p + 8 * j + 4)) (by simp; omega)
        have e3 := fill_snoc s.vs_alist_aref 0 (vals B (p + 6) 8 j) (be16 B (p + 8 * j + 4 + 2)) (by simp; omega)
        simp only [vals_length, vals32_length, Nat.zero_add] at e1 e2 e3
        have a1 : p + 8 * j + 4 = p + 4 + 8 * j := by omega
        have a2 : p + 4 + 8 * j + 2 = p + 6 + 8 * j := by omega
        rw [e1, e2, e3, ← vals32_succ, a1, ← vals_succ, a2, ← vals_succ]
        simp only [F5, vunpackvs.St.set_vs_alist_findex, vunpackvs.St.set_vs_alist_atag, vunpackvs.St.set_vs_alist_aref, vunpackvs.St.set_i, vunpackvs.St.set_bb]
        congr 1
        omega)
    (by
      show ¬ (((m : Nat) : Int) < s.vs_nattrs ∧ _)
      rw [hn]; omega)
    m 0 fuel (by omega) hf
  rw [hF0] at key
  exact key

/-- values computed from cells of the ORIGINAL block -/
def gens (f : Nat → Int) (m : Nat) : List Int := (List.range m).map f

@[simp] theorem gens_length (f : Nat → Int) (m : Nat) : (gens f m).length = m := by simp [gens]
theorem gens_succ (f : Nat → Int) (m : Nat) : gens f (m + 1) = gens f m ++ [f m] := by simp [gens, List.range_succ]

/-- the state of the old-type mapping loop after `j` passes -/
def F6 (M : Int → Int) (s : St) (tN : Nat) (j : Nat) : St :=
  (s.set_vs_wlist_bptr (fill s.vs_wlist_bptr tN (gens (fun t => M (s.vs_wlist_bptr.getD (tN + t) 0)) j))).set_i ((j : Nat) : Int)

theorem loop6_ok (M D : Int → Int) {B s p} (h : Ok B s p) (m fuel tN : Nat) (hu : s.i = 0) (hn : s.vs_wlist_n = (m : Int))
    (hc : s.vs_wlist_type = (tN : Int)) (ht : tN + m ≤ s.vs_wlist_bptr.length) (hf : m ≤ fuel) :
    vunpackvs.loop6 M D fuel s = F6 M s tN m ∧ Ok B (F6 M s tN m) p := by
  refine ⟨?_, ⟨h.buf, h.bb, h.ub, h.oof, h.done, h.gto⟩⟩
  have hF0 : F6 M s tN 0 = s := by
    simp only [F6, gens, List.range_zero, List.map_nil, fill_nil, vunpackvs.St.set_vs_wlist_bptr, vunpackvs.St.set_i]
    have e1 : ((0 : Nat) : Int) = s.i := by rw [hu]; rfl
    rw [e1]
  have key := loop_iterG (vunpackvs.loop6 M D) (fun s => (s.i < s.vs_wlist_n) ∧ ¬(s.done ∨ s.gto)) (vunpackvs.loop6.body M D)
    (fun s hc => by rw [vunpackvs.loop6]; exact if_neg hc)
    (fun fuel s => by rw [vunpackvs.loop6])
    m (F6 M s tN)
    (fun j hj => by
      refine ⟨⟨?_, ?_⟩, fun fuel => ?_⟩
      · show ((j : Nat) : Int) < s.vs_wlist_n
        rw [hn]; omega
      · show ¬ (s.done = true ∨ s.gto = true)
        rw [h.done, h.gto]; simp
      · rw [loop6_body]
        have hlen : (fill s.vs_wlist_bptr tN (gens (fun t => M (s.vs_wlist_bptr.getD (tN + t) 0)) j)).length = s.vs_wlist_bptr.length :=
          fill_length _ _ _ (by simp; omega)
        have e0 : Int.toNat ((F6 M s tN j).vs_wlist_type + (F6 M s tN j).i) = tN + j := by
          show Int.toNat (s.vs_wlist_type + ((j : Nat) : Int)) = _
          rw [hc]; omega
        have c1 : idxchk (fun s => (s.vs_wlist_type + s.i)) (·.vs_wlist_bptr) (F6 M s tN j) = F6 M s tN j :=
          chk_true _ _ (by
            show 0 ≤ s.vs_wlist_type + ((j : Nat) : Int) ∧ s.vs_wlist_type + ((j : Nat) : Int) < ((fill _ _ _).length : Int)
            rw [hlen, hc]; omega)
        simp only [c1, e0]
        have g : (F6 M s tN j).vs_wlist_bptr.getD (tN + j) 0 = s.vs_wlist_bptr.getD (tN + j) 0 :=
          fill_getD_ge _ _ _ _ _ (by simp) (by simp; omega)
        rw [g]
        have e := fill_snoc s.vs_wlist_bptr tN (gens (fun t => M (s.vs_wlist_bptr.getD (tN + t) 0)) j) (M (s.vs_wlist_bptr.getD (tN + j) 0)) (by simp; omega)
        simp only [gens_length] at e
        show vunpackvs.St.set_i (vunpackvs.St.set_vs_wlist_bptr (F6 M s tN j) ((fill s.vs_wlist_bptr tN _).set (tN + j) _)) _ = _
        rw [e, ← gens_succ (fun t => M (s.vs_wlist_bptr.getD (tN + t) 0))]
        simp only [F6, vunpackvs.St.set_vs_wlist_bptr, vunpackvs.St.set_i]
        congr 1)
    (by
      show ¬ (((m : Nat) : Int) < s.vs_wlist_n ∧ _)
      rw [hn]; omega)
    m 0 fuel (by omega) hf
  rw [hF0] at key
  exact key

/-- `esize[t] = (uint16)(order[t] * DFKNTsize(type[t] | DFNT_NATIVE))` from the cells of the block -/
def esz (D : Int → Int) (bp : List Int) (tN oN t : Nat) : Int := (bp.getD (oN + t) 0 * D (orS (bp.getD (tN + t) 0) 4096)) % 65536

/-- the state of the `esize` loop after `j` passes -/
def F7 (D : Int → Int) (s : St) (tN oN eN : Nat) (j : Nat) : St :=
  (s.set_vs_wlist_bptr (fill s.vs_wlist_bptr eN (gens (esz D s.vs_wlist_bptr tN oN) j))).set_i ((j : Nat) : Int)

theorem loop7_ok (M D : Int → Int) {B s p} (h : Ok B s p) (m fuel tN oN eN : Nat) (hu : s.i = 0) (hn : s.vs_wlist_n = (m : Int))
    (hct : s.vs_wlist_type = (tN : Int)) (hco : s.vs_wlist_order = (oN : Int)) (hce : s.vs_wlist_esize = (eN : Int))
    (h1 : tN + m ≤ eN) (h2 : oN + m ≤ eN) (ht : eN + m ≤ s.vs_wlist_bptr.length) (hf : m ≤ fuel) :
    vunpackvs.loop7 M D fuel s = F7 D s tN oN eN m ∧ Ok B (F7 D s tN oN eN m) p := by
  refine ⟨?_, ⟨h.buf, h.bb, h.ub, h.oof, h.done, h.gto⟩⟩
  have hF0 : F7 D s tN oN eN 0 = s := by
    simp only [F7, gens, List.range_zero, List.map_nil, fill_nil, vunpackvs.St.set_vs_wlist_bptr, vunpackvs.St.set_i]
    have e1 : ((0 : Nat) : Int) = s.i := by rw [hu]; rfl
    rw [e1]
  have key := loop_iterG (vunpackvs.loop7 M D) (fun s => (s.i < s.vs_wlist_n) ∧ ¬(s.done ∨ s.gto)) (vunpackvs.loop7.body M D)
    (fun s hc => by rw [vunpackvs.loop7]; exact if_neg hc)
    (fun fuel s => by rw [vunpackvs.loop7])
    m (F7 D s tN oN eN)
    (fun j hj => by
      refine ⟨⟨?_, ?_⟩, fun fuel => ?_⟩
      · show ((j : Nat) : Int) < s.vs_wlist_n
        rw [hn]; omega
      · show ¬ (s.done = true ∨ s.gto = true)
        rw [h.done, h.gto]; simp
      · rw [loop7_body]
        have hlen : (fill s.vs_wlist_bptr eN (gens (esz D s.vs_wlist_bptr tN oN) j)).length = s.vs_wlist_bptr.length :=
          fill_length _ _ _ (by simp; omega)
        have et : Int.toNat ((F7 D s tN oN eN j).vs_wlist_type + (F7 D s tN oN eN j).i) = tN + j := by
          show Int.toNat (s.vs_wlist_type + ((j : Nat) : Int)) = _
          rw [hct]; omega
        have eo : Int.toNat ((F7 D s tN oN eN j).vs_wlist_order + (F7 D s tN oN eN j).i) = oN + j := by
          show Int.toNat (s.vs_wlist_order + ((j : Nat) : Int)) = _
          rw [hco]; omega
        have ee : Int.toNat ((F7 D s tN oN eN j).vs_wlist_esize + (F7 D s tN oN eN j).i) = eN + j := by
          show Int.toNat (s.vs_wlist_esize + ((j : Nat) : Int)) = _
          rw [hce]; omega
        have c1 : idxchk (fun s => (s.vs_wlist_order + s.i)) (·.vs_wlist_bptr) (F7 D s tN oN eN j) = F7 D s tN oN eN j :=
          chk_true _ _ (by
            show 0 ≤ s.vs_wlist_order + ((j : Nat) : Int) ∧ s.vs_wlist_order + ((j : Nat) : Int) < ((fill _ _ _).length : Int)
            rw [hlen, hco]; omega)
        have c2 : idxchk (fun s => (s.vs_wlist_type + s.i)) (·.vs_wlist_bptr) (F7 D s tN oN eN j) = F7 D s tN oN eN j :=
          chk_true _ _ (by
            show 0 ≤ s.vs_wlist_type + ((j : Nat) : Int) ∧ s.vs_wlist_type + ((j : Nat) : Int) < ((fill _ _ _).length : Int)
            rw [hlen, hct]; omega)
        have c3 : idxchk (fun s => (s.vs_wlist_esize + s.i)) (·.vs_wlist_bptr) (F7 D s tN oN eN j) = F7 D s tN oN eN j :=
          chk_true _ _ (by
            show 0 ≤ s.vs_wlist_esize + ((j : Nat) : Int) ∧ s.vs_wlist_esize + ((j : Nat) : Int) < ((fill _ _ _).length : Int)
            rw [hlen, hce]; omega)
        simp only [c1, c2, c3, et, eo, ee]
        have g1 : (F7 D s tN oN eN j).vs_wlist_bptr.getD (oN + j) 0 = s.vs_wlist_bptr.getD (oN + j) 0 :=
          fill_getD_lt _ _ _ _ _ (by omega) (by omega)
        have g2 : (F7 D s tN oN eN j).vs_wlist_bptr.getD (tN + j) 0 = s.vs_wlist_bptr.getD (tN + j) 0 :=
          fill_getD_lt _ _ _ _ _ (by omega) (by omega)
        rw [g1, g2]
        have e := fill_snoc s.vs_wlist_bptr eN (gens (esz D s.vs_wlist_bptr tN oN) j) (esz D s.vs_wlist_bptr tN oN j) (by simp; omega)
        simp only [gens_length] at e
        show vunpackvs.St.set_i (vunpackvs.St.set_vs_wlist_bptr (F7 D s tN oN eN j) ((fill s.vs_wlist_bptr eN _).set (eN + j) (esz D s.vs_wlist_bptr tN oN j))) _ = _
        rw [e, ← gens_succ]
        simp only [F7, vunpackvs.St.set_vs_wlist_bptr, vunpackvs.St.set_i]
        congr 1)
    (by
      show ¬ (((m : Nat) : Int) < s.vs_wlist_n ∧ _)
      rw [hn]; omega)
    m 0 fuel (by omega) hf
  rw [hF0] at key
  exact key

end H4.Lemmas.C07Fn3
