import H4.Gen.Fn.Crle
import H4.Lemmas.Rle
import H4.Lemmas.C2L
/-! Lemmas for `H4.Props.C05Rle`: `HCIcrle_encode`, `HCIcrle_term`, `HCIcrle_decode` of `hdf/src/crle.c`, as TRANSLATED from the C text
    (`H4.Gen.Fn.Crle`, regenerated on every run), compute the hand-written model `H4.Rle` (`encStep`/`encRun`/`encTerm`, `decFuel`).
    Core only. -/
set_option linter.unusedSimpArgs false
set_option linter.unusedVariables false
namespace H4.Lemmas.C05Rle
open H4 H4.Rle H4.Gen.Crle H4.Gen.Fn.Crle

/-- a C `uint8` array / the bytes of the underlying element, as the translated functions see them -/
def bytes (l : List Byte) : List Int := l.map fun b => (b.toNat : Int)

@[simp] theorem bytes_length (l : List Byte) : (bytes l).length = l.length := by simp [bytes]
@[simp] theorem bytes_nil : bytes [] = [] := rfl
@[simp] theorem bytes_cons (a : Byte) (l : List Byte) : bytes (a :: l) = (a.toNat : Int) :: bytes l := rfl
theorem bytes_append (a b : List Byte) : bytes (a ++ b) = bytes a ++ bytes b := by simp [bytes]
theorem bytes_take (l : List Byte) (n : Nat) : bytes (l.take n) = (bytes l).take n := by simp [bytes]
theorem bytes_drop (l : List Byte) (n : Nat) : bytes (l.drop n) = (bytes l).drop n := by simp [bytes]
theorem bytes_replicate (n : Nat) (v : Byte) : bytes (List.replicate n v) = List.replicate n (v.toNat : Int) := by simp [bytes]

theorem bytes_getD (l : List Byte) (i : Nat) (h : i < l.length) : (bytes l).getD i 0 = ((l[i]).toNat : Int) := by
  simp [bytes, h]

theorem bytes_inj {a b : List Byte} (h : bytes a = bytes b) : a = b := by
  induction a generalizing b with
  | nil => cases b <;> simp_all [bytes]
  | cons x xs ih => cases b with
    | nil => simp [bytes] at h
    | cons y ys =>
      simp only [bytes_cons, List.cons.injEq] at h
      obtain ⟨h1, h2⟩ := h
      have : x = y := UInt8.toNat_inj.mp (by omega)
      rw [ih h2, this]

theorem byte_lt (b : Byte) : (b.toNat : Int) < 256 := by have := UInt8.toNat_lt b; omega

/-- `(unsigned)RLE_NIL`, the "no byte" value of `last_byte` / `second_byte` -/
def nil32 : Int := RLE_NIL % 4294967296

/-- `last_byte` / `second_byte` (C `unsigned`) of the model's `Option Byte` -/
def optB : Option Byte → Int
  | none => nil32
  | some b => (b.toNat : Int)

theorem optB_eq_byte (o : Option Byte) (b : Byte) : ((b.toNat : Int) = optB o) ↔ some b = o := by
  cases o with
  | none => have := UInt8.toNat_lt b; simp [optB, nil32, RLE_NIL]; omega
  | some v =>
    simp only [optB, Option.some.injEq]
    constructor
    · intro h; exact UInt8.toNat_inj.mp (by omega)
    · intro h; rw [h]

@[simp] theorem optB_some (b : Byte) : optB (some b) = (b.toNat : Int) := rfl
@[simp] theorem optB_none : optB none = nil32 := rfl

/-- the correspondence between the model's encoder state and the `comp_coder_rle_info_t` record of the C code
    (`st` = `rle_state`, `len` = `buf_length`, `pos` = `buf_pos`, `last`/`second` = `last_byte`/`second_byte`, `buffer`),
    together with the ranges the C code relies on in each state -/
def EncRel (e : Enc) (st len pos last second : Int) (buffer : List Int) : Prop :=
  buffer.length = RLE_BUF_SIZE ∧ last = optB e.last ∧ second = optB e.second ∧
  match e.mode with
  | .init => st = 0
  | .run => st = 1 ∧ len = (e.len : Int) ∧ RLE_MIN_RUN ≤ e.len ∧ e.len < RLE_MAX_RUN ∧ e.last.isSome
  | .mix => st = 2 ∧ len = (e.len : Int) ∧ pos = (e.len : Int) ∧ RLE_MIN_MIX ≤ e.len ∧ e.len < RLE_BUF_SIZE ∧
            e.buf.length = e.len ∧ buffer.take e.len = bytes e.buf

/-! ## `HCIcrle_encode` -/

theorem enc_chk_true (s : HCIcrle_encode.St) (c : Prop) [Decidable c] (h : c) : HCIcrle_encode.chk s c = s := by
  simp [HCIcrle_encode.chk, h]

theorem ctl_run (n : Nat) : ((128 ||| n : Nat) : Int) % 256 % 256 = ((UInt8.ofNat (128 ||| n)).toNat : Int) := by
  rw [UInt8.toNat_ofNat']; omega

theorem ctl_mix (n : Nat) : (n : Int) % 256 % 256 = ((UInt8.ofNat n).toNat : Int) := by
  rw [UInt8.toNat_ofNat']; omega

theorem byte_mod (b : Byte) : (b.toNat : Int) % 256 % 256 = (b.toNat : Int) := by
  have := UInt8.toNat_lt b; omega

theorem putc_ok (x : Int) : decide (x % 256 % 256 = -1) = false := by
  simp only [decide_eq_false_iff_not]; omega

theorem putc_ok' (x : Int) : (x % 256 = -1) = False := by
  simp only [eq_iff_iff, iff_false]; omega

theorem dec_false (p : Prop) [Decidable p] (h : ¬ p) : decide p = false := decide_eq_false h

/-- one pass through the loop body of `HCIcrle_encode` is the model's `encStep` on the byte under the cursor -/
theorem enc_body (e : Enc) (b : Byte) (fuel : Nat) (s : HCIcrle_encode.St) (hub : s.ub = false) (hdone : s.done = false)
    (hi : 0 ≤ s.buf_i ∧ s.buf_i < s.buf.length) (hb : s.buf.getD s.buf_i.toNat 0 = (b.toNat : Int))
    (hrel : EncRel e s.rle_rle_state s.rle_buf_length s.rle_buf_pos s.rle_last_byte s.rle_second_byte s.rle_buffer) :
    let s' := HCIcrle_encode.loop0.body fuel s
    s'.ub = false ∧ s'.done = false ∧ s'.oof = s.oof ∧ s'.buf = s.buf ∧ s'.buf_i = s.buf_i + 1 ∧ s'.length = s.length - 1 ∧
      s'.io_out = s.io_out ++ bytes (ser (encStep e b).2) ∧
      EncRel (encStep e b).1 s'.rle_rle_state s'.rle_buf_length s'.rle_buf_pos s'.rle_last_byte s'.rle_second_byte s'.rle_buffer ∧
      s'.rle_offset = s.rle_offset ∧ s'.orig_length = s.orig_length ∧ s'.rle_encoding = s.rle_encoding ∧ s'.ret = s.ret := by
  obtain ⟨c1, c2, c3, c4, c5, c6⟩ := consts
  obtain ⟨length, buf_i, orig_length, c_, rle_encoding, st, last, len, pos, second, offset, buf, buffer, io_out, ub, oof, ret, done⟩ := s
  obtain ⟨mode, ebuf, elen, elast, esecond⟩ := e
  simp only at hub hdone hi hb hrel
  subst hub hdone
  obtain ⟨hbl, hlast, hsecond, hm⟩ := hrel
  simp only at hbl hlast hsecond hm
  rw [c3] at hbl
  cases mode with
  | init =>
    simp only at hm
    subst hm
    simp [-List.getD_eq_getElem?_getD, HCIcrle_encode.loop0.body, HCIcrle_encode.chk, hi.1, hi.2, hbl, hb, encStep, EncRel, ser, c3, c6, hlast, hsecond, optB]
    have := H4.C2L.take_set_succ buffer 0 (b.toNat : Int) (by omega)
    simpa [hbl] using this
  | run =>
    simp only at hm
    obtain ⟨hst, hlen, h3, h130, hsome⟩ := hm
    rw [c4] at h3; rw [c5] at h130
    obtain ⟨v, rfl⟩ := Option.isSome_iff_exists.mp hsome
    subst hst hlen hlast
    by_cases hbv : b = v
    · subst hbv
      by_cases hmax : elen + 1 ≥ 130
      · have hmaxi : (130 : Int) ≤ (elen : Int) + 1 := by omega
        have h3i : (3 : Int) ≤ (elen : Int) + 1 := by omega
        simp [-List.getD_eq_getElem?_getD, HCIcrle_encode.loop0.body, HCIcrle_encode.chk, putc_ok, putc_ok', hi.1, hi.2, hbl, hb, encStep, EncRel, ser, Pkt.ser, c1, c3, c4, c5, c6, hsecond, optB, hmax, hmaxi, h3i]
        have e : ((elen : Int) + 1 - 3).toNat = elen - 2 := by omega
        have := UInt8.toNat_lt b
        exact ⟨⟨by rw [e, Nat.mod_eq_of_lt (by omega : elen - 2 < 256), or128 _ (by omega)]; omega, by omega⟩, by simp [nil32, RLE_NIL]⟩
      · have hmaxi : ¬ ((130 : Int) ≤ (elen : Int) + 1) := by omega
        simp [-List.getD_eq_getElem?_getD, HCIcrle_encode.loop0.body, HCIcrle_encode.chk, putc_ok, putc_ok', hi.1, hi.2, hbl, hb, encStep, EncRel, ser, Pkt.ser, c1, c3, c4, c5, c6, hsecond, optB, hmax, hmaxi]
        omega
    · have hne : ¬ ((b.toNat : Int) = (v.toNat : Int)) := by
        intro h; exact hbv (UInt8.toNat_inj.mp (by omega))
      have h3i : (3 : Int) ≤ (elen : Int) := by omega
      simp [-List.getD_eq_getElem?_getD, HCIcrle_encode.loop0.body, HCIcrle_encode.chk, putc_ok, putc_ok', hi.1, hi.2, hbl, hb, encStep, EncRel, ser, Pkt.ser, c1, c3, c4, c5, c6, hsecond, optB, hne, hbv, h3i]
      have e : ((elen : Int) - 3).toNat = elen - 3 := by omega
      have := UInt8.toNat_lt v
      refine ⟨⟨by rw [e, Nat.mod_eq_of_lt (by omega : elen - 3 < 256), or128 _ (by omega)]; omega, by omega⟩, ?_⟩
      have := H4.C2L.take_set_succ buffer 0 (b.toNat : Int) (by omega)
      simpa [hbl] using this
  | mix =>
    simp only at hm
    obtain ⟨hst, hlen, hpos, h1, h128, hbuflen, hbuf⟩ := hm
    rw [c6] at h1; rw [c3] at h128
    subst hst hlen hpos
    have hl128i : (elen : Int) < 128 := by omega
    have hgetset : (buffer.set elen (b.toNat : Int)).getD elen 0 = (b.toNat : Int) := by
      simp [hbl, h128]
    have htakeset : List.take (elen + 1) (buffer.set elen (b.toNat : Int)) = bytes (ebuf ++ [b]) := by
      rw [H4.C2L.take_set_succ buffer elen _ (by omega), hbuf, bytes_append]; rfl
    by_cases hc : some b = elast ∧ some b = esecond
    · obtain ⟨rfl, rfl⟩ := hc
      subst hlast hsecond
      by_cases hg : elen > 2
      · have hgi : (2 : Int) < (elen : Int) := by omega
        have hf1 : ¬ ((elen : Int) - 2 = -1) := by omega
        have hf2 : (2 : Int) ≤ (elen : Int) := by omega
        have hf3 : (elen : Int) - 2 ≤ 128 := by omega
        simp [hf1, hf2, hf3, -List.getD_eq_getElem?_getD, HCIcrle_encode.loop0.body, HCIcrle_encode.chk, putc_ok, putc_ok', hi.1, hi.2, hbl, hb, encStep, EncRel, ser, Pkt.ser, c1, c3, c4, c5, c6, hg, hgi, hl128i, h128]
        have e : ((elen : Int) - 2).toNat = elen - 2 := by omega
        refine ⟨by omega, ?_⟩
        rw [e, bytes_take, ← hbuf, List.take_take, Nat.min_eq_left (by omega)]
      · have hgi : ¬ (2 : Int) < (elen : Int) := by omega
        simp [-List.getD_eq_getElem?_getD, HCIcrle_encode.loop0.body, HCIcrle_encode.chk, putc_ok, putc_ok', hi.1, hi.2, hbl, hb, encStep, EncRel, ser, Pkt.ser, c1, c3, c4, c5, c6, hg, hgi, hl128i, h128]
    · have hc' : ¬ ((b.toNat : Int) = last ∧ (b.toNat : Int) = second) := by
        rw [hlast, hsecond, optB_eq_byte, optB_eq_byte]; exact hc
      by_cases hfull : elen + 1 ≥ 128
      · have hfi : (128 : Int) ≤ (elen : Int) + 1 := by omega
        have hf1 : ¬ ((elen : Int) + 1 = -1) := by omega
        have hf2 : (0 : Int) ≤ (elen : Int) + 1 := by omega
        have hf3 : (elen : Int) + 1 ≤ 128 := by omega
        simp [hf1, hf2, hf3, -List.getD_eq_getElem?_getD, HCIcrle_encode.loop0.body, HCIcrle_encode.chk, putc_ok, putc_ok', hi.1, hi.2, hbl, hb, encStep, EncRel, ser, Pkt.ser, c1, c3, c4, c5, c6, hc, hc', hfull, hfi, hl128i, h128]
        exact ⟨⟨by rw [hbuflen], htakeset⟩, by simp [nil32, RLE_NIL]⟩
      · have hfi : ¬ (128 : Int) ≤ (elen : Int) + 1 := by omega
        simp [-List.getD_eq_getElem?_getD, HCIcrle_encode.loop0.body, HCIcrle_encode.chk, putc_ok, putc_ok', hi.1, hi.2, hbl, hb, encStep, EncRel, ser, Pkt.ser, c1, c3, c4, c5, c6, hc, hc', hfull, hfi, hl128i, h128]
        exact ⟨hgetset, hlast, by omega, hbuflen, htakeset⟩

/-- the loop of `HCIcrle_encode` from cursor position `k` of the caller's buffer `all` is the model's `encRun` on the rest of the buffer -/
theorem enc_loop (all : List Byte) : ∀ (rest : List Byte) (e : Enc) (fuel : Nat) (s : HCIcrle_encode.St) (k : Nat),
    rest.length ≤ fuel → all.drop k = rest → s.buf = bytes all → s.buf_i = (k : Int) → s.length = (rest.length : Int) →
    s.ub = false → s.done = false → s.oof = false →
    EncRel e s.rle_rle_state s.rle_buf_length s.rle_buf_pos s.rle_last_byte s.rle_second_byte s.rle_buffer →
    let s' := HCIcrle_encode.loop0 fuel s
    s'.ub = false ∧ s'.oof = false ∧ s'.done = false ∧ s'.io_out = s.io_out ++ bytes (ser (encRun e rest).2) ∧
      EncRel (encRun e rest).1 s'.rle_rle_state s'.rle_buf_length s'.rle_buf_pos s'.rle_last_byte s'.rle_second_byte s'.rle_buffer ∧
      s'.rle_offset = s.rle_offset ∧ s'.orig_length = s.orig_length ∧ s'.rle_encoding = s.rle_encoding ∧ s'.ret = s.ret := by
  intro rest
  induction rest with
  | nil =>
    intro e fuel s k _ _ _ _ hlen hub hdone hoof hrel
    have h0 : ¬ (s.length > 0 ∧ ¬ (s.done = true)) := by simp at hlen; omega
    have hl : HCIcrle_encode.loop0 fuel s = s := by
      cases fuel <;> rw [HCIcrle_encode.loop0, if_neg h0]
    intro s'
    have hs' : s' = s := hl
    rw [hs']
    simp [hub, hdone, hoof, encRun, ser, hrel]
  | cons b rest ih =>
    intro e fuel s k hf hdrop hbuf hi hlen hub hdone hoof hrel
    obtain ⟨fuel, rfl⟩ : ∃ f, fuel = f + 1 := ⟨fuel - 1, by simp at hf; omega⟩
    have hk : k < all.length := by
      rcases Nat.lt_or_ge k all.length with h | h
      · exact h
      · rw [List.drop_eq_nil_of_le h] at hdrop; cases hdrop
    have hd := List.drop_eq_getElem_cons hk
    rw [hdrop] at hd
    simp only [List.cons.injEq] at hd
    obtain ⟨hbk, hrest⟩ := hd
    have hc : s.length > 0 ∧ ¬ (s.done = true) := by simp [hlen, hdone]
    have hbody := enc_body e b (fuel + 1) s hub hdone (by rw [hi, hbuf]; simp; exact hk)
      (by rw [hi, hbuf, Int.toNat_natCast, bytes_getD all k hk, hbk]) hrel
    obtain ⟨b1, b2, b3, b4, b5, b6, b7, b8, b9, b10, b11, b12⟩ := hbody
    have hnext := ih (encStep e b).1 fuel (HCIcrle_encode.loop0.body (fuel + 1) s) (k + 1) (by simp at hf; omega) hrest.symm
      (by rw [b4, hbuf]) (by rw [b5, hi]; simp) (by rw [b6, hlen]; simp) b1 b2 (by rw [b3, hoof]) b8
    obtain ⟨n1, n2, n3, n4, n5, n6, n7, n8, n9⟩ := hnext
    rw [HCIcrle_encode.loop0, if_pos hc]
    refine ⟨n1, n2, n3, ?_, ?_, by rw [n6, b9], by rw [n7, b10], by rw [n8, b11], by rw [n9, b12]⟩
    · rw [n4, b7, List.append_assoc, ← bytes_append]
      simp [encRun, ser]
    · simpa [encRun] using n5

/-- the state in which `HCIcrle_encode` enters its loop -/
def encStart (encoding st : Int) (buffer : List Int) (last len pos second offset length : Int) (buf io_out : List Int) : HCIcrle_encode.St :=
  { rle_encoding := if length > 0 then 1 else encoding, rle_rle_state := st, rle_buffer := buffer, rle_last_byte := last,
    rle_buf_length := len, rle_buf_pos := pos, rle_second_byte := second, rle_offset := offset, length := length, buf := buf,
    io_out := io_out, orig_length := length }

/-- what `HCIcrle_encode` does after its loop -/
def encFinish (s : HCIcrle_encode.St) : HCIcrle_encode.St :=
  if s.done then s else { s with rle_offset := s.rle_offset + s.orig_length, ret := 0, done := true }

theorem enc_unfold (fuel : Nat) (encoding st : Int) (buffer : List Int) (last len pos second offset length : Int) (buf io_out : List Int) :
    HCIcrle_encode fuel encoding st buffer last len pos second offset length buf io_out =
      encFinish (HCIcrle_encode.loop0 fuel (encStart encoding st buffer last len pos second offset length buf io_out)) := by
  unfold HCIcrle_encode encFinish encStart
  by_cases h : length > 0
  · simp [h]
    split <;> simp_all
  · simp [h]
    split <;> simp_all

/-- `encRun` is a fold: feeding `a ++ b` is feeding `a`, then `b` from the state reached -/
theorem encRun_append (a b : List Byte) : ∀ e : Enc,
    encRun e (a ++ b) = ((encRun (encRun e a).1 b).1, (encRun e a).2 ++ (encRun (encRun e a).1 b).2) := by
  induction a with
  | nil => intro e; simp [encRun]
  | cons x a ih => intro e; simp [encRun, ih]

/-! ## `HCIcrle_term` -/

/-- `HCIcrle_term` in state RUN or MIX writes the model's `encTerm` packet and resets the record -/
theorem term_main (e : Enc) (hmode : e.mode ≠ .init) (fuel : Nat) (st len pos last second encoding : Int) (buffer io_out : List Int)
    (hrel : EncRel e st len pos last second buffer) :
    let s := HCIcrle_term fuel st len last buffer encoding second io_out
    s.ub = false ∧ s.oof = false ∧ s.ret = 0 ∧ s.io_out = io_out ++ bytes (ser (encTerm e)) ∧
      EncRel {} s.rle_rle_state s.rle_buf_length pos s.rle_last_byte s.rle_second_byte s.rle_buffer ∧ s.rle_encoding = 0 := by
  obtain ⟨c1, c2, c3, c4, c5, c6⟩ := consts
  obtain ⟨mode, ebuf, elen, elast, esecond⟩ := e
  obtain ⟨hbl, hlast, hsecond, hm⟩ := hrel
  simp only at hbl hlast hsecond hm hmode
  rw [c3] at hbl
  cases mode with
  | init => exact absurd rfl hmode
  | run =>
    simp only at hm
    obtain ⟨hst, hlen, h3, h130, hsome⟩ := hm
    rw [c4] at h3; rw [c5] at h130
    obtain ⟨v, rfl⟩ := Option.isSome_iff_exists.mp hsome
    subst hst hlen hlast
    have h3i : (3 : Int) ≤ (elen : Int) := by omega
    simp [HCIcrle_term, HCIcrle_term.chk, putc_ok, putc_ok', hbl, encTerm, EncRel, ser, Pkt.ser, c1, c3, c4, c5, c6, h3i]
    have e : ((elen : Int) - 3).toNat = elen - 3 := by omega
    have := UInt8.toNat_lt v
    exact ⟨⟨by rw [e, Nat.mod_eq_of_lt (by omega : elen - 3 < 256), or128 _ (by omega)]; omega, by omega⟩, by simp [nil32, RLE_NIL]⟩
  | mix =>
    simp only at hm
    obtain ⟨hst, hlen, hpos, h1, h128, hbuflen, hbuf⟩ := hm
    rw [c6] at h1; rw [c3] at h128
    subst hst hlen hpos
    have hf1 : ¬ ((elen : Int) = -1) := by omega
    have hf3 : (elen : Int) ≤ 128 := by omega
    simp [HCIcrle_term, HCIcrle_term.chk, putc_ok, putc_ok', hbl, encTerm, EncRel, ser, Pkt.ser, c1, c3, c4, c5, c6, hf1, hf3, h128]
    exact ⟨⟨by rw [hbuflen]; omega, hbuf⟩, by simp [nil32, RLE_NIL]⟩

/-- `HCIcrle_term` in state INIT (the callers never do this: they test `rle_state != RLE_INIT`) fails without touching anything -/
theorem term_init (fuel : Nat) (len last second encoding : Int) (buffer io_out : List Int) :
    let s := HCIcrle_term fuel 0 len last buffer encoding second io_out
    s.ub = false ∧ s.oof = false ∧ s.ret = -1 ∧ s.io_out = io_out ∧ s.rle_rle_state = 0 ∧ s.rle_buf_length = len ∧
      s.rle_last_byte = last ∧ s.rle_second_byte = second ∧ s.rle_buffer = buffer ∧ s.rle_encoding = encoding := by
  simp [HCIcrle_term]

/-! ## `HCIcrle_decode` -/

/-- the delivery half of the loop body in state RUN: `dec_len = min(length, buf_length)` copies of `last_byte` are stored at the cursor -/
theorem dec_body_run (fuel : Nat) (s : HCIcrle_decode.St) (n L i : Nat) (hst : s.rle_rle_state = 1) (hub : s.ub = false)
    (hdone : s.done = false) (hn : s.length = (n : Int)) (hL : s.rle_buf_length = (L : Int)) (hi : s.buf_i = (i : Int))
    (hn0 : 0 < n) (hL0 : 0 < L) (hroom : i + n ≤ s.buf.length) (hn32 : n < 2 ^ 31) (hL32 : L < 2 ^ 31) :
    HCIcrle_decode.loop0.body fuel s =
      { s with dec_len := (min n L : Nat), rle_buf_length := ((L - min n L : Nat) : Int), rle_rle_state := if L ≤ n then 0 else 1,
               length := ((n - min n L : Nat) : Int), buf_i := ((i + min n L : Nat) : Int),
               buf := s.buf.take i ++ List.replicate (min n L) (s.rle_last_byte % 256) ++ s.buf.drop (i + min n L) } := by
  obtain ⟨length, buf_i, orig_length, dec_len, c_, st, io_pos, len, last, pos, offset, io_in, buffer, buf, ub, oof, ret, done⟩ := s
  simp only at hst hub hdone hn hL hi hroom
  subst hst hub hdone hn hL hi
  have hr : (i : Int) + n ≤ buf.length := by omega
  rcases Nat.lt_or_ge L n with h | h
  · have h1 : (n : Int) > (L : Int) := by omega
    have hm : min n L = L := by omega
    have hmod : (L : Int) % 4294967296 = L := by omega
    have hr' : (i : Int) + L ≤ buf.length := by omega
    have hle : L ≤ n := by omega
    simp [HCIcrle_decode.loop0.body, HCIcrle_decode.chk, h1, hm, hmod, hr', hle]
    omega
  · have h1 : ¬ ((n : Int) > (L : Int)) := by omega
    have h1' : ¬ ((L : Int) < (n : Int)) := by omega
    have hm : min n L = n := by omega
    have hmod : (n : Int) % 4294967296 = n := by omega
    by_cases he : L = n
    · subst he
      simp [HCIcrle_decode.loop0.body, HCIcrle_decode.chk, hmod, hr]
      omega
    · have hle : ¬ (L ≤ n) := by omega
      have hle' : ¬ ((L : Int) - (n : Int) ≤ 0) := by omega
      have hle'' : ¬ ((L : Int) ≤ (n : Int)) := by omega
      simp [HCIcrle_decode.loop0.body, HCIcrle_decode.chk, h1, h1', hm, hmod, hr, hle, hle', hle'']
      omega


/-- the loading half of the loop body in state INIT on a run packet `c v` (`c & RUN_MASK`): the body continues as from state RUN -/
theorem dec_body_load_run (fuel : Nat) (s : HCIcrle_decode.St) (k c v : Nat) (hst : s.rle_rle_state = 0) (hub : s.ub = false)
    (hdone : s.done = false) (hk : s.io_pos = (k : Int)) (hk1 : k + 1 < s.io_in.length) (hc : s.io_in.getD k 0 = (c : Int))
    (hv : s.io_in.getD (k + 1) 0 = (v : Int)) (hc8 : c < 256) (hv8 : v < 256) (hrun : c &&& 128 ≠ 0) :
    HCIcrle_decode.loop0.body fuel s =
      HCIcrle_decode.loop0.body fuel { s with io_pos := (k : Int) + 1 + 1, c_ := (c : Int), rle_rle_state := 1,
                                              rle_buf_length := ((c &&& 127 : Nat) : Int) + 3, rle_last_byte := (v : Int) } := by
  obtain ⟨length, buf_i, orig_length, dec_len, c_, st, io_pos, len, last, pos, offset, io_in, buffer, buf, ub, oof, ret, done⟩ := s
  simp only at hst hub hdone hk hk1 hc hv
  subst hst hub hdone hk
  have g1 : (k : Int) < io_in.length := by omega
  have g2 : (k : Int) + 1 < io_in.length := by omega
  have g3 : ¬ ((c : Int) = -1) := by omega
  have g4 : (v : Int) % 4294967296 = v := by omega
  have g5 : ¬ ((v : Int) = 4294967295) := by omega
  simp [-List.getD_eq_getElem?_getD, HCIcrle_decode.loop0.body, HCIcrle_decode.chk, g1, g2, g3, g4, g5, hc, hv, hrun]

/-- the delivery half of the loop body in state MIX: `dec_len = min(length, buf_length)` bytes of `buffer` from `buf_pos` are copied -/
theorem dec_body_mix (fuel : Nat) (s : HCIcrle_decode.St) (n L i P : Nat) (hst : s.rle_rle_state = 2) (hub : s.ub = false)
    (hdone : s.done = false) (hn : s.length = (n : Int)) (hL : s.rle_buf_length = (L : Int)) (hi : s.buf_i = (i : Int))
    (hP : s.rle_buf_pos = (P : Int)) (hn0 : 0 < n) (hL0 : 0 < L) (hroom : i + n ≤ s.buf.length) (hPL : P + L ≤ s.rle_buffer.length)
    (hn32 : n < 2 ^ 31) (hL32 : L < 2 ^ 31) :
    HCIcrle_decode.loop0.body fuel s =
      { s with dec_len := (min n L : Nat), rle_buf_length := ((L - min n L : Nat) : Int), rle_rle_state := if L ≤ n then 0 else 2,
               length := ((n - min n L : Nat) : Int), buf_i := ((i + min n L : Nat) : Int), rle_buf_pos := ((P + min n L : Nat) : Int),
               buf := s.buf.take i ++ (s.rle_buffer.drop P).take (min n L) ++ s.buf.drop (i + min n L) } := by
  obtain ⟨length, buf_i, orig_length, dec_len, c_, st, io_pos, len, last, pos, offset, io_in, buffer, buf, ub, oof, ret, done⟩ := s
  simp only at hst hub hdone hn hL hi hP hroom hPL
  subst hst hub hdone hn hL hi hP
  have hr : (i : Int) + n ≤ buf.length := by omega
  rcases Nat.lt_or_ge L n with h | h
  · have h1 : (n : Int) > (L : Int) := by omega
    have hm : min n L = L := by omega
    have hmod : (L : Int) % 4294967296 = L := by omega
    have hr' : (i : Int) + L ≤ buf.length := by omega
    have hp' : (P : Int) + L ≤ buffer.length := by omega
    have hle : L ≤ n := by omega
    simp [HCIcrle_decode.loop0.body, HCIcrle_decode.chk, h1, hm, hmod, hr', hp', hle]
    omega
  · have h1 : ¬ ((n : Int) > (L : Int)) := by omega
    have h1' : ¬ ((L : Int) < (n : Int)) := by omega
    have hm : min n L = n := by omega
    have hmod : (n : Int) % 4294967296 = n := by omega
    have hp' : (P : Int) + n ≤ buffer.length := by omega
    by_cases he : L = n
    · subst he
      simp [HCIcrle_decode.loop0.body, HCIcrle_decode.chk, hmod, hr, hp']
      omega
    · have hle : ¬ (L ≤ n) := by omega
      have hle' : ¬ ((L : Int) - (n : Int) ≤ 0) := by omega
      have hle'' : ¬ ((L : Int) ≤ (n : Int)) := by omega
      simp [HCIcrle_decode.loop0.body, HCIcrle_decode.chk, h1, h1', hm, hmod, hr, hp', hle, hle', hle'']
      omega

/-- the loading half of the loop body in state INIT on a mix packet `c b₁ … b_L` (`!(c & RUN_MASK)`, `L = (c & COUNT_MASK) + 1`): `Hread`
    fills `buffer[0 .. L)`; the body continues as from state MIX with `buf_pos = 0` -/
theorem dec_body_load_mix (fuel : Nat) (s : HCIcrle_decode.St) (k c : Nat) (hst : s.rle_rle_state = 0) (hub : s.ub = false)
    (hdone : s.done = false) (hk : s.io_pos = (k : Int)) (hc : s.io_in.getD k 0 = (c : Int)) (hc8 : c < 256) (hmix : c &&& 128 = 0)
    (hk1 : k + 1 + ((c &&& 127) + 1) ≤ s.io_in.length) (hbl : (c &&& 127) + 1 ≤ s.rle_buffer.length) :
    HCIcrle_decode.loop0.body fuel s =
      HCIcrle_decode.loop0.body fuel { s with io_pos := (k : Int) + 1 + (((c &&& 127 : Nat) : Int) + 1), c_ := (c : Int), rle_rle_state := 2,
                                              rle_buf_length := ((c &&& 127 : Nat) : Int) + 1, rle_buf_pos := 0,
                                              rle_buffer := (s.io_in.drop (k + 1)).take ((c &&& 127) + 1) ++ s.rle_buffer.drop ((c &&& 127) + 1) } := by
  obtain ⟨length, buf_i, orig_length, dec_len, c_, st, io_pos, len, last, pos, offset, io_in, buffer, buf, ub, oof, ret, done⟩ := s
  simp only at hst hub hdone hk hk1 hc hbl
  subst hst hub hdone hk
  have g1 : (k : Int) < io_in.length := by omega
  have g2 : (k : Int) + 1 + (((c &&& 127 : Nat) : Int) + 1) ≤ io_in.length := by omega
  have g3 : ¬ ((c : Int) = -1) := by omega
  have g4 : ((c &&& 127 : Nat) : Int) + 1 ≤ buffer.length := by omega
  have g5 : ¬ (((c &&& 127 : Nat) : Int) + 1 = -1) := by omega
  have g6 : (0 : Int) ≤ ((c &&& 127 : Nat) : Int) + 1 := by omega
  simp [-List.getD_eq_getElem?_getD, HCIcrle_decode.loop0.body, HCIcrle_decode.chk, g1, g2, g3, g4, g5, g6, hc, hmix]

/-- the loop body in state INIT at the end of the input: `HDgetc` fails, the function returns FAIL -/
theorem dec_body_end (fuel : Nat) (s : HCIcrle_decode.St) (hst : s.rle_rle_state = 0) (hdone : s.done = false)
    (hk : s.io_in.length ≤ s.io_pos) :
    HCIcrle_decode.loop0.body fuel s = { s with c_ := -1, ret := -1, done := true } := by
  obtain ⟨length, buf_i, orig_length, dec_len, c_, st, io_pos, len, last, pos, offset, io_in, buffer, buf, ub, oof, ret, done⟩ := s
  simp only at hst hdone hk
  subst hst hdone
  have g1 : ¬ (io_pos < io_in.length) := by omega
  simp [HCIcrle_decode.loop0.body, g1]


/-! ### the decoder state between two iterations / two calls -/

theorem take_app {α} (A B : List α) (i : Nat) (h : A.length = i) : (A ++ B).take i = A := by subst h; simp
theorem drop_app {α} (A B : List α) (i d : Nat) (h : A.length = i) : (A ++ B).drop (i + d) = B.drop d := by
  subst h; simp [List.drop_append]

/-- the record holds a partly delivered packet: in state RUN `len` more copies of `last`, in state MIX the `len` bytes of `buffer` from
    `pos`; `rem` = those bytes followed by `tail` (what the rest of the input decodes to) -/
def Loaded (rem tail : List Byte) (st len last pos : Int) (buffer : List Int) : Prop :=
  (st = 1 ∧ ∃ (L : Nat) (v : Byte), 0 < L ∧ L < 2 ^ 31 ∧ len = (L : Int) ∧ last = (v.toNat : Int) ∧ rem = List.replicate L v ++ tail) ∨
  (st = 2 ∧ ∃ (L P : Nat) (l : List Byte), 0 < L ∧ len = (L : Int) ∧ pos = (P : Int) ∧ P + L ≤ RLE_BUF_SIZE ∧
      (buffer.drop P).take L = bytes l ∧ rem = l ++ tail)

/-- the decoder-side state relation: reading the compressed stream `cs`, the record (`st` = `rle_state`, `len` = `buf_length`, `last` =
    `last_byte`, `pos` = `buf_pos`, `buffer`) and the position `io_pos` in the underlying element are such that the bytes still to be
    delivered are exactly `rem`: the rest of a pending packet (if any) followed by what the model's decoder makes of `cs` from `io_pos` on -/
def DecRel (cs rem : List Byte) (st len last pos : Int) (buffer : List Int) (io_pos : Int) : Prop :=
  buffer.length = RLE_BUF_SIZE ∧ ∃ (k f : Nat) (tail : List Byte), io_pos = (k : Int) ∧ k ≤ cs.length ∧ decFuel f (cs.drop k) = some tail ∧
    ((st = 0 ∧ rem = tail) ∨ Loaded rem tail st len last pos buffer)

/-- what one pass through the loop body achieves when output is left: `d ≥ 1` bytes of `rem` are stored behind `A` -/
def StepOK (cs rem : List Byte) (A B : List Int) (n i : Nat) (s s' : HCIcrle_decode.St) : Prop :=
  ∃ d : Nat, 0 < d ∧ d ≤ n ∧ d ≤ rem.length ∧ s'.ub = false ∧ s'.done = false ∧ s'.oof = s.oof ∧ s'.length = ((n - d : Nat) : Int) ∧
    s'.buf_i = ((i + d : Nat) : Int) ∧ s'.buf = A ++ bytes (rem.take d) ++ B.drop d ∧ s'.io_in = s.io_in ∧ s'.rle_offset = s.rle_offset ∧
    s'.orig_length = s.orig_length ∧ s'.ret = s.ret ∧
    DecRel cs (rem.drop d) s'.rle_rle_state s'.rle_buf_length s'.rle_last_byte s'.rle_buf_pos s'.rle_buffer s'.io_pos

theorem dec_step_loaded (cs rem tail : List Byte) (A B : List Int) (n i k f : Nat) (fuel : Nat) (s : HCIcrle_decode.St)
    (hub : s.ub = false) (hdone : s.done = false) (hn : s.length = (n : Int)) (hn0 : 0 < n) (hn32 : n < 2 ^ 31) (hi : s.buf_i = (i : Int))
    (hbuf : s.buf = A ++ B) (hA : A.length = i) (hB : n ≤ B.length) (hk : s.io_pos = (k : Int)) (hkle : k ≤ cs.length)
    (hdec : decFuel f (cs.drop k) = some tail) (hbl : s.rle_buffer.length = RLE_BUF_SIZE)
    (hld : Loaded rem tail s.rle_rle_state s.rle_buf_length s.rle_last_byte s.rle_buf_pos s.rle_buffer) :
    StepOK cs rem A B n i s (HCIcrle_decode.loop0.body fuel s) := by
  obtain ⟨c1, c2, c3, c4, c5, c6⟩ := consts
  have hroom : i + n ≤ s.buf.length := by rw [hbuf, List.length_append]; omega
  rcases hld with ⟨hst, L, v, hL0, hL32, hL, hlast, hrem⟩ | ⟨hst, L, P, l, hL0, hL, hP, hPL, hl, hrem⟩
  · rw [dec_body_run fuel s n L i hst hub hdone hn hL hi hn0 hL0 hroom hn32 hL32]
    have hv : s.rle_last_byte % 256 = (v.toNat : Int) := by rw [hlast]; have := UInt8.toNat_lt v; omega
    refine ⟨min n L, by omega, by omega, by rw [hrem]; simp; omega, hub, hdone, rfl, rfl, rfl, ?_, rfl, rfl, rfl, rfl, hbl, k, f, tail, hk, hkle, hdec, ?_⟩
    · show s.buf.take i ++ List.replicate (min n L) (s.rle_last_byte % 256) ++ s.buf.drop (i + min n L) = _
      rw [hbuf, take_app A B i hA, drop_app A B i _ hA, hv, hrem, List.take_append_of_le_length (by simp; omega), List.take_replicate,
        bytes_replicate]
      congr 3; omega
    · by_cases hle : L ≤ n
      · left
        refine ⟨by simp [hle], ?_⟩
        rw [hrem, Nat.min_eq_right hle]
        simp
      · right; left
        refine ⟨by simp [hle], L - min n L, v, by omega, by omega, rfl, hlast, ?_⟩
        rw [hrem, List.drop_append_of_le_length (by simp; omega), List.drop_replicate]
  · rw [c3] at hPL
    have hl_len : l.length = L := by
      have := congrArg List.length hl
      rw [bytes_length, List.length_take, List.length_drop] at this
      omega
    rw [dec_body_mix fuel s n L i P hst hub hdone hn hL hi hP hn0 hL0 hroom (by rw [hbl, c3]; exact hPL) hn32 (by omega)]
    refine ⟨min n L, by omega, by omega, by rw [hrem]; simp; omega, hub, hdone, rfl, rfl, rfl, ?_, rfl, rfl, rfl, rfl, hbl, k, f, tail, hk, hkle, hdec, ?_⟩
    · show s.buf.take i ++ (s.rle_buffer.drop P).take (min n L) ++ s.buf.drop (i + min n L) = _
      rw [hbuf, take_app A B i hA, drop_app A B i _ hA, hrem, List.take_append_of_le_length (by omega), bytes_take, ← hl, List.take_take]
      congr 3; omega
    · by_cases hle : L ≤ n
      · left
        refine ⟨by simp [hle], ?_⟩
        rw [hrem, Nat.min_eq_right hle, ← hl_len]
        simp
      · right; right
        refine ⟨by simp [hle], L - min n L, P + min n L, l.drop (min n L), by omega, rfl, rfl, by rw [c3]; omega, ?_, ?_⟩
        · show (s.rle_buffer.drop (P + min n L)).take (L - min n L) = _
          rw [bytes_drop, ← hl, List.drop_take, List.drop_drop]
        · rw [hrem, List.drop_append_of_le_length (by omega)]


theorem drop_cons_inv {α} (l : List α) (k : Nat) (c : α) (rest : List α) (h : l.drop k = c :: rest) :
    ∃ hk : k < l.length, l[k] = c ∧ l.drop (k + 1) = rest := by
  have hk : k < l.length := by
    rcases Nat.lt_or_ge k l.length with h' | h'
    · exact h'
    · rw [List.drop_eq_nil_of_le h'] at h; cases h
  rw [List.drop_eq_getElem_cons hk] at h
  simp only [List.cons.injEq] at h
  exact ⟨hk, h.1, h.2⟩

/-- every packet expands to at least one byte: only the empty stream decodes to nothing -/
theorem decFuel_nil (f : Nat) (s : List Byte) (h : decFuel f s = some []) : s = [] := by
  obtain ⟨c1, c2, c3, c4, c5, c6⟩ := consts
  cases s with
  | nil => rfl
  | cons c rest =>
    cases f with
    | zero => simp [decFuel] at h
    | succ f =>
      unfold decFuel at h
      split at h
      · cases rest with
        | nil => simp at h
        | cons v r =>
          simp only [Option.map_eq_some_iff] at h
          obtain ⟨t, -, ht⟩ := h
          rw [c4] at ht
          simp [List.replicate_succ] at ht
      · simp only at h
        split at h
        · cases h
        · rename_i hlen
          simp only [Option.map_eq_some_iff] at h
          obtain ⟨t, -, ht⟩ := h
          rw [c2, c6] at ht hlen
          have := congrArg List.length ht
          rw [List.length_append, List.length_take, List.length_nil] at this
          omega

/-- one pass through the loop body when output is left (`rem ≠ []`): in state INIT the next packet is loaded first -/
theorem dec_step (cs rem : List Byte) (A B : List Int) (n i : Nat) (fuel : Nat) (s : HCIcrle_decode.St)
    (hub : s.ub = false) (hdone : s.done = false) (hn : s.length = (n : Int)) (hn0 : 0 < n) (hn32 : n < 2 ^ 31) (hi : s.buf_i = (i : Int))
    (hbuf : s.buf = A ++ B) (hA : A.length = i) (hB : n ≤ B.length) (hio : s.io_in = bytes cs)
    (hrel : DecRel cs rem s.rle_rle_state s.rle_buf_length s.rle_last_byte s.rle_buf_pos s.rle_buffer s.io_pos) (hrem : rem ≠ []) :
    StepOK cs rem A B n i s (HCIcrle_decode.loop0.body fuel s) := by
  obtain ⟨c1, c2, c3, c4, c5, c6⟩ := consts
  obtain ⟨hbl, k, f, tail, hk, hkle, hdec, hcase⟩ := hrel
  rcases hcase with ⟨hst, hrt⟩ | hld
  · subst hrt
    cases hd : cs.drop k with
    | nil => rw [hd] at hdec; cases f <;> simp [decFuel] at hdec <;> exact absurd hdec hrem
    | cons c rest =>
      obtain ⟨hk', hck, hrest⟩ := drop_cons_inv cs k c rest hd
      rw [hd] at hdec
      cases f with
      | zero => simp [decFuel] at hdec
      | succ f =>
        have hcio : s.io_in.getD k 0 = ((c.toNat : Nat) : Int) := by rw [hio, bytes_getD cs k hk', hck]
        have hc8 := UInt8.toNat_lt c
        unfold decFuel at hdec
        rw [c1, c2, c4, c6] at hdec
        split at hdec
        · rename_i hrun
          cases rest with
          | nil => simp at hdec
          | cons v r =>
            obtain ⟨hk1', hvk, hr⟩ := drop_cons_inv cs (k + 1) v r hrest
            simp only [Option.map_eq_some_iff] at hdec
            obtain ⟨t', hdec', ht'⟩ := hdec
            have hvio : s.io_in.getD (k + 1) 0 = ((v.toNat : Nat) : Int) := by rw [hio, bytes_getD cs (k + 1) hk1', hvk]
            have hbody := dec_body_load_run fuel s k c.toNat v.toNat hst hub hdone hk (by rw [hio, bytes_length]; exact hk1') hcio hvio hc8
              (UInt8.toNat_lt v) hrun
            have hstep := dec_step_loaded cs rem t' A B n i (k + 2) f fuel
              { s with io_pos := (k : Int) + 1 + 1, c_ := ((c.toNat : Nat) : Int), rle_rle_state := 1,
                       rle_buf_length := ((c.toNat &&& 127 : Nat) : Int) + 3, rle_last_byte := ((v.toNat : Nat) : Int) } hub hdone hn hn0 hn32 hi hbuf hA hB
              (show ((k : Int) + 1 + 1) = ((k + 2 : Nat) : Int) by omega) (by omega) (by rw [hr]; exact hdec') hbl
              (Or.inl ⟨rfl, (c.toNat &&& 127) + 3, v, by omega, by have := Nat.and_le_right (n := c.toNat) (m := 127); omega,
                by simp, rfl, ht'.symm⟩)
            rw [hbody]
            unfold StepOK at hstep ⊢
            exact hstep
        · rename_i hmix
          simp only [ne_eq, Decidable.not_not] at hmix
          simp only at hdec
          split at hdec
          · cases hdec
          · rename_i hlen
            simp only [Option.map_eq_some_iff] at hdec
            obtain ⟨t', hdec', ht'⟩ := hdec
            have h127 := Nat.and_le_right (n := c.toNat) (m := 127)
            have hrl : rest.length = cs.length - (k + 1) := by rw [← hrest]; simp
            have hbody := dec_body_load_mix fuel s k c.toNat hst hub hdone hk hcio hc8 hmix (by rw [hio, bytes_length]; omega)
              (by rw [hbl, c3]; omega)
            have hstep := dec_step_loaded cs rem t' A B n i (k + 1 + ((c.toNat &&& 127) + 1)) f fuel
              { s with io_pos := (k : Int) + 1 + (((c.toNat &&& 127 : Nat) : Int) + 1), c_ := ((c.toNat : Nat) : Int), rle_rle_state := 2,
                       rle_buf_length := ((c.toNat &&& 127 : Nat) : Int) + 1, rle_buf_pos := 0,
                       rle_buffer := (s.io_in.drop (k + 1)).take ((c.toNat &&& 127) + 1) ++ s.rle_buffer.drop ((c.toNat &&& 127) + 1) } hub hdone hn hn0 hn32 hi hbuf hA hB
              (show ((k : Int) + 1 + (((c.toNat &&& 127 : Nat) : Int) + 1)) = ((k + 1 + ((c.toNat &&& 127) + 1) : Nat) : Int) by omega)
              (by omega) (by rw [← hrest, List.drop_drop] at hdec'; rw [← hdec'])
              (by show ((s.io_in.drop (k + 1)).take ((c.toNat &&& 127) + 1) ++ s.rle_buffer.drop ((c.toNat &&& 127) + 1)).length = RLE_BUF_SIZE
                  rw [List.length_append, List.length_take, List.length_drop, List.length_drop, hio, bytes_length, hbl, c3]; omega)
              (Or.inr ⟨rfl, (c.toNat &&& 127) + 1, 0, rest.take ((c.toNat &&& 127) + 1), by omega, by simp, rfl, by rw [c3]; omega, ?_, ht'.symm⟩)
            · rw [hbody]
              unfold StepOK at hstep ⊢
              exact hstep
            · show (((s.io_in.drop (k + 1)).take ((c.toNat &&& 127) + 1) ++ s.rle_buffer.drop ((c.toNat &&& 127) + 1)).drop 0).take
                  ((c.toNat &&& 127) + 1) = _
              rw [List.drop_zero, List.take_append_of_le_length (by rw [List.length_take, List.length_drop, hio, bytes_length]; omega),
                List.take_take, Nat.min_self, hio, ← bytes_drop, hrest, bytes_take]
  · exact dec_step_loaded cs rem tail A B n i k f fuel s hub hdone hn hn0 hn32 hi hbuf hA hB hk hkle hdec hbl hld

/-- the loop body when nothing is left to deliver: the record is in state INIT at the end of the input, `HDgetc` fails -/
theorem dec_step_end (cs : List Byte) (fuel : Nat) (s : HCIcrle_decode.St) (hdone : s.done = false) (hio : s.io_in = bytes cs)
    (hrel : DecRel cs [] s.rle_rle_state s.rle_buf_length s.rle_last_byte s.rle_buf_pos s.rle_buffer s.io_pos) :
    HCIcrle_decode.loop0.body fuel s = { s with c_ := -1, ret := -1, done := true } := by
  obtain ⟨hbl, k, f, tail, hk, hkle, hdec, hcase⟩ := hrel
  rcases hcase with ⟨hst, hrt⟩ | ⟨hst, L, v, hL0, -, -, -, hrem⟩ | ⟨hst, L, P, l, hL0, -, -, hPL, hl, hrem⟩
  · subst hrt
    have hnil := decFuel_nil f _ hdec
    have : cs.length ≤ k := by
      rcases Nat.lt_or_ge k cs.length with h | h
      · have := congrArg List.length hnil; simp at this; omega
      · exact h
    exact dec_body_end fuel s hst hdone (by rw [hio, bytes_length, hk]; omega)
  · have := congrArg List.length hrem; simp at this; omega
  · have h1 := congrArg List.length hrem
    have h2 := congrArg List.length hl
    obtain ⟨c1, c2, c3, c4, c5, c6⟩ := consts
    rw [c3] at hPL hbl
    simp at h1 h2
    omega


theorem dec_loop_stop (fuel : Nat) (s : HCIcrle_decode.St) (h : ¬ (s.length > 0 ∧ ¬ (s.done = true))) (hoof : s.oof = false) :
    HCIcrle_decode.loop0 fuel s = s := by
  cases fuel <;> rw [HCIcrle_decode.loop0, if_neg h]

/-- the loop of `HCIcrle_decode`: asked for `n` bytes with `rem` still to come, it stores the first `n` bytes of `rem` behind `A` and keeps the
    state relation - or, when `rem` is shorter, stores all of `rem` and returns FAIL at the end of the input -/
theorem dec_loop (cs : List Byte) : ∀ (fuel n : Nat) (s : HCIcrle_decode.St) (rem : List Byte) (A B : List Int) (i : Nat),
    n ≤ fuel → s.ub = false → s.done = false → s.oof = false → s.length = (n : Int) → n < 2 ^ 31 → s.buf_i = (i : Int) →
    s.buf = A ++ B → A.length = i → n ≤ B.length → s.io_in = bytes cs →
    DecRel cs rem s.rle_rle_state s.rle_buf_length s.rle_last_byte s.rle_buf_pos s.rle_buffer s.io_pos →
    let s' := HCIcrle_decode.loop0 fuel s
    s'.ub = false ∧ s'.oof = false ∧ s'.rle_offset = s.rle_offset ∧ s'.orig_length = s.orig_length ∧ s'.io_in = s.io_in ∧
      (n ≤ rem.length → s'.done = false ∧ s'.ret = s.ret ∧ s'.buf = A ++ bytes (rem.take n) ++ B.drop n ∧
        DecRel cs (rem.drop n) s'.rle_rle_state s'.rle_buf_length s'.rle_last_byte s'.rle_buf_pos s'.rle_buffer s'.io_pos) ∧
      (rem.length < n → s'.done = true ∧ s'.ret = -1 ∧ s'.buf = A ++ bytes rem ++ B.drop rem.length) := by
  intro fuel
  induction fuel with
  | zero =>
    intro n s rem A B i hf hub hdone hoof hn hn32 hi hbuf hA hB hio hrel
    have hn0 : n = 0 := by omega
    subst hn0
    rw [dec_loop_stop 0 s (by rw [hn]; simp) hoof]
    refine ⟨hub, hoof, rfl, rfl, rfl, fun _ => ⟨hdone, rfl, by simp [hbuf], by simpa using hrel⟩, fun h => by omega⟩
  | succ fuel ih =>
    intro n s rem A B i hf hub hdone hoof hn hn32 hi hbuf hA hB hio hrel
    by_cases hn0 : n = 0
    · subst hn0
      rw [dec_loop_stop _ s (by rw [hn]; simp) hoof]
      refine ⟨hub, hoof, rfl, rfl, rfl, fun _ => ⟨hdone, rfl, by simp [hbuf], by simpa using hrel⟩, fun h => by omega⟩
    · have hc : s.length > 0 ∧ ¬ (s.done = true) := by rw [hn, hdone]; simp; omega
      rw [HCIcrle_decode.loop0, if_pos hc]
      by_cases hrem : rem = []
      · subst hrem
        rw [dec_step_end cs (fuel + 1) s hdone hio hrel, dec_loop_stop _ _ (by simp) (by simpa using hoof)]
        refine ⟨hub, hoof, rfl, rfl, rfl, fun h => by simp at h; omega, fun _ => ⟨rfl, rfl, by simp [hbuf]⟩⟩
      · obtain ⟨d, hd0, hdn, hdr, g1, g2, g3, g4, g5, g6, g7, g8, g9, g10, g11⟩ :=
          dec_step cs rem A B n i (fuel + 1) s hub hdone hn (by omega) hn32 hi hbuf hA hB hio hrel hrem
        have hnext := ih (n - d) (HCIcrle_decode.loop0.body (fuel + 1) s) (rem.drop d) (A ++ bytes (rem.take d)) (B.drop d) (i + d)
          (by omega) g1 g2 (by rw [g3, hoof]) g4 (by omega) g5 (by rw [g6, List.append_assoc]) (by simp [hA]; omega) (by simp; omega)
          (by rw [g7, hio]) g11
        obtain ⟨n1, n2, n3, n4, n5, n6, n7⟩ := hnext
        refine ⟨n1, n2, by rw [n3, g8], by rw [n4, g9], by rw [n5, g7], ?_, ?_⟩
        · intro hle
          obtain ⟨m1, m2, m3, m4⟩ := n6 (by simp; omega)
          refine ⟨m1, by rw [m2, g10], ?_, ?_⟩
          · rw [m3, List.drop_drop, List.append_assoc, List.append_assoc, ← List.append_assoc (bytes _), ← bytes_append, ← List.take_add,
              List.append_assoc]
            congr 4 <;> omega
          · rw [List.drop_drop] at m4
            rw [show n = d + (n - d) by omega]
            exact m4
        · intro hlt
          obtain ⟨m1, m2, m3⟩ := n7 (by simp; omega)
          refine ⟨m1, m2, ?_⟩
          rw [m3, List.drop_drop, List.append_assoc, List.append_assoc, ← List.append_assoc (bytes _), ← bytes_append, List.take_append_drop,
            List.append_assoc, List.length_drop]
          congr 3; omega


/-- the state in which `HCIcrle_decode` enters its loop -/
def decStart (st len last : Int) (buffer : List Int) (pos offset length : Int) (buf io_in : List Int) (io_pos : Int) : HCIcrle_decode.St :=
  { rle_rle_state := st, rle_buf_length := len, rle_last_byte := last, rle_buffer := buffer, rle_buf_pos := pos, rle_offset := offset,
    length := length, buf := buf, io_in := io_in, io_pos := io_pos, orig_length := length }

/-- what `HCIcrle_decode` does after its loop -/
def decFinish (s : HCIcrle_decode.St) : HCIcrle_decode.St :=
  if s.done then s else { s with rle_offset := s.rle_offset + s.orig_length, ret := 0, done := true }

theorem dec_unfold (fuel : Nat) (st len last : Int) (buffer : List Int) (pos offset length : Int) (buf io_in : List Int) (io_pos : Int) :
    HCIcrle_decode fuel st len last buffer pos offset length buf io_in io_pos =
      decFinish (HCIcrle_decode.loop0 fuel (decStart st len last buffer pos offset length buf io_in io_pos)) := by
  unfold HCIcrle_decode decFinish decStart
  simp only [HCIcrle_decode.St.set_orig_length, HCIcrle_decode.St.set_rle_offset, HCIcrle_decode.St.set_ret, HCIcrle_decode.St.set_done]
  split <;> simp_all

/-- the stream the model's decoder accepts, with nothing delivered yet and the record as `HCIcrle_init` leaves it -/
theorem decRel_init (cs out : List Byte) (h : dec cs = some out) (len last pos : Int) (buffer : List Int) (hb : buffer.length = RLE_BUF_SIZE) :
    DecRel cs out 0 len last pos buffer 0 :=
  ⟨hb, 0, cs.length, out, rfl, Nat.zero_le _, by simpa [dec] using h, Or.inl ⟨rfl, rfl⟩⟩

end H4.Lemmas.C05Rle
