import H4.Lemmas.ElemWrite
/-! Coherence of the cached DD list with its on-disk image (`Coh`) through every primitive and composite step
    (cached mode). -/
namespace H4.Elem
open H4.Gen.Hdf

theorem coh_of_fields {f g : File} (h : Coh f) (h1 : g.cache = f.cache) (h2 : g.ndds = f.ndds) (h3 : g.mem = f.mem)
    (h4 : g.dsk = f.dsk) (h5 : g.blkDirty = f.blkDirty) : Coh g := by
  refine ⟨by rw [h1]; exact h.cache, by rw [h2]; exact h.ndds_pos, by rw [h3, h4]; exact h.dsk_len,
    by rw [h5, h2, h3]; exact h.dirty_len, ?_⟩
  intro i hi hc
  rw [h3] at hi
  rw [h5, h2] at hc
  have := h.dirty_ok i hi hc
  simp only [File.dd, h3, h4] at this ⊢
  exact this

theorem coh_pwrite {f : File} (h : Coh f) (off : Nat) (bs : Bytes) : Coh (f.pwrite off bs) :=
  coh_of_fields h rfl rfl rfl rfl rfl

theorem coh_endOff {f : File} (h : Coh f) (e : Nat) : Coh { f with endOff := e } :=
  coh_of_fields h rfl rfl rfl rfl rfl

theorem coh_links {f : File} (h : Coh f) (l : List ((Nat × Nat) × LinkInfo)) : Coh { f with links := l } :=
  coh_of_fields h rfl rfl rfl rfl rfl

theorem coh_setLink {f : File} (h : Coh f) (k : Nat × Nat) (li : LinkInfo) : Coh (f.setLink k li) :=
  coh_of_fields h rfl rfl rfl rfl rfl

theorem coh_attach {f : File} (h : Coh f) (n : Nat) : Coh { f with attach := n } :=
  coh_of_fields h rfl rfl rfl rfl rfl

theorem updateDD_cache (f : File) (i : Nat) : (f.updateDD i).cache = f.cache := by
  unfold File.updateDD; simp only [File.dd]; split <;> split <;> rfl
theorem updateDD_dsk (f : File) (i : Nat) (hc : f.cache = true) : (f.updateDD i).dsk = f.dsk := by
  unfold File.updateDD; simp only [File.dd]
  split <;> rw [if_pos hc]
theorem updateDD_blkDirty (f : File) (i : Nat) (hc : f.cache = true) :
    (f.updateDD i).blkDirty = f.blkDirty.set (i / f.ndds) true := by
  unfold File.updateDD; simp only [File.dd]
  split <;> rw [if_pos hc]
theorem getDiskBlock_dsk (f : File) (n : Nat) : (f.getDiskBlock n).1.dsk = f.dsk := by
  unfold File.getDiskBlock; simp only; split
  · rfl
  · split <;> rfl
theorem getDiskBlock_blkDirty (f : File) (n : Nat) : (f.getDiskBlock n).1.blkDirty = f.blkDirty := by
  unfold File.getDiskBlock; simp only; split
  · rfl
  · split <;> rfl
theorem getDiskBlock_blkOff (f : File) (n : Nat) : (f.getDiskBlock n).1.blkOff = f.blkOff := by
  unfold File.getDiskBlock; simp only; split
  · rfl
  · split <;> rfl

theorem coh_getDiskBlock {f : File} (h : Coh f) (n : Nat) : Coh (f.getDiskBlock n).1 :=
  coh_of_fields h (getDiskBlock_cache f n) (getDiskBlock_ndds f n) (getDiskBlock_mem f n) (getDiskBlock_dsk f n)
    (getDiskBlock_blkDirty f n)

/-- a DD changed in memory and noted by `HTIupdate_dd`: its block is dirty, every clean block still matches -/
theorem coh_set_update {f : File} (h : Coh f) (i : Nat) (d : DD) (hi : i < f.mem.length) :
    Coh (({ f with mem := f.mem.set i d } : File).updateDD i) := by
  have hc := h.cache
  have key : Coh ({ f with mem := f.mem.set i d, blkDirty := f.blkDirty.set (i / f.ndds) true } : File) := by
    refine ⟨hc, h.ndds_pos, by simp [h.dsk_len], by simp [h.dirty_len], ?_⟩
    intro j hj hcl
    simp only [List.length_set] at hj
    simp only [List.getD_eq_getElem?_getD, List.getElem?_set] at hcl
    have hib : i / f.ndds < f.blkDirty.length := by
      rw [Nat.div_lt_iff_lt_mul h.ndds_pos, h.dirty_len]; exact hi
    by_cases hb : i / f.ndds = j / f.ndds
    · rw [← hb] at hcl
      simp [hib] at hcl
    · simp only [hb, if_false] at hcl
      have hne : i ≠ j := fun e => hb (by rw [e])
      have := h.dirty_ok j hj (by simpa [List.getD_eq_getElem?_getD] using hcl)
      simp only [File.dd, List.getD_eq_getElem?_getD, List.getElem?_set, hne, if_false] at this ⊢
      exact this
  exact coh_of_fields key (updateDD_cache _ i) (updateDD_ndds _ i) (updateDD_mem _ i) (updateDD_dsk _ i hc)
    (updateDD_blkDirty _ i hc)

theorem coh_ddSetExt {f : File} (h : Coh f) (i : Nat) (e : Nat × Nat) (hi : i < f.mem.length) : Coh (f.ddSetExt i e) := by
  unfold File.ddSetExt
  exact coh_set_update h i _ hi

theorem coh_setLength {f : File} (h : Coh f) (i n : Nat) (hi : i < f.mem.length) : Coh (f.setLength i n).1 := by
  unfold File.setLength
  simp only
  exact coh_ddSetExt (coh_getDiskBlock h n) i _ (by rw [getDiskBlock_mem]; exact hi)

theorem newDDBlock_dsk (f : File) (_hc : f.cache = true) : f.newDDBlock.dsk = f.dsk ++ List.replicate f.ndds nilDD := by
  unfold File.newDDBlock; simp only [getDiskBlock_dsk, getDiskBlock_ndds]
theorem newDDBlock_blkDirty (f : File) (hc : f.cache = true) :
    f.newDDBlock.blkDirty = f.blkDirty.set (f.blkOff.length - 1) true ++ [true] := by
  unfold File.newDDBlock
  simp only [getDiskBlock_blkDirty, getDiskBlock_blkOff, getDiskBlock_cache, hc, if_true]

theorem coh_newDDBlock {f : File} (h : Coh f) : Coh f.newDDBlock := by
  have hc := h.cache
  refine ⟨by rw [newDDBlock_cache]; exact hc, by rw [newDDBlock_ndds]; exact h.ndds_pos,
    by rw [newDDBlock_dsk f hc, newDDBlock_mem]; simp [h.dsk_len], ?_, ?_⟩
  · rw [newDDBlock_blkDirty f hc, newDDBlock_ndds, newDDBlock_mem]
    simp only [List.length_append, List.length_set, List.length_cons, List.length_nil, List.length_replicate]
    rw [Nat.add_mul, h.dirty_len]; omega
  · intro j hj hcl
    rw [newDDBlock_mem] at hj
    simp only [List.length_append, List.length_replicate] at hj
    rw [newDDBlock_blkDirty f hc, newDDBlock_ndds] at hcl
    by_cases hjl : j < f.mem.length
    · have hjb : j / f.ndds < f.blkDirty.length := by
        rw [Nat.div_lt_iff_lt_mul h.ndds_pos, h.dirty_len]; exact hjl
      simp only [List.getD_eq_getElem?_getD, List.getElem?_append, List.length_set, hjb, if_true, List.getElem?_set] at hcl
      have hclean : f.blkDirty.getD (j / f.ndds) false = false := by
        by_cases hb2 : f.blkOff.length - 1 = j / f.ndds
        · simp [hb2, hjb] at hcl
        · simp only [hb2, if_false] at hcl
          simpa [List.getD_eq_getElem?_getD] using hcl
      have := h.dirty_ok j hjl hclean
      have hjd : j < f.dsk.length := by rw [h.dsk_len]; exact hjl
      rw [newDDBlock_dsk f hc, newDDBlock_dd]
      simp only [List.getD_eq_getElem?_getD, List.getElem?_append, hjd, if_true] at this ⊢
      exact this
    · exfalso
      have hjb : ¬ (j / f.ndds < f.blkDirty.length) := by
        rw [Nat.div_lt_iff_lt_mul h.ndds_pos, h.dirty_len]; exact hjl
      have hjb2 : j / f.ndds - f.blkDirty.length = 0 := by
        have : j / f.ndds < f.blkDirty.length + 1 := by
          rw [Nat.div_lt_iff_lt_mul h.ndds_pos, Nat.add_mul, h.dirty_len]; omega
        omega
      simp [List.getD_eq_getElem?_getD, List.getElem?_append, hjb, hjb2] at hcl

theorem coh_ddCreate {f : File} (h : Coh f) (tag ref : Nat) : Coh (f.ddCreate tag ref).1 := by
  unfold File.ddCreate
  cases hf : f.findFree with
  | some i =>
    simp only
    exact coh_set_update h i _ (findFree_some f i hf).1
  | none =>
    simp only
    have h1 := coh_newDDBlock h
    exact coh_set_update h1 f.mem.length _ (by rw [newDDBlock_mem]; simp; exact h.ndds_pos)

theorem coh_ddDelete {f : File} (h : Coh f) (i : Nat) (hi : i < f.mem.length) : Coh (f.ddDelete i) := by
  have hc := h.cache
  have key := coh_set_update h i { f.dd i with tag := DFTAG_NULL } hi
  unfold File.ddDelete
  have e1 : (f.updateDD i).dd i = f.dd i := updateDD_dd f i i
  refine coh_of_fields key ?_ ?_ ?_ ?_ ?_
  · show (f.updateDD i).cache = _; rw [updateDD_cache, updateDD_cache]
  · show (f.updateDD i).ndds = _; rw [updateDD_ndds, updateDD_ndds]
  · show (f.updateDD i).mem.set i _ = _; rw [updateDD_mem, updateDD_mem, e1]
  · show (f.updateDD i).dsk = _; rw [updateDD_dsk f i hc, updateDD_dsk _ i (by exact hc)]
  · show (f.updateDD i).blkDirty = _; rw [updateDD_blkDirty f i hc, updateDD_blkDirty _ i (by exact hc)]

end H4.Elem

namespace H4.Elem
open H4.Gen.Hdf

theorem ddCreate_lt (f : File) (tag ref : Nat) (hn : 1 ≤ f.ndds) : (f.ddCreate tag ref).2 < (f.ddCreate tag ref).1.mem.length := by
  unfold File.ddCreate
  cases hf : f.findFree with
  | some i => simp only [updateDD_mem, List.length_set]; exact (findFree_some f i hf).1
  | none => simp only [updateDD_mem, List.length_set, newDDBlock_mem, List.length_append, List.length_replicate]; omega

theorem coh_putNew {f : File} (h : Coh f) (tag ref len : Nat) (bs : Bytes) : Coh (f.putNew tag ref len bs).1 := by
  unfold File.putNew
  simp only
  have h1 := coh_ddCreate h tag ref
  have hlt := ddCreate_lt f tag ref h.ndds_pos
  exact coh_endOff (coh_pwrite (coh_setLength h1 _ len hlt) _ _) _

theorem coh_newTable {f : File} (h : Coh f) (ref nb : Nat) : Coh (f.newTable ref nb) := coh_putNew h _ _ _ _

theorem coh_ensureTables : ∀ (fuel : Nat) (f : File) (li : LinkInfo) (t : Nat), Coh f → Coh (ensureTables f li fuel t).1 := by
  intro fuel
  induction fuel with
  | zero => intro f li t h; exact h
  | succ fuel ih =>
    intro f li t h
    rw [ensureTables_succ]
    split
    · exact h
    · simp only
      split
      · exact coh_newTable (ih f li (t - 1) h) _ _
      · exact ih f li (t - 1) h

theorem coh_writeBlock {f : File} (h : Coh f) (li : LinkInfo) (p : Piece) (bs : Bytes) (f' : File) (li' : LinkInfo)
    (hr : writeBlock f li p bs = some (f', li')) : Coh f' := by
  unfold writeBlock at hr
  simp only at hr
  split at hr
  · split at hr
    · simp at hr
    · split at hr
      · simp at hr
      · simp only [Option.some.injEq, Prod.mk.injEq] at hr
        rw [← hr.1]; exact coh_pwrite h _ _
  · split at hr
    · simp at hr
    · simp only [Option.some.injEq, Prod.mk.injEq] at hr
      rw [← hr.1]
      have h1 := coh_ddCreate h DFTAG_LINKED (f.tagNewRef DFTAG_LINKED)
      have hlt := ddCreate_lt f DFTAG_LINKED (f.tagNewRef DFTAG_LINKED) h.ndds_pos
      exact coh_endOff (coh_pwrite (coh_setLength h1 _ p.cur hlt) _ _) _

theorem coh_writePieces : ∀ (ps : List Piece) (f : File) (li : LinkInfo) (bs : Bytes) (f' : File) (li' : LinkInfo),
    Coh f → writePieces f li ps bs = some (f', li') → Coh f' := by
  intro ps
  induction ps with
  | nil => intro f li bs f' li' h hr; simp only [writePieces, Option.some.injEq, Prod.mk.injEq] at hr; rw [← hr.1]; exact h
  | cons q rest ih =>
    intro f li bs f' li' h hr
    simp only [writePieces] at hr
    cases hp : writePiece f li q (bs.take q.n) with
    | none => rw [hp] at hr; simp at hr
    | some r =>
      obtain ⟨f1, li1⟩ := r
      rw [hp] at hr
      simp only at hr
      rw [writePiece_eq] at hp
      have h1 := coh_writeBlock (coh_ensureTables _ f li q.tbl h) _ _ _ _ _ hp
      exact ih f1 li1 _ f' li' h1 hr

theorem coh_hlpWrite {f : File} (h : Coh f) (li : LinkInfo) (hs posn : Nat) (bs : Bytes) :
    Coh (hlpWrite f li hs posn bs).1 := by
  unfold hlpWrite
  split
  · exact h
  · split
    · exact h
    · simp only
      have h1 := coh_ensureTables ((startBlock li.firstLen li.blockLen posn).1 / li.numBlocks + 1) f li
        ((startBlock li.firstLen li.blockLen posn).1 / li.numBlocks) h
      split
      · exact h1
      · rename_i f2 li2 hwp
        have h2 := coh_writePieces _ _ _ _ _ _ h1 hwp
        split
        · exact h2
        · split
          · exact h2
          · split
            · exact h2
            · exact coh_pwrite h2 _ _

end H4.Elem
