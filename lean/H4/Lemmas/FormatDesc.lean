import H4.Lemmas.Format
set_option linter.unusedSimpArgs false
/-! Lemmas for the old-style descriptive records of the independent format reader (C02): codec laws of `DFTAG_NT`, `DFTAG_SDD`,
`DFTAG_ID` / `DFTAG_LD` / `DFTAG_MD` and the label / unit / format string records, and what "no complaint" means for a
dimension record.  Core-only. -/
namespace H4.Format
open H4.Gen.Hdf H4.Gen.Fmt

/-! ### number type -/

def NT.InRange (n : NT) : Prop := n.version < 256 ∧ n.type < 256 ∧ n.width < 256 ∧ n.cls < 256

theorem decodeNT_encode (n : NT) (h : n.InRange) : decodeNT (encodeNT n) = some n := by
  obtain ⟨h1, h2, h3, h4⟩ := h
  obtain ⟨v, t, w, c⟩ := n
  simp only at h1 h2 h3 h4
  simp only [encodeNT, enc8, List.cons_append, List.nil_append, decodeNT, UInt8.toNat_ofNat', Option.some.injEq, NT.mk.injEq]
  omega

theorem encodeNT_length (n : NT) : (encodeNT n).length = 4 := rfl

/-- the other direction: every 4-byte element is the record of exactly one number type -/
theorem encodeNT_decode (b : Bytes) (n : NT) (h : decodeNT b = some n) : encodeNT n = b := by
  match b, h with
  | [a, b', c, d], h =>
    simp only [decodeNT, Option.some.injEq] at h
    subst h
    simp [encodeNT, enc8]

/-! ### dimension record of a scientific data set -/

theorem getS32s_flatMap (l : List Int) (h : ∀ x ∈ l, S32 x) (r : Bytes) :
    getS32s l.length (l.flatMap encS32 ++ r) = some (l, r) := by
  induction l with
  | nil => simp [getS32s]
  | cons a t ih =>
    have ha := h a (by simp)
    have ht := ih (fun x hx => h x (by simp [hx]))
    simp only [List.length_cons, List.flatMap_cons, List.append_assoc, getS32s, getS32_encS32 a ha, ht, Option.bind_eq_bind,
      Option.bind_some]

def SDD.InRange (s : SDD) : Prop :=
  s.dims.length < 65536 ∧ (∀ d ∈ s.dims, S32 d) ∧ s.dataNT.1 < 65536 ∧ s.dataNT.2 < 65536 ∧
  s.scaleNTs.length = s.dims.length ∧ ∀ p ∈ s.scaleNTs, p.1 < 65536 ∧ p.2 < 65536

theorem decodeSDD_encode (s : SDD) (h : s.InRange) : decodeSDD (encodeSDD s) = some s := by
  obtain ⟨h1, h2, h3, h4, h5, h6⟩ := h
  have e := getPairs16_encode s.scaleNTs h6 []
  rw [List.append_nil, h5] at e
  have e' : getPairs16 s.dims.length (s.scaleNTs.flatMap encPair) = some (s.scaleNTs, []) := e
  simp only [decodeSDD, encodeSDD, encPair, List.append_assoc, get16_enc16 _ h1, getS32s_flatMap _ h2, get16_enc16 _ h3,
    get16_enc16 _ h4, Option.bind_eq_bind, Option.bind_some]
  simp only [e', Option.bind_some, List.isEmpty_nil, if_true]

/-- the length the writers compute: 2 + 4·rank + 4·(rank + 1) -/
theorem encodeSDD_length (s : SDD) (h : s.scaleNTs.length = s.dims.length) :
    (encodeSDD s).length = 2 + 4 * s.dims.length + 4 * (s.dims.length + 1) := by
  have a : ∀ l : List Int, (l.flatMap encS32).length = 4 * l.length := by
    intro l; induction l with
    | nil => rfl
    | cons x t ih => simp only [List.flatMap_cons, List.length_append, encS32_length, ih, List.length_cons]; omega
  have b : ∀ l : List (Nat × Nat), (l.flatMap encPair).length = 4 * l.length := by
    intro l; induction l with
    | nil => rfl
    | cons x t ih => simp only [List.flatMap_cons, List.length_append, encPair, enc16_length, ih, List.length_cons]; omega
  simp only [encodeSDD, List.length_append, enc16_length, a, b, encPair, h]
  omega

/-! ### image / palette dimension record -/

def ImgDesc.InRange (d : ImgDesc) : Prop :=
  S32 d.xdim ∧ S32 d.ydim ∧ d.ntTag < 65536 ∧ d.ntRef < 65536 ∧ S16 d.ncomps ∧ S16 d.interlace ∧ d.compTag < 65536 ∧ d.compRef < 65536

theorem decodeImgDesc_encode (d : ImgDesc) (h : d.InRange) : decodeImgDesc (encodeImgDesc d) = some d := by
  obtain ⟨h1, h2, h3, h4, h5, h6, h7, h8⟩ := h
  have e := get16_enc16 d.compRef h8 []
  rw [List.append_nil] at e
  simp only [decodeImgDesc, encodeImgDesc, List.append_assoc, getS32_encS32 _ h1, getS32_encS32 _ h2, get16_enc16 _ h3,
    get16_enc16 _ h4, getS16_encS16 _ h5, getS16_encS16 _ h6, get16_enc16 _ h7, e, Option.bind_eq_bind, Option.bind_some,
    List.isEmpty_nil, if_true]

theorem encodeImgDesc_length (d : ImgDesc) : (encodeImgDesc d).length = 20 := rfl

/-! ### label / unit / format strings -/

theorem decodeStrsAux_encode (l : List Bytes) (h : ∀ s ∈ l, (0 : UInt8) ∉ s) :
    decodeStrsAux (encodeStrs l) [] = some l := by
  have step : ∀ (s : Bytes), (0 : UInt8) ∉ s → ∀ (cur rest : Bytes),
      decodeStrsAux (s ++ [0] ++ rest) cur = (decodeStrsAux rest []).map ((cur.reverse ++ s) :: ·) := by
    intro s
    induction s with
    | nil => intro _ cur rest; simp [decodeStrsAux]
    | cons c t ih =>
      intro hs cur rest
      have hc : c ≠ 0 := fun hc => hs (by simp [hc])
      have ht : (0 : UInt8) ∉ t := fun hm => hs (by simp [hm])
      simp only [List.cons_append, List.append_assoc, decodeStrsAux, hc, if_false]
      have := ih ht (c :: cur) rest
      simp only [List.append_assoc, List.reverse_cons] at this
      simpa using this
  induction l with
  | nil => simp [encodeStrs, decodeStrsAux]
  | cons a t ih =>
    have ha := h a (by simp)
    have ht := ih (fun s hs => h s (by simp [hs]))
    have := step a ha [] (encodeStrs t)
    simp only [encodeStrs, List.flatMap_cons] at this ht ⊢
    rw [this, ht]
    simp

theorem decodeStrs_encode (l : List Bytes) (h : ∀ s ∈ l, (0 : UInt8) ∉ s) : decodeStrs (encodeStrs l) = some l :=
  decodeStrsAux_encode l h

/-! ### what an accepted file says about its dimension records -/

/-- `decodeFile` accepts only files whose descriptive records raise no complaint -/
theorem decodeFile_desc {b : ByteArray} {c : FileContent} (h : decodeFile b = .ok c) : descComplaints c.elems c.vgs = [] := by
  unfold decodeFile at h
  split at h
  · simp at h
  · split at h
    · simp at h
    · split at h
      · simp at h
      · simp only at h
        split at h
        · split at h
          · rename_i hd
            injection h with h
            subst h
            exact hd
          · simp [bad] at h
        · simp [bad] at h

theorem flatMap_nil_of_mem {α β} {f : α → List β} {l : List α} (h : l.flatMap f = []) {a : α} (ha : a ∈ l) : f a = [] := by
  rw [List.flatMap_eq_nil_iff] at h
  exact h a ha

/-- no complaint at all ⇒ no complaint about any single element -/
theorem elemComplaints_nil {elems : List Elem} {vgs : List (Nat × VG)} (h : descComplaints elems vgs = []) {e : Elem} (he : e ∈ elems) :
    elemComplaints elems e = [] := by
  unfold descComplaints at h
  exact flatMap_nil_of_mem (List.append_eq_nil_iff.mp h).1 he

theorem vgComplaints_nil {elems : List Elem} {vgs : List (Nat × VG)} (h : descComplaints elems vgs = []) {p : Nat × VG} (hp : p ∈ vgs) :
    vgComplaints elems p = [] := by
  unfold descComplaints at h
  exact flatMap_nil_of_mem (List.append_eq_nil_iff.mp h).2 hp

/-- no complaint about a data-set group ⇒ none about any dimension record it names -/
theorem checkSDD_nil {elems : List Elem} {who : String} {ms : List (Nat × Nat)} (h : checkSDGroup elems who ms = []) {r : Nat}
    (hr : (DFTAG_SDD, r) ∈ ms) : checkSDD elems who ms r = [] := by
  unfold checkSDGroup at h
  have hm : (DFTAG_SDD, r) ∈ ms.filter (fun m => m.1 == DFTAG_SDD) := by simp [hr]
  exact flatMap_nil_of_mem h hm

/-- what `checkNT` returns without complaint: the number type is a `DFTAG_NT` element of 4 bytes that decodes to a known type of
    that size -/
theorem checkNT_ok {elems : List Elem} {who : String} {tag ref sz : Nat} (h : checkNT elems who tag ref = ([], some sz)) :
    tag = DFTAG_NT ∧ ∃ e bs n, elemOf elems tag ref = some e ∧ e.ldata.data.map (·.toList) = some bs ∧ decodeNT bs = some n ∧ ntOK n = some sz := by
  unfold checkNT at h
  split at h
  · simp at h
  · rename_i ht
    refine ⟨Decidable.of_not_not ht, ?_⟩
    split at h
    · simp at h
    · rename_i e he
      split at h
      · simp at h
      · rename_i bs hbs
        split at h
        · simp at h
        · rename_i n hn
          split at h
          · rename_i sz' hsz
            simp only [Prod.mk.injEq, Option.some.injEq, true_and] at h
            subst h
            exact ⟨e, bs, n, he, hbs, hn, hsz⟩
          · simp at h

/-- the complaints of `checkNT` are empty exactly when it returns a size -/
theorem checkNT_nil_size {elems : List Elem} {who : String} {tag ref : Nat} (h : (checkNT elems who tag ref).1 = []) :
    ∃ sz, checkNT elems who tag ref = ([], some sz) := by
  unfold checkNT at h ⊢
  split
  · simp_all
  · split
    · simp_all
    · split
      · simp_all
      · split
        · simp_all
        · split
          · exact ⟨_, rfl⟩
          · simp_all

/-- **soundness of the `sdd` clause**: when a data-set group raises no complaint, each dimension record it names that is in the file
    decodes; no dimension size is negative; the number type of the data and of every scale is a well-formed `DFTAG_NT`; and when the
    group names a data element that has been written, product(dimension sizes) · size(number type) is EXACTLY the logical length of
    that element — a reader that follows group → dimension record → data neither reads past the data nor leaves part of it unread -/
theorem checkSDD_sound {elems : List Elem} {who : String} {ms : List (Nat × Nat)} {r : Nat} {se : Elem}
    (h : checkSDD elems who ms r = []) (hse : elemOf elems DFTAG_SDD r = some se) :
    ∃ bs s sz, se.ldata.data.map (·.toList) = some bs ∧ decodeSDD bs = some s ∧ (∀ d ∈ s.dims, 0 ≤ d) ∧
      (∃ w, checkNT elems w s.dataNT.1 s.dataNT.2 = ([], some sz)) ∧
      (∀ p ∈ s.scaleNTs, ∃ w sz', checkNT elems w p.1 p.2 = ([], some sz')) ∧
      (∀ dt dr de, memberOf ms [DFTAG_SD] = some (dt, dr) → writtenElem elems DFTAG_SD dr = some de →
        de.ldata.len = prod (s.dims.map (·.toNat)) * sz) := by
  unfold checkSDD at h
  rw [hse] at h
  simp only at h
  split at h
  · simp at h
  · rename_i bs hbs
    split at h
    · simp at h
    · rename_i s hs
      simp only [List.append_eq_nil_iff] at h
      obtain ⟨⟨⟨⟨hd, hnt⟩, hsc⟩, hdata⟩, _⟩ := h
      obtain ⟨sz, hsz⟩ := checkNT_nil_size hnt
      refine ⟨bs, s, sz, hbs, hs, ?_, ⟨_, hsz⟩, ?_, ?_⟩
      · intro d hdm
        by_cases hneg : s.dims.any (· < 0) = true
        · simp [hneg] at hd
        · simp only [List.any_eq_true, decide_eq_true_eq, not_exists, not_and, Int.not_lt] at hneg
          exact hneg d hdm
      · intro p hp
        have := flatMap_nil_of_mem hsc hp
        obtain ⟨sz', hsz'⟩ := checkNT_nil_size this
        exact ⟨_, sz', hsz'⟩
      · intro dt dr de hmem hw
        rw [hsz, hmem] at hdata
        simp only [hw] at hdata
        split at hdata
        · assumption
        · simp at hdata

/-- no complaint about an image group ⇒ none about any image dimension record it names -/
theorem checkImgDesc_nil {elems : List Elem} {who : String} {ms : List (Nat × Nat)} (h : checkRIGroup elems who ms = []) {r : Nat}
    (hr : (DFTAG_ID, r) ∈ ms) : checkImgDesc elems who ms DFTAG_ID r [DFTAG_RI, DFTAG_CI] = [] := by
  unfold checkRIGroup at h
  have hm : (DFTAG_ID, r) ∈ ms.filter (fun m => m.1 == DFTAG_ID) := by simp [hr]
  exact flatMap_nil_of_mem (List.append_eq_nil_iff.mp (List.append_eq_nil_iff.mp h).1).1 hm

/-- the number type a raster dimension record names: none (0/0: 8-bit values) or a well-formed `DFTAG_NT` -/
def imgNT (elems : List Elem) (who : String) (d : ImgDesc) : List Complaint × Option Nat :=
  if d.ntTag = 0 ∨ d.ntRef = 0 then ([], some 1) else checkNT elems who d.ntTag d.ntRef

/-- **soundness of the `id` clause**: when an image / palette dimension record raises no complaint it decodes (20 bytes), its sizes are
    not negative, it has at least one component and an interlace of 0..2, and — for an image stored without one of the old raster
    compression schemes — the data element of the group, once it holds pixels, holds EXACTLY xdim · ydim · components · size(number type)
    bytes (logical length: the special compressed / chunked elements of the GR interface included) -/
theorem checkImgDesc_sound {elems : List Elem} {who : String} {ms : List (Nat × Nat)} {tag ref : Nat} {dataTags : List Nat} {ie : Elem}
    (h : checkImgDesc elems who ms tag ref dataTags = []) (hie : elemOf elems tag ref = some ie) :
    ∃ bs d, ie.ldata.data.map (·.toList) = some bs ∧ decodeImgDesc bs = some d ∧
      0 ≤ d.xdim ∧ 0 ≤ d.ydim ∧ 1 ≤ d.ncomps ∧ 0 ≤ d.interlace ∧ d.interlace ≤ 2 ∧
      ((d.compTag = 0 ∨ d.compTag = DFTAG_NULL) → ∃ w sz, imgNT elems w d = ([], some sz) ∧
        ∀ dt dr de, memberOf ms dataTags = some (dt, dr) → writtenElem elems dt dr = some de →
          de.ldata.len = d.xdim.toNat * d.ydim.toNat * d.ncomps.toNat * sz ∨ de.ldata.len = 0) := by
  unfold checkImgDesc at h
  rw [hie] at h
  simp only at h
  split at h
  · simp at h
  · rename_i bs hbs
    split at h
    · simp at h
    · rename_i d hd
      simp only [List.append_eq_nil_iff] at h
      obtain ⟨⟨hshape, hnt⟩, hdata⟩ := h
      have hs : ¬ (d.xdim < 0 ∨ d.ydim < 0 ∨ d.ncomps < 1 ∨ d.interlace < 0 ∨ d.interlace > (H4.Gen.FmtDesc.DFIL_PLANE : Nat)) := by
        intro hc; simp [hc] at hshape
      have hpl : ((H4.Gen.FmtDesc.DFIL_PLANE : Nat) : Int) = 2 := by decide
      rw [hpl] at hs
      refine ⟨bs, d, hbs, hd, by omega, by omega, by omega, by omega, by omega, ?_⟩
      intro hcomp
      have hnt' : (imgNT elems s!"{who} dimension record {tag}/{ref}" d).1 = [] := hnt
      have hsz : ∃ sz, imgNT elems s!"{who} dimension record {tag}/{ref}" d = ([], some sz) := by
        unfold imgNT at hnt' ⊢
        split
        · exact ⟨1, rfl⟩
        · rename_i hn
          simp only [hn, if_false] at hnt'
          exact checkNT_nil_size hnt'
      obtain ⟨sz, hsz⟩ := hsz
      refine ⟨_, sz, hsz, ?_⟩
      intro dt dr de hmem hw
      have hsz' : (if d.ntTag = 0 ∨ d.ntRef = 0 then (([] : List Complaint), some 1) else checkNT elems s!"{who} dimension record {tag}/{ref}" d.ntTag d.ntRef) = ([], some sz) := hsz
      rw [if_pos hcomp, hsz', hmem] at hdata
      simp only [hw] at hdata
      split at hdata
      · assumption
      · simp at hdata

end H4.Format
