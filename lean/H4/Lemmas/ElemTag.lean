import H4.ElemSpec
/-! Tag arithmetic (`SPECIALTAG`, `BASETAG`, `MKSPECIALTAG`). -/
namespace H4.Elem
open H4.Gen.Hdf

theorem isSpecial_iff (t : Nat) : isSpecial t = true ↔ (t % 65536 < 32768 ∧ t / 16384 % 2 = 1) := by
  unfold isSpecial
  simp only [H4.Gen.Elem.EXTENDED_TAG_BIT, H4.Gen.Elem.SPECIAL_TAG_BIT, Bool.and_eq_true, decide_eq_true_eq, beq_iff_eq, Nat.reduceMul]
  simp
  intro _
  exact decide_eq_true_iff

theorem baseTag_idem (t : Nat) : baseTag (baseTag t) = baseTag t := by
  unfold baseTag
  by_cases h : isSpecial t = true
  · simp only [h, if_true]
    have h' := (isSpecial_iff t).mp h
    have : ¬ (isSpecial (t - H4.Gen.Elem.SPECIAL_TAG_BIT) = true) := by
      rw [isSpecial_iff]
      simp only [H4.Gen.Elem.SPECIAL_TAG_BIT]
      omega
    simp [this]
  · simp [h]

theorem baseTag_not_special (t : Nat) (h : isSpecial t = false) : baseTag t = t := by
  unfold baseTag; simp [h]

theorem isSpecial_baseTag (t : Nat) : isSpecial (baseTag t) = false := by
  unfold baseTag
  by_cases h : isSpecial t = true
  · simp only [h, if_true]
    have h' := (isSpecial_iff t).mp h
    have : ¬ (isSpecial (t - H4.Gen.Elem.SPECIAL_TAG_BIT) = true) := by
      rw [isSpecial_iff]
      simp only [H4.Gen.Elem.SPECIAL_TAG_BIT]
      omega
    simpa using this
  · simp only [h, if_false]; simpa using h


end H4.Elem
