import H4.Atom
/-! # Lemmas for the atom model (C13): generated macros, list facts, the refinement relation `R`
between the model of `atom.c` (`H4.Atom.State`) and the finite-map specification (`H4.Atom.SState`),
and its preservation by every call. -/
set_option linter.unusedSimpArgs false
namespace H4.Atom
open H4.Gen.Macros H4.Gen.Atom

/-! ## constants and generated macros -/

theorem consts :
    GROUP_BITS = 4 ∧ GROUP_MASK = 15 ∧ ATOM_BITS = 28 ∧ ATOM_MASK = 2 ^ 28 - 1 ∧ ATOM_CACHE_SIZE = 4 ∧ MAXGROUP = 9 ∧
    ATOM_T_BITS = 32 ∧ SUCCEED = 0 ∧ FAIL = -1 ∧ BADGROUP = -1 ∧ FAIL_ATOM = 2 ^ 32 - 1 ∧ UNSIGNED_BITS = 32 ∧
    atom_id_cache_init = [2 ^ 32 - 1, 2 ^ 32 - 1, 2 ^ 32 - 1, 2 ^ 32 - 1] ∧ atom_obj_cache_init = [0, 0, 0, 0] := by
  decide

theorem MAKE_ATOM_eq (g i : Nat) (hg : g < 16) : MAKE_ATOM g i = g * 2 ^ 28 + i % 2 ^ 28 := by
  unfold MAKE_ATOM
  have h28 : (((4 * 8) + 4294967296 - (4 % 4294967296)) % 4294967296) = 28 := by decide
  rw [h28]
  have : (268435455:Nat) = 2^28 - 1 := by decide
  rw [this, Nat.and_two_pow_sub_one_eq_mod]
  have : (15:Nat) = 2^4 - 1 := by decide
  rw [this, Nat.and_two_pow_sub_one_eq_mod, Nat.shiftLeft_eq]
  have e1 : g % 4294967296 % 2^4 = g := by omega
  have e2 : i % 4294967296 % 2^28 = i % 2^28 := by omega
  rw [e1, e2, Nat.mul_comm, ← Nat.two_pow_add_eq_or_of_lt]
  exact Nat.mod_lt _ (by decide)

theorem ATOM_TO_GROUP_eq (a : Nat) : ATOM_TO_GROUP a = a % 2 ^ 32 / 2 ^ 28 := by
  unfold ATOM_TO_GROUP
  have h28 : (((4 * 8) + 4294967296 - (4 % 4294967296)) % 4294967296) = 28 := by decide
  rw [h28]
  have : (15:Nat) = 2^4 - 1 := by decide
  rw [this, Nat.and_two_pow_sub_one_eq_mod, Nat.shiftRight_eq_div_pow]
  omega

theorem ATOM_TO_LOC_pow2 (a k : Nat) (hk : k ≤ 32) : ATOM_TO_LOC a (2 ^ k) = a % 2 ^ k := by
  unfold ATOM_TO_LOC
  have hp : 0 < 2 ^ k := Nat.two_pow_pos k
  have hle : 2 ^ k ≤ 2 ^ 32 := Nat.pow_le_pow_right (by decide) hk
  have e : (2 ^ k + 4294967296 - 1 % 4294967296) % 4294967296 = 2 ^ k - 1 := by omega
  rw [e, Nat.and_two_pow_sub_one_eq_mod]
  exact Nat.mod_mod_of_dvd a (Nat.pow_dvd_pow 2 hk)

theorem group_MAKE_ATOM (g i : Nat) (hg : g < 16) : ATOM_TO_GROUP (MAKE_ATOM g i) = g := by
  rw [ATOM_TO_GROUP_eq, MAKE_ATOM_eq g i hg]; omega

theorem MAKE_ATOM_lt (g i : Nat) (hg : g < 16) : MAKE_ATOM g i < 2 ^ 32 := by
  rw [MAKE_ATOM_eq g i hg]; omega

theorem loc_MAKE_ATOM (g i k : Nat) (hg : g < 16) (hk : k ≤ 28) : ATOM_TO_LOC (MAKE_ATOM g i) (2 ^ k) = i % 2 ^ k := by
  rw [ATOM_TO_LOC_pow2 _ _ (by omega), MAKE_ATOM_eq g i hg]
  have hd : 2 ^ k ∣ 2 ^ 28 := Nat.pow_dvd_pow 2 hk
  obtain ⟨c, hc⟩ := hd
  rw [hc, ← Nat.mul_assoc, Nat.mul_comm g, Nat.mul_assoc, Nat.mul_add_mod, Nat.mod_mul_right_mod]

theorem MAKE_ATOM_inj (g i j : Nat) (hg : g < 16) (hi : i < 2 ^ 28) (hj : j < 2 ^ 28)
    (h : MAKE_ATOM g i = MAKE_ATOM g j) : i = j := by
  rw [MAKE_ATOM_eq g i hg, MAKE_ATOM_eq g j hg] at h; omega

/-- the counter part of an atom: `atm & ATOM_MASK` -/
theorem counter_MAKE_ATOM (g i : Nat) (hg : g < 16) : MAKE_ATOM g i % 2 ^ 28 = i % 2 ^ 28 := by
  rw [MAKE_ATOM_eq g i hg]; omega

/-- the id wraps after `2^ATOM_BITS` registrations -/
theorem MAKE_ATOM_wrap (g i : Nat) : MAKE_ATOM g (i + 2 ^ 28) = MAKE_ATOM g i := by
  simp only [MAKE_ATOM]
  have : (268435455:Nat) = 2^28 - 1 := by decide
  rw [this, Nat.and_two_pow_sub_one_eq_mod, Nat.and_two_pow_sub_one_eq_mod]
  have : (i + 2 ^ 28) % 4294967296 % 2 ^ 28 = i % 4294967296 % 2 ^ 28 := by omega
  rw [this]

/-- the C test `hash_size != 0 && (hash_size & (hash_size - 1)) == 0` characterises the powers of two -/
theorem pow2_of_and (n : Nat) (h0 : n ≠ 0) (h : n &&& (n - 1) = 0) : ∃ k, n = 2 ^ k := by
  induction n using Nat.strongRecOn with
  | _ n ih =>
    rcases Nat.lt_or_ge n 2 with h2 | h2
    · exact ⟨0, by omega⟩
    · have hd : (n &&& (n - 1)) / 2 = 0 := by rw [h]
      rw [Nat.and_div_two] at hd
      rcases Nat.mod_two_eq_zero_or_one n with he | ho
      · have e : (n - 1) / 2 = n / 2 - 1 := by omega
        rw [e] at hd
        obtain ⟨k, hk⟩ := ih (n / 2) (by omega) (by omega) hd
        exact ⟨k + 1, by rw [Nat.pow_succ]; omega⟩
      · have e : (n - 1) / 2 = n / 2 := by omega
        rw [e, Nat.and_self] at hd
        omega

theorem and_pred_pow2 (k : Nat) : 2 ^ k &&& (2 ^ k - 1) = 0 := by
  rw [Nat.and_two_pow_sub_one_eq_mod, Nat.mod_self]

/-! ## list facts -/

/-! list lemmas -/
theorem find?_filter_imp {α} (p q : α → Bool) (l : List α) (h : ∀ x ∈ l, p x = true → q x = true) :
    (l.filter q).find? p = l.find? p := by
  induction l with
  | nil => rfl
  | cons a t ih =>
    have iht := ih (fun x hx => h x (List.mem_cons_of_mem _ hx))
    by_cases hq : q a = true
    · simp only [List.filter_cons, hq, if_true, List.find?_cons, iht]
    · have hp : p a = false := by
        cases hpa : p a with
        | false => rfl
        | true => exact absurd (h a (List.mem_cons_self) hpa) hq
      rw [List.filter_cons_of_neg hq, iht]
      simp only [List.find?_cons, hp]

theorem filter_eraseP_imp {α} (p q : α → Bool) (l : List α) (h : ∀ x ∈ l, p x = true → q x = true) :
    (l.eraseP p).filter q = (l.filter q).eraseP p := by
  induction l with
  | nil => rfl
  | cons a t ih =>
    have iht := ih (fun x hx => h x (List.mem_cons_of_mem _ hx))
    by_cases hp : p a = true
    · have hq := h a List.mem_cons_self hp
      simp [List.eraseP_cons, hp, List.filter_cons, hq]
    · by_cases hq : q a = true
      · simp [List.eraseP_cons, hp, List.filter_cons, hq, iht]
      · simp [List.eraseP_cons, hp, List.filter_cons, hq, iht]

theorem filter_eraseP_disj {α} (p q : α → Bool) (l : List α) (h : ∀ x ∈ l, p x = true → q x = false) :
    (l.eraseP p).filter q = l.filter q := by
  induction l with
  | nil => rfl
  | cons a t ih =>
    have iht := ih (fun x hx => h x (List.mem_cons_of_mem _ hx))
    by_cases hp : p a = true
    · have hq := h a List.mem_cons_self hp
      simp [List.eraseP_cons, hp, List.filter_cons, hq]
    · simp [List.eraseP_cons, hp, List.filter_cons, iht]

theorem find?_eraseP_ne {α} (p r : α → Bool) (l : List α) (h : ∀ x ∈ l, r x = true → p x = false) :
    (l.eraseP p).find? r = l.find? r := by
  induction l with
  | nil => rfl
  | cons a t ih =>
    have iht := ih (fun x hx => h x (List.mem_cons_of_mem _ hx))
    by_cases hp : p a = true
    · have hr : r a = false := by
        cases hra : r a with
        | false => rfl
        | true => have := h a List.mem_cons_self hra; simp [hp] at this
      simp [List.eraseP_cons, hp, List.find?_cons, hr]
    · simp [List.eraseP_cons, hp, List.find?_cons, iht]

/-- in a list with pairwise distinct ids, looking an element's id up finds that element -/
theorem find?_of_mem_nodup (l : List Info) (e : Info) (hm : e ∈ l) (hn : l.Pairwise (fun a b => a.id ≠ b.id)) :
    l.find? (fun x => x.id == e.id) = some e := by
  induction l with
  | nil => cases hm
  | cons a t ih =>
    rw [List.pairwise_cons] at hn
    rcases List.mem_cons.mp hm with rfl | hm'
    · simp [List.find?_cons]
    · have : a.id ≠ e.id := hn.1 e hm'
      simp [List.find?_cons, this, ih hm' hn.2]

theorem find?_id_some (l : List Info) (atm : Nat) (e : Info) (h : l.find? (fun x => x.id == atm) = some e) : e ∈ l ∧ e.id = atm := by
  have h1 := List.find?_some h
  have h2 := List.mem_of_find?_eq_some h
  exact ⟨h2, by simpa using h1⟩

theorem not_mem_eraseP_nodup (l : List Info) (atm : Nat) (hn : l.Pairwise (fun a b => a.id ≠ b.id)) :
    ∀ e ∈ l.eraseP (fun x => x.id == atm), e.id ≠ atm := by
  induction l with
  | nil => intro e he; cases he
  | cons a t ih =>
    rw [List.pairwise_cons] at hn
    intro e he
    by_cases ha : a.id = atm
    · simp [List.eraseP_cons, ha] at he
      exact fun h => hn.1 e he (by rw [ha, h])
    · simp [List.eraseP_cons, ha] at he
      rcases he with rfl | he
      · exact ha
      · exact ih hn.2 e he


/-! ## the refinement relation -/

def TblRel (gp : Group) (sg : SGroup) : Prop :=
  gp.atoms = sg.live.length ∧
  ∃ k, k ≤ 28 ∧ gp.hashSize = 2 ^ k ∧ gp.atomList.length = 2 ^ k ∧
    ∀ b, b < 2 ^ k → gp.atomList.getD b [] = sg.live.filter (fun e => e.id % 2 ^ k == b)

def GRel : Option Group → SGroup → Prop
  | none, sg => sg.count = 0
  | some gp, sg => gp.count = sg.count ∧ (0 < gp.count → TblRel gp sg)

structure SGInv (g : Nat) (sg : SGroup) : Prop where
  dead : sg.count = 0 → sg.live = []
  bound : sg.nextid ≤ 2 ^ 28
  ids : ∀ e ∈ sg.live, ∃ i, i < sg.nextid ∧ e.id = MAKE_ATOM g i
  nodup : sg.live.Pairwise (fun a b => a.id ≠ b.id)

def SlotOk (sp : SState) (c : Info) : Prop := c = emptySlot ∨ slookup sp c.id = some c.obj

structure R (s : State) (sp : SState) : Prop where
  len : s.groups.length = MAXGROUP
  grp : ∀ g, g < MAXGROUP → GRel (getG s g) (sp g)
  out : ∀ g, MAXGROUP ≤ g → (sp g).live = [] ∧ (sp g).count = 0 ∧ (sp g).nextid = 0
  nlen : s.nextIds.length = MAXGROUP
  nx : ∀ g, g < MAXGROUP → nextId s g = (sp g).nextid
  sinv : ∀ g, g < MAXGROUP → SGInv g (sp g)
  cache : ∀ c ∈ s.cache.toList, SlotOk sp c
  cdist : s.cache.toList.Pairwise (fun a b => a.id = b.id → a.id = FAIL_ATOM)

theorem getG_setG (s : State) (g g' : Nat) (p : Group) (hg : g < s.groups.length) :
    getG (setG s g p) g' = if g = g' then some p else getG s g' := by
  unfold getG setG
  simp only [List.getD_eq_getElem?_getD, List.getElem?_set]
  by_cases h : g = g'
  · subst h; simp [hg]
  · simp [h]

theorem setG_len (s : State) (g : Nat) (p : Group) : (setG s g p).groups.length = s.groups.length := by
  simp [setG]

theorem badGroup_false {grp : Int} (h : badGroup grp = false) : ∃ g : Nat, grp = (g : Int) ∧ g < MAXGROUP ∧ grp.toNat = g := by
  unfold badGroup at h
  have hM : MAXGROUP = 9 := rfl
  have hB : BADGROUP = -1 := rfl
  simp only [Bool.or_eq_false_iff, decide_eq_false_iff_not, hM, hB] at h
  refine ⟨grp.toNat, ?_, ?_, rfl⟩ <;> omega

theorem badGroup_nat (g : Nat) : badGroup (g : Int) = decide (MAXGROUP ≤ g) := by
  unfold badGroup
  have hM : MAXGROUP = 9 := rfl
  have hB : BADGROUP = -1 := rfl
  rw [hM, hB]
  by_cases h : 9 ≤ g
  · simp [h]; omega
  · simp [h]; omega

theorem upd_same (sp : SState) (g : Nat) (sg : SGroup) : upd sp g sg g = sg := by simp [upd]
theorem upd_other (sp : SState) (g g' : Nat) (sg : SGroup) (h : g' ≠ g) : upd sp g sg g' = sp g' := by simp [upd, h]

/-- lookups are untouched by an update of another group, or one that keeps `live` -/
theorem slookup_upd (sp : SState) (g : Nat) (sg : SGroup) (atm : Nat) (h : ATOM_TO_GROUP atm = g → sg.live = (sp g).live) :
    slookup (upd sp g sg) atm = slookup sp atm := by
  unfold slookup
  by_cases hg : ATOM_TO_GROUP atm = g
  · rw [hg, upd_same, h hg]
  · rw [upd_other _ _ _ _ hg]

theorem slookup_empty (sp : SState) (atm : Nat) (h : (sp (ATOM_TO_GROUP atm)).live = []) : slookup sp atm = none := by
  simp [slookup, h]

theorem group_FAIL_ATOM : ATOM_TO_GROUP FAIL_ATOM = 15 := by decide

theorem slookup_some_group {s sp} (hR : R s sp) {atm o} (h : slookup sp atm = some o) : ATOM_TO_GROUP atm < MAXGROUP := by
  rcases Nat.lt_or_ge (ATOM_TO_GROUP atm) MAXGROUP with h1 | h1
  · exact h1
  · rw [slookup_empty sp atm (hR.out _ h1).1] at h; cases h

theorem slookup_some_count {s sp} (hR : R s sp) {atm o} (h : slookup sp atm = some o) : 0 < (sp (ATOM_TO_GROUP atm)).count := by
  have hg := slookup_some_group hR h
  rcases Nat.eq_zero_or_pos (sp (ATOM_TO_GROUP atm)).count with h0 | h0
  · rw [slookup_empty sp atm ((hR.sinv _ hg).dead h0)] at h; cases h
  · exact h0

theorem init_R : R State.init SState.init := by
  refine ⟨by simp [State.init], ?_, ?_, by decide, ?_, ?_, ?_, ?_⟩
  · intro g hg
    have : getG State.init g = none := by
      simp [getG, State.init, List.getD_eq_getElem?_getD, List.getElem?_replicate, hg]
    rw [this]; exact rfl
  · intro g _; exact ⟨rfl, rfl, rfl⟩
  · intro g hg
    have hM : MAXGROUP = 9 := rfl
    have : ∀ k, k < 9 → nextId State.init k = 0 := by decide
    exact this g (by omega)
  · intro g _; exact ⟨fun _ => rfl, by simp [SState.init], (by intro e he; cases he), List.Pairwise.nil⟩
  · intro c hc
    left
    have : State.init.cache.toList = [emptySlot, emptySlot, emptySlot, emptySlot] := by decide
    rw [this] at hc
    simp at hc; exact hc
  · decide


/-! ## updating one group; `HAinit_group` -/

theorem slookup_upd' (sp : SState) (g : Nat) (sg : SGroup) (atm : Nat)
    (h : ATOM_TO_GROUP atm = g → sg.live.find? (fun e => e.id == atm) = (sp g).live.find? (fun e => e.id == atm)) :
    slookup (upd sp g sg) atm = slookup sp atm := by
  unfold slookup
  by_cases hg : ATOM_TO_GROUP atm = g
  · rw [hg, upd_same, h hg]
  · rw [upd_other _ _ _ _ hg]

theorem SlotOk_upd {sp : SState} {g : Nat} {sg : SGroup} {x : Info} (hx : SlotOk sp x)
    (h : ATOM_TO_GROUP x.id = g → sg.live.find? (fun e => e.id == x.id) = (sp g).live.find? (fun e => e.id == x.id)) :
    SlotOk (upd sp g sg) x := by
  rcases hx with hx | hx
  · exact Or.inl hx
  · exact Or.inr (by rw [slookup_upd' sp g sg x.id h]; exact hx)

/-- the id counters still agree when group `g`'s record is replaced by one with the same `nextid` -/
theorem nx_same {s : State} {sp : SState} (hR : R s sp) (g : Nat) (sg : SGroup) (h : sg.nextid = (sp g).nextid) :
    ∀ g', g' < MAXGROUP → s.nextIds.getD g' 0 = (upd sp g sg g').nextid := by
  intro g' hg'
  have := hR.nx g' hg'
  unfold nextId at this
  by_cases hh : g' = g
  · subst hh; rw [upd_same, h]; exact this
  · rw [upd_other _ _ _ _ hh]; exact this

/-- replace group `g` on both sides -/
theorem R_setG {s : State} {sp : SState} (hR : R s sp) (g : Nat) (hg : g < MAXGROUP) (gp : Group) (sg : SGroup)
    (nx' : List Nat) (fl : List Info) (c : Cache)
    (hnl : nx'.length = MAXGROUP) (hnx : ∀ g', g' < MAXGROUP → nx'.getD g' 0 = (upd sp g sg g').nextid)
    (hrel : GRel (some gp) sg) (hinv : SGInv g sg)
    (hcache : ∀ x ∈ c.toList, SlotOk (upd sp g sg) x)
    (hdist : c.toList.Pairwise (fun a b => a.id = b.id → a.id = FAIL_ATOM)) :
    R ⟨s.groups.set g (some gp), nx', fl, c⟩ (upd sp g sg) := by
  have hlen := hR.len
  refine ⟨by simp [hlen], ?_, ?_, hnl, hnx, ?_, hcache, hdist⟩
  · intro g' hg'
    have e : getG ⟨s.groups.set g (some gp), nx', fl, c⟩ g' = if g = g' then some gp else getG s g' := by
      have := getG_setG s g g' gp (by omega)
      simpa [setG, getG] using this
    rw [e]
    by_cases h : g = g'
    · subst h; simp only [if_true, upd_same]; exact hrel
    · simp only [h, if_false]; rw [upd_other _ _ _ _ (Ne.symm h)]; exact hR.grp g' hg'
  · intro g' hg'
    rw [upd_other _ _ _ _ (by omega)]; exact hR.out g' hg'
  · intro g' hg'
    by_cases h : g' = g
    · subst h; rw [upd_same]; exact hinv
    · rw [upd_other _ _ _ _ h]; exact hR.sinv g' hg'

theorem getD_replicate_nil {α} (n b : Nat) : (List.replicate n ([] : List α)).getD b [] = [] := by
  simp only [List.getD_eq_getElem?_getD, List.getElem?_replicate]
  split <;> rfl

theorem step_init {s sp} (hR : R s sp) (grp : Int) (hs : Nat) (hok : hs ≤ 2 ^ 28) :
    R (initGroup s grp hs).1 (sstep sp (.init grp hs)) ∧ Res.status (initGroup s grp hs).2 = sres sp (.init grp hs) := by
  unfold initGroup
  simp only [sstep, sres]
  by_cases hb : badGroup grp = true
  · simp [hb]; exact hR
  · have hb' : badGroup grp = false := by simpa using hb
    by_cases h0 : hs = 0
    · simp [h0]; exact hR
    · by_cases hp : hs &&& (hs - 1) = 0
      · obtain ⟨g, rfl, hg, hgn⟩ := badGroup_false hb'
        obtain ⟨k, hk⟩ := pow2_of_and hs h0 hp
        have hk28 : k ≤ 28 := by
          rw [hk] at hok
          exact (Nat.pow_le_pow_iff_right (by decide)).mp hok
        have e0 : (hs == 0) = false := by simp [h0]
        have ep : (hs &&& (hs - 1) != 0) = false := by simp [hp]
        simp only [hb', e0, ep, hgn, Bool.or_false, Bool.false_or, if_false, Bool.false_eq_true]
        refine ⟨?_, trivial⟩
        have hrel := hR.grp g hg
        have hinv := hR.sinv g hg
        -- is the group already live?
        by_cases hc : (sp g).count = 0
        · -- fresh table
          have hgp0 : ((getG s g).getD {}).count = 0 := by
            cases hgg : getG s g with
            | none => rfl
            | some gp => rw [hgg] at hrel; simp [hrel.1, hc]
          simp only [hgp0, hc, if_true, beq_self_eq_true]
          unfold setG
          apply R_setG hR g hg
          · exact hR.nlen
          · exact nx_same hR g _ rfl
          · refine ⟨rfl, fun _ => ⟨rfl, k, hk28, hk, by simp [hk], ?_⟩⟩
            intro b _
            show (List.replicate hs []).getD b [] = _
            rw [getD_replicate_nil]; rfl
          · exact ⟨by simp, hinv.bound, by simp, List.Pairwise.nil⟩
          · intro x hx
            exact SlotOk_upd (hR.cache x hx) (fun _ => by simp [hinv.dead hc])
          · exact hR.cdist
        · cases hgg : getG s g with
          | none => rw [hgg] at hrel; exact absurd hrel hc
          | some gp =>
            rw [hgg] at hrel
            have hgc : gp.count ≠ 0 := by rw [hrel.1]; exact hc
            simp only [Option.getD_some, hgc, hc, if_false, beq_iff_eq]
            unfold setG
            apply R_setG hR g hg
            · exact hR.nlen
            · exact nx_same hR g _ rfl
            · refine ⟨by simp [hrel.1], fun _ => ?_⟩
              exact hrel.2 (by omega)
            · exact ⟨by simp, hinv.bound, hinv.ids, hinv.nodup⟩
            · intro x hx
              exact SlotOk_upd (hR.cache x hx) (fun _ => rfl)
            · exact hR.cdist
      · simp [hb', h0, hp]; exact hR

/-! ## `HAdestroy_group` -/

abbrev CDist (l : List Info) : Prop := l.Pairwise (fun a b => a.id = b.id → a.id = FAIL_ATOM)

theorem cdist_map (l : List Info) (f : Info → Info) (hf : ∀ x, f x = x ∨ f x = emptySlot) (h : CDist l) : CDist (l.map f) := by
  apply List.Pairwise.map f _ h
  intro a b hab
  rcases hf a with ha | ha <;> rcases hf b with hb | hb
  · rw [ha, hb]; exact hab
  · rw [ha, hb]; intro e; exact e
  · rw [ha]; intro _; rfl
  · rw [ha]; intro _; rfl

theorem atomGroup_beq (atm g : Nat) : (atomGroup atm == (g : Int)) = decide (ATOM_TO_GROUP atm = g) := by
  unfold atomGroup
  by_cases h : ATOM_TO_GROUP atm = g
  · simp [h]
  · simp [h]; omega

theorem dropGroup_toList (c : Cache) (grp : Int) :
    (c.dropGroup grp).toList = c.toList.map (fun x => if atomGroup x.id == grp then emptySlot else x) := rfl

theorem step_destroy {s sp} (hR : R s sp) (grp : Int) :
    R (destroyGroup s grp).1 (sstep sp (.destroy grp)) ∧ Res.status (destroyGroup s grp).2 = sres sp (.destroy grp) := by
  unfold destroyGroup
  simp only [sstep, sres]
  by_cases hb : badGroup grp = true
  · simp [hb]; exact hR
  · have hb' : badGroup grp = false := by simpa using hb
    obtain ⟨g, rfl, hg, hgn⟩ := badGroup_false hb'
    simp only [hb', hgn, Bool.false_or, if_false, Bool.false_eq_true]
    have hrel := hR.grp g hg
    have hinv := hR.sinv g hg
    cases hgg : getG s g with
    | none =>
      rw [hgg] at hrel
      have : (sp g).count = 0 := hrel
      simp [this]; exact hR
    | some gp =>
      rw [hgg] at hrel
      obtain ⟨hcnt, htbl⟩ := hrel
      by_cases hc : gp.count = 0
      · have : (sp g).count = 0 := by rw [← hcnt]; exact hc
        simp [hc, this]; exact hR
      · have hsc : (sp g).count ≠ 0 := by rw [← hcnt]; exact hc
        have e1 : (gp.count == 0) = false := by simp [hc]
        have e2 : ((sp g).count == 0) = false := by simp [hsc]
        simp only [e1, e2, if_false, Bool.false_eq_true]
        by_cases h1 : gp.count = 1
        · have hs1 : (sp g).count = 1 := by rw [← hcnt]; exact h1
          have e3 : (gp.count - 1 == 0) = true := by simp [h1]
          have e4 : ((sp g).count == 1) = true := by simp [hs1]
          simp only [e3, e4, if_true]
          refine ⟨?_, trivial⟩
          unfold setG
          apply R_setG hR g hg
          · exact hR.nlen
          · exact nx_same hR g _ rfl
          · exact ⟨by simp [h1], fun h => by simp [h1] at h⟩
          · exact ⟨by simp, hinv.bound, by simp, List.Pairwise.nil⟩
          · intro x hx
            have hx' : x ∈ (s.cache.dropGroup (g : Int)).toList := hx
            rw [dropGroup_toList] at hx'
            obtain ⟨y, hy, rfl⟩ := List.mem_map.mp hx'
            rw [atomGroup_beq]
            by_cases hyg : ATOM_TO_GROUP y.id = g
            · simp [hyg]; exact Or.inl rfl
            · simp [hyg]
              exact SlotOk_upd (hR.cache y hy) (fun h => absurd h hyg)
          · show CDist (s.cache.dropGroup (g : Int)).toList
            rw [dropGroup_toList]
            apply cdist_map _ _ _ hR.cdist
            intro x
            by_cases h : (atomGroup x.id == (g:Int)) = true
            · right; simp only [h, if_true]
            · left; simp only [h, if_false]; rfl
        · have hs1 : (sp g).count ≠ 1 := by rw [← hcnt]; exact h1
          have e3 : (gp.count - 1 == 0) = false := by simp; omega
          have e4 : ((sp g).count == 1) = false := by simp [hs1]
          simp only [e3, e4, if_false, Bool.false_eq_true]
          refine ⟨?_, trivial⟩
          unfold setG
          apply R_setG hR g hg
          · exact hR.nlen
          · exact nx_same hR g _ rfl
          · refine ⟨by simp [hcnt], fun _ => ?_⟩
            exact htbl (by omega)
          · exact ⟨by simp; omega, hinv.bound, hinv.ids, hinv.nodup⟩
          · intro x hx
            exact SlotOk_upd (hR.cache x hx) (fun _ => rfl)
          · exact hR.cdist

/-! ## `HAregister_atom` -/

theorem MAKE_ATOM_mod (g i k : Nat) (hg : g < 16) (hk : k ≤ 28) : MAKE_ATOM g i % 2 ^ k = i % 2 ^ k := by
  rw [MAKE_ATOM_eq g i hg]
  have hd : 2 ^ k ∣ 2 ^ 28 := Nat.pow_dvd_pow 2 hk
  obtain ⟨c, hc⟩ := hd
  rw [hc, ← Nat.mul_assoc, Nat.mul_comm g, Nat.mul_assoc, Nat.mul_add_mod, Nat.mod_mul_right_mod]

theorem getD_set {α} (l : List α) (i j : Nat) (x d : α) (hi : i < l.length) :
    (l.set i x).getD j d = if i = j then x else l.getD j d := by
  simp only [List.getD_eq_getElem?_getD, List.getElem?_set]
  by_cases h : i = j
  · subst h; simp [hi]
  · simp [h]

/-- a live id of group `g` differs from the next id to be issued -/
theorem fresh_ne {g : Nat} {sg : SGroup} (hg : g < MAXGROUP) (hinv : SGInv g sg) (hn : sg.nextid < 2 ^ 28) :
    ∀ e ∈ sg.live, e.id ≠ MAKE_ATOM g sg.nextid := by
  intro e he heq
  obtain ⟨i, hi, hid⟩ := hinv.ids e he
  have hg16 : g < 16 := by have : MAXGROUP = 9 := rfl; omega
  rw [hid] at heq
  have := MAKE_ATOM_inj g i sg.nextid hg16 (by omega) hn heq
  omega

theorem step_register {s sp} (hR : R s sp) (grp : Int) (obj : Nat) (hok : opOk s (.register grp obj) = true) :
    R (registerAtom s grp obj).1 (sstep sp (.register grp obj)) ∧
      Res.atom (registerAtom s grp obj).2 = sres sp (.register grp obj) := by
  unfold registerAtom
  simp only [sstep, sres]
  by_cases hb : badGroup grp = true
  · simp [hb]; exact hR
  · have hb' : badGroup grp = false := by simpa using hb
    obtain ⟨g, rfl, hg, hgn⟩ := badGroup_false hb'
    have hg16 : g < 16 := by have : MAXGROUP = 9 := rfl; omega
    simp only [opOk, hb', hgn, if_false, Bool.false_eq_true] at hok
    simp only [hb', hgn, Bool.false_or, if_false, Bool.false_eq_true]
    have hrel := hR.grp g hg
    have hinv := hR.sinv g hg
    cases hgg : getG s g with
    | none =>
      rw [hgg] at hrel
      have : (sp g).count = 0 := hrel
      simp [this]; exact hR
    | some gp =>
      rw [hgg] at hrel hok
      obtain ⟨hcnt, htbl⟩ := hrel
      by_cases hc : gp.count = 0
      · have : (sp g).count = 0 := by rw [← hcnt]; exact hc
        simp [hc, this]; exact hR
      · have hsc : (sp g).count ≠ 0 := by rw [← hcnt]; exact hc
        have e1 : (gp.count == 0) = false := by simp [hc]
        have e2 : ((sp g).count == 0) = false := by simp [hsc]
        simp only [e1, Bool.false_or, decide_eq_true_eq] at hok
        have hA : ATOM_BITS = 28 := rfl
        rw [hA] at hok
        obtain ⟨hatoms, k, hk28, hhs, hlen, hch⟩ := htbl (by omega)
        have hnid : nextId (getAtomNode s) g = (sp g).nextid := hR.nx g hg
        simp only [e1, e2, if_false, Bool.false_eq_true]
        rw [hnid]
        refine ⟨?_, rfl⟩
        have hn : (sp g).nextid < 2 ^ 28 := by rw [← hR.nx g hg]; exact hok
        have hfresh := fresh_ne hg hinv hn
        have hnx' : ((sp g).nextid + 1) % 2 ^ UNSIGNED_BITS = (sp g).nextid + 1 := by
          have : UNSIGNED_BITS = 32 := rfl
          simp only [this]; omega
        unfold setG getAtomNode
        apply R_setG hR g hg
        · simp [hR.nlen]
        · intro g' hg'
          rw [getD_set _ _ _ _ _ (by rw [hR.nlen]; exact hg)]
          by_cases hh : g = g'
          · subst hh; simp only [if_true, upd_same]; exact hnx'
          · simp only [hh, if_false]; rw [upd_other _ _ _ _ (Ne.symm hh)]; exact hR.nx g' hg'
        · refine ⟨hcnt, fun _ => ⟨by simp [hatoms], k, hk28, hhs, by simp [hlen], ?_⟩⟩
          · intro b hb
            have hloc : (sp g).nextid % gp.hashSize < gp.atomList.length := by
              rw [hhs, hlen]; exact Nat.mod_lt _ (Nat.two_pow_pos k)
            simp only []
            rw [getD_set _ _ _ _ _ hloc, hhs, hch _ (Nat.mod_lt _ (Nat.two_pow_pos k))]
            have hm := MAKE_ATOM_mod g (sp g).nextid k hg16 hk28
            by_cases hbl : (sp g).nextid % 2 ^ k = b
            · simp only [hbl, if_true]
              rw [List.filter_cons_of_pos (by simp [hm, hbl])]
            · simp only [hbl, if_false]
              rw [List.filter_cons_of_neg (by simp [hm, hbl]), hch b hb]
        · refine ⟨by simp [hsc], by simp; omega, ?_, ?_⟩
          · intro e he
            rcases List.mem_cons.mp he with rfl | he
            · exact ⟨(sp g).nextid, by simp, rfl⟩
            · obtain ⟨i, hi, hid⟩ := hinv.ids e he
              exact ⟨i, by simp; omega, hid⟩
          · exact List.Pairwise.cons (fun e he h => hfresh e he h.symm) hinv.nodup
        · intro x hx
          rcases hR.cache x hx with hx | hx
          · exact Or.inl hx
          · right
            rw [slookup_upd']
            · exact hx
            · intro hxg
              simp only []
              have hne : (MAKE_ATOM g (sp g).nextid == x.id) = false := by
                unfold slookup at hx
                rw [hxg] at hx
                cases hf : (sp g).live.find? (fun e => e.id == x.id) with
                | none => rw [hf] at hx; cases hx
                | some e =>
                  obtain ⟨hm, hid⟩ := find?_id_some _ _ _ hf
                  have := hfresh e hm
                  simp; rw [← hid]; exact fun h => this h.symm
              simp only [List.find?_cons, hne]
        · exact hR.cdist

/-! ## `HAatom_object` (cache, SWAP_CACHE, `HAIfind_atom`) -/

theorem xorSwap_eq (a b : Nat) : xorSwap a b = (b, a) := by
  unfold xorSwap
  have h1 : b ^^^ (a ^^^ b) = a := by
    rw [Nat.xor_comm a b, ← Nat.xor_assoc, Nat.xor_self, Nat.zero_xor]
  have h2 : (a ^^^ b) ^^^ a = b := by
    rw [Nat.xor_comm a b, Nat.xor_assoc, Nat.xor_self, Nat.xor_zero]
  simp only [h1, h2]

/-- `SWAP_CACHE(i, j)` exchanges the two slots -/
theorem swapSlots_eq (x y : Info) : swapSlots x y = (y, x) := by
  unfold swapSlots
  simp only [xorSwap_eq]

theorem ATOM_TO_LOC_lt (atm k : Nat) (hk : k ≤ 28) : ATOM_TO_LOC atm (2 ^ k) = atm % 2 ^ k ∧ atm % 2 ^ k < 2 ^ k :=
  ⟨ATOM_TO_LOC_pow2 atm k (by omega), Nat.mod_lt _ (Nat.two_pow_pos k)⟩

/-- walking the bucket chain of `atm` finds exactly the map entry of `atm` -/
theorem chain_find {gp : Group} {sg : SGroup} (htbl : TblRel gp sg) (atm : Nat) :
    (gp.atomList.getD (ATOM_TO_LOC atm gp.hashSize) []).find? (fun n => n.id == atm) = sg.live.find? (fun e => e.id == atm) := by
  obtain ⟨_, k, hk28, hhs, _, hch⟩ := htbl
  obtain ⟨e1, e2⟩ := ATOM_TO_LOC_lt atm k hk28
  rw [hhs, e1, hch _ e2]
  apply find?_filter_imp
  intro x _ hx
  have : x.id = atm := by simpa using hx
  simp [this]

theorem badGroup_atomGroup (atm : Nat) : badGroup (atomGroup atm) = decide (MAXGROUP ≤ ATOM_TO_GROUP atm) := by
  unfold atomGroup; exact badGroup_nat _

theorem atomGroup_toNat (atm : Nat) : (atomGroup atm).toNat = ATOM_TO_GROUP atm := by
  unfold atomGroup; simp

theorem tableFind_spec {s sp} (hR : R s sp) (atm : Nat) :
    tableFind s atm = (sp (ATOM_TO_GROUP atm)).live.find? (fun e => e.id == atm) := by
  unfold tableFind
  rw [badGroup_atomGroup, atomGroup_toNat]
  by_cases hg : MAXGROUP ≤ ATOM_TO_GROUP atm
  · simp [hg, (hR.out _ hg).1]
  · have hg' : ATOM_TO_GROUP atm < MAXGROUP := by omega
    simp only [hg, decide_false, if_false, Bool.false_eq_true]
    have hrel := hR.grp _ hg'
    have hinv := hR.sinv _ hg'
    cases hgg : getG s (ATOM_TO_GROUP atm) with
    | none =>
      rw [hgg] at hrel
      have : (sp (ATOM_TO_GROUP atm)).count = 0 := hrel
      simp [hinv.dead this]
    | some gp =>
      rw [hgg] at hrel
      obtain ⟨hcnt, htbl⟩ := hrel
      by_cases hc : gp.count = 0
      · have : (sp (ATOM_TO_GROUP atm)).count = 0 := by rw [← hcnt]; exact hc
        simp [hc, hinv.dead this]
      · have e1 : (gp.count == 0) = false := by simp [hc]
        simp only [e1, if_false, Bool.false_eq_true]
        exact chain_find (htbl (by omega)) atm

theorem findAtom_eq (s : State) (atm : Nat) :
    findAtom s atm = match tableFind s atm with
      | none => (s, none)
      | some n => ({ s with cache := { s.cache with c3 := ⟨atm, n.obj⟩ } }, some n) := by
  unfold findAtom tableFind
  by_cases hb : badGroup (atomGroup atm) = true
  · simp [hb]
  · simp only [hb, if_false]
    cases hgg : getG s (atomGroup atm).toNat with
    | none => simp
    | some gp =>
      by_cases hc : (gp.count == 0) = true
      · simp [hc]
      · simp only [hc, if_false]
        cases hf : (gp.atomList.getD (ATOM_TO_LOC atm gp.hashSize) []).find? (fun n => n.id == atm) <;> simp

theorem R_cache {s sp} (hR : R s sp) (c : Cache) (h1 : ∀ x ∈ c.toList, SlotOk sp x) (h2 : CDist c.toList) :
    R { s with cache := c } sp :=
  ⟨hR.len, hR.grp, hR.out, hR.nlen, hR.nx, hR.sinv, h1, h2⟩

theorem slookup_FAIL {s sp} (hR : R s sp) : slookup sp FAIL_ATOM = none := by
  apply slookup_empty
  rw [group_FAIL_ATOM]
  exact (hR.out 15 (by decide)).1

/-- a cache slot whose id equals the atom looked up holds the specification's answer -/
theorem slot_hit {s sp} (hR : R s sp) (x : Info) (hx : x ∈ s.cache.toList) (atm : Nat) (hid : x.id = atm) :
    x.obj = (slookup sp atm).getD NULL := by
  rcases hR.cache x hx with h | h
  · subst h
    have : atm = FAIL_ATOM := hid.symm
    rw [this, slookup_FAIL hR]; rfl
  · rw [← hid, h]; rfl

theorem cdist4 (a b c d : Info) : List.Pairwise (fun a b : Info => a.id = b.id → a.id = FAIL_ATOM) [a, b, c, d] ↔
    ((a.id = b.id → a.id = FAIL_ATOM) ∧ (a.id = c.id → a.id = FAIL_ATOM) ∧ (a.id = d.id → a.id = FAIL_ATOM)) ∧
    ((b.id = c.id → b.id = FAIL_ATOM) ∧ (b.id = d.id → b.id = FAIL_ATOM)) ∧ (c.id = d.id → c.id = FAIL_ATOM) := by
  simp [CDist, List.pairwise_cons]

theorem all4 (P : Info → Prop) (a b c d : Info) : (∀ x ∈ [a, b, c, d], P x) ↔ P a ∧ P b ∧ P c ∧ P d := by
  simp

theorem step_object {s sp} (hR : R s sp) (atm : Nat) :
    R (atomObject s atm).1 sp ∧ (atomObject s atm).2 = (slookup sp atm).getD NULL := by
  unfold atomObject
  have hc := hR.cache
  have hd := hR.cdist
  rw [Cache.toList, all4] at hc
  rw [Cache.toList, cdist4] at hd
  simp only [swapSlots_eq]
  by_cases h0 : s.cache.c0.id = atm
  · simp only [h0, beq_self_eq_true, if_true]
    exact ⟨hR, slot_hit hR _ (by simp [Cache.toList]) atm h0⟩
  · have e0 : (s.cache.c0.id == atm) = false := by simp [h0]
    simp only [e0, if_false, Bool.false_eq_true]
    by_cases h1 : s.cache.c1.id = atm
    · simp only [h1, beq_self_eq_true, if_true]
      refine ⟨R_cache hR _ ?_ ?_, slot_hit hR _ (by simp [Cache.toList]) atm h1⟩
      · rw [Cache.toList, all4]
        exact ⟨hc.2.1, hc.1, hc.2.2.1, hc.2.2.2⟩
      · show List.Pairwise _ _
        rw [Cache.toList, cdist4]
        obtain ⟨⟨a1, a2, a3⟩, ⟨b1, b2⟩, c1⟩ := hd
        exact ⟨⟨fun h => by rw [h]; exact a1 h.symm, b1, b2⟩, ⟨a2, a3⟩, c1⟩
    · have e1 : (s.cache.c1.id == atm) = false := by simp [h1]
      simp only [e1, if_false, Bool.false_eq_true]
      by_cases h2 : s.cache.c2.id = atm
      · simp only [h2, beq_self_eq_true, if_true]
        refine ⟨R_cache hR _ ?_ ?_, slot_hit hR _ (by simp [Cache.toList]) atm h2⟩
        · rw [Cache.toList, all4]
          exact ⟨hc.1, hc.2.2.1, hc.2.1, hc.2.2.2⟩
        · show List.Pairwise _ _
          rw [Cache.toList, cdist4]
          obtain ⟨⟨a1, a2, a3⟩, ⟨b1, b2⟩, c1⟩ := hd
          exact ⟨⟨a2, a1, a3⟩, ⟨fun h => by rw [h]; exact b1 h.symm, c1⟩, b2⟩
      · have e2 : (s.cache.c2.id == atm) = false := by simp [h2]
        simp only [e2, if_false, Bool.false_eq_true]
        by_cases h3 : s.cache.c3.id = atm
        · simp only [h3, beq_self_eq_true, if_true]
          refine ⟨R_cache hR _ ?_ ?_, slot_hit hR _ (by simp [Cache.toList]) atm h3⟩
          · rw [Cache.toList, all4]
            exact ⟨hc.1, hc.2.1, hc.2.2.2, hc.2.2.1⟩
          · show List.Pairwise _ _
            rw [Cache.toList, cdist4]
            obtain ⟨⟨a1, a2, a3⟩, ⟨b1, b2⟩, c1⟩ := hd
            exact ⟨⟨a1, a3, a2⟩, ⟨b2, b1⟩, fun h => by rw [h]; exact c1 h.symm⟩
        · have e3 : (s.cache.c3.id == atm) = false := by simp [h3]
          simp only [e3, if_false, Bool.false_eq_true]
          unfold atomObjectSlow
          rw [findAtom_eq]
          have hts := tableFind_spec hR atm
          cases hf : tableFind s atm with
          | none =>
            simp only []
            refine ⟨hR, ?_⟩
            rw [hf] at hts
            simp [slookup, ← hts]
          | some n =>
            simp only []
            rw [hf] at hts
            have hl : slookup sp atm = some n.obj := by simp [slookup, ← hts]
            refine ⟨R_cache hR _ ?_ ?_, by rw [hl]; rfl⟩
            · rw [Cache.toList, all4]
              exact ⟨hc.1, hc.2.1, hc.2.2.1, Or.inr hl⟩
            · show List.Pairwise _ _
              rw [Cache.toList, cdist4]
              obtain ⟨⟨a1, a2, a3⟩, ⟨b1, b2⟩, c1⟩ := hd
              exact ⟨⟨a1, a2, fun h => absurd h h0⟩, ⟨b1, fun h => absurd h h1⟩, fun h => absurd h h2⟩

/-! ## `HAremove_atom` -/

theorem emptySlot_id : emptySlot.id = FAIL_ATOM := rfl

theorem dropFirst_mem (c : Cache) (atm : Nat) (hd : CDist c.toList) (hne : atm ≠ FAIL_ATOM) :
    ∀ x ∈ (c.dropFirst atm).toList, x = emptySlot ∨ (x ∈ c.toList ∧ x.id ≠ atm) := by
  replace hd : List.Pairwise (fun a b : Info => a.id = b.id → a.id = FAIL_ATOM) c.toList := hd
  rw [Cache.toList, cdist4] at hd
  obtain ⟨⟨a1, a2, a3⟩, ⟨b1, b2⟩, c1⟩ := hd
  unfold Cache.dropFirst
  by_cases h0 : c.c0.id = atm
  · simp only [h0, beq_self_eq_true, if_true, Cache.toList, all4]
    refine ⟨Or.inl trivial, Or.inr ⟨by simp, ?_⟩, Or.inr ⟨by simp, ?_⟩, Or.inr ⟨by simp, ?_⟩⟩
    · intro h; exact hne (by rw [← h0]; exact a1 (by rw [h0, h]))
    · intro h; exact hne (by rw [← h0]; exact a2 (by rw [h0, h]))
    · intro h; exact hne (by rw [← h0]; exact a3 (by rw [h0, h]))
  · have e0 : (c.c0.id == atm) = false := by simp [h0]
    simp only [e0, if_false, Bool.false_eq_true]
    by_cases h1 : c.c1.id = atm
    · simp only [h1, beq_self_eq_true, if_true, Cache.toList, all4]
      refine ⟨Or.inr ⟨by simp, h0⟩, Or.inl trivial, Or.inr ⟨by simp, ?_⟩, Or.inr ⟨by simp, ?_⟩⟩
      · intro h; exact hne (by rw [← h1]; exact b1 (by rw [h1, h]))
      · intro h; exact hne (by rw [← h1]; exact b2 (by rw [h1, h]))
    · have e1 : (c.c1.id == atm) = false := by simp [h1]
      simp only [e1, if_false, Bool.false_eq_true]
      by_cases h2 : c.c2.id = atm
      · simp only [h2, beq_self_eq_true, if_true, Cache.toList, all4]
        refine ⟨Or.inr ⟨by simp, h0⟩, Or.inr ⟨by simp, h1⟩, Or.inl trivial, Or.inr ⟨by simp, ?_⟩⟩
        intro h; exact hne (by rw [← h2]; exact c1 (by rw [h2, h]))
      · have e2 : (c.c2.id == atm) = false := by simp [h2]
        simp only [e2, if_false, Bool.false_eq_true]
        by_cases h3 : c.c3.id = atm
        · simp only [h3, beq_self_eq_true, if_true, Cache.toList, all4]
          exact ⟨Or.inr ⟨by simp, h0⟩, Or.inr ⟨by simp, h1⟩, Or.inr ⟨by simp, h2⟩, Or.inl trivial⟩
        · have e3 : (c.c3.id == atm) = false := by simp [h3]
          simp only [e3, if_false, Bool.false_eq_true, Cache.toList, all4]
          exact ⟨Or.inr ⟨by simp, h0⟩, Or.inr ⟨by simp, h1⟩, Or.inr ⟨by simp, h2⟩, Or.inr ⟨by simp, h3⟩⟩

theorem dropFirst_dist (c : Cache) (atm : Nat) (hd : CDist c.toList) : CDist (c.dropFirst atm).toList := by
  replace hd : List.Pairwise (fun a b : Info => a.id = b.id → a.id = FAIL_ATOM) c.toList := hd
  rw [Cache.toList, cdist4] at hd
  obtain ⟨⟨a1, a2, a3⟩, ⟨b1, b2⟩, c1⟩ := hd
  show List.Pairwise _ _
  unfold Cache.dropFirst
  split
  · rw [Cache.toList, cdist4]; simp only [emptySlot_id]
    exact ⟨⟨fun _ => trivial, fun _ => trivial, fun _ => trivial⟩, ⟨b1, b2⟩, c1⟩
  · split
    · rw [Cache.toList, cdist4]; simp only [emptySlot_id]
      exact ⟨⟨fun h => h, a2, a3⟩, ⟨fun _ => trivial, fun _ => trivial⟩, c1⟩
    · split
      · rw [Cache.toList, cdist4]; simp only [emptySlot_id]
        exact ⟨⟨a1, fun h => h, a3⟩, ⟨fun h => h, b2⟩, fun _ => trivial⟩
      · split
        · rw [Cache.toList, cdist4]; simp only [emptySlot_id]
          exact ⟨⟨a1, a2, fun h => h⟩, ⟨b1, fun h => h⟩, fun h => h⟩
        · rw [Cache.toList, cdist4]
          exact ⟨⟨a1, a2, a3⟩, ⟨b1, b2⟩, c1⟩

theorem step_remove {s sp} (hR : R s sp) (atm : Nat) :
    R (removeAtom s atm).1 (sstep sp (.remove atm)) ∧ Res.obj (removeAtom s atm).2 = sres sp (.remove atm) := by
  have hts := tableFind_spec hR atm
  unfold tableFind at hts
  unfold removeAtom
  simp only [sstep, sres]
  rw [badGroup_atomGroup, atomGroup_toNat] at *
  by_cases hgM : MAXGROUP ≤ ATOM_TO_GROUP atm
  · have : slookup sp atm = none := slookup_empty _ _ (hR.out _ hgM).1
    simp [hgM, this]; exact hR
  · have hg : ATOM_TO_GROUP atm < MAXGROUP := by omega
    simp only [hgM, decide_false, if_false, Bool.false_eq_true] at hts ⊢
    have hrel := hR.grp _ hg
    have hinv := hR.sinv _ hg
    cases hgg : getG s (ATOM_TO_GROUP atm) with
    | none =>
      rw [hgg] at hts
      have : slookup sp atm = none := by simp [slookup, ← hts]
      simp [this]; exact hR
    | some gp =>
      rw [hgg] at hts hrel
      obtain ⟨hcnt, htbl⟩ := hrel
      by_cases hc : gp.count = 0
      · simp only [hc, beq_self_eq_true, if_true] at hts
        have : slookup sp atm = none := by simp [slookup, ← hts]
        simp [hc, this]; exact hR
      · have e1 : (gp.count == 0) = false := by simp [hc]
        simp only [e1, if_false, Bool.false_eq_true] at hts ⊢
        obtain ⟨hatoms, k, hk28, hhs, hlen, hch⟩ := htbl (by omega)
        cases hf : (gp.atomList.getD (ATOM_TO_LOC atm gp.hashSize) []).find? (fun n => n.id == atm) with
        | none =>
          rw [hf] at hts
          have : slookup sp atm = none := by simp [slookup, ← hts]
          simp [this]; exact hR
        | some n =>
          rw [hf] at hts
          have hl : slookup sp atm = some n.obj := by simp [slookup, ← hts]
          obtain ⟨hnm, hnid'⟩ := find?_id_some _ _ _ hts.symm
          simp only [hl, Option.getD_some]
          refine ⟨?_, trivial⟩
          have hne : atm ≠ FAIL_ATOM := by
            intro h; rw [h, group_FAIL_ATOM] at hg; exact absurd hg (by decide)
          obtain ⟨e1', e2'⟩ := ATOM_TO_LOC_lt atm k hk28
          unfold setG releaseAtomNode
          apply R_setG hR _ hg
          · exact hR.nlen
          · exact nx_same hR _ _ rfl
          · refine ⟨hcnt, fun _ => ⟨?_, k, hk28, hhs, by simp [hlen], ?_⟩⟩
            · simp only []
              rw [List.length_eraseP_of_mem hnm (by simp [hnid']), hatoms]
            · intro b hb
              have hloc : ATOM_TO_LOC atm gp.hashSize < gp.atomList.length := by
                rw [hhs, e1', hlen]; exact e2'
              simp only []
              rw [getD_set _ _ _ _ _ hloc, hhs, e1', hch _ e2']
              by_cases hbl : atm % 2 ^ k = b
              · simp only [hbl, if_true]
                rw [filter_eraseP_imp]
                intro x _ hx
                have : x.id = atm := by simpa using hx
                simp [this, hbl]
              · simp only [hbl, if_false]
                rw [filter_eraseP_disj, hch b hb]
                intro x _ hx
                have : x.id = atm := by simpa using hx
                simp [this, hbl]
          · refine ⟨fun h => absurd (hcnt ▸ h) hc, hinv.bound, ?_, ?_⟩
            · intro e he
              exact hinv.ids e (List.mem_of_mem_eraseP he)
            · exact List.Pairwise.sublist (List.eraseP_sublist) hinv.nodup
          · intro x hx
            rcases dropFirst_mem s.cache atm hR.cdist hne x hx with hx | ⟨hx, hxne⟩
            · exact Or.inl hx
            · apply SlotOk_upd (hR.cache x hx)
              intro _
              simp only []
              apply find?_eraseP_ne
              intro y _ hy
              have : y.id = x.id := by simpa using hy
              simp [this, hxne]
          · exact dropFirst_dist s.cache atm hR.cdist

/-! ## `HAsearch_atom`; every call; whole histories -/

/-- the nodes reachable from the hash table are exactly the map entries -/
theorem mem_table {gp : Group} {sg : SGroup} (htbl : TblRel gp sg) (e : Info) :
    e ∈ (gp.atomList.take gp.hashSize).flatten ↔ e ∈ sg.live := by
  obtain ⟨_, k, hk28, hhs, hlen, hch⟩ := htbl
  rw [List.take_of_length_le (by omega)]
  constructor
  · intro h
    obtain ⟨chain, hc, he⟩ := List.mem_flatten.mp h
    obtain ⟨b, hb, rfl⟩ := List.getElem_of_mem hc
    have := hch b (by omega)
    rw [List.getD_eq_getElem?_getD, List.getElem?_eq_getElem hb] at this
    simp only [Option.getD_some] at this
    rw [this] at he
    exact (List.mem_filter.mp he).1
  · intro h
    have hb : e.id % 2 ^ k < 2 ^ k := Nat.mod_lt _ (Nat.two_pow_pos k)
    have := hch _ hb
    have hb' : e.id % 2 ^ k < gp.atomList.length := by omega
    rw [List.getD_eq_getElem?_getD, List.getElem?_eq_getElem hb'] at this
    simp only [Option.getD_some] at this
    apply List.mem_flatten.mpr
    refine ⟨_, List.getElem_mem hb', ?_⟩
    rw [this]
    exact List.mem_filter.mpr ⟨h, by simp⟩

theorem step_search {s sp} (hR : R s sp) (grp : Int) (p : Nat → Bool) : SearchOk sp grp p (searchAtom s grp p) := by
  unfold searchAtom SearchOk
  by_cases hb : badGroup grp = true
  · simp [hb]
  · have hb' : badGroup grp = false := by simpa using hb
    obtain ⟨g, rfl, hg, hgn⟩ := badGroup_false hb'
    simp only [hb', hgn, if_false, Bool.false_eq_true]
    have hrel := hR.grp g hg
    have hinv := hR.sinv g hg
    cases hgg : getG s g with
    | none =>
      rw [hgg] at hrel
      have : (sp g).count = 0 := hrel
      right; simp [hinv.dead this]
    | some gp =>
      rw [hgg] at hrel
      obtain ⟨hcnt, htbl⟩ := hrel
      by_cases hc : gp.count = 0
      · have : (sp g).count = 0 := by rw [← hcnt]; exact hc
        right; simp [hc, hinv.dead this]
      · have e1 : (gp.count == 0) = false := by simp [hc]
        simp only [e1, if_false, Bool.false_eq_true]
        have hm := mem_table (htbl (by omega))
        cases hf : ((gp.atomList.take gp.hashSize).flatten).find? (fun n => p n.obj) with
        | none =>
          right
          refine ⟨?_, rfl⟩
          intro e he
          have := List.find?_eq_none.mp hf e ((hm e).mpr he)
          simpa using this
        | some n =>
          left
          exact ⟨n, (hm n).mp (List.mem_of_find?_eq_some hf), by simpa using List.find?_some hf, rfl⟩

/-- `HAshutdown`: every group record is gone, the cache is empty, the id counters stay -/
theorem step_shutdown {s sp} (hR : R s sp) : R (shutdown s) (sstep sp .shutdown) := by
  simp only [sstep]
  refine ⟨by simp [shutdown], ?_, ?_, hR.nlen, ?_, ?_, ?_, ?_⟩
  · intro g hg
    have : getG (shutdown s) g = none := by
      simp [getG, shutdown, List.getD_eq_getElem?_getD, List.getElem?_replicate, hg]
    rw [this]; exact rfl
  · intro g hg; exact ⟨rfl, rfl, (hR.out g hg).2.2⟩
  · intro g hg; exact hR.nx g hg
  · intro g hg
    exact ⟨fun _ => rfl, (hR.sinv g hg).bound, (by intro e he; cases he), List.Pairwise.nil⟩
  · intro c hc
    left
    have : (shutdown s).cache.toList = [emptySlot, emptySlot, emptySlot, emptySlot] := rfl
    rw [this] at hc
    simp at hc; exact hc
  · show List.Pairwise _ [emptySlot, emptySlot, emptySlot, emptySlot]
    decide

/-- every call preserves the relation and returns what the specification allows -/
theorem step_refines {s sp} (hR : R s sp) (op : Op) (hok : opOk s op = true) :
    R (step s op).1 (sstep sp op) ∧ SOk sp op (step s op).2 := by
  cases op with
  | init g h =>
    have h28 : h ≤ 2 ^ 28 := by
      have hA : ATOM_BITS = 28 := rfl
      simp only [opOk, decide_eq_true_eq, hA] at hok
      exact hok
    exact step_init hR g h h28
  | destroy g => exact step_destroy hR g
  | register g o => exact step_register hR g o hok
  | object a =>
    have := step_object hR a
    exact ⟨this.1, by simp only [SOk, sres, step]; rw [this.2]⟩
  | group a => exact ⟨hR, rfl⟩
  | remove a => exact step_remove hR a
  | search g m r => exact ⟨hR, _, rfl, step_search hR g _⟩
  | shutdown => exact ⟨step_shutdown hR, rfl⟩

theorem run_refines {s sp} (hR : R s sp) (ops : List Op) (hadm : adm s ops = true) :
    R (runS s ops) (srunS sp ops) ∧ SRun sp ops (runR s ops) := by
  induction ops generalizing s sp with
  | nil => exact ⟨hR, trivial⟩
  | cons op ops ih =>
    simp only [adm, Bool.and_eq_true] at hadm
    obtain ⟨h1, h2⟩ := step_refines hR op hadm.1
    obtain ⟨h3, h4⟩ := ih h1 hadm.2
    exact ⟨h3, h2, h4⟩


/-! ## reachable states; persistence of live registrations -/

theorem runS_append (s : State) (a b : List Op) : runS s (a ++ b) = runS (runS s a) b := by
  induction a generalizing s with
  | nil => rfl
  | cons op a ih => simp [runS, ih]

theorem srunS_append (sp : SState) (a b : List Op) : srunS sp (a ++ b) = srunS (srunS sp a) b := by
  induction a generalizing sp with
  | nil => rfl
  | cons op a ih => simp [srunS, ih]

theorem adm_append (s : State) (a b : List Op) : adm s (a ++ b) = (adm s a && adm (runS s a) b) := by
  induction a generalizing s with
  | nil => simp [adm, runS]
  | cons op a ih => simp [adm, runS, ih, Bool.and_assoc]

/-- reachable states are related to the specification state of the same history -/
theorem reach (ops : List Op) (h : adm State.init ops = true) :
    R (runS State.init ops) (srunS SState.init ops) := (run_refines init_R ops h).1

theorem groupCount_eq {s sp} (hR : R s sp) (g : Nat) (hg : g < MAXGROUP) : groupCount s g = (sp g).count := by
  have := hR.grp g hg
  unfold groupCount
  cases hgg : getG s g with
  | none => rw [hgg] at this; exact this.symm
  | some gp => rw [hgg] at this; exact this.1

theorem live_group {s sp} (hR : R s sp) {g : Nat} {e : Info} (he : e ∈ (sp g).live) : g < MAXGROUP := by
  rcases Nat.lt_or_ge g MAXGROUP with h | h
  · exact h
  · rw [(hR.out g h).1] at he; cases he

/-- a live registration stays live across a call that neither removes its id nor takes its group's init count to 0 -/
theorem slive_step (sp : SState) (hdead : ∀ g, (sp g).count = 0 → (sp g).live = []) (op : Op) (e : Info) (g : Nat)
    (he : e ∈ (sp g).live) (hop : op ≠ .remove e.id) (hcnt : 0 < (sstep sp op g).count) :
    e ∈ (sstep sp op g).live := by
  have hc0 : (sp g).count ≠ 0 := fun h => by rw [hdead g h] at he; cases he
  cases op with
  | init grp hs =>
    simp only [sstep] at hcnt ⊢
    split
    · exact he
    · by_cases hg : g = grp.toNat
      · subst hg
        have e0 : ((sp grp.toNat).count == 0) = false := by simp [hc0]
        simp only [upd_same, e0, if_false, Bool.false_eq_true]; exact he
      · rw [upd_other _ _ _ _ hg]; exact he
  | destroy grp =>
    simp only [sstep] at hcnt ⊢
    by_cases hb : badGroup grp = true
    · simp only [hb, if_true]; exact he
    · simp only [hb, if_false, Bool.false_eq_true] at hcnt ⊢
      by_cases hz : ((sp grp.toNat).count == 0) = true
      · simp only [hz, if_true]; exact he
      · simp only [hz, if_false, Bool.false_eq_true] at hcnt ⊢
        by_cases h1 : ((sp grp.toNat).count == 1) = true
        · simp only [h1, if_true] at hcnt ⊢
          by_cases hg : g = grp.toNat
          · subst hg; simp only [upd_same] at hcnt; exact absurd hcnt (by simp)
          · rw [upd_other _ _ _ _ hg]; exact he
        · simp only [h1, if_false, Bool.false_eq_true] at hcnt ⊢
          by_cases hg : g = grp.toNat
          · subst hg; simp only [upd_same]; exact he
          · rw [upd_other _ _ _ _ hg]; exact he
  | register grp obj =>
    simp only [sstep]
    split
    · exact he
    · split
      · exact he
      · by_cases hg : g = grp.toNat
        · subst hg; simp only [upd_same]; exact List.mem_cons_of_mem _ he
        · rw [upd_other _ _ _ _ hg]; exact he
  | object a => exact he
  | group a => exact he
  | remove atm =>
    simp only [sstep]
    cases hl : slookup sp atm with
    | none => exact he
    | some o =>
      simp only []
      by_cases hg : g = ATOM_TO_GROUP atm
      · subst hg
        simp only [upd_same]
        have hne : atm ≠ e.id := fun h => hop (by rw [h])
        exact (List.mem_eraseP_of_neg (by simp; exact fun h => hne h.symm)).mpr he
      · rw [upd_other _ _ _ _ hg]; exact he
  | search grp m r => exact he
  | shutdown => simp only [sstep] at hcnt; exact absurd hcnt (by simp)

/-- `keeps` carries a live registration to the end of the history -/
theorem keeps_live {s sp} (hR : R s sp) (ops : List Op) (hadm : adm s ops = true) (e : Info)
    (he : e ∈ (sp (ATOM_TO_GROUP e.id)).live) (hk : keeps e.id s ops = true) :
    e ∈ (srunS sp ops (ATOM_TO_GROUP e.id)).live := by
  induction ops generalizing s sp with
  | nil => exact he
  | cons op ops ih =>
    simp only [adm, Bool.and_eq_true] at hadm
    simp only [keeps, Bool.and_eq_true, decide_eq_true_eq, bne_iff_ne, ne_eq] at hk
    obtain ⟨⟨hk1, hk2⟩, hk3⟩ := hk
    have hR' := (step_refines hR op hadm.1).1
    have hg := live_group hR he
    rw [groupCount_eq hR' _ hg] at hk2
    have hdead : ∀ g, (sp g).count = 0 → (sp g).live = [] := by
      intro g h0
      rcases Nat.lt_or_ge g MAXGROUP with h | h
      · exact (hR.sinv g h).dead h0
      · exact (hR.out g h).1
    have := slive_step sp hdead op e _ he hk1 hk2
    exact ih hR' hadm.2 this hk3

theorem slookup_of_mem {s sp} (hR : R s sp) (e : Info) (he : e ∈ (sp (ATOM_TO_GROUP e.id)).live) :
    slookup sp e.id = some e.obj := by
  have hg := live_group hR he
  unfold slookup
  rw [find?_of_mem_nodup _ e he (hR.sinv _ hg).nodup]; rfl

theorem mem_of_slookup {sp : SState} {atm o : Nat} (h : slookup sp atm = some o) :
    (⟨atm, o⟩ : Info) ∈ (sp (ATOM_TO_GROUP atm)).live := by
  unfold slookup at h
  cases hf : (sp (ATOM_TO_GROUP atm)).live.find? (fun e => e.id == atm) with
  | none => rw [hf] at h; cases h
  | some e =>
    rw [hf] at h
    obtain ⟨hm, hid⟩ := find?_id_some _ _ _ hf
    have : e = ⟨atm, o⟩ := by
      cases e; simp at h hid; simp [h, hid]
    rw [← this]; exact hm


/-! ## stale ids stay rejected (no re-initialisation, no counter wrap) -/

/-- spec-level staleness: `atm` is not in the map although its group's counter has passed its index -/
def SStale (sp : SState) (atm : Nat) : Prop :=
  slookup sp atm = none ∧ atm % 2 ^ 28 < (sp (ATOM_TO_GROUP atm)).nextid

theorem sstale_group {s sp} (hR : R s sp) {atm : Nat} (h : SStale sp atm) : ATOM_TO_GROUP atm < MAXGROUP := by
  rcases Nat.lt_or_ge (ATOM_TO_GROUP atm) MAXGROUP with h1 | h1
  · exact h1
  · have := (hR.out _ h1).2.2; have := h.2; omega

theorem find?_none_eraseP {α} (p q : α → Bool) (l : List α) (h : l.find? p = none) : (l.eraseP q).find? p = none := by
  rw [List.find?_eq_none] at h ⊢
  intro x hx
  exact h x (List.mem_of_mem_eraseP hx)

/-- as long as the counter does not wrap a stale id stays stale – across re-initialisation and `HAshutdown` too -/
theorem sstale_step {s sp} (hR : R s sp) (op : Op) (hok : opOk s op = true)
    (atm : Nat) (h : SStale sp atm) : SStale (sstep sp op) atm := by
  have hg := sstale_group hR h
  obtain ⟨hl, hn⟩ := h
  have hrel := hR.grp _ hg
  have hinv := hR.sinv _ hg
  cases op with
  | init grp hs =>
    simp only [sstep]
    by_cases hc : (badGroup grp || hs == 0 || (hs &&& (hs - 1) != 0)) = true
    · simp only [hc, if_true]; exact ⟨hl, hn⟩
    · simp only [hc, if_false, Bool.false_eq_true]
      by_cases hgg : ATOM_TO_GROUP atm = grp.toNat
      · by_cases hz : (sp grp.toNat).count = 0
        · have e0 : ((sp grp.toNat).count == 0) = true := by simp [hz]
          simp only [e0, if_true]
          refine ⟨?_, ?_⟩
          · unfold slookup; rw [hgg, upd_same]; rfl
          · rw [hgg, upd_same]; rw [hgg] at hn; exact hn
        · have e0 : ((sp grp.toNat).count == 0) = false := by simp [hz]
          simp only [e0, if_false, Bool.false_eq_true]
          refine ⟨?_, ?_⟩
          · exact Eq.trans (slookup_upd sp _ _ atm (by intro _; rfl)) hl
          · rw [hgg, upd_same]; rw [hgg] at hn; exact hn
      · refine ⟨?_, ?_⟩
        · rw [slookup_upd' _ _ _ _ (fun h => absurd h hgg)]; exact hl
        · rw [upd_other _ _ _ _ hgg]; exact hn
  | destroy grp =>
    simp only [sstep]
    by_cases hb : badGroup grp = true
    · simp only [hb, if_true]; exact ⟨hl, hn⟩
    · simp only [hb, if_false, Bool.false_eq_true]
      by_cases hz : ((sp grp.toNat).count == 0) = true
      · simp only [hz, if_true]; exact ⟨hl, hn⟩
      · simp only [hz, if_false, Bool.false_eq_true]
        by_cases hgg : ATOM_TO_GROUP atm = grp.toNat
        · by_cases h1 : ((sp grp.toNat).count == 1) = true
          · simp only [h1, if_true]
            refine ⟨?_, ?_⟩
            · unfold slookup; rw [hgg, upd_same]; rfl
            · rw [hgg, upd_same]; rw [hgg] at hn; exact hn
          · simp only [h1, if_false, Bool.false_eq_true]
            refine ⟨?_, ?_⟩
            · exact Eq.trans (slookup_upd sp _ _ atm (by intro _; rfl)) hl
            · rw [hgg, upd_same]; rw [hgg] at hn; exact hn
        · by_cases h1 : ((sp grp.toNat).count == 1) = true
          · simp only [h1, if_true]
            refine ⟨?_, ?_⟩
            · rw [slookup_upd' _ _ _ _ (fun h => absurd h hgg)]; exact hl
            · rw [upd_other _ _ _ _ hgg]; exact hn
          · simp only [h1, if_false, Bool.false_eq_true]
            refine ⟨?_, ?_⟩
            · rw [slookup_upd' _ _ _ _ (fun h => absurd h hgg)]; exact hl
            · rw [upd_other _ _ _ _ hgg]; exact hn
  | register grp obj =>
    simp only [sstep]
    by_cases hb : badGroup grp = true
    · simp only [hb, if_true]; exact ⟨hl, hn⟩
    · have hb' : badGroup grp = false := by simpa using hb
      simp only [hb, if_false, Bool.false_eq_true]
      by_cases hz : ((sp grp.toNat).count == 0) = true
      · simp only [hz, if_true]; exact ⟨hl, hn⟩
      · simp only [hz, if_false, Bool.false_eq_true]
        by_cases hgg : ATOM_TO_GROUP atm = grp.toNat
        · refine ⟨?_, ?_⟩
          · unfold slookup
            rw [hgg, upd_same]
            simp only []
            have hg16 : grp.toNat < 16 := by have : MAXGROUP = 9 := rfl; omega
            have hb28 := hinv.bound
            rw [hgg] at hn hb28
            have hne : (MAKE_ATOM grp.toNat (sp grp.toNat).nextid == atm) = false := by
              simp only [beq_eq_false_iff_ne, ne_eq]
              intro heq
              have := counter_MAKE_ATOM grp.toNat (sp grp.toNat).nextid hg16
              rw [heq] at this
              -- nextid ≤ 2^28; if nextid = 2^28 the register call is not admissible
              simp only [opOk, hb', if_false, Bool.false_eq_true] at hok
              rw [← hgg] at hok
              cases hget : getG s (ATOM_TO_GROUP atm) with
              | none =>
                rw [hget] at hrel
                have h0 : (sp grp.toNat).count = 0 := by rw [← hgg]; exact hrel
                simp [h0] at hz
              | some gp =>
                rw [hget] at hrel hok
                have hA : ATOM_BITS = 28 := rfl
                have hcz : (gp.count == 0) = false := by
                  have : (sp grp.toNat).count ≠ 0 := by simpa using hz
                  rw [← hgg, ← hrel.1] at this; simp [this]
                simp only [hcz, Bool.false_or, decide_eq_true_eq, hA] at hok
                rw [hR.nx _ hg, hgg] at hok
                rw [Nat.mod_eq_of_lt hok] at this
                omega
            simp only [List.find?_cons, hne]
            unfold slookup at hl
            rw [hgg] at hl
            exact hl
          · rw [hgg, upd_same]; rw [hgg] at hn; simp only []; omega
        · refine ⟨?_, ?_⟩
          · rw [slookup_upd' _ _ _ _ (fun h => absurd h hgg)]; exact hl
          · rw [upd_other _ _ _ _ hgg]; exact hn
  | object a => exact ⟨hl, hn⟩
  | group a => exact ⟨hl, hn⟩
  | remove a =>
    simp only [sstep]
    cases hla : slookup sp a with
    | none => exact ⟨hl, hn⟩
    | some o =>
      simp only []
      by_cases hgg : ATOM_TO_GROUP atm = ATOM_TO_GROUP a
      · refine ⟨?_, ?_⟩
        · unfold slookup
          rw [hgg, upd_same]
          simp only []
          unfold slookup at hl
          rw [hgg] at hl
          have : (sp (ATOM_TO_GROUP a)).live.find? (fun e => e.id == atm) = none := by
            cases hf : (sp (ATOM_TO_GROUP a)).live.find? (fun e => e.id == atm) with
            | none => rfl
            | some x => rw [hf] at hl; cases hl
          rw [find?_none_eraseP _ _ _ this]; rfl
        · rw [hgg, upd_same]; rw [hgg] at hn; exact hn
      · refine ⟨?_, ?_⟩
        · rw [slookup_upd' _ _ _ _ (fun h => absurd h hgg)]; exact hl
        · rw [upd_other _ _ _ _ hgg]; exact hn
  | search grp m r => exact ⟨hl, hn⟩
  | shutdown => exact ⟨rfl, hn⟩

theorem sstale_run {s sp} (hR : R s sp) (ops : List Op) (hadm : adm s ops = true)
    (atm : Nat) (h : SStale sp atm) : SStale (srunS sp ops) atm := by
  induction ops generalizing s sp with
  | nil => exact h
  | cons op ops ih =>
    simp only [adm, Bool.and_eq_true] at hadm
    exact ih (step_refines hR op hadm.1).1 hadm.2 (sstale_step hR op hadm.1 atm h)

/-- the executable staleness test on the model state is the spec-level one -/
theorem sstale_of_model {s sp} (hR : R s sp) (atm : Nat) (hi : issued s atm = true) (hl : isLive s atm = false) :
    SStale sp atm := by
  unfold issued at hi
  simp only [Bool.and_eq_true, decide_eq_true_eq] at hi
  obtain ⟨hg, hi⟩ := hi
  have hrel := hR.grp _ hg
  refine ⟨?_, ?_⟩
  · unfold isLive at hl
    rw [tableFind_spec hR atm] at hl
    unfold slookup
    cases hf : (sp (ATOM_TO_GROUP atm)).live.find? (fun e => e.id == atm) with
    | none => rfl
    | some x => rw [hf] at hl; simp at hl
  · have hA : ATOM_BITS = 28 := rfl
    rw [hA, hR.nx _ hg] at hi; exact hi

/-- results of lookups/removals of an id the map does not contain -/
theorem object_of_none {s sp} (hR : R s sp) (atm : Nat) (h : slookup sp atm = none) :
    (step s (.object atm)).2 = .obj NULL ∧ (step s (.remove atm)).2 = .obj NULL := by
  have h1 := (step_object hR atm).2
  have h2 := (step_remove hR atm).2
  simp only [sres, h, Option.getD_none] at h2
  simp only [step]
  exact ⟨by rw [h1, h]; rfl, h2⟩


/-! ## repeated registration (for the counter-wrap witness) -/
/-- the group record after a successful `HAregister_atom(g, obj)` made while `atom_next_id[g] = n` -/
def regGroup (g n : Nat) (gp : Group) (obj : Nat) : Group :=
  { gp with atomList := gp.atomList.set (n % gp.hashSize)
                          (⟨MAKE_ATOM g n, obj⟩ :: gp.atomList.getD (n % gp.hashSize) []),
            atoms := gp.atoms + 1 }

/-- one `HAregister_atom` into a live group: what it returns and what it leaves -/
theorem register_one (s : State) (g : Nat) (hg : g < MAXGROUP) (gp : Group) (hlen : s.groups.length = MAXGROUP)
    (hnl : s.nextIds.length = MAXGROUP) (hget : getG s g = some gp) (hc : gp.count ≠ 0) (obj : Nat) :
    (step s (.register (g : Int) obj)).2 = .atom (MAKE_ATOM g (nextId s g)) ∧
    (step s (.register (g : Int) obj)).1.cache = s.cache ∧
    (step s (.register (g : Int) obj)).1.groups.length = MAXGROUP ∧
    (step s (.register (g : Int) obj)).1.nextIds.length = MAXGROUP ∧
    nextId (step s (.register (g : Int) obj)).1 g = (nextId s g + 1) % 2 ^ UNSIGNED_BITS ∧
    getG (step s (.register (g : Int) obj)).1 g = some (regGroup g (nextId s g) gp obj) := by
  have hb : badGroup (g : Int) = false := by rw [badGroup_nat]; simp; omega
  have e1 : (gp.count == 0) = false := by simp [hc]
  have hstep : step s (.register (g : Int) obj) =
      (setG { getAtomNode s with nextIds := s.nextIds.set g ((nextId s g + 1) % 2 ^ UNSIGNED_BITS) } g
        (regGroup g (nextId s g) gp obj), .atom (MAKE_ATOM g (nextId s g))) := by
    simp only [step, registerAtom, hb, if_false, Bool.false_eq_true, Int.toNat_natCast, hget, e1, regGroup]
    rfl
  rw [hstep]
  refine ⟨rfl, rfl, ?_, ?_, ?_, ?_⟩
  · simp [setG, getAtomNode, hlen]
  · simp [setG, getAtomNode, hnl]
  · simp only [nextId, setG]
    rw [getD_set _ _ _ _ _ (by omega)]; simp
  · rw [getG_setG _ _ _ _ (by simp [getAtomNode]; omega)]; simp

/-- `n` further registrations into a live single-bucket group only advance the counter -/
theorem register_many (n : Nat) (c : Nat) (g : Nat) (hg : g < MAXGROUP) :
    ∀ (s : State) (gp : Group), s.groups.length = MAXGROUP → s.nextIds.length = MAXGROUP → getG s g = some gp →
      gp.count ≠ 0 → gp.hashSize = 1 → gp.atomList.length = 1 → nextId s g + n < 2 ^ 32 →
      ∃ gp', getG (runS s (List.replicate n (.register (g : Int) c))) g = some gp' ∧ gp'.count ≠ 0 ∧ gp'.hashSize = 1 ∧
        gp'.atomList.length = 1 ∧ nextId (runS s (List.replicate n (.register (g : Int) c))) g = nextId s g + n ∧
        (runS s (List.replicate n (.register (g : Int) c))).cache = s.cache ∧
        (runS s (List.replicate n (.register (g : Int) c))).groups.length = MAXGROUP ∧
        (runS s (List.replicate n (.register (g : Int) c))).nextIds.length = MAXGROUP := by
  induction n with
  | zero => intro s gp hlen hnl hget hc hhs hal _; exact ⟨gp, hget, hc, hhs, hal, rfl, rfl, hlen, hnl⟩
  | succ n ih =>
    intro s gp hlen hnl hget hc hhs hal hn
    obtain ⟨_, hcache, hlen', hnl', hnx, hget'⟩ := register_one s g hg gp hlen hnl hget hc c
    simp only [List.replicate_succ, runS]
    have hU : UNSIGNED_BITS = 32 := rfl
    rw [hU, Nat.mod_eq_of_lt (by omega)] at hnx
    obtain ⟨gp', h1, h2, h3, h4, h5, h6, h7, h8⟩ := ih _ _ hlen' hnl' hget' hc hhs (by simp [regGroup, hal]) (by rw [hnx]; omega)
    refine ⟨gp', h1, h2, h3, h4, ?_, by rw [h6, hcache], h7, h8⟩
    rw [h5, hnx]; omega

theorem ATOM_TO_LOC_one (a : Nat) : ATOM_TO_LOC a 1 = 0 := by
  have := ATOM_TO_LOC_pow2 a 0 (by decide)
  simpa [Nat.mod_one] using this


end H4.Atom
