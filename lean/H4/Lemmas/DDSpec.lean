import H4.Lemmas.DDSteps
/-! # The map specification of the directory, and the abstraction from a file state -/
namespace H4.DD
open H4.Gen.Hdf H4.Bitvect

/-- a directory entry as the specification sees it: tag, ref, length -/
abbrev Ent := Nat × Nat × Int

/-- the key of an entry: special variants of a tag share the ref space of the base tag -/
def entKey (e : Ent) : Nat × Nat := (baseTag e.1, e.2.1)

def ent (d : DD) : Ent := (d.tag, d.ref, d.len)
/-- the abstraction: the live descriptors in chain order, without their offsets -/
def absl (l : List DD) : List Ent := (liveOf l).map ent
def File.abs (s : File) : List Ent := absl s.slots

@[simp] theorem entKey_ent (d : DD) : entKey (ent d) = keyOf d := rfl

/-! ## operations of the specification (a finite map kept as an association list in insertion order) -/

def specGet (sp : List Ent) (k : Nat × Nat) : Option Ent := sp.find? (fun e => entKey e == k)
def specSet (sp : List Ent) (k : Nat × Nat) (len : Int) : List Ent :=
  sp.map (fun e => if entKey e == k then (e.1, e.2.1, len) else e)
def specDel (sp : List Ent) (k : Nat × Nat) : List Ent := sp.filter (fun e => !(entKey e == k))

/-- what a search `(st, sr)` with wildcards accepts, on entries -/
def entMatch (st sr : Nat) (e : Ent) : Bool :=
  (st == 0 || e.1 == st || (mkSpecial st != DFTAG_NULL && e.1 == mkSpecial st)) && (sr == 0 || e.2.1 == sr)

/-- `Hstartwrite`-style access to `(base, r)` for writing `l` bytes: the entry is created, or (re)placed when it has no
    data yet; `put` additionally refuses (after the fact) lengths ≤ 0 and writes that do not fit -/
def specWrite (sp : List Ent) (base r : Nat) (l : Int) (put : Bool) : Out × List Ent :=
  match specGet sp (base, r) with
  | none =>
    if base = DFTAG_NULL then (.fail, sp)
    else if l < 0 then (.fail, sp ++ [(base, r, -1)])
    else ((if put then (if l ≤ 0 then .fail else .num l) else .ok), sp ++ [(base, r, l)])
  | some e =>
    if isSpecial e.1 then (.unsupported, sp)
    else if e.2.2 = -1 then
      (if l < 0 then (.fail, sp)
       else ((if put then (if l ≤ 0 then .fail else .num l) else .ok), specSet sp (base, r) l))
    else ((if put then (if l ≤ 0 ∨ l > e.2.2 then .fail else .num l) else .ok), sp)

/-- one call against the specification: the (offset-free) result and the new map -/
def specStep (cfg : Cfg) (sp : List Ent) : Op → Out × List Ent
  | .put t r l => specWrite sp (baseTag t) r l true
  | .startwrite t r l => specWrite sp (baseTag t) r l false
  | .append _ _ _ => (.unsupported, sp)
  | .del t r =>
    if t = 0 ∨ r = 0 ∨ t = 1 then (.fail, sp)
    else match specGet sp (baseTag t, r) with
      | none => (.fail, sp)
      | some _ => (.ok, specDel sp (baseTag t, r))
  | .dup t r ot or' =>
    if ot = 0 ∨ ot = 1 ∨ or' = 0 then (.fail, sp)
    else match specGet sp (baseTag ot, or') with
      | none => (.fail, sp)
      | some eo =>
        if t = 0 ∨ t = 1 ∨ r = 0 then (.fail, sp)
        else match specGet sp (baseTag t, r) with
          | some _ => (.fail, sp)
          | none => (.ok, sp ++ [(t, r, eo.2.2)])
  | .reuse t r =>
    if t = 0 ∨ r = 0 ∨ t = 1 then (.fail, sp)
    else match specGet sp (baseTag t, r) with
      | none => (.fail, sp)
      | some _ => (.ok, specSet sp (baseTag t, r) (-1))
  | .inquire t r =>
    match specGet sp (baseTag t, r) with
    | none => (.fail, sp)
    | some e => ((if isSpecial e.1 then .unsupported else .dd ⟨e.1, e.2.1, 0, e.2.2⟩), sp)
  | .number t =>
    (.cnt (if t = 0 then (sp.filter (fun e => e.1 != DFTAG_FREE)).length
           else (sp.filter (fun e => e.1 == t || (mkSpecial t != DFTAG_NULL && e.1 == mkSpecial t))).length) false, sp)
  | .exist t r =>
    ((if t ≠ 0 ∧ r ≠ 0 then Out.ofBool (specGet sp (baseTag t, r)).isSome
      else Out.ofBool (sp.any (entMatch t r))), sp)
  | .newref => (.ok, sp)
  | .tagnewref _ => (.ok, sp)
  | .cache _ => (.ok, sp)
  | .sync => (.ok, sp)
  | .reopen => (.ok, sp)

/-- forget what the specification does not determine: offsets, the values of fresh refs, the out-of-bounds flag -/
def eraseOut : Op → Out → Out
  | .inquire _ _, .dd d => .dd { d with off := 0 }
  | .number _, .cnt n _ => .cnt n false
  | .newref, .num _ => .ok
  | .tagnewref _, .num _ => .ok
  | _, o => o

/-- run a history against the specification -/
def runMap (cfg : Cfg) : List Ent → List Op → List Out × List Ent
  | sp, [] => ([], sp)
  | sp, op :: ops =>
    let r := specStep cfg sp op
    let rest := runMap cfg r.2 ops
    (r.1 :: rest.1, rest.2)

/-! ## the abstraction and the elementary changes -/

theorem absl_split_dead {pre post : List DD} {old : DD} (h : isLive old = false) :
    absl (pre ++ old :: post) = absl pre ++ absl post := by
  simp [absl, liveOf_split_dead h]
theorem absl_split_live {pre post : List DD} {d : DD} (h : isLive d = true) :
    absl (pre ++ d :: post) = absl pre ++ ent d :: absl post := by
  simp [absl, liveOf_split_live h]

theorem keys_of_split {pre post : List DD} {old : DD} (hn : KeysNodup (pre ++ old :: post)) (hl : isLive old = true) :
    (∀ e ∈ absl pre, entKey e ≠ keyOf old) ∧ (∀ e ∈ absl post, entKey e ≠ keyOf old) := by
  unfold KeysNodup at hn
  rw [liveOf_split_live hl] at hn
  simp only [List.map_append, List.map_cons] at hn
  have hperm : (List.map keyOf (liveOf pre) ++ keyOf old :: List.map keyOf (liveOf post)).Perm
      (keyOf old :: (List.map keyOf (liveOf pre) ++ List.map keyOf (liveOf post))) := List.perm_middle
  rw [hperm.nodup_iff, List.nodup_cons] at hn
  constructor
  · intro e he hk
    obtain ⟨d, hd, rfl⟩ := List.mem_map.mp he
    exact hn.1 (List.mem_append.mpr (Or.inl (List.mem_map.mpr ⟨d, hd, hk⟩)))
  · intro e he hk
    obtain ⟨d, hd, rfl⟩ := List.mem_map.mp he
    exact hn.1 (List.mem_append.mpr (Or.inr (List.mem_map.mpr ⟨d, hd, hk⟩)))

theorem map_id_of_ne {l : List Ent} {k : Nat × Nat} {len : Int} (h : ∀ e ∈ l, entKey e ≠ k) :
    l.map (fun e => if entKey e == k then (e.1, e.2.1, len) else e) = l := by
  induction l with
  | nil => rfl
  | cons a t ih =>
    have ha : (entKey a == k) = false := by simpa using h a (by simp)
    simp only [List.map_cons, ha]
    rw [ih (fun e he => h e (by simp [he]))]
    simp

theorem filter_id_of_ne {l : List Ent} {k : Nat × Nat} (h : ∀ e ∈ l, entKey e ≠ k) :
    l.filter (fun e => !(entKey e == k)) = l := by
  rw [List.filter_eq_self]
  intro e he
  have := h e he
  simpa using this

/-- rewriting the length of the one descriptor with key `k` -/
theorem absl_update {pre post : List DD} {old new : DD} (hn : KeysNodup (pre ++ old :: post)) (hl : isLive old = true)
    (ht : new.tag = old.tag) (hr : new.ref = old.ref) :
    absl (pre ++ new :: post) = specSet (absl (pre ++ old :: post)) (keyOf old) new.len := by
  have hl' : isLive new = true := by rw [isLive_iff] at hl ⊢; rw [ht]; exact hl
  obtain ⟨k1, k2⟩ := keys_of_split hn hl
  rw [absl_split_live hl', absl_split_live hl]
  unfold specSet
  rw [List.map_append, List.map_cons, map_id_of_ne k1, map_id_of_ne k2]
  have : (entKey (ent old) == keyOf old) = true := by simp
  rw [this]
  simp [ent, ht, hr]

/-- nulling the one descriptor with key `k` -/
theorem absl_delete {pre post : List DD} {old : DD} (hn : KeysNodup (pre ++ old :: post)) (hl : isLive old = true) :
    absl (pre ++ { old with tag := DFTAG_NULL } :: post) = specDel (absl (pre ++ old :: post)) (keyOf old) := by
  have hd : isLive { old with tag := DFTAG_NULL } = false := by simp [isLive]
  obtain ⟨k1, k2⟩ := keys_of_split hn hl
  rw [absl_split_dead hd, absl_split_live hl]
  unfold specDel
  rw [List.filter_append, List.filter_cons, filter_id_of_ne k1, filter_id_of_ne k2]
  simp

/-- looking a key up in the abstraction -/
theorem specGet_some {l : List DD} (hn : KeysNodup l) {d : DD} (hd : d ∈ liveOf l) :
    specGet (absl l) (keyOf d) = some (ent d) := by
  obtain ⟨hm, hl⟩ := mem_liveOf.mp hd
  obtain ⟨pre, post, rfl⟩ := List.append_of_mem hm
  obtain ⟨k1, _⟩ := keys_of_split hn hl
  rw [absl_split_live hl]
  unfold specGet
  rw [List.find?_append]
  have : (absl pre).find? (fun e => entKey e == keyOf d) = none := by
    rw [List.find?_eq_none]
    intro e he
    simpa using k1 e he
  rw [this]
  simp

theorem specGet_none {l : List DD} {k : Nat × Nat} (h : ∀ d ∈ liveOf l, keyOf d ≠ k) : specGet (absl l) k = none := by
  unfold specGet
  rw [List.find?_eq_none]
  intro e he
  obtain ⟨d, hd, rfl⟩ := List.mem_map.mp he
  simpa using h d hd

end H4.DD
