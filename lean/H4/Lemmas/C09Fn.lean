import H4.Gen.Fn.Mfgr
import H4.Lemmas.Interlace
import H4.Lemmas.C2L
/-! Lemmas for `H4.Props.C09Fn`: `GRIil_convert` of `hdf/src/mfgr.c`, as TRANSLATED from the C text (`H4.Gen.Fn.Mfgr`, regenerated on
    every run), computes the hand-written loop model `H4.Interlace.convert` on the image placed in one flat byte memory.

    Structure: `mkS` is the explicit form of the translated function's state (everything that never changes after the entry is in `Fix`);
    every loop of the translation gets a one-iteration lemma `loopK.body fuel (mkS …) = mkS …` and a loop lemma by induction on the number
    of remaining iterations; `ofSt` places a state of the model (`H4.Interlace.St`: the two pointer arrays as offsets, the content of the
    output buffer) into that form. -/
set_option linter.unusedSimpArgs false
set_option linter.unusedVariables false
namespace H4.Lemmas.C09Fn
open H4 H4.Interlace H4.Gen.Fn.Mfgr H4.C2L

/-! ### bytes of the flat memory -/

/-- a C `uint8` memory as the translated functions see it -/
def bytes (l : List Byte) : List Int := l.map fun b => (b.toNat : Int)

@[simp] theorem bytes_length (l : List Byte) : (bytes l).length = l.length := by simp [bytes]
theorem bytes_append (a b : List Byte) : bytes (a ++ b) = bytes a ++ bytes b := by simp [bytes]
theorem bytes_take (l : List Byte) (n : Nat) : bytes (l.take n) = (bytes l).take n := by simp [bytes]
theorem bytes_drop (l : List Byte) (n : Nat) : bytes (l.drop n) = (bytes l).drop n := by simp [bytes]

theorem bytes_inj {a b : List Byte} (h : bytes a = bytes b) : a = b := by
  induction a generalizing b with
  | nil => cases b <;> simp_all [bytes]
  | cons x xs ih => cases b with
    | nil => simp [bytes] at h
    | cons y ys =>
      simp only [bytes, List.map_cons, List.cons.injEq] at h
      obtain ⟨h1, h2⟩ := h
      have : x = y := UInt8.toNat_inj.mp (by omega)
      rw [ih h2, this]

/-! ### explicit states -/

/-- what never changes after the entry of `GRIil_convert` -/
structure Fix where
  inbuf : Int
  inil : Int
  outbuf : Int
  outil : Int
  ncomp : Int
  nt : Int
  csznt : Int
  pix : Int
  csz : Int
  dims : List Int

/-- the state of the translated `GRIil_convert` in its `else` branch: the six malloc'ed blocks, the flat memory, the three counters;
    the block cursors are 0, `ret_value = 0`, no ub / oof / pending goto -/
def mkS (c : Fix) (icp ocp ipa opa ila ola mem : List Int) (i j k : Int) : GRIil_convert.St :=
  { inbuf := c.inbuf, inil := c.inil, outbuf := c.outbuf, outil := c.outil, ncomp := c.ncomp, nt := c.nt, comp_size_nt := c.csznt,
    pixel_size := c.pix, comp_size := c.csz, dims := c.dims, mem := mem, i := i, j := j, k := k,
    in_comp_ptr_blk := icp, out_comp_ptr_blk := ocp, in_pixel_add_blk := ipa, out_pixel_add_blk := opa,
    in_line_add_blk := ila, out_line_add_blk := ola }

/-- `for (n…; n < n + r; n++) l[n] = f n` -/
def fillFrom {α : Type} (f : Nat → α) : Nat → Nat → List α → List α
  | 0, _, l => l
  | r + 1, n, l => fillFrom f r (n + 1) (l.set n (f n))

theorem fillFrom_eq {α : Type} (f : Nat → α) : ∀ (r n : Nat) (l : List α), l.length = n + r →
    fillFrom f r n l = l.take n ++ (List.range' n r).map f := by
  intro r
  induction r with
  | zero => intro n l h; simp [fillFrom, List.take_of_length_le (show l.length ≤ n by omega)]
  | succ r ih =>
    intro n l h
    rw [fillFrom, ih (n + 1) _ (by simp; omega), take_set_succ l n (f n) (by omega)]
    simp [List.range'_succ]

theorem fillFrom_all {α : Type} (f : Nat → α) (N : Nat) (l : List α) (h : l.length = N) :
    fillFrom f N 0 l = (List.range N).map f := by
  rw [fillFrom_eq f N 0 l (by omega)]; simp [List.range_eq_range']

abbrev M64 : Int := 18446744073709551616

/-- `inbuf + (size_t)i * comp_size` etc.: the start of component `n` in a buffer at address `p` with interlace code `il`, as the C computes it -/
def vBase (c : Fix) (p : Int) (il : Nat) (n : Nat) : Int :=
  match il with
  | 0 => p + ((((n : Int) % M64) * c.csz)) % M64
  | 1 => p + ((((((n : Int) % M64) * ((c.dims.getD 0 0) % M64))) % M64) * c.csz) % M64
  | _ => p + (((((((((n : Int) % M64) * ((c.dims.getD 1 0) % M64))) % M64) * ((c.dims.getD 0 0) % M64))) % M64) * c.csz) % M64

def vPix (c : Fix) (il : Nat) : Int := if il = 0 then c.pix else c.csz

def vLine (c : Fix) (il : Nat) : Int :=
  if il = 1 then (((((((c.ncomp - 1)) % M64) * ((c.dims.getD 0 0) % M64))) % M64) * c.csz) % M64 else 0

/-! ### the six set-up loops (`switch (inil)`, `switch (outil)`) -/

theorem loop0_body (c : Fix) (icp ocp ipa opa ila ola mem : List Int) (n : Nat) (j k : Int) (fuel : Nat)
    (h1 : n < icp.length) (h2 : n < ipa.length) (h3 : n < ila.length) (hd : c.dims.length = 2) :
    GRIil_convert.loop0.body fuel (mkS c icp ocp ipa opa ila ola mem n j k) =
      mkS c (icp.set n (vBase c c.inbuf 0 n)) ocp (ipa.set n (vPix c 0)) opa (ila.set n (vLine c 0)) ola mem (n + 1 : Nat) j k := by
  simp [GRIil_convert.loop0.body, GRIil_convert.chk, mkS, vBase, vPix, vLine, h1, h2, h3, hd]

theorem loop0_spec (c : Fix) (N : Nat) (hN : c.ncomp = N) (hd : c.dims.length = 2) (mem : List Int) (j k : Int) :
    ∀ (r n fuel : Nat) (icp ocp ipa opa ila ola : List Int), n + r = N → r ≤ fuel → icp.length = N → ipa.length = N → ila.length = N →
    GRIil_convert.loop0 fuel (mkS c icp ocp ipa opa ila ola mem n j k) =
      mkS c (fillFrom (vBase c c.inbuf 0) r n icp) ocp (fillFrom (fun _ => vPix c 0) r n ipa) opa (fillFrom (fun _ => vLine c 0) r n ila) ola mem N j k := by
  intro r
  induction r with
  | zero =>
    intro n fuel icp ocp ipa opa ila ola hn hf l1 l2 l3
    have e : n = N := by omega
    cases fuel <;> simp [GRIil_convert.loop0, mkS, fillFrom, hN, e]
  | succ r ih =>
    intro n fuel icp ocp ipa opa ila ola hn hf l1 l2 l3
    obtain ⟨fuel, rfl⟩ : ∃ f, fuel = f + 1 := ⟨fuel - 1, by omega⟩
    have hc : ((n : Int) < c.ncomp) ∧ ¬ (false = true) := ⟨by rw [hN]; omega, by simp⟩
    rw [GRIil_convert.loop0]
    have hc' : ((mkS c icp ocp ipa opa ila ola mem n j k).i < (mkS c icp ocp ipa opa ila ola mem n j k).ncomp) ∧
        ¬ ((mkS c icp ocp ipa opa ila ola mem n j k).gto = true) := hc
    rw [if_pos hc', loop0_body c icp ocp ipa opa ila ola mem n j k _ (by omega) (by omega) (by omega) hd]
    rw [ih (n + 1) fuel _ _ _ _ _ _ (by omega) (by omega) (by simp; omega) (by simp; omega) (by simp; omega)]
    rfl

theorem loop1_body (c : Fix) (icp ocp ipa opa ila ola mem : List Int) (n : Nat) (j k : Int) (fuel : Nat)
    (h1 : n < icp.length) (h2 : n < ipa.length) (h3 : n < ila.length) (hd : c.dims.length = 2) :
    GRIil_convert.loop1.body fuel (mkS c icp ocp ipa opa ila ola mem n j k) =
      mkS c (icp.set n (vBase c c.inbuf 1 n)) ocp (ipa.set n (vPix c 1)) opa (ila.set n (vLine c 1)) ola mem (n + 1 : Nat) j k := by
  simp [GRIil_convert.loop1.body, GRIil_convert.chk, mkS, vBase, vPix, vLine, h1, h2, h3, hd]

theorem loop1_spec (c : Fix) (N : Nat) (hN : c.ncomp = N) (hd : c.dims.length = 2) (mem : List Int) (j k : Int) :
    ∀ (r n fuel : Nat) (icp ocp ipa opa ila ola : List Int), n + r = N → r ≤ fuel → icp.length = N → ipa.length = N → ila.length = N →
    GRIil_convert.loop1 fuel (mkS c icp ocp ipa opa ila ola mem n j k) =
      mkS c (fillFrom (vBase c c.inbuf 1) r n icp) ocp (fillFrom (fun _ => vPix c 1) r n ipa) opa (fillFrom (fun _ => vLine c 1) r n ila) ola mem N j k := by
  intro r
  induction r with
  | zero =>
    intro n fuel icp ocp ipa opa ila ola hn hf l1 l2 l3
    have e : n = N := by omega
    cases fuel <;> simp [GRIil_convert.loop1, mkS, fillFrom, hN, e]
  | succ r ih =>
    intro n fuel icp ocp ipa opa ila ola hn hf l1 l2 l3
    obtain ⟨fuel, rfl⟩ : ∃ f, fuel = f + 1 := ⟨fuel - 1, by omega⟩
    have hc : ((n : Int) < c.ncomp) ∧ ¬ (false = true) := ⟨by rw [hN]; omega, by simp⟩
    rw [GRIil_convert.loop1]
    have hc' : ((mkS c icp ocp ipa opa ila ola mem n j k).i < (mkS c icp ocp ipa opa ila ola mem n j k).ncomp) ∧
        ¬ ((mkS c icp ocp ipa opa ila ola mem n j k).gto = true) := hc
    rw [if_pos hc', loop1_body c icp ocp ipa opa ila ola mem n j k _ (by omega) (by omega) (by omega) hd]
    rw [ih (n + 1) fuel _ _ _ _ _ _ (by omega) (by omega) (by simp; omega) (by simp; omega) (by simp; omega)]
    rfl

theorem loop2_body (c : Fix) (icp ocp ipa opa ila ola mem : List Int) (n : Nat) (j k : Int) (fuel : Nat)
    (h1 : n < icp.length) (h2 : n < ipa.length) (h3 : n < ila.length) (hd : c.dims.length = 2) :
    GRIil_convert.loop2.body fuel (mkS c icp ocp ipa opa ila ola mem n j k) =
      mkS c (icp.set n (vBase c c.inbuf 2 n)) ocp (ipa.set n (vPix c 2)) opa (ila.set n (vLine c 2)) ola mem (n + 1 : Nat) j k := by
  simp [GRIil_convert.loop2.body, GRIil_convert.chk, mkS, vBase, vPix, vLine, h1, h2, h3, hd]

theorem loop2_spec (c : Fix) (N : Nat) (hN : c.ncomp = N) (hd : c.dims.length = 2) (mem : List Int) (j k : Int) :
    ∀ (r n fuel : Nat) (icp ocp ipa opa ila ola : List Int), n + r = N → r ≤ fuel → icp.length = N → ipa.length = N → ila.length = N →
    GRIil_convert.loop2 fuel (mkS c icp ocp ipa opa ila ola mem n j k) =
      mkS c (fillFrom (vBase c c.inbuf 2) r n icp) ocp (fillFrom (fun _ => vPix c 2) r n ipa) opa (fillFrom (fun _ => vLine c 2) r n ila) ola mem N j k := by
  intro r
  induction r with
  | zero =>
    intro n fuel icp ocp ipa opa ila ola hn hf l1 l2 l3
    have e : n = N := by omega
    cases fuel <;> simp [GRIil_convert.loop2, mkS, fillFrom, hN, e]
  | succ r ih =>
    intro n fuel icp ocp ipa opa ila ola hn hf l1 l2 l3
    obtain ⟨fuel, rfl⟩ : ∃ f, fuel = f + 1 := ⟨fuel - 1, by omega⟩
    have hc : ((n : Int) < c.ncomp) ∧ ¬ (false = true) := ⟨by rw [hN]; omega, by simp⟩
    rw [GRIil_convert.loop2]
    have hc' : ((mkS c icp ocp ipa opa ila ola mem n j k).i < (mkS c icp ocp ipa opa ila ola mem n j k).ncomp) ∧
        ¬ ((mkS c icp ocp ipa opa ila ola mem n j k).gto = true) := hc
    rw [if_pos hc', loop2_body c icp ocp ipa opa ila ola mem n j k _ (by omega) (by omega) (by omega) hd]
    rw [ih (n + 1) fuel _ _ _ _ _ _ (by omega) (by omega) (by simp; omega) (by simp; omega) (by simp; omega)]
    rfl

theorem loop3_body (c : Fix) (icp ocp ipa opa ila ola mem : List Int) (n : Nat) (j k : Int) (fuel : Nat)
    (h1 : n < ocp.length) (h2 : n < opa.length) (h3 : n < ola.length) (hd : c.dims.length = 2) :
    GRIil_convert.loop3.body fuel (mkS c icp ocp ipa opa ila ola mem n j k) =
      mkS c icp (ocp.set n (vBase c c.outbuf 0 n)) ipa (opa.set n (vPix c 0)) ila (ola.set n (vLine c 0)) mem (n + 1 : Nat) j k := by
  simp [GRIil_convert.loop3.body, GRIil_convert.chk, mkS, vBase, vPix, vLine, h1, h2, h3, hd]

theorem loop3_spec (c : Fix) (N : Nat) (hN : c.ncomp = N) (hd : c.dims.length = 2) (mem : List Int) (j k : Int) :
    ∀ (r n fuel : Nat) (icp ocp ipa opa ila ola : List Int), n + r = N → r ≤ fuel → ocp.length = N → opa.length = N → ola.length = N →
    GRIil_convert.loop3 fuel (mkS c icp ocp ipa opa ila ola mem n j k) =
      mkS c icp (fillFrom (vBase c c.outbuf 0) r n ocp) ipa (fillFrom (fun _ => vPix c 0) r n opa) ila (fillFrom (fun _ => vLine c 0) r n ola) mem N j k := by
  intro r
  induction r with
  | zero =>
    intro n fuel icp ocp ipa opa ila ola hn hf l1 l2 l3
    have e : n = N := by omega
    cases fuel <;> simp [GRIil_convert.loop3, mkS, fillFrom, hN, e]
  | succ r ih =>
    intro n fuel icp ocp ipa opa ila ola hn hf l1 l2 l3
    obtain ⟨fuel, rfl⟩ : ∃ f, fuel = f + 1 := ⟨fuel - 1, by omega⟩
    have hc : ((n : Int) < c.ncomp) ∧ ¬ (false = true) := ⟨by rw [hN]; omega, by simp⟩
    rw [GRIil_convert.loop3]
    have hc' : ((mkS c icp ocp ipa opa ila ola mem n j k).i < (mkS c icp ocp ipa opa ila ola mem n j k).ncomp) ∧
        ¬ ((mkS c icp ocp ipa opa ila ola mem n j k).gto = true) := hc
    rw [if_pos hc', loop3_body c icp ocp ipa opa ila ola mem n j k _ (by omega) (by omega) (by omega) hd]
    rw [ih (n + 1) fuel _ _ _ _ _ _ (by omega) (by omega) (by simp; omega) (by simp; omega) (by simp; omega)]
    rfl

theorem loop4_body (c : Fix) (icp ocp ipa opa ila ola mem : List Int) (n : Nat) (j k : Int) (fuel : Nat)
    (h1 : n < ocp.length) (h2 : n < opa.length) (h3 : n < ola.length) (hd : c.dims.length = 2) :
    GRIil_convert.loop4.body fuel (mkS c icp ocp ipa opa ila ola mem n j k) =
      mkS c icp (ocp.set n (vBase c c.outbuf 1 n)) ipa (opa.set n (vPix c 1)) ila (ola.set n (vLine c 1)) mem (n + 1 : Nat) j k := by
  simp [GRIil_convert.loop4.body, GRIil_convert.chk, mkS, vBase, vPix, vLine, h1, h2, h3, hd]

theorem loop4_spec (c : Fix) (N : Nat) (hN : c.ncomp = N) (hd : c.dims.length = 2) (mem : List Int) (j k : Int) :
    ∀ (r n fuel : Nat) (icp ocp ipa opa ila ola : List Int), n + r = N → r ≤ fuel → ocp.length = N → opa.length = N → ola.length = N →
    GRIil_convert.loop4 fuel (mkS c icp ocp ipa opa ila ola mem n j k) =
      mkS c icp (fillFrom (vBase c c.outbuf 1) r n ocp) ipa (fillFrom (fun _ => vPix c 1) r n opa) ila (fillFrom (fun _ => vLine c 1) r n ola) mem N j k := by
  intro r
  induction r with
  | zero =>
    intro n fuel icp ocp ipa opa ila ola hn hf l1 l2 l3
    have e : n = N := by omega
    cases fuel <;> simp [GRIil_convert.loop4, mkS, fillFrom, hN, e]
  | succ r ih =>
    intro n fuel icp ocp ipa opa ila ola hn hf l1 l2 l3
    obtain ⟨fuel, rfl⟩ : ∃ f, fuel = f + 1 := ⟨fuel - 1, by omega⟩
    have hc : ((n : Int) < c.ncomp) ∧ ¬ (false = true) := ⟨by rw [hN]; omega, by simp⟩
    rw [GRIil_convert.loop4]
    have hc' : ((mkS c icp ocp ipa opa ila ola mem n j k).i < (mkS c icp ocp ipa opa ila ola mem n j k).ncomp) ∧
        ¬ ((mkS c icp ocp ipa opa ila ola mem n j k).gto = true) := hc
    rw [if_pos hc', loop4_body c icp ocp ipa opa ila ola mem n j k _ (by omega) (by omega) (by omega) hd]
    rw [ih (n + 1) fuel _ _ _ _ _ _ (by omega) (by omega) (by simp; omega) (by simp; omega) (by simp; omega)]
    rfl

theorem loop5_body (c : Fix) (icp ocp ipa opa ila ola mem : List Int) (n : Nat) (j k : Int) (fuel : Nat)
    (h1 : n < ocp.length) (h2 : n < opa.length) (h3 : n < ola.length) (hd : c.dims.length = 2) :
    GRIil_convert.loop5.body fuel (mkS c icp ocp ipa opa ila ola mem n j k) =
      mkS c icp (ocp.set n (vBase c c.outbuf 2 n)) ipa (opa.set n (vPix c 2)) ila (ola.set n (vLine c 2)) mem (n + 1 : Nat) j k := by
  simp [GRIil_convert.loop5.body, GRIil_convert.chk, mkS, vBase, vPix, vLine, h1, h2, h3, hd]

theorem loop5_spec (c : Fix) (N : Nat) (hN : c.ncomp = N) (hd : c.dims.length = 2) (mem : List Int) (j k : Int) :
    ∀ (r n fuel : Nat) (icp ocp ipa opa ila ola : List Int), n + r = N → r ≤ fuel → ocp.length = N → opa.length = N → ola.length = N →
    GRIil_convert.loop5 fuel (mkS c icp ocp ipa opa ila ola mem n j k) =
      mkS c icp (fillFrom (vBase c c.outbuf 2) r n ocp) ipa (fillFrom (fun _ => vPix c 2) r n opa) ila (fillFrom (fun _ => vLine c 2) r n ola) mem N j k := by
  intro r
  induction r with
  | zero =>
    intro n fuel icp ocp ipa opa ila ola hn hf l1 l2 l3
    have e : n = N := by omega
    cases fuel <;> simp [GRIil_convert.loop5, mkS, fillFrom, hN, e]
  | succ r ih =>
    intro n fuel icp ocp ipa opa ila ola hn hf l1 l2 l3
    obtain ⟨fuel, rfl⟩ : ∃ f, fuel = f + 1 := ⟨fuel - 1, by omega⟩
    have hc : ((n : Int) < c.ncomp) ∧ ¬ (false = true) := ⟨by rw [hN]; omega, by simp⟩
    rw [GRIil_convert.loop5]
    have hc' : ((mkS c icp ocp ipa opa ila ola mem n j k).i < (mkS c icp ocp ipa opa ila ola mem n j k).ncomp) ∧
        ¬ ((mkS c icp ocp ipa opa ila ola mem n j k).gto = true) := hc
    rw [if_pos hc', loop5_body c icp ocp ipa opa ila ola mem n j k _ (by omega) (by omega) (by omega) hd]
    rw [ih (n + 1) fuel _ _ _ _ _ _ (by omega) (by omega) (by simp; omega) (by simp; omega) (by simp; omega)]
    rfl

/-! ### the copy loop and the wrap loop on explicit states -/

/-- one `memcpy(out_comp_ptr[k], in_comp_ptr[k], comp_size)` + the two pointer increments, on the flat memory -/
theorem loop8_body (c : Fix) (icp ocp ipa opa ila ola mem : List Int) (i j : Int) (k : Nat) (fuel : Nat) (ip op csz pa qa : Nat)
    (h1 : k < icp.length) (h2 : k < ocp.length) (h3 : k < ipa.length) (h4 : k < opa.length) (hc : c.csz = csz)
    (hip : icp.getD k 0 = (ip : Int)) (hop : ocp.getD k 0 = (op : Int)) (hpa : ipa.getD k 0 = pa) (hqa : opa.getD k 0 = qa)
    (hbi : ip + csz ≤ mem.length) (hbo : op + csz ≤ mem.length) (hd : op + csz ≤ ip ∨ ip + csz ≤ op) :
    GRIil_convert.loop8.body fuel (mkS c icp ocp ipa opa ila ola mem i j k) =
      mkS c (icp.set k ((ip + pa : Nat) : Int)) (ocp.set k ((op + qa : Nat) : Int)) ipa opa ila ola
        (mem.take op ++ (mem.drop ip).take csz ++ mem.drop (op + csz)) i j (k + 1 : Nat) := by
  have e1 : (op : Int) + csz ≤ (mem.length : Int) := by omega
  have e2 : (ip : Int) + csz ≤ (mem.length : Int) := by omega
  have e3 : (op : Int) + csz ≤ ip ∨ (ip : Int) + csz ≤ op ∨ (csz : Int) = 0 := by omega
  have e4 : ((op : Int) + (csz : Int)).toNat = op + csz := by omega
  simp [-List.getD_eq_getElem?_getD, GRIil_convert.loop8.body, GRIil_convert.chk, mkS, h1, h2, h3, h4, hc, hip, hop, hpa, hqa, e1, e2, e3, e4]
  omega

/-- `out_comp_ptr[k] += out_line_add[k]; in_comp_ptr[k] += in_line_add[k]` -/
theorem loop9_body (c : Fix) (icp ocp ipa opa ila ola mem : List Int) (i j : Int) (k : Nat) (fuel : Nat) (ip op la lb : Nat)
    (h1 : k < icp.length) (h2 : k < ocp.length) (h3 : k < ila.length) (h4 : k < ola.length)
    (hip : icp.getD k 0 = (ip : Int)) (hop : ocp.getD k 0 = (op : Int)) (hla : ila.getD k 0 = la) (hlb : ola.getD k 0 = lb) :
    GRIil_convert.loop9.body fuel (mkS c icp ocp ipa opa ila ola mem i j k) =
      mkS c (icp.set k ((ip + la : Nat) : Int)) (ocp.set k ((op + lb : Nat) : Int)) ipa opa ila ola mem i j (k + 1 : Nat) := by
  simp [-List.getD_eq_getElem?_getD, GRIil_convert.loop9.body, GRIil_convert.chk, mkS, h1, h2, h3, h4, hip, hop, hla, hlb]

/-! ### memory: an image placement inside the flat memory -/

/-- the memory `m` with the `n` bytes at `off` replaced by `o` -/
def splice (m : List Byte) (off n : Nat) (o : List Byte) : List Byte := m.take off ++ o ++ m.drop (off + n)

theorem length_splice {m : List Byte} {off n : Nat} {o : List Byte} (ho : o.length = n) (hm : off + n ≤ m.length) :
    (splice m off n o).length = m.length := by
  simp [splice, ho]; omega

theorem getElem?_splice {m : List Byte} {off n : Nat} {o : List Byte} (ho : o.length = n) (hm : off + n ≤ m.length) (q : Nat) :
    (splice m off n o)[q]? = if off ≤ q ∧ q < off + n then o[q - off]? else m[q]? := by
  unfold splice
  by_cases c1 : q < off
  · rw [List.append_assoc, List.getElem?_append_left (by simp; omega)]
    simp [c1]
  · by_cases c2 : q < off + n
    · rw [List.append_assoc, List.getElem?_append_right (by simp; omega)]
      have : (List.take off m).length = off := by simp; omega
      rw [this, List.getElem?_append_left (by omega)]
      simp [c2]; omega
    · rw [List.getElem?_append_right (by simp; omega)]
      simp
      have : min off m.length = off := by omega
      rw [this, ho, if_neg (by omega)]
      congr 1; omega

/-- reading outside the replaced placement sees `m` -/
theorem slice_splice_disj {m : List Byte} {off n : Nat} {o : List Byte} (ho : o.length = n) (hm : off + n ≤ m.length)
    {q len : Nat} (hd : q + len ≤ off ∨ off + n ≤ q) : slice (splice m off n o) q len = slice m q len := by
  apply List.ext_getElem?
  intro i
  rw [getElem?_slice, getElem?_slice, getElem?_splice ho hm]
  by_cases c : i < len
  · simp only [c, if_true]; rw [if_neg (by omega)]
  · simp [c]

theorem slice_slice {m : List Byte} {off n q len : Nat} (h : q + len ≤ n) : slice (slice m off n) q len = slice m (off + q) len := by
  apply List.ext_getElem?
  intro i
  rw [getElem?_slice, getElem?_slice, getElem?_slice]
  by_cases c : i < len
  · simp only [c, if_true]; rw [if_pos (by omega)]; congr 1; omega
  · simp [c]

/-- a `memcpy` into the replaced placement is a `blit` on the replacement -/
theorem splice_blit {m : List Byte} {off n : Nat} {o s : List Byte} (ho : o.length = n) (hm : off + n ≤ m.length)
    {p : Nat} (hp : p + s.length ≤ n) :
    (splice m off n o).take (off + p) ++ s ++ (splice m off n o).drop (off + p + s.length) = splice m off n (blit o p s) := by
  apply List.ext_getElem?
  intro q
  have hl := length_splice ho hm
  have hb : (blit o p s).length = n := by rw [length_blit, ho]
  rw [getElem?_splice hb hm, getElem?_blit (by omega)]
  by_cases c1 : q < off + p
  · rw [List.append_assoc, List.getElem?_append_left (by simp; omega), List.getElem?_take, if_pos c1, getElem?_splice ho hm]
    by_cases c0 : off ≤ q
    · rw [if_pos (by omega), if_pos (by omega), if_neg (by omega)]
    · rw [if_neg (by omega), if_neg (by omega)]
  · have ht : ((splice m off n o).take (off + p)).length = off + p := by simp; omega
    by_cases c2 : q < off + p + s.length
    · rw [List.append_assoc, List.getElem?_append_right (by omega), ht, List.getElem?_append_left (by omega)]
      rw [if_pos (by omega), if_pos (by omega)]
      congr 1; omega
    · rw [List.getElem?_append_right (by simp; omega)]
      simp only [List.length_append, ht, List.getElem?_drop]
      have e : off + p + s.length + (q - (off + p + s.length)) = q := by omega
      rw [e, getElem?_splice ho hm]
      by_cases c3 : q < off + n
      · rw [if_pos (by omega), if_pos (by omega), if_neg (by omega)]
      · rw [if_neg (by omega), if_neg (by omega)]

/-! ### states of the model inside the translated state -/

/-- an array of pointers into the buffer at address `off`, given by their offsets -/
def ptrs (off : Nat) (l : List Nat) : List Int := l.map fun x => ((off + x : Nat) : Int)

@[simp] theorem ptrs_length (off : Nat) (l : List Nat) : (ptrs off l).length = l.length := by simp [ptrs]

theorem ptrs_getD (off : Nat) (l : List Nat) (k : Nat) (h : k < l.length) : (ptrs off l).getD k 0 = ((off + l.getD k 0 : Nat) : Int) := by
  simp [ptrs, h]

theorem ptrs_set (off : Nat) (l : List Nat) (k v : Nat) : (ptrs off l).set k ((off + v : Nat) : Int) = ptrs off (l.set k v) := by
  simp [ptrs, List.map_set]

theorem ints_getD' (l : List Nat) (k : Nat) : (ints l).getD k 0 = ((l.getD k 0 : Nat) : Int) := by
  simp

section
variable (c : Fix) (m : List Byte) (inOff outOff N : Nat) (ipa opa ila ola : List Nat)

/-- the translated state that holds the model state `t`: the pointer arrays are the addresses `inOff + t.inp[k]`, `outOff + t.outp[k]`,
    the memory is `m` with the output placement replaced by `t.out` -/
def ofSt (t : St) (i j k : Int) : GRIil_convert.St :=
  mkS c (ptrs inOff t.inp) (ptrs outOff t.outp) (ints ipa) (ints opa) (ints ila) (ints ola) (bytes (splice m outOff N t.out)) i j k

/-- the hypotheses on the two placements: inside the memory and disjoint -/
structure Placed : Prop where
  hin : inOff + N ≤ m.length
  hout : outOff + N ≤ m.length
  hdisj : inOff + N ≤ outOff ∨ outOff + N ≤ inOff

variable {c m inOff outOff N ipa opa ila ola}

/-- one pass of `for (k…)` is the model's `kBody` -/
theorem loop8_step (hp : Placed m inOff outOff N) (csz : Nat) (hc : c.csz = csz) (t : St) (i j : Int) (k fuel : Nat)
    (h1 : k < t.inp.length) (h2 : k < t.outp.length) (h3 : k < ipa.length) (h4 : k < opa.length) (ho : t.out.length = N)
    (hbi : t.inp.getD k 0 + csz ≤ N) (hbo : t.outp.getD k 0 + csz ≤ N) :
    GRIil_convert.loop8.body fuel (ofSt c m inOff outOff N ipa opa ila ola t i j k) =
      ofSt c m inOff outOff N ipa opa ila ola (kBody (slice m inOff N) csz ipa opa t k) i j (k + 1 : Nat) := by
  obtain ⟨hin, hout, hdisj⟩ := hp
  have hl := length_splice ho hout
  unfold ofSt
  rw [loop8_body c _ _ _ _ _ _ _ i j k fuel (inOff + t.inp.getD k 0) (outOff + t.outp.getD k 0) csz (ipa.getD k 0) (opa.getD k 0)
    (by simpa using h1) (by simpa using h2) (by simpa using h3) (by simpa using h4) hc (ptrs_getD _ _ _ h1) (ptrs_getD _ _ _ h2)
    (ints_getD' _ _) (ints_getD' _ _) (by rw [bytes_length, hl]; omega) (by rw [bytes_length, hl]; omega) (by omega)]
  have es : slice (splice m outOff N t.out) (inOff + t.inp.getD k 0) csz = slice (slice m inOff N) (t.inp.getD k 0) csz := by
    rw [slice_splice_disj ho hout (by omega), slice_slice hbi]
  have esl : (slice (slice m inOff N) (t.inp.getD k 0) csz).length = csz :=
    length_slice (by rw [length_slice (by omega)]; exact hbi)
  have em : (bytes (splice m outOff N t.out)).take (outOff + t.outp.getD k 0) ++
        ((bytes (splice m outOff N t.out)).drop (inOff + t.inp.getD k 0)).take csz ++
        (bytes (splice m outOff N t.out)).drop (outOff + t.outp.getD k 0 + csz) =
      bytes (splice m outOff N (blit t.out (t.outp.getD k 0) (slice (slice m inOff N) (t.inp.getD k 0) csz))) := by
    rw [← bytes_take, ← bytes_drop, ← bytes_drop, ← bytes_take, ← bytes_append, ← bytes_append]
    congr 1
    have := splice_blit (m := m) (s := slice (slice m inOff N) (t.inp.getD k 0) csz) ho hout (p := t.outp.getD k 0) (by rw [esl]; exact hbo)
    rw [esl] at this
    show _ ++ slice (splice m outOff N t.out) (inOff + t.inp.getD k 0) csz ++ _ = _
    rw [es]
    exact this
  rw [em, Nat.add_assoc, Nat.add_assoc, ptrs_set, ptrs_set]
  rfl

/-- `for (k = k0; k < ncomp; k++)` of the copy loop is the model's fold over the remaining components -/
theorem loop8_spec (hp : Placed m inOff outOff N) (csz ncomp : Nat) (hc : c.csz = csz) (hn : c.ncomp = ncomp) (i j : Int)
    (h3 : ipa.length = ncomp) (h4 : opa.length = ncomp) :
    ∀ (r k fuel : Nat) (t : St), k + r = ncomp → r ≤ fuel → t.inp.length = ncomp → t.outp.length = ncomp → t.out.length = N →
      (∀ k', k ≤ k' → k' < ncomp → t.inp.getD k' 0 + csz ≤ N ∧ t.outp.getD k' 0 + csz ≤ N) →
      GRIil_convert.loop8 fuel (ofSt c m inOff outOff N ipa opa ila ola t i j k) =
        ofSt c m inOff outOff N ipa opa ila ola ((List.range' k r).foldl (kBody (slice m inOff N) csz ipa opa) t) i j ncomp := by
  intro r
  induction r with
  | zero =>
    intro k fuel t hk hf l1 l2 lo hb
    have e : k = ncomp := by omega
    cases fuel <;> simp [GRIil_convert.loop8, ofSt, mkS, hn, e]
  | succ r ih =>
    intro k fuel t hk hf l1 l2 lo hb
    obtain ⟨fuel, rfl⟩ : ∃ f, fuel = f + 1 := ⟨fuel - 1, by omega⟩
    have hc' : ((ofSt c m inOff outOff N ipa opa ila ola t i j k).k < (ofSt c m inOff outOff N ipa opa ila ola t i j k).ncomp) ∧
        ¬ ((ofSt c m inOff outOff N ipa opa ila ola t i j k).gto = true) := ⟨by show (k : Int) < c.ncomp; rw [hn]; omega, by simp [ofSt, mkS]⟩
    rw [GRIil_convert.loop8, if_pos hc', loop8_step hp csz hc t i j k _ (by omega) (by omega) (by omega) (by omega) lo
      (hb k (Nat.le_refl _) (by omega)).1 (hb k (Nat.le_refl _) (by omega)).2]
    rw [ih (k + 1) fuel _ (by omega) (by omega) (by simp [kBody]; exact l1) (by simp [kBody]; exact l2) (by simp [kBody]; exact lo)]
    · rw [List.range'_succ, List.foldl_cons]
    · intro k' hk1 hk2
      have := hb k' (by omega) hk2
      simp only [kBody, List.getD_eq_getElem?_getD] at this ⊢
      rw [List.getElem?_set_ne (by omega), List.getElem?_set_ne (by omega)]
      exact this

/-- one pass of the wrap loop is the model's `wrapBody` -/
theorem loop9_step (t : St) (i j : Int) (k fuel : Nat)
    (h1 : k < t.inp.length) (h2 : k < t.outp.length) (h3 : k < ila.length) (h4 : k < ola.length) :
    GRIil_convert.loop9.body fuel (ofSt c m inOff outOff N ipa opa ila ola t i j k) =
      ofSt c m inOff outOff N ipa opa ila ola (wrapBody ila ola t k) i j (k + 1 : Nat) := by
  unfold ofSt
  rw [loop9_body c _ _ _ _ _ _ _ i j k fuel (inOff + t.inp.getD k 0) (outOff + t.outp.getD k 0) (ila.getD k 0) (ola.getD k 0)
    (by simpa using h1) (by simpa using h2) (by simpa using h3) (by simpa using h4) (ptrs_getD _ _ _ h1) (ptrs_getD _ _ _ h2)
    (ints_getD' _ _) (ints_getD' _ _)]
  rw [Nat.add_assoc, Nat.add_assoc, ptrs_set, ptrs_set]
  rfl

theorem loop9_spec (ncomp : Nat) (hn : c.ncomp = ncomp) (i j : Int) (h3 : ila.length = ncomp) (h4 : ola.length = ncomp) :
    ∀ (r k fuel : Nat) (t : St), k + r = ncomp → r ≤ fuel → t.inp.length = ncomp → t.outp.length = ncomp →
      GRIil_convert.loop9 fuel (ofSt c m inOff outOff N ipa opa ila ola t i j k) =
        ofSt c m inOff outOff N ipa opa ila ola ((List.range' k r).foldl (wrapBody ila ola) t) i j ncomp := by
  intro r
  induction r with
  | zero =>
    intro k fuel t hk hf l1 l2
    have e : k = ncomp := by omega
    cases fuel <;> simp [GRIil_convert.loop9, ofSt, mkS, hn, e]
  | succ r ih =>
    intro k fuel t hk hf l1 l2
    obtain ⟨fuel, rfl⟩ : ∃ f, fuel = f + 1 := ⟨fuel - 1, by omega⟩
    have hc' : ((ofSt c m inOff outOff N ipa opa ila ola t i j k).k < (ofSt c m inOff outOff N ipa opa ila ola t i j k).ncomp) ∧
        ¬ ((ofSt c m inOff outOff N ipa opa ila ola t i j k).gto = true) := ⟨by show (k : Int) < c.ncomp; rw [hn]; omega, by simp [ofSt, mkS]⟩
    rw [GRIil_convert.loop9, if_pos hc', loop9_step t i j k _ (by omega) (by omega) (by omega) (by omega)]
    rw [ih (k + 1) fuel _ (by omega) (by omega) (by simp [wrapBody]; exact l1) (by simp [wrapBody]; exact l2)]
    rw [List.range'_succ, List.foldl_cons]

theorem chk_true (s : GRIil_convert.St) (p : Prop) [Decidable p] (h : p) : GRIil_convert.chk s p = s := by
  simp [GRIil_convert.chk, h]

theorem loop7_succ (f : Nat) (s : GRIil_convert.St) (h : 0 < s.dims.length) :
    GRIil_convert.loop7 (f + 1) s =
      if (s.j < (s.dims.getD (Int.toNat 0) 0)) ∧ ¬ (s.gto) then GRIil_convert.loop7 f (GRIil_convert.loop7.body (f + 1) s) else s := by
  rw [GRIil_convert.loop7]; simp only [chk_true _ _ h]

theorem loop7_stop (f : Nat) (s : GRIil_convert.St) (h : 0 < s.dims.length) (hc : ¬ ((s.j < (s.dims.getD (Int.toNat 0) 0)) ∧ ¬ (s.gto))) :
    GRIil_convert.loop7 f s = s := by
  cases f with
  | zero => rw [GRIil_convert.loop7]; simp only [chk_true _ _ h]; rw [if_neg hc]
  | succ f => rw [loop7_succ f s h, if_neg hc]

theorem loop6_succ (f : Nat) (s : GRIil_convert.St) (h : 0 ≤ 1 ∧ 1 < s.dims.length) :
    GRIil_convert.loop6 (f + 1) s =
      if (s.i < (s.dims.getD (Int.toNat 1) 0)) ∧ ¬ (s.gto) then GRIil_convert.loop6 f (GRIil_convert.loop6.body (f + 1) s) else s := by
  rw [GRIil_convert.loop6]; simp only [chk_true _ _ h]

theorem loop6_stop (f : Nat) (s : GRIil_convert.St) (h : 0 ≤ 1 ∧ 1 < s.dims.length) (hc : ¬ ((s.i < (s.dims.getD (Int.toNat 1) 0)) ∧ ¬ (s.gto))) :
    GRIil_convert.loop6 f s = s := by
  cases f with
  | zero => rw [GRIil_convert.loop6]; simp only [chk_true _ _ h]; rw [if_neg hc]
  | succ f => rw [loop6_succ f s h, if_neg hc]

/-- a fold whose body ignores the loop index -/
theorem foldl_range_ignore {β : Type} (g : β → β) : ∀ (n : Nat) (t : β),
    (List.range (n + 1)).foldl (fun s _ => g s) t = (List.range n).foldl (fun s _ => g s) (g t) := by
  intro n
  induction n with
  | zero => intro t; rfl
  | succ n ih => intro t; rw [List.range_succ, List.foldl_append, ih, List.range_succ, List.foldl_append]; rfl

theorem range_foldl_eq_range' {β : Type} (f : β → Nat → β) (n : Nat) (t : β) : (List.range' 0 n).foldl f t = (List.range n).foldl f t := by
  rw [List.range_eq_range']

/-- a per-component array whose cells all hold `v` (the increment arrays) -/
abbrev cst (n v : Nat) : List Nat := (List.range n).map fun _ => v

/-- `for (j = jn; j < W; j++) for (k…)`: the model's fold of `jBody` over the remaining pixels of the line. The pointers are given in closed
    form (`mkSt`), the bounds say that every pixel of the rest of the line lies inside the image. -/
theorem loop7_spec (hp : Placed m inOff outOff N) (W H ncomp csz ia oa : Nat) (hc : c.csz = csz) (hn : c.ncomp = ncomp)
    (hd : c.dims = ints [W, H]) (i : Int) :
    ∀ (r jn fuel : Nat) (fin fout : Nat → Nat) (o : List Byte) (k : Int), jn + r = W → r + ncomp ≤ fuel → o.length = N →
      (∀ j', j' < r → ∀ k', k' < ncomp → fin k' + j' * ia + csz ≤ N ∧ fout k' + j' * oa + csz ≤ N) →
      ∃ k' : Int, GRIil_convert.loop7 fuel (ofSt c m inOff outOff N (cst ncomp ia) (cst ncomp oa) ila ola (mkSt ncomp fin fout o) i jn k) =
        ofSt c m inOff outOff N (cst ncomp ia) (cst ncomp oa) ila ola
          ((List.range r).foldl (jBody (slice m inOff N) ncomp csz (cst ncomp ia) (cst ncomp oa)) (mkSt ncomp fin fout o)) i W k' := by
  intro r
  induction r with
  | zero =>
    intro jn fuel fin fout o k hj hf lo hb
    refine ⟨k, ?_⟩
    have e : jn = W := by omega
    rw [loop7_stop _ _ (by simp [ofSt, mkS, hd]) (by simp [ofSt, mkS, hd, e])]
    simp [e]
  | succ r ih =>
    intro jn fuel fin fout o k hj hf lo hb
    obtain ⟨fuel, rfl⟩ : ∃ f, fuel = f + 1 := ⟨fuel - 1, by omega⟩
    have hcond : ((ofSt c m inOff outOff N (cst ncomp ia) (cst ncomp oa) ila ola (mkSt ncomp fin fout o) i jn k).j <
          ((ofSt c m inOff outOff N (cst ncomp ia) (cst ncomp oa) ila ola (mkSt ncomp fin fout o) i jn k).dims.getD (Int.toNat 0) 0)) ∧
        ¬ ((ofSt c m inOff outOff N (cst ncomp ia) (cst ncomp oa) ila ola (mkSt ncomp fin fout o) i jn k).gto) := by
      simp [ofSt, mkS, hd]; omega
    rw [loop7_succ _ _ (by simp [ofSt, mkS, hd]), if_pos hcond]
    have hbody : GRIil_convert.loop7.body (fuel + 1) (ofSt c m inOff outOff N (cst ncomp ia) (cst ncomp oa) ila ola (mkSt ncomp fin fout o) i jn k) =
        ofSt c m inOff outOff N (cst ncomp ia) (cst ncomp oa) ila ola (mkSt ncomp (fun k => fin k + ia) (fun k => fout k + oa)
          ((List.range ncomp).foldl (fun o k => blit o (fout k) (slice (slice m inOff N) (fin k) csz)) o)) i (jn + 1 : Nat) ncomp := by
      have h8 := loop8_spec (c := c) (ila := ila) (ola := ola) hp csz ncomp hc hn i jn (ipa := cst ncomp ia)
        (opa := cst ncomp oa) (by simp) (by simp)
        ncomp 0 (fuel + 1) (mkSt ncomp fin fout o) (by omega) (by omega) (by simp [mkSt]) (by simp [mkSt]) lo
        (by
          intro k' _ hk'
          have := hb 0 (by omega) k' hk'
          simp only [mkSt]
          rw [getD_map_range hk', getD_map_range hk']
          omega)
      rw [range_foldl_eq_range', kLoop_spec] at h8
      simp only [Nat.cast_zero] at h8
      have hb0 : ∀ S0 : GRIil_convert.St, S0 = ofSt c m inOff outOff N (cst ncomp ia) (cst ncomp oa)
            ila ola (mkSt ncomp fin fout o) i jn 0 →
          GRIil_convert.loop7.body (fuel + 1) (ofSt c m inOff outOff N (cst ncomp ia) (cst ncomp oa)
            ila ola (mkSt ncomp fin fout o) i jn k) =
          (GRIil_convert.loop8 (fuel + 1) S0).set_j ((GRIil_convert.loop8 (fuel + 1) S0).j + 1) := by
        intro S0 e; rw [e]; rfl
      rw [hb0 _ rfl, h8]
      simp [ofSt, mkS]
    rw [hbody]
    obtain ⟨k', hk'⟩ := ih (jn + 1) fuel (fun k => fin k + ia) (fun k => fout k + oa)
      ((List.range ncomp).foldl (fun o k => blit o (fout k) (slice (slice m inOff N) (fin k) csz)) o) ncomp (by omega) (by omega)
      (by
        have : ∀ (l : List Nat) (o : List Byte), (l.foldl (fun o k => blit o (fout k) (slice (slice m inOff N) (fin k) csz)) o).length = o.length := by
          intro l; induction l with
          | nil => intro o; rfl
          | cons a l ih => intro o; rw [List.foldl_cons, ih, length_blit]
        rw [this, lo])
      (by
        intro j' hj' k' hk'
        have := hb (j' + 1) (by omega) k' hk'
        simp only [Nat.add_mul, Nat.one_mul] at this
        omega)
    refine ⟨k', ?_⟩
    rw [hk']
    congr 1
    have ej : ∀ ipa opa, jBody (slice m inOff N) ncomp csz ipa opa = fun s _ => jBody (slice m inOff N) ncomp csz ipa opa s 0 := fun _ _ => rfl
    rw [ej, foldl_range_ignore]
    congr 1
    show _ = (List.range ncomp).foldl (kBody (slice m inOff N) csz _ _) (mkSt ncomp fin fout o)
    rw [kLoop_spec]

theorem ofSt_inil (t : St) (i j k : Int) : (ofSt c m inOff outOff N ipa opa ila ola t i j k).inil = c.inil := rfl
theorem ofSt_outil (t : St) (i j k : Int) : (ofSt c m inOff outOff N ipa opa ila ola t i j k).outil = c.outil := rfl
theorem ofSt_i (t : St) (i j k : Int) : (ofSt c m inOff outOff N ipa opa ila ola t i j k).i = i := rfl
theorem ofSt_set_k (t : St) (i j k v : Int) :
    (ofSt c m inOff outOff N ipa opa ila ola t i j k).set_k v = ofSt c m inOff outOff N ipa opa ila ola t i j v := rfl
theorem ofSt_set_i (t : St) (i j k v : Int) :
    (ofSt c m inOff outOff N ipa opa ila ola t i j k).set_i v = ofSt c m inOff outOff N ipa opa ila ola t v j k := rfl

theorem ite_ofSt_pos {α : Type} (h : c.inil = 1 ∨ c.outil = 1) (t : St) (i j k : Int) (A B : α) :
    (if ((ofSt c m inOff outOff N ipa opa ila ola t i j k).inil = 1) ∨ ((ofSt c m inOff outOff N ipa opa ila ola t i j k).outil = 1) then A else B) = A :=
  if_pos h

theorem ite_ofSt_neg {α : Type} (h : ¬ (c.inil = 1 ∨ c.outil = 1)) (t : St) (i j k : Int) (A B : α) :
    (if ((ofSt c m inOff outOff N ipa opa ila ola t i j k).inil = 1) ∨ ((ofSt c m inOff outOff N ipa opa ila ola t i j k).outil = 1) then A else B) = B :=
  if_neg h

theorem length_foldl_blit (f g : Nat → Nat) (inb : List Byte) (csz : Nat) : ∀ (l : List Nat) (o : List Byte),
    (l.foldl (fun o k => blit o (f k) (slice inb (g k) csz)) o).length = o.length := by
  intro l; induction l with
  | nil => intro o; rfl
  | cons a l ih => intro o; rw [List.foldl_cons, ih, length_blit]

/-- `for (i = iN; i < H; i++) { pixel loops; wrap loop }`: the model's fold of `iBody` over the remaining lines -/
theorem loop6_spec (hp : Placed m inOff outOff N) (W H ncomp csz ia oa la lb : Nat) (wrap : Bool) (hc : c.csz = csz) (hn : c.ncomp = ncomp)
    (hd : c.dims = ints [W, H]) (hw : (c.inil = 1 ∨ c.outil = 1) ↔ wrap = true) (p1 p2 : List Nat) :
    ∀ (r iN fuel : Nat) (fin fout : Nat → Nat) (o : List Byte) (j k : Int), iN + r = H → r + W + ncomp ≤ fuel → o.length = N →
      (∀ i', i' < r → ∀ j', j' < W → ∀ k', k' < ncomp →
        fin k' + i' * (W * ia + if wrap then la else 0) + j' * ia + csz ≤ N ∧ fout k' + i' * (W * oa + if wrap then lb else 0) + j' * oa + csz ≤ N) →
      ∃ j' k' : Int, GRIil_convert.loop6 fuel (ofSt c m inOff outOff N (cst ncomp ia) (cst ncomp oa) (cst ncomp la) (cst ncomp lb)
          (mkSt ncomp fin fout o) iN j k) =
        ofSt c m inOff outOff N (cst ncomp ia) (cst ncomp oa) (cst ncomp la) (cst ncomp lb)
          ((List.range r).foldl (iBody (slice m inOff N) W ncomp csz ⟨p1, cst ncomp ia, cst ncomp la⟩ ⟨p2, cst ncomp oa, cst ncomp lb⟩ wrap)
            (mkSt ncomp fin fout o)) H j' k' := by
  intro r
  induction r with
  | zero =>
    intro iN fuel fin fout o j k hi hf lo hb
    refine ⟨j, k, ?_⟩
    have e : iN = H := by omega
    rw [loop6_stop _ _ (by simp [ofSt, mkS, hd]) (by simp [ofSt, mkS, hd, e])]
    simp [e]
  | succ r ih =>
    intro iN fuel fin fout o j k hi hf lo hb
    obtain ⟨fuel, rfl⟩ : ∃ f, fuel = f + 1 := ⟨fuel - 1, by omega⟩
    have hcond : ((ofSt c m inOff outOff N (cst ncomp ia) (cst ncomp oa) (cst ncomp la) (cst ncomp lb) (mkSt ncomp fin fout o) iN j k).i <
          ((ofSt c m inOff outOff N (cst ncomp ia) (cst ncomp oa) (cst ncomp la) (cst ncomp lb) (mkSt ncomp fin fout o) iN j k).dims.getD (Int.toNat 1) 0)) ∧
        ¬ ((ofSt c m inOff outOff N (cst ncomp ia) (cst ncomp oa) (cst ncomp la) (cst ncomp lb) (mkSt ncomp fin fout o) iN j k).gto) := by
      simp [ofSt, mkS, hd]; omega
    rw [loop6_succ _ _ (by simp [ofSt, mkS, hd]), if_pos hcond]
    -- the pixels of line `iN`
    obtain ⟨k1, h7⟩ := loop7_spec (c := c) (ila := cst ncomp la) (ola := cst ncomp lb) hp W H ncomp csz ia oa hc hn hd (iN : Int)
      W 0 (fuel + 1) fin fout o k (by omega) (by omega) lo
      (by
        intro j' hj' k' hk'
        have := hb 0 (by omega) j' hj' k' hk'
        simpa using this)
    rw [jLoop_spec] at h7
    simp only [Nat.cast_zero] at h7
    have lo1 : ((List.range W).foldl (fun o j => (List.range ncomp).foldl
        (fun o k => blit o (fout k + j * oa) (slice (slice m inOff N) (fin k + j * ia) csz)) o) o).length = N := by
      have : ∀ (l : List Nat) (o : List Byte), (l.foldl (fun o j => (List.range ncomp).foldl
          (fun o k => blit o (fout k + j * oa) (slice (slice m inOff N) (fin k + j * ia) csz)) o) o).length = o.length := by
        intro l; induction l with
        | nil => intro o; rfl
        | cons a l ih => intro o; rw [List.foldl_cons, ih, length_foldl_blit (fun k => fout k + a * oa) (fun k => fin k + a * ia)]
      rw [this, lo]
    have hb0 : ∀ S0 : GRIil_convert.St, S0 = ofSt c m inOff outOff N (cst ncomp ia) (cst ncomp oa) (cst ncomp la) (cst ncomp lb)
          (mkSt ncomp fin fout o) iN 0 k →
        GRIil_convert.loop6.body (fuel + 1) (ofSt c m inOff outOff N (cst ncomp ia) (cst ncomp oa) (cst ncomp la) (cst ncomp lb)
          (mkSt ncomp fin fout o) iN j k) =
        (fun s1 : GRIil_convert.St => (fun s2 : GRIil_convert.St => s2.set_i (s2.i + 1))
            (if (s1.inil = 1) ∨ (s1.outil = 1) then GRIil_convert.loop9 (fuel + 1) (s1.set_k 0) else s1))
          (GRIil_convert.loop7 (fuel + 1) S0) := by
      intro S0 e; rw [e]; rfl
    rw [hb0 _ rfl, h7]
    beta_reduce
    have hfold : (List.range (r + 1)).foldl (iBody (slice m inOff N) W ncomp csz ⟨p1, cst ncomp ia, cst ncomp la⟩ ⟨p2, cst ncomp oa, cst ncomp lb⟩ wrap)
          (mkSt ncomp fin fout o) =
        (List.range r).foldl (iBody (slice m inOff N) W ncomp csz ⟨p1, cst ncomp ia, cst ncomp la⟩ ⟨p2, cst ncomp oa, cst ncomp lb⟩ wrap)
          (iBody (slice m inOff N) W ncomp csz ⟨p1, cst ncomp ia, cst ncomp la⟩ ⟨p2, cst ncomp oa, cst ncomp lb⟩ wrap (mkSt ncomp fin fout o) 0) := by
      have ej : iBody (slice m inOff N) W ncomp csz ⟨p1, cst ncomp ia, cst ncomp la⟩ ⟨p2, cst ncomp oa, cst ncomp lb⟩ wrap =
          fun s _ => iBody (slice m inOff N) W ncomp csz ⟨p1, cst ncomp ia, cst ncomp la⟩ ⟨p2, cst ncomp oa, cst ncomp lb⟩ wrap s 0 := rfl
      rw [ej, foldl_range_ignore]
    have hrow : iBody (slice m inOff N) W ncomp csz ⟨p1, cst ncomp ia, cst ncomp la⟩ ⟨p2, cst ncomp oa, cst ncomp lb⟩ wrap (mkSt ncomp fin fout o) 0 =
        mkSt ncomp (fun k => fin k + (W * ia + if wrap then la else 0)) (fun k => fout k + (W * oa + if wrap then lb else 0))
          ((List.range W).foldl (fun o j => (List.range ncomp).foldl
            (fun o k => blit o (fout k + j * oa) (slice (slice m inOff N) (fin k + j * ia) csz)) o) o) := by
      simp only [iBody]
      rw [jLoop_spec]
      cases wrap with
      | true =>
        simp only [if_true]
        rw [wrapLoop_spec]
        simp only [mkSt]
        congr 1
        · apply List.map_congr_left; intro k _; omega
        · apply List.map_congr_left; intro k _; omega
      | false => simp only [Bool.false_eq_true, if_false, Nat.add_zero]
    have hbn : ∀ i', i' < r → ∀ j', j' < W → ∀ k', k' < ncomp →
        fin k' + (W * ia + if wrap then la else 0) + i' * (W * ia + if wrap then la else 0) + j' * ia + csz ≤ N ∧
        fout k' + (W * oa + if wrap then lb else 0) + i' * (W * oa + if wrap then lb else 0) + j' * oa + csz ≤ N := by
      intro i' hi' j' hj' k' hk'
      have := hb (i' + 1) (by omega) j' hj' k' hk'
      simp only [Nat.add_mul, Nat.one_mul] at this
      omega
    rw [hfold, hrow]
    cases hwr : wrap with
    | true =>
      have hcw : c.inil = 1 ∨ c.outil = 1 := hw.mpr hwr
      rw [ite_ofSt_pos hcw, ofSt_set_k]
      have h9 := loop9_spec (c := c) (m := m) (inOff := inOff) (outOff := outOff) (N := N) (ipa := cst ncomp ia) (opa := cst ncomp oa)
        (ila := cst ncomp la) (ola := cst ncomp lb) ncomp hn (iN : Int) (W : Int) (by simp) (by simp) ncomp 0 (fuel + 1)
        (mkSt ncomp (fun k => fin k + W * ia) (fun k => fout k + W * oa)
          ((List.range W).foldl (fun o j => (List.range ncomp).foldl
            (fun o k => blit o (fout k + j * oa) (slice (slice m inOff N) (fin k + j * ia) csz)) o) o))
        (by omega) (by omega) (by simp [mkSt]) (by simp [mkSt])
      rw [range_foldl_eq_range', wrapLoop_spec] at h9
      simp only [Nat.cast_zero] at h9
      rw [h9, ofSt_i, ofSt_set_i]
      subst hwr
      obtain ⟨j2, k2, h6⟩ := ih (iN + 1) fuel (fun k => fin k + (W * ia + la)) (fun k => fout k + (W * oa + lb)) _ W ncomp
        (by omega) (by omega) lo1 (by simpa using hbn)
      refine ⟨j2, k2, ?_⟩
      simp only [if_true]
      rw [← h6]
      congr 2
      · simp only [mkSt]; congr 1
        · apply List.map_congr_left; intro k _; omega
        · apply List.map_congr_left; intro k _; omega
    | false =>
      have hcw : ¬ (c.inil = 1 ∨ c.outil = 1) := fun h => by rw [hw.mp h] at hwr; cases hwr
      rw [ite_ofSt_neg hcw, ofSt_i, ofSt_set_i]
      subst hwr
      obtain ⟨j2, k2, h6⟩ := ih (iN + 1) fuel (fun k => fin k + (W * ia + 0)) (fun k => fout k + (W * oa + 0)) _ W k1
        (by omega) (by omega) lo1 (by simpa using hbn)
      refine ⟨j2, k2, ?_⟩
      simp only [Bool.false_eq_true, if_false]
      rw [← h6]
      congr 2

end
/-! ### the entry: allocation of the six blocks, the two `switch` statements, the label `done` -/

/-- a freshly malloc'ed block of `n` cells (poison value) -/
abbrev fresh (n : Nat) : List Int := List.replicate n 170

/-- `HGOTO_ERROR(DFE_ARGS, FAIL)` in the `default:` of a `switch` -/
def gotoFail (s : GRIil_convert.St) : GRIil_convert.St := (s.set_ret_value (-1)).set_gto true

/-- `switch (inil)` -/
def swIn (fuel : Nat) (s : GRIil_convert.St) : GRIil_convert.St :=
  if s.inil = 0 then GRIil_convert.loop0 fuel (s.set_i 0)
  else if s.inil = 1 then GRIil_convert.loop1 fuel (s.set_i 0)
  else if s.inil = 2 then GRIil_convert.loop2 fuel (s.set_i 0)
  else gotoFail s

/-- `switch (outil)` -/
def swOut (fuel : Nat) (s : GRIil_convert.St) : GRIil_convert.St :=
  if s.gto then s else
  if s.outil = 0 then GRIil_convert.loop3 fuel (s.set_i 0)
  else if s.outil = 1 then GRIil_convert.loop4 fuel (s.set_i 0)
  else if s.outil = 2 then GRIil_convert.loop5 fuel (s.set_i 0)
  else gotoFail s

/-- the copy loops -/
def loopsB (fuel : Nat) (s : GRIil_convert.St) : GRIil_convert.St :=
  if s.gto then s else GRIil_convert.loop6 fuel (s.set_i 0)

/-- `done: return ret_value` -/
def finishRet (s : GRIil_convert.St) : GRIil_convert.St := (s.set_gto false).set_ret s.ret_value

/-- the state after the initialisers of `ret_value`, `pixel_size`, `comp_size` -/
def S1 (inbuf outbuf inil outil ncomp nt csznt : Int) (mem dims : List Int) : GRIil_convert.St :=
  { inbuf := inbuf, mem := mem, inil := inil, outbuf := outbuf, outil := outil, dims := dims, ncomp := ncomp, nt := nt, comp_size_nt := csznt,
    in_comp_ptr_blk := [], out_comp_ptr_blk := [], in_pixel_add_blk := [], out_pixel_add_blk := [], in_line_add_blk := [], out_line_add_blk := [],
    ret_value := 0, pixel_size := (((csznt % 4294967296) * (ncomp % 4294967296))) % 4294967296, comp_size := csznt % 4294967296 }

/-- the six `malloc`s (they cannot fail in the translation) -/
def allocS (s : GRIil_convert.St) : GRIil_convert.St :=
  have s := GRIil_convert.chk s ((0 : Int) ≤ (Int.tdiv (((8 * ((s.ncomp) % 18446744073709551616))) % 18446744073709551616) 8))
  have s := (s.set_in_comp_ptr_blk (List.replicate (Int.toNat (Int.tdiv (((8 * ((s.ncomp) % 18446744073709551616))) % 18446744073709551616) 8)) 170)).set_in_comp_ptr 0
  have s := GRIil_convert.chk s ((0 : Int) ≤ (Int.tdiv (((8 * ((s.ncomp) % 18446744073709551616))) % 18446744073709551616) 8))
  have s := (s.set_out_comp_ptr_blk (List.replicate (Int.toNat (Int.tdiv (((8 * ((s.ncomp) % 18446744073709551616))) % 18446744073709551616) 8)) 170)).set_out_comp_ptr 0
  have s := GRIil_convert.chk s ((0 : Int) ≤ (Int.tdiv (((4 * ((s.ncomp) % 18446744073709551616))) % 18446744073709551616) 4))
  have s := (s.set_in_pixel_add_blk (List.replicate (Int.toNat (Int.tdiv (((4 * ((s.ncomp) % 18446744073709551616))) % 18446744073709551616) 4)) 170)).set_in_pixel_add 0
  have s := GRIil_convert.chk s ((0 : Int) ≤ (Int.tdiv (((4 * ((s.ncomp) % 18446744073709551616))) % 18446744073709551616) 4))
  have s := (s.set_out_pixel_add_blk (List.replicate (Int.toNat (Int.tdiv (((4 * ((s.ncomp) % 18446744073709551616))) % 18446744073709551616) 4)) 170)).set_out_pixel_add 0
  have s := GRIil_convert.chk s ((0 : Int) ≤ (Int.tdiv (((4 * ((s.ncomp) % 18446744073709551616))) % 18446744073709551616) 4))
  have s := (s.set_in_line_add_blk (List.replicate (Int.toNat (Int.tdiv (((4 * ((s.ncomp) % 18446744073709551616))) % 18446744073709551616) 4)) 170)).set_in_line_add 0
  have s := GRIil_convert.chk s ((0 : Int) ≤ (Int.tdiv (((4 * ((s.ncomp) % 18446744073709551616))) % 18446744073709551616) 4))
  have s := (s.set_out_line_add_blk (List.replicate (Int.toNat (Int.tdiv (((4 * ((s.ncomp) % 18446744073709551616))) % 18446744073709551616) 4)) 170)).set_out_line_add 0
  s

/-- `memcpy(outbuf, inbuf, (size_t)dims[XDIM] * (size_t)dims[YDIM] * (size_t)pixel_size)` of the `inil == outil` branch -/
def memcpyLen (s : GRIil_convert.St) : Int :=
  (((((((((s.dims.getD (Int.toNat (0)) 0)) % 18446744073709551616) * (((s.dims.getD (Int.toNat (1)) 0)) % 18446744073709551616))) % 18446744073709551616) * s.pixel_size)) % 18446744073709551616)

def memcpyB (s : GRIil_convert.St) : GRIil_convert.St :=
  have s := GRIil_convert.chk s (0 < s.dims.length)
  have s := GRIil_convert.chk s (0 ≤ 1 ∧ 1 < s.dims.length)
  have s := GRIil_convert.chk s ((0 : Int) ≤ memcpyLen s)
  have s := GRIil_convert.chk s (0 ≤ s.outbuf ∧ s.outbuf + memcpyLen s ≤ s.mem.length)
  have s := GRIil_convert.chk s (0 ≤ s.inbuf ∧ s.inbuf + memcpyLen s ≤ s.mem.length)
  have s := GRIil_convert.chk s (s.outbuf + memcpyLen s ≤ s.inbuf ∨ s.inbuf + memcpyLen s ≤ s.outbuf ∨ memcpyLen s = 0)
  s.set_mem ((s.mem.take (Int.toNat (s.outbuf))) ++ ((s.mem.drop (Int.toNat (s.inbuf))).take (Int.toNat (memcpyLen s))) ++ (s.mem.drop (Int.toNat (s.outbuf + memcpyLen s))))

/-- the control skeleton of `GRIil_convert`, by unfolding only -/
theorem entry (fuel : Nat) (inbuf outbuf inil outil ncomp nt csznt : Int) (mem dims : List Int) :
    GRIil_convert fuel inbuf mem inil outbuf outil dims ncomp nt csznt =
      finishRet (if inil = outil then memcpyB (S1 inbuf outbuf inil outil ncomp nt csznt mem dims)
        else loopsB fuel (swOut fuel (swIn fuel (allocS (S1 inbuf outbuf inil outil ncomp nt csznt mem dims))))) := rfl

/-! ### the pieces of the entry on explicit states -/

theorem emod64_nat (x : Nat) (h : x < 18446744073709551616) : ((x : Int) % 18446744073709551616) = x :=
  Int.emod_eq_of_lt (by omega) (by omega)

theorem emod32_nat (x : Nat) (h : x < 4294967296) : ((x : Int) % 4294967296) = x :=
  Int.emod_eq_of_lt (by omega) (by omega)

/-- the state after the six `malloc`s, for an `int32` component count and an element size whose product fits -/
theorem allocS_eq (inbuf outbuf inil outil nt : Int) (mem dims : List Int) (ncomp csz : Nat) (hn : ncomp < 2147483648) (hc : csz < 2147483648)
    (hpix : csz * ncomp < 2147483648) :
    allocS (S1 inbuf outbuf inil outil ncomp nt csz mem dims) =
      mkS ⟨inbuf, inil, outbuf, outil, ncomp, nt, csz, ((csz * ncomp : Nat) : Int), csz, dims⟩
        (fresh ncomp) (fresh ncomp) (fresh ncomp) (fresh ncomp) (fresh ncomp) (fresh ncomp) mem 0 0 0 := by
  have e8 : Int.tdiv (((8 * (((ncomp : Int)) % 18446744073709551616))) % 18446744073709551616) 8 = (ncomp : Int) := by
    rw [Int.emod_eq_of_lt (by omega) (by omega), Int.emod_eq_of_lt (by omega) (by omega)]
    rw [Int.mul_comm, Int.mul_tdiv_cancel _ (by omega)]
  have e4 : Int.tdiv (((4 * (((ncomp : Int)) % 18446744073709551616))) % 18446744073709551616) 4 = (ncomp : Int) := by
    rw [Int.emod_eq_of_lt (by omega) (by omega), Int.emod_eq_of_lt (by omega) (by omega)]
    rw [Int.mul_comm, Int.mul_tdiv_cancel _ (by omega)]
  have p1 : (csz : Int) % 4294967296 = csz := emod32_nat _ (by omega)
  have p2 : (ncomp : Int) % 4294967296 = ncomp := emod32_nat _ (by omega)
  have p3 : ((csz : Int) * (ncomp : Int)) % 4294967296 = ((csz * ncomp : Nat) : Int) := by
    rw [← Int.natCast_mul]; exact emod32_nat _ (by omega)
  simp only [allocS, S1, p1, p2, p3, e8, e4]
  simp [GRIil_convert.chk, mkS, e8, e4]

theorem swIn_0 (fuel : Nat) (s : GRIil_convert.St) (h : s.inil = 0) : swIn fuel s = GRIil_convert.loop0 fuel (s.set_i 0) := by
  unfold swIn; rw [h]; rfl
theorem swIn_1 (fuel : Nat) (s : GRIil_convert.St) (h : s.inil = 1) : swIn fuel s = GRIil_convert.loop1 fuel (s.set_i 0) := by
  unfold swIn; rw [h]; rfl
theorem swIn_2 (fuel : Nat) (s : GRIil_convert.St) (h : s.inil = 2) : swIn fuel s = GRIil_convert.loop2 fuel (s.set_i 0) := by
  unfold swIn; rw [h]; rfl
theorem swIn_bad (fuel : Nat) (s : GRIil_convert.St) (h : ¬ (s.inil = 0 ∨ s.inil = 1 ∨ s.inil = 2)) : swIn fuel s = gotoFail s := by
  unfold swIn; rw [if_neg (by omega), if_neg (by omega), if_neg (by omega)]
theorem swOut_0 (fuel : Nat) (s : GRIil_convert.St) (hg : s.gto = false) (h : s.outil = 0) : swOut fuel s = GRIil_convert.loop3 fuel (s.set_i 0) := by
  unfold swOut; rw [h, hg]; rfl
theorem swOut_1 (fuel : Nat) (s : GRIil_convert.St) (hg : s.gto = false) (h : s.outil = 1) : swOut fuel s = GRIil_convert.loop4 fuel (s.set_i 0) := by
  unfold swOut; rw [h, hg]; rfl
theorem swOut_2 (fuel : Nat) (s : GRIil_convert.St) (hg : s.gto = false) (h : s.outil = 2) : swOut fuel s = GRIil_convert.loop5 fuel (s.set_i 0) := by
  unfold swOut; rw [h, hg]; rfl
theorem swOut_bad (fuel : Nat) (s : GRIil_convert.St) (hg : s.gto = false) (h : ¬ (s.outil = 0 ∨ s.outil = 1 ∨ s.outil = 2)) :
    swOut fuel s = gotoFail s := by
  unfold swOut; rw [hg]; simp only [Bool.false_eq_true, if_false]; rw [if_neg (by omega), if_neg (by omega), if_neg (by omega)]

theorem code_cases (a : Il) : (a = .pixel ∧ ((a.code : Nat) : Int) = 0) ∨ (a = .line ∧ ((a.code : Nat) : Int) = 1) ∨ (a = .component ∧ ((a.code : Nat) : Int) = 2) := by
  cases a <;> simp [Il.code, H4.Gen.Hdf.MFGR_INTERLACE_PIXEL, H4.Gen.Hdf.MFGR_INTERLACE_LINE, H4.Gen.Hdf.MFGR_INTERLACE_COMPONENT]

/-- `switch (inil)` for a valid interlace: the three in-arrays are filled for all `ncomp` components -/
theorem swIn_eq (a : Il) (c : Fix) (N : Nat) (hN : c.ncomp = N) (hd : c.dims.length = 2) (hil : c.inil = (a.code : Nat)) (fuel : Nat) (hf : N ≤ fuel)
    (icp ocp ipa opa ila ola mem : List Int) (i j k : Int) (l1 : icp.length = N) (l2 : ipa.length = N) (l3 : ila.length = N) :
    swIn fuel (mkS c icp ocp ipa opa ila ola mem i j k) =
      mkS c ((List.range N).map (vBase c c.inbuf a.code)) ocp ((List.range N).map fun _ => vPix c a.code) opa
        ((List.range N).map fun _ => vLine c a.code) ola mem N j k := by
  rcases code_cases a with ⟨rfl, h⟩ | ⟨rfl, h⟩ | ⟨rfl, h⟩
  · rw [swIn_0 _ _ (show c.inil = 0 by rw [hil, h])]
    show GRIil_convert.loop0 fuel (mkS c icp ocp ipa opa ila ola mem (0 : Nat) j k) = _
    rw [loop0_spec c N hN hd mem j k N 0 fuel _ _ _ _ _ _ (by omega) hf l1 l2 l3, fillFrom_all _ _ _ l1, fillFrom_all _ _ _ l2, fillFrom_all _ _ _ l3]
    rfl
  · rw [swIn_1 _ _ (show c.inil = 1 by rw [hil, h])]
    show GRIil_convert.loop1 fuel (mkS c icp ocp ipa opa ila ola mem (0 : Nat) j k) = _
    rw [loop1_spec c N hN hd mem j k N 0 fuel _ _ _ _ _ _ (by omega) hf l1 l2 l3, fillFrom_all _ _ _ l1, fillFrom_all _ _ _ l2, fillFrom_all _ _ _ l3]
    rfl
  · rw [swIn_2 _ _ (show c.inil = 2 by rw [hil, h])]
    show GRIil_convert.loop2 fuel (mkS c icp ocp ipa opa ila ola mem (0 : Nat) j k) = _
    rw [loop2_spec c N hN hd mem j k N 0 fuel _ _ _ _ _ _ (by omega) hf l1 l2 l3, fillFrom_all _ _ _ l1, fillFrom_all _ _ _ l2, fillFrom_all _ _ _ l3]
    rfl

/-- `switch (outil)` for a valid interlace -/
theorem swOut_eq (b : Il) (c : Fix) (N : Nat) (hN : c.ncomp = N) (hd : c.dims.length = 2) (hil : c.outil = (b.code : Nat)) (fuel : Nat) (hf : N ≤ fuel)
    (icp ocp ipa opa ila ola mem : List Int) (i j k : Int) (l1 : ocp.length = N) (l2 : opa.length = N) (l3 : ola.length = N) :
    swOut fuel (mkS c icp ocp ipa opa ila ola mem i j k) =
      mkS c icp ((List.range N).map (vBase c c.outbuf b.code)) ipa ((List.range N).map fun _ => vPix c b.code)
        ila ((List.range N).map fun _ => vLine c b.code) mem N j k := by
  rcases code_cases b with ⟨rfl, h⟩ | ⟨rfl, h⟩ | ⟨rfl, h⟩
  · rw [swOut_0 _ _ rfl (show c.outil = 0 by rw [hil, h])]
    show GRIil_convert.loop3 fuel (mkS c icp ocp ipa opa ila ola mem (0 : Nat) j k) = _
    rw [loop3_spec c N hN hd mem j k N 0 fuel _ _ _ _ _ _ (by omega) hf l1 l2 l3, fillFrom_all _ _ _ l1, fillFrom_all _ _ _ l2, fillFrom_all _ _ _ l3]
    rfl
  · rw [swOut_1 _ _ rfl (show c.outil = 1 by rw [hil, h])]
    show GRIil_convert.loop4 fuel (mkS c icp ocp ipa opa ila ola mem (0 : Nat) j k) = _
    rw [loop4_spec c N hN hd mem j k N 0 fuel _ _ _ _ _ _ (by omega) hf l1 l2 l3, fillFrom_all _ _ _ l1, fillFrom_all _ _ _ l2, fillFrom_all _ _ _ l3]
    rfl
  · rw [swOut_2 _ _ rfl (show c.outil = 2 by rw [hil, h])]
    show GRIil_convert.loop5 fuel (mkS c icp ocp ipa opa ila ola mem (0 : Nat) j k) = _
    rw [loop5_spec c N hN hd mem j k N 0 fuel _ _ _ _ _ _ (by omega) hf l1 l2 l3, fillFrom_all _ _ _ l1, fillFrom_all _ _ _ l2, fillFrom_all _ _ _ l3]
    rfl

end H4.Lemmas.C09Fn
