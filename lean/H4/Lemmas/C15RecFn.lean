import H4.Gen.Fn.MfgrRec
import H4.Codecs
import H4.Lemmas.CodecsRec
import H4.Lemmas.C2LBytes
import H4.Lemmas.C02HdrFn
/-! Lemmas for `H4.Props.C15RecFn`: the DFTAG_ID / DFTAG_LD image-dimension record of the GR interface, as TRANSLATED from the C text
    of `hdf/src/mfgr.c` (`H4.Gen.Fn.MfgrRec`): the reader `Decode_diminfo` (whole function) and the writer block of `GRIupdatemeta`
    (fragment `GRIupdatemeta_id`), against the hand-written codec `H4.Codecs.encode_mfgr` / `decode_mfgr` that the C15 theorems
    (`H4.Props.C15.dim_roundtrip`, `dim_mfgr_to_old`, …) are about.  Method as in `H4.Lemmas.C02HdrFn`: restatement in macro
    combinators of `H4.C2L`, checked by the kernel against the generated definitions.  Core only. -/
set_option linter.unusedSimpArgs false
set_option linter.unusedVariables false
namespace H4.Lemmas.C15RecFn
open H4 H4.Codecs H4.Gen.Codecs H4.Gen.Fn.MfgrRec H4.C2L
open H4.Lemmas.C02HdrFn (nv8 nv16 nv32 nv8_lt nv16_lt nv32_lt val16_u8s val32_u8s)

/-! ## 1. the writer block of `GRIupdatemeta` -/

abbrev WSt := GRIupdatemeta_id.St

def wrL : Cursor WSt where
  buf := (·.p)
  pos := (·.p_i)
  ub := (·.ub)
  setBuf := GRIupdatemeta_id.St.set_p
  setPos := GRIupdatemeta_id.St.set_p_i
  chk := fun s c _ => GRIupdatemeta_id.chk s c

theorem wrLaw : wrL.Lawful where
  chk_true := by intro s c _ h; simp [wrL, GRIupdatemeta_id.chk, h]
  buf_setBuf := fun _ _ => rfl
  pos_setBuf := fun _ _ => rfl
  buf_setPos := fun _ _ => rfl
  pos_setPos := fun _ _ => rfl
  buf_chk := fun _ _ _ => rfl
  pos_chk := fun _ _ _ => rfl
  chk_setPos := fun _ _ _ _ => rfl
  chk_chk := by intro s c d _ _ h; simp [wrL, GRIupdatemeta_id.chk, h]
  chk_and := by
    intro s c d _ _
    simp only [wrL, GRIupdatemeta_id.chk, Bool.or_assoc, Bool.decide_and, Bool.not_and]
  chk_congr := by
    intro s c d _ _ h
    simp only [wrL, GRIupdatemeta_id.chk, decide_eq_decide.mpr h]
  setPos_setPos := fun _ _ _ => rfl

/-- the eight ENCODE macros (operands read from the state at entry: no store changes them) -/
def idW (s : WSt) : WSt :=
  have t : WSt := enc32 wrL s ((s.img_ptr_img_dim_xdim) % 4294967296)
  have t : WSt := enc32 wrL t ((s.img_ptr_img_dim_ydim) % 4294967296)
  have t : WSt := enc16 wrL t s.img_ptr_img_dim_nt_tag s.img_ptr_img_dim_nt_tag
  have t : WSt := enc16 wrL t s.img_ptr_img_dim_nt_ref s.img_ptr_img_dim_nt_ref
  have t : WSt := enc16s wrL t ((s.img_ptr_img_dim_ncomps) % 4294967296)
  have t : WSt := enc16s wrL t (((((0) + 32768) % 65536 - 32768)) % 4294967296)
  have t : WSt := enc16 wrL t s.img_ptr_img_dim_comp_tag s.img_ptr_img_dim_comp_tag
  have t : WSt := enc16 wrL t s.img_ptr_img_dim_comp_ref s.img_ptr_img_dim_comp_ref
  t

/-- the translated fragment with NAMED arguments -/
def GRIupdatemeta_idC (fuel : Nat) (p : List Int) (xdim ydim nt_tag nt_ref ncomps comp_tag comp_ref : Int) : WSt :=
  GRIupdatemeta_id (fuel := fuel) (p := p) (img_ptr_img_dim_xdim := xdim) (img_ptr_img_dim_ydim := ydim) (img_ptr_img_dim_nt_tag := nt_tag)
    (img_ptr_img_dim_nt_ref := nt_ref) (img_ptr_img_dim_ncomps := ncomps) (img_ptr_img_dim_comp_tag := comp_tag)
    (img_ptr_img_dim_comp_ref := comp_ref)

def wrInit (p : List Int) (xdim ydim nt_tag nt_ref ncomps comp_tag comp_ref : Int) : WSt :=
  { p := p, img_ptr_img_dim_xdim := xdim, img_ptr_img_dim_ydim := ydim, img_ptr_img_dim_nt_tag := nt_tag, img_ptr_img_dim_nt_ref := nt_ref,
    img_ptr_img_dim_ncomps := ncomps, img_ptr_img_dim_comp_tag := comp_tag, img_ptr_img_dim_comp_ref := comp_ref }

/-- **the restatement is the generated definition** (kernel check) -/
theorem GRIupdatemeta_id_phases (fuel : Nat) (p : List Int) (xdim ydim nt_tag nt_ref ncomps comp_tag comp_ref : Int) :
    GRIupdatemeta_idC fuel p xdim ydim nt_tag nt_ref ncomps comp_tag comp_ref =
      idW (wrInit p xdim ydim nt_tag nt_ref ncomps comp_tag comp_ref) := by
  kernel_rfl

theorem be16I_length (x : Int) : (be16I x).length = 2 := rfl
theorem be32I_length (x : Int) : (be32I x).length = 4 := rfl

macro "wr_bnd" : tactic => `(tactic|
  (try simp only [be32I_length, be16I_length, List.length_cons, List.length_nil, List.length_append]
   try simp only [wrL] at *
   omega))

/-- the bytes the block stores -/
def idB (xdim ydim nt_tag nt_ref ncomps comp_tag comp_ref : Int) : List Int :=
  be32I (xdim % 4294967296) ++ be32I (ydim % 4294967296) ++ be16I nt_tag ++ be16I nt_ref ++ be16I (ncomps % 4294967296) ++
    be16I (((((0) + 32768) % 65536 - 32768)) % 4294967296) ++ be16I comp_tag ++ be16I comp_ref

theorem idB_length (a b c d e f g : Int) : (idB a b c d e f g).length = 20 := rfl

theorem idW_eq (s : WSt) (h1 : 0 ≤ s.img_ptr_img_dim_nt_tag) (h2 : 0 ≤ s.img_ptr_img_dim_nt_ref) (h3 : 0 ≤ s.img_ptr_img_dim_comp_tag)
    (h4 : 0 ≤ s.img_ptr_img_dim_comp_ref) (hb : 0 ≤ s.p_i ∧ s.p_i + 20 ≤ s.p.length) :
    idW s = putN wrL s (idB s.img_ptr_img_dim_xdim s.img_ptr_img_dim_ydim s.img_ptr_img_dim_nt_tag s.img_ptr_img_dim_nt_ref
      s.img_ptr_img_dim_ncomps s.img_ptr_img_dim_comp_tag s.img_ptr_img_dim_comp_ref) := by
  unfold idW idB
  simp only []
  rw [enc32_eq wrLaw s _ (by omega) (by wr_bnd)]
  rw [enc32_putN wrLaw s _ _ (by omega) (by wr_bnd)]
  rw [enc16_putN wrLaw s _ _ _ h1 rfl (by wr_bnd)]
  rw [enc16_putN wrLaw s _ _ _ h2 rfl (by wr_bnd)]
  rw [enc16s_putN wrLaw s _ _ (by omega) (by wr_bnd)]
  rw [enc16s_putN wrLaw s _ _ (by decide) (by wr_bnd)]
  rw [enc16_putN wrLaw s _ _ _ h3 rfl (by wr_bnd)]
  rw [enc16_putN wrLaw s _ _ _ h4 rfl (by wr_bnd)]

/-! ### the model's record -/

theorem u8s_enc16 (n : Nat) : u8s (Codecs.enc16 n) = be16I (n : Int) := by
  simp only [Codecs.enc16, u8s_cons, u8s_nil, u8_toInt, be16I, and255, Nat.shiftRight_eq_div_pow]
  congr 1
  · omega
  · congr 1; omega

theorem u8s_enc32 (n : Nat) : u8s (Codecs.enc32 n) = be32I (n : Int) := by
  simp only [Codecs.enc32, u8s_cons, u8s_nil, u8_toInt, be32I, and255, Nat.shiftRight_eq_div_pow]
  congr 1; · omega
  congr 1; · omega
  congr 1; · omega
  congr 1; omega

theorem u8s_encI32 (i : Int) : u8s (encI32 i) = be32I (i % 4294967296) := by
  rw [encI32, u8s_enc32, toU32]
  congr 1
  omega

theorem be16I_mod32 (x : Int) : be16I (x % 4294967296) = be16I x := by
  simp only [be16I]
  congr 1; · omega
  congr 1; omega

theorem u8s_encI16 (i : Int) : u8s (encI16 i) = be16I i := by
  rw [encI16, u8s_enc16, toU16]
  have : (((i % 65536).toNat : Nat) : Int) = i % 65536 := by omega
  rw [this, be16I_mod]

/-- **the model's `encode_mfgr` is the bytes the block stores** (tags and refs as naturals, sizes and component count as C integers;
    the interlace on disk is `MFGR_INTERLACE_PIXEL` whatever the record says) -/
theorem model_bytes (r : DimRec) :
    u8s (encode_mfgr r) = idB r.xdim r.ydim r.ntTag r.ntRef r.ncomps r.compTag r.compRef := by
  simp only [encode_mfgr, encodeDim, u8s_append, u8s_encI32, u8s_enc16, u8s_encI16, idB, be16I_mod32, MFGR_INTERLACE_PIXEL]
  rfl

/-- the state after the block: the model's record at the start of `p`, the rest of `p` untouched -/
theorem wr_run (fuel : Nat) (p : List Int) (r : DimRec) (hb : 20 ≤ p.length) (s : WSt)
    (hs : s = GRIupdatemeta_idC fuel p r.xdim r.ydim r.ntTag r.ntRef r.ncomps r.compTag r.compRef) :
    s.ub = false ∧ s.oof = false ∧ s.p_i = 20 ∧ s.p = u8s (encode_mfgr r) ++ p.drop 20 := by
  obtain ⟨S, hS⟩ : ∃ S, S = wrInit p r.xdim r.ydim r.ntTag r.ntRef r.ncomps r.compTag r.compRef := ⟨_, rfl⟩
  obtain ⟨B, hB⟩ : ∃ B, B = idB r.xdim r.ydim r.ntTag r.ntRef r.ncomps r.compTag r.compRef := ⟨_, rfl⟩
  have hBl : B.length = 20 := by rw [hB]; rfl
  have hSp : wrL.buf S = p := by rw [hS]; rfl
  have hSi : wrL.pos S = ((0 : Nat) : Int) := by rw [hS]; rfl
  have e : s = putN wrL S B := by
    rw [hs, GRIupdatemeta_id_phases, ← hS]
    rw [idW_eq S (by rw [hS]; show (0 : Int) ≤ (r.ntTag : Int); omega) (by rw [hS]; show (0 : Int) ≤ (r.ntRef : Int); omega)
      (by rw [hS]; show (0 : Int) ≤ (r.compTag : Int); omega) (by rw [hS]; show (0 : Int) ≤ (r.compRef : Int); omega)
      (by rw [hS]; exact ⟨Int.le_refl 0, by show (0 : Int) + 20 ≤ (p.length : Int); omega⟩)]
    rw [hB, hS]
    rfl
  rw [e]
  refine ⟨?_, ?_, ?_, ?_⟩
  · rw [frame_putN wrL (·.ub) (fun _ _ => rfl) (fun _ _ => rfl) S B, hS]; rfl
  · rw [frame_putN wrL (·.oof) (fun _ _ => rfl) (fun _ _ => rfl) S B, hS]; rfl
  · have h1 := pos_putN wrLaw S B
    rw [hBl, hSi] at h1
    exact h1
  · have h2 := buf_putN wrLaw S B 0 hSi (by rw [hBl, hSp]; omega)
    rw [hBl, hSp] at h2
    show wrL.buf (putN wrL S B) = _
    rw [h2, model_bytes, ← hB]
    simp

/-! ## 2. the reader `Decode_diminfo` -/

abbrev RSt := Decode_diminfo.St

def rdL : Cursor RSt where
  buf := (·.p)
  pos := (·.p_i)
  ub := (·.ub)
  setBuf := fun s b => { s with p := b }
  setPos := Decode_diminfo.St.set_p_i
  chk := fun s c _ => Decode_diminfo.chk s c

theorem rdLaw : rdL.Lawful where
  chk_true := by intro s c _ h; simp [rdL, Decode_diminfo.chk, h]
  buf_setBuf := fun _ _ => rfl
  pos_setBuf := fun _ _ => rfl
  buf_setPos := fun _ _ => rfl
  pos_setPos := fun _ _ => rfl
  buf_chk := fun _ _ _ => rfl
  pos_chk := fun _ _ _ => rfl
  chk_setPos := fun _ _ _ _ => rfl
  chk_chk := by intro s c d _ _ h; simp [rdL, Decode_diminfo.chk, h]
  chk_and := by
    intro s c d _ _
    simp only [rdL, Decode_diminfo.chk, Bool.or_assoc, Bool.decide_and, Bool.not_and]
  chk_congr := by
    intro s c d _ _ h
    simp only [rdL, Decode_diminfo.chk, decide_eq_decide.mpr h]
  setPos_setPos := fun _ _ _ => rfl

def tX : Tgt RSt := ⟨(·.dim_info_xdim), Decode_diminfo.St.set_dim_info_xdim⟩
def tY : Tgt RSt := ⟨(·.dim_info_ydim), Decode_diminfo.St.set_dim_info_ydim⟩
def tNtTag : Tgt RSt := ⟨(·.dim_info_nt_tag), Decode_diminfo.St.set_dim_info_nt_tag⟩
def tNtRef : Tgt RSt := ⟨(·.dim_info_nt_ref), Decode_diminfo.St.set_dim_info_nt_ref⟩
def tI16 : Tgt RSt := ⟨(·.int16var), Decode_diminfo.St.set_int16var⟩
def tIl : Tgt RSt := ⟨(·.dim_info_il), Decode_diminfo.St.set_dim_info_il⟩
def tCTag : Tgt RSt := ⟨(·.dim_info_comp_tag), Decode_diminfo.St.set_dim_info_comp_tag⟩
def tCRef : Tgt RSt := ⟨(·.dim_info_comp_ref), Decode_diminfo.St.set_dim_info_comp_ref⟩

macro "tgt_law" : tactic => `(tactic| exact ⟨fun _ _ => rfl, fun _ _ _ => rfl, fun _ _ => rfl, fun _ _ => rfl, fun _ _ => rfl,
  fun _ _ _ => rfl, fun _ _ _ => rfl, fun _ _ _ _ => rfl⟩)
theorem tX_law : tX.Lawful rdL := by tgt_law
theorem tY_law : tY.Lawful rdL := by tgt_law
theorem tNtTag_law : tNtTag.Lawful rdL := by tgt_law
theorem tNtRef_law : tNtRef.Lawful rdL := by tgt_law
theorem tI16_law : tI16.Lawful rdL := by tgt_law
theorem tIl_law : tIl.Lawful rdL := by tgt_law
theorem tCTag_law : tCTag.Lawful rdL := by tgt_law
theorem tCRef_law : tCRef.Lawful rdL := by tgt_law

/-- the body of `Decode_diminfo` in macros -/
def idR (s : RSt) : RSt :=
  have s : RSt := dec32s rdL tX s
  have s : RSt := dec32s rdL tY s
  have s : RSt := dec16u rdL tNtTag s
  have s : RSt := dec16u rdL tNtRef s
  have s : RSt := dec16s rdL tI16 s
  have s : RSt := Decode_diminfo.St.set_dim_info_ncomps s (s.int16var)
  have s : RSt := dec16s rdL tIl s
  have s : RSt := dec16u rdL tCTag s
  have s : RSt := dec16u rdL tCRef s
  s

/-- the translated function with NAMED arguments (`d` = the previous contents of `*dim_info`) -/
def Decode_diminfoC (fuel : Nat) (p : List Int) (xdim ydim nt_tag nt_ref ncomps il comp_tag comp_ref : Int) : RSt :=
  Decode_diminfo (fuel := fuel) (p := p) (dim_info_xdim := xdim) (dim_info_ydim := ydim) (dim_info_nt_tag := nt_tag)
    (dim_info_nt_ref := nt_ref) (dim_info_ncomps := ncomps) (dim_info_il := il) (dim_info_comp_tag := comp_tag)
    (dim_info_comp_ref := comp_ref)

def rdInit (p : List Int) (xdim ydim nt_tag nt_ref ncomps il comp_tag comp_ref : Int) : RSt :=
  { p := p, dim_info_xdim := xdim, dim_info_ydim := ydim, dim_info_nt_tag := nt_tag, dim_info_nt_ref := nt_ref, dim_info_ncomps := ncomps,
    dim_info_il := il, dim_info_comp_tag := comp_tag, dim_info_comp_ref := comp_ref }

/-- **the restatement is the generated definition** (kernel check) -/
theorem Decode_diminfo_phases (fuel : Nat) (p : List Int) (xdim ydim nt_tag nt_ref ncomps il comp_tag comp_ref : Int) :
    Decode_diminfoC fuel p xdim ydim nt_tag nt_ref ncomps il comp_tag comp_ref =
      idR (rdInit p xdim ydim nt_tag nt_ref ncomps il comp_tag comp_ref) := by
  kernel_rfl

theorem r_tX (s : RSt) : dec32s rdL tX s =
    { s with ub := s.ub || !decide (0 ≤ s.p_i ∧ s.p_i + 4 ≤ s.p.length), p_i := s.p_i + 4, dim_info_xdim := wrapS32 (val32 s.p s.p_i) } := by
  rw [dec32s_eq rdLaw tX_law]; rfl
theorem r_tY (s : RSt) : dec32s rdL tY s =
    { s with ub := s.ub || !decide (0 ≤ s.p_i ∧ s.p_i + 4 ≤ s.p.length), p_i := s.p_i + 4, dim_info_ydim := wrapS32 (val32 s.p s.p_i) } := by
  rw [dec32s_eq rdLaw tY_law]; rfl
theorem r_tNtTag (s : RSt) : dec16u rdL tNtTag s =
    { s with ub := s.ub || !decide (0 ≤ s.p_i ∧ s.p_i + 2 ≤ s.p.length), p_i := s.p_i + 2, dim_info_nt_tag := val16 s.p s.p_i } := by
  rw [dec16u_eq rdLaw tNtTag_law]; rfl
theorem r_tNtRef (s : RSt) : dec16u rdL tNtRef s =
    { s with ub := s.ub || !decide (0 ≤ s.p_i ∧ s.p_i + 2 ≤ s.p.length), p_i := s.p_i + 2, dim_info_nt_ref := val16 s.p s.p_i } := by
  rw [dec16u_eq rdLaw tNtRef_law]; rfl
theorem r_tI16 (s : RSt) : dec16s rdL tI16 s =
    { s with ub := s.ub || !decide (0 ≤ s.p_i ∧ s.p_i + 2 ≤ s.p.length), p_i := s.p_i + 2, int16var := wrapS16 (val16 s.p s.p_i) } := by
  rw [dec16s_eq rdLaw tI16_law]; rfl
theorem r_tIl (s : RSt) : dec16s rdL tIl s =
    { s with ub := s.ub || !decide (0 ≤ s.p_i ∧ s.p_i + 2 ≤ s.p.length), p_i := s.p_i + 2, dim_info_il := wrapS16 (val16 s.p s.p_i) } := by
  rw [dec16s_eq rdLaw tIl_law]; rfl
theorem r_tCTag (s : RSt) : dec16u rdL tCTag s =
    { s with ub := s.ub || !decide (0 ≤ s.p_i ∧ s.p_i + 2 ≤ s.p.length), p_i := s.p_i + 2, dim_info_comp_tag := val16 s.p s.p_i } := by
  rw [dec16u_eq rdLaw tCTag_law]; rfl
theorem r_tCRef (s : RSt) : dec16u rdL tCRef s =
    { s with ub := s.ub || !decide (0 ≤ s.p_i ∧ s.p_i + 2 ≤ s.p.length), p_i := s.p_i + 2, dim_info_comp_ref := val16 s.p s.p_i } := by
  rw [dec16u_eq rdLaw tCRef_law]; rfl

macro "rd_eval_simp" : tactic => `(tactic|
  simp only [idR, rdInit, r_tX, r_tY, r_tNtTag, r_tNtRef, r_tI16, r_tIl, r_tCTag, r_tCRef, Decode_diminfo.St.set_dim_info_ncomps,
    Bool.false_or, Int.reduceAdd])

/-- **the translated `Decode_diminfo` on EVERY buffer** (any length, any cells): the eight fields at their offsets; `ub` exactly
    when the buffer has fewer than 20 cells (the function has no length parameter: the caller must provide 20 bytes) -/
theorem rd_eval (fuel : Nat) (p : List Int) (a b c d e f g h : Int) :
    let s := Decode_diminfoC fuel p a b c d e f g h
    s.ub = !decide (20 ≤ p.length) ∧ s.oof = false ∧ s.p_i = 20 ∧ s.dim_info_xdim = wrapS32 (val32 p 0) ∧
      s.dim_info_ydim = wrapS32 (val32 p 4) ∧ s.dim_info_nt_tag = val16 p 8 ∧ s.dim_info_nt_ref = val16 p 10 ∧
      s.dim_info_ncomps = wrapS16 (val16 p 12) ∧ s.dim_info_il = wrapS16 (val16 p 14) ∧ s.dim_info_comp_tag = val16 p 16 ∧
      s.dim_info_comp_ref = val16 p 18 := by
  intro s
  have e : s = idR (rdInit p a b c d e f g h) := Decode_diminfo_phases ..
  rw [e]
  refine ⟨?_, ?_, ?_, ?_, ?_, ?_, ?_, ?_, ?_, ?_, ?_⟩
  · show (idR _).ub = _
    rd_eval_simp
    rw [Bool.eq_iff_iff]
    simp only [Bool.or_eq_true, Bool.not_eq_true', decide_eq_false_iff_not, decide_eq_true_iff]
    omega
  all_goals (rd_eval_simp)

end H4.Lemmas.C15RecFn
