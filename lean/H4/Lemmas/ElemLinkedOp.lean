import H4.Lemmas.ElemPlain
/-! File-level lemma for `Hwrite` on a linked-block element (`HLPwrite` + the shared descriptor update). -/
namespace H4.Elem
open H4.Gen.Hdf

theorem link_setLink_same (f : File) (k : Nat × Nat) (li : LinkInfo) : (f.setLink k li).link k = some li := by
  simp [File.link, File.setLink]

theorem link_setLink_ne (f : File) (k k' : Nat × Nat) (li : LinkInfo) (h : k' ≠ k) : (f.setLink k li).link k' = f.link k' := by
  unfold File.link File.setLink
  simp only [List.find?_cons]
  have : (k == k') = false := by simp; exact fun e => h e.symm
  simp only [this]
  congr 1
  induction f.links with
  | nil => rfl
  | cons x xs ih =>
    simp only [List.filter_cons]
    by_cases hx : x.1 = k
    · have h1 : (x.1 != k) = false := by simp [hx]
      have h2 : (x.1 == k') = false := by simp [hx]; exact fun e => h e.symm
      simp only [h1, Bool.false_eq_true, if_false, List.find?_cons, h2, ih]
    · have h1 : (x.1 != k) = true := by simp [hx]
      simp only [h1, if_true, List.find?_cons, ih]

theorem setLink_dd (f : File) (k : Nat × Nat) (li : LinkInfo) (j : Nat) : (f.setLink k li).dd j = f.dd j := rfl
theorem setLink_blockExt (f : File) (k : Nat × Nat) (li : LinkInfo) (r : Nat) : (f.setLink k li).blockExt r = f.blockExt r := rfl
theorem setLink_lbyte (f : File) (k : Nat × Nat) (li li2 : LinkInfo) (i : Nat) : (f.setLink k li).lbyte li2 i = f.lbyte li2 i := rfl
theorem setLink_linkedBytes (f : File) (k : Nat × Nat) (li li2 : LinkInfo) : (f.setLink k li).linkedBytes li2 = f.linkedBytes li2 := rfl
theorem setLink_bytesAt (f : File) (k : Nat × Nat) (li : LinkInfo) (o l : Nat) : (f.setLink k li).bytesAt o l = f.bytesAt o l := rfl
theorem setLink_hasKey (f : File) (k : Nat × Nat) (li : LinkInfo) (j t r : Nat) : (f.setLink k li).hasKey j t r ↔ f.hasKey j t r := Iff.rfl
theorem setLink_live (f : File) (k : Nat × Nat) (li : LinkInfo) (j : Nat) : (f.setLink k li).live j ↔ f.live j := Iff.rfl
theorem setLink_keyOf (f : File) (k : Nat × Nat) (li : LinkInfo) (j : Nat) : (f.setLink k li).keyOf j = f.keyOf j := rfl
theorem setLink_blockSlotOf (f : File) (k : Nat × Nat) (li li2 : LinkInfo) (j : Nat) :
    (f.setLink k li).blockSlotOf li2 j ↔ f.blockSlotOf li2 j := Iff.rfl

theorem WFF.setLink {f : File} (h : WFF f) (k : Nat × Nat) (li : LinkInfo) : WFF (f.setLink k li) :=
  ⟨h.ndds_pos, h.ext_le, h.disj, h.tail0, h.uniq⟩

theorem WFL.setLink {f : File} {li2 : LinkInfo} (h : WFL f li2) (k : Nat × Nat) (li : LinkInfo) : WFL (f.setLink k li) li2 :=
  ⟨⟨h.blk_pos, h.nb_pos, h.tables_ne, h.table_len, h.block_ok, h.inj⟩, h.covers, h.zero_beyond⟩

/-- the byte string after `HLPwrite` -/
theorem linkedBytes_written {f f' : File} {li li' : LinkInfo} {hs posn : Nat} {bs : Bytes} (hl : WFL f li)
    (W : Written f li hs posn bs f' li') : f'.linkedBytes li' = specWrite (f.linkedBytes li) posn bs := by
  unfold specWrite File.linkedBytes
  simp only [List.length_map, List.length_range]
  rw [W.len]
  apply List.map_congr_left
  intro i _
  rw [W.bytes i]
  by_cases hin : posn ≤ i ∧ i < posn + bs.length
  · rw [if_pos hin, if_pos hin]
  · rw [if_neg hin, if_neg hin]
    simp only [List.getD_eq_getElem?_getD, List.getElem?_map]
    by_cases hi : i < li.length
    · simp [List.getElem?_range hi]
    · rw [List.getElem?_eq_none (by simp; omega : (List.range li.length).length ≤ i)]
      simp only [Option.map_none, Option.getD_none]
      exact hl.zero_beyond i (by omega)

end H4.Elem

namespace H4.Elem
open H4.Gen.Hdf

theorem isSpecial_linked : isSpecial DFTAG_LINKED = false := by decide
theorem baseTag_linked : baseTag DFTAG_LINKED = DFTAG_LINKED := by decide

/-- a block slot of a well-formed descriptor, seen in a later file that kept all DDs, is the same slot -/
theorem blockSlot_back {f f' : File} (hw' : WFF f') (hdd : ∀ j, f.live j → f'.dd j = f.dd j) {li : LinkInfo} {j t idx : Nat}
    (h0 : li.blockRef t idx ≠ 0) (hex : ∃ x, f.blockExt (li.blockRef t idx) = some x)
    (hk : f'.hasKey j DFTAG_LINKED (li.blockRef t idx)) : f.hasKey j DFTAG_LINKED (li.blockRef t idx) := by
  obtain ⟨x, hx⟩ := hex
  obtain ⟨j0, hk0, _⟩ := blockExt_slot hx
  have hk0' : f'.hasKey j0 DFTAG_LINKED (li.blockRef t idx) := hasKey_of_dd_keep hdd hk0
  have : j = j0 := hw'.uniq j j0 hk.1 hk0'.1 (by rw [hk.2.1, hk0'.2.1]) (by rw [hk.2.2, hk0'.2.2])
  rw [this]; exact hk0

theorem WFLs.ref_ext {f : File} {li : LinkInfo} (h : WFLs f li) (t idx : Nat) (h0 : li.blockRef t idx ≠ 0) :
    ∃ x, f.blockExt (li.blockRef t idx) = some x := by
  by_cases hi : idx < li.numBlocks
  · obtain ⟨_, o, ho⟩ := h.ref_block t idx hi h0; exact ⟨_, ho⟩
  · by_cases ht : t < li.tables.length
    · exact absurd (blockRef_idx_ge li t idx (by rw [h.table_len t ht]; omega)) h0
    · exact absurd (blockRef_ge li t idx (by omega)) h0

/-- `Hwrite` on a linked-block element keeps the file well-formed and every other element as it was -/
theorem linkedWrite_wfe (f : File) (hw : WFE f) (s : Nat) (hl : f.live s) (hsp : isSpecial (f.dd s).tag = true)
    (li : LinkInfo) (ho hlen : Nat) (hlink : f.link (f.keyOf s) = some li) (hwl : WFL f li)
    (hext : (f.dd s).ext = some (ho, hlen)) (h6 : 6 ≤ hlen) (posn : Nat) (bs : Bytes) (f' : File) (li' : LinkInfo)
    (W : Written f li s posn bs f' li') :
    WFE (f'.setLink (f.keyOf s) li') ∧
    ∀ s', f.live s' → s' ≠ s → baseTag (f.dd s').tag ≠ DFTAG_LINKED →
      (f'.setLink (f.keyOf s) li').slotBytes s' = f.slotBytes s' := by
  have hw'' : WFF (f'.setLink (f.keyOf s) li') := W.wff.setLink _ _
  have hdd : ∀ j, f.live j → (f'.setLink (f.keyOf s) li').dd j = f.dd j := fun j hj => W.dd_keep j hj
  -- a special DD of the new file is a special DD of the old one
  have hold : ∀ s1, (f'.setLink (f.keyOf s) li').live s1 → isSpecial ((f'.setLink (f.keyOf s) li').dd s1).tag = true →
      f.live s1 ∧ (f'.setLink (f.keyOf s) li').dd s1 = f.dd s1 := by
    intro s1 h1 hs1
    rcases W.new_slots s1 h1 with h2 | h2
    · exact ⟨h2, hdd s1 h2⟩
    · exfalso
      have : (f'.dd s1).tag = DFTAG_LINKED := h2
      rw [setLink_dd, this, isSpecial_linked] at hs1
      exact absurd hs1 (by decide)
  have hkey_ne : ∀ s1, f.live s1 → s1 ≠ s → f.keyOf s1 ≠ f.keyOf s := by
    intro s1 h1 hne e
    unfold File.keyOf at e
    simp only [Prod.mk.injEq] at e
    exact hne (hw.uniq s1 s h1 hl e.1 e.2)
  have hs_ne_blk : ∀ (li2 : LinkInfo) j, f.blockSlotOf li2 j → j ≠ s := by
    intro li2 j ⟨t, idx, _, hk⟩ e
    subst e
    have := hw.hdr_tag j hl hsp
    rw [hk.2.1, baseTag_linked] at this
    exact this rfl
  -- the frame for another element `s1` of the old file
  have hframe : ∀ s1, f.live s1 → s1 ≠ s → baseTag (f.dd s1).tag ≠ DFTAG_LINKED →
      (f'.setLink (f.keyOf s) li').slotBytes s1 = f.slotBytes s1 := by
    intro s1 h1 hne hut
    apply slotBytes_frame hw hw'' s1 h1 (T := fun j => j = s ∨ f.blockSlotOf li j)
    · intro j hj _; exact hdd j hj
    · rw [link_setLink_ne _ _ _ _ (hkey_ne s1 h1 hne), link_of_links W.links]
    · intro x hx hn
      show rd f'.disk x = rd f.disk x
      apply W.frame x ho hlen hx hext
      · intro t idx o l h0 hb
        obtain ⟨j, hjk, hje⟩ := blockExt_slot hb
        exact hn j o l (Or.inr ⟨t, idx, h0, hjk⟩) hjk.1 hje
      · exact hn s ho hlen (Or.inl rfl) hl hext
    · intro hT
      rcases hT with e | ⟨t, idx, _, hk⟩
      · exact hne e
      · have := hk.2.1; rw [baseTag_linked] at this; exact hut this
    · intro hs1 li2 hl2 j hb hT
      rcases hT with e | hb2
      · exact hs_ne_blk li2 j hb e
      · exact hne (hw.own s1 s li2 li j h1 hs1 hl hsp hl2 hlink hb hb2)
  refine ⟨⟨hw'', ?_, ?_, ?_⟩, hframe⟩
  · -- linked_ok
    intro s1 h1 hs1
    obtain ⟨h1f, hd1⟩ := hold s1 h1 hs1
    rw [hd1] at hs1
    by_cases e : s1 = s
    · subst e
      refine ⟨li', ho, hlen, ?_, W.wfl.setLink _ _, by rw [hd1]; exact hext, h6⟩
      rw [keyOf_eq hd1]; exact link_setLink_same _ _ _
    · obtain ⟨li1, ho1, hl1, hk1, hwl1, he1, h61⟩ := hw.linked_ok s1 h1f hs1
      refine ⟨li1, ho1, hl1, ?_, ?_, by rw [hd1]; exact he1, h61⟩
      · rw [keyOf_eq hd1, link_setLink_ne _ _ _ _ (hkey_ne s1 h1f e), link_of_links W.links]; exact hk1
      · apply WFL.setLink
        apply hwl1.frame W.wff (fun j ⟨t, idx, h0, hk⟩ => W.dd_keep j hk.1)
        intro t idx o l r h0 hb hr
        obtain ⟨j, hjk, hje⟩ := blockExt_slot hb
        have hle := hw.ext_le j o l hjk.1 hje
        apply W.frame (o + r) ho hlen (by omega) hext
        · intro t2 idx2 o2 l2 h02 hb2
          obtain ⟨j2, hjk2, hje2⟩ := blockExt_slot hb2
          have hne : j ≠ j2 := by
            intro e2
            subst e2
            exact e (hw.own s1 s li1 li j h1f hs1 hl hsp hk1 hlink ⟨t, idx, h0, hjk⟩ ⟨t2, idx2, h02, hjk2⟩)
          have := hw.disj j j2 o l o2 l2 hne hjk.1 hjk2.1 hje hje2 (o + r)
          omega
        · have hne : j ≠ s := hs_ne_blk li1 j ⟨t, idx, h0, hjk⟩
          have := hw.disj j s o l ho hlen hne hjk.1 hl hje hext (o + r)
          omega
  · -- hdr_tag
    intro s1 h1 hs1
    obtain ⟨h1f, hd1⟩ := hold s1 h1 hs1
    rw [hd1] at hs1 ⊢
    exact hw.hdr_tag s1 h1f hs1
  · -- own
    intro s1 s2 l1 l2 j h1 hs1 h2 hs2 hk1 hk2 hb1 hb2
    obtain ⟨h1f, hd1⟩ := hold s1 h1 hs1
    obtain ⟨h2f, hd2⟩ := hold s2 h2 hs2
    rw [hd1] at hs1; rw [hd2] at hs2
    rw [keyOf_eq hd1] at hk1; rw [keyOf_eq hd2] at hk2
    rw [setLink_blockSlotOf] at hb1 hb2
    -- block slots of an element other than `s` are the ones it had in `f`
    have hback : ∀ s3 l3, f.live s3 → isSpecial (f.dd s3).tag = true → s3 ≠ s →
        (f'.setLink (f.keyOf s) li').link (f.keyOf s3) = some l3 → f'.blockSlotOf l3 j →
        f.link (f.keyOf s3) = some l3 ∧ f.blockSlotOf l3 j := by
      intro s3 l3 h3 hs3 hne hk3 hb3
      rw [link_setLink_ne _ _ _ _ (hkey_ne s3 h3 hne), link_of_links W.links] at hk3
      obtain ⟨l3', _, _, hk3', hwl3, _, _⟩ := hw.linked_ok s3 h3 hs3
      rw [hk3] at hk3'; simp only [Option.some.injEq] at hk3'; subst hk3'
      obtain ⟨t, idx, h0, hk⟩ := hb3
      exact ⟨hk3, t, idx, h0, blockSlot_back W.wff W.dd_keep h0 (hwl3.toWFLs.ref_ext t idx h0) hk⟩
    -- block slots of `s` itself: old ones as in `f`, new ones on DDs that did not exist in `f`
    have hself : ∀ l3, (f'.setLink (f.keyOf s) li').link (f.keyOf s) = some l3 → f'.blockSlotOf l3 j →
        f.blockSlotOf li j ∨ ¬ f.live j := by
      intro l3 hk3 hb3
      rw [link_setLink_same] at hk3
      simp only [Option.some.injEq] at hk3; subst hk3
      obtain ⟨t, idx, h0, hk⟩ := hb3
      by_cases hold0 : li.blockRef t idx = 0
      · right
        intro hjl
        have hkf : f.hasKey j DFTAG_LINKED (li'.blockRef t idx) := by
          unfold File.hasKey File.live at *
          rw [← W.dd_keep j hjl]; exact hk
        exact W.new_fresh t idx hold0 h0 j hkf
      · left
        rw [W.refs_keep t idx hold0] at hk
        exact ⟨t, idx, hold0, blockSlot_back W.wff W.dd_keep hold0 (hwl.toWFLs.ref_ext t idx hold0) hk⟩
    by_cases e1 : s1 = s
    · by_cases e2 : s2 = s
      · rw [e1, e2]
      · exfalso
        subst e1
        obtain ⟨hk2', hb2'⟩ := hback s2 l2 h2f hs2 e2 hk2 hb2
        rcases hself l1 hk1 hb1 with hb1' | hnl
        · exact e2 (hw.own s2 s1 l2 li j h2f hs2 hl hsp hk2' hlink hb2' hb1')
        · obtain ⟨_, _, _, hk⟩ := hb2'
          exact hnl hk.1
    · by_cases e2 : s2 = s
      · exfalso
        subst e2
        obtain ⟨hk1', hb1'⟩ := hback s1 l1 h1f hs1 e1 hk1 hb1
        rcases hself l2 hk2 hb2 with hb2' | hnl
        · exact e1 (hw.own s1 s2 l1 li j h1f hs1 hl hsp hk1' hlink hb1' hb2')
        · obtain ⟨_, _, _, hk⟩ := hb1'
          exact hnl hk.1
      · obtain ⟨hk1', hb1'⟩ := hback s1 l1 h1f hs1 e1 hk1 hb1
        obtain ⟨hk2', hb2'⟩ := hback s2 l2 h2f hs2 e2 hk2 hb2
        exact hw.own s1 s2 l1 l2 j h1f hs1 h2f hs2 hk1' hk2' hb1' hb2'

end H4.Elem
